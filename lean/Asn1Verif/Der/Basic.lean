import Asn1Verif.Base.Outcome
import Asn1Verif.Gen.Consts
/-
  DER layer — mirror of
    * `src/protocol/basic/distinguished/mod.rs`: `impl<T: Read> BasicRead for T`,
      `impl<T: Write> BasicWrite for T` (identifier, length, boolean, integer i64/u64)
    * `src/rw/der.rs`: `BasicWriter::{write_number, write_boolean, write_enumerated}`,
      `BasicReader::{read_number, read_boolean, read_enumerated}` (everything else there is `todo!()`)
    * `src/descriptor/numbers.rs`: `Number::{to_i64, from_i64}` for the eight integer types

  Data: a byte is `BitVec 8`; the writer's sink (`Vec<u8>`) is the returned `List Byte`; the
  reader's source (`&[u8]`) is a `List Byte` consumed from the front, every read returns the rest.
  `read_exact` on a source with too few bytes is `err .endOfStream` (`io::ErrorKind::UnexpectedEof`).
  A `Vec<u8>` sink never fails, so writers have no `err` outcome; the three places where the writer
  subtracts are mirrored twice: `…C` with the checked (dev-profile) subtraction in `Outcome`, and a
  plain function; `BasicLemmas.write…C_eq` shows they agree on all 64-bit inputs.

  `u64::leading_zeros` is `Asn1Verif.lz64` (= `64 - (log2 n + 1)`, `64` for `0`); `u8::BITS` is the
  literal `8`, array lengths of `to_be_bytes()` are the literal `8`.  Error classes:
  `UnsupportedByteLen → .lengthExceedsLimit`, `UnexpectedTypeTag`/`UnexpectedTypeLength → .other`,
  `UnexpectedChoiceIndex → .invalidChoiceIndex`, `IoError(UnexpectedEof) → .endOfStream`.
-/
namespace Asn1Verif.Der
open Asn1Verif Outcome

abbrev Byte := BitVec 8

/-- `as u8` -/
@[inline] def u8 (n : Nat) : Byte := BitVec.ofNat 8 n

/-! ### `asn1rs_model::asn::Tag` -/

inductive TagClass where
  | universal | application | contextSpecific | private_
  deriving DecidableEq, Repr, Inhabited

structure Tag where
  cls : TagClass
  /-- `Tag::value()`, a `usize` -/
  number : Nat
  deriving DecidableEq, Repr, Inhabited

/-! ### big-endian bytes -/

/-- the `k` low-order bytes of `n`, most significant first; `beBytes 8 n = n.to_be_bytes()` -/
def beBytes : Nat → Nat → List Byte
  | 0, _ => []
  | k + 1, n => u8 (n / 256 ^ k) :: beBytes k n

/-- `u64::from_be_bytes` (any number of bytes) -/
def fromBe (bs : List Byte) : Nat := bs.foldl (fun acc b => acc * 256 + b.toNat) 0

/-! ### `std::io::Read for &[u8]` -/

/-- `read_exact(&mut buf)` with `buf.len() = n`: the bytes read and the remaining source -/
def readExact (n : Nat) (inp : List Byte) : Outcome (List Byte × List Byte) :=
  if inp.length < n then err .endOfStream else ok (inp.take n, inp.drop n)

/-- `read_exact` into a one-byte array -/
def readByte : List Byte → Outcome (Byte × List Byte)
  | [] => err .endOfStream
  | b :: rest => ok (b, rest)

/-! ### `impl<T: Read> BasicRead for T` -/

/-- `read_identifier` -/
def readIdentifier (inp : List Byte) : Outcome (Tag × List Byte) := do
  let (b, rest) ← readByte inp
  let cls := b &&& u8 Consts.DER_CLASS_BITS_MASK
  let value := (b &&& ~~~ u8 Consts.DER_CLASS_BITS_MASK).toNat
  if cls = u8 Consts.DER_CLASS_BITS_UNIVERSAL then ok (⟨.universal, value⟩, rest)
  else if cls = u8 Consts.DER_CLASS_BITS_APPLICATION then ok (⟨.application, value⟩, rest)
  else if cls = u8 Consts.DER_CLASS_BITS_CONTEXT_SPECIFIC then ok (⟨.contextSpecific, value⟩, rest)
  else if cls = u8 Consts.DER_CLASS_BITS_PRIVATE then ok (⟨.private_, value⟩, rest)
  else panic -- `_ => unreachable!()`

/-- `read_integer_u64(byte_len: u32)` -/
def readIntegerU64 (byteLen : Nat) (inp : List Byte) : Outcome (Nat × List Byte) := do
  let bytes : List Byte := List.replicate 8 0#8            -- `0u64.to_be_bytes()`
  if byteLen > bytes.length then err .lengthExceedsLimit   -- `Error::unsupported_byte_len`
  else
    let offset ← uSub bytes.length byteLen
    let (got, rest) ← readExact (bytes.length - offset) inp -- `read_exact(&mut bytes[offset..])`
    ok (fromBe (bytes.take offset ++ got), rest)

/-- `read_integer_i64(byte_len: u32)`: the same bytes, `i64::from_be_bytes` (zero extension, not
    sign extension, for `byte_len < 8`) -/
def readIntegerI64 (byteLen : Nat) (inp : List Byte) : Outcome (Int × List Byte) := do
  let bytes : List Byte := List.replicate 8 0#8
  if byteLen > bytes.length then err .lengthExceedsLimit
  else
    let offset ← uSub bytes.length byteLen
    let (got, rest) ← readExact (bytes.length - offset) inp
    ok (u64AsI64 (fromBe (bytes.take offset ++ got)), rest)

/-- `read_length` -/
def readLength (inp : List Byte) : Outcome (Nat × List Byte) := do
  let (b, rest) ← readByte inp
  if b &&& u8 Consts.DER_LENGTH_BIT_MASK = u8 Consts.DER_LENGTH_BIT_SHORT_FORM then
    ok ((b &&& ~~~ u8 Consts.DER_LENGTH_BIT_MASK).toNat, rest)
  else
    let byteLength := (b &&& ~~~ u8 Consts.DER_LENGTH_BIT_MASK).toNat   -- `as u32`
    readIntegerU64 byteLength rest

/-- `read_boolean` -/
def readBoolean (inp : List Byte) : Outcome (Bool × List Byte) := do
  let (b, rest) ← readByte inp
  ok (b != 0#8, rest)

/-! ### `impl<T: Write> BasicWrite for T` -/

def classBits : TagClass → Byte
  | .universal => u8 Consts.DER_CLASS_BITS_UNIVERSAL
  | .application => u8 Consts.DER_CLASS_BITS_APPLICATION
  | .contextSpecific => u8 Consts.DER_CLASS_BITS_CONTEXT_SPECIFIC
  | .private_ => u8 Consts.DER_CLASS_BITS_PRIVATE

/-- `write_identifier`: `identifier_octet |= tag.value() as u8` (numbers ≥ 64 spill into the class
    bits, numbers ≥ 256 are truncated) -/
def writeIdentifier (t : Tag) : List Byte := [classBits t.cls ||| u8 t.number]

/-- `write_integer_u64`: `bytes[(leading_zeros/8).min(7)..]` -/
def writeIntegerU64 (value : Nat) : List Byte :=
  let bytes := beBytes 8 value
  let offset := min (lz64 value / 8) (bytes.length - 1)
  bytes.drop offset

/-- `write_integer_i64`: the same on the two's complement bit pattern (a negative value has no
    leading zeros, so it is written with all 8 bytes) -/
def writeIntegerI64 (value : Int) : List Byte :=
  let bytes := beBytes 8 (i64AsU64 value)
  let offset := min (lz64 (i64AsU64 value) / 8) (bytes.length - 1)
  bytes.drop offset

/-- `write_length` -/
def writeLength (length : Nat) : List Byte :=
  if length ≤ Consts.DER_LENGTH_SHORT_MAX_VALUE then
    [u8 Consts.DER_LENGTH_BIT_SHORT_FORM ||| u8 length]
  else
    let leadingZeroBytes := lz64 length / 8
    let lenBytes := 8 - leadingZeroBytes
    [u8 Consts.DER_LENGTH_BIT_LONG_FORM ||| u8 lenBytes] ++ writeIntegerU64 length

/-- `write_length` with the checked subtraction `8u32 - leading_zero_bytes` -/
def writeLengthC (length : Nat) : Outcome (List Byte) :=
  if length ≤ Consts.DER_LENGTH_SHORT_MAX_VALUE then
    ok [u8 Consts.DER_LENGTH_BIT_SHORT_FORM ||| u8 length]
  else do
    let leadingZeroBytes := lz64 length / 8
    let lenBytes ← uSub 8 leadingZeroBytes
    ok ([u8 Consts.DER_LENGTH_BIT_LONG_FORM ||| u8 lenBytes] ++ writeIntegerU64 length)

/-- `write_boolean` -/
def writeBoolean (value : Bool) : List Byte := [if value then 0x01#8 else 0x00#8]

/-! ### `descriptor::numbers::Number` for `u8 u16 u32 u64 i8 i16 i32 i64` -/

structure NumTy where
  signed : Bool
  bits : Nat
  deriving DecidableEq, Repr, Inhabited

def NumTy.Valid (t : NumTy) : Prop := t.bits = 8 ∨ t.bits = 16 ∨ t.bits = 32 ∨ t.bits = 64

instance (t : NumTy) : Decidable t.Valid :=
  inferInstanceAs (Decidable (t.bits = 8 ∨ t.bits = 16 ∨ t.bits = 32 ∨ t.bits = 64))

/-- the values of the Rust type -/
def NumTy.InRange (t : NumTy) (v : Int) : Prop :=
  if t.signed then -(2 ^ (t.bits - 1) : Int) ≤ v ∧ v < 2 ^ (t.bits - 1) else 0 ≤ v ∧ v < 2 ^ t.bits

instance (t : NumTy) (v : Int) : Decidable (t.InRange v) :=
  inferInstanceAs (Decidable (if t.signed then -(2 ^ (t.bits - 1) : Int) ≤ v ∧ v < 2 ^ (t.bits - 1)
    else 0 ≤ v ∧ v < 2 ^ t.bits))

def NumTy.i64 : NumTy := ⟨true, 64⟩
def NumTy.u64 : NumTy := ⟨false, 64⟩

/-- `self as i64`: value preserving for every type except `u64`, where values `≥ 2^63` wrap -/
def NumTy.toI64 (_t : NumTy) (v : Int) : Int := u64AsI64 (i64AsU64 v)

/-- `value as $T`: keeps the low `bits` bits -/
def NumTy.fromI64 (t : NumTy) (x : Int) : Int :=
  let m := x % (2 ^ t.bits : Int)
  if t.signed then (if m < 2 ^ (t.bits - 1) then m else m - 2 ^ t.bits) else m

/-! ### `BasicWriter` (`src/rw/der.rs`) -/

/-- `write_number::<T, C>(value)` with `C::TAG = tag` -/
def writeNumber (t : NumTy) (tag : Tag) (v : Int) : List Byte :=
  let value := t.toI64 v
  let offset := lz64 (i64AsU64 value) / 8
  let len := 8 - offset
  writeIdentifier tag ++ writeLength (max len 1) ++ writeIntegerI64 value

/-- `write_number` with the checked subtraction `8u64 - offset as u64` and the checked
    `write_length` -/
def writeNumberC (t : NumTy) (tag : Tag) (v : Int) : Outcome (List Byte) := do
  let value := t.toI64 v
  let offset := lz64 (i64AsU64 value) / 8
  let len ← uSub 8 offset
  let l ← writeLengthC (max len 1)
  ok (writeIdentifier tag ++ l ++ writeIntegerI64 value)

/-- `write_boolean::<C>(value)` -/
def writeBooleanTlv (tag : Tag) (value : Bool) : List Byte :=
  writeIdentifier tag ++ writeLength 1 ++ writeBoolean value

/-- `write_enumerated(&e)` with `e.to_choice_index() = index`: an INTEGER of Rust type `u64` under
    the enumeration's tag -/
def writeEnumerated (tag : Tag) (index : Nat) : List Byte := writeNumber .u64 tag index

def writeEnumeratedC (tag : Tag) (index : Nat) : Outcome (List Byte) := writeNumberC .u64 tag index

/-! ### `BasicReader` -/

/-- `read_number::<T, C>()`: only the *number* of the tag is compared; the length is truncated to
    `u32` before it is checked against 8 -/
def readNumber (t : NumTy) (tag : Tag) (inp : List Byte) : Outcome (Int × List Byte) := do
  let (identifier, r1) ← readIdentifier inp
  if identifier.number ≠ tag.number then err .other          -- `Error::unexpected_tag`
  else
    let (len, r2) ← readLength r1
    let (x, r3) ← readIntegerI64 (len % 2 ^ 32) r2            -- `len as u32`
    ok (t.fromI64 x, r3)

/-- `read_boolean::<C>()` -/
def readBooleanTlv (tag : Tag) (inp : List Byte) : Outcome (Bool × List Byte) := do
  let (identifier, r1) ← readIdentifier inp
  if identifier.number ≠ tag.number then err .other          -- `Error::unexpected_tag`
  else
    let (length, r2) ← readLength r1
    if ¬ (1 ≤ length ∧ length < 2) then err .other            -- `Error::unexpected_length(1..2, _)`
    else readBoolean r2

/-- `read_enumerated::<C>()` for an enumeration with `variantCount` variants whose
    `from_choice_index(i)` is `Some` exactly for `i < VARIANT_COUNT` (what the generator emits) -/
def readEnumerated (tag : Tag) (variantCount : Nat) (inp : List Byte) :
    Outcome (Nat × List Byte) := do
  let (v, rest) ← readNumber .u64 tag inp
  if v.toNat < variantCount then ok (v.toNat, rest)
  else err .invalidChoiceIndex                                -- `Error::unexpected_choice_index`

end Asn1Verif.Der
