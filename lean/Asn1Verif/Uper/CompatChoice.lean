import Asn1Verif.Uper.CompatSeq
/-
  C05 — CHOICE and ENUMERATED across schema versions.
-/
namespace Asn1Verif.Uper
open Asn1Verif Outcome Per

theorem encAlt_append : ∀ (alts adds : Fields) (i : Nat) (x : Val), i < alts.length →
    encAlt (alts.append adds) i x = encAlt alts i x
  | .nil, _, _, _, h => by simp [Fields.length] at h
  | .cons k t r, adds, 0, x, _ => by simp [Fields.append, encAlt]
  | .cons k t r, adds, i + 1, x, h => by
    simp only [Fields.append, encAlt]
    exact encAlt_append r adds i x (by simp only [Fields.length] at h; omega)

theorem decAlt_append : ∀ (alts adds : Fields) (i : Nat), i < alts.length →
    decAlt (alts.append adds) i = decAlt alts i
  | .nil, _, _, h => by simp [Fields.length] at h
  | .cons k t r, adds, 0, _ => by simp [Fields.append, decAlt]
  | .cons k t r, adds, i + 1, h => by
    simp only [Fields.append, decAlt]
    exact decAlt_append r adds i (by simp only [Fields.length] at h; omega)

theorem encAlt_ok_lt : ∀ (alts : Fields) (i : Nat) (x : Val) (c : Bits), encAlt alts i x = ok c →
    i < alts.length
  | .nil, _, _, _, h => by simp [encAlt] at h
  | .cons k t r, 0, _, _, _ => by simp [Fields.length]
  | .cons k t r, i + 1, x, c, h => by
    simp only [encAlt] at h
    have := encAlt_ok_lt r i x c h
    simp only [Fields.length]; omega

/-- writing a known alternative does not depend on the alternatives added behind it -/
theorem enc_choice_append (std total total' : Nat) (ext : Bool) (alts adds : Fields) (i : Nat)
    (x : Val) (h : i < alts.length) :
    enc (.choice std total' ext (alts.append adds)) (.choice i x)
      = enc (.choice std total ext alts) (.choice i x) := by
  simp only [enc, encAlt_append alts adds i x h]

/-- forward, reader only: whatever decodes under V1 decodes to the same under V2 -/
theorem choice_read_mono (std total n : Nat) (ext : Bool) (alts adds : Fields) (inp : Bits) (pos : Nat)
    (r : Val × Nat) (hc : total = alts.length) (hs : std ≤ total)
    (h : dec (.choice std total ext alts) inp pos = ok r) :
    dec (.choice std (total + n) ext (alts.append adds)) inp pos = ok r := by
  simp only [dec] at h ⊢
  cases hi : liftL1 (rIndex std ext) inp pos with
  | err e => rw [hi] at h; cases h
  | panic => rw [hi] at h; cases h
  | ok ip =>
    obtain ⟨i, p0⟩ := ip
    rw [hi] at h
    simp only [Outcome.bind_ok] at h ⊢
    by_cases c : i ≥ std
    · simp only [c, if_true] at h ⊢
      cases hl : liftL1 (rLen none none) inp p0 with
      | err e => rw [hl] at h; cases h
      | panic => rw [hl] at h; cases h
      | ok lp =>
        rw [hl] at h
        simp only [Outcome.bind_ok] at h ⊢
        by_cases c2 : i ≥ total
        · simp [c2] at h
        · have c3 : ¬ i ≥ total + n := by omega
          simp only [c2, if_false] at h
          simp only [c3, if_false]
          rw [decAlt_append alts adds i (by omega)]
          exact h
    · simp only [c, if_false] at h ⊢
      rw [decAlt_append alts adds i (by omega)]
      exact h

/-- backward, an alternative V1 does not know: the index and the length determinant of the open
    type are read, then `InvalidChoiceIndex` — never a value -/
theorem choice_unknown (std total total' : Nat) (alts alts' : Fields) (i : Nat) (x : Val)
    (bits : Bits) (hs : std ≤ total) (hi : total ≤ i) (hstd : std ≤ U64_MAX) (hi64 : i ≤ U64_MAX)
    (h : enc (.choice std total' true alts') (.choice i x) = ok bits) (inp : Bits) (pos : Nat)
    (post : Bits) (hat : At inp pos bits post) :
    dec (.choice std total true alts) inp pos = err .invalidChoiceIndex := by
  simp only [enc] at h
  obtain ⟨idx, hidx, h⟩ := bind_ok_elim h
  obtain ⟨content, _, h⟩ := bind_ok_elim h
  have hge : i ≥ std := by omega
  simp only [hge, if_true] at h
  obtain ⟨o, ho, h⟩ := bind_ok_elim h
  injection h with h; subst h
  rw [wIndex_ext std i (by omega) hi64] at hidx
  injection hidx with hidx; subst hidx
  have ho' := openType_conform _ _ ho
  -- the open type starts with an unconstrained length determinant
  obtain ⟨n, tail, ho''⟩ : ∃ n tail, o = (X691.lenU n).1 ++ tail := by
    rw [ho']
    unfold X691.openType
    generalize (if content.isEmpty = true then [0#8] else padToBytes content) = X
    by_cases hl : X.length < 16384
    · exact ⟨_, _, fragU_lt _ _ hl⟩
    · rw [fragU_ge _ _ (by omega), List.append_assoc]; exact ⟨_, _, rfl⟩
  subst ho''
  simp only [dec]
  rw [hat.left.lift _ _ (rIndex_rt std true i _ (Or.inr rfl) hstd hi64)]
  simp only [Outcome.bind_ok, hge, if_true]
  have h2 : At inp (pos + (X691.index std true i).length) ((X691.lenU n).1 ++ tail) post := hat.right
  rw [h2.left.lift _ _ (rLen_unc n (tail ++ post))]
  have : i ≥ total := hi
  simp only [Outcome.bind_ok, this, if_true]

/-- ENUMERATED: an extension value V1 does not know -/
theorem enum_unknown (std total total' : Nat) (ext : Bool) (i : Nat) (bits : Bits)
    (hi : total ≤ i) (hstd : std ≤ U64_MAX) (hi64 : i ≤ U64_MAX)
    (h : enc (.enum std total' ext) (.enum i) = ok bits) (inp : Bits) (pos : Nat) (post : Bits)
    (hat : At inp pos bits post) :
    dec (.enum std total ext) inp pos = err .invalidChoiceIndex := by
  simp only [enc] at h
  have hadm : i < std ∨ ext = true := by
    by_cases c : i < std
    · exact Or.inl c
    · cases ext with
      | true => exact Or.inr rfl
      | false => rw [wIndex_err std i (by omega)] at h; cases h
  have hb : bits = X691.index std ext i := by
    rcases hadm with c | c
    · rw [wIndex_root std ext i c] at h; injection h with h; exact h.symm
    · subst c
      by_cases c : i < std
      · rw [wIndex_root std true i c] at h; injection h with h; exact h.symm
      · rw [wIndex_ext std i (by omega) hi64] at h; injection h with h; exact h.symm
  subst hb
  simp only [dec]
  rw [hat.lift _ _ (rIndex_rt std ext i post hadm hstd hi64)]
  have : ¬ i < total := by omega
  simp only [Outcome.bind_ok, this, if_false]

end Asn1Verif.Uper
