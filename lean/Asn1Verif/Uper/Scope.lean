import Asn1Verif.Uper.Impl
/-
  L2 — FAITHFUL mirror of the state machine of `src/rw/uper.rs`: `Scope`, `UperWriter`
  (`write_bit_field_entry`, `with_buffer`, `scope_pushed`, `scope_stashed`, every `write_*`) and
  `UperReader` (`read_bit_field_entry`, `with_buffer`, `read_whole_sub_slice`,
  `skip_unknown_extension_additions`, every `read_*`), together with the dispatch of
  `src/descriptor/*` and the generated `write_seq`/`read_seq`/`write_content`/`read_content` bodies.

  `Uper/Impl.lean` is compositional (it computes the bits from type and value); this file keeps the
  mutable state the real code keeps: the writer patches presence bits into positions it reserved
  earlier, the reader reads presence bits by position while the cursor is elsewhere, both count the
  component calls in `Scope`.  `Props/Scope.lean` proves that the two agree.

  What is mirrored literally
    * `Scope` with its four variants and `exhausted`, `encode_as_open_type_field`,
      `write_into_field`, `read_from_field` (as coded after the fix commits: window of the addition
      bitmap = announced count, `checked_add(1)`, `saturating_add`);
    * the generated constants are used where the code uses them: `stdOpt` = `C::STD_OPTIONAL_FIELDS`,
      `fieldCount` = `C::FIELD_COUNT`, `extAfter` = `C::EXTENDED_AFTER_FIELD` — never recomputed from
      the component list;
    * `scope_pushed` with its `debug_assert!(exhausted)` (dev profile ⇒ `panic`), `scope_stashed`,
      `with_buffer` on both sides, `open_type_content` (empty content = one zero octet);
    * `let _ = self.read_bit_field_entry(false);` in `read_sequence` swallows the error (the state
      changes made before the error stay), every other `read_*` propagates it with `?`;
    * `read_whole_sub_slice` does not narrow the window, on success it moves the cursor to the
      announced end (clamped by `set_pos`);
    * `read_opt` / `read_default`: `unwrap()` on `None` ⇒ `panic`.

  Modelling choices (each one is a place where the Rust state is richer than the model state)
    (W1) writer state: `bits` = the bits of `BitBuffer` up to `write_position`.  A patch
         `with_write_position_at(p, |b| b.write_bit(x))` with `p < bits.length` is `bits.set p x`.
         For `p ≥ bits.length` the real code first checks `debug_assert!(p <= 8 * buffer.len())`
         (`buffer.len() = ⌈bits.length / 8⌉` as long as (W1) has not happened before) — model:
         `panic` beyond that — and otherwise writes the bit into the padding (or into a fresh octet)
         behind the written length, where it is not part of `bits`: the model leaves `bits` as it is
         (from then on `bits` need not determine `content()` any more: the byte buffer holds a bit
         the model does not show).  To be able to SAY that this never happens, the writer carries a
         mode `strict` (a parameter of the model, not state of the code: constant during a run,
         inherited by sub-writers): with `strict = true` every patch at `p ≥ bits.length` is a
         `panic`.  `strict = false` is the behaviour of the code.
         `Props.Scope.no_patch_beyond_written`: for consistent descriptors both modes give the same
         result and never panic.
         The bits are stored last bit first (`W.rbits`: appending costs the length of what is
         appended); everything speaks about them through `W.bits`, `W.len`, `W.append`, `W.patch`.
    (W2) a failing writer returns `err`/`panic` without a state (the error is propagated by `?` up to
         the caller of `write`; nothing reads the half-written buffer).
    (W3) `usize`/`u64` additions on positions and counts (`range.start += 1`, `extension_after + 1`,
         `write_pos + STD_OPTIONAL_FIELDS`) are not checked for overflow: they count bits of a buffer
         in memory resp. components of a Rust struct.  The subtractions `FIELD_COUNT -
         (extension_after + 1)` and `number_of_ext_fields as u64 - 1` are checked (`uSub` ⇒ `panic`).
    (R1) reader state: `pos`, `len` of `Bits` over the fixed input; only the first `len` bits are
         visible (`vis`).  `len` never changes (`read_whole_sub_slice` restores what it never
         changed).  `pos ≤ len` is an invariant of `Bits` the model does not re-establish
         (`with_read_position_at` restores `pos`, not `min pos len`).
    (R2) `read_bit_field_entry` returns its result AND the state, because `read_sequence` goes on
         after an error.  The only state an error can leave behind that is not determined by the
         L1 result is the cursor after a failed `read_normally_small_length`: every primitive read
         of `Bits` checks the remaining length before it advances, so the cursor stands behind the
         last successful primitive read (`rSmallErrAdv`).  Reachable only for a MANDATORY extension
         addition of type SEQUENCE/SET (the converter wraps every addition in `Option`); checked
         against the crate with a hand-written descriptor (`Props.Scope.Counterexample`).
    (R3) the loop of `skip_unknown_extension_additions` is a well-founded recursion on
         (`ExtensibleSequence` still to be opened, bits left in the bitmap window).
    (S)  closures are first-order: `with_buffer(f)` is `enter` / `f` / `leave`, `scope_pushed(s, f)` is
         "set the scope" / `f` / `popScope`, `scope_stashed(f)` is "scope := none" / `f` / "scope back";
         the bodies `writeSeqBody`, `writeOptBody`, `readSeqCore`, `readSeqBody`, `readOptBody` take the
         generated `write_seq` / `read_seq` / `T::write_value` / `T::read_value` as a function.
    (L)  the CONTENT of the leaf types (BOOLEAN, NULL, INTEGER, ENUMERATED, the strings, OCTET/BIT
         STRING: extension bit, length, characters — code that does not touch the scope) is taken
         from `Impl.enc` / `Impl.dec` on that leaf type; new here is everything around it
         (`write_bit_field_entry`, `with_buffer`) and all constructed types.
-/
namespace Asn1Verif.Uper
open Asn1Verif Outcome Per

/-- `enum Scope` of `src/rw/uper.rs` (ranges as `start`, `stop`; the `name` is not modelled) -/
inductive Scope where
  | optBitField (start stop : Nat)
  | allBitField (start stop : Nat)
  | extensibleSequence (bitPos : Nat) (optBitField : Option (Nat × Nat))
      (callsUntilExtBitfield numberOfExtFields : Nat)
  | extensibleSequenceEmpty
  deriving DecidableEq, Repr

namespace Scope

/-- `Scope::exhausted` -/
def exhausted : Scope → Bool
  | .optBitField start stop => start == stop
  | .allBitField start stop => start == stop
  | .extensibleSequence _ obf _ _ =>
    match obf with
    | some (start, stop) => start == stop
    | none => true
  | .extensibleSequenceEmpty => true

/-- `Scope::encode_as_open_type_field` -/
def encodeAsOpenTypeField : Scope → Bool
  | .allBitField _ _ => true
  | .extensibleSequenceEmpty => true
  | _ => false

/-! ### writer -/

/-- `UperWriter`: the written bits, the scope, and the mode of (W1).  The bits are STORED last
    bit first (`rbits`), so that appending — what the writer does all the time — costs the length
    of what is appended (the compiled driver runs this model on lists of 16K+ elements); the model
    speaks about them through `W.bits` (first bit first), `W.len`, `W.append`, `W.patch`, `W.of`. -/
structure W where
  rbits : Bits
  scope : Option Scope
  strict : Bool := false
  deriving DecidableEq, Repr

/-- the written bits, first bit first (`BitBuffer` up to `write_position`) -/
def W.bits (w : W) : Bits := w.rbits.reverse

/-- `write_position` -/
def W.len (w : W) : Nat := w.rbits.length

/-- the writer that holds `bits` -/
def W.of (bits : Bits) (scope : Option Scope) (strict : Bool) : W :=
  { rbits := bits.reverse, scope := scope, strict := strict }

/-- `UperWriter::with_capacity(512)` / `default()` -/
def W.fresh (strict : Bool := false) : W := { rbits := [], scope := none, strict := strict }

/-- any L1 write: appends -/
def W.append (w : W) (b : Bits) : W := { w with rbits := b.reverse ++ w.rbits }

/-- `self.bits.with_write_position_at(p, |b| b.write_bit(bit))`, see (W1) -/
def W.patch (w : W) (p : Nat) (bit : Bool) : Outcome W :=
  if p < w.len then ok { w with rbits := w.rbits.set (w.len - 1 - p) bit }
  else if w.strict then panic
  else if p ≤ 8 * ((w.len + 7) / 8) then ok w
  else panic

/-- `Scope::write_into_field`; the result carries the new scope -/
def writeIntoField (s : Scope) (w : W) (isOpt isPresent : Bool) : Outcome W :=
  match s with
  | .optBitField start stop =>
    if isOpt then do
      let w1 ← w.patch start isPresent
      ok { w1 with scope := some (.optBitField (start + 1) stop) }
    else ok w
  | .allBitField start stop => do
    let w1 ← w.patch start isPresent
    ok { w1 with scope := some (.allBitField (start + 1) stop) }
  | .extensibleSequence bitPos obf calls nExt =>
    if calls = 0 then do
      let w1 ← w.patch bitPos isPresent
      if isPresent then do
        let n ← uSub nExt 1                          -- `*number_of_ext_fields as u64 - 1`
        let sm ← wSmall n
        let w2 := w1.append sm
        let pos := w2.len
        let w3 := w2.append (List.replicate nExt true)
        -- `pos + 1 .. buffer.write_position`
        ok { w3 with scope := some (.allBitField (pos + 1) w3.len) }
      else ok { w1 with scope := some .extensibleSequenceEmpty }
    else
      let calls' := calls - 1                        -- saturating_sub
      match obf with
      | some (start, stop) =>
        if isOpt then do
          let w1 ← w.patch start isPresent
          ok { w1 with scope := some (.extensibleSequence bitPos (some (start + 1, stop)) calls' nExt) }
        else ok { w with scope := some (.extensibleSequence bitPos obf calls' nExt) }
      | none => ok { w with scope := some (.extensibleSequence bitPos none calls' nExt) }
  | .extensibleSequenceEmpty =>
    if isPresent then err .extensionInconsistent else ok w

/-- `UperWriter::write_bit_field_entry` -/
def writeBitFieldEntry (w : W) (isOpt isPresent : Bool) : Outcome W :=
  match w.scope with
  | some s => writeIntoField s w isOpt isPresent
  | none => if isOpt then ok (w.append [isPresent]) else ok w

/-- the test of `with_buffer` -/
def openTy (scope : Option Scope) : Bool :=
  match scope with
  | some s => s.encodeAsOpenTypeField
  | none => false

/-- `with_buffer`, first half: the writer the closure runs on -/
def W.enter (w : W) : W := if openTy w.scope then W.fresh w.strict else w

/-- `with_buffer`, second half: `outer` is the writer `with_buffer` was called on, `inner` the one
    the closure has left behind.  Open type: `write_octetstring(None, None, false,
    writer.open_type_content())` (= `Impl.openType` of the bits of the sub-writer). -/
def W.leave (outer inner : W) : Outcome W :=
  if openTy outer.scope then do
    let o ← openType inner.bits
    ok (outer.append o)
  else ok inner

/-- `scope_pushed`, the part after the closure has succeeded: `debug_assert!(exhausted)` on the
    scope the closure has left, then the original scope is back -/
def W.popScope (w : W) (original : Option Scope) : Outcome W :=
  match w.scope with
  | some s => if s.exhausted then ok { w with scope := original } else panic
  | none => panic                                    -- `scope.clone().unwrap()`

/-- the common shape of the `write_*` of the leaf types: `write_bit_field_entry(false, true)?`, then
    the content inside `with_buffer`; see (L) -/
def writeLeaf (content : Outcome Bits) (w : W) : Outcome W := do
  let w1 ← writeBitFieldEntry w false true
  let c ← content
  w1.leave (w1.enter.append c)

/-- the loop of `write_sequence_of` -/
def writeListWith (f : Val → W → Outcome W) : Vals → W → Outcome W
  | .nil, w => ok w
  | .cons v vs, w => do
    let w1 ← f v w
    writeListWith f vs w1

/-- `write_sequence` behind the bit-field entry: `with_buffer(|w| { extension bit; presence bits;
    w.scope_pushed(scope, f) })`; `f` is the generated `write_seq` of the value -/
def writeSeqBody (stdOpt fieldCount : Nat) (extAfter : Option Nat) (f : W → Outcome W) (w1 : W) :
    Outcome W := do
  let wi := w1.enter
  -- the extension bit, patched by the first addition
  let bitPos := wi.len
  let wi1 := match extAfter with
    | some _ => wi.append [false]
    | none => wi
  -- one zero bit per OPTIONAL/DEFAULT root component, patched by `write_opt`/`write_default`
  let writePos := wi1.len
  let wi2 := wi1.append (List.replicate stdOpt false)
  let sc ← (match extAfter with
    | some ea => do
      let n ← uSub fieldCount (ea + 1)
      ok (Scope.extensibleSequence bitPos (some (writePos, writePos + stdOpt)) (ea + 1) n)
    | none => ok (Scope.optBitField writePos (writePos + stdOpt)) : Outcome Scope)
  -- scope_pushed
  let wf ← f { wi2 with scope := some sc }
  let wi3 ← wf.popScope wi2.scope
  w1.leave wi3

/-- `write_opt` / `write_default` of a present value behind the bit-field entry:
    `with_buffer(|w| w.scope_stashed(|w| T::write_value(w, value)))` -/
def writeOptBody (f : W → Outcome W) (w1 : W) : Outcome W := do
  let wi := w1.enter
  let wi1 ← f { wi with scope := none }
  w1.leave { wi1 with scope := wi.scope }

mutual
/-- `T::write_value(writer, value)` for the descriptor `T` of the type -/
def write : Ty → Val → W → Outcome W
  | .bool, v, w => writeLeaf (enc .bool v) w
  | .null, v, w => writeLeaf (enc .null v) w
  | .int min max ext width signed, v, w => writeLeaf (enc (.int min max ext width signed) v) w
  | .enum std total ext, v, w => writeLeaf (enc (.enum std total ext) v) w
  | .str cs min max ext, v, w => writeLeaf (enc (.str cs min max ext) v) w
  | .oct min max ext, v, w => writeLeaf (enc (.oct min max ext) v) w
  | .bits min max ext, v, w => writeLeaf (enc (.bits min max ext) v) w
  | .seqOf min max ext elem, v, w => do
    -- `write_sequence_of`: no `with_buffer`
    let w1 ← writeBitFieldEntry w false true
    match v with
    | .list vs => do
      let hdr ← wExtLen ext min max I64MAXu vs.length
      -- scope_stashed (twice)
      let w2 ← writeListWith (write elem) vs { w1.append hdr with scope := none }
      ok { w2 with scope := w1.scope }
    | _ => err .illTyped
  | .seq stdOpt fieldCount extAfter fields, v, w => do
    -- `write_sequence` (= `write_set`)
    let w1 ← writeBitFieldEntry w false true
    match v with
    | .seq vs => writeSeqBody stdOpt fieldCount extAfter (writeFields fields vs) w1
    | _ => err .illTyped
  | .choice std _ ext alts, v, w => do
    -- `write_choice`: no `with_buffer`, scope stashed
    let w1 ← writeBitFieldEntry w false true
    match v with
    | .choice i x => do
      let idx ← wIndex std ext i
      let ws : W := { w1.append idx with scope := none }
      if i ≥ std then do
        let wc ← writeAlt alts i x (W.fresh w1.strict)
        let o ← openType wc.bits
        ok { ws.append o with scope := w1.scope }
      else do
        let w2 ← writeAlt alts i x ws
        ok { w2 with scope := w1.scope }
    | _ => err .illTyped

/-- `choice.write_content(writer)`: the generated `match self { Self::Ai(c) => Ti::write_value(writer, c) }` -/
def writeAlt : Fields → Nat → Val → W → Outcome W
  | .nil, _, _, _ => err .illTyped
  | .cons _ t _, 0, v, w => write t v w
  | .cons _ _ rest, i + 1, v, w => writeAlt rest i v w

/-- the generated `write_seq`: one `AsnDef…::write_value(writer, &self.field)?` per component, where
    the descriptor is `T`, `Option<T>` (`write_opt`) or `DefaultValue<T, C>` (`write_default`) -/
def writeFields : Fields → Vals → W → Outcome W
  | .nil, vs, w =>
    match vs with
    | .nil => ok w
    | _ => err .illTyped
  | .cons k t rest, vs, w =>
    match vs with
    | .nil => err .illTyped
    | .cons v vs =>
      let stepped : Outcome W :=
        match k, v with
        | .m, v => write t v w
        | .o, .none => writeBitFieldEntry w true false
        | .o, .some x => do
          -- `write_opt`
          let w1 ← writeBitFieldEntry w true true
          writeOptBody (write t x) w1
        | .o, _ => err .illTyped
        | .d dv, v =>
          -- `write_default`: `C::DEFAULT_VALUE.ne(value)`
          let present := !(v == dv)
          if present then do
            let w1 ← writeBitFieldEntry w true true
            writeOptBody (write t v) w1
          else writeBitFieldEntry w true false
      match stepped with
      | .ok w' => writeFields rest vs w'
      | .err e => err e
      | .panic => panic
end

/-- a whole message: `UperWriter::default()`, `write`, `bit_len()`/`byte_content()` -/
def encode (t : Ty) (v : Val) : Outcome W := write t v (W.fresh false)

/-! ### reader -/

/-- `UperReader<Bits>`: cursor, visible length, scope; the input is a parameter of every function -/
structure R where
  pos : Nat
  len : Nat
  scope : Option Scope
  deriving DecidableEq, Repr

/-- the bits `Bits` lets through: the first `len` of the slice -/
def vis (inp : Bits) (len : Nat) : Bits := if inp.length ≤ len then inp else inp.take len

/-- runs an L1 reader at the cursor (like `Impl.liftL1`, on the visible bits) -/
def liftR {α : Type} (rd : Per.Rd α) (inp : Bits) (r : R) : Outcome (α × R) :=
  match liftL1 rd (vis inp r.len) r.pos with
  | .ok (a, p) => ok (a, { r with pos := p })
  | .err k => err k
  | .panic => panic

/-- `bits.with_read_position_at(p, |b| b.read_bit())`: `set_pos` clamps, `read_bit` checks `pos < len` -/
def bitAtR (inp : Bits) (r : R) (p : Nat) : Outcome Bool := bitAt (vis inp r.len) p

/-- bits consumed by a failing `read_length_determinant(None, None)`, see (R2) -/
def rLenUncErrAdv : Bits → Nat
  | [] => 0
  | false :: _ => 1
  | [true] => 1
  | true :: _ :: _ => 2

/-- bits consumed by a failing `read_normally_small_length`, see (R2) -/
def rSmallErrAdv : Bits → Nat
  | [] => 0
  | false :: _ => 1
  | true :: rest =>
    match rLen none none rest with
    | .ok (_, rest') => 1 + (rest.length - rest'.length)   -- `length > 8` or the octets are missing
    | _ => 1 + rLenUncErrAdv rest

/-- the `AllBitField` arm of `read_from_field` -/
def readFromAll (start stop : Nat) (inp : Bits) (r : R) : Outcome (Option Bool) × R :=
  if start < stop then
    (some <$> bitAtR inp r start, { r with scope := some (.allBitField (start + 1) stop) })
  else (ok (some false), { r with scope := some (.allBitField start stop) })

/-- `Scope::read_from_field`: the result and the state it leaves (also when the result is an error) -/
def readFromField (s : Scope) (inp : Bits) (r : R) (isOpt : Bool) : Outcome (Option Bool) × R :=
  match s with
  | .optBitField start stop =>
    if start ≥ stop then (ok (some false), r)
    else if isOpt then
      (some <$> bitAtR inp r start, { r with scope := some (.optBitField (start + 1) stop) })
    else (ok none, r)
  | .allBitField start stop => readFromAll start stop inp r
  | .extensibleSequence bitPos obf calls nExt =>
    if calls = 0 then
      match bitAtR inp r bitPos with
      | .ok true =>
        match liftR rSmall inp r with
        | .ok (n, r1) =>
          -- `(n as usize).checked_add(1)`
          if n + 1 > U64_MAX then (err .valueNotInRange, r1)
          else
            -- `bits.pos() .. bits.pos().saturating_add(n + 1)`, `set_pos` clamps
            let stop := min (r1.pos + (n + 1)) U64_MAX
            readFromAll r1.pos stop inp { r1 with pos := min stop r1.len }
        | .err k => (err k, { r with pos := r.pos + rSmallErrAdv ((vis inp r.len).drop r.pos) })
        | .panic => (panic, r)
      | .ok false => (ok (some false), { r with scope := some .extensibleSequenceEmpty })
      | .err k => (err k, r)
      | .panic => (panic, r)
    else
      let calls' := calls - 1                        -- saturating_sub
      match obf with
      | some (start, stop) =>
        if isOpt then
          (some <$> bitAtR inp r start,
            { r with scope := some (.extensibleSequence bitPos (some (start + 1, stop)) calls' nExt) })
        else (ok none, { r with scope := some (.extensibleSequence bitPos obf calls' nExt) })
      | none => (ok none, { r with scope := some (.extensibleSequence bitPos none calls' nExt) })
  | .extensibleSequenceEmpty => (ok (some false), r)

/-- `UperReader::read_bit_field_entry` -/
def readBitFieldEntry (inp : Bits) (r : R) (isOpt : Bool) : Outcome (Option Bool) × R :=
  match r.scope with
  | some s => readFromField s inp r isOpt
  | none =>
    if isOpt then
      match liftR rdBit inp r with
      | .ok (b, r1) => (ok (some b), r1)
      | .err k => (err k, r)
      | .panic => (panic, r)
    else (ok none, r)

/-- `self.read_bit_field_entry(is_opt)?` -/
def entryQ (inp : Bits) (r : R) (isOpt : Bool) : Outcome (Option Bool × R) :=
  match readBitFieldEntry inp r isOpt with
  | (.ok p, r1) => ok (p, r1)
  | (.err k, _) => err k
  | (.panic, _) => panic

/-- `with_buffer`, first half: in the extension part the length determinant of the open type is read
    and the end of the sub-slice computed (`read_whole_sub_slice`: the window stays as it is) -/
def R.enter (inp : Bits) (r : R) : Outcome (R × Option Nat) :=
  if openTy r.scope then do
    let (n, r1) ← liftR (rLen none none) inp r
    ok (r1, some (r1.pos + n * 8))
  else ok (r, none)

/-- `with_buffer`, second half (the closure has succeeded): `set_pos(end)` -/
def R.leave (r : R) (e : Option Nat) : R :=
  match e with
  | some endPos => { r with pos := min endPos r.len }
  | none => r

/-- `scope_pushed`, the part after the closure has succeeded -/
def R.popScope (r : R) (original : Option Scope) : Outcome R :=
  match r.scope with
  | some s => if s.exhausted then ok { r with scope := original } else panic
  | none => panic

/-- the common shape of the `read_*` of the leaf types, see (L) -/
def readLeaf (content : RdP Val) (inp : Bits) (r : R) : Outcome (Val × R) := do
  let (_, r0) ← entryQ inp r false
  let (r1, e) ← r0.enter inp
  let (v, p) ← content (vis inp r1.len) r1.pos
  ok (v, R.leave { r1 with pos := p } e)

/-- does `skip_unknown_extension_additions` go round once more? -/
def skipMore : Option Scope → Bool
  | some (.allBitField start stop) => decide (start < stop)
  | some (.extensibleSequence _ _ calls _) => calls == 0
  | _ => false

/-- termination measure of the skip loop: the bits left in the bitmap window; an
    `ExtensibleSequence` that still has to read its header counts more than any window -/
def skipMeasure : Option Scope → Nat
  | some (.allBitField start stop) => stop - start
  | some (.extensibleSequence _ _ _ _) => U64_MAX + 2
  | _ => 0

theorem readFromAll_measure {start stop : Nat} {inp : Bits} {r : R} (h : start < stop) :
    skipMeasure (readFromAll start stop inp r).2.scope < stop - start := by
  simp only [readFromAll, if_pos h, skipMeasure]
  omega

theorem readBitFieldEntry_measure {inp : Bits} {r : R} {isOpt : Bool} {p : Option Bool}
    (hm : skipMore r.scope = true) (hr : (readBitFieldEntry inp r isOpt).1 = ok p) :
    skipMeasure (readBitFieldEntry inp r isOpt).2.scope < skipMeasure r.scope := by
  unfold readBitFieldEntry at hr ⊢
  cases hs : r.scope with
  | none => simp [hs, skipMore] at hm
  | some s =>
    simp only [hs] at hr ⊢
    cases s with
    | optBitField a b => simp [hs, skipMore] at hm
    | extensibleSequenceEmpty => simp [hs, skipMore] at hm
    | allBitField a b =>
      have hab : a < b := by simpa [hs, skipMore] using hm
      exact readFromAll_measure hab
    | extensibleSequence bp obf calls nExt =>
      have hc : calls = 0 := by simpa [hs, skipMore] using hm
      subst hc
      simp only [readFromField, if_true] at hr ⊢
      cases hb : bitAtR inp r bp with
      | panic => simp [hb] at hr
      | err k => simp [hb] at hr
      | ok b =>
        cases b with
        | false => simp [skipMeasure]
        | true =>
          simp only [hb] at hr ⊢
          cases hn : liftR rSmall inp r with
          | panic => simp [hn] at hr
          | err k => simp [hn] at hr
          | ok x =>
            obtain ⟨n, r1⟩ := x
            simp only [hn] at hr ⊢
            by_cases hov : n + 1 > U64_MAX
            · simp [hov] at hr
            · simp only [if_neg hov]
              have hlt : r1.pos < min (r1.pos + (n + 1)) U64_MAX ∨
                  ¬ r1.pos < min (r1.pos + (n + 1)) U64_MAX := Decidable.em _
              rcases hlt with hlt | hlt
              · have := readFromAll_measure (inp := inp)
                  (r := { r1 with pos := min (min (r1.pos + (n + 1)) U64_MAX) r1.len }) hlt
                simp only [skipMeasure] at this ⊢
                omega
              · simp only [readFromAll, if_neg hlt, skipMeasure]
                omega

/-- `skip_unknown_extension_additions` -/
def skipUnknownAdditions (inp : Bits) (r : R) : Outcome R :=
  if hm : skipMore r.scope = true then
    match hr : (readBitFieldEntry inp r true).1 with
    | .ok p =>
      let r1 := (readBitFieldEntry inp r true).2
      if p.getD false then
        -- `read_length_determinant(None, None)?` + `read_whole_sub_slice(length, |_| Ok(()))?`
        match liftL1 (rLen none none) (vis inp r1.len) r1.pos with
        | .ok (n, p1) => skipUnknownAdditions inp { r1 with pos := min (p1 + n * 8) r1.len }
        | .err k => err k
        | .panic => panic
      else skipUnknownAdditions inp r1
    | .err k => err k
    | .panic => panic
  else ok r
termination_by skipMeasure r.scope
decreasing_by
  · exact readBitFieldEntry_measure hm hr
  · exact readBitFieldEntry_measure hm hr

/-- `n` elements of a SEQUENCE OF -/
def readListWith (f : Bits → R → Outcome (Val × R)) : Nat → Bits → R → Outcome (Vals × R)
  | 0, _, r => ok (.nil, r)
  | n + 1, inp, r => do
    let (v, r1) ← f inp r
    let (vs, r2) ← readListWith f n inp r1
    ok (.cons v vs, r2)

/-- the closure `read_sequence` hands to `with_buffer`: extension bit, presence bits,
    `r.scope_pushed(scope, f [+ skip_unknown_extension_additions])`; `f` is the generated `read_seq` -/
def readSeqCore {α : Type} (stdOpt fieldCount : Nat) (extAfter : Option Nat)
    (f : Bits → R → Outcome (α × R)) (inp : Bits) (r1 : R) : Outcome (α × R) := do
  let bitPos := r1.pos
  let (extension, r2) ← (match extAfter with
    | some ea => do
      let (b, r2) ← liftR rdBit inp r1
      ok (if b then some ea else none, r2)
    | none => ok (none, r1) : Outcome (Option Nat × R))
  if r2.len - r2.pos < stdOpt then err .endOfStream       -- `remaining()` saturates
  else
    let range := (r2.pos, r2.pos + stdOpt)
    let r3 := { r2 with pos := min range.2 r2.len }       -- `set_pos(range.end)`
    match extension with
    | some ea => do
      let n ← uSub fieldCount (ea + 1)
      let sc := Scope.extensibleSequence bitPos (some range) (ea + 1) n
      let (vs, r4) ← f inp { r3 with scope := some sc }
      let r5 ← skipUnknownAdditions inp r4
      let r6 ← r5.popScope r3.scope
      ok (vs, r6)
    | none => do
      let (vs, r4) ← f inp { r3 with scope := some (.optBitField range.1 range.2) }
      let r6 ← r4.popScope r3.scope
      ok (vs, r6)

/-- `read_sequence` behind the bit-field entry: `with_buffer(closure)` -/
def readSeqBody {α : Type} (stdOpt fieldCount : Nat) (extAfter : Option Nat)
    (f : Bits → R → Outcome (α × R)) (inp : Bits) (r0 : R) : Outcome (α × R) := do
  let (r1, e) ← r0.enter inp
  let (vs, r6) ← readSeqCore stdOpt fieldCount extAfter f inp r1
  ok (vs, r6.leave e)

/-- `read_opt` / `read_default` of a present value behind the bit-field entry:
    `with_buffer(|w| w.scope_stashed(T::read_value))` -/
def readOptBody {α : Type} (f : Bits → R → Outcome (α × R)) (inp : Bits) (r0 : R) :
    Outcome (α × R) := do
  let (r1, e) ← r0.enter inp
  let (x, r2) ← f inp { r1 with scope := none }
  ok (x, R.leave { r2 with scope := r1.scope } e)

mutual
/-- `T::read_value(reader)` for the descriptor `T` of the type -/
def read : Ty → Bits → R → Outcome (Val × R)
  | .bool, inp, r => readLeaf (dec .bool) inp r
  | .null, inp, r => readLeaf (dec .null) inp r
  | .int min max ext width signed, inp, r => readLeaf (dec (.int min max ext width signed)) inp r
  | .enum std total ext, inp, r => readLeaf (dec (.enum std total ext)) inp r
  | .str cs min max ext, inp, r => readLeaf (dec (.str cs min max ext)) inp r
  | .oct min max ext, inp, r => readLeaf (dec (.oct min max ext)) inp r
  | .bits min max ext, inp, r => readLeaf (dec (.bits min max ext)) inp r
  | .seqOf min max ext elem, inp, r => do
    -- `read_sequence_of` (with `with_buffer`, unlike the writer)
    let (_, r0) ← entryQ inp r false
    let (r1, e) ← r0.enter inp
    let (isExt, r2) ← (if ext then liftR rdBit inp r1 else ok (false, r1))
    let (len, r3) ← (if isExt then liftR (rLen none none) inp r2 else liftR (rLen min max) inp r2)
    if len > 0 then do
      -- scope_stashed
      let (vs, r4) ← readListWith (read elem) len inp { r3 with scope := none }
      ok (.list vs, R.leave { r4 with scope := r3.scope } e)
    else ok (.list .nil, r3.leave e)
  | .seq stdOpt fieldCount extAfter fields, inp, r => do
    -- `read_sequence` (= `read_set`): `let _ = self.read_bit_field_entry(false);`
    let r0 := (readBitFieldEntry inp r false).2
    let (vs, r1) ← readSeqBody stdOpt fieldCount extAfter (readFields fields) inp r0
    ok (.seq vs, r1)
  | .choice std _ ext alts, inp, r => do
    -- `read_choice`: no `with_buffer`, scope stashed
    let (_, r0) ← entryQ inp r false
    let (index, r1) ← liftR (rIndex std ext) inp { r0 with scope := none }
    if index ≥ std then do
      let (len, r2) ← liftR (rLen none none) inp r1
      -- `read_whole_sub_slice(length, |r| Ok((index, C::read_content(index, r)?)))`
      let (c, r3) ← readAlt alts index inp r2
      let r4 := { r3 with pos := min (r2.pos + len * 8) r3.len }
      match c with
      | some x => ok (.choice index x, { r4 with scope := r0.scope })
      | none => err .invalidChoiceIndex
    else do
      let (c, r3) ← readAlt alts index inp r1
      match c with
      | some x => ok (.choice index x, { r3 with scope := r0.scope })
      | none => err .invalidChoiceIndex

/-- `C::read_content(index, reader)`: the generated `match index { i => Ok(Some(Self::Ai(Ti::read_value(reader)?))), _ => Ok(None) }` -/
def readAlt : Fields → Nat → Bits → R → Outcome (Option Val × R)
  | .nil, _, _, r => ok (none, r)
  | .cons _ t _, 0, inp, r => do
    let (x, r1) ← read t inp r
    ok (some x, r1)
  | .cons _ _ rest, i + 1, inp, r => readAlt rest i inp r

/-- the generated `read_seq`: one `AsnDef…::read_value(reader)?` per component (`T`, `Option<T>`
    = `read_opt`, `DefaultValue<T, C>` = `read_default`) -/
def readFields : Fields → Bits → R → Outcome (Vals × R)
  | .nil, _, r => ok (.nil, r)
  | .cons k t rest, inp, r => do
    let (v, r1) ← (match k with
      | .m => read t inp r
      | k => do
        -- `read_opt` / `read_default`: `self.read_bit_field_entry(true)?.unwrap()`
        let (p, r0) ← entryQ inp r true
        match p with
        | none => panic
        | some true => do
          let (x, r1) ← readOptBody (read t) inp r0
          ok (k.wrap x, r1)
        | some false => ok (k.absent, r0) : Outcome (Val × R))
    let (vs, r2) ← readFields rest inp r1
    ok (.cons v vs, r2)
end

/-- a whole message from cursor `pos`: `UperReader::from((bytes, bit_len))`, `read` -/
def decode (t : Ty) (inp : Bits) (pos : Nat) : Outcome (Val × R) :=
  read t inp { pos := pos, len := inp.length, scope := none }

end Scope
end Asn1Verif.Uper
