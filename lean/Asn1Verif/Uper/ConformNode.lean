import Asn1Verif.Uper.ConformLeaf
/-
  C02, writer side — the composite nodes, each from the induction hypotheses of its children:
  open types, SEQUENCE OF, CHOICE.  (SEQUENCE / SET: `ConformSeq.lean`.)
-/
namespace Asn1Verif.Uper
open Asn1Verif Outcome Per

/-- the writer's open type is the open type of 11.2 (all lengths: the OCTET STRING writer fragments) -/
theorem openType_conform (content o : Bits) (h : openType content = ok o) :
    o = X691.openType content := by
  unfold openType at h
  exact wOctets_unc_ok _ _ h

theorem bind_ok_elim {α β : Type} {x : Outcome α} {f : α → Outcome β} {b : β}
    (h : (x >>= f) = ok b) : ∃ a, x = ok a ∧ f a = ok b := Outcome.bind_eq_ok.1 h

/-- elements of a SEQUENCE OF, given the statement for the element type -/
theorem cw_list (f : Val → Outcome Bits) (g : Val → Option Bits) (p : Val → Bool)
    (ih : ∀ v bits, p v = true → f v = ok bits → g v = some bits) :
    ∀ (vs : Vals) (body : Bits), allVals p vs = true → encListWith f vs = ok body →
      ∃ items, X691.encodeListWith g vs = some items ∧ items.flatten = body ∧
        items.length = vs.length
  | .nil, body, _, h => by
    simp only [encListWith] at h
    injection h with h; subst h
    exact ⟨[], rfl, rfl, rfl⟩
  | .cons v vs, body, hp, h => by
    simp only [allVals, Bool.and_eq_true] at hp
    simp only [encListWith] at h
    obtain ⟨a, ha, h⟩ := bind_ok_elim h
    obtain ⟨b, hb, h⟩ := bind_ok_elim h
    injection h with h; subst h
    obtain ⟨items, h1, h2, h3⟩ := cw_list f g p ih vs b hp.2 hb
    refine ⟨a :: items, ?_, ?_, ?_⟩
    · simp only [X691.encodeListWith, ih v a hp.1 ha, h1]
    · simp [h2]
    · simp [h3, Vals.length]

theorem cw_seqOf (min max : Option Nat) (ext : Bool) (elem : Ty) (v : Val) (bits : Bits)
    (hd : lenOk min max = true) (hr : rangeOk (.seqOf min max ext elem) v = true)
    (ih : ∀ v bits, rangeOk elem v = true → enc elem v = ok bits → X691.encode elem v = some bits)
    (h : enc (.seqOf min max ext elem) v = ok bits) :
    X691.encode (.seqOf min max ext elem) v = some bits := by
  cases v <;> try (simp [enc] at h; done)
  rename_i vs
  have hd := lenOk_not_dev hd
  simp only [rangeOk, Bool.and_eq_true, decide_eq_true_eq] at hr
  simp only [enc] at h
  obtain ⟨hdr, hh, h⟩ := bind_ok_elim h
  obtain ⟨body, hb, h⟩ := bind_ok_elim h
  injection h with h; subst h
  obtain ⟨items, h1, h2, h3⟩ := cw_list (enc elem) (X691.encode elem) (rangeOk elem) ih vs body hr.2 hb
  rw [← h3] at hh hr
  have := wExtLen_sized List.flatten ext min max I64MAXu items hdr hd hr.1
    (by rw [I64MAXu_eq]; omega) rfl hh
  simp only [X691.encode, h1, X691.inSize, ubNat_of_not_dev hd, this.1, if_true]
  rw [← this.2, h2]

/-- CHOICE, given the statement for the alternatives -/
theorem cw_choice (std total : Nat) (ext : Bool) (alts : Fields) (v : Val) (bits : Bits)
    (hc : total = alts.length) (hr : rangeOk (.choice std total ext alts) v = true)
    (ih : ∀ i x bits, rangeOkAlt alts i x = true → encAlt alts i x = ok bits →
      X691.encodeAlt alts i x = some bits ∧ i < alts.length)
    (h : enc (.choice std total ext alts) v = ok bits) :
    X691.encode (.choice std total ext alts) v = some bits := by
  cases v <;> try (simp [enc] at h; done)
  rename_i i x
  simp only [rangeOk, Bool.and_eq_true, decide_eq_true_eq] at hr
  simp only [enc] at h
  obtain ⟨idx, hi, h⟩ := bind_ok_elim h
  obtain ⟨content, hcn, h⟩ := bind_ok_elim h
  obtain ⟨h1, h2⟩ := ih i x content hr.2 hcn
  have hit : i < total := by omega
  simp only [X691.encode, h1]
  by_cases c : i < std
  · rw [wIndex_root std ext i c] at hi
    injection hi with hi; subst hi
    have : ¬ i ≥ std := by omega
    simp only [this, if_false] at h
    injection h with h; subst h
    simp [hit, c]
  · cases ext with
    | false => rw [wIndex_err std i (by omega)] at hi; cases hi
    | true =>
      rw [wIndex_ext std i (by omega) (by omega)] at hi
      injection hi with hi; subst hi
      have : i ≥ std := by omega
      simp only [this, if_true] at h
      obtain ⟨o, ho, h⟩ := bind_ok_elim h
      injection h with h; subst h
      rw [openType_conform _ _ ho]
      simp [hit, c]

end Asn1Verif.Uper
