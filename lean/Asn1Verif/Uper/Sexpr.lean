import Asn1Verif.Base.Text
import Asn1Verif.Uper.Types
/- S-expression text of `Ty` and `Val` (driver side of the line protocol); no theorem depends on it -/
namespace Asn1Verif.Uper
open Asn1Verif Asn1Verif.Text

inductive Sx where
  | atom (s : String)
  | list (l : List Sx)
  deriving Inhabited

/-- tokens: "(" ")" and atoms -/
def sxTokens (s : String) : List String :=
  let rec go (cs : List Char) (cur : List Char) (acc : List String) : List String :=
    match cs with
    | [] => (if cur.isEmpty then acc else String.ofList cur.reverse :: acc).reverse
    | c :: r =>
      if c = '(' ∨ c = ')' then
        let acc := if cur.isEmpty then acc else String.ofList cur.reverse :: acc
        go r [] (String.singleton c :: acc)
      else if c = ' ' then
        go r [] (if cur.isEmpty then acc else String.ofList cur.reverse :: acc)
      else go r (c :: cur) acc
  go s.toList [] []

/-- parses all top-level items; `stack` holds the open lists (innermost first, items reversed) -/
def sxParse (toks : List String) : Option (List Sx) :=
  let rec go (toks : List String) (stack : List (List Sx)) : Option (List Sx) :=
    match toks, stack with
    | [], [top] => some top.reverse
    | [], _ => none
    | "(" :: r, st => go r ([] :: st)
    | ")" :: r, cur :: parent :: st => go r ((Sx.list cur.reverse :: parent) :: st)
    | ")" :: _, _ => none
    | a :: r, cur :: st => go r ((Sx.atom a :: cur) :: st)
    | _ :: _, [] => none
  go toks [[]]

def Sx.atom? : Sx → Option String
  | .atom s => some s
  | _ => none

mutual
partial def valOfSx : Sx → Option Val
  | .list (Sx.atom "bool" :: [Sx.atom b]) => (parseBool b).map Val.bool
  | .list [Sx.atom "null"] => some Val.null
  | .list [Sx.atom "int", Sx.atom i] => (parseInt i).map Val.int
  | .list [Sx.atom "enum", Sx.atom i] => (parseNat i).map Val.enum
  | .list [Sx.atom "str", Sx.atom h] => (hexToBytes h).map Val.str
  | .list [Sx.atom "oct", Sx.atom h] => (hexToBytes h).map Val.oct
  | .list [Sx.atom "bits", Sx.atom b] => (parseBits b).map Val.bits
  | .list (Sx.atom "list" :: items) => (valsOfSx items).map Val.list
  | .list (Sx.atom "seq" :: items) => (valsOfSx items).map Val.seq
  | .list [Sx.atom "choice", Sx.atom i, v] => do
    let i ← parseNat i
    let v ← valOfSx v
    pure (Val.choice i v)
  | .list [Sx.atom "none"] => some Val.none
  | .list [Sx.atom "some", v] => (valOfSx v).map Val.some
  | _ => none
partial def valsOfSx : List Sx → Option Vals
  | [] => some .nil
  | x :: r => do
    let v ← valOfSx x
    let vs ← valsOfSx r
    pure (.cons v vs)
end

def charsetOf : String → Option Charset
  | "utf8" => some .utf8
  | "ia5" => some .ia5
  | "num" => some .numeric
  | "print" => some .printable
  | "vis" => some .visible
  | _ => none

mutual
partial def tyOfSx : Sx → Option Ty
  | .list [Sx.atom "bool"] => some .bool
  | .list [Sx.atom "null"] => some .null
  | .list [Sx.atom "int", Sx.atom mn, Sx.atom mx, Sx.atom e, Sx.atom w, Sx.atom s] => do
    pure (.int (← parseOptInt mn) (← parseOptInt mx) (← parseBool e) (← parseNat w) (← parseBool s))
  | .list [Sx.atom "enum", Sx.atom s, Sx.atom t, Sx.atom e] => do
    pure (.enum (← parseNat s) (← parseNat t) (← parseBool e))
  | .list [Sx.atom "str", Sx.atom cs, Sx.atom mn, Sx.atom mx, Sx.atom e] => do
    pure (.str (← charsetOf cs) (← parseOptNat mn) (← parseOptNat mx) (← parseBool e))
  | .list [Sx.atom "oct", Sx.atom mn, Sx.atom mx, Sx.atom e] => do
    pure (.oct (← parseOptNat mn) (← parseOptNat mx) (← parseBool e))
  | .list [Sx.atom "bits", Sx.atom mn, Sx.atom mx, Sx.atom e] => do
    pure (.bits (← parseOptNat mn) (← parseOptNat mx) (← parseBool e))
  | .list [Sx.atom "seqof", Sx.atom mn, Sx.atom mx, Sx.atom e, t] => do
    pure (.seqOf (← parseOptNat mn) (← parseOptNat mx) (← parseBool e) (← tyOfSx t))
  | .list (Sx.atom "seq" :: Sx.atom so :: Sx.atom fc :: Sx.atom ea :: fs) => do
    pure (.seq (← parseNat so) (← parseNat fc) (← parseOptNat ea) (← fieldsOfSx fs))
  | .list (Sx.atom "choice" :: Sx.atom s :: Sx.atom t :: Sx.atom e :: alts) => do
    let ts ← alts.mapM tyOfSx
    pure (.choice (← parseNat s) (← parseNat t) (← parseBool e)
      (ts.foldr (fun t acc => Fields.cons .m t acc) .nil))
  | _ => none
partial def fieldsOfSx : List Sx → Option Fields
  | [] => some .nil
  | .list [Sx.atom "m", t] :: r => do pure (.cons .m (← tyOfSx t) (← fieldsOfSx r))
  | .list [Sx.atom "o", t] :: r => do pure (.cons .o (← tyOfSx t) (← fieldsOfSx r))
  | .list [Sx.atom "d", dv, t] :: r => do pure (.cons (.d (← valOfSx dv)) (← tyOfSx t) (← fieldsOfSx r))
  | _ => none
end

mutual
partial def valToSx : Val → String
  | .bool b => "(bool " ++ boolStr b ++ ")"
  | .null => "(null)"
  | .int i => "(int " ++ toString i ++ ")"
  | .enum i => "(enum " ++ toString i ++ ")"
  | .str b => "(str " ++ bytesToHex b ++ ")"
  | .oct b => "(oct " ++ bytesToHex b ++ ")"
  | .bits b => "(bits " ++ bitsToString b ++ ")"
  | .list vs => "(list" ++ valsToSx vs ++ ")"
  | .seq vs => "(seq" ++ valsToSx vs ++ ")"
  | .choice i v => "(choice " ++ toString i ++ " " ++ valToSx v ++ ")"
  | .none => "(none)"
  | .some v => "(some " ++ valToSx v ++ ")"
partial def valsToSx : Vals → String
  | .nil => ""
  | .cons v vs => " " ++ valToSx v ++ valsToSx vs
end

end Asn1Verif.Uper
