import Asn1Verif.Uper.RoundTripNode
/-
  C01 — SEQUENCE / SET, writer side: the code-level frame lemma.  A successful run of `encFields`
  only appends to the four buffers of the accumulator, additions leave the root part alone, and the
  extension state machine moves `root → all | empty`, `all → all`, `empty → empty`.
-/
namespace Asn1Verif.Uper
open Asn1Verif Outcome Per

structure FrameC (fs : Fields) (rootLeft : Nat) (acc fin : SeqAcc) (rp rb ap ab : Bits) : Prop where
  rootPres : fin.rootPres = acc.rootPres ++ rp
  rootBody : fin.rootBody = acc.rootBody ++ rb
  addPres : fin.addPres = acc.addPres ++ ap
  addBody : fin.addBody = acc.addBody ++ ab
  rootDone : rootLeft = 0 → rp = [] ∧ rb = []
  optCount : rp.length = fs.optCount rootLeft
  stAll : acc.st = .all → fin.st = .all ∧ ap.length = fs.length - rootLeft
  stEmpty : acc.st = .empty → fin.st = .empty ∧ ap = [] ∧ ab = []
  stRoot : acc.st = .root → (fin.st = .all → ap.length = fs.length - rootLeft) ∧
    (fin.st ≠ .all → ap = [] ∧ ab = [])
  allRoot : fs.length ≤ rootLeft → fin.st = acc.st

/-- one step of the walk, as a relation between the accumulators -/
theorem step_root_ok {acc acc1 : SeqAcc} {k : Kind} {t : Ty} {p : Bool}
    {content : Unit → Outcome Bits} (h : acc.step k t true p content = ok acc1) :
    ∃ body, (if p = true then content () else ok []) = ok body ∧
      acc1 = { acc with rootPres := acc.rootPres ++ (if k.isOptional then [p] else []),
                        rootBody := acc.rootBody ++ body } := by
  rw [step_root] at h
  obtain ⟨body, hb, h⟩ := bind_ok_elim h
  injection h with h
  exact ⟨body, hb, h.symm⟩

theorem asAll_ok {acc acc1 : SeqAcc} {k : Kind} {t : Ty} {p : Bool}
    {content : Unit → Outcome Bits} (h : asAll acc k t p content = ok acc1) :
    ∃ body, (if p = true then (content () >>= fun c =>
        if (k.isOptional || t.buffersOnWrite) = true then openType c else ok c) else ok []) = ok body ∧
      acc1 = { acc with addPres := acc.addPres ++ [p], addBody := acc.addBody ++ body, st := .all } := by
  unfold asAll at h
  obtain ⟨body, hb, h⟩ := bind_ok_elim h
  injection h with h
  exact ⟨body, hb, h.symm⟩

theorem optCount_cons (k : Kind) (t : Ty) (r : Fields) (n : Nat) (h : n > 0) :
    (Fields.cons k t r).optCount n = (if k.isOptional then 1 else 0) + r.optCount (n - 1) := by
  cases n with
  | zero => omega
  | succ m => simp [Fields.optCount]

theorem optCount_zero (fs : Fields) : fs.optCount 0 = 0 := by
  cases fs <;> rfl

theorem encFields_frameC : ∀ (fs : Fields) (vs : Vals) (rootLeft : Nat) (acc fin : SeqAcc),
    encFields fs vs rootLeft acc = ok fin → ∃ rp rb ap ab, FrameC fs rootLeft acc fin rp rb ap ab
  | .nil, vs, rootLeft, acc, fin, h => by
    cases vs with
    | cons v vs => simp [encFields] at h
    | nil =>
      simp only [encFields] at h
      injection h with h; subst h
      exact ⟨[], [], [], [], by simp, by simp, by simp, by simp, fun _ => ⟨rfl, rfl⟩, by simp [Fields.optCount],
        fun h => ⟨h, by simp [Fields.length]⟩, fun h => ⟨h, rfl, rfl⟩,
        fun _ => ⟨fun _ => by simp [Fields.length], fun _ => ⟨rfl, rfl⟩⟩, fun _ => rfl⟩
  | .cons k t rest, vs, rootLeft, acc, fin, h => by
    cases vs with
    | nil => simp [encFields] at h
    | cons v vs =>
      rw [encFields_cons_view] at h
      cases hv : fieldView k v with
      | none => simp [hv] at h
      | some px =>
        obtain ⟨p, x⟩ := px
        simp only [hv] at h
        obtain ⟨acc1, hs, h⟩ := bind_ok_elim h
        obtain ⟨rp, rb, ap, ab, F⟩ := encFields_frameC rest vs (rootLeft - 1) acc1 fin h
        by_cases hroot : rootLeft > 0
        · simp only [hroot, decide_true] at hs
          obtain ⟨body, _, e1⟩ := step_root_ok hs
          subst e1
          refine ⟨(if k.isOptional then [p] else []) ++ rp, body ++ rb, ap, ab, ?_⟩
          have hlen : (Fields.cons k t rest).length - rootLeft = rest.length - (rootLeft - 1) := by
            simp only [Fields.length]; omega
          constructor
          · simpa [List.append_assoc] using F.rootPres
          · simpa [List.append_assoc] using F.rootBody
          · exact F.addPres
          · exact F.addBody
          · intro h0; omega
          · rw [optCount_cons k t rest rootLeft hroot, List.length_append, F.optCount]
            cases k.isOptional <;> simp
          · intro hst; rw [hlen]; exact F.stAll hst
          · exact F.stEmpty
          · intro hst; rw [hlen]; exact F.stRoot hst
          · intro hle
            have := F.allRoot (by simp only [Fields.length] at hle; omega)
            rw [this]
        · have h0 : rootLeft = 0 := by omega
          subst h0
          simp only [Nat.lt_irrefl, decide_false] at hs
          rw [step_add] at hs
          have hlen : (Fields.cons k t rest).length - 0 = rest.length - (0 - 1) + 1 := by
            simp only [Fields.length]; omega
          have hr0 := F.rootDone rfl
          have hopt : ([] : Bits).length = (Fields.cons k t rest).optCount 0 := by
            simp [Fields.optCount]
          cases hst : acc.st with
          | all =>
            simp only [hst] at hs
            obtain ⟨body, _, e1⟩ := asAll_ok hs
            subst e1
            have := F.stAll rfl
            refine ⟨[], [], [p] ++ ap, body ++ ab, ?_⟩
            constructor
            · rw [F.rootPres, hr0.1]
            · rw [F.rootBody, hr0.2]
            · simpa [List.append_assoc] using F.addPres
            · simpa [List.append_assoc] using F.addBody
            · intro _; exact ⟨rfl, rfl⟩
            · exact hopt
            · intro _; refine ⟨this.1, ?_⟩
              rw [hlen, List.length_append, this.2]; simp; omega
            · intro h'; rw [hst] at h'; cases h'
            · intro h'; rw [hst] at h'; cases h'
            · intro hle; simp only [Fields.length] at hle; omega
          | empty =>
            simp only [hst] at hs
            cases p with
            | true => simp at hs
            | false =>
              simp only [Bool.false_eq_true, if_false] at hs
              injection hs with hs; subst hs
              have := F.stEmpty hst
              refine ⟨[], [], [], [], ?_⟩
              constructor
              · rw [F.rootPres, hr0.1]
              · rw [F.rootBody, hr0.2]
              · rw [F.addPres, this.2.1]
              · rw [F.addBody, this.2.2]
              · intro _; exact ⟨rfl, rfl⟩
              · exact hopt
              · intro h'; rw [hst] at h'; cases h'
              · intro _; exact ⟨this.1, rfl, rfl⟩
              · intro h'; rw [hst] at h'; cases h'
              · intro hle; simp only [Fields.length] at hle; omega
          | root =>
            simp only [hst] at hs
            cases p with
            | true =>
              simp only [if_true] at hs
              obtain ⟨body, _, e1⟩ := asAll_ok hs
              subst e1
              have := F.stAll rfl
              refine ⟨[], [], [true] ++ ap, body ++ ab, ?_⟩
              constructor
              · rw [F.rootPres, hr0.1]
              · rw [F.rootBody, hr0.2]
              · simpa [List.append_assoc] using F.addPres
              · simpa [List.append_assoc] using F.addBody
              · intro _; exact ⟨rfl, rfl⟩
              · exact hopt
              · intro h'; rw [hst] at h'; cases h'
              · intro h'; rw [hst] at h'; cases h'
              · intro _
                refine ⟨fun _ => ?_, fun hne => absurd this.1 hne⟩
                rw [hlen, List.length_append, this.2]; simp; omega
              · intro hle; simp only [Fields.length] at hle; omega
            | false =>
              simp only [Bool.false_eq_true, if_false] at hs
              injection hs with hs; subst hs
              have := F.stEmpty rfl
              refine ⟨[], [], [], [], ?_⟩
              constructor
              · rw [F.rootPres, hr0.1]
              · rw [F.rootBody, hr0.2]
              · rw [F.addPres, this.2.1]
              · rw [F.addBody, this.2.2]
              · intro _; exact ⟨rfl, rfl⟩
              · exact hopt
              · intro h'; rw [hst] at h'; cases h'
              · intro h'; rw [hst] at h'; cases h'
              · intro _
                refine ⟨fun ha => ?_, fun _ => ⟨rfl, rfl⟩⟩
                rw [this.1] at ha; cases ha
              · intro hle; simp only [Fields.length] at hle; omega

end Asn1Verif.Uper
