import Asn1Verif.Uper.ScopeRefineW
/-
  L2 — refinement, writer side: the position-patching writer of `Uper/Scope.lean` computes, for
  every consistent descriptor, what the compositional mirror `Impl.enc` computes — in any enclosing
  scope (`write_eq_comp`), by mutual structural induction over `Ty` / `Fields`.
-/
namespace Asn1Verif.Uper
open Asn1Verif Outcome Per

namespace Scope

theorem bind_ok_right {α : Type} (x : Outcome α) : (x >>= fun a => ok a) = x := by
  cases x <;> rfl

/-- outside of any scope: the callee appends its encoding -/
def Plain (f : W → Outcome W) (g : Outcome Bits) : Prop :=
  ∀ b st, f (W.of b none st) = g >>= fun c => ok (W.of (b ++ c) none st)

theorem plain_of_comp {f : W → Outcome W} {g : Outcome Bits} {wrap : Bool}
    (h : ∀ w, f w = comp false true wrap g w) : Plain f g := by
  intro b st
  rw [h, comp_none]

theorem writeListWith_eq (f : Val → W → Outcome W) (g : Val → Outcome Bits)
    (hf : ∀ v, Plain (f v) (g v)) : ∀ vs, Plain (writeListWith f vs) (encListWith g vs)
  | .nil => by intro b st; simp [writeListWith, encListWith]
  | .cons v vs => by
    intro b st
    simp only [writeListWith, encListWith]
    rw [hf v b st]
    cases g v with
    | ok a =>
      simp only [bind_ok]
      rw [writeListWith_eq f g hf vs]
      cases encListWith g vs with
      | ok c => simp [List.append_assoc]
      | err k => rfl
      | panic => rfl
    | err k => rfl
    | panic => rfl

/-- `write_opt` / `write_default` of a present value -/
theorem writeOptBody_eq (f : W → Outcome W) (g : Outcome Bits) (hf : Plain f g) (w1 : W) :
    writeOptBody f w1 =
      g >>= fun c => (if openTy w1.scope then openType c else ok c) >>= fun b => ok (w1.append b) := by
  simp only [writeOptBody]
  obtain ⟨X, sc, st, hX⟩ : ∃ X sc st, w1.enter = W.of X sc st := ⟨_, _, _, eq_of _⟩
  rw [hX, of_with_scope, hf]
  cases g with
  | ok c =>
    simp only [bind_ok, of_with_scope, of_scope]
    rw [← of_append, ← hX]
    exact leave_enter_append w1 c
  | err k => rfl
  | panic => rfl

/-- one component of the generated `write_seq`, uniformly in the kind -/
theorem writeFields_cons (k : Kind) (t : Ty) (rest : Fields) (v : Val) (vs : Vals) (w : W)
    (hw : ∀ v w, write t v w = comp false true t.buffersOnWrite (enc t v) w) :
    writeFields (.cons k t rest) (.cons v vs) w =
      match presentOf k v with
      | none => err .illTyped
      | some p =>
        comp k.isOptional p (k.isOptional || t.buffersOnWrite) (enc t (contentOf k v)) w >>= fun w' =>
          writeFields rest vs w' := by
  have hopt : ∀ x, (writeBitFieldEntry w true true >>= fun w1 => writeOptBody (write t x) w1) =
      comp true true true (enc t x) w := by
    intro x
    unfold comp
    cases writeBitFieldEntry w true true with
    | ok w1 =>
      simp only [bind_ok, if_true, Bool.true_and]
      exact writeOptBody_eq _ _ (plain_of_comp (hw x)) w1
    | err k => rfl
    | panic => rfl
  have habs : writeBitFieldEntry w true false = comp true false true (enc t v) w := by
    unfold comp
    simp only [Bool.false_eq_true, if_false, bind_ok_right]
  cases k with
  | m =>
    simp only [writeFields, presentOf, contentOf, Kind.isOptional, Bool.false_or, hw]
    generalize comp _ _ _ _ _ = x; cases x <;> rfl
  | d dv =>
    simp only [writeFields, presentOf, contentOf, Kind.isOptional, Bool.true_or]
    cases hb : (!(v == dv)) with
    | true =>
      simp only [if_true]
      rw [hopt v]
      generalize comp _ _ _ _ _ = x; cases x <;> rfl
    | false =>
      simp only [Bool.false_eq_true, if_false, habs]
      generalize comp _ _ _ _ _ = x; cases x <;> rfl
  | o =>
    cases v <;> simp only [writeFields, presentOf, contentOf, Kind.isOptional, Bool.true_or] <;> try rfl
    · rw [habs]
      generalize comp _ _ _ _ _ = x; cases x <;> rfl
    · rename_i x
      rw [hopt x]
      generalize comp _ _ _ _ _ = y; cases y <;> rfl

mutual
/-- the refinement in an arbitrary enclosing scope: `T::write_value` is one component call whose
    content is the compositional encoding -/
theorem write_eq_comp : ∀ (t : Ty), t.consistent = true → ∀ (v : Val) (w : W),
    write t v w = comp false true t.buffersOnWrite (enc t v) w
  | .bool, _, v, w => by simp only [write, writeLeaf_eq_comp, Ty.buffersOnWrite]
  | .null, _, v, w => by simp only [write, writeLeaf_eq_comp, Ty.buffersOnWrite]
  | .int .., _, v, w => by simp only [write, writeLeaf_eq_comp, Ty.buffersOnWrite]
  | .enum .., _, v, w => by simp only [write, writeLeaf_eq_comp, Ty.buffersOnWrite]
  | .str .., _, v, w => by simp only [write, writeLeaf_eq_comp, Ty.buffersOnWrite]
  | .oct .., _, v, w => by simp only [write, writeLeaf_eq_comp, Ty.buffersOnWrite]
  | .bits .., _, v, w => by simp only [write, writeLeaf_eq_comp, Ty.buffersOnWrite]
  | .seqOf min max ext elem, hc, v, w => by
    have hc' : elem.consistent = true := by simpa [Ty.consistent] using hc
    have hl := writeListWith_eq (write elem) (enc elem)
      (fun v => plain_of_comp (write_eq_comp elem hc' v))
    simp only [write, comp, Ty.buffersOnWrite, Bool.false_and, Bool.false_eq_true, if_false, if_true]
    cases writeBitFieldEntry w false true with
    | err k => rfl
    | panic => rfl
    | ok w1 =>
      simp only [bind_ok]
      cases v <;> simp only [enc, bind_err] <;> try rfl
      rename_i vs
      cases wExtLen ext min max I64MAXu vs.length with
      | err k => rfl
      | panic => rfl
      | ok hdr =>
        simp only [bind_ok]
        have h1 : ({ w1.append hdr with scope := none } : W) = W.of (w1.bits ++ hdr) none w1.strict := by
          conv => lhs; rw [eq_of w1]
          rw [of_append, of_with_scope]
        rw [h1, hl vs]
        cases encListWith (enc elem) vs with
        | err k => rfl
        | panic => rfl
        | ok body =>
          simp only [bind_ok, of_with_scope, ok.injEq]
          conv => rhs; rw [eq_of w1]
          rw [of_append, List.append_assoc]
  | .choice std total ext alts, hc, v, w => by
    have hc' : alts.consistent = true := by
      simp only [Ty.consistent, Bool.and_eq_true] at hc; exact hc.2
    simp only [write, comp, Ty.buffersOnWrite, Bool.false_and, Bool.false_eq_true, if_false, if_true]
    cases writeBitFieldEntry w false true with
    | err k => rfl
    | panic => rfl
    | ok w1 =>
      simp only [bind_ok]
      cases v <;> simp only [enc, bind_err] <;> try rfl
      rename_i i x
      cases wIndex std ext i with
      | err k => rfl
      | panic => rfl
      | ok idx =>
        simp only [bind_ok]
        by_cases hi : i ≥ std
        · simp only [hi, if_true]
          have := writeAlt_eq alts hc' i x [] w1.strict
          rw [fresh_eq, this]
          cases encAlt alts i x with
          | err k => rfl
          | panic => rfl
          | ok content =>
            simp only [bind_ok, List.nil_append, of_bits]
            cases openType content with
            | err k => rfl
            | panic => rfl
            | ok o =>
              simp only [bind_ok, ok.injEq]
              conv => lhs; rw [eq_of w1]
              conv => rhs; rw [eq_of w1]
              simp only [of_append, of_with_scope, of_scope, List.append_assoc]
        · simp only [hi, if_false]
          have h1 : ({ w1.append idx with scope := none } : W) = W.of (w1.bits ++ idx) none w1.strict := by
            conv => lhs; rw [eq_of w1]
            rw [of_append, of_with_scope]
          rw [h1, writeAlt_eq alts hc' i x]
          cases encAlt alts i x with
          | err k => rfl
          | panic => rfl
          | ok content =>
            simp only [bind_ok, of_with_scope, ok.injEq]
            conv => rhs; rw [eq_of w1]
            rw [of_append, List.append_assoc]
  | .seq so fc ea fields, hc, v, w => by
    have hc' : fields.consistent = true := by
      simp only [Ty.consistent, Bool.and_eq_true] at hc; exact hc.2
    simp only [write, comp, Ty.buffersOnWrite, Bool.true_and, if_true]
    cases writeBitFieldEntry w false true with
    | err k => rfl
    | panic => rfl
    | ok w1 =>
      simp only [bind_ok]
      cases v with
      | seq vs =>
        exact writeSeqBody_eq so fc ea fields vs hc _
          (fun e hsm rl acc hinv => writeFields_sim fields hc' e hsm vs rl acc hinv) w1
      | _ => simp only [enc, bind_err]

/-- the content of alternative `i`, outside of any scope -/
theorem writeAlt_eq : ∀ (alts : Fields), alts.consistent = true → ∀ (i : Nat) (v : Val),
    Plain (writeAlt alts i v) (encAlt alts i v)
  | .nil, _, i, v => by intro b st; simp [writeAlt, encAlt]
  | .cons k t rest, hc, 0, v => by
    have hc' : t.consistent = true := by
      simp only [Fields.consistent, Bool.and_eq_true] at hc; exact hc.1
    intro b st
    simp only [writeAlt, encAlt]
    exact plain_of_comp (write_eq_comp t hc' v) b st
  | .cons k t rest, hc, i + 1, v => by
    have hc' : rest.consistent = true := by
      simp only [Fields.consistent, Bool.and_eq_true] at hc; exact hc.2
    intro b st
    simp only [writeAlt, encAlt]
    exact writeAlt_eq rest hc' i v b st

/-- the walk over the components: the scope machine is in the state the accumulator describes -/
theorem writeFields_sim : ∀ (fields : Fields), fields.consistent = true → ∀ (e : SeqEnv),
    wSmall (e.nExt - 1) = ok e.sm → ∀ (vs : Vals) (rl : Nat) (acc : SeqAcc), e.Inv acc fields rl →
    writeFields fields vs (e.w acc rl) =
      encFields fields vs rl acc >>= fun acc' => ok (e.w acc' (rl - fields.length))
  | .nil, _, e, _, vs, rl, acc, _ => by
    cases vs <;> simp [writeFields, encFields, Fields.length]
  | .cons k t rest, hc, e, hsm, vs, rl, acc, hinv => by
    simp only [Fields.consistent, Bool.and_eq_true] at hc
    cases vs with
    | nil => simp [writeFields, encFields]
    | cons v vs =>
      rw [writeFields_cons k t rest v vs _ (write_eq_comp t hc.1), encFields_cons]
      cases hp : presentOf k v with
      | none => rfl
      | some p =>
        simp only
        have hm : k.isOptional = false → p = true := by
          intro hk
          cases k with
          | m => simpa [presentOf] using hp.symm
          | o => simp [Kind.isOptional] at hk
          | d dv => simp [Kind.isOptional] at hk
        rw [comp_sim e hsm acc k t rest rl p _ hinv hm]
        cases hstep : acc.step k t (decide (rl > 0)) p (fun _ => enc t (contentOf k v)) with
        | err k => rfl
        | panic => rfl
        | ok acc1 =>
          simp only [bind_ok]
          rw [writeFields_sim rest hc.2 e hsm vs (rl - 1) acc1 (step_inv e acc acc1 k t rest rl p _ hinv hstep)]
          simp only [Fields.length, Nat.sub_sub, Nat.add_comm]
end

end Scope
end Asn1Verif.Uper
