import Asn1Verif.Uper.Scope
import Asn1Verif.Uper.SeqLemmas
/-
  L2 — basic facts about the writer half of the scope machine (`Uper/Scope.lean`): patches inside
  the written bits, the bit-field entry per scope variant, `with_buffer`, and the uniform shape
  `comp` of one component call (`T::write_value`, `write_opt`, `write_default`).
-/
namespace Asn1Verif.Uper
open Asn1Verif Outcome Per

namespace Scope

/-! ### lists -/

theorem set_append_cons {α : Type} (a : List α) (x y : α) (b : List α) :
    (a ++ x :: b).set a.length y = a ++ y :: b := by
  induction a with
  | nil => rfl
  | cons h t ih => simp only [List.cons_append, List.length_cons, List.set_cons_succ, ih]

theorem set_append_cons' {α : Type} (a : List α) (x y : α) (b : List α) (n : Nat)
    (hn : n = a.length) : (a ++ x :: b).set n y = a ++ y :: b := by
  subst hn; exact set_append_cons a x y b

theorem replicate_succ' {α : Type} (n : Nat) (x : α) (h : 0 < n) :
    List.replicate n x = x :: List.replicate (n - 1) x := by
  cases n with
  | zero => omega
  | succ m => simp [List.replicate_succ]

/-! ### the writer that holds given bits -/

@[simp] theorem of_bits (X : Bits) (s : Option Scope) (t : Bool) : (W.of X s t).bits = X := by
  simp [W.of, W.bits]

@[simp] theorem of_len (X : Bits) (s : Option Scope) (t : Bool) : (W.of X s t).len = X.length := by
  simp [W.of, W.len]

@[simp] theorem of_scope (X : Bits) (s : Option Scope) (t : Bool) : (W.of X s t).scope = s := rfl
@[simp] theorem of_strict (X : Bits) (s : Option Scope) (t : Bool) : (W.of X s t).strict = t := rfl

@[simp] theorem of_with_scope (X : Bits) (s s' : Option Scope) (t : Bool) :
    ({ W.of X s t with scope := s' } : W) = W.of X s' t := rfl

@[simp] theorem mk_of_rbits (X : Bits) (s s' : Option Scope) (t t' : Bool) :
    ({ rbits := (W.of X s t).rbits, scope := s', strict := t' } : W) = W.of X s' t' := rfl

theorem of_append (X : Bits) (s : Option Scope) (t : Bool) (b : Bits) :
    (W.of X s t).append b = W.of (X ++ b) s t := by
  simp [W.of, W.append]

/-- every writer state is of this form -/
theorem eq_of (w : W) : w = W.of w.bits w.scope w.strict := by
  cases w; simp [W.of, W.bits]

@[simp] theorem of_inj (X Y : Bits) (s s' : Option Scope) (t t' : Bool) :
    W.of X s t = W.of Y s' t' ↔ X = Y ∧ s = s' ∧ t = t' := by
  simp [W.of]

theorem fresh_eq (t : Bool) : W.fresh t = W.of [] none t := rfl

theorem len_eq (w : W) : w.len = w.bits.length := by simp [W.len, W.bits]

theorem append_bits (w : W) (b : Bits) : (w.append b).bits = w.bits ++ b := by
  simp [W.append, W.bits]

theorem append_with_scope (w : W) (b : Bits) (s : Option Scope) :
    ({ w.append b with scope := s } : W) = ({ w with scope := s } : W).append b := rfl

/-! ### patches -/

/-- a patch of a position that holds `x`, in the middle of the written bits -/
theorem patch_mid (a : Bits) (x y : Bool) (b : Bits) (sc : Option Scope) (st : Bool) (p : Nat)
    (hp : p = a.length) :
    W.patch (W.of (a ++ x :: b) sc st) p y = ok (W.of (a ++ y :: b) sc st) := by
  subst hp
  have hlt : a.length < (W.of (a ++ x :: b) sc st).len := by simp
  unfold W.patch
  rw [if_pos hlt]
  simp only [W.len, W.of, List.reverse_append, List.reverse_cons, List.append_assoc,
    List.singleton_append, ok.injEq, W.mk.injEq, and_true]
  apply set_append_cons'
  simp only [List.length_append, List.length_cons, List.length_reverse]
  omega

/-- in strict mode a patch at or beyond the written length is a `panic`, in the faithful mode it
    is lost while it lands inside the allocated octets -/
theorem patch_beyond (X : Bits) (sc : Option Scope) (p : Nat) (y : Bool) (hp : X.length ≤ p) :
    W.patch (W.of X sc true) p y = panic ∧
    (p ≤ 8 * ((X.length + 7) / 8) → W.patch (W.of X sc false) p y = ok (W.of X sc false)) := by
  have hlt : ¬ p < X.length := by omega
  refine ⟨by simp [W.patch, hlt], fun h => by simp [W.patch, hlt, h]⟩

/-! ### `with_buffer` -/

@[simp] theorem openTy_none : openTy none = false := rfl
@[simp] theorem openTy_opt (a b : Nat) : openTy (some (.optBitField a b)) = false := rfl
@[simp] theorem openTy_all (a b : Nat) : openTy (some (.allBitField a b)) = true := rfl
@[simp] theorem openTy_ext (a : Nat) (o : Option (Nat × Nat)) (c n : Nat) :
    openTy (some (.extensibleSequence a o c n)) = false := rfl
@[simp] theorem openTy_empty : openTy (some .extensibleSequenceEmpty) = true := rfl

/-- content `c` written by a closure that only appends, inside `with_buffer` -/
theorem leave_enter_append (w : W) (c : Bits) :
    w.leave (w.enter.append c) =
      (if openTy w.scope then openType c else ok c) >>= fun b => ok (w.append b) := by
  unfold W.leave W.enter
  by_cases h : openTy w.scope = true
  · simp only [h, if_true, fresh_eq, of_append, of_bits, List.nil_append]
  · simp only [h, Bool.false_eq_true, if_false, bind_ok]

/-! ### one component call, uniformly -/

/-- one component call: bit-field entry, then (if present) the content — as open type when the
    callee goes through `with_buffer` (`wrap`) and the scope says so -/
def comp (isOpt present wrap : Bool) (content : Outcome Bits) (w : W) : Outcome W :=
  writeBitFieldEntry w isOpt present >>= fun w1 =>
    if present then
      content >>= fun c =>
        (if wrap && openTy w1.scope then openType c else ok c) >>= fun b => ok (w1.append b)
    else ok w1

theorem writeLeaf_eq_comp (content : Outcome Bits) (w : W) :
    writeLeaf content w = comp false true true content w := by
  unfold writeLeaf comp
  cases writeBitFieldEntry w false true with
  | ok w1 =>
    simp only [bind_ok, if_true, Bool.true_and]
    cases content with
    | ok c => simp only [bind_ok]; exact leave_enter_append w1 c
    | err k => rfl
    | panic => rfl
  | err k => rfl
  | panic => rfl

/-- outside of any scope a mandatory component is just its content -/
theorem comp_none (wrap : Bool) (content : Outcome Bits) (b : Bits) (st : Bool) :
    comp false true wrap content (W.of b none st) =
      content >>= fun c => ok (W.of (b ++ c) none st) := by
  unfold comp writeBitFieldEntry
  simp only [of_scope, Bool.false_eq_true, if_false, bind_ok, if_true, openTy_none, Bool.and_false,
    of_append]

end Scope
end Asn1Verif.Uper
