import Asn1Verif.Uper.RoundTrip
/-
  C05 — schema versions: appending extension additions / alternatives to a component list.
-/
namespace Asn1Verif.Uper
open Asn1Verif Outcome Per

def Fields.append : Fields → Fields → Fields
  | .nil, b => b
  | .cons k t r, b => .cons k t (r.append b)

def Vals.append : Vals → Vals → Vals
  | .nil, b => b
  | .cons v r, b => .cons v (r.append b)

/-- the values of absent OPTIONAL / DEFAULT components -/
def Fields.absents : Fields → Vals
  | .nil => .nil
  | .cons k _ r => .cons k.absent r.absents

/-- every component is OPTIONAL or DEFAULT (what the generator emits for extension additions) -/
def Fields.allOpt : Fields → Bool
  | .nil => true
  | .cons k _ r => k.isOptional && r.allOpt

theorem Fields.append_nil : ∀ (fs : Fields), fs.append .nil = fs
  | .nil => rfl
  | .cons k t r => by simp only [Fields.append, Fields.append_nil r]

theorem Vals.append_nil : ∀ (vs : Vals), vs.append .nil = vs
  | .nil => rfl
  | .cons v r => by simp only [Vals.append, Vals.append_nil r]

theorem Fields.length_append : ∀ (a b : Fields), (a.append b).length = a.length + b.length
  | .nil, b => by simp [Fields.append, Fields.length]
  | .cons k t r, b => by
    simp only [Fields.append, Fields.length, Fields.length_append r b]; omega

/-- root presence bits only look at the root components -/
theorem optCount_append : ∀ (a b : Fields) (n : Nat), n ≤ a.length →
    (a.append b).optCount n = a.optCount n
  | .nil, b, n, h => by
    have : n = 0 := by simpa [Fields.length] using h
    subst this
    simp [Fields.append, optCount_zero]
  | .cons k t r, b, 0, _ => by simp [Fields.append, Fields.optCount]
  | .cons k t r, b, n + 1, h => by
    simp only [Fields.append, Fields.optCount]
    rw [optCount_append r b n (by simp only [Fields.length] at h; omega)]

theorem consistent_append : ∀ (a b : Fields), a.consistent = true → b.consistent = true →
    (a.append b).consistent = true
  | .nil, _, _, hb => hb
  | .cons k t r, b, ha, hb => by
    simp only [Fields.append, Fields.consistent, Bool.and_eq_true] at ha ⊢
    exact ⟨ha.1, consistent_append r b ha.2 hb⟩

end Asn1Verif.Uper
