import Asn1Verif.Uper.Compat
/-
  C05, backward — the reader of the older version is at the end of its component list while the
  writer goes on with additions it does not know: `skip_unknown_extension_additions` walks the
  rest of the bitmap and steps over the open type of every present addition (unfragmented: fewer
  than 16K octets), ending exactly behind the extension part.
-/
namespace Asn1Verif.Uper
open Asn1Verif Outcome Per

theorem skipUnknown_step (win nRead idx : Nat) (inp : Bits) (pos : Nat) (p : Bool) (q : Nat)
    (hlt : idx < nRead) (hbit : bitAt inp (win + idx) = ok p)
    (hopen : p = true → readOpen (fun _ p => ok ((), p)) inp pos = ok ((), q))
    (hq : p = false → q = pos) :
    skipUnknown win nRead idx inp pos = skipUnknown win nRead (idx + 1) inp q := by
  rw [skipUnknown]
  rw [dif_pos hlt, hbit]
  cases p with
  | true => simp only [if_true, hopen rfl]
  | false => simp only [Bool.false_eq_true, if_false, hq rfl]

theorem skip_walk : ∀ (adds : Fields) (avs : Vals) (acc fin : SeqAcc) (inp : Bits) (W AB : Nat)
    (X post : Bits),
    adds.allOpt = true → valOkFields adds avs 0 = true →
    (acc.st = .all ∨ (acc.st = .root ∧ fin.st = .all)) →
    encFields adds avs 0 acc = ok fin →
    At inp W fin.addPres X → At inp AB fin.addBody post →
    skipUnknown W fin.addPres.length acc.addPres.length inp (AB + acc.addBody.length)
      = ok ((), AB + fin.addBody.length)
  | .nil, avs, acc, fin, inp, W, AB, X, post, _, _, hst, henc, _, _ => by
    cases avs with
    | cons v vs => simp [encFields] at henc
    | nil =>
      simp only [encFields] at henc
      injection henc with henc; subst henc
      exact skipUnknown_ge W _ _ inp _ (Nat.le_refl _)
  | .cons k t r, avs, acc, fin, inp, W, AB, X, post, ho, hv, hst, henc, hW, hA => by
    cases avs with
    | nil => simp [encFields] at henc
    | cons v vs =>
      simp only [Fields.allOpt, Bool.and_eq_true] at ho
      simp only [valOkFields, Bool.and_eq_true] at hv
      rw [encFields_cons_view] at henc
      cases hfv : fieldView k v with
      | none => simp [hfv] at henc
      | some px =>
        obtain ⟨p, x⟩ := px
        simp only [hfv] at henc hv
        obtain ⟨acc1, hs, henc'⟩ := bind_ok_elim henc
        simp only [Nat.lt_irrefl, decide_false, Nat.zero_sub] at hs henc' hv
        rw [step_add] at hs
        obtain ⟨rp, rb, ap, ab, F⟩ := encFields_frameC r vs 0 acc1 fin henc'
        -- in both admissible states the addition is recorded
        have has : asAll acc k t p (fun _ => enc t x) = ok acc1 := by
          rcases hst with h | ⟨h1, h2⟩
          · simpa only [h] using hs
          · simp only [h1] at hs
            cases p with
            | true => simpa using hs
            | false =>
              simp only [Bool.false_eq_true, if_false] at hs
              injection hs with hs; subst hs
              have := (F.stEmpty rfl).1
              rw [h2] at this; cases this
        obtain ⟨body, hb, e1⟩ := asAll_ok has
        have hfp : fin.addPres = acc.addPres ++ ([p] ++ ap) := by
          rw [F.addPres, e1]; simp only [List.append_assoc]
        have hfb : fin.addBody = acc.addBody ++ (body ++ ab) := by
          rw [F.addBody, e1]; simp only [List.append_assoc]
        have hlt : acc.addPres.length < fin.addPres.length := by
          rw [hfp]; simp only [List.length_append, List.length_cons]; omega
        have hbit : bitAt inp (W + acc.addPres.length) = ok p := by
          apply hW.bit
          rw [hfp]; simp
        have hcur : At inp (AB + acc.addBody.length) body (ab ++ post) := by
          have := hA
          rw [hfb] at this
          exact this.right.left
        have ih := skip_walk r vs acc1 fin inp W AB X post ho.2 hv.2 (Or.inl (by rw [e1])) henc' hW hA
        have e2 : acc1.addPres.length = acc.addPres.length + 1 := by rw [e1]; simp
        have e3 : AB + acc1.addBody.length = AB + acc.addBody.length + body.length := by
          rw [e1]; simp only [List.length_append]; omega
        rw [e2, e3] at ih
        rw [skipUnknown_step W _ _ inp _ p (AB + acc.addBody.length + body.length) hlt hbit ?_ ?_]
        · exact ih
        · intro hp
          subst hp
          simp only [if_true, ho.1, Bool.true_or] at hb
          obtain ⟨c, hc, hopen⟩ := bind_ok_elim hb
          have hl : (openOctets c).length < 16384 := by
            have := hv.1
            simp only [ho.1, Bool.true_or, Bool.not_true, Bool.false_or, Bool.and_eq_true] at this
            simpa [openOkC, hc] using this.2
          exact skipOpen_at inp _ c _ body hcur hopen hl
        · intro hp
          subst hp
          simp only [Bool.false_eq_true, if_false] at hb
          injection hb with hb; subst hb
          simp

/-- backward tail: the reader is at the end of its list -/
theorem cont_bwd_tail (adds : Fields) (avs : Vals) (ho : adds.allOpt = true)
    (hv : valOkFields adds avs 0 = true) (hlen : adds.length ≤ U64_MAX) (fin : SeqAcc) (inp : Bits)
    (P B : Nat) (post : Bits) (L : SeqLayout inp fin P B post) :
    Cont adds avs .nil .nil 0 fin inp P B := by
  intro acc ctx addIdx pos henc _ hext hinv
  obtain ⟨rp, rb, ap, ab, F⟩ := encFields_frameC adds avs 0 acc fin henc
  have hrb : fin.rootBody = acc.rootBody := by rw [F.rootBody, (F.rootDone rfl).2]; simp
  unfold StateInv at hinv
  simp only [decFields]
  cases hst : acc.st with
  | all =>
    simp only [hst] at hinv
    obtain ⟨_, hwin, hidx, hpos⟩ := hinv
    have hall : fin.st = .all := (F.stAll hst).1
    have hx : ctx.extBit = true := by rw [hext, hall]; rfl
    obtain ⟨_, hW, hA, hend⟩ := layout_ext L hall
    simp only [hx, if_true, hwin, Outcome.bind_ok, hidx, hpos]
    rw [skip_walk adds avs acc fin inp _ _ _ post ho hv (Or.inl hst) henc hW hA, hend]
    rfl
  | empty =>
    simp only [hst] at hinv
    have hfe : fin.st = .empty := (F.stEmpty hst).1
    have hx : ctx.extBit = false := by rw [hext, hfe]; rfl
    simp only [hx, Bool.false_eq_true, if_false]
    rw [hinv.2.1, layout_noext (by rw [hfe]; intro h; cases h), hrb]
  | root =>
    simp only [hst] at hinv
    obtain ⟨hwin, hpos, hap, hab, hidx⟩ := hinv
    by_cases hall : fin.st = .all
    · have hx : ctx.extBit = true := by rw [hext, hall]; rfl
      obtain ⟨hH, hW, hA, hend⟩ := layout_ext L hall
      have hn : fin.addPres.length = adds.length := by
        rw [F.addPres, hap, List.nil_append, (F.stRoot hst).1 hall]; omega
      have hn1 : 1 ≤ adds.length := by
        cases adds with
        | cons k t r => simp [Fields.length]
        | nil =>
          cases avs with
          | cons v vs => simp [encFields] at henc
          | nil =>
            simp only [encFields] at henc
            injection henc with henc; subst henc
            rw [hst] at hall; cases hall
      have hhdr := readExtHeader_at inp pos fin.addPres.length _ (by omega) (by omega)
        (by rw [hpos, ← hrb]; exact hH) (by simp)
      have hsk := skip_walk adds avs acc fin inp _ _ _ post ho hv (Or.inr ⟨hst, hall⟩) henc hW hA
      rw [hap, hab] at hsk
      simp only [List.length_nil, Nat.add_zero] at hsk
      have e : pos + (X691.small (fin.addPres.length - 1)).length + fin.addPres.length
          = addPos fin B := by
        simp only [addPos, winPos, hpos, hrb]
      have e' : pos + (X691.small (fin.addPres.length - 1)).length = winPos fin B := by
        simp only [winPos, hpos, hrb]
      rw [e, e'] at hhdr
      simp only [hx, if_true, hwin, hhdr, Outcome.bind_ok, hidx, hsk, hend]
    · have hf : fin.st.isAll = false := by
        cases h : fin.st <;> simp_all [ExtState.isAll]
      have hx : ctx.extBit = false := by rw [hext, hf]
      simp only [hx, Bool.false_eq_true, if_false]
      rw [hpos, layout_noext hall, hrb]

end Asn1Verif.Uper
