import Asn1Verif.Uper.RoundTripStrBase
/-
  C01 — round trip of the character strings: UTF8String through the OCTET STRING codec, the
  restricted strings through their fixed-width character fields (all characters valid for the
  alphabet ⇒ below 128 ⇒ the UTF-8 bytes are the characters).
-/
namespace Asn1Verif.Uper
open Asn1Verif Outcome Per

theorem char_numeric (c : Nat) (h : Charset.numeric.isValid c = true) :
    ((charBits .numeric c).length = 4 ∧
      (fun n => if n = 0 then 32 else 32 + 15 + n) (bitsToNat (charBits .numeric c)) = c) ∧ c < 128 := by
  simp only [Charset.isValid, Bool.or_eq_true, decide_eq_true_eq, Bool.and_eq_true] at h
  have hl : (charBits .numeric c).length = 4 := by simp only [charBits, natBits_length]
  rcases h with h | h
  · subst h
    have hb : bitsToNat (charBits .numeric 32) = 0 := by decide
    exact ⟨⟨hl, by simp only [hb]; rfl⟩, by omega⟩
  · have e : (if c - 32 = 0 then 0 else c - 32 - 15) = c - 47 := by
      split <;> omega
    have hlt : c - 47 < 2 ^ 4 := by omega
    have hb : bitsToNat (charBits .numeric c) = c - 47 := by
      simp only [charBits, e]
      exact bitsToNat_natBits_of_lt hlt
    refine ⟨⟨hl, ?_⟩, by omega⟩
    simp only [hb]
    split <;> omega

theorem char_7bit (cs : Charset) (c : Nat) (hcs : cs ≠ .utf8) (hn : cs ≠ .numeric)
    (h : cs.isValid c = true) :
    ((charBits cs c).length = 7 ∧ (fun n => n) (bitsToNat (charBits cs c)) = c) ∧ c < 128 := by
  have hc : c < 128 := by
    cases cs <;> simp only [Charset.isValid, Bool.or_eq_true, decide_eq_true_eq, Bool.and_eq_true] at h
    · exact absurd rfl hcs
    · omega
    · exact absurd rfl hn
    · omega
    · omega
  have e : charBits cs c = natBits 7 c := by cases cs <;> first | rfl | exact absurd rfl hn
  have hlt : c < 2 ^ 7 := by omega
  rw [e, natBits_length, bitsToNat_natBits_of_lt hlt]
  exact ⟨⟨rfl, rfl⟩, hc⟩

theorem all_valid_of_any {cs : Charset} {chars : List Nat}
    (h : (chars.any fun c => !cs.isValid c) = false) : ∀ c ∈ chars, cs.isValid c = true := by
  intro c hc
  rw [List.any_eq_false] at h
  have := h c hc
  simpa using this

/-- the restricted-string branch after `cases cs` -/
theorem rt_str_restricted (cs : Charset) (w : Nat) (hw : 0 < w) (g : Nat → Nat)
    (min max : Option Nat) (ext : Bool) (bytes : List Byte) (chars : List Nat) (bits : Bits)
    (hu : utf8Decode bytes = some chars) (hn : chars.length < 16384)
    (hch : ∀ c, cs.isValid c = true → ((charBits cs c).length = w ∧ g (bitsToNat (charBits cs c)) = c) ∧ c < 128)
    (h : (if (chars.any fun c => !cs.isValid c) = true then err ErrKind.invalidString
      else do
        let hdr ← wExtLen ext min max U64_MAX chars.length
        ok (hdr ++ (List.map (charBits cs) chars).flatten)) = ok bits)
    (inp : Bits) (pos : Nat) (post : Bits) (hat : At inp pos bits post) :
    ((if ext = true then liftL1 rdBit inp pos else ok (false, pos)) >>= fun x1 =>
      (if x1.fst = true then liftL1 (rLen none none) inp x1.snd
        else liftL1 (rLen min max) inp x1.snd) >>= fun x2 =>
      if (List.length inp - x2.snd) / w < x2.fst then err ErrKind.endOfStream
        else
          ok
            (Val.str
                (List.map (BitVec.ofNat 8)
                  (List.map
                    (fun i => g (bitsToNat (List.take w (List.drop (i * w)
                      (List.take (x2.fst * w) (List.drop x2.snd inp))))))
                    (List.range x2.fst))),
              x2.snd + x2.fst * w)) = ok (Val.str bytes, pos + bits.length) := by
  cases hany : (chars.any fun c => !cs.isValid c) with
  | true => simp [hany] at h
  | false =>
    simp only [hany, Bool.false_eq_true, if_false] at h
    obtain ⟨hdr, hh, h⟩ := bind_ok_elim h
    injection h with h; subst h
    have hvalid := all_valid_of_any hany
    obtain ⟨isExt, p0, e1, e2, hat'⟩ := extLen_rt ext min max U64_MAX chars.length hdr hh hn inp pos _ post hat
    rw [e1]
    simp only [Outcome.bind_ok]
    rw [e2]
    simp only [Outcome.bind_ok]
    have hb := str_body_rt w hw g (charBits cs) chars (fun c hc => (hch c (hvalid c hc)).1) inp _ post
      (by simpa using hat')
    rw [if_neg hb.1, hb.2.1, utf8_ascii bytes chars hu (fun c hc => (hch c (hvalid c hc)).2)]
    simp only [List.length_append, hb.2.2, Nat.add_assoc]

theorem rt_str (cs : Charset) (min max : Option Nat) (ext : Bool) (v : Val) (bits : Bits)
    (hv : valOk (.str cs min max ext) v = true)
    (h : enc (.str cs min max ext) v = ok bits) (inp : Bits) (pos : Nat) (post : Bits)
    (hat : At inp pos bits post) :
    dec (.str cs min max ext) inp pos = ok (v, pos + bits.length) := by
  cases v <;> try (simp [enc] at h; done)
  rename_i bytes
  simp only [valOk] at hv
  cases hu : utf8Decode bytes with
  | none => cases cs <;> simp [enc, hu] at h
  | some chars =>
    simp only [hu] at hv
    cases cs
    case utf8 =>
      simp only [enc, hu] at h
      simp only [dec]
      split at h
      · cases h
      · rw [hat.lift _ _ (rOctets_wOctets none none false bytes bits post (by intro u hu; cases hu) h)]
        simp only [Outcome.bind_ok, hu]
    case numeric =>
      simp only [enc, hu] at h
      simp only [dec, charWidth]
      exact rt_str_restricted .numeric 4 (by decide) (fun n => if n = 0 then 32 else 32 + 15 + n)
        min max ext bytes chars bits hu (by simpa using hv) char_numeric h inp pos post hat
    all_goals
      simp only [enc, hu] at h
      simp only [dec, charWidth]
      exact rt_str_restricted _ 7 (by decide) (fun n => n)
        min max ext bytes chars bits hu (by simpa using hv)
        (fun c hc => char_7bit _ c (by decide) (by decide) hc) h inp pos post hat

end Asn1Verif.Uper
