import Asn1Verif.Uper.RoundTripLeaf
/-
  C01 — helpers for lengths and restricted strings: `write_extensible_bit_and_length_or_err` against
  the reader's header, fixed-width character fields.
-/
namespace Asn1Verif.Uper
open Asn1Verif Outcome Per

/-- `write_extensible_bit_and_length_or_err` against the reader's extension bit + length
    determinant, for fewer than 16K items (any bounds, the deviating ones included) -/
theorem extLen_rt (ext : Bool) (min max : Option Nat) (upperLimit n : Nat) (hdr : Bits)
    (hw : wExtLen ext min max upperLimit n = ok hdr) (hn : n < 16384)
    (inp : Bits) (pos : Nat) (rest post : Bits) (hat : At inp pos (hdr ++ rest) post) :
    ∃ (isExt : Bool) (p0 : Nat),
      (if ext = true then liftL1 rdBit inp pos else ok (false, pos)) = ok (isExt, p0) ∧
      (if isExt = true then liftL1 (rLen none none) inp p0 else liftL1 (rLen min max) inp p0)
        = ok (n, pos + hdr.length) ∧
      At inp (pos + hdr.length) rest post := by
  unfold wExtLen at hw
  by_cases hoor : n < min.getD 0 ∨ n > max.getD upperLimit
  · simp only [hoor, decide_true, if_true] at hw
    cases ext with
    | false => simp at hw
    | true =>
      simp only [Bool.not_true, Bool.false_eq_true, if_false, wLen_unc, Outcome.bind_ok, if_true] at hw
      injection hw with hw; subst hw
      have hlen : rLen none none ((X691.lenU n).1 ++ (rest ++ post)) = ok (n, rest ++ post) := by
        rw [rLen_unc, lenU_snd_lt hn]; rfl
      have h1 : At inp pos ([true] ++ ((X691.lenU n).1 ++ rest)) post := by
        simpa [List.append_assoc] using hat
      refine ⟨true, pos + 1, ?_, ?_, ?_⟩
      · simp only [if_true]; exact h1.left.lift rdBit _ (rdBit_cons _ _)
      · simp only [if_true]
        have h2 : At inp (pos + 1) ((X691.lenU n).1 ++ rest) post := h1.right
        rw [h2.left.lift _ _ hlen]
        simp only [List.length_append, List.length_cons, List.length_nil]
        congr 2; omega
      · have h2 : At inp (pos + 1) ((X691.lenU n).1 ++ rest) post := h1.right
        have := h2.right
        simp only [List.length_append, List.length_cons, List.length_nil]
        rw [show pos + (0 + 1 + (X691.lenU n).1.length) = pos + 1 + (X691.lenU n).1.length by omega]
        exact this
  · simp only [hoor, decide_false, Bool.false_eq_true, if_false] at hw
    cases hwl : wLen min max n with
    | err k => simp [hwl] at hw
    | panic => simp [hwl] at hw
    | ok bf =>
      obtain ⟨b, f⟩ := bf
      simp only [hwl, Outcome.bind_ok] at hw
      injection hw with hw; subst hw
      have hf : f = none := by
        by_cases hs : (min.isSome || max.isSome) = true
        · exact wLen_bounded_none min max n b f hs hwl
        · have hl : min = none := by cases min <;> simp_all
          have hu : max = none := by cases max <;> simp_all
          subst hl; subst hu
          rw [wLen_unc] at hwl
          have := (ok_pair_inj (by rw [← hwl] : (ok ((X691.lenU n).1, (X691.lenU n).2) : Outcome _) = ok (b, f))).2
          rw [← this]; exact lenU_snd_lt hn
      subst hf
      have hub : n ≤ max.getD I64MAXu := by
        cases max with
        | none => simp only [Option.getD_none]; rw [I64MAXu_eq]; omega
        | some u => simp only [Option.getD_some] at hoor ⊢; omega
      have hlen := rLen_wLen min max n b (rest ++ post) hwl (by omega) hub
        (by rw [U64_MAX_eq]; omega)
      obtain ⟨e1, hat'⟩ := ext_bit_at ext false false inp pos (b ++ rest) post
        (by simpa [List.append_assoc] using hat)
      refine ⟨false, pos + (if ext then 1 else 0), ?_, ?_, ?_⟩
      · rw [e1]; cases ext <;> rfl
      · simp only [Bool.false_eq_true, if_false]
        rw [hat'.left.lift _ _ hlen]
        congr 2
        cases ext <;> simp <;> omega
      · have := hat'.right
        have e : pos + (if ext = true then 1 else 0) + b.length
            = pos + ((if ext = true then [false] else []) ++ b).length := by
          cases ext <;> simp <;> omega
        rw [← e]; exact this

theorem flatten_length_const (w : Nat) : ∀ (xs : List Bits), (∀ x ∈ xs, x.length = w) →
    xs.flatten.length = xs.length * w
  | [], _ => by simp
  | x :: r, h => by
    simp only [List.flatten_cons, List.length_append, List.length_cons]
    rw [flatten_length_const w r (fun y hy => h y (List.mem_cons_of_mem _ hy)),
      h x List.mem_cons_self, Nat.add_mul]
    omega

/-- fixed-width fields cut out of their concatenation -/
theorem chunks_map {β : Type} (w : Nat) (f : Bits → β) : ∀ (xs : List Bits),
    (∀ x ∈ xs, x.length = w) →
    (List.range xs.length).map (fun i => f ((xs.flatten.drop (i * w)).take w)) = xs.map f
  | [], _ => rfl
  | x :: r, h => by
    have hx : x.length = w := h x List.mem_cons_self
    have ih := chunks_map w f r (fun y hy => h y (List.mem_cons_of_mem _ hy))
    simp only [List.length_cons, List.range_succ_eq_map, List.map_cons, List.map_map,
      List.flatten_cons, Nat.zero_mul, List.drop_zero]
    congr 1
    · rw [List.take_left' hx]
    · rw [← ih]
      apply List.map_congr_left
      intro i _
      simp only [Function.comp]
      have : (i + 1) * w = x.length + i * w := by rw [hx, Nat.add_mul]; omega
      rw [this, List.drop_append, List.drop_of_length_le (by omega), Nat.add_sub_cancel_left,
        List.nil_append]

theorem str_body_rt (w : Nat) (hw : 0 < w) (g : Nat → Nat) (e : Nat → Bits) (chars : List Nat)
    (he : ∀ c ∈ chars, (e c).length = w ∧ g (bitsToNat (e c)) = c)
    (inp : Bits) (p1 : Nat) (post : Bits) (hat : At inp p1 (chars.map e).flatten post) :
    ¬ ((inp.length - p1) / w < chars.length) ∧
    List.map (fun i => g (bitsToNat (List.take w (List.drop (i * w)
      (List.take (chars.length * w) (List.drop p1 inp)))))) (List.range chars.length) = chars ∧
    (chars.map e).flatten.length = chars.length * w := by
  have hlen : (chars.map e).flatten.length = chars.length * w := by
    have := flatten_length_const w (chars.map e) (by
      intro x hx
      rw [List.mem_map] at hx
      obtain ⟨c, hc, rfl⟩ := hx
      exact (he c hc).1)
    rwa [List.length_map] at this
  have hb := hat.bound
  refine ⟨?_, ?_, hlen⟩
  · rw [Nat.not_lt, Nat.le_div_iff_mul_le hw]; omega
  · rw [hat.1, List.take_left' hlen]
    have := chunks_map w (fun b => g (bitsToNat b)) (chars.map e) (by
      intro x hx
      rw [List.mem_map] at hx
      obtain ⟨c, hc, rfl⟩ := hx
      exact (he c hc).1)
    rw [List.length_map] at this
    rw [this, List.map_map]
    conv => rhs; rw [← List.map_id chars]
    apply List.map_congr_left
    intro c hc
    exact (he c hc).2

end Asn1Verif.Uper
