import Asn1Verif.Uper.CompatBwd
/-
  C05 — the extensible SEQUENCE / SET node with different component lists on the two sides, and
  the two version theorems on the level of `enc` / `dec`.
-/
namespace Asn1Verif.Uper
open Asn1Verif Outcome Per

/-- extensible SEQUENCE: writer with components `wfs`, reader with `rfs`, tied by `Cont` -/
theorem seq_node_ext (so fc so' fc' k : Nat) (wfs : Fields) (wvs : Vals) (rfs : Fields) (rvs : Vals)
    (bits : Bits) (hlen : wfs.length ≤ U64_MAX)
    (hopt : rfs.optCount (k + 1) = wfs.optCount (k + 1))
    (hcont : ∀ fin inp P B post, SeqLayout inp fin P B post → Cont wfs wvs rfs rvs (k + 1) fin inp P B)
    (h : enc (.seq so fc (some k) wfs) (.seq wvs) = ok bits) (inp : Bits) (pos : Nat) (post : Bits)
    (hat : At inp pos bits post) :
    dec (.seq so' fc' (some k) rfs) inp pos = ok (.seq rvs, pos + bits.length) := by
  simp only [enc] at h
  obtain ⟨fin, henc, h⟩ := bind_ok_elim h
  obtain ⟨rp, rb, ap, ab, F⟩ := encFields_frameC wfs wvs (k + 1) {} fin henc
  have hopt' : rfs.optCount (k + 1) = fin.rootPres.length := by
    rw [hopt, F.rootPres, ← F.optCount]; simp
  have hbits : bits = [fin.st.isAll] ++ (fin.rootPres ++ (fin.rootBody ++ extPart fin)) := by
    cases hst : fin.st with
    | all =>
      simp only [hst] at h
      have hcnt : fin.addPres.length = wfs.length - (k + 1) := by
        rw [F.addPres, ← (F.stRoot rfl).1 hst]; simp
      rw [wSmall_ok _ (by omega)] at h
      simp only [Outcome.bind_ok] at h
      injection h with h
      rw [← h]
      simp [extPart, hst, ExtState.isAll, hcnt]
    | root =>
      simp only [hst] at h
      injection h with h
      rw [← h]
      simp [extPart, hst, ExtState.isAll]
    | empty =>
      simp only [hst] at h
      injection h with h
      rw [← h]
      simp [extPart, hst, ExtState.isAll]
  subst hbits
  have hb := hat.bound
  simp only [List.length_append, List.length_cons, List.length_nil] at hb
  simp only [dec]
  rw [hat.left.lift rdBit _ (rdBit_cons _ _)]
  simp only [Outcome.bind_ok, hopt', List.length_cons, List.length_nil]
  rw [if_neg (by omega)]
  have h1 : At inp (pos + 1) (fin.rootPres ++ (fin.rootBody ++ extPart fin)) post := hat.right
  have L : SeqLayout inp fin (pos + 1) (pos + 1 + fin.rootPres.length) post :=
    ⟨⟨_, h1.left⟩, h1.right.left⟩
  have hinv : StateInv {} fin (pos + 1 + fin.rootPres.length) (k + 1)
      { presPos := pos + 1, extBit := fin.st.isAll, nLocal := rfs.length - (k + 1) } 0
      (pos + 1 + fin.rootPres.length) := by
    unfold StateInv
    exact ⟨rfl, rfl, rfl, rfl, rfl⟩
  have := hcont fin inp (pos + 1) (pos + 1 + fin.rootPres.length) post L {} _ 0 _ henc rfl rfl hinv
  simp only [List.length_nil] at this
  rw [this]
  simp only [Outcome.bind_ok, endPos, List.length_append, List.length_cons, List.length_nil]
  congr 2
  omega

/-- forward: a V1 encoding read under V2 = V1 + additions -/
theorem seq_fwd (so fc so' fc' k : Nat) (fields adds : Fields) (vs : Vals) (bits : Bits)
    (hk : k < fields.length) (hl : vs.length = fields.length)
    (hrt : fields.rtOk (k + 1) = true) (hv : valOkFields fields vs (k + 1) = true)
    (hlen : fields.length ≤ U64_MAX) (ho : adds.allOpt = true)
    (h : enc (.seq so fc (some k) fields) (.seq vs) = ok bits) (inp : Bits) (pos : Nat) (post : Bits)
    (hat : At inp pos bits post) :
    dec (.seq so' fc' (some k) (fields.append adds)) inp pos
      = ok (.seq (vs.append adds.absents), pos + bits.length) := by
  have h' : enc (.seq so fc (some k) (fields.append .nil)) (.seq (vs.append .nil)) = ok bits := by
    rw [Fields.append_nil, Vals.append_nil]; exact h
  refine seq_node_ext so fc so' fc' k (fields.append .nil) (vs.append .nil) (fields.append adds)
    (vs.append adds.absents) bits (by rw [Fields.append_nil]; exact hlen)
    (by rw [optCount_append _ _ _ (by omega), Fields.append_nil]) ?_ h' inp pos post hat
  intro fin inp' P B post' L
  refine walk fields vs .nil .nil adds adds.absents (k + 1) fin inp' P B post' hl hrt hv
    (by rw [Fields.append_nil]; exact hlen) L ?_
  have e : k + 1 - fields.length = 0 := by omega
  rw [e]
  exact cont_fwd_tail adds ho fin inp' P B post' L

/-- backward: a V2 encoding read under V1 -/
theorem seq_bwd (so fc so' fc' k : Nat) (fields adds : Fields) (vs avs : Vals) (bits : Bits)
    (hk : k < fields.length) (hl : vs.length = fields.length)
    (hrt : fields.rtOk (k + 1) = true) (hv : valOkFields fields vs (k + 1) = true)
    (hlen : (fields.append adds).length ≤ U64_MAX) (ho : adds.allOpt = true)
    (hva : valOkFields adds avs 0 = true)
    (h : enc (.seq so' fc' (some k) (fields.append adds)) (.seq (vs.append avs)) = ok bits)
    (inp : Bits) (pos : Nat) (post : Bits) (hat : At inp pos bits post) :
    dec (.seq so fc (some k) fields) inp pos = ok (.seq vs, pos + bits.length) := by
  have e1 : fields = fields.append .nil := (Fields.append_nil fields).symm
  have e2 : vs = vs.append .nil := (Vals.append_nil vs).symm
  rw [e1, e2]
  refine seq_node_ext so' fc' so fc k (fields.append adds) (vs.append avs) (fields.append .nil)
    (vs.append .nil) bits hlen
    (by rw [optCount_append _ _ _ (by omega), optCount_append _ _ _ (by omega)]) ?_ h inp pos post hat
  intro fin inp' P B post' L
  refine walk fields vs adds avs .nil .nil (k + 1) fin inp' P B post' hl hrt hv hlen L ?_
  have e : k + 1 - fields.length = 0 := by omega
  rw [e]
  exact cont_bwd_tail adds avs ho hva (by rw [Fields.length_append] at hlen; omega) fin inp' P B post' L

end Asn1Verif.Uper
