import Asn1Verif.Uper.ConformSeq
/-
  C02, writer side — the SEQUENCE node and the mutual structural induction over `Ty` / `Fields`:
  outside the known deviation classes the bits of the writer are the X.691 encoding.
-/
namespace Asn1Verif.Uper
open Asn1Verif Outcome Per

/-- number of root components -/
def rootCountC (extAfter : Option Nat) (fields : Fields) : Nat :=
  match extAfter with
  | none => fields.length
  | some k => k + 1

theorem cw_seq (so fc : Nat) (extAfter : Option Nat) (fields : Fields) (v : Val) (bits : Bits)
    (hr : rangeOk (.seq so fc extAfter fields) v = true)
    (ih : ∀ vs acc acc', rangeOkFields fields vs = true →
      encFields fields vs (rootCountC extAfter fields) acc = ok acc' →
      ∃ rp rb ap ab, X691.encodeFields fields vs (rootCountC extAfter fields) = some (rp, rb, ap, ab) ∧
        Frame acc acc' rp rb ap ab)
    (h : enc (.seq so fc extAfter fields) v = ok bits) :
    X691.encode (.seq so fc extAfter fields) v = some bits := by
  cases v <;> try (simp [enc] at h; done)
  rename_i vs
  simp only [rangeOk, Bool.and_eq_true, decide_eq_true_eq] at hr
  cases extAfter with
  | none =>
    simp only [rootCountC] at ih
    simp only [enc] at h
    obtain ⟨acc', hacc, h'⟩ := bind_ok_elim h
    obtain ⟨rp, rb, ap, ab, he, hf⟩ := ih vs {} acc' hr.2 hacc
    unfold Frame at hf
    simp only [List.nil_append] at hf
    obtain ⟨h1, h2, _⟩ := hf
    injection h' with h'; subst h'
    simp only [X691.encode, he, h1, h2]
  | some k =>
    simp only [rootCountC] at ih
    simp only [enc] at h
    obtain ⟨acc', hacc, h'⟩ := bind_ok_elim h
    obtain ⟨rp, rb, ap, ab, he, hf⟩ := ih vs {} acc' hr.2 hacc
    have hcnt := encodeFields_addCount _ _ _ _ _ _ _ he
    unfold Frame at hf
    simp only [List.nil_append] at hf
    obtain ⟨h1, h2, h3⟩ := hf
    simp only [X691.encode, he]
    rcases h3 with ⟨hst, hany, hp, hb⟩ | ⟨hst, hany⟩
    · simp only [hst] at h'
      rw [wSmall_ok _ (by omega)] at h'
      simp only [Outcome.bind_ok] at h'
      injection h' with h'; subst h'
      simp only [hany, if_true, h1, h2, hp, hb, hcnt]
    · have h'' : (ok (false :: acc'.rootPres ++ acc'.rootBody) : Outcome Bits) = ok bits := by
        cases hs : acc'.st with
        | all => exact absurd hs hst
        | root => simpa only [hs] using h'
        | empty => simpa only [hs] using h'
      injection h'' with h''; subst h''
      simp [hany, h1, h2]

mutual
theorem cw : ∀ (t : Ty) (v : Val) (bits : Bits), t.noDev = true → t.consistent = true →
    rangeOk t v = true → enc t v = ok bits → X691.encode t v = some bits
  | .bool, v, bits, _, _, _, h => cw_bool v bits h
  | .null, v, bits, _, _, _, h => cw_null v bits h
  | .int min max ext w s, v, bits, hd, _, hr, h =>
    cw_int min max ext w s v bits (by simpa [Ty.noDev] using hd) hr h
  | .enum std total ext, v, bits, _, _, hr, h => cw_enum std total ext v bits hr h
  | .str cs min max ext, v, bits, hd, _, hr, h =>
    cw_str cs min max ext v bits (by simpa [Ty.noDev] using hd) hr h
  | .oct min max ext, v, bits, hd, _, hr, h =>
    cw_oct min max ext v bits (by simpa [Ty.noDev] using hd) hr h
  | .bits min max ext, v, bits, hd, _, hr, h =>
    cw_bits min max ext v bits (by simpa [Ty.noDev] using hd) hr h
  | .seqOf min max ext elem, v, bits, hd, hc, hr, h => by
    simp only [Ty.noDev, Bool.and_eq_true] at hd
    simp only [Ty.consistent] at hc
    exact cw_seqOf min max ext elem v bits hd.1 hr (fun v bits => cw elem v bits hd.2 hc) h
  | .seq so fc extAfter fields, v, bits, hd, hc, hr, h => by
    simp only [Ty.noDev, Bool.and_eq_true] at hd
    simp only [Ty.consistent, Bool.and_eq_true] at hc
    exact cw_seq so fc extAfter fields v bits hr
      (fun vs acc acc' => cwFields fields vs (rootCountC extAfter fields) acc acc' hd.2 hc.2) h
  | .choice std total ext alts, v, bits, hd, hc, hr, h => by
    simp only [Ty.noDev] at hd
    simp only [Ty.consistent, Bool.and_eq_true, beq_iff_eq, decide_eq_true_eq] at hc
    exact cw_choice std total ext alts v bits hc.1.1 hr
      (fun i x bits => cwAlt alts alts.length i x bits hd hc.2) h
theorem cwAlt : ∀ (alts : Fields) (n i : Nat) (x : Val) (bits : Bits), alts.noDev n = true →
    alts.consistent = true → rangeOkAlt alts i x = true → encAlt alts i x = ok bits →
    X691.encodeAlt alts i x = some bits ∧ i < alts.length
  | .nil, _, _, _, _, _, _, _, h => by simp [encAlt] at h
  | .cons k t rest, n, 0, x, bits, hd, hc, hr, h => by
    simp only [Fields.noDev, Bool.and_eq_true] at hd
    simp only [Fields.consistent, Bool.and_eq_true] at hc
    simp only [rangeOkAlt] at hr
    simp only [encAlt] at h
    exact ⟨by simpa [X691.encodeAlt] using cw t x bits hd.1.1 hc.1 hr h, by simp [Fields.length]⟩
  | .cons k t rest, n, i + 1, x, bits, hd, hc, hr, h => by
    simp only [Fields.noDev, Bool.and_eq_true] at hd
    simp only [Fields.consistent, Bool.and_eq_true] at hc
    simp only [rangeOkAlt] at hr
    simp only [encAlt] at h
    have := cwAlt rest (n - 1) i x bits hd.2 hc.2 hr h
    exact ⟨by simpa [X691.encodeAlt] using this.1, by simp only [Fields.length]; omega⟩
theorem cwFields : ∀ (fs : Fields) (vs : Vals) (rootLeft : Nat) (acc acc' : SeqAcc),
    fs.noDev rootLeft = true → fs.consistent = true → rangeOkFields fs vs = true →
    encFields fs vs rootLeft acc = ok acc' →
    ∃ rp rb ap ab, X691.encodeFields fs vs rootLeft = some (rp, rb, ap, ab) ∧
      Frame acc acc' rp rb ap ab
  | .nil, vs, rootLeft, acc, acc', _, _, _, h => cwFields_nil vs rootLeft acc acc' h
  | .cons k t rest, vs, rootLeft, acc, acc', hd, hc, hr, h => by
    simp only [Fields.noDev, Bool.and_eq_true] at hd
    simp only [Fields.consistent, Bool.and_eq_true] at hc
    exact cwFields_cons k t rest vs rootLeft acc acc'
      (fun v bits => cw t v bits hd.1.1 hc.1)
      (fun vs acc acc' => cwFields rest vs (rootLeft - 1) acc acc' hd.2 hc.2)
      (by simpa [Bool.or_assoc] using hd.1.2) hr h
end

end Asn1Verif.Uper
