import Asn1Verif.X691.Encode
import Asn1Verif.Per.PrimLemmasWhole
import Asn1Verif.Per.PrimLemmasBitStr
/-
  C02 / C01 — the decidable side conditions of the `_partial` theorems, as Bool-valued recursive
  predicates on `Ty` / `Val` (so that `decide`/`rfl` evaluates them on concrete instances).

  `Ty.noDev`   : no node of the type lies in a known deviation class of the writer against X.691
  `rangeOk`    : the value-side facts: Rust range facts (`i64`, `u64`, slice lengths), indices below
                 the number of alternatives, and the finding F-frag exclusion (every SEQUENCE OF /
                 restricted string value has fewer than 16K items)
-/
namespace Asn1Verif.Uper
open Asn1Verif Outcome Per

/-- the length determinant of `SIZE(min..max)` is NOT in the deviating region F-64k -/
def lenOk (min max : Option Nat) : Bool := !decide (LenDeviates min max)

/-- INTEGER constraint shapes the writer encodes as X.691 says:
    `(lb..ub)` with `ub < i64::MAX` (also extensible), and the unconstrained, non-extensible INTEGER.
    Excluded (known deviations): `(lb..MAX)` — no upper bound or `i64::MAX` — written as a 63-bit
    constrained field instead of 11.7; `(MIN..ub)` written as `(0..ub)` instead of 11.8; the
    extensible INTEGER without bounds. -/
def intOk (min max : Option Int) (ext : Bool) : Bool :=
  match min, max with
  | some _, some u => decide (u < I64_MAX)
  | none, none => !ext
  | _, _ => false

mutual
/-- no node of the type is in a known deviation class -/
def Ty.noDev : Ty → Bool
  | .bool => true
  | .null => true
  | .int min max ext _ _ => intOk min max ext
  | .enum _ _ _ => true
  | .str cs min max _ => cs == .utf8 || lenOk min max
  | .oct min max _ => lenOk min max
  | .bits min max _ => lenOk min max
  | .seqOf min max _ e => lenOk min max && e.noDev
  | .seq _ _ extAfter fs =>
    -- more than 64 extension additions: the count is written as a normally small NUMBER (11.6) of
    -- n − 1 for every n; X.691 19.8 / 11.9.3.4 changes form at 65 (documented deviation; the
    -- specification `X691.encode` transcribes 11.6 there as well, so nothing is claimed)
    decide (fs.length - (match extAfter with
      | none => fs.length
      | some k => k + 1) ≤ 64) &&
    fs.noDev (match extAfter with
      | none => fs.length
      | some k => k + 1)
  | .choice _ _ _ alts => alts.noDev alts.length
/-- components: `rootLeft` root components to come; a *mandatory* extension addition whose type is a
    CHOICE or SEQUENCE OF is written inline by the code, not as an open type (deviation) -/
def Fields.noDev : Fields → Nat → Bool
  | .nil, _ => true
  | .cons k t r, rootLeft =>
    t.noDev && (decide (rootLeft > 0) || k.isOptional || t.buffersOnWrite) && r.noDev (rootLeft - 1)
end

def allVals (p : Val → Bool) : Vals → Bool
  | .nil => true
  | .cons v vs => p v && allVals p vs

mutual
/-- value-side facts; an ill-typed value satisfies it trivially (the writer refuses it) -/
def rangeOk : Ty → Val → Bool
  | .bool, _ => true
  | .null, _ => true
  | .int _ _ _ _ _, v =>
    match v with
    | .int i => decide (I64_MIN ≤ i) && decide (i ≤ I64_MAX)
    | _ => true
  | .enum _ total _, v =>
    match v with
    | .enum i => decide (i < total) && decide (total ≤ U64_MAX)
    | _ => true
  | .str cs _ _ _, v =>
    match v with
    | .str bytes =>
      cs == .utf8 ||
        (match utf8Decode bytes with
         | some chars => decide (chars.length < 16384)
         | none => true)
    | _ => true
  | .oct _ _ _, v =>
    match v with
    | .oct b => decide (b.length ≤ I64MAXu)
    | _ => true
  | .bits _ _ _, v =>
    match v with
    | .bits b => decide (b.length ≤ I64MAXu)
    | _ => true
  | .seqOf _ _ _ e, v =>
    match v with
    | .list vs => decide (vs.length < 16384) && allVals (rangeOk e) vs
    | _ => true
  | .seq _ _ _ fs, v =>
    match v with
    | .seq vs => decide (fs.length ≤ U64_MAX) && rangeOkFields fs vs
    | _ => true
  | .choice _ total _ alts, v =>
    match v with
    | .choice i x => decide (total ≤ U64_MAX) && rangeOkAlt alts i x
    | _ => true
def rangeOkAlt : Fields → Nat → Val → Bool
  | .nil, _, _ => true
  | .cons _ t _, 0, v => rangeOk t v
  | .cons _ _ r, i + 1, v => rangeOkAlt r i v
/-- the value of a component that is looked at: the inner value of a present OPTIONAL -/
def rangeOkFields : Fields → Vals → Bool
  | .nil, _ => true
  | .cons k t r, vs =>
    match vs with
    | .nil => true
    | .cons v vs =>
      (match k, v with
       | .o, .some x => rangeOk t x
       | .o, _ => true
       | _, v => rangeOk t v) && rangeOkFields r vs
end

/-- hypothesis of `conform_write_partial` on the type -/
def NoKnownDeviation (t : Ty) : Bool := t.noDev

/-- hypothesis of `conform_write_partial` on type and value -/
def InRange (t : Ty) (v : Val) : Bool := t.consistent && rangeOk t v

/-! ### the conformance profile of DESIGN.md section 4 (deviation classes NOT excluded) -/

/-- INTEGER constraint forms of 4.1: unconstrained, `(lb..ub)`, `(lb..MAX)`, `(MIN..ub)`,
    `(lb..ub, ...)`; bounds within `i64`, `lb ≤ ub` -/
def intInProfile (min max : Option Int) (ext : Bool) : Bool :=
  (!ext || (min.isSome && max.isSome)) &&
  (match min with
   | some l => decide (I64_MIN ≤ l) && decide (l ≤ I64_MAX)
   | none => true) &&
  (match max with
   | some u =>
     decide (I64_MIN ≤ u) && decide (u ≤ I64_MAX) &&
       (match min with
        | some l => decide (l ≤ u)
        | none => true)
   | none => true)

/-- SIZE forms of 4.1: none, `SIZE(n)`, `SIZE(a..b)` (an upper bound of `i64::MAX` is `MAX`) -/
def sizeInProfile (min max : Option Nat) : Bool :=
  match max with
  | some u =>
    decide (u ≤ I64MAXu) &&
      (match min with
       | some l => decide (l ≤ u)
       | none => true)
  | none => true

mutual
def Ty.inProfile : Ty → Bool
  | .bool => true
  | .null => true
  | .int min max ext _ _ => intInProfile min max ext
  | .enum _ total _ => decide (total ≤ U64_MAX)
  | .str _ min max _ => sizeInProfile min max
  | .oct min max _ => sizeInProfile min max
  | .bits min max _ => sizeInProfile min max
  | .seqOf min max _ e => sizeInProfile min max && e.inProfile
  | .seq _ _ extAfter fs =>
    -- 4.3: at most 64 extension additions
    decide (fs.length - (match extAfter with
      | none => fs.length
      | some k => k + 1) ≤ 64) && fs.inProfile
  | .choice _ total _ alts => decide (total ≤ U64_MAX) && alts.inProfile
def Fields.inProfile : Fields → Bool
  | .nil => true
  | .cons _ t r => t.inProfile && r.inProfile
end

mutual
/-- 4.2: the Rust range facts only (integers within `i64`, slice lengths within `i64`); any lengths -/
def profileOk : Ty → Val → Bool
  | .bool, _ => true
  | .null, _ => true
  | .int _ _ _ _ _, v =>
    match v with
    | .int i => decide (I64_MIN ≤ i) && decide (i ≤ I64_MAX)
    | _ => true
  | .enum _ _ _, _ => true
  | .str _ _ _ _, v =>
    match v with
    | .str bytes => decide (bytes.length ≤ I64MAXu)
    | _ => true
  | .oct _ _ _, v =>
    match v with
    | .oct b => decide (b.length ≤ I64MAXu)
    | _ => true
  | .bits _ _ _, v =>
    match v with
    | .bits b => decide (b.length ≤ I64MAXu)
    | _ => true
  | .seqOf _ _ _ e, v =>
    match v with
    | .list vs => decide (vs.length ≤ I64MAXu) && allVals (profileOk e) vs
    | _ => true
  | .seq _ _ _ fs, v =>
    match v with
    | .seq vs => profileOkFields fs vs
    | _ => true
  | .choice _ _ _ alts, v =>
    match v with
    | .choice i x => profileOkAlt alts i x
    | _ => true
def profileOkAlt : Fields → Nat → Val → Bool
  | .nil, _, _ => true
  | .cons _ t _, 0, v => profileOk t v
  | .cons _ _ r, i + 1, v => profileOkAlt r i v
def profileOkFields : Fields → Vals → Bool
  | .nil, _ => true
  | .cons k t r, vs =>
    match vs with
    | .nil => true
    | .cons v vs =>
      (match k, v with
       | .o, .some x => profileOk t x
       | .o, _ => true
       | _, v => profileOk t v) && profileOkFields r vs
end

/-- DESIGN.md section 4 as a decidable predicate: (i) a descriptor the generator can emit for a
    type of 4.1, (ii)/(iii) the value is an abstract value of the type (X.691 assigns an encoding)
    and is representable (4.2) -/
def InProfile (t : Ty) (v : Val) : Bool :=
  t.consistent && t.inProfile && profileOk t v && (X691.encode t v).isSome

end Asn1Verif.Uper
