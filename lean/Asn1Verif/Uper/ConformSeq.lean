import Asn1Verif.Uper.ConformNode
/-
  C02, writer side — SEQUENCE / SET: the accumulator frame lemma.  The writer (`encFields`) walks
  the components from the left and appends to four buffers while running the extension state
  machine; the specification (`X691.encodeFields`) builds the four parts by recursion from the
  right.  `Frame` says what one run of `encFields` has appended, per state of the machine.
-/
namespace Asn1Verif.Uper
open Asn1Verif Outcome Per

/-- presence flag of a component value and the value whose encoding is its content -/
def fieldView : Kind → Val → Option (Bool × Val)
  | .m, v => some (true, v)
  | .o, .none => some (false, .none)
  | .o, .some x => some (true, x)
  | .o, _ => none
  | .d dv, v => some (!(v == dv), v)

/-- an absent component: the content encoder is not run -/
theorem step_absent (acc : SeqAcc) (k : Kind) (t : Ty) (isRoot : Bool)
    (c c' : Unit → Outcome Bits) : acc.step k t isRoot false c = acc.step k t isRoot false c' := by
  simp [SeqAcc.step]

theorem encFields_cons_view (k : Kind) (t : Ty) (rest : Fields) (v : Val) (vs : Vals) (rootLeft : Nat)
    (acc : SeqAcc) :
    encFields (.cons k t rest) (.cons v vs) rootLeft acc =
      match fieldView k v with
      | none => err .illTyped
      | some (p, x) =>
        acc.step k t (decide (rootLeft > 0)) p (fun _ => enc t x) >>= fun acc' =>
          encFields rest vs (rootLeft - 1) acc' := by
  cases k with
  | m =>
    simp only [encFields, fieldView]
    cases acc.step Kind.m t (decide (rootLeft > 0)) true (fun _ => enc t v) <;> rfl
  | d dv =>
    simp only [encFields, fieldView]
    cases acc.step (Kind.d dv) t (decide (rootLeft > 0)) (!(v == dv)) (fun _ => enc t v) <;> rfl
  | o =>
    cases v <;> simp only [encFields, fieldView]
    case none =>
      rw [step_absent acc Kind.o t _ (fun _ => ok []) (fun _ => enc t Val.none)]
      cases acc.step Kind.o t (decide (rootLeft > 0)) false (fun _ => enc t Val.none) <;> rfl
    case some x =>
      cases acc.step Kind.o t (decide (rootLeft > 0)) true (fun _ => enc t x) <;> rfl

theorem encodeFields_cons (k : Kind) (t : Ty) (rest : Fields) (v : Val) (vs : Vals) (rootLeft : Nat) :
    X691.encodeFields (.cons k t rest) (.cons v vs) rootLeft =
      match fieldView k v, X691.encodeFields rest vs (rootLeft - 1) with
      | some (p, x), some (rp, rb, ap, ab) =>
        match (if p = true then X691.encode t x else some []) with
        | some c =>
          if rootLeft > 0 then some ((if k.isOptional then [p] else []) ++ rp, c ++ rb, ap, ab)
          else some (rp, rb, p :: ap, (if p = true then X691.openType c else []) ++ ab)
        | none => none
      | _, _ => none := by
  cases k with
  | m =>
    simp only [X691.encodeFields, fieldView, X691.present]
    cases X691.encodeFields rest vs (rootLeft - 1) with
    | none => rfl
    | some q => obtain ⟨rp, rb, ap, ab⟩ := q; dsimp only; cases X691.encode t v <;> rfl
  | d dv =>
    simp only [X691.encodeFields, fieldView, X691.present]
    cases X691.encodeFields rest vs (rootLeft - 1) with
    | none => rfl
    | some q =>
      obtain ⟨rp, rb, ap, ab⟩ := q; dsimp only
      cases (!(v == dv)) <;> cases X691.encode t v <;> rfl
  | o =>
    cases v <;> simp only [X691.encodeFields, fieldView, X691.present]
    case none =>
      cases X691.encodeFields rest vs (rootLeft - 1) <;> rfl
    case some x =>
      cases X691.encodeFields rest vs (rootLeft - 1) with
      | none => rfl
      | some q => obtain ⟨rp, rb, ap, ab⟩ := q; dsimp only; cases X691.encode t x <;> rfl
    all_goals cases X691.encodeFields rest vs (rootLeft - 1) <;> rfl

/-- what `encFields` has appended to the accumulator, per state of the extension machine:
    `all`   – every addition is recorded (bitmap bit + open type);
    `empty` – the first addition was absent: every further one is absent and nothing is recorded;
    `root`  – either the first addition seen was present (then as `all`) or none was present -/
def Frame (acc acc' : SeqAcc) (rp rb ap ab : Bits) : Prop :=
  acc'.rootPres = acc.rootPres ++ rp ∧ acc'.rootBody = acc.rootBody ++ rb ∧
  match acc.st with
  | .all => acc'.st = .all ∧ acc'.addPres = acc.addPres ++ ap ∧ acc'.addBody = acc.addBody ++ ab
  | .empty => acc'.st = .empty ∧ ap.any id = false
  | .root =>
    (acc'.st = .all ∧ ap.any id = true ∧ acc'.addPres = acc.addPres ++ ap ∧
      acc'.addBody = acc.addBody ++ ab) ∨
    (acc'.st ≠ .all ∧ ap.any id = false)

theorem rangeOk_view {k : Kind} {t : Ty} {r : Fields} {v : Val} {vs : Vals} {x : Val}
    (hr : rangeOkFields (.cons k t r) (.cons v vs) = true) (hv : fieldView k v = some (true, x)) :
    rangeOk t x = true := by
  cases k with
  | m =>
    simp only [fieldView, Option.some.injEq, Prod.mk.injEq, true_and] at hv
    subst hv
    simp only [rangeOkFields, Bool.and_eq_true] at hr
    exact hr.1
  | d dv =>
    simp only [fieldView, Option.some.injEq, Prod.mk.injEq] at hv
    obtain ⟨_, hv⟩ := hv
    subst hv
    simp only [rangeOkFields, Bool.and_eq_true] at hr
    exact hr.1
  | o =>
    cases v <;> simp only [fieldView, Option.some.injEq, Prod.mk.injEq, true_and, reduceCtorEq,
      Bool.false_eq_true, false_and] at hv
    subst hv
    simp only [rangeOkFields, Bool.and_eq_true] at hr
    exact hr.1

theorem rangeOkFields_tail {k : Kind} {t : Ty} {r : Fields} {v : Val} {vs : Vals}
    (hr : rangeOkFields (.cons k t r) (.cons v vs) = true) : rangeOkFields r vs = true := by
  simp only [rangeOkFields, Bool.and_eq_true] at hr
  exact hr.2

/-- the content of a component: the code's (wrapped or not) against the specification's -/
theorem content_conform (t : Ty) (p : Bool) (x : Val) (body : Bits)
    (iht : ∀ v bits, rangeOk t v = true → enc t v = ok bits → X691.encode t v = some bits)
    (hx : p = true → rangeOk t x = true)
    (h : (if p = true then enc t x else ok []) = ok body) :
    (if p = true then X691.encode t x else some []) = some body := by
  cases p with
  | false => simp at h ⊢; exact h
  | true => simp only [if_true] at h ⊢; exact iht x body (hx rfl) h

theorem step_root (acc : SeqAcc) (k : Kind) (t : Ty) (p : Bool) (content : Unit → Outcome Bits) :
    acc.step k t true p content =
      ((if p = true then content () else ok []) >>= fun body =>
        ok { acc with rootPres := acc.rootPres ++ (if k.isOptional then [p] else []),
                      rootBody := acc.rootBody ++ body }) := by
  simp [SeqAcc.step]

/-- the recording of one addition -/
def asAll (acc : SeqAcc) (k : Kind) (t : Ty) (p : Bool) (content : Unit → Outcome Bits) :
    Outcome SeqAcc :=
  (if p = true then (content () >>= fun c =>
      if (k.isOptional || t.buffersOnWrite) = true then openType c else ok c) else ok []) >>= fun body =>
    ok { acc with addPres := acc.addPres ++ [p], addBody := acc.addBody ++ body, st := .all }

theorem step_add (acc : SeqAcc) (k : Kind) (t : Ty) (p : Bool) (content : Unit → Outcome Bits) :
    acc.step k t false p content =
      match acc.st with
      | .root => if p = true then asAll acc k t p content else ok { acc with st := .empty }
      | .all => asAll acc k t p content
      | .empty => if p = true then err .extensionInconsistent else ok acc := by
  simp only [SeqAcc.step, Bool.false_eq_true, if_false, asAll]
  cases acc.st <;> rfl

/-- one recorded addition, conforming -/
theorem asAll_conform (acc acc1 : SeqAcc) (k : Kind) (t : Ty) (p : Bool) (x : Val)
    (iht : ∀ v bits, rangeOk t v = true → enc t v = ok bits → X691.encode t v = some bits)
    (hx : p = true → rangeOk t x = true)
    (hw : (k.isOptional || t.buffersOnWrite) = true)
    (h : asAll acc k t p (fun _ => enc t x) = ok acc1) :
    ∃ c, (if p = true then X691.encode t x else some []) = some c ∧
      acc1 = { acc with addPres := acc.addPres ++ [p],
                        addBody := acc.addBody ++ (if p = true then X691.openType c else []),
                        st := .all } := by
  unfold asAll at h
  obtain ⟨body, hb, h⟩ := bind_ok_elim h
  injection h with h; subst h
  cases p with
  | false =>
    simp only [Bool.false_eq_true, if_false] at hb ⊢
    injection hb with hb; subst hb
    exact ⟨[], rfl, rfl⟩
  | true =>
    simp only [if_true, hw] at hb ⊢
    obtain ⟨c, hc, ho⟩ := bind_ok_elim hb
    exact ⟨c, iht x c (hx rfl) hc, by rw [openType_conform _ _ ho]⟩

theorem cwFields_nil (vs : Vals) (rootLeft : Nat) (acc acc' : SeqAcc)
    (h : encFields .nil vs rootLeft acc = ok acc') :
    ∃ rp rb ap ab, X691.encodeFields .nil vs rootLeft = some (rp, rb, ap, ab) ∧
      Frame acc acc' rp rb ap ab := by
  cases vs with
  | cons v vs => simp [encFields] at h
  | nil =>
    simp only [encFields] at h
    injection h with h; subst h
    refine ⟨[], [], [], [], by simp [X691.encodeFields], ?_⟩
    unfold Frame
    cases hst : acc.st <;> simp

theorem cwFields_cons (k : Kind) (t : Ty) (rest : Fields) (vs : Vals) (rootLeft : Nat)
    (acc acc' : SeqAcc)
    (iht : ∀ v bits, rangeOk t v = true → enc t v = ok bits → X691.encode t v = some bits)
    (ihr : ∀ vs acc acc', rangeOkFields rest vs = true →
      encFields rest vs (rootLeft - 1) acc = ok acc' →
      ∃ rp rb ap ab, X691.encodeFields rest vs (rootLeft - 1) = some (rp, rb, ap, ab) ∧
        Frame acc acc' rp rb ap ab)
    (hw : (decide (rootLeft > 0) || k.isOptional || t.buffersOnWrite) = true)
    (hr : rangeOkFields (.cons k t rest) vs = true)
    (h : encFields (.cons k t rest) vs rootLeft acc = ok acc') :
    ∃ rp rb ap ab, X691.encodeFields (.cons k t rest) vs rootLeft = some (rp, rb, ap, ab) ∧
      Frame acc acc' rp rb ap ab := by
  cases vs with
  | nil => simp [encFields] at h
  | cons v vs =>
    rw [encFields_cons_view] at h
    rw [encodeFields_cons]
    cases hv : fieldView k v with
    | none => simp [hv] at h
    | some px =>
      obtain ⟨p, x⟩ := px
      simp only [hv] at h
      obtain ⟨acc1, hs, h⟩ := bind_ok_elim h
      obtain ⟨rp, rb, ap, ab, he, hf⟩ := ihr vs acc1 acc' (rangeOkFields_tail hr) h
      have hx : p = true → rangeOk t x = true := fun hp => by
        subst hp; exact rangeOk_view hr hv
      simp only [he]
      by_cases hroot : rootLeft > 0
      · -- root component
        simp only [hroot, decide_true] at hs
        rw [step_root] at hs
        obtain ⟨body, hb, hs⟩ := bind_ok_elim hs
        injection hs with hs; subst hs
        rw [content_conform t p x body iht hx hb]
        simp only [hroot, if_true]
        refine ⟨_, _, _, _, rfl, ?_⟩
        unfold Frame at hf ⊢
        simp only [List.append_assoc] at hf
        exact ⟨hf.1, hf.2.1, hf.2.2⟩
      · -- extension addition
        have hw' : (k.isOptional || t.buffersOnWrite) = true := by simpa [hroot] using hw
        simp only [hroot, decide_false] at hs
        rw [step_add] at hs
        simp only [hroot, if_false]
        unfold Frame at hf ⊢
        cases hst : acc.st with
        | all =>
          simp only [hst] at hs
          obtain ⟨c, hc, e1⟩ := asAll_conform acc acc1 k t p x iht hx hw' hs
          subst e1
          simp only [List.append_assoc] at hf
          rw [hc]
          exact ⟨_, _, _, _, rfl, hf.1, hf.2.1, hf.2.2.1, by simpa using hf.2.2.2.1,
            hf.2.2.2.2⟩
        | empty =>
          simp only [hst] at hs
          cases p with
          | true => simp at hs
          | false =>
            simp only [Bool.false_eq_true, if_false] at hs
            injection hs with hs; subst hs
            simp only [hst] at hf
            exact ⟨_, _, _, _, rfl, hf.1, hf.2.1, hf.2.2.1, by simpa using hf.2.2.2⟩
        | root =>
          simp only [hst] at hs
          cases p with
          | true =>
            simp only [if_true] at hs
            obtain ⟨c, hc, e1⟩ := asAll_conform acc acc1 k t true x iht hx hw' hs
            subst e1
            simp only [List.append_assoc] at hf
            rw [hc]
            exact ⟨_, _, _, _, rfl, hf.1, hf.2.1, Or.inl ⟨hf.2.2.1, by simp,
              by simpa using hf.2.2.2.1, hf.2.2.2.2⟩⟩
          | false =>
            simp only [Bool.false_eq_true, if_false] at hs
            injection hs with hs; subst hs
            simp only at hf
            refine ⟨_, _, _, _, rfl, hf.1, hf.2.1, Or.inr ⟨?_, by simpa using hf.2.2.2⟩⟩
            rw [hf.2.2.1]; intro hh; cases hh

/-- number of bitmap bits = number of extension additions -/
theorem encodeFields_addCount : ∀ (fs : Fields) (vs : Vals) (rootLeft : Nat) (rp rb ap ab : Bits),
    X691.encodeFields fs vs rootLeft = some (rp, rb, ap, ab) → ap.length = fs.length - rootLeft
  | .nil, vs, rootLeft, rp, rb, ap, ab, h => by
    cases vs <;> simp [X691.encodeFields] at h
    simp [h.2.2.1, Fields.length]
  | .cons k t rest, vs, rootLeft, rp, rb, ap, ab, h => by
    cases vs with
    | nil => simp [X691.encodeFields] at h
    | cons v vs =>
      rw [encodeFields_cons] at h
      cases hv : fieldView k v with
      | none => simp [hv] at h
      | some px =>
        cases he : X691.encodeFields rest vs (rootLeft - 1) with
        | none => simp [hv, he] at h
        | some q =>
          obtain ⟨rp', rb', ap', ab'⟩ := q
          have ih := encodeFields_addCount rest vs (rootLeft - 1) rp' rb' ap' ab' he
          simp only [hv, he] at h
          split at h
          · split at h
            · injection h with h
              injection h with _ h; injection h with _ h; injection h with h _
              subst h; rw [ih]; simp only [Fields.length]; omega
            · injection h with h
              injection h with _ h; injection h with _ h; injection h with h _
              subst h; simp only [List.length_cons, ih, Fields.length]; omega
          · cases h

end Asn1Verif.Uper
