import Asn1Verif.Uper.RoundTripSeqRoot
/-
  C01 — SEQUENCE / SET, reader side: extension additions.
-/
namespace Asn1Verif.Uper
open Asn1Verif Outcome Per

/-- the content of a present extension addition: wrapped as an open type or inline, both sides
    agreeing (`Fields.rtOk`) -/
theorem add_content_rt (k : Kind) (t : Ty) (iht : RT (enc t) (dec t) (valOk t)) (x v : Val)
    (body : Bits) (hv : fieldView k v = some (true, x))
    (hcond : (k.isOptional || (t.buffersOnWrite == t.buffersOnRead)) = true)
    (hvx : valOk t x = true)
    (hopen : (!(k.isOptional || t.buffersOnWrite) || openOkC (enc t x)) = true)
    (hb : (enc t x >>= fun c =>
      if (k.isOptional || t.buffersOnWrite) = true then openType c else ok c) = ok body)
    (inp : Bits) (pos : Nat) (post' : Bits) (hat : At inp pos body post') :
    ((if (k.isOptional || t.buffersOnRead) = true then readOpen (dec t) inp pos else dec t inp pos)
      >>= fun y => ok (k.wrap y.fst, y.snd)) = ok (v, pos + body.length) := by
  obtain ⟨c, hc, hb⟩ := bind_ok_elim hb
  cases hw : (k.isOptional || t.buffersOnWrite) with
  | true =>
    have hr : (k.isOptional || t.buffersOnRead) = true := by
      cases hk : k.isOptional with
      | true => rfl
      | false =>
        simp only [hk, Bool.false_or, beq_iff_eq] at hw hcond
        simp only [Bool.false_or, ← hcond, hw]
    simp only [hw, if_true] at hb
    have hl : (openOctets c).length < 16384 := by
      simpa [hw, openOkC, hc] using hopen
    simp only [hr, if_true]
    rw [readOpen_at (dec t) inp pos c post' body x hat hb hl
      (fun pos' post'' hat' => iht x c hvx hc inp pos' post'' hat')]
    simp only [Outcome.bind_ok, view_present hv]
  | false =>
    have hr : (k.isOptional || t.buffersOnRead) = false := by
      simp only [Bool.or_eq_false_iff] at hw
      simp only [hw.1, Bool.false_or, beq_iff_eq] at hcond
      simp only [hw.1, Bool.false_or, ← hcond, hw.2]
    simp only [hw, Bool.false_eq_true, if_false] at hb
    injection hb with hb; subst hb
    simp only [hr, Bool.false_eq_true, if_false]
    rw [iht x c hvx hc inp pos post' hat]
    simp only [Outcome.bind_ok, view_present hv]

/-- an extension addition while the extension part is being written (`all`), or the first one -/
theorem cont_cons_ext (k : Kind) (t : Ty) (wrest : Fields) (wvs : Vals) (rrest : Fields) (rvs : Vals)
    (iht : RT (enc t) (dec t) (valOk t))
    (v : Val) (acc acc1 fin : SeqAcc) (inp : Bits) (P B : Nat) (post : Bits)
    (ihr : Cont wrest wvs rrest rvs 0 fin inp P B)
    (ctx : SeqCtx) (addIdx pos : Nat) (p : Bool) (x : Val)
    (hcond : (k.isOptional || (t.buffersOnWrite == t.buffersOnRead)) = true)
    (hvx : p = true → valOk t x = true ∧
      (!(k.isOptional || t.buffersOnWrite) || openOkC (enc t x)) = true)
    (hv : fieldView k v = some (p, x))
    (has : asAll acc k t p (fun _ => enc t x) = ok acc1)
    (henc : encFields wrest wvs 0 acc1 = ok fin)
    (L : SeqLayout inp fin P B post) (hP : ctx.presPos = P) (hext : ctx.extBit = fin.st.isAll)
    (hidx : addIdx = acc.addPres.length)
    (hhdr : (ctx.addWin = some (winPos fin B, fin.addPres.length) ∧
        pos = addPos fin B + acc.addBody.length) ∨
      (ctx.addWin = none ∧ readExtHeader inp pos =
        ok ((winPos fin B, fin.addPres.length), addPos fin B + acc.addBody.length))) :
    decFields (.cons k t rrest) 0 acc.rootPres.length addIdx ctx inp pos
      = ok (Vals.cons v rvs, endPos fin B) := by
  obtain ⟨rp, rb, ap, ab, F⟩ := encFields_frameC wrest wvs 0 acc1 fin henc
  obtain ⟨body, hb, e1⟩ := asAll_ok has
  have hall : fin.st = .all := (F.stAll (by rw [e1])).1
  obtain ⟨_, hW, hA, _⟩ := layout_ext L hall
  have hx : ctx.extBit = true := by rw [hext, hall]; rfl
  have hfp : fin.addPres = acc.addPres ++ ([p] ++ ap) := by
    rw [F.addPres, e1]; simp only [List.append_assoc]
  have hfb : fin.addBody = acc.addBody ++ (body ++ ab) := by
    rw [F.addBody, e1]; simp only [List.append_assoc]
  -- presence bit
  have hlt : addIdx < fin.addPres.length := by
    rw [hfp, hidx]; simp only [List.length_append, List.length_cons]; omega
  have hbit : bitAt inp (winPos fin B + addIdx) = ok p := by
    apply hW.bit
    rw [hfp, hidx]; simp
  -- content
  have hcur : At inp (addPos fin B + acc.addBody.length) body (ab ++ post) := by
    have := hA
    rw [hfb] at this
    exact this.right.left
  have hcontent : (if (p || !k.isOptional) = true then
        ((if (k.isOptional || t.buffersOnRead) = true then
            readOpen (dec t) inp (addPos fin B + acc.addBody.length)
          else dec t inp (addPos fin B + acc.addBody.length)) >>= fun y => ok (k.wrap y.fst, y.snd))
      else ok (k.absent, addPos fin B + acc.addBody.length))
      = ok (v, addPos fin B + acc.addBody.length + body.length) := by
    cases p with
    | true =>
      simp only [if_true] at hb
      simp only [Bool.true_or, if_true]
      exact add_content_rt k t iht x v body hv hcond (hvx rfl).1 (hvx rfl).2 hb inp _ _ hcur
    | false =>
      simp only [Bool.false_eq_true, if_false] at hb
      injection hb with hb; subst hb
      have := view_absent hv
      simp [this.1, this.2.1]
  have hinv1 : StateInv acc1 fin B 0
      { presPos := ctx.presPos, extBit := true,
        addWin := some (winPos fin B, fin.addPres.length), nLocal := ctx.nLocal }
      (addIdx + 1) (addPos fin B + acc.addBody.length + body.length) := by
    unfold StateInv
    rw [e1]
    simp only [true_and]
    exact ⟨by simp [hidx], by simp only [List.length_append]; omega⟩
  have e2 : acc.rootPres.length = acc1.rootPres.length := by rw [e1]
  have hrest := ihr acc1
    { presPos := ctx.presPos, extBit := true,
      addWin := some (winPos fin B, fin.addPres.length), nLocal := ctx.nLocal }
    (addIdx + 1) _ henc hP (by rw [hall]; rfl) hinv1
  rw [← e2] at hrest
  rcases hhdr with ⟨h1, h2⟩ | ⟨h1, h2⟩ <;>
    simp only [decFields, Nat.lt_irrefl, if_false, hx, if_true, h1, h2, Outcome.bind_ok, hlt, hbit,
      hcontent, hrest]

/-- the header of the extension part: number of additions, bitmap window, cursor behind it -/
theorem readExtHeader_at (inp : Bits) (pos n : Nat) (rest : Bits) (hn1 : 1 ≤ n) (hn : n ≤ U64_MAX)
    (hat : At inp pos (X691.small (n - 1)) rest) (hlen : n ≤ rest.length) :
    readExtHeader inp pos =
      ok ((pos + (X691.small (n - 1)).length, n), pos + (X691.small (n - 1)).length + n) := by
  have hb := hat.bound
  unfold readExtHeader
  rw [hat.lift _ _ (rSmall_rt (n - 1) rest (by omega))]
  simp only [Outcome.bind_ok]
  have e : n - 1 + 1 = n := by omega
  rw [e, if_neg (by omega)]
  congr 2
  omega

/-- an absent extension addition when no extension part is written -/
theorem cont_cons_noext (k : Kind) (t : Ty) (wrest : Fields) (wvs : Vals) (rrest : Fields)
    (rvs : Vals)
    (v : Val) (acc acc1 fin : SeqAcc) (inp : Bits) (P B : Nat)
    (ihr : Cont wrest wvs rrest rvs 0 fin inp P B)
    (ctx : SeqCtx) (addIdx pos : Nat) (x : Val)
    (hv : fieldView k v = some (false, x))
    (hst1 : acc1.st = .empty) (hp1 : acc1.rootPres = acc.rootPres) (hb1 : acc1.rootBody = acc.rootBody)
    (henc : encFields wrest wvs 0 acc1 = ok fin)
    (hP : ctx.presPos = P) (hext : ctx.extBit = fin.st.isAll)
    (hwin : ctx.addWin = none) (hpos : pos = B + acc.rootBody.length) :
    decFields (.cons k t rrest) 0 acc.rootPres.length addIdx ctx inp pos
      = ok (Vals.cons v rvs, endPos fin B) := by
  obtain ⟨rp, rb, ap, ab, F⟩ := encFields_frameC wrest wvs 0 acc1 fin henc
  have hfe : fin.st = .empty := (F.stEmpty hst1).1
  have hx : ctx.extBit = false := by rw [hext, hfe]; rfl
  have hab := view_absent hv
  have hinv1 : StateInv acc1 fin B 0 ctx (addIdx + 1) pos := by
    unfold StateInv
    simp only [hst1]
    exact ⟨hwin, by rw [hb1]; exact hpos, trivial⟩
  have hrest := ihr acc1 ctx (addIdx + 1) pos henc hP hext hinv1
  rw [hp1] at hrest
  simp only [decFields, Nat.lt_irrefl, if_false, hx, Bool.false_eq_true]
  cases k with
  | m => exact absurd rfl hab.2.2
  | o => simp only [Outcome.bind_ok, hrest, hab.1]
  | d dv => simp only [Outcome.bind_ok, hrest, hab.1]

end Asn1Verif.Uper
