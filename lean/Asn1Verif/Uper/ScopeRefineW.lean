import Asn1Verif.Uper.ScopeLemmas
/-
  L2 — refinement, writer side, SEQUENCE part: the state of the position-patching writer while it
  walks the components of one SEQUENCE is a function (`SeqEnv.w`) of the accumulator `SeqAcc` of the
  compositional mirror; one component call of the scope machine (`comp`) is one `SeqAcc.step`.
-/
namespace Asn1Verif.Uper
open Asn1Verif Outcome Per

namespace Scope

/-- what stays fixed while the components of one SEQUENCE are written -/
structure SeqEnv where
  /-- extensible (`EXTENDED_AFTER_FIELD` is `Some`) -/
  ext : Bool
  /-- bits of the writer in front of this SEQUENCE -/
  base : Bits
  strict : Bool
  /-- `STD_OPTIONAL_FIELDS` -/
  stdOpt : Nat
  /-- `number_of_ext_fields` -/
  nExt : Nat
  /-- the normally small number `nExt - 1` -/
  sm : Bits

/-- the bits of the writer as a function of the accumulator: reserved presence bits still `0`,
    the addition bitmap still `1` behind the additions seen so far -/
def SeqEnv.bits (e : SeqEnv) (acc : SeqAcc) : Bits :=
  match acc.st with
  | .all => e.base ++ (true :: acc.rootPres ++ acc.rootBody ++ e.sm ++ acc.addPres ++
      List.replicate (e.nExt - acc.addPres.length) true ++ acc.addBody)
  | _ => e.base ++ ((if e.ext then [false] else []) ++ acc.rootPres ++
      List.replicate (e.stdOpt - acc.rootPres.length) false ++ acc.rootBody)

/-- the scope as a function of the accumulator and the number of root components to come -/
def SeqEnv.scope (e : SeqEnv) (acc : SeqAcc) (rl : Nat) : Scope :=
  match acc.st with
  | .all =>
    .allBitField
      (e.base.length + 1 + acc.rootPres.length + acc.rootBody.length + e.sm.length + acc.addPres.length)
      (e.base.length + 1 + acc.rootPres.length + acc.rootBody.length + e.sm.length + e.nExt)
  | .empty => .extensibleSequenceEmpty
  | .root =>
    if e.ext then
      .extensibleSequence e.base.length
        (some (e.base.length + 1 + acc.rootPres.length, e.base.length + 1 + e.stdOpt)) rl e.nExt
    else .optBitField (e.base.length + acc.rootPres.length) (e.base.length + e.stdOpt)

def SeqEnv.w (e : SeqEnv) (acc : SeqAcc) (rl : Nat) : W :=
  W.of (e.bits acc) (some (e.scope acc rl)) e.strict

/-- the invariant of the walk: `fields` are the components still to come, `rl` of them root -/
def SeqEnv.Inv (e : SeqEnv) (acc : SeqAcc) (fields : Fields) (rl : Nat) : Prop :=
  acc.rootPres.length + fields.optCount rl = e.stdOpt ∧
  match acc.st with
  | .root => acc.addPres = [] ∧ acc.addBody = [] ∧
      (if e.ext then fields.length = rl + e.nExt else fields.length ≤ rl)
  | .all => e.ext = true ∧ rl = 0 ∧ acc.addPres.length + fields.length = e.nExt
  | .empty => e.ext = true ∧ rl = 0

theorem optCount_zero (fields : Fields) : fields.optCount 0 = 0 := by
  cases fields <;> rfl

theorem optCount_cons_succ (k : Kind) (t : Ty) (rest : Fields) (n : Nat) :
    (Fields.cons k t rest).optCount (n + 1) = (if k.isOptional then 1 else 0) + rest.optCount n := rfl

/-! ### the root part -/

/-- entry of a root component -/
theorem entry_root (e : SeqEnv) (acc : SeqAcc) (rl : Nat) (isOpt p : Bool)
    (hst : acc.st = .root) (hrl : 0 < rl) (hlt : isOpt = true → acc.rootPres.length < e.stdOpt) :
    writeBitFieldEntry (e.w acc rl) isOpt p =
      ok (e.w { acc with rootPres := acc.rootPres ++ (if isOpt then [p] else []) } (rl - 1)) := by
  cases isOpt with
  | false =>
    simp only [Bool.false_eq_true, if_false, List.append_nil]
    unfold writeBitFieldEntry SeqEnv.w
    simp only [of_scope, SeqEnv.scope, hst]
    by_cases hx : e.ext = true
    · have h0 : rl ≠ 0 := by omega
      simp [hx, writeIntoField, h0, SeqEnv.bits, hst]
    · have hx' : e.ext = false := by simpa using hx
      simp [hx', writeIntoField, SeqEnv.bits, hst]
  | true =>
    have hlt := hlt rfl
    simp only [if_true]
    unfold writeBitFieldEntry SeqEnv.w
    simp only [of_scope, SeqEnv.scope, hst]
    have hrep : List.replicate (e.stdOpt - acc.rootPres.length) false =
        false :: List.replicate (e.stdOpt - (acc.rootPres ++ [p]).length) false := by
      rw [replicate_succ' _ _ (by omega)]
      simp only [List.length_append, List.length_singleton]
      congr 2
    by_cases hx : e.ext = true
    · have h0 : rl ≠ 0 := by omega
      simp only [hx, if_true, writeIntoField, h0, if_false]
      have hb : e.bits acc = (e.base ++ false :: acc.rootPres) ++ false ::
          (List.replicate (e.stdOpt - (acc.rootPres ++ [p]).length) false ++ acc.rootBody) := by
        simp only [SeqEnv.bits, hst, hx, if_true, hrep]
        simp [List.append_assoc]
      rw [hb, patch_mid _ _ p _ _ _ _ (by simp; omega)]
      simp only [bind_ok, of_with_scope, mk_of_rbits, of_strict, ok.injEq, of_inj, and_true, Option.some.injEq]
      constructor
      · simp [SeqEnv.bits, hst, hx, List.append_assoc]
      · simp [List.length_append] <;> omega
    · have hx' : e.ext = false := by simpa using hx
      simp only [hx', Bool.false_eq_true, if_false, writeIntoField, if_true]
      have hb : e.bits acc = (e.base ++ acc.rootPres) ++ false ::
          (List.replicate (e.stdOpt - (acc.rootPres ++ [p]).length) false ++ acc.rootBody) := by
        simp only [SeqEnv.bits, hst, hx', Bool.false_eq_true, if_false, hrep]
        simp [List.append_assoc]
      rw [hb, patch_mid _ _ p _ _ _ _ (by simp)]
      simp only [bind_ok, of_with_scope, mk_of_rbits, of_strict, ok.injEq, of_inj, and_true, Option.some.injEq]
      constructor
      · simp [SeqEnv.bits, hst, hx', List.append_assoc]
      · simp [List.length_append] <;> omega

/-! ### the extension part -/

/-- the first addition, present: extension bit patched to `1`, the number of additions and the
    bitmap (all ones) appended, scope `AllBitField` behind the first bit of the bitmap -/
theorem entry_first_present (e : SeqEnv) (hsm : wSmall (e.nExt - 1) = ok e.sm) (acc : SeqAcc)
    (isOpt : Bool) (hst : acc.st = .root) (hx : e.ext = true) (hfull : acc.rootPres.length = e.stdOpt)
    (hn : 0 < e.nExt) (hap : acc.addPres = []) (hab : acc.addBody = []) :
    writeBitFieldEntry (e.w acc 0) isOpt true =
      ok (e.w { acc with addPres := acc.addPres ++ [true], st := .all } 0) := by
  unfold writeBitFieldEntry SeqEnv.w
  simp only [of_scope, SeqEnv.scope, hst, hx, if_true, writeIntoField]
  have hb : e.bits acc = e.base ++ false :: (acc.rootPres ++ acc.rootBody) := by
    simp [SeqEnv.bits, hst, hx, hfull]
  rw [hb, patch_mid _ _ true _ _ _ _ rfl]
  have hu : uSub e.nExt 1 = ok (e.nExt - 1) := by
    unfold uSub; rw [if_pos (by omega)]
  simp only [bind_ok, hu, hsm, of_append, of_len, of_with_scope, mk_of_rbits, of_strict, ok.injEq, of_inj, and_true]
  constructor
  · simp only [SeqEnv.bits, hap, hab, List.nil_append, List.length_singleton, List.append_nil]
    rw [replicate_succ' e.nExt true hn]
    simp [List.append_assoc]
  · simp only [hap, List.nil_append, List.length_nil, List.length_append,
      List.length_cons, List.length_replicate, Option.some.injEq, allBitField.injEq]
    omega

/-- the first addition, absent: extension bit stays `0`, nothing may follow -/
theorem entry_first_absent (e : SeqEnv) (acc : SeqAcc) (isOpt : Bool) (hst : acc.st = .root)
    (hx : e.ext = true) :
    writeBitFieldEntry (e.w acc 0) isOpt false = ok (e.w { acc with st := .empty } 0) := by
  unfold writeBitFieldEntry SeqEnv.w
  simp only [of_scope, SeqEnv.scope, hst, hx, if_true, writeIntoField]
  have hb : e.bits acc = e.base ++ false :: (acc.rootPres ++
      List.replicate (e.stdOpt - acc.rootPres.length) false ++ acc.rootBody) := by
    simp [SeqEnv.bits, hst, hx]
  rw [hb, patch_mid _ _ false _ _ _ _ rfl]
  simp [SeqEnv.bits, hx]

/-- a later addition: its bit of the bitmap is patched -/
theorem entry_all (e : SeqEnv) (acc : SeqAcc) (rl : Nat) (isOpt p : Bool) (hst : acc.st = .all)
    (hlt : acc.addPres.length < e.nExt) :
    writeBitFieldEntry (e.w acc rl) isOpt p =
      ok (e.w { acc with addPres := acc.addPres ++ [p] } rl) := by
  unfold writeBitFieldEntry SeqEnv.w
  simp only [of_scope, SeqEnv.scope, hst, writeIntoField]
  have hb : e.bits acc = (e.base ++ true :: (acc.rootPres ++ acc.rootBody ++ e.sm ++ acc.addPres)) ++
      true :: (List.replicate (e.nExt - (acc.addPres ++ [p]).length) true ++ acc.addBody) := by
    simp only [SeqEnv.bits, hst]
    rw [replicate_succ' (e.nExt - acc.addPres.length) true (by omega)]
    simp only [List.length_append, List.length_singleton, List.append_assoc, List.cons_append,
      Nat.sub_sub]
  rw [hb, patch_mid _ _ p _ _ _ _ (by simp [List.length_append]; omega)]
  simp only [bind_ok, of_with_scope, mk_of_rbits, of_strict, ok.injEq, of_inj, and_true]
  constructor
  · simp [SeqEnv.bits, hst, List.append_assoc]
  · simp only [SeqEnv.scope, hst, List.length_append, List.length_singleton]
    congr 2

/-- after an absent first addition: a present one is refused, an absent one changes nothing -/
theorem entry_empty (e : SeqEnv) (acc : SeqAcc) (rl : Nat) (isOpt p : Bool) (hst : acc.st = .empty) :
    writeBitFieldEntry (e.w acc rl) isOpt p =
      if p then err .extensionInconsistent else ok (e.w acc rl) := by
  unfold writeBitFieldEntry SeqEnv.w
  simp only [of_scope, SeqEnv.scope, hst, writeIntoField]

/-! ### content behind the entry -/

theorem append_root (e : SeqEnv) (acc : SeqAcc) (rl : Nat) (b : Bits) (hst : acc.st ≠ .all) :
    (e.w acc rl).append b = e.w { acc with rootBody := acc.rootBody ++ b } rl := by
  obtain ⟨rp, rb, ap, ab, st⟩ := acc
  cases st <;> simp_all [SeqEnv.w, of_append, SeqEnv.bits, SeqEnv.scope, List.append_assoc]

theorem append_all (e : SeqEnv) (acc : SeqAcc) (rl : Nat) (b : Bits) (hst : acc.st = .all) :
    (e.w acc rl).append b = e.w { acc with addBody := acc.addBody ++ b } rl := by
  obtain ⟨rp, rb, ap, ab, st⟩ := acc
  simp only at hst
  subst hst
  simp [SeqEnv.w, of_append, SeqEnv.bits, SeqEnv.scope, List.append_assoc]

theorem openTy_w (e : SeqEnv) (acc : SeqAcc) (rl : Nat) :
    openTy (e.w acc rl).scope = match acc.st with | .root => false | _ => true := by
  obtain ⟨rp, rb, ap, ab, st⟩ := acc
  cases st <;> simp [SeqEnv.w, SeqEnv.scope]
  cases e.ext <;> simp

/-- one component call of the scope machine is one step of the accumulator -/
theorem comp_sim (e : SeqEnv) (hsm : wSmall (e.nExt - 1) = ok e.sm) (acc : SeqAcc) (k : Kind)
    (t : Ty) (rest : Fields) (rl : Nat) (p : Bool) (c : Outcome Bits)
    (hinv : e.Inv acc (.cons k t rest) rl) (hm : k.isOptional = false → p = true) :
    comp k.isOptional p (k.isOptional || t.buffersOnWrite) c (e.w acc rl) =
      acc.step k t (decide (rl > 0)) p (fun _ => c) >>= fun acc' => ok (e.w acc' (rl - 1)) := by
  obtain ⟨hopt, hinv⟩ := hinv
  cases rl with
  | succ n =>
    -- a root component
    have hst : acc.st = .root := by
      cases hs : acc.st <;> simp only [hs] at hinv
      · rfl
      · omega
      · omega
    have hlt : k.isOptional = true → acc.rootPres.length < e.stdOpt := by
      intro hk
      rw [optCount_cons_succ, hk] at hopt
      simp only [if_true] at hopt
      omega
    unfold comp
    rw [entry_root e acc (n + 1) k.isOptional p hst (by omega) hlt]
    simp only [gt_iff_lt, Nat.zero_lt_succ, decide_true, step_root_eq, bind_ok, Nat.add_sub_cancel]
    have hopen : openTy (e.w { acc with rootPres := acc.rootPres ++ (if k.isOptional then [p] else []) } n).scope = false := by
      rw [openTy_w]; simp only [hst]
    cases p with
    | false =>
      simp only [Bool.false_eq_true, if_false, bind_ok, List.append_nil]
    | true =>
      simp only [if_true, hopen, Bool.and_false, Bool.false_eq_true, if_false]
      cases c with
      | ok x =>
        simp only [bind_ok]
        rw [append_root _ _ _ _ (by simp only [hst]; exact fun h => by cases h)]
      | err k => rfl
      | panic => rfl
  | zero =>
    -- an extension addition
    have hfull : acc.rootPres.length = e.stdOpt := by rw [optCount_zero] at hopt; omega
    simp only [gt_iff_lt, Nat.lt_irrefl, decide_false, step_add_eq, Nat.zero_sub]
    unfold comp
    cases hs : acc.st with
    | root =>
      simp only [hs] at hinv
      obtain ⟨hap, hab, hlen⟩ := hinv
      have hx : e.ext = true := by
        cases hx : e.ext with
        | true => rfl
        | false => simp [hx, Fields.length] at hlen
      have hn : 0 < e.nExt := by simp [hx, Fields.length] at hlen; omega
      cases p with
      | false =>
        rw [entry_first_absent e acc _ hs hx]
        simp only [Bool.false_eq_true, if_false, bind_ok]
      | true =>
        rw [entry_first_present e hsm acc _ hs hx hfull hn hap hab]
        simp only [bind_ok, if_true, openTy_w, Bool.and_true, addContent]
        cases c with
        | ok x =>
          simp only [bind_ok]
          cases hw : (if (k.isOptional || t.buffersOnWrite) = true then openType x else ok x) with
          | ok b => simp only [bind_ok]; rw [append_all _ _ _ _ rfl]
          | err k => rfl
          | panic => rfl
        | err k => rfl
        | panic => rfl
    | all =>
      simp only [hs] at hinv
      obtain ⟨_, _, hlen⟩ := hinv
      have hlt : acc.addPres.length < e.nExt := by simp [Fields.length] at hlen; omega
      rw [entry_all e acc 0 _ p hs hlt]
      obtain ⟨rp, rb, ap, ab, st⟩ := acc
      simp only at hs
      subst hs
      simp only [bind_ok, openTy_w, Bool.and_true, addContent]
      cases p with
      | false =>
        simp only [Bool.false_eq_true, if_false, bind_ok, List.append_nil]
      | true =>
        simp only [if_true]
        cases c with
        | ok x =>
          simp only [bind_ok]
          cases hw : (if (k.isOptional || t.buffersOnWrite) = true then openType x else ok x) with
          | ok b => simp only [bind_ok]; rw [append_all _ _ _ _ rfl]
          | err k => rfl
          | panic => rfl
        | err k => rfl
        | panic => rfl
    | empty =>
      rw [entry_empty e acc 0 _ p hs]
      cases p with
      | false => simp only [Bool.false_eq_true, if_false, bind_ok]
      | true => simp only [if_true, bind_err]

/-! ### the invariant along the walk -/

theorem step_inv (e : SeqEnv) (acc acc' : SeqAcc) (k : Kind) (t : Ty) (rest : Fields) (rl : Nat)
    (p : Bool) (c : Unit → Outcome Bits) (hinv : e.Inv acc (.cons k t rest) rl)
    (h : acc.step k t (decide (rl > 0)) p c = ok acc') : e.Inv acc' rest (rl - 1) := by
  obtain ⟨hopt, hinv⟩ := hinv
  cases rl with
  | succ n =>
    have hst : acc.st = .root := by
      cases hs : acc.st <;> simp only [hs] at hinv
      · rfl
      · omega
      · omega
    simp only [gt_iff_lt, Nat.zero_lt_succ, decide_true, step_root_eq] at h
    obtain ⟨body, _, h⟩ := bind_eq_ok.1 h
    simp only [ok.injEq] at h
    subst h
    simp only [hst] at hinv
    rw [optCount_cons_succ] at hopt
    refine ⟨?_, ?_⟩
    · simp only [List.length_append, Nat.add_sub_cancel]
      cases hk : k.isOptional <;>
        simp only [hk, if_true, if_false, Bool.false_eq_true, List.length_nil,
          List.length_singleton] at hopt ⊢ <;> omega
    · simp only [hst, Nat.add_sub_cancel]
      refine ⟨hinv.1, hinv.2.1, ?_⟩
      have h3 := hinv.2.2
      cases hx : e.ext <;> simp only [hx, if_true, if_false, Bool.false_eq_true, Fields.length] at h3 ⊢ <;> omega
  | zero =>
    rw [optCount_zero] at hopt
    simp only [gt_iff_lt, Nat.lt_irrefl, decide_false, step_add_eq] at h
    simp only [Nat.zero_sub]
    cases hs : acc.st with
    | root =>
      simp only [hs] at hinv h
      obtain ⟨hap, hab, hlen⟩ := hinv
      have hx : e.ext = true := by
        cases hx : e.ext with
        | true => rfl
        | false => simp [hx, Fields.length] at hlen
      simp only [hx, if_true, Fields.length, Nat.zero_add] at hlen
      cases p with
      | false =>
        simp only [ok.injEq] at h
        subst h
        exact ⟨by rw [optCount_zero]; exact hopt, hx, rfl⟩
      | true =>
        simp only at h
        obtain ⟨body, _, h⟩ := bind_eq_ok.1 h
        simp only [ok.injEq] at h
        subst h
        refine ⟨by rw [optCount_zero]; exact hopt, hx, rfl, ?_⟩
        simp only [hap, List.nil_append, List.length_singleton]
        omega
    | all =>
      simp only [hs] at hinv h
      obtain ⟨hx, _, hlen⟩ := hinv
      obtain ⟨body, _, h⟩ := bind_eq_ok.1 h
      simp only [ok.injEq] at h
      subst h
      refine ⟨by rw [optCount_zero]; exact hopt, hx, rfl, ?_⟩
      simp only [List.length_append, List.length_singleton, Fields.length] at hlen ⊢
      omega
    | empty =>
      simp only [hs] at hinv h
      cases p with
      | false =>
        simp only [ok.injEq] at h
        subst h
        exact ⟨by rw [optCount_zero]; exact hopt, by simp only [hs]; exact hinv⟩
      | true => cases h

theorem encFields_inv (e : SeqEnv) : ∀ (fields : Fields) (vs : Vals) (rl : Nat) (acc acc' : SeqAcc),
    e.Inv acc fields rl → encFields fields vs rl acc = ok acc' → e.Inv acc' .nil (rl - fields.length)
  | .nil, vs, rl, acc, acc', hinv, h => by
    cases vs with
    | nil =>
      simp only [encFields, ok.injEq] at h
      subst h
      simpa [Fields.length] using hinv
    | cons v vs => simp [encFields] at h
  | .cons k t rest, vs, rl, acc, acc', hinv, h => by
    cases vs with
    | nil => simp [encFields] at h
    | cons v vs =>
      rw [encFields_cons] at h
      cases hp : presentOf k v with
      | none => simp [hp] at h
      | some p =>
        simp only [hp] at h
        obtain ⟨acc1, h1, h2⟩ := bind_eq_ok.1 h
        have := encFields_inv e rest vs (rl - 1) acc1 acc' (step_inv e acc acc1 k t rest rl p _ hinv h1) h2
        simpa [Fields.length, Nat.sub_sub, Nat.add_comm] using this

/-- at the end of the walk the scope is exhausted (`debug_assert!` of `scope_pushed`) -/
theorem exhausted_of_inv (e : SeqEnv) (acc : SeqAcc) (rl : Nat) (hinv : e.Inv acc .nil rl) :
    (e.scope acc rl).exhausted = true := by
  obtain ⟨hopt, hinv⟩ := hinv
  simp only [Fields.optCount, Nat.add_zero] at hopt
  cases hs : acc.st with
  | root =>
    cases hx : e.ext <;> simp [SeqEnv.scope, hs, hx, exhausted, hopt]
  | all =>
    simp only [hs, Fields.length, Nat.add_zero] at hinv
    simp [SeqEnv.scope, hs, exhausted, hinv.2.2]
  | empty => simp [SeqEnv.scope, hs, exhausted]

/-! ### the whole SEQUENCE -/

/-- what `enc` makes of the final accumulator -/
def seqFinish (ea : Option Nat) (nExt : Nat) (acc : SeqAcc) : Outcome Bits :=
  match ea with
  | none => ok (acc.rootPres ++ acc.rootBody)
  | some _ =>
    match acc.st with
    | .all => wSmall (nExt - 1) >>= fun n =>
        ok (true :: acc.rootPres ++ acc.rootBody ++ n ++ acc.addPres ++ acc.addBody)
    | _ => ok (false :: acc.rootPres ++ acc.rootBody)

theorem enc_seq' (so fc : Nat) (ea : Option Nat) (fields : Fields) (vs : Vals) :
    enc (.seq so fc ea fields) (.seq vs) =
      encFields fields vs (rootCountOf ea fields) {} >>= fun acc =>
        seqFinish ea (fields.length - rootCountOf ea fields) acc := by
  rw [enc_seq]
  cases ea <;> rfl

/-- at the end of the walk the writer holds the bits `enc` computes from the accumulator -/
theorem bits_final (e : SeqEnv) (ea : Option Nat) (hsm : wSmall (e.nExt - 1) = ok e.sm)
    (hx : e.ext = ea.isSome) (acc : SeqAcc) (rl : Nat) (hinv : e.Inv acc .nil rl) :
    ∃ x, seqFinish ea e.nExt acc = ok x ∧ e.bits acc = e.base ++ x := by
  obtain ⟨hopt, hinv⟩ := hinv
  simp only [Fields.optCount, Nat.add_zero] at hopt
  cases hs : acc.st with
  | root =>
    cases ea with
    | none =>
      simp only [Option.isSome_none] at hx
      exact ⟨_, rfl, by simp [SeqEnv.bits, hs, hx, hopt]⟩
    | some k =>
      simp only [Option.isSome_some] at hx
      exact ⟨false :: acc.rootPres ++ acc.rootBody, by simp only [seqFinish, hs], by simp [SeqEnv.bits, hs, hx, hopt]⟩
  | empty =>
    simp only [hs] at hinv
    cases ea with
    | none => simp [hinv.1] at hx
    | some k => exact ⟨false :: acc.rootPres ++ acc.rootBody, by simp only [seqFinish, hs], by simp [SeqEnv.bits, hs, hinv.1, hopt]⟩
  | all =>
    simp only [hs, Fields.length, Nat.add_zero] at hinv
    cases ea with
    | none => simp [hinv.1] at hx
    | some k =>
      refine ⟨true :: acc.rootPres ++ acc.rootBody ++ e.sm ++ acc.addPres ++ acc.addBody, by simp only [seqFinish, hs, hsm, bind_ok], ?_⟩
      simp [SeqEnv.bits, hs, hinv.2.2, List.append_assoc]

theorem writeSeqBody_eq (so fc : Nat) (ea : Option Nat) (fields : Fields) (vs : Vals)
    (hcons : (Ty.seq so fc ea fields).consistent = true) (f : W → Outcome W)
    (hsim : ∀ (e : SeqEnv), wSmall (e.nExt - 1) = ok e.sm → ∀ rl acc, e.Inv acc fields rl →
        f (e.w acc rl) = encFields fields vs rl acc >>= fun acc' => ok (e.w acc' (rl - fields.length)))
    (w1 : W) :
    writeSeqBody so fc ea f w1 = enc (.seq so fc ea fields) (.seq vs) >>= fun c =>
        (if openTy w1.scope then openType c else ok c) >>= fun b => ok (w1.append b) := by
  simp only [Ty.consistent, Bool.and_eq_true, beq_iff_eq] at hcons
  obtain ⟨⟨hfc, hea⟩, _⟩ := hcons
  obtain ⟨sm, hsm⟩ := wSmall_total (fields.length - rootCountOf ea fields - 1)
  obtain ⟨X, sc, st, hX⟩ : ∃ X sc st, w1.enter = W.of X sc st := ⟨_, _, _, eq_of _⟩
  let e : SeqEnv := { ext := ea.isSome, base := X, strict := st, stdOpt := so,
                      nExt := fields.length - rootCountOf ea fields, sm := sm }
  have hinv0 : e.Inv {} fields (rootCountOf ea fields) := by
    cases ea with
    | none =>
      simp only [beq_iff_eq] at hea
      exact ⟨by simp [hea, e], by simp [e]⟩
    | some k =>
      simp only [Bool.and_eq_true, decide_eq_true_eq, beq_iff_eq] at hea
      refine ⟨by simp [hea.2, e], ?_⟩
      simp only [rootCountOf_some, Option.isSome_some, if_true, e, true_and]
      omega
  have hstart : writeSeqBody so fc ea f w1 =
      f (e.w {} (rootCountOf ea fields)) >>= fun wf => wf.popScope sc >>= fun wi3 =>
        w1.leave wi3 := by
    unfold writeSeqBody
    rw [hX]
    cases ea with
    | none =>
      simp only [bind_ok, of_append, of_len, of_with_scope, of_scope, rootCountOf_none]
      congr 2
      simp [SeqEnv.w, SeqEnv.bits, SeqEnv.scope, e]
    | some k =>
      simp only [Bool.and_eq_true, decide_eq_true_eq, beq_iff_eq] at hea
      have hu : uSub fc (k + 1) = ok (fields.length - (k + 1)) := by
        unfold uSub; rw [if_pos (by omega), hfc]
      simp only [bind_ok, of_append, of_len, of_with_scope, of_scope, rootCountOf_some, hu]
      congr 2
      simp [SeqEnv.w, SeqEnv.bits, SeqEnv.scope, e, List.length_append]
  rw [hstart, hsim e hsm _ _ hinv0, enc_seq']
  cases hE : encFields fields vs (rootCountOf ea fields) {} with
  | err k => rfl
  | panic => rfl
  | ok acc' =>
    simp only [bind_ok]
    have hfin := encFields_inv e fields vs _ {} acc' hinv0 hE
    obtain ⟨x, hx1, hx2⟩ := bits_final e ea hsm rfl acc' _ hfin
    have hx1' : seqFinish ea (fields.length - rootCountOf ea fields) acc' = ok x := hx1
    rw [hx1']
    simp only [bind_ok, W.popScope, SeqEnv.w, of_scope, exhausted_of_inv e acc' _ hfin, if_true, hx2,
      of_with_scope]
    have : W.of (X ++ x) sc st = w1.enter.append x := by rw [hX, of_append]
    rw [show e.base = X from rfl, show e.strict = st from rfl, this]
    exact leave_enter_append w1 x

end Scope
end Asn1Verif.Uper
