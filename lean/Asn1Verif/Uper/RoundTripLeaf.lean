import Asn1Verif.Uper.RoundTripDefs
/-
  C01 — round trip of the leaves: `enc t v = ok bits` and the input continues with `bits` at `pos`
  ⇒ `dec t inp pos = ok (v, pos + bits.length)`.  From the C10 round-trip / self-consistency lemmas
  (`Per/PrimLemmas*.lean`); these hold in the deviation classes of C02 as well.
-/
namespace Asn1Verif.Uper
open Asn1Verif Outcome Per

theorem rt_bool (v : Val) (bits : Bits) (h : enc .bool v = ok bits) (inp : Bits) (pos : Nat)
    (post : Bits) (hat : At inp pos bits post) : dec .bool inp pos = ok (v, pos + bits.length) := by
  cases v <;> simp [enc] at h
  subst h
  simp only [dec]
  rw [hat.lift rdBit _ (rdBit_cons _ _)]
  rfl

theorem rt_null (v : Val) (bits : Bits) (h : enc .null v = ok bits) (inp : Bits) (pos : Nat)
    (post : Bits) (_hat : At inp pos bits post) : dec .null inp pos = ok (v, pos + bits.length) := by
  cases v <;> simp [enc] at h
  subst h
  simp [dec]

/-- the optional leading extension bit -/
theorem ext_bit_at (ext u dflt : Bool) (inp : Bits) (pos : Nat) (rest post : Bits)
    (hat : At inp pos ((if ext then [u] else []) ++ rest) post) :
    (if ext = true then liftL1 rdBit inp pos else ok (dflt, pos)) =
        ok (if ext then u else dflt, pos + (if ext then 1 else 0)) ∧
      At inp (pos + (if ext then 1 else 0)) rest post := by
  cases ext with
  | false => exact ⟨rfl, by simpa using hat⟩
  | true =>
    simp only [if_true] at hat ⊢
    exact ⟨hat.left.lift rdBit _ (rdBit_cons _ _), hat.right⟩

theorem rt_int (min max : Option Int) (ext : Bool) (w : Nat) (s : Bool) (v : Val) (bits : Bits)
    (ht : (Ty.int min max ext w s).rtOk = true) (hv : valOk (.int min max ext w s) v = true)
    (h : enc (.int min max ext w s) v = ok bits) (inp : Bits) (pos : Nat) (post : Bits)
    (hat : At inp pos bits post) :
    dec (.int min max ext w s) inp pos = ok (v, pos + bits.length) := by
  cases v <;> try (simp [enc] at h; done)
  rename_i i
  simp only [Ty.rtOk, Bool.and_eq_true, decide_eq_true_eq] at ht
  simp only [valOk, Bool.and_eq_true, decide_eq_true_eq] at hv
  obtain ⟨⟨hv1, hv2⟩, hcast⟩ := hv
  simp only [enc] at h
  simp only [dec]
  generalize hu : (if ext = true then decide (i < min.getD 0 ∨ i > max.getD I64_MAX)
      else min.isNone && max.isNone) = u at h
  cases u with
  | true =>
    simp only [if_true, wUnconstrained_ok i hv1 hv2, Outcome.bind_ok] at h
    injection h with h; subst h
    obtain ⟨e1, hat'⟩ := ext_bit_at ext true (min.isNone && max.isNone) inp pos _ post hat
    have e2 : (if ext = true then true else min.isNone && max.isNone) = true := by
      cases ext <;> simp_all
    rw [e1, e2]
    simp only [Outcome.bind_ok, if_true]
    rw [hat'.lift _ _ (rUnconstrained_rt i post hv1 hv2)]
    simp only [Outcome.bind_ok, hcast, List.length_append]
    cases ext <;> simp <;> omega
  | false =>
    simp only [Bool.false_eq_true, if_false] at h
    obtain ⟨b, hb, h⟩ := bind_ok_elim h
    injection h with h; subst h
    have hin : min.getD 0 ≤ i ∧ i ≤ max.getD I64_MAX := by
      by_cases c : min.getD 0 ≤ i ∧ i ≤ max.getD I64_MAX
      · exact c
      · rw [wConstrained_err _ _ _ (by omega)] at hb; cases hb
    rw [wConstrained_ok _ _ _ hin.1 hin.2] at hb
    injection hb with hb; subst hb
    obtain ⟨e1, hat'⟩ := ext_bit_at ext false (min.isNone && max.isNone) inp pos _ post hat
    have e2 : (if ext = true then false else min.isNone && max.isNone) = false := by
      cases ext <;> simp_all
    rw [e1, e2]
    simp only [Outcome.bind_ok, Bool.false_eq_true, if_false]
    rw [hat'.lift _ _ (rConstrained_rt _ _ i post hin.1 hin.2 ht.1 ht.2)]
    simp only [Outcome.bind_ok, hcast, List.length_append]
    cases ext <;> simp <;> omega

theorem rt_enum (std total : Nat) (ext : Bool) (v : Val) (bits : Bits)
    (ht : (Ty.enum std total ext).rtOk = true) (hv : valOk (.enum std total ext) v = true)
    (h : enc (.enum std total ext) v = ok bits) (inp : Bits) (pos : Nat) (post : Bits)
    (hat : At inp pos bits post) :
    dec (.enum std total ext) inp pos = ok (v, pos + bits.length) := by
  cases v <;> try (simp [enc] at h; done)
  rename_i i
  simp only [Ty.rtOk, decide_eq_true_eq] at ht
  simp only [valOk, Bool.and_eq_true, decide_eq_true_eq] at hv
  simp only [enc] at h
  simp only [dec]
  have hadm : i < std ∨ ext = true := by
    by_cases c : i < std
    · exact Or.inl c
    · cases ext with
      | true => exact Or.inr rfl
      | false => rw [wIndex_err std i (by omega)] at h; cases h
  have hb : bits = X691.index std ext i := by
    rcases hadm with c | c
    · rw [wIndex_root std ext i c] at h; injection h with h; exact h.symm
    · subst c
      by_cases c : i < std
      · rw [wIndex_root std true i c] at h; injection h with h; exact h.symm
      · rw [wIndex_ext std i (by omega) hv.2] at h; injection h with h; exact h.symm
  subst hb
  rw [hat.lift _ _ (rIndex_rt std ext i post hadm ht hv.2)]
  simp only [Outcome.bind_ok, hv.1, if_true]

theorem optU64_spec {o : Option Nat} (h : optU64 o = true) : ∀ u, o = some u → u ≤ U64_MAX := by
  intro u hu; subst hu; simpa [optU64] using h

theorem rt_oct (min max : Option Nat) (ext : Bool) (v : Val) (bits : Bits)
    (ht : (Ty.oct min max ext).rtOk = true)
    (h : enc (.oct min max ext) v = ok bits) (inp : Bits) (pos : Nat) (post : Bits)
    (hat : At inp pos bits post) :
    dec (.oct min max ext) inp pos = ok (v, pos + bits.length) := by
  cases v <;> try (simp [enc] at h; done)
  rename_i s
  simp only [Ty.rtOk] at ht
  simp only [enc] at h
  simp only [dec]
  rw [hat.lift _ _ (rOctets_wOctets min max ext s bits post (optU64_spec ht) h)]
  rfl

theorem rt_bits (min max : Option Nat) (ext : Bool) (v : Val) (bits : Bits)
    (ht : (Ty.bits min max ext).rtOk = true)
    (h : enc (.bits min max ext) v = ok bits) (inp : Bits) (pos : Nat) (post : Bits)
    (hat : At inp pos bits post) :
    dec (.bits min max ext) inp pos = ok (v, pos + bits.length) := by
  cases v <;> try (simp [enc] at h; done)
  rename_i s
  simp only [Ty.rtOk] at ht
  simp only [enc] at h
  simp only [dec]
  rw [hat.lift _ _ (rBitString_wBitString min max ext s bits post (optU64_spec ht) h)]
  rfl

end Asn1Verif.Uper
