import Asn1Verif.Uper.ScopeRefineR
/-
  L2 — refinement, reader side: the scope-keeping reader of `Uper/Scope.lean` computes, for every
  consistent descriptor, what the compositional mirror `Impl.dec` computes — in any enclosing scope
  (`read_ok`), by mutual structural induction over `Ty` / `Fields`.

  Excluded region (`Ty.noMandatorySeqAddition`): a mandatory extension addition of type SEQUENCE/SET
  (the converter never generates one: it wraps every addition in `Option`).  There `read_sequence`
  swallows the error of its bit-field entry (`let _ = self.read_bit_field_entry(false);`), i.e. a
  failed read of the extension header, and goes on reading at the cursor the failed read has left;
  `Impl.decFields` propagates the error.  See `Props/Scope.lean` for the counterexample.
-/
namespace Asn1Verif.Uper
open Asn1Verif Outcome Per

/-- no mandatory SEQUENCE/SET-typed component behind the first `n` components -/
def Fields.noMandSeqAdd : Fields → Nat → Bool
  | .nil, _ => true
  | .cons _ _ rest, n + 1 => rest.noMandSeqAdd n
  | .cons k t rest, 0 => !(!k.isOptional && t.isSeq) && rest.noMandSeqAdd 0

mutual
/-- no node of the descriptor has a mandatory extension addition of type SEQUENCE/SET -/
def Ty.noMandatorySeqAddition : Ty → Bool
  | .seqOf _ _ _ e => e.noMandatorySeqAddition
  | .seq _ _ ea fs =>
    (match ea with
     | some k => fs.noMandSeqAdd (k + 1)
     | none => true) && fs.noMandatorySeqAddition
  | .choice _ _ _ alts => alts.noMandatorySeqAddition
  | _ => true
def Fields.noMandatorySeqAddition : Fields → Bool
  | .nil => true
  | .cons _ t r => t.noMandatorySeqAddition && r.noMandatorySeqAddition
end

namespace Scope

/-! ### the invariant along the walk -/

theorem rinv_root (e : REnv) (ctx : SeqCtx) (k : Kind) (t : Ty) (rest : Fields) (n oi ai : Nat)
    (hinv : e.Inv ctx (.cons k t rest) (n + 1) oi ai) :
    e.Inv ctx rest n (if k.isOptional then oi + 1 else oi) ai := by
  obtain ⟨hopt, hbit, hrl, hwin⟩ := hinv
  refine ⟨?_, hbit, ?_, ?_⟩
  · simp only [Fields.optCount] at hopt
    cases hk : k.isOptional <;> simp only [hk, if_true, if_false, Bool.false_eq_true] at hopt ⊢ <;> omega
  · intro hx; have := hrl hx; simp only [Fields.length] at this; omega
  · cases hw : ctx.addWin with
    | none => simpa [hw] using hwin
    | some w => simp [hw] at hwin

theorem rinv_noext (e : REnv) (ctx : SeqCtx) (k : Kind) (t : Ty) (rest : Fields) (oi ai : Nat)
    (hinv : e.Inv ctx (.cons k t rest) 0 oi ai) (hx : ctx.extBit = false) :
    e.Inv ctx rest 0 oi (ai + 1) := by
  obtain ⟨hopt, _, _, hwin⟩ := hinv
  refine ⟨by rw [optCount_zero'] at hopt ⊢; exact hopt, by simp [hx], by simp [hx], ?_⟩
  cases hw : ctx.addWin with
  | none => simp [hx]
  | some w => simp [hw, hx] at hwin

theorem rinv_ext (e : REnv) (ctx : SeqCtx) (k : Kind) (t : Ty) (rest : Fields) (oi ai pos : Nat)
    (hinv : e.Inv ctx (.cons k t rest) 0 oi ai) (hx : ctx.extBit = true)
    (wp : (Nat × Nat) × Nat) (b : Bool)
    (hwp : extWin ctx e.inp pos = ok wp)
    (hb : (if ai < wp.1.2 then bitAt e.inp (wp.1.1 + ai) else ok false) = ok b) :
    e.Inv { ctx with addWin := some wp.1 } rest 0 oi (ai + 1) := by
  obtain ⟨hopt, hbit, _, hwin⟩ := hinv
  unfold extWin at hwp
  refine ⟨by rw [optCount_zero'] at hopt ⊢; exact hopt, hbit, fun _ => Nat.zero_le _, hx, rfl, ?_⟩
  by_cases hlt : ai < wp.1.2
  · simp only [hlt, if_true] at hb
    have := bitAt_ok_lt hb
    show wp.1.1 + min (ai + 1) wp.1.2 ≤ e.inp.length
    rw [Nat.min_eq_left (by omega)]; omega
  · show wp.1.1 + min (ai + 1) wp.1.2 ≤ e.inp.length
    rw [Nat.min_eq_right (by omega)]
    cases hw : ctx.addWin with
    | none =>
      simp only [hw] at hwin hwp
      have := readExtHeader_pos hwp
      have := hwin hx
      omega
    | some w =>
      simp only [hw, ok.injEq] at hwin hwp
      rw [← hwp]
      have := hwin.2.2
      rw [Nat.min_eq_right (by rw [← hwp] at hlt; simp only at hlt; omega)] at this
      exact this

/-! ### the walk over the components -/

/-- what follows the generated `read_seq` inside `scope_pushed`: `T` = [`skip_unknown_extension_additions`,]
    the `debug_assert!`, the original scope -/
def tailR (T : R → Outcome R) (x : Vals × R) : Outcome (Vals × R) :=
  T x.2 >>= fun r6 => ok (x.1, r6)

theorem tailR_cons (T : R → Outcome R) (v : Val) (A : Outcome (Vals × R)) :
    ((A >>= fun y => ok (Vals.cons v y.1, y.2)) >>= tailR T) =
      (A >>= tailR T) >>= fun y => ok (Vals.cons v y.1, y.2) := by
  cases A with
  | err k => rfl
  | panic => rfl
  | ok y =>
    simp only [bind_ok, tailR]
    cases T y.2 <;> rfl

theorem obind_assoc {α β γ : Type} (x : Outcome α) (f : α → Outcome β) (g : β → Outcome γ) :
    ((x >>= f) >>= g) = x >>= fun a => f a >>= g := by
  cases x <;> rfl

theorem decFields_nil_fst {rl oi ai : Nat} {ctx : SeqCtx} {inp : Bits} {pos : Nat} {y : Vals × Nat}
    (h : decFields .nil rl oi ai ctx inp pos = ok y) : y.1 = .nil := by
  simp only [decFields] at h
  split at h
  · obtain ⟨a, _, h⟩ := bind_eq_ok.1 h
    obtain ⟨b, _, h⟩ := bind_eq_ok.1 h
    simp only [ok.injEq] at h
    rw [← h]
  · simp only [ok.injEq] at h
    rw [← h]

/-! ### the cursor stays inside the input -/

theorem root_content_le {k : Kind} {t : Ty} {inp : Bits} {pos : Nat} {present : Bool}
    {vp : Val × Nat}
    (h : (if present = true then dec t inp pos >>= fun xp => ok (k.wrap xp.1, xp.2)
          else ok (k.absent, pos) : Outcome (Val × Nat)) = ok vp)
    (hpos : pos ≤ inp.length) : vp.2 ≤ inp.length := by
  cases present with
  | false => simp only [Bool.false_eq_true, if_false, ok.injEq] at h; rw [← h]; exact hpos
  | true =>
    simp only [if_true] at h
    obtain ⟨xp, hx, h⟩ := bind_eq_ok.1 h
    simp only [ok.injEq] at h
    rw [← h]
    exact ((dec_good t inp pos).bounds (a := xp.1) (p := xp.2) hx hpos).2

theorem noextContent_le {k : Kind} {t : Ty} {inp : Bits} {pos : Nat} {vp : Val × Nat}
    (h : noextContent k t inp pos = ok vp) (hpos : pos ≤ inp.length) : vp.2 ≤ inp.length := by
  cases k with
  | m => exact ((dec_good t inp pos).bounds (a := vp.1) (p := vp.2) h hpos).2
  | o => simp only [noextContent, ok.injEq] at h; rw [← h]; exact hpos
  | d dv => simp only [noextContent, ok.injEq] at h; rw [← h]; exact hpos

theorem ext_content_le {k : Kind} {t : Ty} {inp : Bits} {p : Nat} {present : Bool} {vp : Val × Nat}
    (h : (if (present || !k.isOptional) = true then
            (if (k.isOptional || t.buffersOnRead) = true then readOpen (dec t) inp p
             else dec t inp p) >>= fun xp => ok (k.wrap xp.1, xp.2)
          else ok (k.absent, p) : Outcome (Val × Nat)) = ok vp)
    (hp : p ≤ inp.length) : vp.2 ≤ inp.length := by
  split at h
  · obtain ⟨xp, hx, h⟩ := bind_eq_ok.1 h
    simp only [ok.injEq] at h
    rw [← h]
    split at hx
    · exact ((readOpen_good (fun q => dec_good t inp q) p).bounds (a := xp.1) (p := xp.2) hx hp).2
    · exact ((dec_good t inp p).bounds (a := xp.1) (p := xp.2) hx hp).2
  · simp only [ok.injEq] at h; rw [← h]; exact hp

/-- the simulation, given what the mutual induction supplies for every component type; `T` is what
    `scope_pushed` does behind the generated `read_seq` (it has to agree with the end of `decFields`) -/
theorem readFields_sim_of (e : REnv) (hL : e.inp.length < U64_MAX) (orig : Option Scope) (xb : Bool)
    (T : R → Outcome R)
    (hTail : ∀ (ctx : SeqCtx) (rl oi ai pos : Nat), ctx.extBit = xb → e.Inv ctx .nil rl oi ai →
      T (e.r ctx rl oi ai pos) =
        decFields .nil rl oi ai ctx e.inp pos >>= fun y => ok ⟨y.2, e.inp.length, orig⟩) :
    ∀ (fields : Fields),
    (∀ i k t, fields.get? i = some (k, t) → ReadOk t e.inp ∧ PlainR (read t) (dec t) e.inp) →
    ∀ (ctx : SeqCtx) (rl oi ai pos : Nat), ctx.extBit = xb → e.Inv ctx fields rl oi ai →
    (ctx.extBit = true → fields.noMandSeqAdd rl = true) → pos ≤ e.inp.length →
    (readFields fields e.inp (e.r ctx rl oi ai pos) >>= tailR T) =
      decFields fields rl oi ai ctx e.inp pos >>= fun y => ok (y.1, ⟨y.2, e.inp.length, orig⟩)
  | .nil, _, ctx, rl, oi, ai, pos, hxb, hinv, _, _ => by
    simp only [readFields, bind_ok, tailR]
    rw [hTail ctx rl oi ai pos hxb hinv]
    cases hd : decFields .nil rl oi ai ctx e.inp pos with
    | err k => rfl
    | panic => rfl
    | ok y => simp only [bind_ok, decFields_nil_fst hd]
  | .cons k t rest, hT, ctx, rl, oi, ai, pos, hxb, hinv, hms, hpos => by
    obtain ⟨hTk, hPk⟩ := hT 0 k t rfl
    have hT' : ∀ i k' t', rest.get? i = some (k', t') →
        ReadOk t' e.inp ∧ PlainR (read t') (dec t') e.inp :=
      fun i k' t' h => hT (i + 1) k' t' (by simpa [Fields.get?] using h)
    rw [readFields_cons]
    cases rl with
    | succ n =>
      rw [rstep_root e ctx k t rest n oi ai pos hinv hpos hTk hPk, decFields_cons_root]
      have hinv' := rinv_root e ctx k t rest n oi ai hinv
      have hms' : ctx.extBit = true → rest.noMandSeqAdd n = true := by
        intro hx; have := hms hx; simpa [Fields.noMandSeqAdd] using this
      cases (if k.isOptional then bitAt e.inp (ctx.presPos + oi) else ok true) with
      | err k => rfl
      | panic => rfl
      | ok present =>
        simp only [bind_ok]
        cases hvp : (if present = true then dec t e.inp pos >>= fun xp => ok (k.wrap xp.1, xp.2)
            else ok (k.absent, pos) : Outcome (Val × Nat)) with
        | err k => rfl
        | panic => rfl
        | ok vp =>
          simp only [bind_ok]
          rw [tailR_cons, readFields_sim_of e hL orig xb T hTail rest hT' ctx n _ ai vp.2 hxb hinv' hms'
            (root_content_le hvp hpos)]
          cases decFields rest n (if k.isOptional then oi + 1 else oi) ai ctx e.inp vp.2 <;> rfl
    | zero =>
      cases hx : ctx.extBit with
      | false =>
        rw [rstep_noext e ctx k t rest oi ai pos hinv hx hpos hTk, decFields_cons_add_noext' _ _ _ _ _ _ _ _ hx]
        have hinv' := rinv_noext e ctx k t rest oi ai hinv hx
        cases hvp : noextContent k t e.inp pos with
        | err k => rfl
        | panic => rfl
        | ok vp =>
          simp only [bind_ok]
          rw [tailR_cons, readFields_sim_of e hL orig xb T hTail rest hT' ctx 0 oi (ai + 1) vp.2 hxb hinv' (by simp [hx])
            (noextContent_le hvp hpos)]
          cases decFields rest 0 oi (ai + 1) ctx e.inp vp.2 <;> rfl
      | true =>
        have hms0 := hms hx
        simp only [Fields.noMandSeqAdd, Bool.and_eq_true, Bool.not_eq_true', Bool.and_eq_false_imp,
          Bool.not_eq_true'] at hms0
        have hmsk : k.isOptional = false → t.isSeq = false := by
          intro hk
          have := hms0.1
          simpa [hk] using this
        rw [rstep_ext e hL ctx k t rest oi ai pos hinv hx hmsk hpos hTk hPk,
          decFields_cons_add_ext' _ _ _ _ _ _ _ _ hx]
        cases hwp : extWin ctx e.inp pos with
        | err k => rfl
        | panic => rfl
        | ok wp =>
          simp only [bind_ok]
          cases hb : (if ai < wp.1.2 then bitAt e.inp (wp.1.1 + ai) else ok false) with
          | err k => rfl
          | panic => rfl
          | ok present =>
            have hinv' := rinv_ext e ctx k t rest oi ai pos hinv hx wp present hwp hb
            simp only [bind_ok]
            cases hvp : (if (present || !k.isOptional) = true then
                (if (k.isOptional || t.buffersOnRead) = true then readOpen (dec t) e.inp wp.2
                 else dec t e.inp wp.2) >>= fun xp => ok (k.wrap xp.1, xp.2)
                else ok (k.absent, wp.2) : Outcome (Val × Nat)) with
            | err k => rfl
            | panic => rfl
            | ok vp =>
              simp only [bind_ok]
              rw [tailR_cons, readFields_sim_of e hL orig xb T hTail rest hT' { ctx with addWin := some wp.1 } 0 oi (ai + 1) vp.2
                hxb hinv'
                (fun _ => hms0.2) (ext_content_le hvp (extWin_le hwp hpos))]
              cases decFields rest 0 oi (ai + 1) { ctx with addWin := some wp.1 } e.inp vp.2 <;> rfl

/-! ### the whole SEQUENCE -/

/-- the end of the walk when no extension part was sent: only the `debug_assert!` of `scope_pushed` -/
theorem pop_nil_noext (e : REnv) (orig : Option Scope) (ctx : SeqCtx) (rl oi ai pos : Nat)
    (hx : ctx.extBit = false) (hinv : e.Inv ctx .nil rl oi ai) :
    (e.r ctx rl oi ai pos).popScope orig =
      decFields .nil rl oi ai ctx e.inp pos >>= fun y => ok ⟨y.2, e.inp.length, orig⟩ := by
  have hoi : oi = e.stdOpt := by simpa [Fields.optCount] using hinv.1
  simp only [decFields, hx, Bool.false_eq_true, if_false, bind_ok, REnv.r, REnv.scope,
    R.popScope, exhausted, hoi, beq_self_eq_true, if_true]

theorem bitAt_of_rdBit {inp : Bits} {pos p : Nat} {b : Bool} (h : liftL1 rdBit inp pos = ok (b, p)) :
    bitAt inp pos = ok b := by
  rw [liftL1_rdBit] at h
  unfold bitAt
  cases hg : inp[pos]? with
  | none => simp [hg] at h
  | some x => simp only [hg, ok.injEq, Prod.mk.injEq] at h; simp only [h.1]

/-- the closure of `read_sequence` reads what `dec` reads, in place -/
theorem readSeqCore_eq (so fc : Nat) (ea : Option Nat) (fields : Fields)
    (hcons : (Ty.seq so fc ea fields).consistent = true)
    (hms : ∀ k, ea = some k → fields.noMandSeqAdd (k + 1) = true)
    (inp : Bits) (hL : inp.length < U64_MAX)
    (hT : ∀ i k t, fields.get? i = some (k, t) → ReadOk t inp ∧ PlainR (read t) (dec t) inp) :
    InPlaceLe (fun r1 => readSeqCore so fc ea (readFields fields) inp r1 >>= fun x =>
      ok (Val.seq x.1, x.2)) (dec (.seq so fc ea fields)) inp := by
  intro r1 hl hp
  simp only [Ty.consistent, Bool.and_eq_true, beq_iff_eq] at hcons
  obtain ⟨⟨hfc, hea⟩, _⟩ := hcons
  rw [dec_seq]
  -- the part behind the extension bit, for a reader that has seen no extension bit set
  have hno : ∀ (p0 rc : Nat), p0 ≤ inp.length → so = fields.optCount rc →
      ¬ (inp.length - p0 < so) →
      (readFields fields inp ⟨p0 + so, inp.length, some (.optBitField p0 (p0 + so))⟩ >>= fun x =>
        x.2.popScope r1.scope >>= fun r6 => ok (x.1, r6)) =
      decFields fields rc 0 0 { presPos := p0, extBit := false, nLocal := fields.length - rc } inp
        (p0 + so) >>= fun y => ok (y.1, ⟨y.2, inp.length, r1.scope⟩) := by
    intro p0 rc hp0 hso hchk
    let e : REnv := { inp := inp, stdOpt := so, bitPos := 0 }
    have := readFields_sim_of e hL r1.scope false (fun r => r.popScope r1.scope)
      (fun ctx rl oi ai pos hx hinv => pop_nil_noext e r1.scope ctx rl oi ai pos hx hinv) fields hT
      { presPos := p0, extBit := false, nLocal := fields.length - rc } rc 0 0 (p0 + so) rfl
      ⟨by simp [e, hso], by simp, by simp, by simp⟩ (by simp) (by show p0 + so ≤ inp.length; omega)
    simp only [REnv.r, REnv.scope, Bool.false_eq_true, if_false, Nat.add_zero, e] at this
    exact this
  cases ea with
  | none =>
    simp only [beq_iff_eq] at hea
    simp only [readSeqCore, bind_ok, rootCountOf_none, hl, ← hea]
    by_cases hchk : inp.length - r1.pos < so
    · simp only [hchk, if_true, bind_err]
    · simp only [hchk, if_false]
      have hmin : min (r1.pos + so) inp.length = r1.pos + so := Nat.min_eq_left (by omega)
      have := hno r1.pos fields.length hp hea hchk
      simp only [hmin]
      rw [this, Nat.sub_self]
      cases decFields fields fields.length 0 0 { presPos := r1.pos, extBit := false, nLocal := 0 }
        inp (r1.pos + so) <;> rfl
  | some k =>
    simp only [Bool.and_eq_true, decide_eq_true_eq, beq_iff_eq] at hea
    obtain ⟨hk, hso⟩ := hea
    have hu : uSub fc (k + 1) = ok (fields.length - (k + 1)) := by
      unfold uSub; rw [if_pos (by omega), hfc]
    simp only [readSeqCore, rootCountOf_some, liftR_full _ inp r1 hl]
    cases hb : liftL1 rdBit inp r1.pos with
    | err k => rfl
    | panic => rfl
    | ok bp =>
      obtain ⟨b, p0⟩ := bp
      have hp0 : p0 ≤ inp.length := liftL1_le hb
      simp only [bind_ok, hl, ← hso]
      by_cases hchk : inp.length - p0 < so
      · simp only [hchk, if_true]
        cases b <;> rfl
      · simp only [hchk, if_false]
        have hmin : min (p0 + so) inp.length = p0 + so := Nat.min_eq_left (by omega)
        simp only [hmin]
        cases b with
        | false =>
          have := hno p0 (k + 1) hp0 hso hchk
          simp only [Bool.false_eq_true, if_false]
          rw [this]
          cases decFields fields (k + 1) 0 0
            { presPos := p0, extBit := false, nLocal := fields.length - (k + 1) } inp (p0 + so) <;> rfl
        | true =>
          simp only [if_true, hu, bind_ok]
          let e : REnv := { inp := inp, stdOpt := so, bitPos := r1.pos }
          have := readFields_sim_of e hL r1.scope true
            (fun r4 => skipUnknownAdditions inp r4 >>= fun r5 => r5.popScope r1.scope)
            (fun ctx rl oi ai pos _ hinv => tail_nil e hL r1.scope ctx rl oi ai pos hinv) fields hT
            { presPos := p0, extBit := true, nLocal := fields.length - (k + 1) } (k + 1) 0 0 (p0 + so) rfl
            ⟨by simp [e, hso], fun _ => bitAt_of_rdBit hb, fun _ => by omega, by simp⟩
            (fun _ => hms k rfl) (by show p0 + so ≤ inp.length; omega)
          simp only [REnv.r, REnv.scope, if_true, Nat.add_zero, e] at this
          have hre : ∀ A : Outcome (Vals × R),
              (A >>= fun x => skipUnknownAdditions inp x.2 >>= fun r5 =>
                r5.popScope r1.scope >>= fun r6 => ok (x.1, r6)) =
              A >>= tailR (fun r4 => skipUnknownAdditions inp r4 >>= fun r5 => r5.popScope r1.scope) := by
            intro A
            cases A with
            | ok x => simp only [bind_ok, tailR, obind_assoc]
            | err k => rfl
            | panic => rfl
          rw [hre, this]
          cases decFields fields (k + 1) 0 0
            { presPos := p0, extBit := true, nLocal := fields.length - (k + 1) } inp (p0 + so) <;> rfl

/-! ### lists, alternatives -/

theorem plainR_of_readOk {t : Ty} {inp : Bits} (h : ReadOk t inp) : PlainR (read t) (dec t) inp := by
  intro pos hpos
  rw [h _ rfl hpos, rcomp_none]

theorem readListWith_eq (f : Bits → R → Outcome (Val × R)) (g : RdP Val) (inp : Bits)
    (hf : PlainR f g inp) (hg : ∀ pos, GoodP inp pos (g inp pos)) :
    ∀ (n pos : Nat), pos ≤ inp.length →
      readListWith f n inp ⟨pos, inp.length, none⟩ =
        decListWith g n inp pos >>= fun y => ok (y.1, ⟨y.2, inp.length, none⟩)
  | 0, pos, _ => by simp [readListWith, decListWith]
  | n + 1, pos, hpos => by
    simp only [readListWith, decListWith]
    rw [hf pos hpos]
    cases hx : g inp pos with
    | err k => rfl
    | panic => rfl
    | ok x =>
      have hle := ((hg pos).bounds (a := x.1) (p := x.2) hx hpos).2
      simp only [bind_ok]
      rw [readListWith_eq f g inp hf hg n x.2 hle]
      cases decListWith g n inp x.2 <;> rfl

/-- SEQUENCE OF inside `with_buffer`: extension bit, length, elements with the scope stashed -/
theorem seqOfCore_eq (min max : Option Nat) (ext : Bool) (elem : Ty) (inp : Bits)
    (hP : PlainR (read elem) (dec elem) inp) :
    InPlace (fun r1 =>
      (if ext then liftR rdBit inp r1 else ok (false, r1)) >>= fun x =>
        (if x.1 then liftR (rLen none none) inp x.2 else liftR (rLen min max) inp x.2) >>= fun y =>
          if y.1 > 0 then
            readListWith (read elem) y.1 inp { y.2 with scope := none } >>= fun z =>
              ok (Val.list z.1, { z.2 with scope := y.2.scope })
          else ok (Val.list .nil, y.2))
      (dec (.seqOf min max ext elem)) inp := by
  intro r1 hl
  simp only [dec]
  have hlist : ∀ (n : Nat) (r3 : R), r3.len = inp.length → r3.pos ≤ inp.length →
      (if n > 0 then
          readListWith (read elem) n inp { r3 with scope := none } >>= fun z =>
            ok (Val.list z.1, { z.2 with scope := r3.scope })
        else ok (Val.list .nil, r3)) =
      decListWith (dec elem) n inp r3.pos >>= fun z => ok (Val.list z.1, { r3 with pos := z.2 }) := by
    intro n r3 h3 hp3
    have h3' : ({ r3 with scope := none } : R) = ⟨r3.pos, inp.length, none⟩ := by rw [← h3]
    cases n with
    | zero => simp [decListWith]
    | succ n =>
      simp only [Nat.zero_lt_succ, gt_iff_lt, if_true, h3']
      rw [readListWith_eq _ _ inp hP (fun q => dec_good elem inp q) (n + 1) r3.pos hp3]
      cases decListWith (dec elem) (n + 1) inp r3.pos with
      | err k => rfl
      | panic => rfl
      | ok z => simp only [bind_ok, h3]
  have hlen : ∀ (isExt : Bool) (r2 : R), r2.len = inp.length →
      ((if isExt then liftR (rLen none none) inp r2 else liftR (rLen min max) inp r2) >>= fun y =>
        if y.1 > 0 then
          readListWith (read elem) y.1 inp { y.2 with scope := none } >>= fun z =>
            ok (Val.list z.1, { z.2 with scope := y.2.scope })
        else ok (Val.list .nil, y.2)) =
      ((if isExt then liftL1 (rLen none none) inp r2.pos else liftL1 (rLen min max) inp r2.pos) >>= fun y =>
        decListWith (dec elem) y.1 inp y.2 >>= fun z => ok (Val.list z.1, { r2 with pos := z.2 })) := by
    intro isExt r2 h2
    cases isExt with
    | true =>
      simp only [if_true, liftR_full _ inp r2 h2]
      cases hy : liftL1 (rLen none none) inp r2.pos with
      | err k => rfl
      | panic => rfl
      | ok y =>
        simp only [bind_ok]
        exact hlist y.1 { r2 with pos := y.2 } h2 (liftL1_le (a := y.1) (p := y.2) hy)
    | false =>
      simp only [Bool.false_eq_true, if_false, liftR_full _ inp r2 h2]
      cases hy : liftL1 (rLen min max) inp r2.pos with
      | err k => rfl
      | panic => rfl
      | ok y =>
        simp only [bind_ok]
        exact hlist y.1 { r2 with pos := y.2 } h2 (liftL1_le (a := y.1) (p := y.2) hy)
  cases ext with
  | false =>
    simp only [Bool.false_eq_true, if_false, bind_ok]
    have := hlen false r1 hl
    simp only [Bool.false_eq_true, if_false] at this
    rw [this]
    cases liftL1 (rLen min max) inp r1.pos with
    | err k => rfl
    | panic => rfl
    | ok y =>
      simp only [bind_ok]
      cases decListWith (dec elem) y.1 inp y.2 <;> rfl
  | true =>
    simp only [if_true, liftR_full _ inp r1 hl]
    cases liftL1 rdBit inp r1.pos with
    | err k => rfl
    | panic => rfl
    | ok x =>
      simp only [bind_ok]
      have := hlen x.1 { r1 with pos := x.2 } hl
      simp only at this
      rw [this]
      cases (if x.1 = true then liftL1 (rLen none none) inp x.2 else liftL1 (rLen min max) inp x.2) with
      | err k => rfl
      | panic => rfl
      | ok y =>
        simp only [bind_ok]
        cases decListWith (dec elem) y.1 inp y.2 <;> rfl

/-! ### the mutual induction -/

theorem decAlt_of_length_le : ∀ (alts : Fields) (i : Nat) (inp : Bits) (pos : Nat),
    alts.length ≤ i → decAlt alts i inp pos = err .invalidChoiceIndex
  | .nil, _, _, _, _ => by simp [decAlt]
  | .cons _ _ rest, 0, _, _, h => by simp [Fields.length] at h
  | .cons _ _ rest, i + 1, inp, pos, h => by
    simp only [decAlt]
    exact decAlt_of_length_le rest i inp pos (by simp only [Fields.length] at h; omega)

mutual
/-- the refinement in an arbitrary enclosing scope: `T::read_value` is the bit-field entry
    followed by the compositional reader, as open type where the code says so -/
theorem read_ok : ∀ (t : Ty), t.consistent = true → t.noMandatorySeqAddition = true →
    ∀ (inp : Bits), inp.length < U64_MAX → ReadOk t inp
  | .bool, _, _, inp, _ => fun r hl _ => by
    simp only [read, Ty.isSeq, Ty.buffersOnRead]; exact readLeaf_eq _ inp r hl
  | .null, _, _, inp, _ => fun r hl _ => by
    simp only [read, Ty.isSeq, Ty.buffersOnRead]; exact readLeaf_eq _ inp r hl
  | .int .., _, _, inp, _ => fun r hl _ => by
    simp only [read, Ty.isSeq, Ty.buffersOnRead]; exact readLeaf_eq _ inp r hl
  | .enum .., _, _, inp, _ => fun r hl _ => by
    simp only [read, Ty.isSeq, Ty.buffersOnRead]; exact readLeaf_eq _ inp r hl
  | .str .., _, _, inp, _ => fun r hl _ => by
    simp only [read, Ty.isSeq, Ty.buffersOnRead]; exact readLeaf_eq _ inp r hl
  | .oct .., _, _, inp, _ => fun r hl _ => by
    simp only [read, Ty.isSeq, Ty.buffersOnRead]; exact readLeaf_eq _ inp r hl
  | .bits .., _, _, inp, _ => fun r hl _ => by
    simp only [read, Ty.isSeq, Ty.buffersOnRead]; exact readLeaf_eq _ inp r hl
  | .seqOf min max ext elem, hc, hm, inp, hL => fun r hl _ => by
    have hc' : elem.consistent = true := by simpa [Ty.consistent] using hc
    have hm' : elem.noMandatorySeqAddition = true := by simpa [Ty.noMandatorySeqAddition] using hm
    have hP := plainR_of_readOk (read_ok elem hc' hm' inp hL)
    simp only [read, rcomp, Ty.isSeq, Ty.buffersOnRead, Bool.false_eq_true, if_false]
    cases he : entryQ inp r false with
    | err k => rfl
    | panic => rfl
    | ok x =>
      obtain ⟨q, r0⟩ := x
      have hl0 : r0.len = inp.length := by rw [entryQ_len he, hl]
      simp only [bind_ok]
      rw [← enter_leave _ _ inp r0 hl0 (seqOfCore_eq min max ext elem inp hP)]
      cases r0.enter inp with
      | err k => rfl
      | panic => rfl
      | ok y =>
        obtain ⟨r1, e⟩ := y
        simp only [bind_ok]
        cases (if ext = true then liftR rdBit inp r1 else ok (false, r1)) with
        | err k => rfl
        | panic => rfl
        | ok a =>
          obtain ⟨isExt, r2⟩ := a
          simp only [bind_ok]
          cases (if isExt = true then liftR (rLen none none) inp r2 else liftR (rLen min max) inp r2) with
          | err k => rfl
          | panic => rfl
          | ok b =>
            obtain ⟨len, r3⟩ := b
            simp only [bind_ok]
            by_cases hlen : len > 0
            · simp only [hlen, if_true]
              cases readListWith (read elem) len inp { r3 with scope := none } <;> rfl
            · simp only [hlen, if_false, bind_ok]
  | .seq so fc ea fields, hc, hm, inp, hL => fun r hl hp => by
    have hc' : fields.consistent = true := by
      simp only [Ty.consistent, Bool.and_eq_true] at hc; exact hc.2
    simp only [Ty.noMandatorySeqAddition, Bool.and_eq_true] at hm
    have hms : ∀ k, ea = some k → fields.noMandSeqAdd (k + 1) = true := by
      intro k hk; subst hk; exact hm.1
    have hT := readFields_ok fields hc' hm.2 inp hL
    have hcore := readSeqCore_eq so fc ea fields hc hms inp hL hT
    simp only [read, rcomp, Ty.isSeq, Ty.buffersOnRead, if_true, bind_ok]
    have hl0 : (readBitFieldEntry inp r false).2.len = inp.length := by rw [entry_len, hl]
    have hp0 := entry_pos_le inp r false hl hp
    rw [← enter_leave_le _ _ inp _ hl0 hp0 hcore]
    unfold readSeqBody
    cases R.enter inp (readBitFieldEntry inp r false).2 with
    | err k => rfl
    | panic => rfl
    | ok y =>
      simp only [bind_ok]
      cases readSeqCore so fc ea (readFields fields) inp y.1 <;> rfl
  | .choice std total ext alts, hc, hm, inp, hL => fun r hl _ => by
    simp only [Ty.consistent, Bool.and_eq_true, beq_iff_eq, decide_eq_true_eq] at hc
    obtain ⟨⟨htot, hstd⟩, hc'⟩ := hc
    have hm' : alts.noMandatorySeqAddition = true := by simpa [Ty.noMandatorySeqAddition] using hm
    have hA := readAlt_ok alts hc' hm' inp hL
    simp only [read, rcomp, Ty.isSeq, Ty.buffersOnRead, Bool.false_eq_true, if_false]
    cases he : entryQ inp r false with
    | err k => rfl
    | panic => rfl
    | ok x =>
      obtain ⟨q, r0⟩ := x
      have hl0 : r0.len = inp.length := by rw [entryQ_len he, hl]
      simp only [bind_ok]
      rw [rbody_closed]
      simp only [Bool.false_and, Bool.false_eq_true, if_false, dec]
      have h0 : ({ r0 with scope := none } : R) = ⟨r0.pos, inp.length, none⟩ := by rw [← hl0]
      rw [h0, liftR_mk]
      cases hi : liftL1 (rIndex std ext) inp r0.pos with
      | err k => rfl
      | panic => rfl
      | ok ip =>
        obtain ⟨i, p0⟩ := ip
        have hp0 : p0 ≤ inp.length := liftL1_le hi
        simp only [bind_ok]
        by_cases hge : i ≥ std
        · simp only [hge, if_true, liftR_mk]
          cases hlen : liftL1 (rLen none none) inp p0 with
          | err k => rfl
          | panic => rfl
          | ok lp =>
            obtain ⟨len, p1⟩ := lp
            have hp1 : p1 ≤ inp.length := liftL1_le hlen
            simp only [bind_ok]
            rw [hA i p1 hp1, htot]
            by_cases hlt : i < alts.length
            · have hnge : ¬ (i ≥ alts.length) := by omega
              simp only [hlt, if_true, hnge, if_false, subSlice]
              cases decAlt alts i inp p1 with
              | err k => rfl
              | panic => rfl
              | ok y => simp only [bind_ok, hl0]
            · have hge' : i ≥ alts.length := by omega
              simp only [hlt, if_false, hge', if_true, bind_ok, bind_err]
        · simp only [hge, if_false]
          have hlt : i < alts.length := by omega
          rw [hA i p0 hp0]
          simp only [hlt, if_true]
          cases decAlt alts i inp p0 with
          | err k => rfl
          | panic => rfl
          | ok y => simp only [bind_ok, hl0]

/-- `C::read_content(index, reader)` outside of any scope -/
theorem readAlt_ok : ∀ (alts : Fields), alts.consistent = true → alts.noMandatorySeqAddition = true →
    ∀ (inp : Bits), inp.length < U64_MAX → ∀ (i pos : Nat), pos ≤ inp.length →
    readAlt alts i inp ⟨pos, inp.length, none⟩ =
      if i < alts.length then decAlt alts i inp pos >>= fun y => ok (some y.1, ⟨y.2, inp.length, none⟩)
      else ok (none, ⟨pos, inp.length, none⟩)
  | .nil, _, _, inp, _, i, pos, _ => by simp [readAlt, Fields.length]
  | .cons k t rest, hc, hm, inp, hL, 0, pos, hpos => by
    simp only [Fields.consistent, Bool.and_eq_true] at hc
    simp only [Fields.noMandatorySeqAddition, Bool.and_eq_true] at hm
    have hP := plainR_of_readOk (read_ok t hc.1 hm.1 inp hL)
    simp only [readAlt, decAlt, Fields.length, Nat.zero_lt_succ, if_true]
    rw [hP pos hpos]
    cases dec t inp pos <;> rfl
  | .cons k t rest, hc, hm, inp, hL, i + 1, pos, hpos => by
    simp only [Fields.consistent, Bool.and_eq_true] at hc
    simp only [Fields.noMandatorySeqAddition, Bool.and_eq_true] at hm
    simp only [readAlt, decAlt, Fields.length, Nat.add_lt_add_iff_right]
    exact readAlt_ok rest hc.2 hm.2 inp hL i pos hpos

/-- what the walk over the components needs of every component type -/
theorem readFields_ok : ∀ (fields : Fields), fields.consistent = true →
    fields.noMandatorySeqAddition = true → ∀ (inp : Bits), inp.length < U64_MAX →
    ∀ i k t, fields.get? i = some (k, t) → ReadOk t inp ∧ PlainR (read t) (dec t) inp
  | .nil, _, _, _, _, i, k, t, h => by simp [Fields.get?] at h
  | .cons k0 t0 rest, hc, hm, inp, hL, 0, k, t, h => by
    simp only [Fields.consistent, Bool.and_eq_true] at hc
    simp only [Fields.noMandatorySeqAddition, Bool.and_eq_true] at hm
    simp only [Fields.get?, Option.some.injEq, Prod.mk.injEq] at h
    obtain ⟨_, rfl⟩ := h
    have := read_ok t0 hc.1 hm.1 inp hL
    exact ⟨this, plainR_of_readOk this⟩
  | .cons k0 t0 rest, hc, hm, inp, hL, i + 1, k, t, h => by
    simp only [Fields.consistent, Bool.and_eq_true] at hc
    simp only [Fields.noMandatorySeqAddition, Bool.and_eq_true] at hm
    exact readFields_ok rest hc.2 hm.2 inp hL i k t (by simpa [Fields.get?] using h)
end

end Scope
end Asn1Verif.Uper
