import Asn1Verif.Uper.RoundTripFrag
/-
  C02 — finding F-frag against X.691, symbolically: for `n ≥ 16K` booleans the X.691 encoding
  carries at least two length determinants (11.9.3.8), the writer's bits exactly one.
-/
namespace Asn1Verif.Uper
open Asn1Verif Outcome Per

theorem lenU_fst_length_ge8 (n : Nat) : 8 ≤ (X691.lenU n).1.length := by
  unfold X691.lenU
  split
  · simp
  · split <;> simp

theorem flatten_singletons (xs : List Bits) (h : ∀ x ∈ xs, x.length = 1) :
    xs.flatten.length = xs.length := by
  rw [flatten_length_const 1 xs h, Nat.mul_one]

/-- every X.691 fragmented encoding of unit-width items carries its items and at least one length
    determinant, two from 16K items on -/
theorem fragU_length_ge : ∀ (n : Nat) (xs : List Bits), xs.length = n → (∀ x ∈ xs, x.length = 1) →
    xs.length + 8 ≤ (X691.fragU List.flatten xs).length ∧
      (16384 ≤ xs.length → xs.length + 16 ≤ (X691.fragU List.flatten xs).length) := by
  intro n
  induction n using Nat.strongRecOn with
  | ind n ih =>
    intro xs hn h1
    have h8 := lenU_fst_length_ge8 xs.length
    by_cases h : xs.length < 16384
    · rw [fragU_lt _ _ h, List.length_append, flatten_singletons xs h1]
      exact ⟨by omega, fun hge => by omega⟩
    · have hge : 16384 ≤ xs.length := by omega
      have hb := frag_bounds hge
      rw [fragU_ge _ _ hge, List.length_append, List.length_append]
      have ht : (xs.take (min (xs.length / 16384) 4 * 16384)).flatten.length
          = min (xs.length / 16384) 4 * 16384 := by
        rw [flatten_singletons _ (fun x hx => h1 x (List.mem_of_mem_take hx)), List.length_take]
        omega
      have hd := (ih (xs.length - min (xs.length / 16384) 4 * 16384) (by omega)
        (xs.drop (min (xs.length / 16384) 4 * 16384)) (by simp)
        (fun x hx => h1 x (List.mem_of_mem_drop hx))).1
      rw [List.length_drop] at hd
      rw [ht]
      exact ⟨by omega, fun _ => by omega⟩

theorem encodeList_bools : ∀ (bs : List Bool),
    X691.encodeListWith (X691.encode .bool) (boolVals bs) = some (bs.map fun b => [b])
  | [] => rfl
  | b :: r => by
    simp only [boolVals, X691.encodeListWith, encodeList_bools r, List.map_cons]
    rfl

/-- the X.691 encoding of `n` booleans in an unconstrained SEQUENCE OF -/
theorem x691_bools (bs : List Bool) :
    X691.encode (.seqOf none none false .bool) (.list (boolVals bs))
      = some (X691.fragU List.flatten (bs.map fun b => [b])) := by
  rw [X691.encode, encodeList_bools]
  simp [X691.inSize, X691.inRoot, X691.ubNat, X691.sized]

/-- F-frag against the standard: from 16K booleans on, the writer's bits are not the X.691 bits -/
theorem frag_not_conform (bs : List Bool) (hn : 16384 ≤ bs.length) :
    X691.encode (.seqOf none none false .bool) (.list (boolVals bs))
      ≠ some ((X691.lenU bs.length).1 ++ bs) := by
  rw [x691_bools]
  intro h
  injection h with h
  have hl := congrArg List.length h
  have h1 : ∀ x ∈ bs.map (fun b => [b]), x.length = 1 := by
    intro x hx
    rw [List.mem_map] at hx
    obtain ⟨b, _, rfl⟩ := hx
    rfl
  have := (fragU_length_ge _ _ rfl h1).2 (by rw [List.length_map]; exact hn)
  rw [List.length_map] at this
  rw [hl, List.length_append] at this
  have h8 : (X691.lenU bs.length).1.length = 8 := by
    unfold X691.lenU
    have c1 : ¬ bs.length ≤ 127 := by omega
    have c2 : ¬ bs.length < 16384 := by omega
    simp [c1, c2]
  omega

end Asn1Verif.Uper
