import Asn1Verif.Base.Outcome
/-
  L2 — the universe of types and values of the UPER (and protobuf) layers.

  `Ty` is what the codec can observe of a generated Rust type through its `Constraint` traits
  (the harness records it with a `Reader` implementation that walks the compiled type); `Val`
  is the canonical value tree (the harness dumps any typed value into it through a `Writer`).
-/
namespace Asn1Verif.Uper
open Asn1Verif

abbrev Byte := BitVec 8

mutual
inductive Val where
  | bool (b : Bool)
  | null
  | int (i : Int)                  -- as the codec sees it (`Number::to_i64`)
  | enum (i : Nat)                 -- choice index of the variant
  | str (bytes : List Byte)        -- UTF-8
  | oct (bytes : List Byte)
  | bits (bs : List Bool)
  | list (vs : Vals)
  | seq (vs : Vals)                -- one entry per component; OPTIONAL ones are `none`/`some`
  | choice (i : Nat) (v : Val)
  | none
  | some (v : Val)
inductive Vals where
  | nil
  | cons (v : Val) (vs : Vals)
end

mutual
def Val.beq : Val → Val → Bool
  | .bool a, .bool b => a == b
  | .null, .null => true
  | .int a, .int b => a == b
  | .enum a, .enum b => a == b
  | .str a, .str b => a == b
  | .oct a, .oct b => a == b
  | .bits a, .bits b => a == b
  | .list a, .list b => Vals.beq a b
  | .seq a, .seq b => Vals.beq a b
  | .choice i a, .choice j b => i == j && Val.beq a b
  | .none, .none => true
  | .some a, .some b => Val.beq a b
  | _, _ => false
def Vals.beq : Vals → Vals → Bool
  | .nil, .nil => true
  | .cons a as, .cons b bs => Val.beq a b && Vals.beq as bs
  | _, _ => false
end

instance : BEq Val := ⟨Val.beq⟩
instance : BEq Vals := ⟨Vals.beq⟩

def Vals.toList : Vals → List Val
  | .nil => []
  | .cons v vs => v :: vs.toList

def Vals.ofList : List Val → Vals
  | [] => .nil
  | v :: vs => .cons v (Vals.ofList vs)

def Vals.length : Vals → Nat
  | .nil => 0
  | .cons _ vs => vs.length + 1

inductive Charset where
  | utf8 | ia5 | numeric | printable | visible
  deriving DecidableEq, Repr

/-- component kind: mandatory, OPTIONAL, DEFAULT with its value -/
inductive Kind where
  | m
  | o
  | d (dv : Val)

mutual
inductive Ty where
  | bool
  | null
  /-- INTEGER: constraint as the generated constants say, plus the Rust type (`from_i64` casts) -/
  | int (min max : Option Int) (ext : Bool) (width : Nat) (signed : Bool)
  | enum (std total : Nat) (ext : Bool)
  | str (cs : Charset) (min max : Option Nat) (ext : Bool)
  | oct (min max : Option Nat) (ext : Bool)
  | bits (min max : Option Nat) (ext : Bool)
  | seqOf (min max : Option Nat) (ext : Bool) (elem : Ty)
  /-- SEQUENCE / SET; `stdOpt`, `fieldCount` are the generated constants (data), compared with
      what the field list says by `Ty.consistent` -/
  | seq (stdOpt fieldCount : Nat) (extAfter : Option Nat) (fields : Fields)
  | choice (std total : Nat) (ext : Bool) (alts : Fields)
inductive Fields where
  | nil
  | cons (k : Kind) (t : Ty) (rest : Fields)
end

def Fields.length : Fields → Nat
  | .nil => 0
  | .cons _ _ r => r.length + 1

def Kind.isOptional : Kind → Bool
  | .m => false
  | _ => true

/-- number of OPTIONAL/DEFAULT components among the first `n` -/
def Fields.optCount : Fields → Nat → Nat
  | .nil, _ => 0
  | .cons _ _ _, 0 => 0
  | .cons k _ r, n + 1 => (if k.isOptional then 1 else 0) + r.optCount n

def Fields.get? : Fields → Nat → Option (Kind × Ty)
  | .nil, _ => none
  | .cons k t _, 0 => some (k, t)
  | .cons _ _ r, n + 1 => r.get? n

mutual
/-- the generated constants agree with the component list (what `Codegen/Consts` must establish) -/
def Ty.consistent : Ty → Bool
  | .seqOf _ _ _ e => e.consistent
  | .seq stdOpt fieldCount extAfter fs =>
    fieldCount == fs.length &&
    (match extAfter with
     | none => stdOpt == fs.optCount fs.length
     | some k => decide (k < fs.length) && stdOpt == fs.optCount (k + 1)) &&
    fs.consistent
  | .choice std total _ alts => total == alts.length && decide (std ≤ total) && alts.consistent
  | .enum std total _ => decide (std ≤ total)
  | _ => true
def Fields.consistent : Fields → Bool
  | .nil => true
  | .cons _ t r => t.consistent && r.consistent
end

end Asn1Verif.Uper
