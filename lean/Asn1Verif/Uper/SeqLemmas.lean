import Asn1Verif.Uper.SeqPrimLemmas
/-
  L2 — lemmas about the SEQUENCE/SET part of the UPER mirror (`Uper/Impl.lean`): the layout of the
  bits `enc (.seq …)` emits, as a function of the field list and the value tree, for field lists of
  any length.  Used by `Props/C03.lean` (and `Props/C06.lean` for the propagation of errors).

  The "layout" functions `presentOf`, `rootPresence`, `additionPresence` are defined here by plain
  recursion over (fields, values) — independently of the accumulator / state machine of the mirror.
-/
namespace Asn1Verif.Uper
open Asn1Verif Outcome Per

/-! ### independent layout functions -/

/-- is the component value present in the encoding?  `none`: the value does not fit the kind -/
def presentOf : Kind → Val → Option Bool
  | .m, _ => some true
  | .o, .none => some false
  | .o, .some _ => some true
  | .o, _ => none
  | .d dv, v => some (!(v == dv))

/-- the value the component's own encoder is run on (the content of `some x` for OPTIONAL) -/
def contentOf : Kind → Val → Val
  | .o, .some x => x
  | _, v => v

def Vals.get? : Vals → Nat → Option Val
  | .nil, _ => none
  | .cons v _, 0 => some v
  | .cons _ vs, n + 1 => vs.get? n

/-- one bit per OPTIONAL/DEFAULT component among the first `rootCount`, in order -/
def rootPresence : Fields → Vals → Nat → Bits
  | .cons k _ rest, .cons v vs, n + 1 =>
    (if k.isOptional then [(presentOf k v).getD false] else []) ++ rootPresence rest vs n
  | _, _, _ => []

/-- one bit per component after the first `rootCount` -/
def additionPresence : Fields → Vals → Nat → Bits
  | .cons k _ rest, .cons v vs, 0 => (presentOf k v).getD false :: additionPresence rest vs 0
  | .cons _ _ rest, .cons _ vs, n + 1 => additionPresence rest vs n
  | _, _, _ => []

/-! ### `==` on value trees is equality -/

mutual
theorem Val.beq_refl : ∀ v : Val, Val.beq v v = true
  | .bool _ | .null | .int _ | .enum _ | .str _ | .oct _ | .bits _ | .none => by simp [Val.beq]
  | .list vs => by simp [Val.beq, Vals.beq_refl vs]
  | .seq vs => by simp [Val.beq, Vals.beq_refl vs]
  | .choice i v => by simp [Val.beq, Val.beq_refl v]
  | .some v => by simp [Val.beq, Val.beq_refl v]
theorem Vals.beq_refl : ∀ vs : Vals, Vals.beq vs vs = true
  | .nil => by simp [Vals.beq]
  | .cons v vs => by simp [Vals.beq, Val.beq_refl v, Vals.beq_refl vs]
end

mutual
theorem Val.eq_of_beq : ∀ a b : Val, Val.beq a b = true → a = b
  | .list a, b, h => by
    cases b with
    | list b => simp only [Val.beq] at h; rw [Vals.eq_of_beq a b h]
    | _ => simp [Val.beq] at h
  | .seq a, b, h => by
    cases b with
    | seq b => simp only [Val.beq] at h; rw [Vals.eq_of_beq a b h]
    | _ => simp [Val.beq] at h
  | .choice i a, b, h => by
    cases b with
    | choice j b =>
      simp only [Val.beq, Bool.and_eq_true, beq_iff_eq] at h
      rw [h.1, Val.eq_of_beq a b h.2]
    | _ => simp [Val.beq] at h
  | .some a, b, h => by
    cases b with
    | some b => simp only [Val.beq] at h; rw [Val.eq_of_beq a b h]
    | _ => simp [Val.beq] at h
  | .bool a, b, h => by cases b <;> simp [Val.beq] at h; rw [h]
  | .int a, b, h => by cases b <;> simp [Val.beq] at h; rw [h]
  | .enum a, b, h => by cases b <;> simp [Val.beq] at h; rw [h]
  | .str a, b, h => by cases b <;> simp [Val.beq] at h; rw [h]
  | .oct a, b, h => by cases b <;> simp [Val.beq] at h; rw [h]
  | .bits a, b, h => by cases b <;> simp [Val.beq] at h; rw [h]
  | .null, b, h => by cases b <;> simp [Val.beq] at h; rfl
  | .none, b, h => by cases b <;> simp [Val.beq] at h; rfl
theorem Vals.eq_of_beq : ∀ a b : Vals, Vals.beq a b = true → a = b
  | .nil, .nil, _ => rfl
  | .cons a as, .cons b bs, h => by
    simp only [Vals.beq, Bool.and_eq_true] at h
    rw [Val.eq_of_beq a b h.1, Vals.eq_of_beq as bs h.2]
  | .nil, .cons _ _, h => by simp [Vals.beq] at h
  | .cons _ _, .nil, h => by simp [Vals.beq] at h
end

theorem Val.beq_iff (a b : Val) : (a == b) = true ↔ a = b :=
  ⟨Val.eq_of_beq a b, fun h => h ▸ Val.beq_refl a⟩

/-- a DEFAULT component is omitted exactly when its value is the default value -/
theorem presentOf_default_absent (dv v : Val) : presentOf (.d dv) v = some false ↔ v = dv := by
  simp only [presentOf, Option.some.injEq, Bool.not_eq_false']
  exact Val.beq_iff v dv

theorem presentOf_default_present (dv v : Val) : presentOf (.d dv) v = some true ↔ v ≠ dv := by
  simp only [presentOf, Option.some.injEq, Bool.not_eq_true', ne_eq]
  rw [← Val.beq_iff v dv]
  cases (v == dv) <;> simp

/-! ### bodies -/

/-- `b` is what a root component contributes: nothing when absent, else its own encoding -/
def RootBody (k : Kind) (t : Ty) (v : Val) (b : Bits) : Prop :=
  match presentOf k v with
  | some true => enc t (contentOf k v) = ok b
  | some false => b = []
  | none => False

/-- `b` is what an extension addition contributes: nothing when absent, else its own encoding `c`
    wrapped as an open type (always for OPTIONAL/DEFAULT additions; for a mandatory addition when
    the type's own `write_*` goes through `with_buffer`, i.e. everything but CHOICE / SEQUENCE OF) -/
def AddBody (k : Kind) (t : Ty) (v : Val) (b : Bits) : Prop :=
  match presentOf k v with
  | some true => ∃ c, enc t (contentOf k v) = ok c ∧
      (if k.isOptional || t.buffersOnWrite then openType c = ok b else b = c)
  | some false => b = []
  | none => False

/-- `rb`: one entry per root component (the first `rootCount`), `ab`: one entry per addition;
    the value list has exactly one value per component -/
def Layout : Fields → Vals → Nat → List Bits → List Bits → Prop
  | .nil, .nil, _, [], [] => True
  | .cons k t rest, .cons v vs, n + 1, b :: rb, ab => RootBody k t v b ∧ Layout rest vs n rb ab
  | .cons k t rest, .cons v vs, 0, [], b :: ab => AddBody k t v b ∧ Layout rest vs 0 [] ab
  | _, _, _, _, _ => False

/-! ### the accumulator only ever appends -/

/-- what the additions contribute to the bitmap, depending on the state at their start -/
def emitAdd : ExtState → Bits → Bits
  | .all, ap => ap
  | .root, true :: ap => true :: ap
  | _, _ => []

def finalSt : ExtState → Bits → ExtState
  | .root, true :: _ => .all
  | .root, false :: _ => .empty
  | st, _ => st

/-- all additions absent -/
def quiet (ap : Bits) : Bool := ap.all (fun b => !b)

/-- side condition on the presence pattern of the additions for a successful run -/
def AddsOk : ExtState → Bits → Prop
  | .all, _ => True
  | .empty, ap => quiet ap = true
  | .root, ap => ∀ rest, ap = false :: rest → quiet rest = true

@[simp] theorem emitAdd_nil (st : ExtState) : emitAdd st [] = [] := by cases st <;> rfl
@[simp] theorem finalSt_nil (st : ExtState) : finalSt st [] = st := by cases st <;> rfl

/-- the result of a step with an absent component does not depend on the content encoder -/
theorem step_absent_irrel (acc : SeqAcc) (k : Kind) (t : Ty) (r : Bool)
    (c1 c2 : Unit → Outcome Bits) : acc.step k t r false c1 = acc.step k t r false c2 := by
  simp [SeqAcc.step]

/-- one component of `encFields`, uniformly in the kind -/
theorem encFields_cons (k : Kind) (t : Ty) (rest : Fields) (v : Val) (vs : Vals) (rl : Nat)
    (acc : SeqAcc) :
    encFields (.cons k t rest) (.cons v vs) rl acc =
      match presentOf k v with
      | none => err .illTyped
      | some p =>
        acc.step k t (decide (rl > 0)) p (fun _ => enc t (contentOf k v)) >>= fun acc1 =>
          encFields rest vs (rl - 1) acc1 := by
  cases k with
  | m =>
    simp only [encFields, presentOf, contentOf]
    generalize acc.step _ _ _ _ _ = x; cases x <;> rfl
  | d dv =>
    simp only [encFields, presentOf, contentOf]
    generalize acc.step _ _ _ _ _ = x; cases x <;> rfl
  | o =>
    cases v <;> simp only [encFields, presentOf, contentOf] <;> try rfl
    · rw [step_absent_irrel acc .o t _ (fun _ => ok []) (fun _ => enc t .none)]
      generalize acc.step _ _ _ _ _ = x; cases x <;> rfl
    · generalize acc.step _ _ _ _ _ = x; cases x <;> rfl

theorem Layout.rb_nil {fields : Fields} {vs : Vals} {rb ab : List Bits}
    (h : Layout fields vs 0 rb ab) : rb = [] := by
  cases fields <;> cases vs <;> cases rb <;> cases ab <;> simp [Layout] at h ⊢

/-- what an addition step in the `.all` state appends is an `AddBody` -/
theorem addBody_of_step {k : Kind} {t : Ty} {v : Val} {p : Bool} {body : Bits}
    (hp : presentOf k v = some p)
    (hb : (if p = true then do
              let c ← enc t (contentOf k v)
              if (k.isOptional || t.buffersOnWrite) = true then openType c else ok c
            else ok []) = ok body) : AddBody k t v body := by
  unfold AddBody
  rw [hp]
  cases p
  · simpa using hb.symm
  · simp only [if_true] at hb
    obtain ⟨c, hc, hb⟩ := bind_eq_ok.1 hb
    refine ⟨c, hc, ?_⟩
    split
    · rename_i hw; simpa [hw] using hb
    · rename_i hw; simpa [hw] using hb.symm

theorem encFields_frame : ∀ (fields : Fields) (vs : Vals) (rl : Nat) (acc acc' : SeqAcc),
    encFields fields vs rl acc = ok acc' →
    ∃ rb ab, Layout fields vs rl rb ab ∧
      acc' = { rootPres := acc.rootPres ++ rootPresence fields vs rl,
               rootBody := acc.rootBody ++ rb.flatten,
               addPres := acc.addPres ++ emitAdd acc.st (additionPresence fields vs rl),
               addBody := acc.addBody ++ ab.flatten,
               st := finalSt acc.st (additionPresence fields vs rl) } ∧
      AddsOk acc.st (additionPresence fields vs rl)
  | .nil, vs, rl, acc, acc', h => by
    cases vs with
    | nil =>
      simp only [encFields, ok.injEq] at h
      subst h
      refine ⟨[], [], by simp [Layout], ?_, ?_⟩
      · simp [rootPresence, additionPresence]
      · cases hs : acc.st <;> simp [additionPresence, AddsOk, quiet]
    | cons v vs => simp [encFields] at h
  | .cons k t rest, vs, rl, acc, acc', h => by
    cases vs with
    | nil => simp [encFields] at h
    | cons v vs =>
    rw [encFields_cons] at h
    cases hp : presentOf k v with
    | none => simp [hp] at h
    | some p =>
    simp only [hp] at h
    obtain ⟨acc1, h1, h2⟩ := bind_eq_ok.1 h
    obtain ⟨rb, ab, hl, hacc, hok⟩ := encFields_frame rest vs (rl - 1) acc1 acc' h2
    cases rl with
    | succ n =>
      simp only [SeqAcc.step, Nat.zero_lt_succ, gt_iff_lt, decide_true, if_true] at h1
      obtain ⟨body, hb, h3⟩ := bind_eq_ok.1 h1
      simp only [ok.injEq] at h3
      subst h3
      simp only [Nat.add_sub_cancel] at hl hacc hok
      refine ⟨body :: rb, ab, ?_, ?_, ?_⟩
      · refine ⟨?_, hl⟩
        unfold RootBody
        rw [hp]
        cases p
        · simpa using hb.symm
        · simpa using hb
      · rw [hacc]
        simp [rootPresence, additionPresence, hp, List.append_assoc]
      · simpa [additionPresence] using hok
    | zero =>
      simp only [SeqAcc.step, Nat.lt_irrefl, gt_iff_lt, decide_false, Bool.false_eq_true,
        if_false] at h1
      simp only [Nat.zero_sub] at hl hacc hok
      have hrb := hl.rb_nil
      subst hrb
      cases hs : acc.st with
      | root =>
        simp only [hs] at h1
        cases p with
        | true =>
          simp only [if_true] at h1
          obtain ⟨body, hb, h3⟩ := bind_eq_ok.1 h1
          simp only [ok.injEq] at h3
          subst h3
          refine ⟨[], body :: ab, ⟨addBody_of_step hp (by simpa using hb), hl⟩, ?_, ?_⟩
          · rw [hacc]
            simp [rootPresence, additionPresence, hp, emitAdd, finalSt]
          · intro r hr
            simp [additionPresence, hp] at hr
        | false =>
          simp only [Bool.false_eq_true, if_false, ok.injEq] at h1
          subst h1
          refine ⟨[], [] :: ab, ⟨by simp [AddBody, hp], hl⟩, ?_, ?_⟩
          · rw [hacc]
            simp [rootPresence, additionPresence, hp, emitAdd, finalSt]
          · intro r hr
            simp only [additionPresence, hp, Option.getD_some, List.cons.injEq, true_and] at hr
            subst hr
            exact hok
      | all =>
        simp only [hs] at h1
        obtain ⟨body, hb, h3⟩ := bind_eq_ok.1 h1
        simp only [ok.injEq] at h3
        subst h3
        refine ⟨[], body :: ab, ⟨addBody_of_step hp hb, hl⟩, ?_, trivial⟩
        rw [hacc]
        simp [rootPresence, additionPresence, hp, emitAdd, finalSt]
      | empty =>
        simp only [hs] at h1
        cases p with
        | true => simp at h1
        | false =>
          simp only [Bool.false_eq_true, if_false, ok.injEq] at h1
          subst h1
          refine ⟨[], [] :: ab, ⟨by simp [AddBody, hp], hl⟩, ?_, ?_⟩
          · rw [hacc]
            simp [rootPresence, emitAdd, finalSt, hs]
          · rw [hs] at hok
            simpa [AddsOk, additionPresence, hp, quiet] using hok

/-! ### the whole SEQUENCE -/

theorem quiet_any {ap : Bits} (h : quiet ap = true) : ap.any id = false := by
  induction ap with
  | nil => rfl
  | cons b r ih =>
    simp only [quiet, List.all_cons, Bool.and_eq_true, Bool.not_eq_true'] at h
    simp only [List.any_cons, id, h.1, Bool.false_or]
    exact ih (by simpa [quiet] using h.2)

/-- starting in the root state: either the first addition is present (extension part with the
    whole bitmap) or no addition is present at all (no extension part) -/
theorem addsOk_root_cases (ap : Bits) (hok : AddsOk .root ap) :
    (ap.any id = true ∧ ap.head? = some true ∧ finalSt .root ap = .all ∧ emitAdd .root ap = ap) ∨
    (ap.any id = false ∧ emitAdd .root ap = [] ∧
      (finalSt .root ap = .root ∨ finalSt .root ap = .empty)) := by
  cases ap with
  | nil => right; simp
  | cons b r =>
    cases b with
    | true => left; simp [finalSt, emitAdd]
    | false =>
      right
      have := quiet_any (hok r rfl)
      simp [finalSt, emitAdd, this]

theorem encFields_init {fields : Fields} {vs : Vals} {rc : Nat} {acc' : SeqAcc}
    (h : encFields fields vs rc {} = ok acc') :
    ∃ rb ab, Layout fields vs rc rb ab ∧
      acc'.rootPres = rootPresence fields vs rc ∧ acc'.rootBody = rb.flatten ∧
      acc'.addPres = emitAdd .root (additionPresence fields vs rc) ∧ acc'.addBody = ab.flatten ∧
      acc'.st = finalSt .root (additionPresence fields vs rc) ∧
      AddsOk .root (additionPresence fields vs rc) := by
  obtain ⟨rb, ab, hl, hacc, hok⟩ := encFields_frame fields vs rc {} acc' h
  refine ⟨rb, ab, hl, ?_⟩
  subst hacc
  simpa using hok

/-- number of root components: all of them, or those up to the extension marker -/
def rootCountOf (ea : Option Nat) (fields : Fields) : Nat :=
  match ea with
  | none => fields.length
  | some k => k + 1

@[simp] theorem rootCountOf_none (fields : Fields) : rootCountOf none fields = fields.length := rfl
@[simp] theorem rootCountOf_some (k : Nat) (fields : Fields) : rootCountOf (some k) fields = k + 1 :=
  rfl

/-- the SEQUENCE case of `enc`, spelled out -/
theorem enc_seq (so fc : Nat) (ea : Option Nat) (fields : Fields) (vs : Vals) :
    enc (.seq so fc ea fields) (.seq vs) =
      (encFields fields vs (rootCountOf ea fields) {} >>= fun acc =>
        match ea with
        | none => ok (acc.rootPres ++ acc.rootBody)
        | some k =>
          match acc.st with
          | .all => wSmall (fields.length - (k + 1) - 1) >>= fun n =>
              ok (true :: acc.rootPres ++ acc.rootBody ++ n ++ acc.addPres ++ acc.addBody)
          | _ => ok (false :: acc.rootPres ++ acc.rootBody)) := by
  simp only [enc]
  rfl

/-! ### facts that follow from a layout -/

theorem Layout.rootPresence_length : ∀ {fields : Fields} {vs : Vals} {n : Nat} {rb ab : List Bits},
    Layout fields vs n rb ab → (rootPresence fields vs n).length = fields.optCount n
  | .nil, vs, n, rb, ab, _ => by cases vs <;> simp [rootPresence, Fields.optCount]
  | .cons k t rest, .nil, n, rb, ab, h => by simp [Layout] at h
  | .cons k t rest, .cons v vs, 0, rb, ab, _ => by simp [rootPresence, Fields.optCount]
  | .cons k t rest, .cons v vs, n + 1, [], ab, h => by simp [Layout] at h
  | .cons k t rest, .cons v vs, n + 1, b :: rb, ab, h => by
    have ih := Layout.rootPresence_length h.2
    simp only [rootPresence, Fields.optCount, List.length_append, ih]
    cases k.isOptional <;> simp

theorem Layout.additionPresence_length : ∀ {fields : Fields} {vs : Vals} {n : Nat}
    {rb ab : List Bits}, Layout fields vs n rb ab →
    (additionPresence fields vs n).length = fields.length - n
  | .nil, vs, n, rb, ab, _ => by cases vs <;> simp [additionPresence, Fields.length]
  | .cons k t rest, .nil, n, rb, ab, h => by simp [Layout] at h
  | .cons k t rest, .cons v vs, 0, [], [], h => by simp [Layout] at h
  | .cons k t rest, .cons v vs, 0, _ :: _, ab, h => by simp [Layout] at h
  | .cons k t rest, .cons v vs, 0, [], b :: ab, h => by
    have ih := Layout.additionPresence_length h.2
    simp only [additionPresence, Fields.length, List.length_cons, ih]
    omega
  | .cons k t rest, .cons v vs, n + 1, [], ab, h => by simp [Layout] at h
  | .cons k t rest, .cons v vs, n + 1, b :: rb, ab, h => by
    have ih := Layout.additionPresence_length h.2
    simp only [additionPresence, Fields.length, ih]
    omega

/-- one body per component, one value per component -/
theorem Layout.lengths : ∀ {fields : Fields} {vs : Vals} {n : Nat} {rb ab : List Bits},
    Layout fields vs n rb ab →
    vs.length = fields.length ∧ rb.length = min n fields.length ∧ ab.length = fields.length - n
  | .nil, .nil, n, [], [], _ => by simp [Vals.length, Fields.length]
  | .nil, .nil, n, _ :: _, ab, h => by simp [Layout] at h
  | .nil, .nil, n, [], _ :: _, h => by simp [Layout] at h
  | .nil, .cons _ _, n, rb, ab, h => by simp [Layout] at h
  | .cons k t rest, .nil, n, rb, ab, h => by simp [Layout] at h
  | .cons k t rest, .cons v vs, 0, [], [], h => by simp [Layout] at h
  | .cons k t rest, .cons v vs, 0, _ :: _, ab, h => by simp [Layout] at h
  | .cons k t rest, .cons v vs, 0, [], b :: ab, h => by
    have ih := Layout.lengths h.2
    simp only [Vals.length, Fields.length, List.length_cons, List.length_nil]
    omega
  | .cons k t rest, .cons v vs, n + 1, [], ab, h => by simp [Layout] at h
  | .cons k t rest, .cons v vs, n + 1, b :: rb, ab, h => by
    have ih := Layout.lengths h.2
    simp only [Vals.length, Fields.length, List.length_cons]
    omega

/-- what a layout says about component `i` -/
theorem Layout.get : ∀ {fields : Fields} {vs : Vals} {n : Nat} {rb ab : List Bits},
    Layout fields vs n rb ab → ∀ {i : Nat} {k : Kind} {t : Ty}, fields.get? i = some (k, t) →
    ∃ v, vs.get? i = some v ∧
      if i < n then ∃ b, rb[i]? = some b ∧ RootBody k t v b
      else ∃ b, ab[i - n]? = some b ∧ AddBody k t v b
  | .nil, vs, n, rb, ab, _, i, k, t, hi => by simp [Fields.get?] at hi
  | .cons k t rest, .nil, n, rb, ab, h, _, _, _, _ => by simp [Layout] at h
  | .cons k t rest, .cons v vs, 0, [], [], h, _, _, _, _ => by simp [Layout] at h
  | .cons k t rest, .cons v vs, 0, _ :: _, ab, h, _, _, _, _ => by simp [Layout] at h
  | .cons k t rest, .cons v vs, n + 1, [], ab, h, _, _, _, _ => by simp [Layout] at h
  | .cons k0 t0 rest, .cons v vs, 0, [], b :: ab, h, i, k, t, hi => by
    cases i with
    | zero =>
      simp only [Fields.get?, Option.some.injEq, Prod.mk.injEq] at hi
      obtain ⟨rfl, rfl⟩ := hi
      exact ⟨v, rfl, by simpa using h.1⟩
    | succ i =>
      obtain ⟨v', hv, hb⟩ := Layout.get h.2 (i := i) (by simpa [Fields.get?] using hi)
      exact ⟨v', by simpa [Vals.get?] using hv, by simpa using hb⟩
  | .cons k0 t0 rest, .cons v vs, n + 1, b :: rb, ab, h, i, k, t, hi => by
    cases i with
    | zero =>
      simp only [Fields.get?, Option.some.injEq, Prod.mk.injEq] at hi
      obtain ⟨rfl, rfl⟩ := hi
      exact ⟨v, rfl, by simpa using h.1⟩
    | succ i =>
      obtain ⟨v', hv, hb⟩ := Layout.get h.2 (i := i) (by simpa [Fields.get?] using hi)
      refine ⟨v', by simpa [Vals.get?] using hv, ?_⟩
      by_cases hin : i < n
      · simpa [hin] using hb
      · simpa [hin] using hb

theorem Fields.get?_lt : ∀ {fields : Fields} {i : Nat} {x : Kind × Ty},
    fields.get? i = some x → i < fields.length
  | .nil, i, x, h => by simp [Fields.get?] at h
  | .cons k t rest, 0, x, _ => by simp [Fields.length]
  | .cons k t rest, i + 1, x, h => by
    have := Fields.get?_lt (fields := rest) (i := i) (x := x) (by simpa [Fields.get?] using h)
    simp only [Fields.length]
    omega

/-- without additions (`n ≥` number of components) every component is a root component -/
theorem Layout.get_root {fields : Fields} {vs : Vals} {n : Nat} {rb ab : List Bits}
    (h : Layout fields vs n rb ab) (hn : fields.length ≤ n) {i : Nat} {k : Kind} {t : Ty}
    (hi : fields.get? i = some (k, t)) :
    ∃ v b, vs.get? i = some v ∧ rb[i]? = some b ∧ RootBody k t v b := by
  obtain ⟨v, hv, hb⟩ := h.get hi
  have hlt := Fields.get?_lt hi
  rw [if_pos (by omega)] at hb
  obtain ⟨b, h1, h2⟩ := hb
  exact ⟨v, b, hv, h1, h2⟩

/-! ### layout of a successfully encoded SEQUENCE / SET -/

theorem enc_seq_nonext_layout {so fc : Nat} {fields : Fields} {vs : Vals} {bits : Bits}
    (h : enc (.seq so fc none fields) (.seq vs) = ok bits) :
    ∃ bodies : List Bits, Layout fields vs fields.length bodies [] ∧
      bits = rootPresence fields vs fields.length ++ bodies.flatten ∧
      (rootPresence fields vs fields.length).length = fields.optCount fields.length := by
  rw [enc_seq, rootCountOf_none] at h
  obtain ⟨acc, ha, hb⟩ := bind_eq_ok.1 h
  obtain ⟨rb, ab, hl, h1, h2, _, _, _, _⟩ := encFields_init ha
  have hab : ab = [] := by
    have := hl.lengths.2.2
    simpa using this
  subst hab
  simp only [ok.injEq] at hb
  exact ⟨rb, hl, by rw [← hb, h1, h2], hl.rootPresence_length⟩

/-- general form: `sm` is whatever the code writes for "number of additions − 1" -/
theorem enc_seq_ext_layout_gen {so fc k : Nat} {fields : Fields} {vs : Vals} {bits : Bits}
    (h : enc (.seq so fc (some k) fields) (.seq vs) = ok bits) :
    ∃ (rootBodies addBodies : List Bits) (sm : Bits),
      Layout fields vs (k + 1) rootBodies addBodies ∧
      wSmall (fields.length - (k + 1) - 1) = ok sm ∧
      bits = (additionPresence fields vs (k + 1)).any id ::
        rootPresence fields vs (k + 1) ++ rootBodies.flatten ++
        (if (additionPresence fields vs (k + 1)).any id then
          sm ++ additionPresence fields vs (k + 1) ++ addBodies.flatten
         else []) ∧
      (rootPresence fields vs (k + 1)).length = fields.optCount (k + 1) ∧
      (additionPresence fields vs (k + 1)).length = fields.length - (k + 1) ∧
      ((additionPresence fields vs (k + 1)).any id = true ↔
        (additionPresence fields vs (k + 1)).head? = some true) := by
  rw [enc_seq, rootCountOf_some] at h
  obtain ⟨acc, ha, hb⟩ := bind_eq_ok.1 h
  obtain ⟨rb, ab, hl, h1, h2, h3, h4, h5, hok⟩ := encFields_init ha
  obtain ⟨sm, hsm⟩ := wSmall_total (fields.length - (k + 1) - 1)
  refine ⟨rb, ab, sm, hl, hsm, ?_, hl.rootPresence_length, hl.additionPresence_length, ?_⟩
  · rcases addsOk_root_cases _ hok with ⟨a1, _, a3, a4⟩ | ⟨a1, a2, a3⟩
    · simp only [h5, a3, hsm, bind_ok, ok.injEq] at hb
      rw [← hb, a1, h1, h2, h3, h4, a4]
      simp
    · have hb' : bits = false :: acc.rootPres ++ acc.rootBody := by
        rcases a3 with a3 | a3 <;> simp only [h5, a3, ok.injEq] at hb <;> exact hb.symm
      rw [hb', a1, h1, h2]
      simp
  · rcases addsOk_root_cases _ hok with ⟨a1, a2, _, _⟩ | ⟨a1, _, _⟩
    · simp [a1, a2]
    · constructor
      · intro hc; rw [a1] at hc; cases hc
      · intro hc
        cases hap : additionPresence fields vs (k + 1) with
        | nil => rw [hap] at hc; cases hc
        | cons b r =>
          rw [hap] at hc a1
          simp only [List.head?_cons, Option.some.injEq] at hc
          subst hc
          simp at a1

theorem enc_seq_ext_layout {so fc k : Nat} {fields : Fields} {vs : Vals} {bits : Bits}
    (hn : fields.length - (k + 1) - 1 ≤ U64_MAX)
    (h : enc (.seq so fc (some k) fields) (.seq vs) = ok bits) :
    ∃ rootBodies addBodies : List Bits, Layout fields vs (k + 1) rootBodies addBodies ∧
      bits = (additionPresence fields vs (k + 1)).any id ::
        rootPresence fields vs (k + 1) ++ rootBodies.flatten ++
        (if (additionPresence fields vs (k + 1)).any id then
          X691.small (fields.length - (k + 1) - 1) ++ additionPresence fields vs (k + 1) ++
            addBodies.flatten
         else []) ∧
      (rootPresence fields vs (k + 1)).length = fields.optCount (k + 1) ∧
      (additionPresence fields vs (k + 1)).length = fields.length - (k + 1) ∧
      ((additionPresence fields vs (k + 1)).any id = true ↔
        (additionPresence fields vs (k + 1)).head? = some true) := by
  obtain ⟨rb, ab, sm, hl, hsm, hb, h1, h2, h3⟩ := enc_seq_ext_layout_gen h
  rw [Per.wSmall_ok _ hn] at hsm
  cases hsm
  exact ⟨rb, ab, hl, hb, h1, h2, h3⟩

/-! ### when the SEQUENCE encoder refuses -/

/-- the presence pattern `ap` of the additions still to come is refused from state `st`:
    the first addition was (or is) absent and a later one is present -/
def Inconsistent : ExtState → Bits → Prop
  | .all, _ => False
  | .empty, ap => ap.any id = true
  | .root, ap => ∃ rest, ap = false :: rest ∧ rest.any id = true

/-- the encoder of some present component `i` fails with `e` — its own encoder, or (extension
    additions only) the open-type wrapper around its encoding -/
def CompFails (fields : Fields) (vs : Vals) (rootCount : Nat) (e : ErrKind) : Prop :=
  ∃ i k t v, fields.get? i = some (k, t) ∧ vs.get? i = some v ∧ presentOf k v = some true ∧
    (enc t (contentOf k v) = err e ∨
      (rootCount ≤ i ∧ (k.isOptional || t.buffersOnWrite) = true ∧
        ∃ c, enc t (contentOf k v) = ok c ∧ openType c = err e))

theorem CompFails.succ {k0 : Kind} {t0 : Ty} {rest : Fields} {v0 : Val} {vs : Vals} {rl : Nat}
    {e : ErrKind} (h : CompFails rest vs (rl - 1) e) :
    CompFails (.cons k0 t0 rest) (.cons v0 vs) rl e := by
  obtain ⟨i, k, t, v, h1, h2, h3, h4⟩ := h
  refine ⟨i + 1, k, t, v, by simpa [Fields.get?] using h1, by simpa [Vals.get?] using h2, h3, ?_⟩
  rcases h4 with h4 | ⟨h4, h5⟩
  · exact Or.inl h4
  · exact Or.inr ⟨by omega, h5⟩

theorem step_root_eq (acc : SeqAcc) (k : Kind) (t : Ty) (p : Bool) (c : Unit → Outcome Bits) :
    acc.step k t true p c = ((if p then c () else ok []) >>= fun body =>
      ok { acc with rootPres := acc.rootPres ++ (if k.isOptional then [p] else []),
                    rootBody := acc.rootBody ++ body }) := by
  simp [SeqAcc.step]

/-- the content of an addition: its encoding, wrapped as open type where the code does so -/
def addContent (k : Kind) (t : Ty) (c : Unit → Outcome Bits) : Outcome Bits :=
  c () >>= fun x => if k.isOptional || t.buffersOnWrite then openType x else ok x

theorem step_add_eq (acc : SeqAcc) (k : Kind) (t : Ty) (p : Bool) (c : Unit → Outcome Bits) :
    acc.step k t false p c =
      match acc.st, p with
      | .root, false => ok { acc with st := .empty }
      | .empty, false => ok acc
      | .empty, true => err .extensionInconsistent
      | _, p => ((if p then addContent k t c else ok []) >>= fun body =>
          ok { acc with addPres := acc.addPres ++ [p], addBody := acc.addBody ++ body, st := .all }) := by
  cases hs : acc.st <;> cases p <;> simp [SeqAcc.step, hs, addContent]

theorem step_add_err {acc : SeqAcc} {k : Kind} {t : Ty} {p : Bool} {c : Unit → Outcome Bits}
    {e : ErrKind} (h : acc.step k t false p c = err e) :
    p = true ∧ ((acc.st = .empty ∧ e = .extensionInconsistent) ∨ addContent k t c = err e) := by
  rw [step_add_eq] at h
  cases hs : acc.st <;> cases p <;> simp only [hs] at h
  all_goals first
    | (simp only [err.injEq] at h
       exact ⟨rfl, Or.inl ⟨rfl, h.symm⟩⟩)
    | (refine ⟨rfl, Or.inr ?_⟩
       rcases bind_eq_err.1 h with h | ⟨_, _, h⟩
       · simpa using h
       · cases h)
    | cases h

theorem step_add_ok {acc acc1 : SeqAcc} {k : Kind} {t : Ty} {p : Bool} {c : Unit → Outcome Bits}
    (h : acc.step k t false p c = ok acc1) :
    (acc.st = .root ∧ p = true ∧ acc1.st = .all) ∨ (acc.st = .root ∧ p = false ∧ acc1.st = .empty) ∨
    (acc.st = .all ∧ acc1.st = .all) ∨ (acc.st = .empty ∧ p = false ∧ acc1.st = .empty) := by
  rw [step_add_eq] at h
  cases hs : acc.st <;> cases p <;> simp only [hs] at h
  all_goals first
    | (obtain ⟨b, _, hb⟩ := bind_eq_ok.1 h
       simp only [ok.injEq] at hb
       subst hb
       simp)
    | (simp only [ok.injEq] at h
       subst h
       simp [hs])
    | cases h

theorem addContent_err {k : Kind} {t : Ty} {c : Unit → Outcome Bits} {e : ErrKind}
    (h : addContent k t c = err e) :
    c () = err e ∨ ((k.isOptional || t.buffersOnWrite) = true ∧ ∃ x, c () = ok x ∧ openType x = err e) := by
  unfold addContent at h
  rcases bind_eq_err.1 h with h | ⟨x, hx, h⟩
  · exact Or.inl h
  · by_cases hw : (k.isOptional || t.buffersOnWrite) = true
    · rw [if_pos hw] at h
      exact Or.inr ⟨hw, x, hx, h⟩
    · rw [if_neg hw] at h
      cases h

/-- the value list fits the field list: one value per component, `none`/`some` for OPTIONAL ones -/
def Shaped : Fields → Vals → Prop
  | .nil, .nil => True
  | .cons k _ rest, .cons v vs => presentOf k v ≠ none ∧ Shaped rest vs
  | _, _ => False

theorem encFields_err : ∀ (fields : Fields) (vs : Vals) (rl : Nat) (acc : SeqAcc) (e : ErrKind),
    encFields fields vs rl acc = err e →
    (e = .extensionInconsistent ∧ Inconsistent acc.st (additionPresence fields vs rl)) ∨
      CompFails fields vs rl e ∨ (e = .illTyped ∧ ¬ Shaped fields vs)
  | .nil, vs, rl, acc, e, h => by
    cases vs <;> simp [encFields] at h
    exact Or.inr (Or.inr ⟨h.symm, by simp [Shaped]⟩)
  | .cons k t rest, .nil, rl, acc, e, h => by
    simp [encFields] at h
    exact Or.inr (Or.inr ⟨h.symm, by simp [Shaped]⟩)
  | .cons k t rest, .cons v vs, rl, acc, e, h => by
    rw [encFields_cons] at h
    cases hp : presentOf k v with
    | none =>
      simp only [hp, err.injEq] at h
      exact Or.inr (Or.inr ⟨h.symm, by simp [Shaped, hp]⟩)
    | some p =>
    simp only [hp] at h
    rcases bind_eq_err.1 h with h1 | ⟨acc1, h1, h2⟩
    · -- this component fails
      cases rl with
      | succ n =>
        simp only [gt_iff_lt, Nat.zero_lt_succ, decide_true, step_root_eq] at h1
        rcases bind_eq_err.1 h1 with h1 | ⟨_, _, h1⟩
        · cases p with
          | false => cases h1
          | true =>
            exact Or.inr (Or.inl ⟨0, k, t, v, rfl, rfl, hp, Or.inl (by simpa using h1)⟩)
        · cases h1
      | zero =>
        simp only [gt_iff_lt, Nat.lt_irrefl, decide_false] at h1
        have h1' := step_add_err h1
        obtain ⟨hpt, h1'⟩ := h1'
        subst hpt
        rcases h1' with ⟨hs, he⟩ | h1'
        · left
          refine ⟨he, ?_⟩
          rw [hs]
          simp [Inconsistent, additionPresence, hp]
        · right; left
          rcases addContent_err h1' with h1' | ⟨hw, c, hc, ho⟩
          · exact ⟨0, k, t, v, rfl, rfl, hp, Or.inl h1'⟩
          · exact ⟨0, k, t, v, rfl, rfl, hp, Or.inr ⟨Nat.le_refl _, hw, c, hc, ho⟩⟩
    · -- a later one does
      rcases encFields_err rest vs (rl - 1) acc1 e h2 with ⟨he, hi⟩ | hc | he
      · left
        refine ⟨he, ?_⟩
        cases rl with
        | succ n =>
          simp only [gt_iff_lt, Nat.zero_lt_succ, decide_true, step_root_eq] at h1
          obtain ⟨_, _, h1⟩ := bind_eq_ok.1 h1
          simp only [ok.injEq] at h1
          subst h1
          simpa [additionPresence] using hi
        | zero =>
          simp only [gt_iff_lt, Nat.lt_irrefl, decide_false] at h1
          simp only [Nat.zero_sub] at hi
          simp only [additionPresence, hp, Option.getD_some]
          rcases step_add_ok h1 with ⟨_, _, h3⟩ | ⟨h3, h4, h5⟩ | ⟨_, h3⟩ | ⟨h3, h4, h5⟩
          · rw [h3] at hi; cases hi
          · rw [h5] at hi; rw [h3, h4]; exact ⟨_, rfl, hi⟩
          · rw [h3] at hi; cases hi
          · rw [h5] at hi; rw [h3, h4]; simpa [Inconsistent] using hi
      · exact Or.inr (Or.inl hc.succ)
      · exact Or.inr (Or.inr ⟨he.1, fun hsh => he.2 hsh.2⟩)

theorem enc_seq_err {so fc : Nat} {ea : Option Nat} {fields : Fields} {vs : Vals} {e : ErrKind}
    (h : enc (.seq so fc ea fields) (.seq vs) = err e) :
    (e = .extensionInconsistent ∧
      ∃ rest, additionPresence fields vs (rootCountOf ea fields) = false :: rest ∧
        rest.any id = true) ∨
    CompFails fields vs (rootCountOf ea fields) e ∨
    (e = .illTyped ∧ ¬ Shaped fields vs) := by
  rw [enc_seq] at h
  rcases bind_eq_err.1 h with h | ⟨acc, _, h⟩
  · exact encFields_err _ _ _ _ _ h
  · cases ea with
    | none => cases h
    | some k =>
      simp only at h
      obtain ⟨b, hb⟩ := wSmall_total (fields.length - (k + 1) - 1)
      cases hs : acc.st <;> simp only [hs, hb, bind_ok] at h <;> cases h

/-- components `i < j` are well-typed and the root ones among them encode -/
def PrefixFine (fields : Fields) (vs : Vals) (rl j : Nat) : Prop :=
  ∀ i, i < j → ∀ k t, fields.get? i = some (k, t) →
    ∃ v p, vs.get? i = some v ∧ presentOf k v = some p ∧
      (p = true → i < rl → ∃ b, enc t (contentOf k v) = ok b)

theorem PrefixFine.tail {k0 : Kind} {t0 : Ty} {rest : Fields} {v0 : Val} {vs : Vals} {rl j : Nat}
    (h : PrefixFine (.cons k0 t0 rest) (.cons v0 vs) rl (j + 1)) : PrefixFine rest vs (rl - 1) j := by
  intro i hi k t hg
  obtain ⟨v, p, h1, h2, h3⟩ := h (i + 1) (by omega) k t (by simpa [Fields.get?] using hg)
  exact ⟨v, p, by simpa [Vals.get?] using h1, h2, fun hp hr => h3 hp (by omega)⟩

/-- a present addition `j` is refused when the first addition was (state `.empty`) or is (state
    `.root`, component `rl`) absent — provided the encoder gets as far as component `j` -/
theorem encFields_inconsistent : ∀ (fields : Fields) (vs : Vals) (rl : Nat) (acc : SeqAcc) (j : Nat)
    (kj : Kind) (tj : Ty) (vj : Val),
    fields.get? j = some (kj, tj) → vs.get? j = some vj → presentOf kj vj = some true →
    PrefixFine fields vs rl j →
    ((acc.st = .empty ∧ rl = 0) ∨
     (acc.st = .root ∧ rl < j ∧ ∃ k t v, fields.get? rl = some (k, t) ∧ vs.get? rl = some v ∧
        presentOf k v = some false)) →
    encFields fields vs rl acc = err .extensionInconsistent
  | .nil, vs, rl, acc, j, kj, tj, vj, hf, _, _, _, _ => by simp [Fields.get?] at hf
  | .cons k t rest, .nil, rl, acc, j, kj, tj, vj, hf, hv, _, _, _ => by simp [Vals.get?] at hv
  | .cons k t rest, .cons v vs, rl, acc, 0, kj, tj, vj, hf, hv, hp, _, hst => by
    simp only [Fields.get?, Option.some.injEq, Prod.mk.injEq] at hf
    simp only [Vals.get?, Option.some.injEq] at hv
    obtain ⟨rfl, rfl⟩ := hf
    subst hv
    rcases hst with ⟨hs, rfl⟩ | ⟨_, hlt, _⟩
    · rw [encFields_cons, hp]
      simp [step_add_eq, hs]
    · omega
  | .cons k t rest, .cons v vs, rl, acc, j + 1, kj, tj, vj, hf, hv, hp, hall, hst => by
    obtain ⟨v', p, h1, h2, h3⟩ := hall 0 (by omega) k t rfl
    simp only [Vals.get?, Option.some.injEq] at h1
    subst h1
    have hf' : rest.get? j = some (kj, tj) := by simpa [Fields.get?] using hf
    have hv' : vs.get? j = some vj := by simpa [Vals.get?] using hv
    rw [encFields_cons, h2]
    rcases hst with ⟨hs, rfl⟩ | ⟨hs, hlt, k1, t1, v1, g1, g2, g3⟩
    · -- the first addition was absent
      cases p with
      | true => simp [step_add_eq, hs]
      | false =>
        simp only [gt_iff_lt, Nat.lt_irrefl, decide_false, step_add_eq, hs, bind_ok]
        exact encFields_inconsistent rest vs (0 - 1) acc j kj tj vj hf' hv' hp hall.tail
          (Or.inl ⟨hs, rfl⟩)
    · cases rl with
      | succ n =>
        -- a root component
        have hb : ∃ body, (if p = true then enc t (contentOf k v) else ok []) = ok body := by
          cases p with
          | false => exact ⟨[], rfl⟩
          | true =>
            obtain ⟨b, hb⟩ := h3 rfl (by omega)
            exact ⟨b, by simpa using hb⟩
        obtain ⟨body, hb⟩ := hb
        simp only [gt_iff_lt, Nat.zero_lt_succ, decide_true, step_root_eq, hb, bind_ok]
        refine encFields_inconsistent rest vs (n + 1 - 1) _ j kj tj vj hf' hv' hp hall.tail
          (Or.inr ⟨hs, by omega, k1, t1, v1, ?_, ?_, g3⟩)
        · simpa [Fields.get?] using g1
        · simpa [Vals.get?] using g2
      | zero =>
        -- the first addition, absent
        simp only [Fields.get?, Option.some.injEq, Prod.mk.injEq] at g1
        simp only [Vals.get?, Option.some.injEq] at g2
        obtain ⟨rfl, rfl⟩ := g1
        subst g2
        rw [h2] at g3
        simp only [Option.some.injEq] at g3
        subst g3
        simp only [gt_iff_lt, Nat.lt_irrefl, decide_false, step_add_eq, hs, bind_ok]
        exact encFields_inconsistent rest vs (0 - 1) _ j kj tj vj hf' hv' hp hall.tail
          (Or.inl ⟨rfl, rfl⟩)

/-- the converse of the refusal: first addition absent, a later addition `j` present, everything
    before `j` well-typed and the root components encodable ⇒ `ExtensionFieldsInconsistent` -/
theorem enc_seq_inconsistent {so fc k : Nat} {fields : Fields} {vs : Vals} {j : Nat}
    {k1 : Kind} {t1 : Ty} {v1 : Val} {kj : Kind} {tj : Ty} {vj : Val}
    (hfirst : fields.get? (k + 1) = some (k1, t1) ∧ vs.get? (k + 1) = some v1 ∧
      presentOf k1 v1 = some false)
    (hlater : k + 1 < j ∧ fields.get? j = some (kj, tj) ∧ vs.get? j = some vj ∧
      presentOf kj vj = some true)
    (hfine : PrefixFine fields vs (k + 1) j) :
    enc (.seq so fc (some k) fields) (.seq vs) = err .extensionInconsistent := by
  rw [enc_seq, rootCountOf_some]
  have := encFields_inconsistent fields vs (k + 1) {} j kj tj vj hlater.2.1 hlater.2.2.1
    hlater.2.2.2 hfine (Or.inr ⟨rfl, hlater.1, k1, t1, v1, hfirst⟩)
  simp only [this, bind_err]

/-! ### no panic of its own -/

theorem addContent_ne_panic {k : Kind} {t : Ty} {c : Unit → Outcome Bits} (hc : c () ≠ panic) :
    addContent k t c ≠ panic := by
  unfold addContent
  intro h
  rcases bind_eq_panic.1 h with h | ⟨x, _, h⟩
  · exact hc h
  · split at h
    · exact openType_ne_panic x h
    · cases h

theorem step_ne_panic {acc : SeqAcc} {k : Kind} {t : Ty} {r p : Bool} {c : Unit → Outcome Bits}
    (hc : p = true → c () ≠ panic) : acc.step k t r p c ≠ panic := by
  have hbody : ∀ (x : Outcome Bits) (f : Bits → SeqAcc), x ≠ panic →
      (x >>= fun b => ok (f b)) ≠ (panic : Outcome SeqAcc) := by
    intro x f hx h
    rcases bind_eq_panic.1 h with h | ⟨_, _, h⟩
    · exact hx h
    · cases h
  cases r with
  | true =>
    rw [step_root_eq]
    apply hbody
    cases p with
    | true => simpa using hc rfl
    | false => simp
  | false =>
    rw [step_add_eq]
    have h2 : (if p = true then addContent k t c else ok []) ≠ panic := by
      cases p with
      | true => simpa using addContent_ne_panic (hc rfl)
      | false => simp
    cases acc.st <;> cases p <;> first | (simp; done) | exact hbody _ _ h2

/-- no component encoder panics ⇒ the walk over the components does not -/
theorem encFields_ne_panic : ∀ (fields : Fields) (vs : Vals) (rl : Nat) (acc : SeqAcc),
    (∀ i k t v, fields.get? i = some (k, t) → vs.get? i = some v → presentOf k v = some true →
      enc t (contentOf k v) ≠ panic) →
    encFields fields vs rl acc ≠ panic
  | .nil, vs, rl, acc, _ => by cases vs <;> simp [encFields]
  | .cons k t rest, .nil, rl, acc, _ => by simp [encFields]
  | .cons k t rest, .cons v vs, rl, acc, hc => by
    rw [encFields_cons]
    cases hp : presentOf k v with
    | none => simp
    | some p =>
      simp only
      intro h
      rcases bind_eq_panic.1 h with h | ⟨acc1, _, h⟩
      · refine step_ne_panic ?_ h
        intro hpt
        subst hpt
        exact hc 0 k t v rfl rfl hp
      · refine encFields_ne_panic rest vs (rl - 1) acc1 ?_ h
        intro i k' t' v' h1 h2 h3
        exact hc (i + 1) k' t' v' (by simpa [Fields.get?] using h1) (by simpa [Vals.get?] using h2) h3

theorem enc_seq_ne_panic {so fc : Nat} {ea : Option Nat} {fields : Fields} {vs : Vals}
    (hc : ∀ i k t v, fields.get? i = some (k, t) → vs.get? i = some v →
      presentOf k v = some true → enc t (contentOf k v) ≠ panic) :
    enc (.seq so fc ea fields) (.seq vs) ≠ panic := by
  rw [enc_seq]
  intro h
  rcases bind_eq_panic.1 h with h | ⟨acc, _, h⟩
  · exact encFields_ne_panic _ _ _ _ hc h
  · cases ea with
    | none => cases h
    | some k =>
      simp only at h
      obtain ⟨b, hb⟩ := wSmall_total (fields.length - (k + 1) - 1)
      cases hs : acc.st <;> simp only [hs, hb, bind_ok] at h <;> cases h

end Asn1Verif.Uper
