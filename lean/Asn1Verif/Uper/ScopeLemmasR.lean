import Asn1Verif.Uper.Scope
import Asn1Verif.Uper.SeqReadLemmas
import Asn1Verif.Uper.ReadTotal
/-
  L2 — basic facts about the reader half of the scope machine (`Uper/Scope.lean`), for a reader
  whose window is the whole input (`len = inp.length`, what `UperReader::from((bytes, bit_len))`
  sets up and no function changes): the bridge to the position-based L1 readers of `Impl`, the
  bit-field entry, `with_buffer`, and the uniform shape `rcomp` of one `T::read_value`.
-/
namespace Asn1Verif.Uper
open Asn1Verif Outcome Per

namespace Scope

/-! ### the window -/

@[simp] theorem vis_self (inp : Bits) : vis inp inp.length = inp := by simp [vis]

theorem liftR_full {α : Type} (rd : Per.Rd α) (inp : Bits) (r : R) (hl : r.len = inp.length) :
    liftR rd inp r = liftL1 rd inp r.pos >>= fun x => ok (x.1, { r with pos := x.2 }) := by
  unfold liftR
  rw [hl, vis_self]
  cases liftL1 rd inp r.pos with
  | ok x => rfl
  | err k => rfl
  | panic => rfl

theorem bitAtR_full (inp : Bits) (r : R) (p : Nat) (hl : r.len = inp.length) :
    bitAtR inp r p = bitAt inp p := by
  unfold bitAtR; rw [hl, vis_self]

theorem bitAtR_mk (inp : Bits) (pos : Nat) (sc : Option Scope) (p : Nat) :
    bitAtR inp ⟨pos, inp.length, sc⟩ p = bitAt inp p := bitAtR_full inp _ p rfl

theorem liftR_mk {α : Type} (rd : Per.Rd α) (inp : Bits) (pos : Nat) (sc : Option Scope) :
    liftR rd inp ⟨pos, inp.length, sc⟩ =
      liftL1 rd inp pos >>= fun x => ok (x.1, ⟨x.2, inp.length, sc⟩) := liftR_full rd inp _ rfl

theorem bitAt_ok_lt {inp : Bits} {p : Nat} {b : Bool} (h : bitAt inp p = ok b) : p < inp.length := by
  unfold bitAt at h
  cases hg : inp[p]? with
  | none => simp [hg] at h
  | some x =>
    by_cases hp : p < inp.length
    · exact hp
    · rw [List.getElem?_eq_none (by omega)] at hg; cases hg

/-! ### the length of the window never changes -/

theorem readFromAll_len (a b : Nat) (inp : Bits) (r : R) : (readFromAll a b inp r).2.len = r.len := by
  unfold readFromAll; split <;> rfl

theorem readFromField_len (s : Scope) (inp : Bits) (r : R) (isOpt : Bool) :
    (readFromField s inp r isOpt).2.len = r.len := by
  cases s with
  | optBitField a b => simp only [readFromField]; split <;> (try split) <;> rfl
  | allBitField a b => exact readFromAll_len a b inp r
  | extensibleSequenceEmpty => rfl
  | extensibleSequence bp obf calls nExt =>
    simp only [readFromField]
    by_cases hc : calls = 0
    · simp only [hc, if_true]
      cases bitAtR inp r bp with
      | panic => rfl
      | err k => rfl
      | ok b =>
        cases b with
        | false => rfl
        | true =>
          simp only
          cases hn : liftR rSmall inp r with
          | panic => rfl
          | err k => rfl
          | ok x =>
            have hx : x.2.len = r.len := by
              unfold liftR at hn
              cases hl : liftL1 rSmall (vis inp r.len) r.pos with
              | ok y => simp only [hl, ok.injEq] at hn; rw [← hn]
              | err k => simp [hl] at hn
              | panic => simp [hl] at hn
            simp only
            split
            · exact hx
            · rw [readFromAll_len]; exact hx
    · simp only [hc, if_false]
      cases obf with
      | none => rfl
      | some x => simp only; split <;> rfl

theorem entry_len (inp : Bits) (r : R) (isOpt : Bool) :
    (readBitFieldEntry inp r isOpt).2.len = r.len := by
  unfold readBitFieldEntry
  cases hs : r.scope with
  | some s => exact readFromField_len s inp r isOpt
  | none =>
    simp only
    split
    · cases hn : liftR rdBit inp r with
      | panic => rfl
      | err k => rfl
      | ok x =>
        unfold liftR at hn
        cases hl : liftL1 rdBit (vis inp r.len) r.pos with
        | ok y => simp only [hl, ok.injEq] at hn; rw [← hn]
        | err k => simp [hl] at hn
        | panic => simp [hl] at hn
    · rfl

theorem entryQ_len {inp : Bits} {r : R} {isOpt : Bool} {p : Option Bool} {r0 : R}
    (h : entryQ inp r isOpt = ok (p, r0)) : r0.len = r.len := by
  unfold entryQ at h
  have := entry_len inp r isOpt
  cases hr : readBitFieldEntry inp r isOpt with
  | mk res r1 =>
    rw [hr] at h this
    cases res with
    | ok q => simp only [ok.injEq, Prod.mk.injEq] at h; rw [← h.2]; exact this
    | err k => cases h
    | panic => cases h

/-! ### the cursor stays inside the window, also behind a failed entry -/

theorem rLenUncErrAdv_le (bs : Bits) : rLenUncErrAdv bs ≤ bs.length := by
  match bs with
  | [] => simp [rLenUncErrAdv]
  | false :: _ => simp [rLenUncErrAdv]
  | [true] => simp [rLenUncErrAdv]
  | true :: _ :: _ => simp [rLenUncErrAdv]

theorem rSmallErrAdv_le (bs : Bits) : rSmallErrAdv bs ≤ bs.length := by
  match bs with
  | [] => simp [rSmallErrAdv]
  | false :: _ => simp [rSmallErrAdv]
  | true :: rest =>
    simp only [rSmallErrAdv, List.length_cons]
    have := rLenUncErrAdv_le rest
    split <;> omega

theorem readFromAll_pos (a b : Nat) (inp : Bits) (r : R) : (readFromAll a b inp r).2.pos = r.pos := by
  unfold readFromAll; split <;> rfl

theorem liftR_pos_le {α : Type} {rd : Per.Rd α} {inp : Bits} {r : R} {a : α} {r1 : R}
    (hl : r.len = inp.length) (h : liftR rd inp r = ok (a, r1)) : r1.pos ≤ inp.length := by
  rw [liftR_full rd inp r hl] at h
  obtain ⟨x, hx, h⟩ := bind_eq_ok.1 h
  simp only [ok.injEq, Prod.mk.injEq] at h
  rw [← h.2]
  exact liftL1_le (a := x.1) (p := x.2) hx

theorem entry_pos_le (inp : Bits) (r : R) (isOpt : Bool) (hl : r.len = inp.length)
    (hp : r.pos ≤ inp.length) : (readBitFieldEntry inp r isOpt).2.pos ≤ inp.length := by
  unfold readBitFieldEntry
  cases hs : r.scope with
  | none =>
    simp only
    split
    · cases hn : liftR rdBit inp r with
      | panic => exact hp
      | err k => exact hp
      | ok x => exact liftR_pos_le hl hn
    · exact hp
  | some s =>
    simp only
    cases s with
    | optBitField a b => simp only [readFromField]; split <;> (try split) <;> exact hp
    | allBitField a b => simp only [readFromField, readFromAll_pos]; exact hp
    | extensibleSequenceEmpty => exact hp
    | extensibleSequence bp obf calls nExt =>
      simp only [readFromField]
      by_cases hc : calls = 0
      · simp only [hc, if_true]
        cases bitAtR inp r bp with
        | panic => exact hp
        | err k => exact hp
        | ok b =>
          cases b with
          | false => exact hp
          | true =>
            simp only
            cases hn : liftR rSmall inp r with
            | panic => exact hp
            | err k =>
              simp only
              have := rSmallErrAdv_le ((vis inp r.len).drop r.pos)
              rw [hl, vis_self, List.length_drop] at this
              rw [hl, vis_self]
              omega
            | ok x =>
              have hx := liftR_pos_le hl hn
              have hxl : x.2.len = inp.length := by
                unfold liftR at hn
                cases hl1 : liftL1 rSmall (vis inp r.len) r.pos with
                | ok y => simp only [hl1, ok.injEq] at hn; rw [← hn]; exact hl
                | err k => simp [hl1] at hn
                | panic => simp [hl1] at hn
              simp only
              split
              · exact hx
              · rw [readFromAll_pos]
                show min _ x.2.len ≤ inp.length
                rw [hxl]; exact Nat.min_le_right _ _
      · simp only [hc, if_false]
        cases obf with
        | none => exact hp
        | some x => simp only; split <;> exact hp

/-! ### `with_buffer` and the uniform shape of `T::read_value` -/

/-- the content inside `with_buffer`: `g` at the cursor, or (extension part, callee goes through
    `with_buffer`) a length determinant, `g` behind it, cursor to the announced end -/
def rbody {α : Type} (wrap : Bool) (g : RdP α) (inp : Bits) (r0 : R) : Outcome (α × R) :=
  if wrap && openTy r0.scope then
    liftL1 (rLen none none) inp r0.pos >>= fun x =>
      g inp x.2 >>= fun y => ok (y.1, { r0 with pos := min (x.2 + x.1 * 8) inp.length })
  else g inp r0.pos >>= fun y => ok (y.1, { r0 with pos := y.2 })

/-- one `T::read_value`: the bit-field entry (`?`, or swallowed by `read_sequence`), then the content -/
def rcomp (swallow wrap : Bool) (g : RdP Val) (inp : Bits) (r : R) : Outcome (Val × R) :=
  (if swallow then ok (readBitFieldEntry inp r false).2
   else entryQ inp r false >>= fun x => ok x.2) >>= fun r0 => rbody wrap g inp r0

/-- a closure that reads like `g` at the cursor and keeps the scope -/
def InPlace {α : Type} (f : R → Outcome (α × R)) (g : RdP α) (inp : Bits) : Prop :=
  ∀ r1 : R, r1.len = inp.length → f r1 = g inp r1.pos >>= fun y => ok (y.1, { r1 with pos := y.2 })

/-- `with_buffer(f)` for such a closure -/
theorem enter_leave {α : Type} (f : R → Outcome (α × R)) (g : RdP α) (inp : Bits) (r0 : R)
    (hl : r0.len = inp.length) (hf : InPlace f g inp) :
    (r0.enter inp >>= fun x => f x.1 >>= fun y => ok (y.1, y.2.leave x.2)) = rbody true g inp r0 := by
  unfold R.enter rbody
  by_cases ho : openTy r0.scope = true
  · simp only [ho, if_true, Bool.true_and, liftR_full _ inp r0 hl]
    cases liftL1 (rLen none none) inp r0.pos with
    | err k => rfl
    | panic => rfl
    | ok x =>
      simp only [bind_ok]
      rw [hf ⟨x.2, r0.len, r0.scope⟩ hl]
      cases g inp x.2 with
      | err k => rfl
      | panic => rfl
      | ok y => simp only [bind_ok, R.leave, hl]
  · simp only [ho, Bool.false_eq_true, if_false, Bool.and_false, bind_ok]
    rw [hf _ hl]
    cases g inp r0.pos with
    | err k => rfl
    | panic => rfl
    | ok y => simp only [bind_ok, R.leave]

/-- a closure that reads like `g` at a cursor inside the input and keeps the scope -/
def InPlaceLe {α : Type} (f : R → Outcome (α × R)) (g : RdP α) (inp : Bits) : Prop :=
  ∀ r1 : R, r1.len = inp.length → r1.pos ≤ inp.length →
    f r1 = g inp r1.pos >>= fun y => ok (y.1, { r1 with pos := y.2 })

/-- `with_buffer(f)` for such a closure, the cursor inside the input -/
theorem enter_leave_le {α : Type} (f : R → Outcome (α × R)) (g : RdP α) (inp : Bits) (r0 : R)
    (hl : r0.len = inp.length) (hp : r0.pos ≤ inp.length) (hf : InPlaceLe f g inp) :
    (r0.enter inp >>= fun x => f x.1 >>= fun y => ok (y.1, y.2.leave x.2)) = rbody true g inp r0 := by
  unfold R.enter rbody
  by_cases ho : openTy r0.scope = true
  · simp only [ho, if_true, Bool.true_and, liftR_full _ inp r0 hl]
    cases hx : liftL1 (rLen none none) inp r0.pos with
    | err k => rfl
    | panic => rfl
    | ok x =>
      simp only [bind_ok]
      rw [hf ⟨x.2, r0.len, r0.scope⟩ hl (liftL1_le (a := x.1) (p := x.2) hx)]
      cases g inp x.2 with
      | err k => rfl
      | panic => rfl
      | ok y => simp only [bind_ok, R.leave, hl]
  · simp only [ho, Bool.false_eq_true, if_false, Bool.and_false, bind_ok]
    rw [hf _ hl hp]
    cases g inp r0.pos with
    | err k => rfl
    | panic => rfl
    | ok y => simp only [bind_ok, R.leave]

theorem readLeaf_eq (g : RdP Val) (inp : Bits) (r : R) (hl : r.len = inp.length) :
    readLeaf g inp r = rcomp false true g inp r := by
  unfold readLeaf rcomp
  simp only [Bool.false_eq_true, if_false]
  cases he : entryQ inp r false with
  | err k => rfl
  | panic => rfl
  | ok x =>
    obtain ⟨p, r0⟩ := x
    have hl0 : r0.len = inp.length := by rw [entryQ_len he, hl]
    simp only [bind_ok]
    rw [← enter_leave (fun r1 => g (vis inp r1.len) r1.pos >>= fun y => ok (y.1, { r1 with pos := y.2 }))
      g inp r0 hl0 (by intro r1 h1; simp only [h1, vis_self])]
    cases r0.enter inp with
    | err k => rfl
    | panic => rfl
    | ok x =>
      simp only [bind_ok]
      cases g (vis inp x.1.len) x.1.pos with
      | err k => rfl
      | panic => rfl
      | ok y => rfl

/-- outside of any scope the entry of a mandatory component does nothing -/
theorem rcomp_none (swallow wrap : Bool) (g : RdP Val) (inp : Bits) (pos : Nat) :
    rcomp swallow wrap g inp ⟨pos, inp.length, none⟩ =
      g inp pos >>= fun y => ok (y.1, ⟨y.2, inp.length, none⟩) := by
  unfold rcomp rbody
  cases swallow <;>
    simp [readBitFieldEntry, entryQ, openTy]

end Scope
end Asn1Verif.Uper
