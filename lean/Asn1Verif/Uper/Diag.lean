import Asn1Verif.Uper.Impl
/-
  L2 — the reader of the build WITH the feature `descriptive-deserialize-errors` (C19).

  `src/rw/uper.rs` contains 45 `#[cfg(feature = "descriptive-deserialize-errors")]` sites.  All of
  them do the same kind of thing: they push a `ScopeDescription` onto the vector
  `UperReader::scope_description` (which `Reader::read` moves into the error when the read fails).
  Two of the pushes are *conditional on decoded values* (`ScopeDescription::warning`):
    * `read_number_of_ext_fields > number_of_ext_fields` in `Scope::read_from_field`,
    * `index >= C::VARIANT_COUNT` in `read_enumerated`;
  several others carry decoded values or the `Result` of the step they follow.

  This file is `Uper/Impl.lean`'s reader again — EXACTLY the same control flow (`decD` for `dec`,
  `decAltD`, `decFieldsD`, `decListWithD`, `subSliceD`, `readOpenD`, `skipUnknownD`,
  `readExtHeaderD`, `liftL1D`) — threading a write-only log through the computation:

      RdPD α = Bits → Nat → List LogEntry → Outcome (α × Nat) × List LogEntry

  The log is returned also when the read fails (the real build attaches it to the error); a panic
  unwinds, whatever was logged is not observable.  `Props/C19.lean` proves that the first
  component never depends on the log (`diag_erasure`) and that the log only grows
  (`log_monotone`).

  The compositional mirror has no scope machine, so the `read_bit_field_entry` entries are placed
  at the analogous points (one per component of a SEQUENCE, one per iteration of
  `skip_unknown_extension_additions`).  The exact contents of the log are not compared with the
  real build: the correspondence stream `uper-diag` compares only results, error classes and
  consumed bits of the two builds.
-/
namespace Asn1Verif.Uper
open Asn1Verif Outcome Per

/-- the diagnostics of one step (mirror of `ScopeDescription`; tags and names dropped) -/
inductive LogEntry where
  | sequence (stdOpt fieldCount : Nat) (extAfter : Option Nat)
  | sequenceOf (min max : Option Nat) (ext : Bool)
  | enumerated (total std : Nat) (ext : Bool)
  | choice (total std : Nat) (ext : Bool)
  | optional
  | default
  | number (min max : Option Int) (ext : Bool)
  | utf8String (min max : Option Nat) (ext : Bool)
  | ia5String (min max : Option Nat) (ext : Bool)
  | numericString (min max : Option Nat) (ext : Bool)
  | printableString (min max : Option Nat) (ext : Bool)
  | visibleString (min max : Option Nat) (ext : Bool)
  | octetString (min max : Option Nat) (ext : Bool)
  | bitString (min max : Option Nat) (ext : Bool)
  | boolean
  /-- `ScopeDescription::Result`: `Ok(rendered value)` / `Err(e)`; only the class is kept -/
  | result (r : Outcome Unit)
  | bitsLengthDeterminant (lb ub : Option Nat) (r : Outcome Nat)
  | bitsEnumerationIndex (std : Nat) (ext : Bool) (r : Outcome Nat)
  | bitsChoiceIndex (std : Nat) (ext : Bool) (r : Outcome Nat)
  | readWholeSubSlice (lengthBytes writePosition writeOriginal len : Nat) (r : Outcome Unit)
  | readBitFieldEntry (isOpt : Bool) (r : Outcome (Option Bool))
  /-- `warning(format!("read_number_of_ext_fields({read}) > *number_of_ext_fields({known})"))` -/
  | warningExtFields (read known : Nat)
  /-- `warning(format!("Index of extensible enum … clamping index value from {index} to {last}"))` -/
  | warningEnumIndex (index last : Nat)
  | end_
  deriving DecidableEq, Repr

abbrev Log := List LogEntry

/-- a computation of the +feature build: outcome and the log so far -/
def DM (α : Type) : Type := Log → Outcome α × Log

namespace DM
variable {α β : Type}

@[inline] def pure' (a : α) : DM α := fun l => (ok a, l)

@[inline] def bind' (x : DM α) (f : α → DM β) : DM β := fun l =>
  match x l with
  | (.ok a, l') => f a l'
  | (.err k, l') => (.err k, l')
  | (.panic, l') => (.panic, l')

instance : Monad DM where
  pure := pure'
  bind := bind'

/-- a step without diagnostics -/
@[inline] def lift (o : Outcome α) : DM α := fun l => (o, l)

/-- `self.scope_description.push(e)` -/
@[inline] def push (e : LogEntry) : DM Unit := fun l => (ok (), l ++ [e])

/-- a push that is conditional on a (decoded) value -/
@[inline] def pushIf (c : Bool) (e : LogEntry) : DM Unit := if c then push e else pure' ()

/-- `let result = x; push(entries computed from &result); result` — the entries are pushed for
    `Ok` and for `Err`; a panic unwinds -/
@[inline] def tap (x : DM α) (e : Outcome α → List LogEntry) : DM α := fun l =>
  match x l with
  | (.panic, l') => (.panic, l')
  | (o, l') => (o, l' ++ e o)

end DM

/-- the class of a result, for `ScopeDescription::Result` -/
def Outcome.void {α : Type} : Outcome α → Outcome Unit
  | .ok _ => .ok ()
  | .err k => .err k
  | .panic => .panic

/-- the value of a positional result, for the entries that record it -/
def Outcome.val {α : Type} : Outcome (α × Nat) → Outcome α
  | .ok (a, _) => .ok a
  | .err k => .err k
  | .panic => .panic

/-- reader at a position of a fixed input, with the log threaded through:
    `Bits → Nat → List LogEntry → Outcome (α × Nat) × List LogEntry` -/
abbrev RdPD (α : Type) := Bits → Nat → DM (α × Nat)

example (α : Type) : RdPD α = (Bits → Nat → List LogEntry → Outcome (α × Nat) × List LogEntry) := rfl

/-- runs an L1 reader at `pos` (`src/protocol/per` has no feature site) -/
def liftL1D {α : Type} (r : Per.Rd α) : RdPD α := fun inp pos => DM.lift (liftL1 r inp pos)

/-- `UperReader::read_length_determinant`: the result is logged, `Ok` or `Err` -/
def readLenD (lb ub : Option Nat) : RdPD Nat := fun inp pos =>
  (liftL1D (rLen lb ub) inp pos).tap fun o => [.bitsLengthDeterminant lb ub (Outcome.val o)]

/-- `read_whole_sub_slice` -/
def subSliceD {α : Type} (lenBytes : Nat) (r : RdPD α) : RdPD α := fun inp pos => do
  let endPos := pos + lenBytes * 8
  let (a, _) ← (r inp pos).tap fun o =>
    [.readWholeSubSlice lenBytes endPos inp.length inp.length (Outcome.void o)]
  pure (a, min endPos inp.length)

/-- open type on the read side -/
def readOpenD {α : Type} (r : RdPD α) : RdPD α := fun inp pos => do
  let (len, p) ← readLenD none none inp pos
  subSliceD len r inp p

/-- header of the extension part; `nLocal` = number of additions this version of the type knows.
    The warning depends on the decoded count. -/
def readExtHeaderD (nLocal : Nat) : RdPD (Nat × Nat) := fun inp pos => do
  let (n, p) ← liftL1D rSmall inp pos
  if n + 1 > U64_MAX then DM.lift (err .valueNotInRange)
  else do
    DM.pushIf (decide (n + 1 > nLocal)) (.warningExtFields (n + 1) nLocal)
    pure ((p, n + 1), min (p + (n + 1)) inp.length)

/-- `skip_unknown_extension_additions`; every iteration is a `read_bit_field_entry(true)` -/
def skipUnknownD (win nRead : Nat) (idx : Nat) : RdPD Unit := fun inp pos log =>
  if _h : idx < nRead then
    match bitAt inp (win + idx) with
    | .ok present =>
      let log := log ++ [.readBitFieldEntry true (ok (some present))]
      if present then
        match readOpenD (fun _ p => pure ((), p)) inp pos log with
        | (.ok (_, p), log) => skipUnknownD win nRead (idx + 1) inp p log
        | (.err k, log) => (err k, log)
        | (.panic, log) => (panic, log)
      else skipUnknownD win nRead (idx + 1) inp pos log
    | .err k => (err k, log ++ [.readBitFieldEntry true (err k)])
    | .panic => (panic, log)
  else (ok ((), pos), log)
termination_by nRead - idx

/-- `n` elements (scope stashed), with the element reader -/
def decListWithD (r : RdPD Val) : Nat → RdPD Vals
  | 0 => fun _ pos => pure (.nil, pos)
  | n + 1 => fun inp pos => do
    let (v, p) ← r inp pos
    let (vs, p') ← decListWithD r n inp p
    pure (.cons v vs, p')

/-- the opening entry of a restricted string -/
def strEntry (cs : Charset) (min max : Option Nat) (ext : Bool) : LogEntry :=
  match cs with
  | .utf8 => .utf8String min max ext
  | .ia5 => .ia5String min max ext
  | .numeric => .numericString min max ext
  | .printable => .printableString min max ext
  | .visible => .visibleString min max ext

/-- `read_opt` / `read_default` announce themselves; a mandatory component does not -/
def kindEntries : Kind → List LogEntry
  | .m => []
  | .o => [.optional]
  | .d _ => [.default]

def DM.pushAll (es : List LogEntry) : DM Unit := fun l => (ok (), l ++ es)

/-- `read_bit_field_entry(is_opt)`: the presence bit (or none for a mandatory root component) -/
def bitFieldD (isOpt : Bool) (x : Outcome Bool) : DM Bool :=
  (DM.lift x).tap fun o =>
    [.readBitFieldEntry isOpt (match o with
      | .ok b => .ok (if isOpt then some b else none)
      | .err k => .err k
      | .panic => .panic)]

mutual
def decD : Ty → RdPD Val
  | .bool => fun inp pos => do
    DM.push .boolean
    let (b, p) ← (liftL1D rdBit inp pos).tap fun o => [.result (Outcome.void o)]
    pure (.bool b, p)
  | .null => fun _ pos => pure (.null, pos)
  | .int min max ext width signed => fun inp pos => do
    DM.push (.number min max ext)
    let (unconstrained, p0) ← (if ext then liftL1D rdBit inp pos else pure (min.isNone && max.isNone, pos))
    let (v, p1) ← (if unconstrained then liftL1D rUnconstrained inp p0
      else liftL1D (rConstrained (min.getD 0) (max.getD I64_MAX)) inp p0).tap
        fun o => [.result (Outcome.void o)]
    pure (.int (castInt width signed v), p1)
  | .enum std total ext => fun inp pos =>
    DM.tap (do
      DM.push (.enumerated total std ext)
      let (i, p) ← (liftL1D (rIndex std ext) inp pos).tap fun o =>
        [.bitsEnumerationIndex std ext (Outcome.val o)]
      -- depends on the decoded index
      DM.pushIf (decide (i ≥ total)) (.warningEnumIndex i (total - 1))
      DM.tap (if i < total then pure (.enum i, p) else DM.lift (err .invalidChoiceIndex))
        fun o => [.result (Outcome.void o)])
      fun _ => [.end_]
  | .str cs min max ext => fun inp pos =>
    match cs with
    | .utf8 => do
      DM.push (.utf8String min max ext)
      DM.tap (do
        let (octets, p) ← liftL1D (rOctets none none false) inp pos
        match utf8Decode octets with
        | some _ => pure (.str octets, p)
        | none => DM.lift (err .utf8))
        fun o => [.result (Outcome.void o)]
    | cs => do
      DM.push (strEntry cs min max ext)
      DM.tap (do
        let (isExt, p0) ← (if ext then liftL1D rdBit inp pos else pure (false, pos))
        let (len, p1) ← (if isExt then readLenD none none inp p0 else readLenD min max inp p0)
        -- a length the input cannot hold is an error
        if (inp.length - p1) / charWidth cs < len then DM.lift (err .endOfStream)
        else
          let raw := (inp.drop p1).take (len * charWidth cs)
          let chars := (List.range len).map fun i =>
            let c := bitsToNat ((raw.drop (i * charWidth cs)).take (charWidth cs))
            match cs with
            | .numeric => if c = 0 then 32 else 32 + 15 + c
            | _ => c
          pure (.str (chars.map (BitVec.ofNat 8)), p1 + len * charWidth cs))
        fun o => [.result (Outcome.void o)]
  | .oct min max ext => fun inp pos => do
    DM.push (.octetString min max ext)
    let (b, p) ← (liftL1D (rOctets min max ext) inp pos).tap fun o => [.result (Outcome.void o)]
    pure (.oct b, p)
  | .bits min max ext => fun inp pos => do
    DM.push (.bitString min max ext)
    let (b, p) ← (liftL1D (rBitString min max ext) inp pos).tap fun o => [.result (Outcome.void o)]
    pure (.bits b, p)
  | .seqOf min max ext elem => fun inp pos => do
    DM.push (.sequenceOf min max ext)
    let (isExt, p0) ← (if ext then liftL1D rdBit inp pos else pure (false, pos))
    let (len, p1) ← (if isExt then readLenD none none inp p0 else readLenD min max inp p0)
    let (vs, p2) ← decListWithD (decD elem) len inp p1
    pure (.list vs, p2)
  | .seq stdOpt fieldCount extAfter fields => fun inp pos =>
    DM.tap (do
      DM.push (.sequence stdOpt fieldCount extAfter)
      let (extBit, p0) ← (match extAfter with
        | some _ => liftL1D rdBit inp pos
        | none => pure (false, pos))
      let rootCount := match extAfter with
        | none => fields.length
        | some k => k + 1
      let nOpt := fields.optCount rootCount
      if inp.length - p0 < nOpt then DM.lift (err .endOfStream)
      else
        let ctx : SeqCtx := { presPos := p0, extBit := extBit, nLocal := fields.length - rootCount }
        do
          let (vs, p1) ← decFieldsD fields rootCount 0 0 ctx inp (p0 + nOpt)
          pure (.seq vs, p1))
      fun _ => [.end_]
  | .choice std total ext alts => fun inp pos =>
    DM.tap (do
      DM.push (.choice total std ext)
      let (i, p0) ← (liftL1D (rIndex std ext) inp pos).tap fun o =>
        [.bitsChoiceIndex std ext (Outcome.val o)]
      if i ≥ std then do
        let (len, p1) ← readLenD none none inp p0
        -- an unknown alternative: `read_content` returns `None`, then the error
        DM.tap (if i ≥ total then do
            DM.push (.readWholeSubSlice len (p1 + len * 8) inp.length inp.length (.ok ()))
            DM.lift (err .invalidChoiceIndex)
          else do
            let (v, p2) ← subSliceD len (decAltD alts i) inp p1
            pure (.choice i v, p2))
          fun o => [.result (Outcome.void o)]
      else
        DM.tap (do
          let (v, p1) ← decAltD alts i inp p0
          pure (.choice i v, p1))
          fun o => [.result (Outcome.void o)])
      fun _ => [.end_]

/-- content of alternative `i` -/
def decAltD : Fields → Nat → RdPD Val
  | .nil, _ => fun _ _ => DM.lift (err .invalidChoiceIndex)
  | .cons _ t _, 0 => decD t
  | .cons _ _ rest, i + 1 => decAltD rest i

/-- components in order -/
def decFieldsD : Fields → Nat → Nat → Nat → SeqCtx → RdPD Vals
  | .nil, _, _, addIdx, ctx => fun inp pos =>
    if ctx.extBit then do
      let ((win, nRead), pos) ← (match ctx.addWin with
        | some w => pure (w, pos)
        | none => readExtHeaderD ctx.nLocal inp pos : DM ((Nat × Nat) × Nat))
      let (_, p) ← skipUnknownD win nRead addIdx inp pos
      pure (.nil, p)
    else pure (.nil, pos)
  | .cons k t rest, rootLeft, optIdx, addIdx, ctx => fun inp pos =>
    if rootLeft > 0 then do
      -- root component
      DM.pushAll (kindEntries k)
      let present ← bitFieldD k.isOptional
        (if k.isOptional then bitAt inp (ctx.presPos + optIdx) else ok true)
      let optIdx' := if k.isOptional then optIdx + 1 else optIdx
      let (v, p) ← (if present then do
          let (x, p) ← decD t inp pos
          pure (k.wrap x, p)
        else pure (k.absent, pos) : DM (Val × Nat))
      let (vs, p') ← decFieldsD rest (rootLeft - 1) optIdx' addIdx ctx inp p
      pure (.cons v vs, p')
    else if ctx.extBit then do
      DM.pushAll (kindEntries k)
      -- first addition: number of announced additions, bitmap window, cursor behind the bitmap
      let ((win, nRead), pos) ← (match ctx.addWin with
        | some w => pure (w, pos)
        | none => readExtHeaderD ctx.nLocal inp pos : DM ((Nat × Nat) × Nat))
      let ctx := { ctx with addWin := some (win, nRead) }
      -- additions beyond the announced count are absent
      let present ← bitFieldD true (if addIdx < nRead then bitAt inp (win + addIdx) else ok false)
      -- a mandatory addition ignores its presence bit and reads its content
      let (v, p) ← (if present || !k.isOptional then do
          let (x, p) ← (if k.isOptional || t.buffersOnRead then readOpenD (decD t) inp pos else decD t inp pos)
          pure (k.wrap x, p)
        else pure (k.absent, pos) : DM (Val × Nat))
      let (vs, p') ← decFieldsD rest 0 optIdx (addIdx + 1) ctx inp p
      pure (.cons v vs, p')
    else do
      -- no extension part was sent: additions are absent
      DM.pushAll (kindEntries k)
      DM.push (.readBitFieldEntry k.isOptional (.ok (some false)))
      let (v, p) ← (match k with
        | .m => decD t inp pos
        | k => pure (k.absent, pos) : DM (Val × Nat))
      let (vs, p') ← decFieldsD rest 0 optIdx (addIdx + 1) ctx inp p
      pure (.cons v vs, p')
end

end Asn1Verif.Uper
