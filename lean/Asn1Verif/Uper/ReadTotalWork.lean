import Asn1Verif.Uper.ReadTotal
/-
  C04, part 3 — work and allocation of the UPER reader relative to the input size.

  All functions of `Uper/Impl.lean` and `Per/Prim.lean` are total Lean definitions (structural
  recursion over `Ty`/`Fields`/`Nat`, well-founded recursion on the remaining input resp. on
  `nRead - idx` for the three loops): the model cannot "hang".  What is left of "does not loop or
  allocate without bound relative to the input size" is quantitative:

    * `Ty.minBits t` is a conservative lower bound of the bits a successful `dec t` consumes
      (`dec_goodN`);
    * a successful SEQUENCE OF whose element type has `minBits ≥ 1` returns at most as many
      elements as there are bits in the input (`seqOf_count_le`);
    * octet strings, bit strings and restricted strings: 8 resp. 1 resp. `charWidth` bits of
      input per unit returned (`dec_oct_len_le`, `dec_bits_len_le`, `dec_str_len_le`).

  For element types of width zero (NULL, `INTEGER (5..5)`, an empty SEQUENCE, …) the number of
  loop iterations is the announced length, whatever the input size: `decListWith_null`.
-/
namespace Asn1Verif.Uper
open Asn1Verif Outcome Per Per.RT

/-! ### a `GoodP` that also counts -/

/-- like `GoodP`, and a successful read has consumed at least `k` bits -/
def GoodPN {α : Type} (k : Nat) (inp : Bits) (pos : Nat) : Outcome (α × Nat) → Prop
  | .ok (_, p) => pos ≤ inp.length → pos + k ≤ p ∧ p ≤ inp.length
  | .err _ => True
  | .panic => False

section
variable {α β : Type} {inp : Bits} {pos k : Nat}

theorem GoodPN.bounds {o : Outcome (α × Nat)} (h : GoodPN k inp pos o) {a : α} {p : Nat}
    (e : o = ok (a, p)) (hp : pos ≤ inp.length) : pos + k ≤ p ∧ p ≤ inp.length := by
  subst e; exact h hp

theorem GoodP.toN {o : Outcome (α × Nat)} (h : GoodP inp pos o) : GoodPN 0 inp pos o := by
  match o, h with
  | .ok (_, p), h => exact fun hp => h hp
  | .err _, _ => trivial

theorem GoodPN.weaken {o : Outcome (α × Nat)} {k' : Nat} (hk : k' ≤ k) (h : GoodPN k inp pos o) :
    GoodPN k' inp pos o := by
  match o, h with
  | .ok (_, p), h => exact fun hp => ⟨by have := h hp; omega, (h hp).2⟩
  | .err _, _ => trivial

/-- both steps count -/
theorem GoodPN.bind {k₁ k₂ : Nat} {x : Outcome (α × Nat)} {f : α × Nat → Outcome (β × Nat)}
    (hx : GoodPN k₁ inp pos x) (hf : ∀ a p, x = ok (a, p) → GoodPN k₂ inp p (f (a, p))) :
    GoodPN (k₁ + k₂) inp pos (x >>= f) := by
  match x, hx, hf with
  | .ok (a, p), hx, hf =>
    have h2 := hf a p rfl
    show GoodPN (k₁ + k₂) inp pos (f (a, p))
    match f (a, p), h2 with
    | .ok (b, q), h2 =>
      intro hp
      have h1 := hx hp
      have h3 := h2 h1.2
      exact ⟨by omega, h3.2⟩
    | .err _, _ => trivial
  | .err _, _, _ => trivial

/-- only the first step counts -/
theorem GoodPN.bindL {x : Outcome (α × Nat)} {f : α × Nat → Outcome (β × Nat)}
    (hx : GoodPN k inp pos x) (hf : ∀ a p, x = ok (a, p) → GoodP inp p (f (a, p))) :
    GoodPN k inp pos (x >>= f) :=
  GoodPN.bind (k₂ := 0) hx (fun a p e => (hf a p e).toN)

/-- only the second step counts -/
theorem GoodPN.bindR {x : Outcome (α × Nat)} {f : α × Nat → Outcome (β × Nat)}
    (hx : GoodP inp pos x) (hf : ∀ a p, x = ok (a, p) → GoodPN k inp p (f (a, p))) :
    GoodPN k inp pos (x >>= f) := by
  have := GoodPN.bind (k₁ := 0) hx.toN hf
  rwa [Nat.zero_add] at this

theorem GoodPN.bind_plain {γ : Type} {x : Outcome γ} {f : γ → Outcome (β × Nat)}
    (hx : x ≠ .panic) (hf : ∀ c, x = ok c → GoodPN k inp pos (f c)) : GoodPN k inp pos (x >>= f) := by
  match x, hx, hf with
  | .ok c, _, hf => exact hf c rfl
  | .err _, _, _ => trivial
  | .panic, hx, _ => exact absurd rfl hx

theorem GoodPN.pure (a : α) : GoodPN 0 inp pos (ok (a, pos)) := fun h => ⟨Nat.le_refl _, h⟩

end

theorem liftL1_goodN {α : Type} {r : Per.Rd α} {k : Nat} (hr : ∀ bs, Good bs (r bs))
    (hk : ∀ bs a rest, r bs = ok (a, rest) → rest.length + k ≤ bs.length) (inp : Bits) (pos : Nat) :
    GoodPN k inp pos (liftL1 r inp pos) := by
  unfold liftL1
  have h := hr (inp.drop pos)
  split
  · rename_i a rest e
    have := hk _ _ _ e
    rw [List.length_drop] at this
    intro hp
    omega
  · trivial
  · rename_i e; rw [e] at h; exact h

/-! ### lower bound of the consumption per type -/

mutual
/-- conservative lower bound of the number of bits a successful `dec t` consumes -/
def Ty.minBits : Ty → Nat
  | .bool => 1
  | .null => 0
  | .int min max ext _ _ =>
    if ext then 1
    else if min.isNone && max.isNone then 8
    else if max.getD I64_MAX > min.getD 0 then 1 else 0
  | .enum std _ ext => if ext || decide (2 ≤ std) then 1 else 0
  | .str cs _ _ ext =>
    match cs with
    | .utf8 => 1
    | _ => if ext then 1 else 0
  | .oct min max ext => if ext || (min.isNone && max.isNone) then 1 else 0
  | .bits min max ext => if ext || (min.isNone && max.isNone) then 1 else 0
  | .seqOf min max ext _ => if ext then 1 else if min.isNone && max.isNone then 8 else 0
  | .seq _ _ extAfter fields =>
    match extAfter with
    | some _ => 1
    | none => fields.minBits
  | .choice std _ ext _ => if ext || decide (2 ≤ std) then 1 else 0
/-- the mandatory components of a non-extensible SEQUENCE -/
def Fields.minBits : Fields → Nat
  | .nil => 0
  | .cons .m t rest => t.minBits + rest.minBits
  | .cons _ _ rest => rest.minBits
end

theorem decListWith_goodN {r : RdP Val} {inp : Bits} {k : Nat}
    (hr : ∀ pos, GoodPN k inp pos (r inp pos)) :
    ∀ (n pos : Nat), GoodPN (n * k) inp pos (decListWith r n inp pos)
  | 0, pos => by rw [Nat.zero_mul]; exact GoodPN.pure _
  | n + 1, pos => by
    unfold decListWith
    have e : (n + 1) * k = k + (n * k + 0) := by rw [Nat.succ_mul]; omega
    rw [e]
    refine GoodPN.bind (hr pos) (fun v p _ => ?_)
    refine GoodPN.bind (decListWith_goodN hr n p) (fun vs p' _ => ?_)
    exact GoodPN.pure _

theorem decListWith_length {r : RdP Val} {inp : Bits} :
    ∀ (n pos : Nat) (vs : Vals) (p : Nat), decListWith r n inp pos = ok (vs, p) → vs.length = n
  | 0, pos, vs, p, h => by
    simp only [decListWith, ok.injEq, Prod.mk.injEq] at h
    rw [← h.1]; rfl
  | n + 1, pos, vs, p, h => by
    unfold decListWith at h
    obtain ⟨⟨v, p1⟩, _, h2⟩ := bind_eq_ok.1 h
    obtain ⟨⟨vs', p2⟩, h3, h4⟩ := bind_eq_ok.1 h2
    simp only [ok.injEq, Prod.mk.injEq] at h4
    rw [← h4.1]
    simp only [Vals.length, decListWith_length n p1 vs' p2 h3]

/-- a zero-width element: `n` iterations, nothing consumed — the work is the announced length,
    independent of the input -/
theorem decListWith_null (inp : Bits) (pos : Nat) :
    ∀ n, decListWith (dec .null) n inp pos = ok (Vals.ofList (List.replicate n .null), pos)
  | 0 => rfl
  | n + 1 => by
    unfold decListWith
    rw [show dec .null inp pos = ok (.null, pos) by unfold dec; rfl]
    simp only [bind_ok]
    rw [decListWith_null inp pos n]
    rfl

/-! ### the mutual induction, counting -/

theorem GoodPN.shift {α : Type} {inp : Bits} {pos pos' k : Nat} {o : Outcome (α × Nat)}
    (h1 : pos ≤ inp.length → pos ≤ pos' ∧ pos' ≤ inp.length) (h : GoodPN k inp pos' o) :
    GoodPN k inp pos o := by
  match o, h with
  | .ok (_, p), h =>
    intro hp
    have := h (h1 hp).2
    exact ⟨by have := (h1 hp).1; omega, this.2⟩
  | .err _, _ => trivial

theorem rdBit_c : ∀ (bs : Bits) (a : Bool) (rest : Bits), rdBit bs = ok (a, rest) →
    rest.length + 1 ≤ bs.length := fun _ _ _ h => by have := rdBit_len h; omega

/-- the tail of the restricted string reader -/
theorem strTail_good (inp : Bits) (p1 len w : Nat) (v : Val) :
    GoodP inp p1 (if (inp.length - p1) / w < len then err .endOfStream
      else ok (v, p1 + len * w)) := by
  split
  · trivial
  · rename_i hlen
    refine GoodP.at _ (fun hp => ?_)
    have h1 : len ≤ (inp.length - p1) / w := Nat.le_of_not_lt hlen
    have h2 := Nat.mul_le_mul_right w h1
    have h3 := Nat.div_mul_le_self (inp.length - p1) w
    omega

/-- what follows the extension bit of a SEQUENCE OF -/
theorem seqOfCont_good {r : RdP Val} {inp : Bits} (hr : ∀ pos, GoodP inp pos (r inp pos))
    (isExt : Bool) (min max : Option Nat) (p0 : Nat) :
    GoodP inp p0 (do
      let (len, p1) ← (if isExt then liftL1 (rLen none none) inp p0 else liftL1 (rLen min max) inp p0)
      let (vs, p2) ← decListWith r len inp p1
      ok (Val.list vs, p2)) := by
  refine GoodP.bind (lenP_good _ _ _ _ _) (fun len p1 _ => ?_)
  exact GoodP.bind (decListWith_good hr len p1) (fun vs p2 _ => GoodP.pure _)

mutual
theorem dec_goodN : ∀ (t : Ty) (inp : Bits) (pos : Nat), GoodPN t.minBits inp pos (dec t inp pos)
  | .bool, inp, pos => by
    unfold dec Ty.minBits
    exact GoodPN.bindL (liftL1_goodN rdBit_good rdBit_c _ _) (fun b p _ => GoodP.pure _)
  | .null, inp, pos => (dec_good .null inp pos).toN
  | .int min max ext width signed, inp, pos => by
    unfold Ty.minBits
    split
    · -- extensible: the extension bit
      rename_i hext
      unfold dec
      simp only [hext, ↓reduceIte]
      refine GoodPN.bindL (liftL1_goodN rdBit_good rdBit_c _ _) (fun u p0 _ => ?_)
      dsimp only
      refine GoodP.bind ?_ (fun v p1 _ => GoodP.pure _)
      split
      · exact liftL1_good rUnconstrained_good _ _
      · exact liftL1_good (rConstrained_good _ _) _ _
    · rename_i hext
      split
      · -- unconstrained: a length determinant
        rename_i hnone
        unfold dec
        simp only [hext, hnone, Bool.false_eq_true, ↓reduceIte, bind_ok]
        exact GoodPN.bindL (liftL1_goodN rUnconstrained_good
          (fun _ _ _ e => rUnconstrained_consumes e) _ _) (fun v p1 _ => GoodP.pure _)
      · rename_i hnone
        split
        · -- constrained with a range > 0
          rename_i hr
          unfold dec
          simp only [hext, hnone, Bool.false_eq_true, ↓reduceIte, bind_ok]
          exact GoodPN.bindL (liftL1_goodN (rConstrained_good _ _)
            (fun _ _ _ e => rConstrained_consumes hr e) _ _) (fun v p1 _ => GoodP.pure _)
        · exact (dec_good _ inp pos).toN
  | .enum std total ext, inp, pos => by
    unfold Ty.minBits
    split
    · rename_i hc
      have hc' : ext = true ∨ 2 ≤ std := by simpa using hc
      unfold dec
      refine GoodPN.bindL (liftL1_goodN (rIndex_good _ _)
        (fun _ _ _ e => rIndex_consumes hc' e) _ _) (fun i p _ => ?_)
      dsimp only
      split
      · exact GoodP.pure _
      · trivial
    · exact (dec_good _ inp pos).toN
  | .str cs min max ext, inp, pos => by
    cases cs with
    | utf8 =>
      unfold dec Ty.minBits
      dsimp only
      refine GoodPN.bindL (liftL1_goodN (rOctets_good _ _ _)
        (fun _ _ _ e => rOctets_consumes (Or.inr ⟨rfl, rfl⟩) e) _ _) (fun o p _ => ?_)
      dsimp only
      split
      · exact GoodP.pure _
      · trivial
    | _ =>
      cases ext with
      | false => exact (dec_good _ inp pos).toN
      | true =>
        unfold dec Ty.minBits
        simp only [↓reduceIte]
        refine GoodPN.bindL (liftL1_goodN rdBit_good rdBit_c _ _) (fun isExt p0 _ => ?_)
        refine GoodP.bind (lenP_good _ _ _ _ _) (fun len p1 _ => ?_)
        dsimp only
        exact strTail_good _ _ _ _ _
  | .oct min max ext, inp, pos => by
    unfold Ty.minBits
    split
    · rename_i hc
      have hc' : ext = true ∨ (min = none ∧ max = none) := by
        simpa [Option.isNone_iff_eq_none] using hc
      unfold dec
      exact GoodPN.bindL (liftL1_goodN (rOctets_good _ _ _)
        (fun _ _ _ e => rOctets_consumes hc' e) _ _) (fun b p _ => GoodP.pure _)
    · exact (dec_good _ inp pos).toN
  | .bits min max ext, inp, pos => by
    unfold Ty.minBits
    split
    · rename_i hc
      have hc' : ext = true ∨ (min = none ∧ max = none) := by
        simpa [Option.isNone_iff_eq_none] using hc
      unfold dec
      exact GoodPN.bindL (liftL1_goodN (rBitString_good _ _ _)
        (fun _ _ _ e => rBitString_consumes hc' e) _ _) (fun b p _ => GoodP.pure _)
    · exact (dec_good _ inp pos).toN
  | .seqOf min max ext elem, inp, pos => by
    unfold Ty.minBits
    split
    · rename_i hext
      unfold dec
      simp only [hext, ↓reduceIte]
      refine GoodPN.bindL (liftL1_goodN rdBit_good rdBit_c _ _) (fun isExt p0 _ => ?_)
      exact seqOfCont_good (fun q => dec_good elem inp q) isExt min max p0
    · rename_i hext
      split
      · rename_i hnone
        obtain ⟨rfl, rfl⟩ : min = none ∧ max = none := by
          simpa [Option.isNone_iff_eq_none] using hnone
        unfold dec
        simp only [hext, Bool.false_eq_true, ↓reduceIte, bind_ok]
        refine GoodPN.bindL (liftL1_goodN (rLen_good _ _)
          (fun _ _ _ e => rLen_none_consumes e) _ _) (fun len p1 _ => ?_)
        exact GoodP.bind (decListWith_good (fun q => dec_good elem inp q) len p1)
          (fun vs p2 _ => GoodP.pure _)
      · exact (dec_good _ inp pos).toN
  | .seq stdOpt fieldCount extAfter fields, inp, pos => by
    cases extAfter with
    | some k =>
      unfold dec Ty.minBits
      dsimp only
      refine GoodPN.bindL (liftL1_goodN rdBit_good rdBit_c _ _) (fun extBit p0 _ => ?_)
      dsimp only
      split
      · trivial
      · refine GoodP.bind (GoodP.shift ?_ (decFields_good fields _ _ _ _ inp _))
          (fun vs p1 _ => GoodP.pure _)
        intro hp; omega
    | none =>
      unfold dec Ty.minBits
      simp only [bind_ok]
      split
      · trivial
      · refine GoodPN.bindL (GoodPN.shift ?_
          (decFields_goodN fields fields.length 0 0 _ inp _ (Nat.le_refl _)))
          (fun vs p1 _ => GoodP.pure _)
        intro hp; omega
  | .choice std total ext alts, inp, pos => by
    unfold Ty.minBits
    split
    · rename_i hc
      have hc' : ext = true ∨ 2 ≤ std := by simpa using hc
      unfold dec
      refine GoodPN.bindL (liftL1_goodN (rIndex_good _ _)
        (fun _ _ _ e => rIndex_consumes hc' e) _ _) (fun i p0 _ => ?_)
      dsimp only
      split
      · refine GoodP.bind (liftL1_good (rLen_good _ _) _ _) (fun len p1 _ => ?_)
        dsimp only
        split
        · trivial
        · exact GoodP.bind (subSlice_good _ (decAlt_good alts i inp p1)) (fun v p2 _ => GoodP.pure _)
      · exact GoodP.bind (decAlt_good alts i inp p0) (fun v p1 _ => GoodP.pure _)
    · exact (dec_good _ inp pos).toN

/-- all components are root components (`fs.length ≤ rootLeft`): a non-extensible SEQUENCE -/
theorem decFields_goodN : ∀ (fs : Fields) (rootLeft optIdx addIdx : Nat) (ctx : SeqCtx)
    (inp : Bits) (pos : Nat), fs.length ≤ rootLeft →
    GoodPN fs.minBits inp pos (decFields fs rootLeft optIdx addIdx ctx inp pos)
  | .nil, rootLeft, optIdx, addIdx, ctx, inp, pos, _ => (decFields_good .nil _ _ _ _ inp pos).toN
  | .cons k t rest, rootLeft, optIdx, addIdx, ctx, inp, pos, hl => by
    have hl' : rest.length + 1 ≤ rootLeft := hl
    have hpos : rootLeft > 0 := by omega
    cases k with
    | m =>
      unfold decFields Fields.minBits
      simp only [hpos, ↓reduceIte, Kind.isOptional, Bool.false_eq_true, bind_ok]
      refine GoodPN.bind (GoodPN.bindL (dec_goodN t inp pos) (fun x p _ => GoodP.pure _))
        (fun v p _ => ?_)
      dsimp only
      exact GoodPN.bindL (decFields_goodN rest (rootLeft - 1) _ _ _ inp p (by omega))
        (fun vs p' _ => GoodP.pure _)
    | o =>
      unfold decFields Fields.minBits
      simp only [hpos, ↓reduceIte, Kind.isOptional]
      refine GoodPN.bind_plain (bitAt_ne_panic _ _) (fun present _ => ?_)
      refine GoodPN.bindR ?_ (fun v p _ => ?_)
      · split
        · exact GoodP.bind (dec_good t inp pos) (fun x p _ => GoodP.pure _)
        · exact GoodP.pure _
      · dsimp only
        exact GoodPN.bindL (decFields_goodN rest (rootLeft - 1) _ _ _ inp p (by omega))
          (fun vs p' _ => GoodP.pure _)
    | d dv =>
      unfold decFields Fields.minBits
      simp only [hpos, ↓reduceIte, Kind.isOptional]
      refine GoodPN.bind_plain (bitAt_ne_panic _ _) (fun present _ => ?_)
      refine GoodPN.bindR ?_ (fun v p _ => ?_)
      · split
        · exact GoodP.bind (dec_good t inp pos) (fun x p _ => GoodP.pure _)
        · exact GoodP.pure _
      · dsimp only
        exact GoodPN.bindL (decFields_goodN rest (rootLeft - 1) _ _ _ inp p (by omega))
          (fun vs p' _ => GoodP.pure _)
end

/-! ### corollaries: work and allocation relative to the input -/

theorem liftL1_inv {α : Type} {r : Per.Rd α} {inp : Bits} {pos p : Nat} {a : α}
    (h : liftL1 r inp pos = ok (a, p)) :
    ∃ rest, r (inp.drop pos) = ok (a, rest) ∧ p = inp.length - rest.length := by
  unfold liftL1 at h
  split at h
  · rename_i a' rest e
    simp only [ok.injEq, Prod.mk.injEq] at h
    exact ⟨rest, by rw [e, h.1], h.2.symm⟩
  · simp at h
  · simp at h

/-- **work bound for SEQUENCE OF**: a successful read returns `len` elements and has consumed at
    least `len * minBits elem` bits; in particular at most `inp.length` elements when
    `minBits elem ≥ 1` -/
theorem seqOf_count {min max : Option Nat} {ext : Bool} {elem : Ty} {inp : Bits} {pos p : Nat}
    {v : Val} (h : dec (.seqOf min max ext elem) inp pos = ok (v, p)) (hp : pos ≤ inp.length) :
    ∃ vs, v = .list vs ∧ vs.length * elem.minBits + pos ≤ p ∧ p ≤ inp.length := by
  unfold dec at h
  obtain ⟨⟨isExt, p0⟩, h0, h⟩ := bind_eq_ok.1 h
  obtain ⟨⟨len, p1⟩, h1, h⟩ := bind_eq_ok.1 h
  obtain ⟨⟨vs, p2⟩, h2, h⟩ := bind_eq_ok.1 h
  simp only [ok.injEq, Prod.mk.injEq] at h
  have b0 := (extBitP_good ext false inp pos).bounds h0 hp
  have b1 := (lenP_good isExt min max inp p0).bounds h1 b0.2
  have b2 := (decListWith_goodN (fun q => dec_goodN elem inp q) len p1).bounds h2 b1.2
  have hl := decListWith_length len p1 vs p2 h2
  refine ⟨vs, h.1.symm, ?_, ?_⟩
  · rw [hl, ← h.2]; omega
  · rw [← h.2]; exact b2.2

theorem dec_oct_len_le {min max : Option Nat} {ext : Bool} {inp : Bits} {pos p : Nat} {v : Val}
    (h : dec (.oct min max ext) inp pos = ok (v, p)) (hp : pos ≤ inp.length) :
    ∃ b, v = .oct b ∧ 8 * b.length + pos ≤ p := by
  unfold dec at h
  obtain ⟨⟨b, p0⟩, h0, h⟩ := bind_eq_ok.1 h
  simp only [ok.injEq, Prod.mk.injEq] at h
  obtain ⟨rest, h1, h2⟩ := liftL1_inv h0
  have := rOctets_len_le h1
  rw [List.length_drop] at this
  exact ⟨b, h.1.symm, by omega⟩

theorem dec_bits_len_le {min max : Option Nat} {ext : Bool} {inp : Bits} {pos p : Nat} {v : Val}
    (h : dec (.bits min max ext) inp pos = ok (v, p)) (hp : pos ≤ inp.length) :
    ∃ b, v = .bits b ∧ b.length + pos ≤ p := by
  unfold dec at h
  obtain ⟨⟨b, p0⟩, h0, h⟩ := bind_eq_ok.1 h
  simp only [ok.injEq, Prod.mk.injEq] at h
  obtain ⟨rest, h1, h2⟩ := liftL1_inv h0
  have := rBitString_len_le h1
  rw [List.length_drop] at this
  exact ⟨b, h.1.symm, by omega⟩

/-- bits of input per byte of a decoded string -/
def strUnit : Charset → Nat
  | .utf8 => 8
  | cs => charWidth cs

theorem dec_str_len_le {cs : Charset} {min max : Option Nat} {ext : Bool} {inp : Bits}
    {pos p : Nat} {v : Val}
    (h : dec (.str cs min max ext) inp pos = ok (v, p)) (hp : pos ≤ inp.length) :
    ∃ b, v = .str b ∧ b.length * strUnit cs + pos ≤ p := by
  cases cs with
  | utf8 =>
    unfold dec at h
    dsimp only at h
    obtain ⟨⟨o, p0⟩, h0, h⟩ := bind_eq_ok.1 h
    dsimp only at h
    split at h
    · simp only [ok.injEq, Prod.mk.injEq] at h
      obtain ⟨rest, h1, h2⟩ := liftL1_inv h0
      have := rOctets_len_le h1
      rw [List.length_drop] at this
      exact ⟨o, h.1.symm, by simp only [strUnit]; omega⟩
    · simp at h
  | _ =>
    unfold dec at h
    dsimp only at h
    obtain ⟨⟨isExt, p0⟩, h0, h⟩ := bind_eq_ok.1 h
    obtain ⟨⟨len, p1⟩, h1, h⟩ := bind_eq_ok.1 h
    have b0 := (extBitP_good ext false inp pos).bounds h0 hp
    have b1 := (lenP_good isExt min max inp p0).bounds h1 b0.2
    dsimp only at h
    split at h
    · simp at h
    · simp only [ok.injEq, Prod.mk.injEq] at h
      refine ⟨_, h.1.symm, ?_⟩
      simp only [List.length_map, List.length_range, strUnit]
      omega

/-! ### the open finding: zero-width elements -/

theorem natBits_length (w v : Nat) : (natBits w v).length = w := by
  induction w with
  | zero => rfl
  | succ w ih => simp only [natBits, List.length_cons, ih]

theorem foldl_natBits (w v acc : Nat) :
    (natBits w v).foldl (fun acc b => 2 * acc + b.toNat) acc = acc * 2 ^ w + v % 2 ^ w := by
  induction w generalizing acc with
  | zero => simp [natBits, Nat.mod_one]
  | succ w ih =>
    simp only [natBits, List.foldl_cons, ih, Nat.toNat_testBit]
    rw [Nat.mod_pow_succ (x := v) (b := 2) (k := w), Nat.pow_succ, Nat.add_mul]
    have : 2 * acc * 2 ^ w = acc * (2 ^ w * 2) := by
      rw [Nat.mul_comm 2 acc, Nat.mul_assoc, Nat.mul_comm 2 (2 ^ w)]
    rw [this, Nat.mul_comm (2 ^ w) (v / 2 ^ w % 2)]
    omega

theorem bitsToNat_natBits (w v : Nat) (h : v < 2 ^ w) : bitsToNat (natBits w v) = v := by
  unfold bitsToNat
  rw [foldl_natBits, Nat.zero_mul, Nat.zero_add, Nat.mod_eq_of_lt h]

/-- `SEQUENCE (SIZE (0..MAX)) OF NULL` (the length field is 63 bits wide): for EVERY `n < 2^63` the
    63-bit input `n` decodes successfully to a list of `n` elements.  The loop runs `n` times on
    63 bits of input. -/
theorem seqOf_null_unbounded (n : Nat) (hn : n < 2 ^ 63) :
    dec (.seqOf (some 0) (some I64MAXu) false .null) (natBits 63 n) 0 =
      ok (.list (Vals.ofList (List.replicate n .null)), 63) := by
  have hnn : rNNBIc (some 0) (some I64MAXu) (natBits 63 n) = ok (n, []) := by
    have hw : bitWidth ((some I64MAXu).getD I64MAXu - (some 0).getD 0) = 63 := by decide
    unfold rNNBIc
    dsimp only
    rw [hw]
    unfold rdNat
    have hl := natBits_length 63 n
    rw [if_neg (by omega), List.take_of_length_le (by omega), List.drop_of_length_le (by omega),
      bitsToNat_natBits 63 n hn]
    simp only [bind_ok, Option.getD_some, Nat.zero_add]
    rw [if_neg (by simp only [U64_MAX]; omega)]
  have hlen : rLen (some 0) (some I64MAXu) (natBits 63 n) = ok (n, []) := by
    unfold rLen
    dsimp only
    rw [if_pos (by decide), if_neg (by decide)]
    exact hnn
  unfold dec
  simp only [Bool.false_eq_true, ↓reduceIte, bind_ok]
  have hl : liftL1 (rLen (some 0) (some I64MAXu)) (natBits 63 n) 0 = ok (n, 63) := by
    unfold liftL1
    rw [List.drop_zero, hlen]
    simp only [natBits_length, List.length_nil, Nat.sub_zero]
  rw [hl]
  simp only [bind_ok, decListWith_null]

end Asn1Verif.Uper
