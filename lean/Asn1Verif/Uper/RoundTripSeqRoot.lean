import Asn1Verif.Uper.RoundTripSeq
/-
  C01 — SEQUENCE / SET, reader side: a root component.
-/
namespace Asn1Verif.Uper
open Asn1Verif Outcome Per

theorem view_present {k : Kind} {v x : Val} (h : fieldView k v = some (true, x)) : k.wrap x = v := by
  cases k with
  | m => simp only [fieldView, Option.some.injEq, Prod.mk.injEq, true_and] at h; subst h; rfl
  | d dv =>
    simp only [fieldView, Option.some.injEq, Prod.mk.injEq] at h
    obtain ⟨_, h⟩ := h; subst h; rfl
  | o =>
    cases v <;> simp only [fieldView, Option.some.injEq, Prod.mk.injEq, true_and, reduceCtorEq,
      Bool.false_eq_true, false_and] at h
    subst h; rfl

theorem view_absent {k : Kind} {v x : Val} (h : fieldView k v = some (false, x)) :
    k.absent = v ∧ k.isOptional = true ∧ k ≠ .m := by
  cases k with
  | m => simp [fieldView] at h
  | d dv =>
    simp only [fieldView, Option.some.injEq, Prod.mk.injEq, Bool.not_eq_false'] at h
    exact ⟨(val_beq_eq h.1).symm, rfl, by intro h'; cases h'⟩
  | o =>
    cases v <;> simp only [fieldView, Option.some.injEq, Prod.mk.injEq, true_and, reduceCtorEq,
      Bool.true_eq_false, false_and] at h
    exact ⟨rfl, rfl, by intro h'; cases h'⟩

theorem view_mandatory {k : Kind} {v x : Val} {p : Bool} (h : fieldView k v = some (p, x))
    (hk : k.isOptional = false) : p = true := by
  cases k with
  | m => simp only [fieldView, Option.some.injEq, Prod.mk.injEq] at h; exact h.1.symm
  | d dv => cases hk
  | o => cases hk

/-- a root component -/
theorem cont_cons_root (k : Kind) (t : Ty) (wrest : Fields) (wvs : Vals) (rrest : Fields) (rvs : Vals)
    (iht : RT (enc t) (dec t) (valOk t))
    (v : Val) (rootLeft : Nat) (acc acc1 fin : SeqAcc) (inp : Bits) (P B : Nat) (post : Bits)
    (ihr : Cont wrest wvs rrest rvs (rootLeft - 1) fin inp P B)
    (ctx : SeqCtx) (addIdx pos : Nat) (p : Bool) (x : Val)
    (hroot : rootLeft > 0)
    (hvx : p = true → valOk t x = true)
    (hv : fieldView k v = some (p, x))
    (hs : acc.step k t true p (fun _ => enc t x) = ok acc1)
    (henc : encFields wrest wvs (rootLeft - 1) acc1 = ok fin)
    (L : SeqLayout inp fin P B post) (hP : ctx.presPos = P) (hext : ctx.extBit = fin.st.isAll)
    (hinv : StateInv acc fin B rootLeft ctx addIdx pos) :
    ((if k.isOptional = true then bitAt inp (ctx.presPos + acc.rootPres.length) else ok true) >>=
      fun present =>
      (if present = true then (dec t inp pos >>= fun y => ok (k.wrap y.fst, y.snd))
        else ok (k.absent, pos)) >>= fun y =>
      decFields rrest (rootLeft - 1)
        (if k.isOptional = true then acc.rootPres.length + 1 else acc.rootPres.length) addIdx ctx inp
        y.snd >>= fun z =>
      ok (Vals.cons y.fst z.fst, z.snd)) = ok (Vals.cons v rvs, endPos fin B) := by
  obtain ⟨rp, rb, ap, ab, F⟩ := encFields_frameC wrest wvs (rootLeft - 1) acc1 fin henc
  obtain ⟨body, hb, e1⟩ := step_root_ok hs
  -- the state is `root`
  unfold StateInv at hinv
  cases hst : acc.st with
  | all => simp only [hst] at hinv; omega
  | empty => simp only [hst] at hinv; omega
  | root =>
    simp only [hst] at hinv
    obtain ⟨hwin, hpos, hap, hab, hidx⟩ := hinv
    -- presence bit
    have hpres : (if k.isOptional = true then bitAt inp (ctx.presPos + acc.rootPres.length) else ok true)
        = ok p := by
      cases hk : k.isOptional with
      | false => simp only [Bool.false_eq_true, if_false]; rw [view_mandatory hv hk]
      | true =>
        simp only [if_true]
        obtain ⟨X, hX⟩ := L.pres
        rw [hP]
        apply hX.bit
        rw [F.rootPres, e1]
        simp [hk]
    rw [hpres]
    simp only [Outcome.bind_ok]
    -- the content
    have hbody : At inp pos body (rb ++ (extPart fin ++ post)) := by
      have := L.body
      rw [F.rootBody, e1] at this
      simp only [List.append_assoc] at this
      rw [hpos]
      exact this.right.left
    have hcontent : (if p = true then (dec t inp pos >>= fun y => ok (k.wrap y.fst, y.snd))
          else ok (k.absent, pos)) = ok (v, pos + body.length) := by
      cases p with
      | true =>
        simp only [if_true] at hb ⊢
        rw [iht x body (hvx rfl) hb inp pos _ hbody]
        simp only [Outcome.bind_ok, view_present hv]
      | false =>
        simp only [Bool.false_eq_true, if_false] at hb ⊢
        injection hb with hb; subst hb
        simp [(view_absent hv).1]
    rw [hcontent]
    simp only [Outcome.bind_ok]
    have eidx : (if k.isOptional = true then acc.rootPres.length + 1 else acc.rootPres.length)
        = acc1.rootPres.length := by
      rw [e1]; cases k.isOptional <;> simp
    rw [eidx]
    have hinv1 : StateInv acc1 fin B (rootLeft - 1) ctx addIdx (pos + body.length) := by
      unfold StateInv
      rw [e1]
      simp only [hst]
      exact ⟨hwin, by simp only [List.length_append]; omega, hap, hab, hidx⟩
    rw [ihr acc1 ctx addIdx _ henc hP hext hinv1]
    rfl

end Asn1Verif.Uper
