import Asn1Verif.Uper.RoundTripSeqFrame
/-
  C01 — SEQUENCE / SET, reader side.  The input holds, from the position behind the extension bit,
    rootPres ++ rootBody ++ [ small(n−1) ++ addPres ++ addBody ]      (`SeqLayout`)
  of the FINAL accumulator `fin` of the writer.  `decFields` is followed along the writer's walk:
  `StateInv` ties the reader's cursor / bitmap window / indices to the writer's intermediate
  accumulator, by state of the extension machine.
-/
namespace Asn1Verif.Uper
open Asn1Verif Outcome Per

def ExtState.isAll : ExtState → Bool
  | .all => true
  | _ => false

theorem isAll_iff {s : ExtState} : s.isAll = true ↔ s = .all := by
  cases s <;> simp [ExtState.isAll]

/-- what follows the root part -/
def extPart (fin : SeqAcc) : Bits :=
  if fin.st.isAll then X691.small (fin.addPres.length - 1) ++ (fin.addPres ++ fin.addBody) else []

structure SeqLayout (inp : Bits) (fin : SeqAcc) (P B : Nat) (post : Bits) : Prop where
  pres : ∃ X, At inp P fin.rootPres X
  body : At inp B fin.rootBody (extPart fin ++ post)

/-- position of the addition bitmap, of the first open type, of the end -/
def winPos (fin : SeqAcc) (B : Nat) : Nat :=
  B + fin.rootBody.length + (X691.small (fin.addPres.length - 1)).length
def addPos (fin : SeqAcc) (B : Nat) : Nat := winPos fin B + fin.addPres.length
def endPos (fin : SeqAcc) (B : Nat) : Nat := B + fin.rootBody.length + (extPart fin).length

theorem At.take {inp : Bits} {pos : Nat} {a post : Bits} (h : At inp pos [] (a ++ post)) :
    At inp pos a post := ⟨by simpa using h.1, h.2⟩

theorem layout_ext {inp : Bits} {fin : SeqAcc} {P B : Nat} {post : Bits} (L : SeqLayout inp fin P B post)
    (hall : fin.st = .all) :
    At inp (B + fin.rootBody.length) (X691.small (fin.addPres.length - 1))
        (fin.addPres ++ (fin.addBody ++ post)) ∧
      At inp (winPos fin B) fin.addPres (fin.addBody ++ post) ∧
      At inp (addPos fin B) fin.addBody post ∧
      endPos fin B = addPos fin B + fin.addBody.length := by
  have h0 := L.body.skip
  have he : extPart fin = X691.small (fin.addPres.length - 1) ++ (fin.addPres ++ fin.addBody) := by
    simp [extPart, hall, ExtState.isAll]
  rw [he] at h0
  simp only [List.append_assoc] at h0
  have h1 : At inp (B + fin.rootBody.length) (X691.small (fin.addPres.length - 1))
      (fin.addPres ++ (fin.addBody ++ post)) := h0.take
  have h2 : At inp (winPos fin B) fin.addPres (fin.addBody ++ post) := h1.skip.take
  have h3 : At inp (addPos fin B) fin.addBody post := h2.skip.take
  refine ⟨h1, h2, h3, ?_⟩
  simp only [endPos, addPos, winPos, he, List.length_append]
  omega

theorem layout_noext {fin : SeqAcc} {B : Nat} (hall : fin.st ≠ .all) :
    endPos fin B = B + fin.rootBody.length := by
  have : fin.st.isAll = false := by
    cases h : fin.st <;> simp_all [ExtState.isAll]
  simp [endPos, extPart, this]

def StateInv (acc fin : SeqAcc) (B rootLeft : Nat) (ctx : SeqCtx) (addIdx pos : Nat) : Prop :=
  match acc.st with
  | .all => rootLeft = 0 ∧ ctx.addWin = some (winPos fin B, fin.addPres.length) ∧
      addIdx = acc.addPres.length ∧ pos = addPos fin B + acc.addBody.length
  | .root => ctx.addWin = none ∧ pos = B + acc.rootBody.length ∧ acc.addPres = [] ∧
      acc.addBody = [] ∧ addIdx = 0
  | .empty => ctx.addWin = none ∧ pos = B + acc.rootBody.length ∧ rootLeft = 0

/-- the continuation property: for a fixed final accumulator `fin` of the writer and a fixed input,
    the reader on the components `rfs` follows the writer on `wfs` from ANY intermediate state and
    returns `rvs`, ending behind the whole SEQUENCE.  (C01: `rfs = wfs`, `rvs = wvs`; C05: one of the
    lists carries extension additions the other does not know.) -/
def Cont (wfs : Fields) (wvs : Vals) (rfs : Fields) (rvs : Vals) (rootLeft : Nat) (fin : SeqAcc)
    (inp : Bits) (P B : Nat) : Prop :=
  ∀ (acc : SeqAcc) (ctx : SeqCtx) (addIdx pos : Nat),
    encFields wfs wvs rootLeft acc = ok fin → ctx.presPos = P → ctx.extBit = fin.st.isAll →
    StateInv acc fin B rootLeft ctx addIdx pos →
    decFields rfs rootLeft acc.rootPres.length addIdx ctx inp pos = ok (rvs, endPos fin B)

/-- the statement for a component list -/
def FieldsRT (fs : Fields) : Prop :=
  ∀ (vs : Vals) (rootLeft : Nat) (fin : SeqAcc) (inp : Bits) (P B : Nat) (post : Bits),
    fs.rtOk rootLeft = true → valOkFields fs vs rootLeft = true → fs.length ≤ U64_MAX →
    SeqLayout inp fin P B post → Cont fs vs fs vs rootLeft fin inp P B

theorem skipUnknown_at_end (win nRead : Nat) (inp : Bits) (pos : Nat) :
    skipUnknown win nRead nRead inp pos = ok ((), pos) := by
  rw [skipUnknown]
  simp

/-- both sides at the end of their lists -/
theorem cont_nil (rootLeft : Nat) (fin : SeqAcc) (inp : Bits) (P B : Nat) (post : Bits)
    (L : SeqLayout inp fin P B post) (vs : Vals) : Cont .nil vs .nil vs rootLeft fin inp P B := by
  intro acc ctx addIdx pos henc _ hext hinv
  cases vs with
  | cons v vs => simp [encFields] at henc
  | nil =>
    simp only [encFields] at henc
    injection henc with henc; subst henc
    simp only [decFields]
    unfold StateInv at hinv
    cases hst : acc.st with
    | all =>
      simp only [hst] at hinv
      obtain ⟨_, hwin, hidx, hpos⟩ := hinv
      have hx : ctx.extBit = true := by rw [hext, hst]; rfl
      simp only [hx, if_true, hwin, Outcome.bind_ok, hidx, skipUnknown_at_end]
      rw [hpos, (layout_ext L hst).2.2.2]
    | root =>
      simp only [hst] at hinv
      have hx : ctx.extBit = false := by rw [hext, hst]; rfl
      simp only [hx, Bool.false_eq_true, if_false]
      rw [hinv.2.1, layout_noext (by rw [hst]; intro h; cases h)]
    | empty =>
      simp only [hst] at hinv
      have hx : ctx.extBit = false := by rw [hext, hst]; rfl
      simp only [hx, Bool.false_eq_true, if_false]
      rw [hinv.2.1, layout_noext (by rw [hst]; intro h; cases h)]

theorem fieldsRT_nil : FieldsRT .nil := by
  intro vs rootLeft fin inp P B post _ _ _ L
  exact cont_nil rootLeft fin inp P B post L vs

end Asn1Verif.Uper
