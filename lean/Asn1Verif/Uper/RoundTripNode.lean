import Asn1Verif.Uper.RoundTripStr
/-
  C01 — round trip of the composite nodes from the induction hypotheses of their children:
  SEQUENCE OF, CHOICE.  (SEQUENCE / SET: `RoundTripSeq.lean`.)
-/
namespace Asn1Verif.Uper
open Asn1Verif Outcome Per

/-- the statement of the round trip for one encoder/decoder pair -/
def RT (f : Val → Outcome Bits) (r : RdP Val) (p : Val → Bool) : Prop :=
  ∀ v bits, p v = true → f v = ok bits → ∀ inp pos post, At inp pos bits post →
    r inp pos = ok (v, pos + bits.length)

theorem rt_list (f : Val → Outcome Bits) (r : RdP Val) (p : Val → Bool) (ih : RT f r p) :
    ∀ (vs : Vals) (body : Bits), allVals p vs = true → encListWith f vs = ok body →
      ∀ inp pos post, At inp pos body post →
        decListWith r vs.length inp pos = ok (vs, pos + body.length)
  | .nil, body, _, h, inp, pos, post, _ => by
    simp only [encListWith] at h
    injection h with h; subst h
    simp [Vals.length, decListWith]
  | .cons v vs, body, hp, h, inp, pos, post, hat => by
    simp only [allVals, Bool.and_eq_true] at hp
    simp only [encListWith] at h
    obtain ⟨a, ha, h⟩ := bind_ok_elim h
    obtain ⟨b, hb, h⟩ := bind_ok_elim h
    injection h with h; subst h
    simp only [Vals.length, decListWith]
    rw [ih v a hp.1 ha inp pos _ hat.left]
    simp only [Outcome.bind_ok]
    rw [rt_list f r p ih vs b hp.2 hb inp _ post hat.right]
    simp only [Outcome.bind_ok, List.length_append, Nat.add_assoc]

theorem rt_seqOf (min max : Option Nat) (ext : Bool) (elem : Ty) (v : Val) (bits : Bits)
    (hv : valOk (.seqOf min max ext elem) v = true)
    (ih : RT (enc elem) (dec elem) (valOk elem))
    (h : enc (.seqOf min max ext elem) v = ok bits) (inp : Bits) (pos : Nat) (post : Bits)
    (hat : At inp pos bits post) :
    dec (.seqOf min max ext elem) inp pos = ok (v, pos + bits.length) := by
  cases v <;> try (simp [enc] at h; done)
  rename_i vs
  simp only [valOk, Bool.and_eq_true, decide_eq_true_eq] at hv
  simp only [enc] at h
  obtain ⟨hdr, hh, h⟩ := bind_ok_elim h
  obtain ⟨body, hb, h⟩ := bind_ok_elim h
  injection h with h; subst h
  obtain ⟨isExt, p0, e1, e2, hat'⟩ := extLen_rt ext min max I64MAXu vs.length hdr hh hv.1 inp pos _ post hat
  simp only [dec]
  rw [e1]
  simp only [Outcome.bind_ok]
  rw [e2]
  simp only [Outcome.bind_ok]
  rw [rt_list (enc elem) (dec elem) (valOk elem) ih vs body hv.2 hb inp _ post hat']
  simp only [Outcome.bind_ok, List.length_append, Nat.add_assoc]

/-- CHOICE from the statement for its alternatives -/
theorem rt_choice (std total : Nat) (ext : Bool) (alts : Fields) (v : Val) (bits : Bits)
    (ht : std ≤ U64_MAX) (hv : valOk (.choice std total ext alts) v = true)
    (ih : ∀ i, RT (encAlt alts i) (decAlt alts i) (valOkAlt alts i))
    (h : enc (.choice std total ext alts) v = ok bits) (inp : Bits) (pos : Nat) (post : Bits)
    (hat : At inp pos bits post) :
    dec (.choice std total ext alts) inp pos = ok (v, pos + bits.length) := by
  cases v <;> try (simp [enc] at h; done)
  rename_i i x
  simp only [valOk, Bool.and_eq_true, Bool.or_eq_true, decide_eq_true_eq] at hv
  obtain ⟨⟨⟨hit, hi64⟩, hva⟩, hopen⟩ := hv
  simp only [enc] at h
  obtain ⟨idx, hi, h⟩ := bind_ok_elim h
  obtain ⟨content, hcn, h⟩ := bind_ok_elim h
  have hadm : i < std ∨ ext = true := by
    by_cases c : i < std
    · exact Or.inl c
    · cases ext with
      | true => exact Or.inr rfl
      | false => rw [wIndex_err std i (by omega)] at hi; cases hi
  have hb : idx = X691.index std ext i := by
    rcases hadm with c | c
    · rw [wIndex_root std ext i c] at hi; injection hi with hi; exact hi.symm
    · subst c
      by_cases c : i < std
      · rw [wIndex_root std true i c] at hi; injection hi with hi; exact hi.symm
      · rw [wIndex_ext std i (by omega) hi64] at hi; injection hi with hi; exact hi.symm
  subst hb
  simp only [dec]
  by_cases c : i < std
  · have : ¬ i ≥ std := by omega
    simp only [this, if_false] at h
    injection h with h; subst h
    rw [hat.left.lift _ _ (rIndex_rt std ext i _ hadm ht hi64)]
    simp only [Outcome.bind_ok, this, if_false]
    rw [ih i x content hva hcn inp _ post hat.right]
    simp only [Outcome.bind_ok, List.length_append, Nat.add_assoc]
  · have hge : i ≥ std := by omega
    have hnt : ¬ i ≥ total := by omega
    simp only [hge, if_true] at h
    obtain ⟨o, ho, h⟩ := bind_ok_elim h
    injection h with h; subst h
    have hl : (openOctets content).length < 16384 := by
      rcases hopen with hh | hh
      · exact absurd hh c
      · simpa [openOkC, hcn] using hh
    rw [hat.left.lift _ _ (rIndex_rt std ext i _ hadm ht hi64)]
    simp only [Outcome.bind_ok, hge, if_true]
    obtain ⟨n, p1, h1, h2⟩ := open_at (decAlt alts i) inp _ content post o x hat.right ho hl
      (fun pos' post' hat' => ih i x content hva hcn inp pos' post' hat')
    rw [h1]
    simp only [Outcome.bind_ok, hnt, if_false]
    rw [h2]
    simp only [Outcome.bind_ok, List.length_append, Nat.add_assoc]

end Asn1Verif.Uper
