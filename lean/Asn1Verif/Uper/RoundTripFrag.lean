import Asn1Verif.Uper.RoundTrip
/-
  C01 / C02 — finding F-frag, symbolically (no evaluation of a 16K-element value):
  `SEQUENCE OF BOOLEAN` with `n ≥ 16K` elements.  The writer emits the fragment header
  `11 0000mm` (m = min(n / 16K, 4)) followed by ALL `n` elements; the reader takes `m · 16K` for
  the number of elements.  Whenever `n ≠ m · 16K` the value read back — if any — is not the value
  written; and the bits are 16 + … shorter than the X.691 encoding (which carries a second length
  determinant).
-/
namespace Asn1Verif.Uper
open Asn1Verif Outcome Per

/-- `n` booleans -/
def boolVals : List Bool → Vals
  | [] => .nil
  | b :: r => .cons (.bool b) (boolVals r)

theorem boolVals_length : ∀ (bs : List Bool), (boolVals bs).length = bs.length
  | [] => rfl
  | b :: r => by simp [boolVals, Vals.length, boolVals_length r]

theorem encList_bools : ∀ (bs : List Bool), encListWith (enc .bool) (boolVals bs) = ok bs
  | [] => rfl
  | b :: r => by
    simp only [boolVals, encListWith]
    rw [encList_bools r]
    rfl

theorem allVals_bools (p : Val → Bool) (hp : ∀ b, p (.bool b) = true) :
    ∀ (bs : List Bool), allVals p (boolVals bs) = true
  | [] => rfl
  | b :: r => by simp [boolVals, allVals, hp b, allVals_bools p hp r]

/-- the writer accepts any number of booleans up to `i64::MAX` and writes them all behind ONE
    length determinant -/
theorem enc_bools (bs : List Bool) (hn : bs.length ≤ I64MAXu) :
    enc (.seqOf none none false .bool) (.list (boolVals bs))
      = ok ((X691.lenU bs.length).1 ++ bs) := by
  have hno : ¬ (bs.length < 0 ∨ bs.length > I64MAXu) := by omega
  have hw : wExtLen false none none I64MAXu bs.length = ok (X691.lenU bs.length).1 := by
    simp [wExtLen, wLen_unc, hn]
  have e : enc (.seqOf none none false .bool) (.list (boolVals bs))
      = (wExtLen false none none I64MAXu (boolVals bs).length >>= fun hdr =>
          encListWith (enc .bool) (boolVals bs) >>= fun body => ok (hdr ++ body)) := by
    rw [enc]
  rw [e, boolVals_length, hw, encList_bools]
  rfl

theorem decList_length (r : RdP Val) : ∀ (n : Nat) (inp : Bits) (pos : Nat) (vs : Vals) (p : Nat),
    decListWith r n inp pos = ok (vs, p) → vs.length = n
  | 0, inp, pos, vs, p, h => by
    simp only [decListWith] at h
    injection h with h; injection h with h _; subst h; rfl
  | n + 1, inp, pos, vs, p, h => by
    simp only [decListWith] at h
    obtain ⟨a, ha, h⟩ := bind_ok_elim h
    obtain ⟨b, hb, h⟩ := bind_ok_elim h
    injection h with h; injection h with h _; subst h
    simp only [Vals.length, decList_length r n inp a.2 b.1 b.2 (by rw [← hb])]

/-- F-frag: the value read back has `m · 16K` elements -/
theorem frag_ignored_read (bs : List Bool) (hn : 16384 ≤ bs.length)
    (hne : bs.length ≠ min (bs.length / 16384) 4 * 16384) (pre post : Bits) (p : Nat) :
    dec (.seqOf none none false .bool)
        (pre ++ ((X691.lenU bs.length).1 ++ bs) ++ post) pre.length
      ≠ ok (.list (boolVals bs), p) := by
  intro h
  have hat : At (pre ++ ((X691.lenU bs.length).1 ++ bs) ++ post) pre.length
      ((X691.lenU bs.length).1 ++ bs) post := by
    rw [List.append_assoc]; exact At.of_append _ _ _
  simp only [dec, Bool.false_eq_true, if_false, Outcome.bind_ok] at h
  rw [hat.left.lift _ _ (rLen_unc bs.length (bs ++ post)), lenU_snd_ge hn] at h
  simp only [Outcome.bind_ok, Option.getD_some] at h
  obtain ⟨a, ha, h⟩ := bind_ok_elim h
  injection h with h; injection h with h _
  injection h with h
  have := decList_length _ _ _ _ a.1 a.2 (by rw [← ha])
  rw [h, boolVals_length] at this
  exact hne this

end Asn1Verif.Uper
