import Asn1Verif.Uper.SeqLemmas
/-
  L2 — lemmas about constraint violations in the UPER writer mirror (`enc` of `Uper/Impl.lean`):
  which values are refused with which error, that a refusal inside a component / element /
  alternative comes through, and what the extension form of an out-of-root value looks like.
  Used by `Props/C06.lean`.
-/
namespace Asn1Verif.Uper
open Asn1Verif Outcome Per

/-! ### INTEGER -/

theorem enc_int_rejects {min max : Option Int} {w : Nat} {s : Bool} {v : Int}
    (hb : min.isSome = true ∨ max.isSome = true)
    (hv : v < min.getD 0 ∨ v > max.getD I64_MAX) :
    enc (.int min max false w s) (.int v) = err .valueNotInRange := by
  have hu : (min.isNone && max.isNone) = false := by
    cases min <;> cases max <;> simp at hb ⊢
  simp [enc, hu, wConstrained, hv]

/-- the unconstrained whole number (X.691 11.8) can always be written -/
theorem wUnconstrained_total (v : Int) : ∃ b, wUnconstrained v = ok b := by
  unfold wUnconstrained
  generalize hp : (if v < 0 then lo64 v - 1 else lz64 (i64AsU64 v) - 1) / 8 = p
  have hp7 : p ≤ 7 := by
    subst hp
    unfold lo64 lz64
    split <;> omega
  have h1 : 8 - p ≤ 127 := by omega
  have h2 : ¬ ((8 - p) * 8 = 0 ∨ (8 - p) * 8 > 64) := by omega
  simp [wLen_unc_small h1, w2s, h2]

theorem enc_int_ext_out {min max : Option Int} {w : Nat} {s : Bool} {v : Int}
    (hv : v < min.getD 0 ∨ v > max.getD I64_MAX) :
    ∃ b, wUnconstrained v = ok b ∧ enc (.int min max true w s) (.int v) = ok (true :: b) := by
  obtain ⟨b, hb⟩ := wUnconstrained_total v
  exact ⟨b, hb, by simp [enc, hv, hb]⟩

/-- inside the root: bit `0`, then the constrained whole number of X.691 11.5 -/
theorem enc_int_ext_in {min max : Option Int} {w : Nat} {s : Bool} {v : Int}
    (h1 : min.getD 0 ≤ v) (h2 : v ≤ max.getD I64_MAX) :
    enc (.int min max true w s) (.int v) =
      ok (false :: X691.constrained (min.getD 0) (max.getD I64_MAX) v) := by
  have hv : ¬ (v < min.getD 0 ∨ v > max.getD I64_MAX) := by omega
  simp [enc, hv, Per.wConstrained_ok _ _ _ h1 h2]

/-- outside the root, for an `i64`: bit `1`, then the unconstrained whole number of X.691 11.8 -/
theorem enc_int_ext_out_x691 {min max : Option Int} {w : Nat} {s : Bool} {v : Int}
    (hv : v < min.getD 0 ∨ v > max.getD I64_MAX) (hl : I64_MIN ≤ v) (hu : v ≤ I64_MAX) :
    enc (.int min max true w s) (.int v) = ok (true :: X691.unconstrained v) := by
  simp [enc, hv, Per.wUnconstrained_ok v hl hu]

/-! ### SIZE -/

theorem wExtLen_rejects {min max : Option Nat} {ul len : Nat}
    (h : len < min.getD 0 ∨ len > max.getD ul) :
    wExtLen false min max ul len = err .sizeNotInRange := by
  simp [wExtLen, h]

/-- extensible, outside the root: bit `1`, then the unconstrained length determinant -/
theorem wExtLen_ext_out {min max : Option Nat} {ul len : Nat}
    (h : len < min.getD 0 ∨ len > max.getD ul) :
    ∃ l f, wLen none none len = ok (l, f) ∧ wExtLen true min max ul len = ok (true :: l) := by
  obtain ⟨l, f, hl, _⟩ := wLen_unc_ok len
  exact ⟨l, f, hl, by simp [wExtLen, h, hl]⟩

theorem enc_utf8_size_rejects {min max : Option Nat} {bytes : List Byte} {chars : List Nat}
    (hd : utf8Decode bytes = some chars)
    (h : chars.length < min.getD 0 ∨ chars.length > max.getD U64_MAX) :
    enc (.str .utf8 min max false) (.str bytes) = err .sizeNotInRange := by
  simp [enc, hd, h]

theorem enc_str_size_rejects {cs : Charset} {min max : Option Nat} {bytes : List Byte}
    {chars : List Nat} (hcs : cs ≠ .utf8) (hd : utf8Decode bytes = some chars)
    (hval : chars.all cs.isValid = true)
    (h : chars.length < min.getD 0 ∨ chars.length > max.getD U64_MAX) :
    enc (.str cs min max false) (.str bytes) = err .sizeNotInRange := by
  have hany : chars.any (fun c => !cs.isValid c) = false := by
    rw [List.any_eq_false]
    intro c hc
    simpa using List.all_eq_true.1 hval c hc
  cases cs <;> first | exact absurd rfl hcs | simp [enc, hd, hany, wExtLen_rejects h]

theorem enc_oct_size_rejects {min max : Option Nat} {bytes : List Byte}
    (h : bytes.length < min.getD 0 ∨ bytes.length > max.getD I64MAXu) :
    enc (.oct min max false) (.oct bytes) = err .sizeNotInRange := by
  simp [enc, wOctets, h]

theorem enc_bits_size_rejects {min max : Option Nat} {bs : List Bool}
    (h : bs.length < min.getD 0 ∨ bs.length > max.getD I64MAXu) :
    enc (.bits min max false) (.bits bs) = err .sizeNotInRange := by
  simp [enc, wBitString, h]

theorem enc_seqOf_size_rejects {min max : Option Nat} {elem : Ty} {vs : Vals}
    (h : vs.length < min.getD 0 ∨ vs.length > max.getD I64MAXu) :
    enc (.seqOf min max false elem) (.list vs) = err .sizeNotInRange := by
  simp [enc, wExtLen_rejects h]

/-! ### permitted alphabet -/

theorem enc_str_alphabet_rejects {cs : Charset} {min max : Option Nat} {ext : Bool}
    {bytes : List Byte} {chars : List Nat} (hcs : cs ≠ .utf8) (hd : utf8Decode bytes = some chars)
    (hbad : chars.any (fun c => !cs.isValid c) = true) :
    enc (.str cs min max ext) (.str bytes) = err .invalidString := by
  cases cs <;> first | exact absurd rfl hcs | simp [enc, hd, hbad]

/-! ### ENUMERATED / CHOICE index -/

theorem enc_enum_rejects {std total i : Nat} (h : i ≥ std) :
    enc (.enum std total false) (.enum i) = err .invalidChoiceIndex := by
  simp [enc, Per.wIndex_err _ _ h]

theorem enc_choice_rejects {std total i : Nat} {alts : Fields} {x : Val} (h : i ≥ std) :
    enc (.choice std total false alts) (.choice i x) = err .invalidChoiceIndex := by
  simp [enc, Per.wIndex_err _ _ h]

/-- an index outside the root of an extensible type: bit `1`, normally small number `i − std` -/
theorem wIndex_ext_out {std i : Nat} (h : i ≥ std) :
    ∃ b, wSmall (i - std) = ok b ∧ wIndex std true i = ok (true :: b) := by
  obtain ⟨b, hb⟩ := wSmall_total (i - std)
  exact ⟨b, hb, by simp [wIndex, h, hb]⟩

/-! ### a refusal inside comes through: SEQUENCE / SET -/

/-- root component `i` fails with `e`, everything before it is fine ⇒ the walk fails with `e` -/
theorem encFields_first_err : ∀ (fields : Fields) (vs : Vals) (rl : Nat) (acc : SeqAcc) (i : Nat)
    (k : Kind) (t : Ty) (v : Val) (e : ErrKind),
    i < rl → fields.get? i = some (k, t) → vs.get? i = some v → presentOf k v = some true →
    enc t (contentOf k v) = err e → PrefixFine fields vs rl i →
    encFields fields vs rl acc = err e
  | .nil, vs, rl, acc, i, k, t, v, e, _, hf, _, _, _, _ => by simp [Fields.get?] at hf
  | .cons k0 t0 rest, .nil, rl, acc, i, k, t, v, e, _, _, hv, _, _, _ => by simp [Vals.get?] at hv
  | .cons k0 t0 rest, .cons v0 vs, 0, acc, i, k, t, v, e, hi, _, _, _, _, _ => by omega
  | .cons k0 t0 rest, .cons v0 vs, n + 1, acc, 0, k, t, v, e, _, hf, hv, hp, he, _ => by
    simp only [Fields.get?, Option.some.injEq, Prod.mk.injEq] at hf
    simp only [Vals.get?, Option.some.injEq] at hv
    obtain ⟨rfl, rfl⟩ := hf
    subst hv
    rw [encFields_cons, hp]
    simp [step_root_eq, he]
  | .cons k0 t0 rest, .cons v0 vs, n + 1, acc, i + 1, k, t, v, e, hi, hf, hv, hp, he, hall => by
    obtain ⟨v', p, h1, h2, h3⟩ := hall 0 (by omega) k0 t0 rfl
    simp only [Vals.get?, Option.some.injEq] at h1
    subst h1
    have hb : ∃ body, (if p = true then enc t0 (contentOf k0 v0) else ok []) = ok body := by
      cases p with
      | false => exact ⟨[], rfl⟩
      | true =>
        obtain ⟨b, hb⟩ := h3 rfl (by omega)
        exact ⟨b, by simpa using hb⟩
    obtain ⟨body, hb⟩ := hb
    rw [encFields_cons, h2]
    simp only [gt_iff_lt, Nat.zero_lt_succ, decide_true, step_root_eq, hb, bind_ok]
    exact encFields_first_err rest vs (n + 1 - 1) _ i k t v e (by omega)
      (by simpa [Fields.get?] using hf) (by simpa [Vals.get?] using hv) hp he hall.tail

theorem enc_seq_component_err {so fc : Nat} {ea : Option Nat} {fields : Fields} {vs : Vals}
    {i : Nat} {k : Kind} {t : Ty} {v : Val} {e : ErrKind}
    (hi : i < rootCountOf ea fields) (hf : fields.get? i = some (k, t)) (hv : vs.get? i = some v)
    (hp : presentOf k v = some true) (he : enc t (contentOf k v) = err e)
    (hall : PrefixFine fields vs (rootCountOf ea fields) i) :
    enc (.seq so fc ea fields) (.seq vs) = err e := by
  rw [enc_seq, encFields_first_err fields vs _ {} i k t v e hi hf hv hp he hall]
  rfl

/-- a successful SEQUENCE encoding: every present component (root or addition) has encoded -/
theorem enc_seq_ok_component {so fc : Nat} {ea : Option Nat} {fields : Fields} {vs : Vals}
    {bits : Bits} (h : enc (.seq so fc ea fields) (.seq vs) = ok bits)
    {i : Nat} {k : Kind} {t : Ty} (hf : fields.get? i = some (k, t)) :
    ∃ v, vs.get? i = some v ∧ ∃ p, presentOf k v = some p ∧
      (p = true → ∃ b, enc t (contentOf k v) = ok b) := by
  rw [enc_seq] at h
  obtain ⟨acc, ha, _⟩ := bind_eq_ok.1 h
  obtain ⟨rb, ab, hl, _⟩ := encFields_init ha
  obtain ⟨v, hv, hb⟩ := hl.get hf
  refine ⟨v, hv, ?_⟩
  split at hb
  · obtain ⟨b, _, hb⟩ := hb
    unfold RootBody at hb
    split at hb
    · rename_i hp; exact ⟨true, hp, fun _ => ⟨b, hb⟩⟩
    · rename_i hp; exact ⟨false, hp, fun h => by cases h⟩
    · exact absurd hb id
  · obtain ⟨b, _, hb⟩ := hb
    unfold AddBody at hb
    split at hb
    · rename_i hp; obtain ⟨c, hc, _⟩ := hb; exact ⟨true, hp, fun _ => ⟨c, hc⟩⟩
    · rename_i hp; exact ⟨false, hp, fun h => by cases h⟩
    · exact absurd hb id

/-! ### … SEQUENCE OF / SET OF -/

/-- element `i` fails with `e`, the elements before it encode ⇒ the element loop fails with `e` -/
theorem encListWith_first_err (f : Val → Outcome Bits) : ∀ (vs : Vals) (i : Nat) (v : Val)
    (e : ErrKind), vs.get? i = some v → f v = err e →
    (∀ j, j < i → ∃ vj b, vs.get? j = some vj ∧ f vj = ok b) →
    encListWith f vs = err e
  | .nil, i, v, e, hv, _, _ => by simp [Vals.get?] at hv
  | .cons v0 vs, 0, v, e, hv, he, _ => by
    simp only [Vals.get?, Option.some.injEq] at hv
    subst hv
    simp [encListWith, he]
  | .cons v0 vs, i + 1, v, e, hv, he, hall => by
    obtain ⟨vj, b, h1, h2⟩ := hall 0 (by omega)
    simp only [Vals.get?, Option.some.injEq] at h1
    subst h1
    have := encListWith_first_err f vs i v e (by simpa [Vals.get?] using hv) he (by
      intro j hj
      obtain ⟨vj, b, h1, h2⟩ := hall (j + 1) (by omega)
      exact ⟨vj, b, by simpa [Vals.get?] using h1, h2⟩)
    simp [encListWith, h2, this]

/-- a successful element loop: every element has encoded -/
theorem encListWith_ok_elem (f : Val → Outcome Bits) : ∀ (vs : Vals) (body : Bits),
    encListWith f vs = ok body → ∀ i v, vs.get? i = some v → ∃ b, f v = ok b
  | .nil, _, _, i, v, hv => by simp [Vals.get?] at hv
  | .cons v0 vs, body, h, i, v, hv => by
    simp only [encListWith] at h
    obtain ⟨a, ha, h⟩ := bind_eq_ok.1 h
    obtain ⟨b, hb, _⟩ := bind_eq_ok.1 h
    cases i with
    | zero =>
      simp only [Vals.get?, Option.some.injEq] at hv
      subst hv
      exact ⟨a, ha⟩
    | succ i => exact encListWith_ok_elem f vs b hb i v (by simpa [Vals.get?] using hv)

/-- a length inside its bounds can always be written -/
theorem wLen_ok_in_range {lb ub : Option Nat} {v : Nat} (h1 : lb.getD 0 ≤ v)
    (h2 : v ≤ ub.getD I64MAXu) : ∃ r, wLen lb ub v = ok r := by
  have hn : ∀ (l u : Option Nat), l.getD 0 ≤ v → v ≤ u.getD I64MAXu →
      ∃ b, wNNBIc l u v = ok b := by
    intro l u g1 g2
    have : ¬ (v < l.getD 0 ∨ v > u.getD I64MAXu) := by omega
    simp [wNNBIc, this]
  unfold wLen
  simp only
  split
  · split
    · exact ⟨_, rfl⟩
    · rw [if_neg (by omega)]
      obtain ⟨b, hb⟩ := hn lb ub h1 h2
      rw [hb]; exact ⟨_, rfl⟩
  · split
    · obtain ⟨b, hb⟩ := hn lb ub h1 h2
      rw [hb]; exact ⟨_, rfl⟩
    · split
      · rename_i h3
        obtain ⟨b, hb⟩ := hn none (some Consts.LENGTH_127) (by simp) (by simpa using h3)
        rw [hb]; exact ⟨_, rfl⟩
      · split
        · rename_i h3
          obtain ⟨b, hb⟩ := hn none (some (Consts.LENGTH_16K - 1)) (by simp)
            (by simp only [Option.getD_some]; omega)
          rw [hb]; exact ⟨_, rfl⟩
        · exact ⟨_, rfl⟩

/-- the size header can be written iff the size is inside the bounds or the constraint extensible -/
theorem wExtLen_ok {ext : Bool} {min max : Option Nat} {ul len : Nat} (hul : ul ≤ I64MAXu)
    (h : ext = true ∨ (min.getD 0 ≤ len ∧ len ≤ max.getD ul)) :
    ∃ hdr, wExtLen ext min max ul len = ok hdr := by
  by_cases ho : len < min.getD 0 ∨ len > max.getD ul
  · have hx : ext = true := by
      rcases h with h | h
      · exact h
      · omega
    subst hx
    obtain ⟨l, _, _, hl⟩ := wExtLen_ext_out ho
    exact ⟨_, hl⟩
  · have h2 : len ≤ max.getD I64MAXu := by
      cases max with
      | none => simp only [Option.getD_none] at ho ⊢; omega
      | some m => simp only [Option.getD_some] at ho ⊢; omega
    obtain ⟨r, hr⟩ := wLen_ok_in_range (lb := min) (ub := max) (v := len) (by omega) h2
    refine ⟨(if ext then [false] else []) ++ r.1, ?_⟩
    simp [wExtLen, ho, hr]

theorem enc_seqOf_elem_err {min max : Option Nat} {ext : Bool} {elem : Ty} {vs : Vals}
    {i : Nat} {v : Val} {e : ErrKind}
    (hsize : ext = true ∨ (min.getD 0 ≤ vs.length ∧ vs.length ≤ max.getD I64MAXu))
    (hv : vs.get? i = some v) (he : enc elem v = err e)
    (hall : ∀ j, j < i → ∃ vj b, vs.get? j = some vj ∧ enc elem vj = ok b) :
    enc (.seqOf min max ext elem) (.list vs) = err e := by
  obtain ⟨hdr, hh⟩ := wExtLen_ok (Nat.le_refl _) hsize
  simp [enc, hh, encListWith_first_err (enc elem) vs i v e hv he hall]

theorem enc_seqOf_ok_elem {min max : Option Nat} {ext : Bool} {elem : Ty} {vs : Vals}
    {bits : Bits} (h : enc (.seqOf min max ext elem) (.list vs) = ok bits)
    {i : Nat} {v : Val} (hv : vs.get? i = some v) : ∃ b, enc elem v = ok b := by
  simp only [enc] at h
  obtain ⟨_, _, h⟩ := bind_eq_ok.1 h
  obtain ⟨body, hb, _⟩ := bind_eq_ok.1 h
  exact encListWith_ok_elem _ vs body hb i v hv

/-! ### … CHOICE -/

theorem encAlt_eq : ∀ {alts : Fields} {i : Nat} {k : Kind} {t : Ty} (x : Val),
    alts.get? i = some (k, t) → encAlt alts i x = enc t x
  | .nil, i, k, t, x, h => by simp [Fields.get?] at h
  | .cons k0 t0 rest, 0, k, t, x, h => by
    simp only [Fields.get?, Option.some.injEq, Prod.mk.injEq] at h
    obtain ⟨_, rfl⟩ := h
    simp [encAlt]
  | .cons k0 t0 rest, i + 1, k, t, x, h => by
    simp only [encAlt]
    exact encAlt_eq x (by simpa [Fields.get?] using h)

theorem encAlt_none : ∀ {alts : Fields} {i : Nat} (x : Val),
    alts.get? i = none → encAlt alts i x = err .illTyped
  | .nil, i, x, _ => by simp [encAlt]
  | .cons k0 t0 rest, 0, x, h => by simp [Fields.get?] at h
  | .cons k0 t0 rest, i + 1, x, h => by
    simp only [encAlt]
    exact encAlt_none x (by simpa [Fields.get?] using h)

/-- the index of a permitted alternative can always be written -/
theorem wIndex_ok {std i : Nat} {ext : Bool} (h : i < std ∨ ext = true) :
    ∃ b, wIndex std ext i = ok b := by
  by_cases hi : i < std
  · exact ⟨_, Per.wIndex_root std ext i hi⟩
  · have hx : ext = true := by
      rcases h with h | h
      · exact absurd h hi
      · exact h
    subst hx
    obtain ⟨b, _, hb⟩ := wIndex_ext_out (std := std) (i := i) (by omega)
    exact ⟨_, hb⟩

theorem enc_choice_alt_err {std total : Nat} {ext : Bool} {alts : Fields} {i : Nat} {x : Val}
    {k : Kind} {t : Ty} {e : ErrKind} (hidx : i < std ∨ ext = true)
    (ha : alts.get? i = some (k, t)) (he : enc t x = err e) :
    enc (.choice std total ext alts) (.choice i x) = err e := by
  obtain ⟨b, hb⟩ := wIndex_ok (std := std) hidx
  simp [enc, hb, encAlt_eq x ha, he]

theorem enc_choice_ok_alt {std total : Nat} {ext : Bool} {alts : Fields} {i : Nat} {x : Val}
    {bits : Bits} (h : enc (.choice std total ext alts) (.choice i x) = ok bits) :
    ∃ k t c, alts.get? i = some (k, t) ∧ enc t x = ok c := by
  simp only [enc] at h
  obtain ⟨_, _, h⟩ := bind_eq_ok.1 h
  obtain ⟨c, hc, _⟩ := bind_eq_ok.1 h
  cases ha : alts.get? i with
  | none => rw [encAlt_none x ha] at hc; cases hc
  | some kt =>
    obtain ⟨k, t⟩ := kt
    rw [encAlt_eq x ha] at hc
    exact ⟨k, t, c, rfl, hc⟩

/-! ### extensible constraints: the extension form of an out-of-root value -/

theorem wBitFrag_ok (rest : Bits) : ∃ b, wBitFrag rest = ok b := by
  fun_induction wBitFrag rest with
  | case1 => exact ⟨_, rfl⟩
  | case2 => exact ⟨_, rfl⟩
  | case3 _ _ _ _ _ _ _ _ hx ih => obtain ⟨b, hb⟩ := ih; rw [hb] at hx; cases hx
  | case4 _ _ _ _ _ _ _ hx ih => obtain ⟨b, hb⟩ := ih; rw [hb] at hx; cases hx
  | case5 rest _ _ hx _ hfs =>
    obtain ⟨b, f, h1, h2⟩ := wLen_unc_ok rest.length
    rw [h1] at hx
    simp only [ok.injEq, Prod.mk.injEq] at hx
    obtain ⟨_, rfl⟩ := hx
    exact absurd h2 hfs
  | case6 rest _ hx => obtain ⟨b, f, h1, _⟩ := wLen_unc_ok rest.length; rw [h1] at hx; cases hx
  | case7 rest hx => obtain ⟨b, f, h1, _⟩ := wLen_unc_ok rest.length; rw [h1] at hx; cases hx

/-- OCTET STRING, extensible size, length outside the root: bit `1`, the unconstrained length
    determinant, the octets (the first fragment, then the further fragments) -/
theorem enc_oct_ext_out {min max : Option Nat} {bytes : List Byte}
    (h : bytes.length < min.getD 0 ∨ bytes.length > max.getD I64MAXu) :
    ∃ hdr f tail, wLen none none bytes.length = ok (hdr, f) ∧
      enc (.oct min max true) (.oct bytes) =
        ok (true :: hdr ++ bytesBits (bytes.take (f.getD bytes.length)) ++ tail) ∧
      (f = none → tail = []) := by
  obtain ⟨hdr, f, h1, h2⟩ := wLen_unc_ok bytes.length
  cases f with
  | none =>
    refine ⟨hdr, none, [], h1, ?_, fun _ => rfl⟩
    simp [enc, wOctets, h, h1]
  | some f =>
    obtain ⟨m, hm⟩ := wOctFrag_ok (bytes.drop f)
    simp only [Option.getD_some] at h2
    refine ⟨hdr, some f, m, h1, ?_, fun hc => by cases hc⟩
    simp [enc, wOctets, h, h1, h2, hm]

/-- BIT STRING likewise -/
theorem enc_bits_ext_out {min max : Option Nat} {bs : List Bool}
    (h : bs.length < min.getD 0 ∨ bs.length > max.getD I64MAXu) :
    ∃ hdr f tail, wLen none none bs.length = ok (hdr, f) ∧
      enc (.bits min max true) (.bits bs) =
        ok (true :: hdr ++ bs.take (f.getD bs.length) ++ tail) ∧
      (f = none → tail = []) := by
  obtain ⟨hdr, f, h1, h2⟩ := wLen_unc_ok bs.length
  cases f with
  | none =>
    refine ⟨hdr, none, [], h1, ?_, fun _ => rfl⟩
    simp [enc, wBitString, h, h1]
  | some f =>
    obtain ⟨m, hm⟩ := wBitFrag_ok (bs.drop f)
    simp only [Option.getD_some] at h2
    refine ⟨hdr, some f, m, h1, ?_, fun hc => by cases hc⟩
    simp [enc, wBitString, h, h1, h2, hm]

/-- restricted character string (valid characters), extensible size, length outside the root -/
theorem enc_str_ext_out {cs : Charset} {min max : Option Nat} {bytes : List Byte}
    {chars : List Nat} (hcs : cs ≠ .utf8) (hd : utf8Decode bytes = some chars)
    (hval : chars.all cs.isValid = true)
    (h : chars.length < min.getD 0 ∨ chars.length > max.getD U64_MAX) :
    ∃ l f, wLen none none chars.length = ok (l, f) ∧
      enc (.str cs min max true) (.str bytes) =
        ok (true :: l ++ (chars.map (charBits cs)).flatten) := by
  have hany : chars.any (fun c => !cs.isValid c) = false := by
    rw [List.any_eq_false]
    intro c hc
    simpa using List.all_eq_true.1 hval c hc
  obtain ⟨l, f, hl, hh⟩ := wExtLen_ext_out (ul := U64_MAX) h
  refine ⟨l, f, hl, ?_⟩
  cases cs <;> first | exact absurd rfl hcs | simp [enc, hd, hany, hh]

/-- SEQUENCE OF / SET OF, extensible size, length outside the root, elements encodable -/
theorem enc_seqOf_ext_out {min max : Option Nat} {elem : Ty} {vs : Vals} {body : Bits}
    (h : vs.length < min.getD 0 ∨ vs.length > max.getD I64MAXu)
    (hb : encListWith (enc elem) vs = ok body) :
    ∃ l f, wLen none none vs.length = ok (l, f) ∧
      enc (.seqOf min max true elem) (.list vs) = ok (true :: l ++ body) := by
  obtain ⟨l, f, hl, hh⟩ := wExtLen_ext_out (ul := I64MAXu) h
  exact ⟨l, f, hl, by simp [enc, hh, hb]⟩

/-- the size constraint of a UTF8String is not PER-visible: extensible or not, a value that is
    accepted is the unconstrained OCTET STRING of its UTF-8 bytes -/
theorem enc_utf8_ext {min max : Option Nat} {bytes : List Byte} {chars : List Nat}
    (hd : utf8Decode bytes = some chars) :
    enc (.str .utf8 min max true) (.str bytes) = wOctets none none false bytes := by
  simp [enc, hd]

theorem enc_enum_ext_out {std total i : Nat} (h : i ≥ std) :
    ∃ b, wSmall (i - std) = ok b ∧ enc (.enum std total true) (.enum i) = ok (true :: b) := by
  obtain ⟨b, hb, hw⟩ := wIndex_ext_out h
  exact ⟨b, hb, by simp [enc, hw]⟩

theorem enc_enum_root {std total i : Nat} (ext : Bool) (h : i < std) :
    enc (.enum std total ext) (.enum i) = ok (X691.index std ext i) := by
  simp [enc, Per.wIndex_root std ext i h]

/-- … for a `u64` index it is the index encoding of X.691 14.3 -/
theorem enc_enum_ext_out_x691 {std total i : Nat} (h : i ≥ std) (hi : i ≤ U64_MAX) :
    enc (.enum std total true) (.enum i) = ok (X691.index std true i) := by
  simp [enc, Per.wIndex_ext std i h hi]

/-- CHOICE, extensible, alternative outside the root: bit `1`, normally small index, the
    alternative as open type -/
theorem enc_choice_ext_out {std total i : Nat} {alts : Fields} {x : Val} {c o : Bits}
    (h : i ≥ std) (hc : encAlt alts i x = ok c) (ho : openType c = ok o) :
    ∃ b, wSmall (i - std) = ok b ∧
      enc (.choice std total true alts) (.choice i x) = ok (true :: b ++ o) := by
  obtain ⟨b, hb, hw⟩ := wIndex_ext_out h
  exact ⟨b, hb, by simp [enc, hw, hc, h, ho]⟩

theorem enc_choice_root {std total i : Nat} {alts : Fields} {x : Val} {c : Bits} (ext : Bool)
    (h : i < std) (hc : encAlt alts i x = ok c) :
    enc (.choice std total ext alts) (.choice i x) = ok (X691.index std ext i ++ c) := by
  have h1 : ¬ (i ≥ std) := by omega
  simp [enc, Per.wIndex_root std ext i h, hc, h1]

/-! ### a violation anywhere in the value tree -/

/-- `Violates t v`: somewhere in the value tree `v` of type `t` — at the top, in a present
    component of a SEQUENCE/SET, in an element of a SEQUENCE OF/SET OF, in the chosen alternative of
    a CHOICE, at any depth — a value lies outside a non-extensible constraint (INTEGER range, SIZE,
    ENUMERATED/CHOICE index) or a restricted string holds a character outside its alphabet. -/
inductive Violates : Ty → Val → Prop
  | int {min max : Option Int} {w : Nat} {s : Bool} {v : Int} :
      (min.isSome = true ∨ max.isSome = true) → (v < min.getD 0 ∨ v > max.getD I64_MAX) →
      Violates (.int min max false w s) (.int v)
  | utf8Size {min max : Option Nat} {bytes : List Byte} {chars : List Nat} :
      utf8Decode bytes = some chars →
      (chars.length < min.getD 0 ∨ chars.length > max.getD U64_MAX) →
      Violates (.str .utf8 min max false) (.str bytes)
  | strSize {cs : Charset} {min max : Option Nat} {bytes : List Byte} {chars : List Nat} :
      cs ≠ .utf8 → utf8Decode bytes = some chars →
      (chars.length < min.getD 0 ∨ chars.length > max.getD U64_MAX) →
      Violates (.str cs min max false) (.str bytes)
  | alphabet {cs : Charset} {min max : Option Nat} {ext : Bool} {bytes : List Byte}
      {chars : List Nat} :
      cs ≠ .utf8 → utf8Decode bytes = some chars → chars.any (fun c => !cs.isValid c) = true →
      Violates (.str cs min max ext) (.str bytes)
  | octSize {min max : Option Nat} {bytes : List Byte} :
      (bytes.length < min.getD 0 ∨ bytes.length > max.getD I64MAXu) →
      Violates (.oct min max false) (.oct bytes)
  | bitsSize {min max : Option Nat} {bs : List Bool} :
      (bs.length < min.getD 0 ∨ bs.length > max.getD I64MAXu) →
      Violates (.bits min max false) (.bits bs)
  | listSize {min max : Option Nat} {elem : Ty} {vs : Vals} :
      (vs.length < min.getD 0 ∨ vs.length > max.getD I64MAXu) →
      Violates (.seqOf min max false elem) (.list vs)
  | enumIdx {std total i : Nat} : i ≥ std → Violates (.enum std total false) (.enum i)
  | choiceIdx {std total i : Nat} {alts : Fields} {x : Val} :
      i ≥ std → Violates (.choice std total false alts) (.choice i x)
  | elem {min max : Option Nat} {ext : Bool} {elem : Ty} {vs : Vals} {i : Nat} {v : Val} :
      vs.get? i = some v → Violates elem v → Violates (.seqOf min max ext elem) (.list vs)
  | comp {so fc : Nat} {ea : Option Nat} {fields : Fields} {vs : Vals} {i : Nat} {k : Kind}
      {t : Ty} {v : Val} :
      fields.get? i = some (k, t) → vs.get? i = some v → presentOf k v = some true →
      Violates t (contentOf k v) → Violates (.seq so fc ea fields) (.seq vs)
  | alt {std total : Nat} {ext : Bool} {alts : Fields} {i : Nat} {k : Kind} {t : Ty} {x : Val} :
      alts.get? i = some (k, t) → Violates t x → Violates (.choice std total ext alts) (.choice i x)

/-- a violation anywhere ⇒ the encoder does not produce an encoding -/
theorem violates_not_ok {t : Ty} {v : Val} (h : Violates t v) : ∀ b, enc t v ≠ ok b := by
  induction h with
  | int hb hv => intro b; rw [enc_int_rejects hb hv]; simp
  | utf8Size hd hs => intro b; rw [enc_utf8_size_rejects hd hs]; simp
  | @strSize cs min max bytes chars hcs hd hs =>
    intro b
    cases hbad : chars.any (fun c => !cs.isValid c) with
    | true => rw [enc_str_alphabet_rejects hcs hd hbad]; simp
    | false =>
      have hval : chars.all cs.isValid = true := by
        rw [List.all_eq_true]
        intro c hc
        simpa using List.any_eq_false.1 hbad c hc
      rw [enc_str_size_rejects hcs hd hval hs]; simp
  | alphabet hcs hd hbad => intro b; rw [enc_str_alphabet_rejects hcs hd hbad]; simp
  | octSize hs => intro b; rw [enc_oct_size_rejects hs]; simp
  | bitsSize hs => intro b; rw [enc_bits_size_rejects hs]; simp
  | listSize hs => intro b; rw [enc_seqOf_size_rejects hs]; simp
  | enumIdx hi => intro b; rw [enc_enum_rejects hi]; simp
  | choiceIdx hi => intro b; rw [enc_choice_rejects hi]; simp
  | elem hv _ ih =>
    intro b hb
    obtain ⟨c, hc⟩ := enc_seqOf_ok_elem hb hv
    exact ih c hc
  | comp hf hv hp _ ih =>
    intro b hb
    obtain ⟨v', hv', p, hp', hc⟩ := enc_seq_ok_component hb hf
    rw [hv] at hv'
    simp only [Option.some.injEq] at hv'
    subst hv'
    rw [hp] at hp'
    simp only [Option.some.injEq] at hp'
    obtain ⟨c, hc⟩ := hc hp'.symm
    exact ih c hc
  | alt ha _ ih =>
    intro b hb
    obtain ⟨k', t', c, ha', hc⟩ := enc_choice_ok_alt hb
    rw [ha] at ha'
    simp only [Option.some.injEq, Prod.mk.injEq] at ha'
    obtain ⟨_, rfl⟩ := ha'
    exact ih c hc

end Asn1Verif.Uper
