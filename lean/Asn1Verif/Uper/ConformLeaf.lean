import Asn1Verif.Uper.ConformDefs
/-
  C02, writer side — the leaves: for every non-composite `Ty` node outside the known deviation
  classes, `enc t v = ok bits → X691.encode t v = some bits`, from the C10 lemmas of
  `Per/PrimLemmas*.lean`; and the generic relation between
  `write_extensible_bit_and_length_or_err` + items and `X691.sized` for fewer than 16K items.
-/
namespace Asn1Verif.Uper
open Asn1Verif Outcome Per

theorem ubInt_lt {u : Int} (h : u < I64_MAX) : X691.ubInt (some u) = some u := by
  simp [X691.ubInt, Option.filter, h]

theorem cw_int (min max : Option Int) (ext : Bool) (w : Nat) (s : Bool) (v : Val) (bits : Bits)
    (hd : intOk min max ext = true) (hr : rangeOk (.int min max ext w s) v = true)
    (h : enc (.int min max ext w s) v = ok bits) :
    X691.encode (.int min max ext w s) v = some bits := by
  cases v <;> try (simp [enc] at h; done)
  rename_i i
  simp only [rangeOk, Bool.and_eq_true, decide_eq_true_eq] at hr
  simp only [enc] at h
  simp only [X691.encode]
  cases min with
  | none =>
    cases max with
    | some u => simp [intOk] at hd
    | none =>
      simp only [intOk, Bool.not_eq_true'] at hd
      subst hd
      simp only [Option.isNone_none, Bool.and_self, Bool.false_eq_true, if_false, if_true,
        wUnconstrained_ok i hr.1 hr.2, Outcome.bind_ok, List.nil_append] at h
      injection h with h; subst h
      simp [X691.intRoot, X691.ubInt]
  | some lb =>
    cases max with
    | none => simp [intOk] at hd
    | some ub =>
      simp only [intOk, decide_eq_true_eq] at hd
      simp only [X691.intRoot, ubInt_lt hd]
      simp only [Option.getD_some, Option.isNone_some, Bool.and_self] at h
      by_cases hin : lb ≤ i ∧ i ≤ ub
      · have hno : ¬ (i < lb ∨ i > ub) := by omega
        simp only [hno, decide_false, ite_self, Bool.false_eq_true, if_false,
          wConstrained_ok lb ub i hin.1 hin.2, Outcome.bind_ok] at h
        injection h with h; subst h
        cases ext <;> simp [hin]
      · have hout : i < lb ∨ i > ub := by omega
        cases ext with
        | false =>
          simp only [Bool.false_eq_true, if_false, wConstrained_err lb ub i (by omega)] at h
          cases h
        | true =>
          simp only [hout, decide_true, if_true, wUnconstrained_ok i hr.1 hr.2, Outcome.bind_ok] at h
          injection h with h; subst h
          simp [hin]

theorem lenOk_not_dev {min max : Option Nat} (h : lenOk min max = true) : ¬ LenDeviates min max := by
  simpa [lenOk] using h

theorem ubNat_of_not_dev {min max : Option Nat} (hd : ¬ LenDeviates min max) : X691.ubNat max = max := by
  cases max with
  | none => rfl
  | some u =>
    have hu : u < 65536 := not_dev_some hd
    have : u < I64MAXu := by rw [I64MAXu_eq]; omega
    simp [X691.ubNat, Option.filter, this]

/-- `write_extensible_bit_and_length_or_err` followed by the items, for fewer than 16K items and a
    non-deviating length determinant, is the `sized` form of X.691 (generic in the item encoder) -/
theorem wExtLen_sized {α : Type} (encItems : List α → Bits) (ext : Bool) (min max : Option Nat)
    (upperLimit : Nat) (xs : List α) (hdr : Bits)
    (hd : ¬ LenDeviates min max) (hn : xs.length < 16384) (hul : 16384 ≤ upperLimit)
    (hnil : encItems [] = [])
    (hw : wExtLen ext min max upperLimit xs.length = ok hdr) :
    (ext = true ∨ X691.inRoot min max xs.length = true) ∧
      hdr ++ encItems xs = X691.sized encItems min max ext xs := by
  unfold wExtLen at hw
  unfold X691.sized
  cases max with
  | none =>
    have := not_dev_none hd; subst this
    have hno : ¬ (xs.length < 0 ∨ xs.length > upperLimit) := by omega
    have hin : X691.inRoot none none xs.length = true := by simp [X691.inRoot]
    simp only [Option.getD_none, hno, decide_false, Bool.false_eq_true, if_false, wLen_unc,
      Outcome.bind_ok] at hw
    injection hw with hw; subst hw
    refine ⟨Or.inr hin, ?_⟩
    simp only [hin, Bool.not_true, Bool.and_false, Bool.false_eq_true, if_false, fragU_lt _ _ hn,
      List.append_assoc]
  | some u =>
    have hu : u < 65536 := not_dev_some hd
    simp only [Option.getD_some] at hw
    by_cases hoor : xs.length < min.getD 0 ∨ xs.length > u
    · have hin : X691.inRoot min (some u) xs.length = false := by
        simp only [X691.inRoot, Bool.and_eq_false_iff, decide_eq_false_iff_not]; omega
      simp only [hoor, decide_true, if_true] at hw
      cases ext with
      | false => simp at hw
      | true =>
        simp only [Bool.not_true, Bool.false_eq_true, if_false, wLen_unc, Outcome.bind_ok, if_true] at hw
        injection hw with hw; subst hw
        refine ⟨Or.inl rfl, ?_⟩
        simp [hin, fragU_lt _ _ hn]
    · have hin : X691.inRoot min (some u) xs.length = true := by
        simp only [X691.inRoot, Bool.and_eq_true, decide_eq_true_eq]; omega
      have hlen : min.getD 0 ≤ xs.length ∧ xs.length ≤ u := by omega
      simp only [hoor, decide_false, Bool.false_eq_true, if_false,
        wLen_con min u _ hu hlen.1 hlen.2, Outcome.bind_ok] at hw
      injection hw with hw; subst hw
      refine ⟨Or.inr hin, ?_⟩
      simp only [hin, Bool.not_true, Bool.and_false, Bool.false_eq_true, if_false, hu, and_true,
        if_true, List.append_assoc]
      congr 1
      by_cases hu0 : u = 0
      · have : xs = [] := List.eq_nil_of_length_eq_zero (by omega)
        subst this; subst hu0
        simp [hnil, X691.constrainedNat, X691.offsetField]
      · simp only [hu0, if_false]
        by_cases hfix : min = some u
        · subst hfix
          simp [X691.constrainedNat, X691.offsetField]
        · simp only [hfix, if_false]

theorem cw_bool (v : Val) (bits : Bits) (h : enc .bool v = ok bits) : X691.encode .bool v = some bits := by
  cases v <;> simp [enc] at h
  subst h; simp [X691.encode]

theorem cw_null (v : Val) (bits : Bits) (h : enc .null v = ok bits) : X691.encode .null v = some bits := by
  cases v <;> simp [enc] at h
  subst h; simp [X691.encode]

theorem cw_enum (std total : Nat) (ext : Bool) (v : Val) (bits : Bits)
    (hr : rangeOk (.enum std total ext) v = true)
    (h : enc (.enum std total ext) v = ok bits) :
    X691.encode (.enum std total ext) v = some bits := by
  cases v <;> try (simp [enc] at h; done)
  rename_i i
  simp only [rangeOk, Bool.and_eq_true, decide_eq_true_eq] at hr
  simp only [enc] at h
  simp only [X691.encode]
  by_cases c : i < std
  · rw [wIndex_root std ext i c] at h
    injection h with h; subst h
    simp [hr.1, c]
  · cases ext with
    | false => rw [wIndex_err std i (by omega)] at h; cases h
    | true =>
      rw [wIndex_ext std i (by omega) (by omega)] at h
      injection h with h; subst h
      simp [hr.1]

/-- the unconstrained OCTET STRING writer either refuses or writes the fragmented form -/
theorem wOctets_unc_ok (s : List (BitVec 8)) (bits : Bits) (h : wOctets none none false s = ok bits) :
    bits = X691.fragU bytesBits s := by
  by_cases hn : s.length ≤ I64MAXu
  · rw [wOctets_pattern none none false s (by decide) hn (Or.inr (by simp [X691.inRoot]))] at h
    injection h with h; subst h
    simp [X691.octets, X691.sized, X691.inRoot]
  · rw [wOctets_rejects none none s (Or.inr (by simp; omega))] at h; cases h

theorem cw_oct (min max : Option Nat) (ext : Bool) (v : Val) (bits : Bits)
    (hd : lenOk min max = true) (hr : rangeOk (.oct min max ext) v = true)
    (h : enc (.oct min max ext) v = ok bits) :
    X691.encode (.oct min max ext) v = some bits := by
  cases v <;> try (simp [enc] at h; done)
  rename_i s
  have hd := lenOk_not_dev hd
  simp only [rangeOk, decide_eq_true_eq] at hr
  simp only [enc] at h
  simp only [X691.encode, X691.inSize, ubNat_of_not_dev hd]
  have hadm : ext = true ∨ X691.inRoot min max s.length = true := by
    by_cases hin : X691.inRoot min max s.length = true
    · exact Or.inr hin
    · cases ext with
      | true => exact Or.inl rfl
      | false =>
        rw [wOctets_rejects min max s (not_inRoot_outOfRange min max _ (by simpa using hin))] at h
        cases h
  rw [wOctets_pattern min max ext s hd hr hadm] at h
  injection h with h; subst h
  rw [if_pos hadm]

theorem cw_bits (min max : Option Nat) (ext : Bool) (v : Val) (bits : Bits)
    (hd : lenOk min max = true) (hr : rangeOk (.bits min max ext) v = true)
    (h : enc (.bits min max ext) v = ok bits) :
    X691.encode (.bits min max ext) v = some bits := by
  cases v <;> try (simp [enc] at h; done)
  rename_i s
  have hd := lenOk_not_dev hd
  simp only [rangeOk, decide_eq_true_eq] at hr
  simp only [enc] at h
  simp only [X691.encode, X691.inSize, ubNat_of_not_dev hd]
  have hadm : ext = true ∨ X691.inRoot min max s.length = true := by
    by_cases hin : X691.inRoot min max s.length = true
    · exact Or.inr hin
    · cases ext with
      | true => exact Or.inl rfl
      | false =>
        rw [wBitString_rejects min max s (not_inRoot_outOfRange min max _ (by simpa using hin))] at h
        cases h
  rw [wBitString_pattern min max ext s hd hr hadm] at h
  injection h with h; subst h
  rw [if_pos hadm]

theorem any_not_valid (cs : Charset) (chars : List Nat) :
    (chars.any fun c => !cs.isValid c) = !chars.all cs.isValid := by
  induction chars with
  | nil => rfl
  | cons c r ih => simp [ih]

/-- the restricted-string branch, for any alphabet -/
theorem cw_str_restricted (cs : Charset) (min max : Option Nat) (ext : Bool) (chars : List Nat)
    (bits : Bits) (hd : ¬ LenDeviates min max) (hn : chars.length < 16384)
    (h : (if (chars.any fun c => !cs.isValid c) = true then err ErrKind.invalidString
      else do
        let hdr ← wExtLen ext min max U64_MAX chars.length
        ok (hdr ++ (List.map (charBits cs) chars).flatten)) = ok bits) :
    (if chars.all cs.isValid = true ∧ (ext = true ∨ X691.inSize min max chars.length = true) then
        some (X691.sized (fun l => (List.map (charBits cs) l).flatten) min (X691.ubNat max) ext chars)
      else none) = some bits := by
  rw [any_not_valid] at h
  cases hv : chars.all cs.isValid with
  | false => simp [hv] at h
  | true =>
    simp only [hv, Bool.not_true, Bool.false_eq_true, if_false] at h
    cases hw : wExtLen ext min max U64_MAX chars.length with
    | err k => simp [hw] at h
    | panic => simp [hw] at h
    | ok hdr =>
      simp only [hw, Outcome.bind_ok] at h
      injection h with h; subst h
      have := wExtLen_sized (fun l => (List.map (charBits cs) l).flatten) ext min max U64_MAX chars hdr hd hn
        (by decide) rfl hw
      simp only [X691.inSize, ubNat_of_not_dev hd, this.1, and_self, if_true, this.2]

theorem cw_str (cs : Charset) (min max : Option Nat) (ext : Bool) (v : Val) (bits : Bits)
    (hd : (cs == .utf8 || lenOk min max) = true) (hr : rangeOk (.str cs min max ext) v = true)
    (h : enc (.str cs min max ext) v = ok bits) :
    X691.encode (.str cs min max ext) v = some bits := by
  cases v <;> try (simp [enc] at h; done)
  rename_i bytes
  simp only [rangeOk] at hr
  cases hu : utf8Decode bytes with
  | none => cases cs <;> simp [enc, hu] at h
  | some chars =>
    simp only [hu] at hr
    cases cs
    case utf8 =>
      simp only [enc, hu] at h
      simp only [X691.encode, hu]
      split at h
      · cases h
      · rw [wOctets_unc_ok _ _ h]
    all_goals
      simp only [enc, hu] at h
      simp only [X691.encode, hu]
      have hd' : ¬ LenDeviates min max := lenOk_not_dev (by simpa using hd)
      have hn : chars.length < 16384 := by simpa using hr
      exact cw_str_restricted _ min max ext chars bits hd' hn h

end Asn1Verif.Uper
