import Asn1Verif.Uper.SeqLemmas
/-
  L2 — lemmas about the SEQUENCE/SET part of the UPER *reader* mirror (`dec`, `decFields` of
  `Uper/Impl.lean`): what one component step does, depending on its presence bit, and what follows
  for the decoded value tree over field lists of any length.  None of this needs the bit-level
  round trip.  Used by `Props/C03.lean`.
-/
namespace Asn1Verif.Uper
open Asn1Verif Outcome Per

/-! ### one component step of `decFields`, spelled out -/

theorem decFields_cons_root (k : Kind) (t : Ty) (rest : Fields) (n optIdx addIdx : Nat)
    (ctx : SeqCtx) (inp : Bits) (pos : Nat) :
    decFields (.cons k t rest) (n + 1) optIdx addIdx ctx inp pos =
      ((if k.isOptional then bitAt inp (ctx.presPos + optIdx) else ok true) >>= fun present =>
       (if present then dec t inp pos >>= fun xp => ok (k.wrap xp.1, xp.2)
        else ok (k.absent, pos)) >>= fun vp =>
       decFields rest n (if k.isOptional then optIdx + 1 else optIdx) addIdx ctx inp vp.2 >>=
         fun r => ok (.cons vp.1 r.1, r.2)) := by
  simp only [decFields, Nat.zero_lt_succ, gt_iff_lt, if_true, Nat.add_sub_cancel]

theorem decFields_cons_add_noext (k : Kind) (t : Ty) (rest : Fields) (optIdx addIdx : Nat)
    (ctx : SeqCtx) (inp : Bits) (pos : Nat) (hx : ctx.extBit = false) :
    decFields (.cons k t rest) 0 optIdx addIdx ctx inp pos =
      ((match k with
        | .m => dec t inp pos
        | k => ok (k.absent, pos)) >>= fun vp =>
       decFields rest 0 optIdx (addIdx + 1) ctx inp vp.2 >>= fun r => ok (.cons vp.1 r.1, r.2)) := by
  simp only [decFields, Nat.lt_irrefl, gt_iff_lt, if_false, hx, Bool.false_eq_true]
  rfl

theorem decFields_cons_add_ext (k : Kind) (t : Ty) (rest : Fields) (optIdx addIdx : Nat)
    (ctx : SeqCtx) (inp : Bits) (pos : Nat) (hx : ctx.extBit = true) :
    decFields (.cons k t rest) 0 optIdx addIdx ctx inp pos =
      ((match ctx.addWin with
        | some w => ok (w, pos)
        | none => readExtHeader inp pos) >>= fun wp =>
       (if addIdx < wp.1.2 then bitAt inp (wp.1.1 + addIdx) else ok false) >>= fun present =>
       (if present || !k.isOptional then
          (if k.isOptional || t.buffersOnRead then readOpen (dec t) inp wp.2 else dec t inp wp.2) >>=
            fun xp => ok (k.wrap xp.1, xp.2)
        else ok (k.absent, wp.2)) >>= fun vp =>
       decFields rest 0 optIdx (addIdx + 1) { ctx with addWin := some wp.1 } inp vp.2 >>=
         fun r => ok (.cons vp.1 r.1, r.2)) := by
  simp only [decFields, Nat.lt_irrefl, gt_iff_lt, if_false, hx, if_true]
  rfl

theorem bitAt_eq {inp : Bits} {p : Nat} {b : Bool} (h : inp[p]? = some b) : bitAt inp p = ok b := by
  simp [bitAt, h]

/-- root OPTIONAL/DEFAULT component whose presence bit is `0`: decoded as absent (`none`, resp.
    the default value), the cursor stays where it is -/
theorem decFields_root_absent (k : Kind) (t : Ty) (rest : Fields) (n optIdx addIdx : Nat)
    (ctx : SeqCtx) (inp : Bits) (pos : Nat) (hk : k.isOptional = true)
    (hb : inp[ctx.presPos + optIdx]? = some false) :
    decFields (.cons k t rest) (n + 1) optIdx addIdx ctx inp pos =
      (decFields rest n (optIdx + 1) addIdx ctx inp pos >>= fun r => ok (.cons k.absent r.1, r.2)) := by
  rw [decFields_cons_root]
  simp [hk, bitAt_eq hb]

/-- … and whose presence bit is `1`: its own decoder runs at the cursor -/
theorem decFields_root_present (k : Kind) (t : Ty) (rest : Fields) (n optIdx addIdx : Nat)
    (ctx : SeqCtx) (inp : Bits) (pos : Nat) (hk : k.isOptional = true)
    (hb : inp[ctx.presPos + optIdx]? = some true) :
    decFields (.cons k t rest) (n + 1) optIdx addIdx ctx inp pos =
      (dec t inp pos >>= fun xp =>
        decFields rest n (optIdx + 1) addIdx ctx inp xp.2 >>= fun r =>
          ok (.cons (k.wrap xp.1) r.1, r.2)) := by
  rw [decFields_cons_root]
  simp only [hk, bitAt_eq hb, if_true, bind_ok]
  cases dec t inp pos <;> rfl

/-- extension addition, extension bit `0`: OPTIONAL/DEFAULT additions are absent -/
theorem decFields_add_noext_absent (k : Kind) (t : Ty) (rest : Fields) (optIdx addIdx : Nat)
    (ctx : SeqCtx) (inp : Bits) (pos : Nat) (hx : ctx.extBit = false) (hk : k.isOptional = true) :
    decFields (.cons k t rest) 0 optIdx addIdx ctx inp pos =
      (decFields rest 0 optIdx (addIdx + 1) ctx inp pos >>= fun r => ok (.cons k.absent r.1, r.2)) := by
  rw [decFields_cons_add_noext _ _ _ _ _ _ _ _ hx]
  cases k with
  | m => cases hk
  | o => rfl
  | d dv => rfl

/-- extension addition, extension bit `1`, bitmap window known: an OPTIONAL/DEFAULT addition whose
    bitmap bit is `0`, or which lies beyond the announced number of additions, is absent -/
theorem decFields_add_bitmap_absent (k : Kind) (t : Ty) (rest : Fields) (optIdx addIdx : Nat)
    (ctx : SeqCtx) (inp : Bits) (pos win nRead : Nat) (hx : ctx.extBit = true)
    (hw : ctx.addWin = some (win, nRead)) (hk : k.isOptional = true)
    (hb : nRead ≤ addIdx ∨ inp[win + addIdx]? = some false) :
    decFields (.cons k t rest) 0 optIdx addIdx ctx inp pos =
      (decFields rest 0 optIdx (addIdx + 1) ctx inp pos >>= fun r => ok (.cons k.absent r.1, r.2)) := by
  rw [decFields_cons_add_ext _ _ _ _ _ _ _ _ hx]
  have hctx : ({ ctx with addWin := some (win, nRead) } : SeqCtx) = ctx := by
    cases ctx; simp_all
  have hp : (if addIdx < nRead then bitAt inp (win + addIdx) else ok false) = ok false := by
    rcases hb with hb | hb
    · rw [if_neg (by omega)]
    · rw [bitAt_eq hb]; simp
  simp [hw, hp, hk, hctx]

/-- the first extension addition (bitmap window not yet known): the header is read at the cursor -/
theorem decFields_add_first_absent (k : Kind) (t : Ty) (rest : Fields) (optIdx addIdx : Nat)
    (ctx : SeqCtx) (inp : Bits) (pos win nRead pos' : Nat) (hx : ctx.extBit = true)
    (hw : ctx.addWin = none) (hh : readExtHeader inp pos = ok ((win, nRead), pos'))
    (hk : k.isOptional = true)
    (hb : nRead ≤ addIdx ∨ inp[win + addIdx]? = some false) :
    decFields (.cons k t rest) 0 optIdx addIdx ctx inp pos =
      (decFields rest 0 optIdx (addIdx + 1) { ctx with addWin := some (win, nRead) } inp pos' >>=
        fun r => ok (.cons k.absent r.1, r.2)) := by
  rw [decFields_cons_add_ext _ _ _ _ _ _ _ _ hx]
  have hp : (if addIdx < nRead then bitAt inp (win + addIdx) else ok false) = ok false := by
    rcases hb with hb | hb
    · rw [if_neg (by omega)]
    · rw [bitAt_eq hb]; simp
  simp [hw, hh, hp, hk]

/-! ### over the whole field list -/

theorem optCount_succ (k : Kind) (t : Ty) (rest : Fields) (i : Nat) :
    (Fields.cons k t rest).optCount (i + 1) = (if k.isOptional then 1 else 0) + rest.optCount i := rfl

/-- every root OPTIONAL/DEFAULT component whose bit in the presence bitmap is `0` decodes as absent
    (`none`, resp. the default value) -/
theorem decFields_absent_root : ∀ (fields : Fields) (rl optIdx addIdx : Nat) (ctx : SeqCtx)
    (inp : Bits) (pos : Nat) (vs : Vals) (p : Nat),
    decFields fields rl optIdx addIdx ctx inp pos = ok (vs, p) →
    ∀ i k t, i < rl → fields.get? i = some (k, t) → k.isOptional = true →
      inp[ctx.presPos + optIdx + fields.optCount i]? = some false → vs.get? i = some k.absent
  | .nil, rl, optIdx, addIdx, ctx, inp, pos, vs, p, _, i, k, t, _, hg, _, _ => by
    simp [Fields.get?] at hg
  | .cons k0 t0 rest, 0, optIdx, addIdx, ctx, inp, pos, vs, p, _, i, k, t, hi, _, _, _ => by omega
  | .cons k0 t0 rest, n + 1, optIdx, addIdx, ctx, inp, pos, vs, p, h, i, k, t, hi, hg, hk, hb => by
    rw [decFields_cons_root] at h
    obtain ⟨present, hpres, h⟩ := bind_eq_ok.1 h
    obtain ⟨vp, hvp, h⟩ := bind_eq_ok.1 h
    obtain ⟨r, hr, h⟩ := bind_eq_ok.1 h
    simp only [ok.injEq, Prod.mk.injEq] at h
    obtain ⟨rfl, rfl⟩ := h
    cases i with
    | zero =>
      simp only [Fields.get?, Option.some.injEq, Prod.mk.injEq] at hg
      obtain ⟨rfl, rfl⟩ := hg
      simp only [Fields.optCount, Nat.add_zero] at hb
      simp only [hk, if_true, bitAt_eq hb, ok.injEq] at hpres
      subst hpres
      simp only [Bool.false_eq_true, if_false, ok.injEq] at hvp
      subst hvp
      rfl
    | succ i =>
      have := decFields_absent_root rest n _ addIdx ctx inp vp.2 r.1 r.2 hr i k t (by omega)
        (by simpa [Fields.get?] using hg) hk
      simp only [Vals.get?]
      apply this
      rw [optCount_succ] at hb
      rw [← hb]
      congr 1
      cases k0.isOptional <;> simp <;> omega

/-- extension bit `0`: every OPTIONAL/DEFAULT extension addition decodes as absent -/
theorem decFields_absent_noext : ∀ (fields : Fields) (rl optIdx addIdx : Nat) (ctx : SeqCtx)
    (inp : Bits) (pos : Nat) (vs : Vals) (p : Nat),
    decFields fields rl optIdx addIdx ctx inp pos = ok (vs, p) → ctx.extBit = false →
    ∀ i k t, rl ≤ i → fields.get? i = some (k, t) → k.isOptional = true →
      vs.get? i = some k.absent
  | .nil, rl, optIdx, addIdx, ctx, inp, pos, vs, p, _, _, i, k, t, _, hg, _ => by
    simp [Fields.get?] at hg
  | .cons k0 t0 rest, n + 1, optIdx, addIdx, ctx, inp, pos, vs, p, h, hx, i, k, t, hi, hg, hk => by
    rw [decFields_cons_root] at h
    obtain ⟨present, hpres, h⟩ := bind_eq_ok.1 h
    obtain ⟨vp, hvp, h⟩ := bind_eq_ok.1 h
    obtain ⟨r, hr, h⟩ := bind_eq_ok.1 h
    simp only [ok.injEq, Prod.mk.injEq] at h
    obtain ⟨rfl, rfl⟩ := h
    cases i with
    | zero => omega
    | succ i =>
      exact decFields_absent_noext rest n _ addIdx ctx inp vp.2 r.1 r.2 hr hx i k t (by omega)
        (by simpa [Fields.get?] using hg) hk
  | .cons k0 t0 rest, 0, optIdx, addIdx, ctx, inp, pos, vs, p, h, hx, i, k, t, hi, hg, hk => by
    rw [decFields_cons_add_noext _ _ _ _ _ _ _ _ hx] at h
    obtain ⟨vp, hvp, h⟩ := bind_eq_ok.1 h
    obtain ⟨r, hr, h⟩ := bind_eq_ok.1 h
    simp only [ok.injEq, Prod.mk.injEq] at h
    obtain ⟨rfl, rfl⟩ := h
    cases i with
    | zero =>
      simp only [Fields.get?, Option.some.injEq, Prod.mk.injEq] at hg
      obtain ⟨rfl, rfl⟩ := hg
      cases k0 with
      | m => cases hk
      | o => simp only [ok.injEq] at hvp; subst hvp; rfl
      | d dv => simp only [ok.injEq] at hvp; subst hvp; rfl
    | succ i =>
      exact decFields_absent_noext rest 0 _ _ ctx inp vp.2 r.1 r.2 hr hx i k t (by omega)
        (by simpa [Fields.get?] using hg) hk

/-- extension bit `1`, bitmap window `(win, nRead)`: every OPTIONAL/DEFAULT addition whose bitmap
    bit is `0` or which lies beyond the announced additions decodes as absent -/
theorem decFields_absent_bitmap : ∀ (fields : Fields) (rl optIdx addIdx : Nat) (ctx : SeqCtx)
    (inp : Bits) (pos : Nat) (vs : Vals) (p win nRead : Nat),
    decFields fields rl optIdx addIdx ctx inp pos = ok (vs, p) → ctx.extBit = true →
    ctx.addWin = some (win, nRead) →
    ∀ i k t, rl ≤ i → fields.get? i = some (k, t) → k.isOptional = true →
      (nRead ≤ addIdx + (i - rl) ∨ inp[win + (addIdx + (i - rl))]? = some false) →
      vs.get? i = some k.absent
  | .nil, rl, optIdx, addIdx, ctx, inp, pos, vs, p, win, nRead, _, _, _, i, k, t, _, hg, _, _ => by
    simp [Fields.get?] at hg
  | .cons k0 t0 rest, n + 1, optIdx, addIdx, ctx, inp, pos, vs, p, win, nRead, h, hx, hw,
      i, k, t, hi, hg, hk, hb => by
    rw [decFields_cons_root] at h
    obtain ⟨present, hpres, h⟩ := bind_eq_ok.1 h
    obtain ⟨vp, hvp, h⟩ := bind_eq_ok.1 h
    obtain ⟨r, hr, h⟩ := bind_eq_ok.1 h
    simp only [ok.injEq, Prod.mk.injEq] at h
    obtain ⟨rfl, rfl⟩ := h
    cases i with
    | zero => omega
    | succ i =>
      refine decFields_absent_bitmap rest n _ addIdx ctx inp vp.2 r.1 r.2 win nRead hr hx hw i k t
        (by omega) (by simpa [Fields.get?] using hg) hk ?_
      simpa [Nat.add_sub_add_right] using hb
  | .cons k0 t0 rest, 0, optIdx, addIdx, ctx, inp, pos, vs, p, win, nRead, h, hx, hw,
      i, k, t, hi, hg, hk, hb => by
    rw [decFields_cons_add_ext _ _ _ _ _ _ _ _ hx] at h
    obtain ⟨wp, hwp, h⟩ := bind_eq_ok.1 h
    simp only [hw, ok.injEq] at hwp
    subst hwp
    obtain ⟨present, hpres, h⟩ := bind_eq_ok.1 h
    obtain ⟨vp, hvp, h⟩ := bind_eq_ok.1 h
    obtain ⟨r, hr, h⟩ := bind_eq_ok.1 h
    simp only [ok.injEq, Prod.mk.injEq] at h
    obtain ⟨rfl, rfl⟩ := h
    cases i with
    | zero =>
      simp only [Fields.get?, Option.some.injEq, Prod.mk.injEq] at hg
      obtain ⟨rfl, rfl⟩ := hg
      simp only [Nat.sub_self, Nat.add_zero] at hb
      have hp : present = false := by
        simp only at hpres
        rcases hb with hb | hb
        · rw [if_neg (by omega)] at hpres; cases hpres; rfl
        · rw [bitAt_eq hb] at hpres; simp at hpres; exact hpres
      subst hp
      simp only [hk, Bool.not_true, Bool.or_self, Bool.false_eq_true, if_false, ok.injEq] at hvp
      subst hvp
      rfl
    | succ i =>
      refine decFields_absent_bitmap rest 0 _ _ _ inp vp.2 r.1 r.2 win nRead hr hx rfl i k t
        (by omega) (by simpa [Fields.get?] using hg) hk ?_
      simp only [Nat.sub_zero] at hb ⊢
      rcases hb with hb | hb
      · left; omega
      · right; rw [← hb]; congr 1; omega

/-! ### the SEQUENCE reader -/

theorem liftL1_rdBit (inp : Bits) (pos : Nat) :
    liftL1 rdBit inp pos =
      match inp[pos]? with
      | some b => ok (b, pos + 1)
      | none => err .endOfStream := by
  unfold liftL1
  by_cases h : pos < inp.length
  · rw [List.drop_eq_getElem_cons h, List.getElem?_eq_getElem h]
    simp only [rdBit, List.length_drop, ok.injEq, Prod.mk.injEq, true_and]
    omega
  · rw [List.drop_eq_nil_of_le (by omega), List.getElem?_eq_none (by omega)]
    rfl

/-- the SEQUENCE case of `dec`, spelled out: extension bit, bitmap of `optCount` bits, components -/
theorem dec_seq (so fc : Nat) (ea : Option Nat) (fields : Fields) (inp : Bits) (pos : Nat) :
    dec (.seq so fc ea fields) inp pos =
      ((match ea with
        | some _ => liftL1 rdBit inp pos
        | none => ok (false, pos)) >>= fun xp =>
       if inp.length - xp.2 < fields.optCount (rootCountOf ea fields) then err .endOfStream
       else
         decFields fields (rootCountOf ea fields) 0 0
           { presPos := xp.2, extBit := xp.1, nLocal := fields.length - rootCountOf ea fields }
           inp (xp.2 + fields.optCount (rootCountOf ea fields)) >>= fun r => ok (.seq r.1, r.2)) := by
  simp only [dec]
  rfl

/-- a decoded SEQUENCE: the root bitmap starts right behind the extension bit (if any); every root
    OPTIONAL/DEFAULT component whose bit there is `0` is absent in the decoded value -/
theorem dec_seq_absent_root {so fc : Nat} {ea : Option Nat} {fields : Fields} {inp : Bits}
    {pos : Nat} {val : Val} {p : Nat} (h : dec (.seq so fc ea fields) inp pos = ok (val, p)) :
    ∃ vs, val = .seq vs ∧
      ∀ i k t, i < rootCountOf ea fields → fields.get? i = some (k, t) → k.isOptional = true →
        inp[pos + (if ea.isSome then 1 else 0) + fields.optCount i]? = some false →
        vs.get? i = some k.absent := by
  rw [dec_seq] at h
  obtain ⟨xp, hxp, h⟩ := bind_eq_ok.1 h
  split at h
  · cases h
  · obtain ⟨r, hr, h⟩ := bind_eq_ok.1 h
    simp only [ok.injEq, Prod.mk.injEq] at h
    obtain ⟨rfl, rfl⟩ := h
    refine ⟨r.1, rfl, ?_⟩
    intro i k t hi hg hk hb
    have hpos : xp.2 = pos + (if ea.isSome then 1 else 0) := by
      cases ea with
      | none => simp only [ok.injEq] at hxp; subst hxp; simp
      | some k0 =>
        simp only [liftL1_rdBit] at hxp
        split at hxp
        · simp only [ok.injEq] at hxp; subst hxp; simp
        · cases hxp
    refine decFields_absent_root fields _ 0 0 _ inp _ r.1 r.2 hr i k t hi hg hk ?_
    simpa [hpos] using hb

/-- a decoded extensible SEQUENCE whose extension bit is `0`: every OPTIONAL/DEFAULT extension
    addition is absent in the decoded value -/
theorem dec_seq_absent_additions {so fc k0 : Nat} {fields : Fields} {inp : Bits}
    {pos : Nat} {val : Val} {p : Nat} (h : dec (.seq so fc (some k0) fields) inp pos = ok (val, p))
    (hx : inp[pos]? = some false) :
    ∃ vs, val = .seq vs ∧
      ∀ i k t, k0 + 1 ≤ i → fields.get? i = some (k, t) → k.isOptional = true →
        vs.get? i = some k.absent := by
  rw [dec_seq] at h
  obtain ⟨xp, hxp, h⟩ := bind_eq_ok.1 h
  simp only [liftL1_rdBit, hx, ok.injEq] at hxp
  subst hxp
  split at h
  · cases h
  · obtain ⟨r, hr, h⟩ := bind_eq_ok.1 h
    simp only [ok.injEq, Prod.mk.injEq] at h
    obtain ⟨rfl, rfl⟩ := h
    refine ⟨r.1, rfl, ?_⟩
    intro i k t hi hg hk
    exact decFields_absent_noext fields _ 0 0 _ inp _ r.1 r.2 hr rfl i k t hi hg hk

/-- nothing left to skip -/
theorem skipUnknown_done (win nRead idx : Nat) (inp : Bits) (pos : Nat) (h : nRead ≤ idx) :
    skipUnknown win nRead idx inp pos = ok ((), pos) := by
  rw [skipUnknown, dif_neg (by omega)]

end Asn1Verif.Uper
