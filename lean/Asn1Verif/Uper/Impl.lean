import Asn1Verif.Per.Prim
import Asn1Verif.Uper.Types
/-
  L2 — mirror of `src/rw/uper.rs` (`UperWriter`, `UperReader`, `Scope`) together with the
  dispatch of `src/descriptor/*`.

  The real writer patches presence bits into positions it reserved earlier and keeps a small
  state machine (`Scope`) that counts the calls of the components; the real reader reads the
  presence bits by position while the cursor is elsewhere.  This mirror is *compositional*: it
  computes the same bits (writer) and the same value and cursor (reader) for every descriptor that
  is `Ty.consistent` (the generated constants agree with the component list), and reproduces the
  observable behaviour of the scope machine:
    * which component kinds are wrapped as open types inside the extension part (`with_buffer`),
    * the extension bit = presence of the FIRST extension addition, a later present addition after
      an absent first one is refused with `ExtensionFieldsInconsistent`,
    * an open type is the unconstrained OCTET STRING of the padded content, an empty content is
      one zero octet (X.691 11.1, since fix bbce045),
    * the fragment size announced by a length determinant is ignored for SEQUENCE OF and the
      restricted strings (≥ 16K items are written after a fragment header),
    * the reader does not narrow its window for an open type, only moves the cursor to the
      announced end afterwards (clamped to the input length),
    * a reader whose type knows fewer additions than were sent skips the unknown payloads by their
      length determinants (since fix 91e31d8).
  It is tied to the code by the `uper` correspondence stream over the compiled zoo (valid values,
  constraint violations, schema-version pairs, hostile bit strings) and by the refinement theorems
  of Props/Scope.lean from the faithful scope machine Uper/Scope.lean.
-/
namespace Asn1Verif.Uper
open Asn1Verif Outcome Per

/-! ### small helpers -/

/-- UTF-8 decoder (`str::chars` of a Rust `String`; also the validity check of `String::from_utf8`) -/
def utf8Decode : List Byte → Option (List Nat)
  | [] => some []
  | b0 :: r =>
    let x := b0.toNat
    if x < 0x80 then (utf8Decode r).map (x :: ·)
    else if x < 0xC2 then none
    else if x < 0xE0 then
      match r with
      | b1 :: r' =>
        let y := b1.toNat
        if 0x80 ≤ y ∧ y < 0xC0 then (utf8Decode r').map (((x - 0xC0) * 64 + (y - 0x80)) :: ·) else none
      | _ => none
    else if x < 0xF0 then
      match r with
      | b1 :: b2 :: r' =>
        let y := b1.toNat
        let z := b2.toNat
        let lo := if x = 0xE0 then 0xA0 else 0x80
        let hi := if x = 0xED then 0xA0 else 0xC0
        if lo ≤ y ∧ y < hi ∧ 0x80 ≤ z ∧ z < 0xC0 then
          (utf8Decode r').map (((x - 0xE0) * 4096 + (y - 0x80) * 64 + (z - 0x80)) :: ·)
        else none
      | _ => none
    else if x < 0xF5 then
      match r with
      | b1 :: b2 :: b3 :: r' =>
        let y := b1.toNat
        let z := b2.toNat
        let w := b3.toNat
        let lo := if x = 0xF0 then 0x90 else 0x80
        let hi := if x = 0xF4 then 0x90 else 0xC0
        if lo ≤ y ∧ y < hi ∧ 0x80 ≤ z ∧ z < 0xC0 ∧ 0x80 ≤ w ∧ w < 0xC0 then
          (utf8Decode r').map
            (((x - 0xF0) * 262144 + (y - 0x80) * 4096 + (z - 0x80) * 64 + (w - 0x80)) :: ·)
        else none
      | _ => none
    else none

/-- `Charset::is_valid` -/
def Charset.isValid (cs : Charset) (c : Nat) : Bool :=
  match cs with
  | .utf8 => true
  | .numeric => c = 32 || (48 ≤ c && c ≤ 57)
  | .printable =>
    c = 32 || (39 ≤ c && c ≤ 41) || (43 ≤ c && c ≤ 58) || c = 61 || c = 63 ||
      (65 ≤ c && c ≤ 90) || (97 ≤ c && c ≤ 122)
  | .ia5 => c ≤ 127
  | .visible => 32 ≤ c && c ≤ 126

/-- bits of one character of a restricted string -/
def charBits (cs : Charset) (c : Nat) : Bits :=
  match cs with
  | .numeric => natBits 4 (if c - 32 = 0 then 0 else c - 32 - 15)
  | _ => natBits 7 c

def charWidth : Charset → Nat
  | .numeric => 4
  | _ => 7

/-- pad to whole octets with zero bits (what `BitBuffer::content()` holds) -/
def padToBytes (b : Bits) : List Byte :=
  bitsBytes (b ++ List.replicate ((8 - b.length % 8) % 8) false)

/-- open type: content of a fresh writer as unconstrained OCTET STRING; an empty content is a
    single zero octet -/
def openType (content : Bits) : Outcome Bits :=
  wOctets none none false (if content.isEmpty then [0#8] else padToBytes content)

/-- `write_extensible_bit_and_length_or_err` (the announced fragment size is dropped) -/
def wExtLen (ext : Bool) (min max : Option Nat) (upperLimit len : Nat) : Outcome Bits :=
  let outOfRange := decide (len < min.getD 0 ∨ len > max.getD upperLimit)
  let pre : Bits := if ext then [outOfRange] else []
  if outOfRange then
    if !ext then err .sizeNotInRange
    else do
      let (b, _) ← wLen none none len
      ok (pre ++ b)
  else do
    let (b, _) ← wLen min max len
    ok (pre ++ b)

/-- `Number::from_i64` followed by `to_i64`: the value a Rust integer of that type holds -/
def castInt (width : Nat) (signed : Bool) (v : Int) : Int :=
  let m : Int := 2 ^ width
  let u := v % m
  if signed then (if u ≥ m / 2 then u - m else u) else
    (if width = 64 then (if u ≥ m / 2 then u - m else u) else u)

def Fields.drop : Fields → Nat → Fields
  | fs, 0 => fs
  | .nil, _ => .nil
  | .cons _ _ r, n + 1 => r.drop n

/-- the child's own `write_*` wraps itself with `with_buffer` (everything but CHOICE, SEQUENCE OF) -/
def Ty.buffersOnWrite : Ty → Bool
  | .choice .. => false
  | .seqOf .. => false
  | _ => true

/-- on the read side only CHOICE does not use `with_buffer` -/
def Ty.buffersOnRead : Ty → Bool
  | .choice .. => false
  | _ => true

/-! ### writer -/

/-- state of the extension part while walking the components -/
inductive ExtState where
  | root                -- still in the root (or not extensible)
  | all                 -- first addition was present: bitmap + open types
  | empty               -- first addition was absent: nothing may follow

structure SeqAcc where
  rootPres : Bits := []
  rootBody : Bits := []
  addPres : Bits := []
  addBody : Bits := []
  st : ExtState := .root

/-- elements of a SEQUENCE OF (scope stashed), with the element encoder -/
def encListWith (f : Val → Outcome Bits) : Vals → Outcome Bits
  | .nil => ok []
  | .cons v vs => do
    let a ← f v
    let b ← encListWith f vs
    ok (a ++ b)

/-- one component has been looked at: `present`, and its content encoder (not yet run) -/
def SeqAcc.step (acc : SeqAcc) (k : Kind) (t : Ty) (isRoot : Bool) (present : Bool)
    (content : Unit → Outcome Bits) : Outcome SeqAcc :=
  if isRoot then do
    -- root component: presence bit for OPTIONAL/DEFAULT, content inline
    let body ← (if present then content () else ok [])
    let pres : Bits := if k.isOptional then [present] else []
    ok { acc with rootPres := acc.rootPres ++ pres, rootBody := acc.rootBody ++ body }
  else
    -- extension addition
    let asAll : Outcome SeqAcc := do
      let body ← (if present then do
          let c ← content ()
          if k.isOptional || t.buffersOnWrite then openType c else ok c
        else ok [])
      ok { acc with addPres := acc.addPres ++ [present], addBody := acc.addBody ++ body, st := .all }
    match acc.st with
    | .root => if present then asAll else ok { acc with st := .empty }
    | .all => asAll
    | .empty => if present then err .extensionInconsistent else ok acc

mutual
def enc : Ty → Val → Outcome Bits
  | .bool, v =>
    match v with
    | .bool b => ok [b]
    | _ => err .illTyped
  | .null, v =>
    match v with
    | .null => ok []
    | _ => err .illTyped
  | .int min max ext _ _, v =>
    match v with
    | .int v =>
      let unconstrained :=
        if ext then decide (v < min.getD 0 ∨ v > max.getD I64_MAX) else (min.isNone && max.isNone)
      let pre : Bits := if ext then [unconstrained] else []
      if unconstrained then do
        let b ← wUnconstrained v
        ok (pre ++ b)
      else do
        let b ← wConstrained (min.getD 0) (max.getD I64_MAX) v
        ok (pre ++ b)
    | _ => err .illTyped
  | .enum std _ ext, v =>
    match v with
    | .enum i => wIndex std ext i
    | _ => err .illTyped
  | .str cs min max ext, v =>
    match v with
    | .str bytes =>
      match utf8Decode bytes with
      | none => err .illTyped
      | some chars =>
        match cs with
        | .utf8 =>
          if !ext && decide (chars.length < min.getD 0 ∨ chars.length > max.getD U64_MAX) then
            err .sizeNotInRange
          else wOctets none none false bytes
        | cs =>
          if chars.any (fun c => !cs.isValid c) then err .invalidString
          else do
            let hdr ← wExtLen ext min max U64_MAX chars.length
            ok (hdr ++ (chars.map (charBits cs)).flatten)
    | _ => err .illTyped
  | .oct min max ext, v =>
    match v with
    | .oct bytes => wOctets min max ext bytes
    | _ => err .illTyped
  | .bits min max ext, v =>
    match v with
    | .bits bs => wBitString min max ext bs
    | _ => err .illTyped
  | .seqOf min max ext elem, v =>
    match v with
    | .list vs => do
      let hdr ← wExtLen ext min max I64MAXu vs.length
      let body ← encListWith (enc elem) vs
      ok (hdr ++ body)
    | _ => err .illTyped
  | .seq _ _ extAfter fields, v =>
    match v with
    | .seq vs => do
      let rootCount := match extAfter with
        | none => fields.length
        | some k => k + 1
      let acc ← encFields fields vs rootCount {}
      match extAfter with
      | none => ok (acc.rootPres ++ acc.rootBody)
      | some k =>
        let nExt := fields.length - (k + 1)
        match acc.st with
        | .all => do
          let n ← wSmall (nExt - 1)
          ok (true :: acc.rootPres ++ acc.rootBody ++ n ++ acc.addPres ++ acc.addBody)
        | _ => ok (false :: acc.rootPres ++ acc.rootBody)
    | _ => err .illTyped
  | .choice std _ ext alts, v =>
    match v with
    | .choice i x => do
      let idx ← wIndex std ext i
      let content ← encAlt alts i x
      if i ≥ std then do
        let o ← openType content
        ok (idx ++ o)
      else ok (idx ++ content)
    | _ => err .illTyped

/-- content of alternative `i` -/
def encAlt : Fields → Nat → Val → Outcome Bits
  | .nil, _, _ => err .illTyped
  | .cons _ t _, 0, v => enc t v
  | .cons _ _ rest, i + 1, v => encAlt rest i v

/-- components in order; `rootLeft` = root components still to come -/
def encFields : Fields → Vals → Nat → SeqAcc → Outcome SeqAcc
  | .nil, vs, _, acc =>
    match vs with
    | .nil => ok acc
    | _ => err .illTyped
  | .cons k t rest, vs, rootLeft, acc =>
    match vs with
    | .nil => err .illTyped
    | .cons v vs =>
      let isRoot := decide (rootLeft > 0)
      let stepped : Outcome SeqAcc :=
        match k, v with
        | .m, v => acc.step k t isRoot true (fun _ => enc t v)
        | .o, .none => acc.step k t isRoot false (fun _ => ok [])
        | .o, .some x => acc.step k t isRoot true (fun _ => enc t x)
        | .o, _ => err .illTyped
        | .d dv, v => acc.step k t isRoot (!(v == dv)) (fun _ => enc t v)
      match stepped with
      | .ok acc' => encFields rest vs (rootLeft - 1) acc'
      | .err e => err e
      | .panic => panic
end

/-! ### reader: position based on a fixed input (the first `bit_len` bits of the slice) -/

/-- reader at a position of a fixed input -/
abbrev RdP (α : Type) := Bits → Nat → Outcome (α × Nat)

/-- runs an L1 reader at `pos` -/
def liftL1 {α : Type} (r : Per.Rd α) : RdP α := fun inp pos =>
  match r (inp.drop pos) with
  | .ok (a, rest) => ok (a, inp.length - rest.length)
  | .err k => err k
  | .panic => panic

/-- `read_whole_sub_slice`: the window is not narrowed; afterwards the cursor is moved to the
    announced end, clamped to the input length -/
def subSlice {α : Type} (lenBytes : Nat) (r : RdP α) : RdP α := fun inp pos => do
  let endPos := pos + lenBytes * 8
  let (a, _) ← r inp pos
  ok (a, min endPos inp.length)

/-- open type on the read side: length determinant + `read_whole_sub_slice` -/
def readOpen {α : Type} (r : RdP α) : RdP α := fun inp pos => do
  let (len, p) ← liftL1 (rLen none none) inp pos
  subSlice len r inp p

/-- bit at an absolute position (`with_read_position_at(p, read_bit)`): `set_pos` clamps -/
def bitAt (inp : Bits) (p : Nat) : Outcome Bool :=
  match inp[p]? with
  | some b => ok b
  | none => err .endOfStream

/-- per-sequence information for the components -/
structure SeqCtx where
  /-- position of the root presence bitmap -/
  presPos : Nat
  /-- extension bit was set -/
  extBit : Bool
  /-- bitmap window of the additions (start, number of announced additions), once read -/
  addWin : Option (Nat × Nat) := none
  /-- number of additions the local type knows -/
  nLocal : Nat

/-- header of the extension part: number of announced additions; returns the bitmap window and
    the cursor behind the bitmap (clamped) -/
def readExtHeader : RdP (Nat × Nat) := fun inp pos => do
  let (n, p) ← liftL1 rSmall inp pos
  if n + 1 > U64_MAX then err .valueNotInRange      -- checked_add
  else ok ((p, n + 1), min (p + (n + 1)) inp.length)

/-- `skip_unknown_extension_additions`: additions `idx ..< nRead` of the bitmap at `win` that this
    version of the type does not know; each present one is a length determinant + that many octets -/
def skipUnknown (win nRead : Nat) (idx : Nat) : RdP Unit := fun inp pos =>
  if h : idx < nRead then
    match bitAt inp (win + idx) with
    | .ok present =>
      if present then
        match readOpen (fun _ p => ok ((), p)) inp pos with
        | .ok (_, p) => skipUnknown win nRead (idx + 1) inp p
        | .err k => err k
        | .panic => panic
      else skipUnknown win nRead (idx + 1) inp pos
    | .err k => err k
    | .panic => panic
  else ok ((), pos)
termination_by nRead - idx

/-- `n` elements (scope stashed), with the element reader -/
def decListWith (r : RdP Val) : Nat → RdP Vals
  | 0 => fun _ pos => ok (.nil, pos)
  | n + 1 => fun inp pos => do
    let (v, p) ← r inp pos
    let (vs, p') ← decListWith r n inp p
    ok (.cons v vs, p')

/-- value of an absent OPTIONAL/DEFAULT component -/
def Kind.absent : Kind → Val
  | .d dv => dv
  | _ => .none

/-- wraps a present OPTIONAL component -/
def Kind.wrap : Kind → Val → Val
  | .o, x => .some x
  | _, x => x

mutual
def dec : Ty → RdP Val
  | .bool => fun inp pos => do
    let (b, p) ← liftL1 rdBit inp pos
    ok (.bool b, p)
  | .null => fun _ pos => ok (.null, pos)
  | .int min max ext width signed => fun inp pos => do
    let (unconstrained, p0) ← (if ext then liftL1 rdBit inp pos else ok (min.isNone && max.isNone, pos))
    let (v, p1) ← (if unconstrained then liftL1 rUnconstrained inp p0
      else liftL1 (rConstrained (min.getD 0) (max.getD I64_MAX)) inp p0)
    ok (.int (castInt width signed v), p1)
  | .enum std total ext => fun inp pos => do
    let (i, p) ← liftL1 (rIndex std ext) inp pos
    if i < total then ok (.enum i, p) else err .invalidChoiceIndex
  | .str cs min max ext => fun inp pos =>
    match cs with
    | .utf8 => do
      let (octets, p) ← liftL1 (rOctets none none false) inp pos
      match utf8Decode octets with
      | some _ => ok (.str octets, p)
      | none => err .utf8
    | cs => do
      let (isExt, p0) ← (if ext then liftL1 rdBit inp pos else ok (false, pos))
      let (len, p1) ← (if isExt then liftL1 (rLen none none) inp p0 else liftL1 (rLen min max) inp p0)
      -- a length the input cannot hold is an error
      if (inp.length - p1) / charWidth cs < len then err .endOfStream
      else
        let raw := (inp.drop p1).take (len * charWidth cs)
        let chars := (List.range len).map fun i =>
          let c := bitsToNat ((raw.drop (i * charWidth cs)).take (charWidth cs))
          match cs with
          | .numeric => if c = 0 then 32 else 32 + 15 + c
          | _ => c
        ok (.str (chars.map (BitVec.ofNat 8)), p1 + len * charWidth cs)
  | .oct min max ext => fun inp pos => do
    let (b, p) ← liftL1 (rOctets min max ext) inp pos
    ok (.oct b, p)
  | .bits min max ext => fun inp pos => do
    let (b, p) ← liftL1 (rBitString min max ext) inp pos
    ok (.bits b, p)
  | .seqOf min max ext elem => fun inp pos => do
    let (isExt, p0) ← (if ext then liftL1 rdBit inp pos else ok (false, pos))
    let (len, p1) ← (if isExt then liftL1 (rLen none none) inp p0 else liftL1 (rLen min max) inp p0)
    let (vs, p2) ← decListWith (dec elem) len inp p1
    ok (.list vs, p2)
  | .seq _ _ extAfter fields => fun inp pos => do
    let (extBit, p0) ← (match extAfter with
      | some _ => liftL1 rdBit inp pos
      | none => ok (false, pos))
    let rootCount := match extAfter with
      | none => fields.length
      | some k => k + 1
    let nOpt := fields.optCount rootCount
    if inp.length - p0 < nOpt then err .endOfStream
    else
      let ctx : SeqCtx := { presPos := p0, extBit := extBit, nLocal := fields.length - rootCount }
      let (vs, p1) ← decFields fields rootCount 0 0 ctx inp (p0 + nOpt)
      ok (.seq vs, p1)
  | .choice std total ext alts => fun inp pos => do
    let (i, p0) ← liftL1 (rIndex std ext) inp pos
    if i ≥ std then do
      let (len, p1) ← liftL1 (rLen none none) inp p0
      -- an unknown alternative: `read_content` returns `None`, then the error
      if i ≥ total then err .invalidChoiceIndex
      else do
        let (v, p2) ← subSlice len (decAlt alts i) inp p1
        ok (.choice i v, p2)
    else do
      let (v, p1) ← decAlt alts i inp p0
      ok (.choice i v, p1)

/-- content of alternative `i` -/
def decAlt : Fields → Nat → RdP Val
  | .nil, _ => fun _ _ => err .invalidChoiceIndex
  | .cons _ t _, 0 => dec t
  | .cons _ _ rest, i + 1 => decAlt rest i

/-- components in order; `rootLeft` root components to come, `optIdx` index into the root bitmap,
    `addIdx` index of the next extension addition -/
def decFields : Fields → Nat → Nat → Nat → SeqCtx → RdP Vals
  | .nil, _, _, addIdx, ctx => fun inp pos =>
    if ctx.extBit then do
      -- all known components are read: skip what a newer version has sent beyond them
      let ((win, nRead), pos) ← (match ctx.addWin with
        | some w => ok (w, pos)
        | none => readExtHeader inp pos : Outcome ((Nat × Nat) × Nat))
      let (_, p) ← skipUnknown win nRead addIdx inp pos
      ok (.nil, p)
    else ok (.nil, pos)
  | .cons k t rest, rootLeft, optIdx, addIdx, ctx => fun inp pos =>
    if rootLeft > 0 then do
      -- root component
      let present ← (if k.isOptional then bitAt inp (ctx.presPos + optIdx) else ok true)
      let optIdx' := if k.isOptional then optIdx + 1 else optIdx
      let (v, p) ← (if present then do
          let (x, p) ← dec t inp pos
          ok (k.wrap x, p)
        else ok (k.absent, pos) : Outcome (Val × Nat))
      let (vs, p') ← decFields rest (rootLeft - 1) optIdx' addIdx ctx inp p
      ok (.cons v vs, p')
    else if ctx.extBit then do
      -- first addition: number of announced additions, bitmap window, cursor behind the bitmap
      let ((win, nRead), pos) ← (match ctx.addWin with
        | some w => ok (w, pos)
        | none => readExtHeader inp pos : Outcome ((Nat × Nat) × Nat))
      let ctx := { ctx with addWin := some (win, nRead) }
      -- additions beyond the announced count are absent
      let present ← (if addIdx < nRead then bitAt inp (win + addIdx) else ok false)
      -- a mandatory addition ignores its presence bit and reads its content
      let (v, p) ← (if present || !k.isOptional then do
          let (x, p) ← (if k.isOptional || t.buffersOnRead then readOpen (dec t) inp pos else dec t inp pos)
          ok (k.wrap x, p)
        else ok (k.absent, pos) : Outcome (Val × Nat))
      let (vs, p') ← decFields rest 0 optIdx (addIdx + 1) ctx inp p
      ok (.cons v vs, p')
    else do
      -- no extension part was sent: additions are absent
      let (v, p) ← (match k with
        | .m => dec t inp pos
        | k => ok (k.absent, pos) : Outcome (Val × Nat))
      let (vs, p') ← decFields rest 0 optIdx (addIdx + 1) ctx inp p
      ok (.cons v vs, p')
end

end Asn1Verif.Uper
