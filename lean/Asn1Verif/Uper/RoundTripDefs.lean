import Asn1Verif.Uper.RoundTripBase
import Asn1Verif.Uper.ConformSeq
/-
  C01 — the decidable side condition `WF t v` of `roundtrip_partial`, as Bool-valued recursive
  predicates:
    `Ty.rtOk`  the descriptor's numbers are within the Rust types (`i64` bounds, `u64` counts) and no
               MANDATORY extension addition is a SEQUENCE OF (written inline, read as an open type)
    `valOk`    the value fits: integers within `i64` and their Rust type, indices below the number of
               alternatives, fewer than 16K items per SEQUENCE OF / restricted string (F-frag), every
               open-type content (extension addition, extension alternative) below 16K octets (the
               reader does not reassemble fragments)
-/
namespace Asn1Verif.Uper
open Asn1Verif Outcome Per

def optU64 (o : Option Nat) : Bool :=
  match o with
  | some u => decide (u ≤ U64_MAX)
  | none => true

mutual
def Ty.rtOk : Ty → Bool
  | .bool => true
  | .null => true
  | .int min max _ _ _ => decide (I64_MIN ≤ min.getD 0) && decide (max.getD I64_MAX ≤ I64_MAX)
  | .enum std _ _ => decide (std ≤ U64_MAX)
  | .str _ _ _ _ => true
  | .oct _ max _ => optU64 max
  | .bits _ max _ => optU64 max
  | .seqOf _ _ _ e => e.rtOk
  | .seq _ _ extAfter fs =>
    decide (fs.length ≤ U64_MAX) &&
      fs.rtOk (match extAfter with
        | none => fs.length
        | some k => k + 1)
  | .choice std _ _ alts => decide (std ≤ U64_MAX) && alts.rtOk alts.length
def Fields.rtOk : Fields → Nat → Bool
  | .nil, _ => true
  | .cons k t r, rootLeft =>
    t.rtOk && (decide (rootLeft > 0) || k.isOptional || (t.buffersOnWrite == t.buffersOnRead)) &&
      r.rtOk (rootLeft - 1)
end

/-- the content of an open type pads to fewer than 16K octets -/
def openOkC (o : Outcome Bits) : Bool :=
  match o with
  | .ok c => decide ((openOctets c).length < 16384)
  | _ => true

mutual
def valOk : Ty → Val → Bool
  | .bool, _ => true
  | .null, _ => true
  | .int _ _ _ w s, v =>
    match v with
    | .int i => decide (I64_MIN ≤ i) && decide (i ≤ I64_MAX) && decide (castInt w s i = i)
    | _ => true
  | .enum _ total _, v =>
    match v with
    | .enum i => decide (i < total) && decide (i ≤ U64_MAX)
    | _ => true
  | .str cs _ _ _, v =>
    match v with
    | .str bytes =>
      cs == .utf8 ||
        (match utf8Decode bytes with
         | some chars => decide (chars.length < 16384)
         | none => true)
    | _ => true
  | .oct _ _ _, _ => true
  | .bits _ _ _, _ => true
  | .seqOf _ _ _ e, v =>
    match v with
    | .list vs => decide (vs.length < 16384) && allVals (valOk e) vs
    | _ => true
  | .seq _ _ extAfter fs, v =>
    match v with
    | .seq vs =>
      valOkFields fs vs (match extAfter with
        | none => fs.length
        | some k => k + 1)
    | _ => true
  | .choice std total _ alts, v =>
    match v with
    | .choice i x =>
      decide (i < total) && decide (i ≤ U64_MAX) && valOkAlt alts i x &&
        (decide (i < std) || openOkC (encAlt alts i x))
    | _ => true
def valOkAlt : Fields → Nat → Val → Bool
  | .nil, _, _ => true
  | .cons _ t _, 0, v => valOk t v
  | .cons _ _ r, i + 1, v => valOkAlt r i v
def valOkFields : Fields → Vals → Nat → Bool
  | .nil, _, _ => true
  | .cons k t r, vs, rootLeft =>
    match vs with
    | .nil => true
    | .cons v vs =>
      (match fieldView k v with
       | some (true, x) =>
         valOk t x &&
           (decide (rootLeft > 0) || !(k.isOptional || t.buffersOnWrite) || openOkC (enc t x))
       | _ => true) && valOkFields r vs (rootLeft - 1)
end

/-- hypothesis of `roundtrip_partial` -/
def WF (t : Ty) (v : Val) : Bool := t.consistent && t.rtOk && valOk t v

/-! ### the unrestricted precondition of the full statement: the descriptor's numbers are within the
    Rust types and the value is a value of the Rust type — WITHOUT the exclusions of the findings
    (16K items, 16K-octet open types, mandatory SEQUENCE OF additions) -/

mutual
def Ty.descrOk : Ty → Bool
  | .bool => true
  | .null => true
  | .int min max _ _ _ => decide (I64_MIN ≤ min.getD 0) && decide (max.getD I64_MAX ≤ I64_MAX)
  | .enum std _ _ => decide (std ≤ U64_MAX)
  | .str _ _ _ _ => true
  | .oct _ max _ => optU64 max
  | .bits _ max _ => optU64 max
  | .seqOf _ _ _ e => e.descrOk
  | .seq _ _ _ fs => decide (fs.length ≤ U64_MAX) && fs.descrOk
  | .choice std _ _ alts => decide (std ≤ U64_MAX) && alts.descrOk
def Fields.descrOk : Fields → Bool
  | .nil => true
  | .cons _ t r => t.descrOk && r.descrOk
end

mutual
def typedOk : Ty → Val → Bool
  | .bool, _ => true
  | .null, _ => true
  | .int _ _ _ w s, v =>
    match v with
    | .int i => decide (I64_MIN ≤ i) && decide (i ≤ I64_MAX) && decide (castInt w s i = i)
    | _ => true
  | .enum _ total _, v =>
    match v with
    | .enum i => decide (i < total) && decide (i ≤ U64_MAX)
    | _ => true
  | .str _ _ _ _, _ => true
  | .oct _ _ _, _ => true
  | .bits _ _ _, _ => true
  | .seqOf _ _ _ e, v =>
    match v with
    | .list vs => decide (vs.length ≤ I64MAXu) && allVals (typedOk e) vs
    | _ => true
  | .seq _ _ _ fs, v =>
    match v with
    | .seq vs => typedOkFields fs vs
    | _ => true
  | .choice _ total _ alts, v =>
    match v with
    | .choice i x => decide (i < total) && decide (i ≤ U64_MAX) && typedOkAlt alts i x
    | _ => true
def typedOkAlt : Fields → Nat → Val → Bool
  | .nil, _, _ => true
  | .cons _ t _, 0, v => typedOk t v
  | .cons _ _ r, i + 1, v => typedOkAlt r i v
def typedOkFields : Fields → Vals → Bool
  | .nil, _ => true
  | .cons k t r, vs =>
    match vs with
    | .nil => true
    | .cons v vs =>
      (match fieldView k v with
       | some (true, x) => typedOk t x
       | _ => true) && typedOkFields r vs
end

/-- hypothesis of the full statement `roundtrip` -/
def Typed (t : Ty) (v : Val) : Bool := t.consistent && t.descrOk && typedOk t v

end Asn1Verif.Uper
