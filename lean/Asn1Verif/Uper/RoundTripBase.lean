import Asn1Verif.Uper.ConformNode
/-
  C01 — basic facts for the round trip: readers at a position of a fixed input (`liftL1`, `bitAt`),
  `Val.beq` decides equality, padding of open-type contents, UTF-8 of 7-bit text, fixed-width
  character fields.
-/
namespace Asn1Verif.Uper
open Asn1Verif Outcome Per

/-! ### readers at a position -/

/-- at position `pos` the input continues with `bits` and then `post` -/
def At (inp : Bits) (pos : Nat) (bits post : Bits) : Prop :=
  inp.drop pos = bits ++ post ∧ pos ≤ inp.length

theorem At.of_append (pre bits post : Bits) : At (pre ++ (bits ++ post)) pre.length bits post :=
  ⟨List.drop_left, by simp⟩

theorem At.bound {inp : Bits} {pos : Nat} {bits post : Bits} (h : At inp pos bits post) :
    pos + bits.length + post.length = inp.length := by
  have := congrArg List.length h.1
  simp only [List.length_drop, List.length_append] at this
  have := h.2
  omega

theorem At.left {inp : Bits} {pos : Nat} {a b post : Bits} (h : At inp pos (a ++ b) post) :
    At inp pos a (b ++ post) := ⟨by rw [h.1, List.append_assoc], h.2⟩

theorem At.right {inp : Bits} {pos : Nat} {a b post : Bits} (h : At inp pos (a ++ b) post) :
    At inp (pos + a.length) b post := by
  have hb := h.bound
  simp only [List.length_append] at hb
  refine ⟨?_, by omega⟩
  rw [← List.drop_drop, h.1, List.append_assoc, List.drop_left]

theorem At.skip {inp : Bits} {pos : Nat} {a post : Bits} (h : At inp pos a post) :
    At inp (pos + a.length) [] post := by
  have : At inp pos (a ++ []) post := by rw [List.append_nil]; exact h
  exact this.right

theorem At.assoc {inp : Bits} {pos : Nat} {a b post : Bits} (h : At inp pos a (b ++ post)) :
    At inp pos (a ++ b) post := ⟨by rw [h.1, List.append_assoc], h.2⟩

/-- an L1 reader that consumes exactly `bs` from `bs ++ post`, run at a position where `bs` stands -/
theorem At.lift {α : Type} {inp : Bits} {pos : Nat} {bs post : Bits} (h : At inp pos bs post)
    (r : Rd α) (a : α) (hr : r (bs ++ post) = ok (a, post)) :
    liftL1 r inp pos = ok (a, pos + bs.length) := by
  have hb := h.bound
  unfold liftL1
  rw [h.1, hr]
  simp only
  congr 2
  omega

theorem At.bit {inp : Bits} {pos : Nat} {bits post : Bits} (h : At inp pos bits post) (i : Nat)
    (b : Bool) (hi : bits[i]? = some b) : bitAt inp (pos + i) = ok b := by
  unfold bitAt
  have hlt : i < bits.length := by
    rcases Nat.lt_or_ge i bits.length with h' | h'
    · exact h'
    · rw [List.getElem?_eq_none h'] at hi; cases hi
  have : inp[pos + i]? = (inp.drop pos)[i]? := by rw [List.getElem?_drop]
  rw [this, h.1, List.getElem?_append_left hlt, hi]

/-! ### `Val.beq` is equality -/

mutual
theorem Val.beq_eq : ∀ (a b : Val), Val.beq a b = true → a = b
  | .bool a, .bool b, h => by simp only [Val.beq, beq_iff_eq] at h; rw [h]
  | .null, .null, _ => rfl
  | .int a, .int b, h => by simp only [Val.beq, beq_iff_eq] at h; rw [h]
  | .enum a, .enum b, h => by simp only [Val.beq, beq_iff_eq] at h; rw [h]
  | .str a, .str b, h => by simp only [Val.beq, beq_iff_eq] at h; rw [h]
  | .oct a, .oct b, h => by simp only [Val.beq, beq_iff_eq] at h; rw [h]
  | .bits a, .bits b, h => by simp only [Val.beq, beq_iff_eq] at h; rw [h]
  | .list a, .list b, h => by simp only [Val.beq] at h; rw [Vals.beq_eq a b h]
  | .seq a, .seq b, h => by simp only [Val.beq] at h; rw [Vals.beq_eq a b h]
  | .choice i a, .choice j b, h => by
    simp only [Val.beq, Bool.and_eq_true, beq_iff_eq] at h
    rw [h.1, Val.beq_eq a b h.2]
  | .none, .none, _ => rfl
  | .some a, .some b, h => by simp only [Val.beq] at h; rw [Val.beq_eq a b h]
theorem Vals.beq_eq : ∀ (a b : Vals), Vals.beq a b = true → a = b
  | .nil, .nil, _ => rfl
  | .cons a as, .cons b bs, h => by
    simp only [Vals.beq, Bool.and_eq_true] at h
    rw [Val.beq_eq a b h.1, Vals.beq_eq as bs h.2]
end

theorem val_beq_eq {a b : Val} (h : (a == b) = true) : a = b := Val.beq_eq a b h

/-! ### open types on the read side -/

/-- whole octets of bits, back to bits -/
theorem bytesBits_bitsBytes : ∀ (n : Nat) (b : Bits), b.length = 8 * n → bytesBits (bitsBytes b) = b := by
  intro n
  induction n with
  | zero =>
    intro b hb
    have : b = [] := List.eq_nil_of_length_eq_zero (by omega)
    subst this; rw [bitsBytes_nil]; rfl
  | succ n ih =>
    intro b hb
    rw [bitsBytes]
    have hne : ¬ b.isEmpty = true := by
      intro he; rw [List.isEmpty_iff] at he; subst he; simp at hb
    rw [dif_neg hne]
    simp only [bytesBits]
    rw [ih (b.drop 8) (by simp only [List.length_drop]; omega)]
    have h8 : (b.take 8).length = 8 := by simp only [List.length_take]; omega
    have : (BitVec.ofNat 8 (bitsToNat (b.take 8))).toNat = bitsToNat (b.take 8) := by
      simp only [BitVec.toNat_ofNat]
      have := bitsToNat_lt (b.take 8)
      rw [h8] at this
      exact Nat.mod_eq_of_lt this
    rw [this]
    have := natBits_bitsToNat (b.take 8)
    rw [h8] at this
    rw [this, List.take_append_drop]

theorem padToBytes_bits (c : Bits) :
    bytesBits (padToBytes c) = c ++ List.replicate ((8 - c.length % 8) % 8) false ∧
    (padToBytes c).length * 8 = c.length + (8 - c.length % 8) % 8 := by
  unfold padToBytes
  have hl : (c ++ List.replicate ((8 - c.length % 8) % 8) false).length
      = 8 * ((c.length + (8 - c.length % 8) % 8) / 8) := by
    simp only [List.length_append, List.length_replicate]; omega
  have h1 := bytesBits_bitsBytes _ _ hl
  refine ⟨h1, ?_⟩
  have := congrArg List.length h1
  rw [bytesBits_length, hl] at this
  omega

/-- the octets of an open type -/
def openOctets (c : Bits) : List Byte := if c.isEmpty then [0#8] else padToBytes c

theorem openOctets_bits (c : Bits) : ∃ pad, bytesBits (openOctets c) = c ++ pad := by
  unfold openOctets
  split
  · rename_i h
    rw [List.isEmpty_iff] at h; subst h
    exact ⟨_, rfl⟩
  · exact ⟨_, (padToBytes_bits c).1⟩

theorem openType_lt (c o : Bits) (ho : openType c = ok o) (hl : (openOctets c).length < 16384) :
    o = (X691.lenU (openOctets c).length).1 ++ bytesBits (openOctets c) := by
  have := wOctets_unc_ok _ _ ho
  rw [this]
  exact fragU_lt _ _ hl

/-- reading an unfragmented open type whose content reader succeeds on the content followed by
    anything: the length determinant, then `read_whole_sub_slice` -/
theorem open_at' {α : Type} (r : RdP α) (inp : Bits) (pos : Nat) (c post o : Bits) (a : α)
    (hat : At inp pos o post)
    (ho : openType c = ok o) (hl : (openOctets c).length < 16384)
    (hr : ∀ pos' post', At inp pos' c post' → ∃ q, r inp pos' = ok (a, q)) :
    ∃ n p1, liftL1 (rLen none none) inp pos = ok (n, p1) ∧
      subSlice n r inp p1 = ok (a, pos + o.length) := by
  have ho' := openType_lt c o ho hl
  obtain ⟨pad, hpad⟩ := openOctets_bits c
  subst ho'
  have hlen : rLen none none ((X691.lenU (openOctets c).length).1 ++ (bytesBits (openOctets c) ++ post))
      = ok ((openOctets c).length, bytesBits (openOctets c) ++ post) := by
    rw [rLen_unc, lenU_snd_lt hl]; rfl
  refine ⟨_, _, hat.left.lift _ _ hlen, ?_⟩
  unfold subSlice
  have h2 : At inp (pos + (X691.lenU (openOctets c).length).1.length) c (pad ++ post) := by
    have := hat.right
    rw [hpad] at this
    exact this.left
  obtain ⟨q, hq⟩ := hr _ _ h2
  rw [hq]
  have hb := hat.bound
  simp only [List.length_append, bytesBits_length] at hb
  simp only [Outcome.bind_ok, List.length_append, bytesBits_length]
  congr 2
  omega

theorem open_at {α : Type} (r : RdP α) (inp : Bits) (pos : Nat) (c post o : Bits) (a : α)
    (hat : At inp pos o post)
    (ho : openType c = ok o) (hl : (openOctets c).length < 16384)
    (hr : ∀ pos' post', At inp pos' c post' → r inp pos' = ok (a, pos' + c.length)) :
    ∃ n p1, liftL1 (rLen none none) inp pos = ok (n, p1) ∧
      subSlice n r inp p1 = ok (a, pos + o.length) :=
  open_at' r inp pos c post o a hat ho hl (fun pos' post' h => ⟨_, hr pos' post' h⟩)

/-- skipping an unfragmented open type (`skip_unknown_extension_additions`) -/
theorem skipOpen_at (inp : Bits) (pos : Nat) (c post o : Bits) (hat : At inp pos o post)
    (ho : openType c = ok o) (hl : (openOctets c).length < 16384) :
    readOpen (fun _ p => ok ((), p)) inp pos = ok ((), pos + o.length) := by
  obtain ⟨n, p1, h1, h2⟩ := open_at' (fun _ p => ok ((), p)) inp pos c post o () hat ho hl
    (fun pos' _ _ => ⟨pos', rfl⟩)
  unfold readOpen
  rw [h1]
  exact h2

theorem readOpen_at {α : Type} (r : RdP α) (inp : Bits) (pos : Nat) (c post o : Bits) (a : α)
    (hat : At inp pos o post)
    (ho : openType c = ok o) (hl : (openOctets c).length < 16384)
    (hr : ∀ pos' post', At inp pos' c post' → r inp pos' = ok (a, pos' + c.length)) :
    readOpen r inp pos = ok (a, pos + o.length) := by
  obtain ⟨n, p1, h1, h2⟩ := open_at r inp pos c post o a hat ho hl hr
  unfold readOpen
  rw [h1]
  exact h2

/-! ### UTF-8 of 7-bit text -/

theorem map_some_cons {x : Nat} {o : Option (List Nat)} {chars : List Nat}
    (h : o.map (x :: ·) = some chars) : ∃ r, o = some r ∧ chars = x :: r := by
  cases o with
  | none => cases h
  | some r => exact ⟨r, rfl, by injection h with h; exact h.symm⟩

theorem utf8_ascii (bytes : List Byte) : ∀ (chars : List Nat), utf8Decode bytes = some chars →
    (∀ c ∈ chars, c < 128) → chars.map (BitVec.ofNat 8) = bytes := by
  fun_induction utf8Decode bytes
  all_goals intro chars h hall
  all_goals try (cases h; done)
  case case1 => injection h with h; subst h; rfl
  case case2 b0 r x hx ih =>
    obtain ⟨r', h1, h2⟩ := map_some_cons h
    subst h2
    simp only [List.map_cons]
    rw [ih r' h1 (fun c hc => hall c (List.mem_cons_of_mem _ hc))]
    congr 1
    apply BitVec.eq_of_toNat_eq
    simp only [BitVec.toNat_ofNat]
    exact Nat.mod_eq_of_lt (by omega)
  case case7 b0 x _ _ _ _ b1 b2 r y z lo hi hc ih =>
    obtain ⟨r', h1, h2⟩ := map_some_cons h
    have := hall _ (by rw [h2]; exact List.mem_cons_self)
    have hlo : (x = 224 → 160 ≤ y) ∧ 128 ≤ y := by
      have := hc.1
      refine ⟨fun hx => ?_, ?_⟩
      · have e : lo = 160 := if_pos hx
        omega
      · have e : 128 ≤ lo := by show 128 ≤ (if _ then _ else _); split <;> omega
        omega
    by_cases hx : x = 224
    · have := hlo.1 hx; omega
    · omega
  case case10 b0 x _ _ _ _ _ b1 b2 b3 r y z w lo hi hc ih =>
    obtain ⟨r', h1, h2⟩ := map_some_cons h
    have := hall _ (by rw [h2]; exact List.mem_cons_self)
    have hlo : (x = 240 → 144 ≤ y) ∧ 128 ≤ y := by
      have := hc.1
      refine ⟨fun hx => ?_, ?_⟩
      · have e : lo = 144 := if_pos hx
        omega
      · have e : 128 ≤ lo := by show 128 ≤ (if _ then _ else _); split <;> omega
        omega
    by_cases hx : x = 240
    · have := hlo.1 hx; omega
    · omega
  all_goals
    obtain ⟨r', h1, h2⟩ := map_some_cons h
    have := hall _ (by rw [h2]; exact List.mem_cons_self)
    omega

end Asn1Verif.Uper
