import Asn1Verif.Per.ReadTotal
import Asn1Verif.Uper.Impl
/-
  L2 reader totality (C04, part 2): the positional UPER reader `dec` (and `decAlt`, `decFields`,
  `decListWith`, `subSlice`, `readOpen`, `skipUnknown`, `readExtHeader`, `liftL1`) for EVERY type
  descriptor (consistent or not), EVERY input and EVERY start position
    * never panics, and
    * when started inside the input (`pos ≤ inp.length`) and successful, returns a cursor `p`
      with `pos ≤ p ≤ inp.length`: the cursor only moves forward and never beyond the declared
      length (`inp` is exactly the declared bits).
  Both facts are packaged as `GoodP inp pos (r inp pos)`; `GoodP` composes along `>>=`.
-/
namespace Asn1Verif.Uper
open Asn1Verif Outcome Per Per.RT

/-- Outcome of a positional reader that was started at `pos` of `inp`. -/
def GoodP {α : Type} (inp : Bits) (pos : Nat) : Outcome (α × Nat) → Prop
  | .ok (_, p) => pos ≤ inp.length → pos ≤ p ∧ p ≤ inp.length
  | .err _ => True
  | .panic => False

section
variable {α β γ : Type} {inp : Bits} {pos : Nat}

@[simp] theorem goodP_err (k : ErrKind) : GoodP inp pos (err k : Outcome (α × Nat)) := trivial

theorem GoodP.ne_panic {o : Outcome (α × Nat)} (h : GoodP inp pos o) : o ≠ .panic := by
  intro e; subst e; exact h

theorem GoodP.bounds {o : Outcome (α × Nat)} (h : GoodP inp pos o) {a : α} {p : Nat}
    (e : o = ok (a, p)) (hp : pos ≤ inp.length) : pos ≤ p ∧ p ≤ inp.length := by
  subst e; exact h hp

/-- a reader that does not move -/
theorem GoodP.pure (a : α) : GoodP inp pos (ok (a, pos)) := fun h => ⟨Nat.le_refl _, h⟩

/-- a reader that lands at `p` -/
theorem GoodP.at (a : α) {p : Nat} (h : pos ≤ inp.length → pos ≤ p ∧ p ≤ inp.length) :
    GoodP inp pos (ok (a, p)) := h

/-- sequential composition -/
theorem GoodP.bind {x : Outcome (α × Nat)} {f : α × Nat → Outcome (β × Nat)}
    (hx : GoodP inp pos x) (hf : ∀ a p, x = ok (a, p) → GoodP inp p (f (a, p))) :
    GoodP inp pos (x >>= f) := by
  match x, hx, hf with
  | .ok (a, p), hx, hf =>
    have h2 := hf a p rfl
    show GoodP inp pos (f (a, p))
    match f (a, p), h2 with
    | .ok (b, q), h2 =>
      intro hp
      have h1 := hx hp
      have h3 := h2 h1.2
      exact ⟨Nat.le_trans h1.1 h3.1, h3.2⟩
    | .err _, _ => trivial
  | .err _, _, _ => trivial

/-- composition with a step that returns no cursor (`bitAt`) -/
theorem GoodP.bind_plain {x : Outcome γ} {f : γ → Outcome (β × Nat)}
    (hx : x ≠ .panic) (hf : ∀ c, x = ok c → GoodP inp pos (f c)) : GoodP inp pos (x >>= f) := by
  match x, hx, hf with
  | .ok c, _, hf => exact hf c rfl
  | .err _, _, _ => trivial
  | .panic, hx, _ => exact absurd rfl hx

/-- the continuation was started further right (still inside the input) -/
theorem GoodP.shift {o : Outcome (α × Nat)} {pos' : Nat}
    (h1 : pos ≤ inp.length → pos ≤ pos' ∧ pos' ≤ inp.length) (h : GoodP inp pos' o) :
    GoodP inp pos o := by
  match o, h with
  | .ok (_, p), h =>
    intro hp
    have := h (h1 hp).2
    exact ⟨Nat.le_trans (h1 hp).1 this.1, this.2⟩
  | .err _, _ => trivial

end

/-! ### the combinators -/

theorem liftL1_good {α : Type} {r : Per.Rd α} (hr : ∀ bs, Good bs (r bs)) (inp : Bits) (pos : Nat) :
    GoodP inp pos (liftL1 r inp pos) := by
  unfold liftL1
  have h := hr (inp.drop pos)
  split
  · rename_i a rest e
    rw [e] at h
    intro hp
    have hl := List.IsSuffix.length_le h
    rw [List.length_drop] at hl
    omega
  · trivial
  · rename_i e; rw [e] at h; exact h

/-- unconditionally: a lifted L1 reader never ends beyond the declared length -/
theorem liftL1_le {α : Type} {r : Per.Rd α} {inp : Bits} {pos p : Nat} {a : α}
    (h : liftL1 r inp pos = ok (a, p)) : p ≤ inp.length := by
  unfold liftL1 at h
  split at h
  · simp only [ok.injEq, Prod.mk.injEq] at h; omega
  · simp at h
  · simp at h

theorem subSlice_good {α : Type} {r : RdP α} (lenBytes : Nat) {inp : Bits} {pos : Nat}
    (hr : GoodP inp pos (r inp pos)) : GoodP inp pos (subSlice lenBytes r inp pos) := by
  unfold subSlice
  match r inp pos, hr with
  | .ok (a, _), _ =>
    show GoodP inp pos (ok (a, min (pos + lenBytes * 8) inp.length))
    intro hp
    omega
  | .err _, _ => trivial

theorem readOpen_good {α : Type} {r : RdP α} {inp : Bits}
    (hr : ∀ pos, GoodP inp pos (r inp pos)) (pos : Nat) : GoodP inp pos (readOpen r inp pos) := by
  unfold readOpen
  refine GoodP.bind (liftL1_good (rLen_good _ _) _ _) (fun len p _ => ?_)
  exact subSlice_good _ (hr p)

theorem bitAt_ne_panic (inp : Bits) (p : Nat) : bitAt inp p ≠ .panic := by
  unfold bitAt; split <;> simp

theorem readExtHeader_good (inp : Bits) (pos : Nat) : GoodP inp pos (readExtHeader inp pos) := by
  unfold readExtHeader
  refine GoodP.bind (liftL1_good rSmall_good _ _) (fun n p _ => ?_)
  dsimp only
  split
  · trivial
  · intro hp; omega

theorem skipUnknown_good (win nRead idx : Nat) (inp : Bits) (pos : Nat) :
    GoodP inp pos (skipUnknown win nRead idx inp pos) := by
  fun_induction skipUnknown win nRead idx inp pos with
  | case1 idx pos _ u p he _ ih =>
    -- present: the open type is skipped, the cursor lands at `p`
    have h := readOpen_good (r := fun _ p => ok ((), p)) (inp := inp) (fun q => GoodP.pure ()) pos
    rw [he] at h
    exact GoodP.shift h ih
  | case2 => trivial
  | case3 idx pos _ he _ =>
    exact absurd he
      (readOpen_good (r := fun _ p => ok ((), p)) (inp := inp) (fun q => GoodP.pure ()) pos).ne_panic
  | case4 idx pos _ present _ _ ih => exact ih
  | case5 => trivial
  | case6 idx pos _ he => exact absurd he (bitAt_ne_panic _ _)
  | case7 idx pos _ => exact GoodP.pure ()

theorem decListWith_good {r : RdP Val} {inp : Bits} (hr : ∀ pos, GoodP inp pos (r inp pos)) :
    ∀ (n pos : Nat), GoodP inp pos (decListWith r n inp pos)
  | 0, pos => GoodP.pure _
  | n + 1, pos => by
    unfold decListWith
    refine GoodP.bind (hr pos) (fun v p _ => ?_)
    refine GoodP.bind (decListWith_good hr n p) (fun vs p' _ => ?_)
    exact GoodP.pure _

/-- the optional leading extension bit -/
theorem extBitP_good (ext : Bool) (b : Bool) (inp : Bits) (pos : Nat) :
    GoodP inp pos (if ext then liftL1 rdBit inp pos else ok (b, pos)) := by
  split
  · exact liftL1_good rdBit_good _ _
  · exact GoodP.pure _

/-- the length determinant of SEQUENCE OF and the restricted strings -/
theorem lenP_good (isExt : Bool) (min max : Option Nat) (inp : Bits) (pos : Nat) :
    GoodP inp pos (if isExt then liftL1 (rLen none none) inp pos else liftL1 (rLen min max) inp pos) := by
  split <;> exact liftL1_good (rLen_good _ _) _ _

/-- the bitmap window: already known or read now -/
theorem addWin_good (w : Option (Nat × Nat)) (inp : Bits) (pos : Nat) :
    GoodP inp pos (match w with
      | some w => ok (w, pos)
      | none => readExtHeader inp pos : Outcome ((Nat × Nat) × Nat)) := by
  split
  · exact GoodP.pure _
  · exact readExtHeader_good _ _

/-! ### the mutual induction over `Ty` / `Fields` -/

mutual
theorem dec_good : ∀ (t : Ty) (inp : Bits) (pos : Nat), GoodP inp pos (dec t inp pos)
  | .bool, inp, pos => by
    unfold dec
    exact GoodP.bind (liftL1_good rdBit_good _ _) (fun b p _ => GoodP.pure _)
  | .null, inp, pos => by
    unfold dec
    exact GoodP.pure _
  | .int min max ext width signed, inp, pos => by
    unfold dec
    refine GoodP.bind (extBitP_good _ _ _ _) (fun u p0 _ => ?_)
    dsimp only
    refine GoodP.bind ?_ (fun v p1 _ => GoodP.pure _)
    split
    · exact liftL1_good rUnconstrained_good _ _
    · exact liftL1_good (rConstrained_good _ _) _ _
  | .enum std total ext, inp, pos => by
    unfold dec
    refine GoodP.bind (liftL1_good (rIndex_good _ _) _ _) (fun i p _ => ?_)
    dsimp only
    split
    · exact GoodP.pure _
    · trivial
  | .str cs min max ext, inp, pos => by
    unfold dec
    split
    · refine GoodP.bind (liftL1_good (rOctets_good _ _ _) _ _) (fun o p _ => ?_)
      dsimp only
      split
      · exact GoodP.pure _
      · trivial
    · refine GoodP.bind (extBitP_good _ _ _ _) (fun isExt p0 _ => ?_)
      dsimp only
      refine GoodP.bind (lenP_good _ _ _ _ _) (fun len p1 _ => ?_)
      dsimp only
      split
      · trivial
      · rename_i hlen
        refine GoodP.at _ (fun hp => ?_)
        have h1 : len ≤ (inp.length - p1) / charWidth cs := Nat.le_of_not_lt hlen
        have h2 := Nat.mul_le_mul_right (charWidth cs) h1
        have h3 := Nat.div_mul_le_self (inp.length - p1) (charWidth cs)
        omega
  | .oct min max ext, inp, pos => by
    unfold dec
    exact GoodP.bind (liftL1_good (rOctets_good _ _ _) _ _) (fun b p _ => GoodP.pure _)
  | .bits min max ext, inp, pos => by
    unfold dec
    exact GoodP.bind (liftL1_good (rBitString_good _ _ _) _ _) (fun b p _ => GoodP.pure _)
  | .seqOf min max ext elem, inp, pos => by
    unfold dec
    refine GoodP.bind (extBitP_good _ _ _ _) (fun isExt p0 _ => ?_)
    dsimp only
    refine GoodP.bind (lenP_good _ _ _ _ _) (fun len p1 _ => ?_)
    dsimp only
    refine GoodP.bind (decListWith_good (fun q => dec_good elem inp q) len p1) (fun vs p2 _ => ?_)
    exact GoodP.pure _
  | .seq stdOpt fieldCount extAfter fields, inp, pos => by
    unfold dec
    refine GoodP.bind ?_ (fun extBit p0 _ => ?_)
    · split
      · exact liftL1_good rdBit_good _ _
      · exact GoodP.pure _
    · dsimp only
      split <;>
      · split
        · trivial
        · refine GoodP.bind (GoodP.shift ?_ (decFields_good fields _ _ _ _ inp _))
            (fun vs p1 _ => GoodP.pure _)
          intro hp; omega
  | .choice std total ext alts, inp, pos => by
    unfold dec
    refine GoodP.bind (liftL1_good (rIndex_good _ _) _ _) (fun i p0 _ => ?_)
    dsimp only
    split
    · refine GoodP.bind (liftL1_good (rLen_good _ _) _ _) (fun len p1 _ => ?_)
      dsimp only
      split
      · trivial
      · exact GoodP.bind (subSlice_good _ (decAlt_good alts i inp p1)) (fun v p2 _ => GoodP.pure _)
    · exact GoodP.bind (decAlt_good alts i inp p0) (fun v p1 _ => GoodP.pure _)

theorem decAlt_good : ∀ (fs : Fields) (i : Nat) (inp : Bits) (pos : Nat),
    GoodP inp pos (decAlt fs i inp pos)
  | .nil, _, inp, pos => by unfold decAlt; trivial
  | .cons _ t _, 0, inp, pos => by unfold decAlt; exact dec_good t inp pos
  | .cons _ _ rest, i + 1, inp, pos => by unfold decAlt; exact decAlt_good rest i inp pos

theorem decFields_good : ∀ (fs : Fields) (rootLeft optIdx addIdx : Nat) (ctx : SeqCtx)
    (inp : Bits) (pos : Nat), GoodP inp pos (decFields fs rootLeft optIdx addIdx ctx inp pos)
  | .nil, rootLeft, optIdx, addIdx, ctx, inp, pos => by
    unfold decFields
    split
    · refine GoodP.bind (addWin_good _ _ _) (fun wn p _ => ?_)
      obtain ⟨win, nRead⟩ := wn
      dsimp only
      exact GoodP.bind (skipUnknown_good _ _ _ _ _) (fun _ p' _ => GoodP.pure _)
    · exact GoodP.pure _
  | .cons k t rest, rootLeft, optIdx, addIdx, ctx, inp, pos => by
    unfold decFields
    split
    · -- root component
      refine GoodP.bind_plain ?_ (fun present _ => ?_)
      · split
        · exact bitAt_ne_panic _ _
        · simp
      · dsimp only
        refine GoodP.bind ?_ (fun v p _ => ?_)
        · split
          · exact GoodP.bind (dec_good t inp pos) (fun x p _ => GoodP.pure _)
          · exact GoodP.pure _
        · dsimp only
          exact GoodP.bind (decFields_good rest _ _ _ _ inp p) (fun vs p' _ => GoodP.pure _)
    · split
      · -- extension addition, extension part present
        refine GoodP.bind (addWin_good _ _ _) (fun wn p _ => ?_)
        obtain ⟨win, nRead⟩ := wn
        dsimp only
        refine GoodP.bind_plain ?_ (fun present _ => ?_)
        · split
          · exact bitAt_ne_panic _ _
          · simp
        · refine GoodP.bind ?_ (fun v p' _ => ?_)
          · split
            · refine GoodP.bind ?_ (fun x p' _ => GoodP.pure _)
              split
              · exact readOpen_good (fun q => dec_good t inp q) p
              · exact dec_good t inp p
            · exact GoodP.pure _
          · dsimp only
            exact GoodP.bind (decFields_good rest _ _ _ _ inp p') (fun vs p'' _ => GoodP.pure _)
      · -- extension addition, no extension part
        refine GoodP.bind ?_ (fun v p _ => ?_)
        · split
          · exact dec_good t inp pos
          · exact GoodP.pure _
        · dsimp only
          exact GoodP.bind (decFields_good rest _ _ _ _ inp p) (fun vs p' _ => GoodP.pure _)
end

end Asn1Verif.Uper
