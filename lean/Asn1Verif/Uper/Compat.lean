import Asn1Verif.Uper.CompatDefs
/-
  C05 — SEQUENCE / SET across schema versions.  `walk`: along the common components the reader
  follows the writer (the step lemmas of C01, `cont_cons`), whatever the two sides do behind them
  (`Cont` of the tails).  Forward tail: the reader knows additions the writer did not send (all
  absent).  Backward tail: the writer sent additions the reader does not know (`skipUnknown`).
-/
namespace Asn1Verif.Uper
open Asn1Verif Outcome Per

/-- the common components, any tails -/
theorem walk : ∀ (fs : Fields) (vs : Vals) (wt : Fields) (wtv : Vals) (rtl : Fields) (rtv : Vals)
    (rootLeft : Nat) (fin : SeqAcc) (inp : Bits) (P B : Nat) (post : Bits),
    vs.length = fs.length → fs.rtOk rootLeft = true → valOkFields fs vs rootLeft = true →
    (fs.append wt).length ≤ U64_MAX → SeqLayout inp fin P B post →
    Cont wt wtv rtl rtv (rootLeft - fs.length) fin inp P B →
    Cont (fs.append wt) (vs.append wtv) (fs.append rtl) (vs.append rtv) rootLeft fin inp P B
  | .nil, .nil, wt, wtv, rtl, rtv, rootLeft, fin, inp, P, B, post, _, _, _, _, _, hc => by
    simpa [Fields.append, Vals.append, Fields.length] using hc
  | .nil, .cons _ _, _, _, _, _, _, _, _, _, _, _, hl, _, _, _, _, _ => by
    simp [Vals.length, Fields.length] at hl
  | .cons _ _ _, .nil, _, _, _, _, _, _, _, _, _, _, hl, _, _, _, _, _ => by
    simp [Vals.length, Fields.length] at hl
  | .cons k t rest, .cons v vs, wt, wtv, rtl, rtv, rootLeft, fin, inp, P, B, post, hl, hrt, hvo, hlen,
      L, hc => by
    simp only [Fields.rtOk, Bool.and_eq_true] at hrt
    simp only [valOkFields, Bool.and_eq_true] at hvo
    simp only [Fields.append, Fields.length] at hlen
    simp only [Vals.length, Fields.length] at hl
    simp only [Fields.append, Vals.append]
    have ih := walk rest vs wt wtv rtl rtv (rootLeft - 1) fin inp P B post (by omega) hrt.2 hvo.2
      (by omega) L (by
        have : rootLeft - 1 - rest.length = rootLeft - (Fields.cons k t rest).length := by
          simp only [Fields.length]; omega
        rw [this]; exact hc)
    exact cont_cons k t (rest.append wt) (vs.append wtv) (rest.append rtl) (vs.append rtv)
      (rt t hrt.1.1) v rootLeft fin inp P B post L (by simpa [Bool.or_assoc] using hrt.1.2) hvo.1
      (by omega) ih

/-! ### forward: additions the writer does not know are absent -/

theorem skipUnknown_ge (win nRead idx : Nat) (inp : Bits) (pos : Nat) (h : nRead ≤ idx) :
    skipUnknown win nRead idx inp pos = ok ((), pos) := by
  rw [skipUnknown]
  rw [dif_neg (by omega)]

/-- no extension part was sent -/
theorem absent_noext : ∀ (adds : Fields) (oi ai : Nat) (ctx : SeqCtx) (inp : Bits) (pos : Nat),
    adds.allOpt = true → ctx.extBit = false →
    decFields adds 0 oi ai ctx inp pos = ok (adds.absents, pos)
  | .nil, oi, ai, ctx, inp, pos, _, hx => by
    simp [decFields, hx, Fields.absents]
  | .cons k t r, oi, ai, ctx, inp, pos, ho, hx => by
    simp only [Fields.allOpt, Bool.and_eq_true] at ho
    have ih := absent_noext r oi (ai + 1) ctx inp pos ho.2 hx
    simp only [decFields, Nat.lt_irrefl, if_false, hx, Bool.false_eq_true, Fields.absents]
    cases k with
    | m => simp [Kind.isOptional] at ho
    | o => simp only [Outcome.bind_ok, ih]
    | d dv => simp only [Outcome.bind_ok, ih]

/-- an extension part was sent, announcing no more additions than already read -/
theorem absent_ext : ∀ (adds : Fields) (oi ai : Nat) (ctx : SeqCtx) (inp : Bits) (pos win nRead : Nat),
    adds.allOpt = true → ctx.extBit = true → ctx.addWin = some (win, nRead) → nRead ≤ ai →
    decFields adds 0 oi ai ctx inp pos = ok (adds.absents, pos)
  | .nil, oi, ai, ctx, inp, pos, win, nRead, _, hx, hw, hn => by
    simp only [decFields, hx, if_true, hw, Outcome.bind_ok, skipUnknown_ge win nRead ai inp pos hn,
      Fields.absents]
  | .cons k t r, oi, ai, ctx, inp, pos, win, nRead, ho, hx, hw, hn => by
    simp only [Fields.allOpt, Bool.and_eq_true] at ho
    have ih := absent_ext r oi (ai + 1)
      { presPos := ctx.presPos, extBit := true, addWin := some (win, nRead), nLocal := ctx.nLocal }
      inp pos win nRead ho.2 rfl rfl (by omega)
    have hlt : ¬ ai < nRead := by omega
    simp only [decFields, Nat.lt_irrefl, if_false, hx, if_true, hw, Outcome.bind_ok, hlt, ho.1,
      Bool.not_true, Bool.or_self, Bool.false_eq_true, ih, Fields.absents]

/-- forward tail: the writer is at the end of its list -/
theorem cont_fwd_tail (adds : Fields) (ho : adds.allOpt = true) (fin : SeqAcc) (inp : Bits)
    (P B : Nat) (post : Bits) (L : SeqLayout inp fin P B post) :
    Cont .nil .nil adds adds.absents 0 fin inp P B := by
  intro acc ctx addIdx pos henc _ hext hinv
  simp only [encFields] at henc
  injection henc with henc; subst henc
  unfold StateInv at hinv
  cases hst : acc.st with
  | all =>
    simp only [hst] at hinv
    obtain ⟨_, hwin, hidx, hpos⟩ := hinv
    have hx : ctx.extBit = true := by rw [hext, hst]; rfl
    rw [absent_ext adds _ addIdx ctx inp pos _ _ ho hx hwin (by omega), hpos,
      (layout_ext L hst).2.2.2]
  | root =>
    simp only [hst] at hinv
    have hx : ctx.extBit = false := by rw [hext, hst]; rfl
    rw [absent_noext adds _ addIdx ctx inp pos ho hx, hinv.2.1,
      layout_noext (by rw [hst]; intro h; cases h)]
  | empty =>
    simp only [hst] at hinv
    have hx : ctx.extBit = false := by rw [hext, hst]; rfl
    rw [absent_noext adds _ addIdx ctx inp pos ho hx, hinv.2.1,
      layout_noext (by rw [hst]; intro h; cases h)]

end Asn1Verif.Uper
