import Asn1Verif.Uper.RejLemmas
/-
  L2 — the UPER writer mirror never unwinds: `enc t v ≠ panic` for every type descriptor and every
  value tree (well-typed or not), by mutual structural recursion over `Ty`/`Fields`.  The only
  `panic` branches of the writer (`&src[written..written + fs]` in `write_octetstring` and its
  fragment loop) are unreachable because an announced fragment never exceeds the length
  (`wLen_cases`).  Consequence: a constraint violation anywhere in a value tree makes the encoder
  return an *error* (`violates_err`).  Used by `Props/C06.lean` and `Props/C03.lean`.
-/
namespace Asn1Verif.Uper
open Asn1Verif Outcome Per

theorem wNNBIc_cases (lb ub : Option Nat) (v : Nat) :
    (∃ e, wNNBIc lb ub v = err e) ∨ ∃ b, wNNBIc lb ub v = ok b := by
  unfold wNNBIc
  simp only
  split
  · exact Or.inl ⟨_, rfl⟩
  · exact Or.inr ⟨_, rfl⟩

/-- a length determinant is refused or written; an announced fragment never exceeds the length -/
theorem wLen_cases (lb ub : Option Nat) (v : Nat) :
    (∃ e, wLen lb ub v = err e) ∨ ∃ b f, wLen lb ub v = ok (b, f) ∧ f.getD v ≤ v := by
  have hn : ∀ (l u : Option Nat) (g : Bits → Bits),
      (∃ e, (wNNBIc l u v >>= fun b => ok (g b, (none : Option Nat))) = err e) ∨
      ∃ b f, (wNNBIc l u v >>= fun b => ok (g b, (none : Option Nat))) = ok (b, f) ∧ f.getD v ≤ v := by
    intro l u g
    rcases wNNBIc_cases l u v with ⟨e, he⟩ | ⟨b, hb⟩
    · exact Or.inl ⟨e, by rw [he]; rfl⟩
    · exact Or.inr ⟨g b, none, by rw [hb]; rfl, Nat.le_refl _⟩
  unfold wLen
  simp only
  split
  · split
    · exact Or.inr ⟨_, _, rfl, Nat.le_refl _⟩
    · split
      · exact Or.inl ⟨_, rfl⟩
      · exact hn lb ub id
  · split
    · exact hn lb ub id
    · split
      · exact hn none (some Consts.LENGTH_127) (false :: ·)
      · split
        · exact hn none (some (Consts.LENGTH_16K - 1)) (fun b => true :: false :: b)
        · refine Or.inr ⟨_, _, rfl, ?_⟩
          simp only [Option.getD_some, Consts.LENGTH_16K, Consts.MAX_FRAGMENTS]
          omega

theorem wLen_ne_panic (lb ub : Option Nat) (v : Nat) : wLen lb ub v ≠ panic := by
  rcases wLen_cases lb ub v with ⟨e, h⟩ | ⟨b, f, h, _⟩ <;> rw [h] <;> simp

theorem wNNBI_ne_panic (lb ub : Option Nat) (v : Nat) : wNNBI lb ub v ≠ panic := by
  have hc : wNNBIc lb ub v ≠ panic := by
    rcases wNNBIc_cases lb ub v with ⟨e, h⟩ | ⟨b, h⟩ <;> rw [h] <;> simp
  unfold wNNBI
  split
  · have h8 : 8 - min (lz64 v / 8) 7 ≤ 127 := by omega
    simp [wLen_unc_small h8]
  · exact hc

theorem wConstrained_ne_panic (lb ub v : Int) : wConstrained lb ub v ≠ panic := by
  unfold wConstrained
  split
  · simp
  · split
    · exact wNNBI_ne_panic _ _ _
    · simp

theorem wIndex_ne_panic (std : Nat) (ext : Bool) (i : Nat) : wIndex std ext i ≠ panic := by
  by_cases h : i < std
  · rw [Per.wIndex_root std ext i h]; simp
  · cases ext with
    | true =>
      obtain ⟨b, _, hb⟩ := wIndex_ext_out (std := std) (i := i) (by omega)
      rw [hb]; simp
    | false => rw [Per.wIndex_err std i (by omega)]; simp

theorem wExtLen_ne_panic (ext : Bool) (min max : Option Nat) (ul len : Nat) :
    wExtLen ext min max ul len ≠ panic := by
  have hb : ∀ (l u : Option Nat) (pre : Bits),
      (wLen l u len >>= fun x => ok (pre ++ x.1)) ≠ (panic : Outcome Bits) := by
    intro l u pre h
    rcases bind_eq_panic.1 h with h | ⟨_, _, h⟩
    · exact wLen_ne_panic _ _ _ h
    · cases h
  unfold wExtLen
  simp only
  split
  · split
    · simp
    · exact hb none none _
  · exact hb min max _

theorem wOctets_ne_panic (lb ub : Option Nat) (ext : Bool) (src : List (BitVec 8)) :
    wOctets lb ub ext src ≠ panic := by
  -- the common tail: header written, then the octets (fragmented when announced)
  have hbody : ∀ (l u : Option Nat) (pre : Bits),
      (wLen l u src.length >>= fun x =>
        (if x.2.getD src.length ≤ src.length then
          match x.2 with
          | none => ok (pre ++ x.1 ++ bytesBits (src.take (x.2.getD src.length)))
          | some _ => wOctFrag (src.drop (x.2.getD src.length)) >>= fun more =>
              ok (pre ++ x.1 ++ bytesBits (src.take (x.2.getD src.length)) ++ more)
        else panic)) ≠ (panic : Outcome Bits) := by
    intro l u pre h
    rcases wLen_cases l u src.length with ⟨e, he⟩ | ⟨b, f, hf, hle⟩
    · rw [he] at h; cases h
    · rw [hf] at h
      simp only [bind_ok, hle, if_true] at h
      cases f with
      | none => cases h
      | some f =>
        obtain ⟨m, hm⟩ := wOctFrag_ok (src.drop f)
        simp only [Option.getD_some, hm, bind_ok] at h
        cases h
  unfold wOctets
  simp only
  split
  · split
    · exact hbody none none _
    · simp
  · split
    · simp
    · split
      · simp
      · exact hbody lb ub _

theorem wBitString_ne_panic (lb ub : Option Nat) (ext : Bool) (bits : Bits) :
    wBitString lb ub ext bits ≠ panic := by
  have hbody : ∀ (l u : Option Nat) (pre : Bits),
      (wLen l u bits.length >>= fun x =>
        (if x.2.getD bits.length ≤ bits.length then
          match x.2 with
          | none => ok (pre ++ x.1 ++ bits.take (x.2.getD bits.length))
          | some _ => wBitFrag (bits.drop (x.2.getD bits.length)) >>= fun more =>
              ok (pre ++ x.1 ++ bits.take (x.2.getD bits.length) ++ more)
        else err .endOfStream)) ≠ (panic : Outcome Bits) := by
    intro l u pre h
    rcases wLen_cases l u bits.length with ⟨e, he⟩ | ⟨b, f, hf, hle⟩
    · rw [he] at h; cases h
    · rw [hf] at h
      simp only [bind_ok, hle, if_true] at h
      cases f with
      | none => cases h
      | some f =>
        obtain ⟨m, hm⟩ := wBitFrag_ok (bits.drop f)
        simp only [Option.getD_some, hm, bind_ok] at h
        cases h
  unfold wBitString
  simp only
  split
  · split
    · exact hbody none none _
    · simp
  · split
    · simp
    · exact hbody lb ub _

theorem encListWith_ne_panic (f : Val → Outcome Bits) (hf : ∀ v, f v ≠ panic) :
    ∀ vs : Vals, encListWith f vs ≠ panic
  | .nil => by simp [encListWith]
  | .cons v vs => by
    simp only [encListWith]
    intro h
    rcases bind_eq_panic.1 h with h | ⟨_, _, h⟩
    · exact hf v h
    · rcases bind_eq_panic.1 h with h | ⟨_, _, h⟩
      · exact encListWith_ne_panic f hf vs h
      · cases h

theorem ne_panic_bind_ok {α β : Type} {x : Outcome α} {g : α → β} (hx : x ≠ panic) :
    (x >>= fun a => ok (g a)) ≠ (panic : Outcome β) := by
  intro h
  rcases bind_eq_panic.1 h with h | ⟨_, _, h⟩
  · exact hx h
  · cases h

theorem int_body_ne_panic (u : Bool) (pre : Bits) (lb ub i : Int) :
    (if u = true then (wUnconstrained i >>= fun b => ok (pre ++ b))
     else (wConstrained lb ub i >>= fun b => ok (pre ++ b))) ≠ (panic : Outcome Bits) := by
  split
  · obtain ⟨b, hb⟩ := wUnconstrained_total i
    rw [hb]; simp
  · exact ne_panic_bind_ok (wConstrained_ne_panic _ _ _)

mutual
/-- the UPER writer never unwinds: for every type descriptor and every value tree the outcome is
    an encoding or an error -/
theorem enc_ne_panic : ∀ (t : Ty) (v : Val), enc t v ≠ panic
  | .bool, v => by cases v <;> simp [enc]
  | .null, v => by cases v <;> simp [enc]
  | .int min max ext w s, v => by
    cases v <;> simp only [enc] <;> try (simp; done)
    exact int_body_ne_panic _ _ _ _ _
  | .enum std total ext, v => by
    cases v <;> simp only [enc] <;> try (simp; done)
    exact wIndex_ne_panic _ _ _
  | .str cs min max ext, v => by
    cases v <;> simp only [enc] <;> try (simp; done)
    split
    · simp
    · cases cs <;> simp only
      · split
        · simp
        · exact wOctets_ne_panic _ _ _ _
      all_goals
        split
        · simp
        · exact ne_panic_bind_ok (wExtLen_ne_panic _ _ _ _ _)
  | .oct min max ext, v => by
    cases v <;> simp only [enc] <;> try (simp; done)
    exact wOctets_ne_panic _ _ _ _
  | .bits min max ext, v => by
    cases v <;> simp only [enc] <;> try (simp; done)
    exact wBitString_ne_panic _ _ _ _
  | .seqOf min max ext elem, v => by
    cases v <;> simp only [enc] <;> try (simp; done)
    intro h
    rcases bind_eq_panic.1 h with h | ⟨_, _, h⟩
    · exact wExtLen_ne_panic _ _ _ _ _ h
    · exact ne_panic_bind_ok (encListWith_ne_panic _ (fun v => enc_ne_panic elem v) _) h
  | .seq so fc ea fields, v => by
    cases v with
    | seq vs =>
      exact enc_seq_ne_panic (fun i k t v hf _ _ => fields_ne_panic fields i k t hf (contentOf k v))
    | _ => simp [enc]
  | .choice std total ext alts, v => by
    cases v with
    | choice i x =>
      simp only [enc]
      intro h
      rcases bind_eq_panic.1 h with h | ⟨_, _, h⟩
      · exact wIndex_ne_panic _ _ _ h
      · rcases bind_eq_panic.1 h with h | ⟨c, _, h⟩
        · cases ha : alts.get? i with
          | none => rw [encAlt_none x ha] at h; cases h
          | some kt =>
            obtain ⟨k, t⟩ := kt
            rw [encAlt_eq x ha] at h
            exact fields_ne_panic alts i k t ha x h
        · split at h
          · exact ne_panic_bind_ok (openType_ne_panic c) h
          · cases h
    | _ => simp [enc]
theorem fields_ne_panic : ∀ (fields : Fields) (i : Nat) (k : Kind) (t : Ty),
    fields.get? i = some (k, t) → ∀ v, enc t v ≠ panic
  | .nil, i, k, t, h, _ => by simp [Fields.get?] at h
  | .cons k0 t0 rest, 0, k, t, h, v => by
    simp only [Fields.get?, Option.some.injEq, Prod.mk.injEq] at h
    obtain ⟨_, rfl⟩ := h
    exact enc_ne_panic t0 v
  | .cons k0 t0 rest, i + 1, k, t, h, v =>
    fields_ne_panic rest i k t (by simpa [Fields.get?] using h) v
end

/-- a violation anywhere in the value tree ⇒ the encoder returns an error (no encoding, no panic) -/
theorem violates_err {t : Ty} {v : Val} (h : Violates t v) : ∃ e, enc t v = err e := by
  cases he : enc t v with
  | ok b => exact absurd he (violates_not_ok h b)
  | err e => exact ⟨e, rfl⟩
  | panic => exact absurd he (enc_ne_panic t v)

end Asn1Verif.Uper
