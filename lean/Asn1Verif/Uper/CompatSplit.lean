import Asn1Verif.Uper.CompatChoice
/-
  C05 — splitting the side conditions of V2 = V1 + additions into those of V1 and of the additions.
-/
namespace Asn1Verif.Uper
open Asn1Verif Outcome Per

theorem encFields_length : ∀ (fs : Fields) (vs : Vals) (rl : Nat) (acc fin : SeqAcc),
    encFields fs vs rl acc = ok fin → vs.length = fs.length
  | .nil, vs, _, _, _, h => by
    cases vs with
    | nil => rfl
    | cons v vs => simp [encFields] at h
  | .cons k t r, vs, rl, acc, fin, h => by
    cases vs with
    | nil => simp [encFields] at h
    | cons v vs =>
      rw [encFields_cons_view] at h
      cases hv : fieldView k v with
      | none => simp [hv] at h
      | some px =>
        simp only [hv] at h
        obtain ⟨acc1, _, h⟩ := bind_ok_elim h
        simp only [Vals.length, Fields.length, encFields_length r vs (rl - 1) acc1 fin h]

theorem rtOk_append : ∀ (a b : Fields) (n : Nat), (a.append b).rtOk n = true →
    a.rtOk n = true ∧ b.rtOk (n - a.length) = true
  | .nil, b, n, h => by simpa [Fields.append, Fields.rtOk, Fields.length] using h
  | .cons k t r, b, n, h => by
    simp only [Fields.append, Fields.rtOk, Bool.and_eq_true] at h ⊢
    have ih := rtOk_append r b (n - 1) h.2
    have e : n - 1 - r.length = n - (Fields.cons k t r).length := by simp only [Fields.length]; omega
    rw [e] at ih
    exact ⟨⟨h.1, ih.1⟩, ih.2⟩

theorem valOkFields_append : ∀ (a b : Fields) (vs avs : Vals) (n : Nat), vs.length = a.length →
    valOkFields (a.append b) (vs.append avs) n = true →
    valOkFields a vs n = true ∧ valOkFields b avs (n - a.length) = true
  | .nil, b, .nil, avs, n, _, h => by
    simpa [Fields.append, Vals.append, valOkFields, Fields.length] using h
  | .nil, _, .cons _ _, _, _, hl, _ => by simp [Vals.length, Fields.length] at hl
  | .cons _ _ _, _, .nil, _, _, hl, _ => by simp [Vals.length, Fields.length] at hl
  | .cons k t r, b, .cons v vs, avs, n, hl, h => by
    simp only [Fields.append, Vals.append, valOkFields, Bool.and_eq_true] at h ⊢
    simp only [Vals.length, Fields.length] at hl
    have ih := valOkFields_append r b vs avs (n - 1) (by omega) h.2
    have e : n - 1 - r.length = n - (Fields.cons k t r).length := by simp only [Fields.length]; omega
    rw [e] at ih
    exact ⟨⟨h.1, ih.1⟩, ih.2⟩

theorem vals_length_append : ∀ (a b : Vals), (a.append b).length = a.length + b.length
  | .nil, b => by simp [Vals.append, Vals.length]
  | .cons v r, b => by simp only [Vals.append, Vals.length, vals_length_append r b]; omega

end Asn1Verif.Uper
