import Asn1Verif.Uper.ScopeLemmasR
/-
  L2 — refinement, reader side, SEQUENCE part: the scope of the real reader while it walks the
  components of one SEQUENCE is a function (`REnv.scope`) of the parameters of `Impl.decFields`
  (`rootLeft`, `optIdx`, `addIdx`, `SeqCtx`); one bit-field entry of the scope machine reads the
  presence bit `decFields` reads.
-/
namespace Asn1Verif.Uper
open Asn1Verif Outcome Per

namespace Scope

/-- what stays fixed while the components of one SEQUENCE are read -/
structure REnv where
  inp : Bits
  /-- `STD_OPTIONAL_FIELDS` -/
  stdOpt : Nat
  /-- position of the extension bit -/
  bitPos : Nat

/-- the scope as a function of the parameters of `decFields` -/
def REnv.scope (e : REnv) (ctx : SeqCtx) (rl oi ai : Nat) : Scope :=
  if ctx.extBit then
    match ctx.addWin with
    | none =>
      .extensibleSequence e.bitPos (some (ctx.presPos + oi, ctx.presPos + e.stdOpt)) rl ctx.nLocal
    | some w => .allBitField (w.1 + min ai w.2) (min (w.1 + w.2) U64_MAX)
  else .optBitField (ctx.presPos + oi) (ctx.presPos + e.stdOpt)

def REnv.r (e : REnv) (ctx : SeqCtx) (rl oi ai pos : Nat) : R :=
  { pos := pos, len := e.inp.length, scope := some (e.scope ctx rl oi ai) }

/-- the invariant of the walk: `fields` are the components still to come, `rl` of them root -/
def REnv.Inv (e : REnv) (ctx : SeqCtx) (fields : Fields) (rl oi ai : Nat) : Prop :=
  oi + fields.optCount rl = e.stdOpt ∧
  (ctx.extBit = true → bitAt e.inp e.bitPos = ok true) ∧
  (ctx.extBit = true → rl ≤ fields.length) ∧
  match ctx.addWin with
  | none => ctx.extBit = true → ai = 0
  | some w => ctx.extBit = true ∧ rl = 0 ∧ w.1 + min ai w.2 ≤ e.inp.length

theorem optCount_zero' (fields : Fields) : fields.optCount 0 = 0 := by
  cases fields <;> rfl

/-! ### the bit-field entry in the states of the walk -/

/-- root component, mandatory: nothing is read -/
theorem rentry_root_m (e : REnv) (ctx : SeqCtx) (n oi ai pos : Nat)
    (hw : ctx.extBit = true → ctx.addWin = none) :
    ∃ q, readBitFieldEntry e.inp (e.r ctx (n + 1) oi ai pos) false = (ok q, e.r ctx n oi ai pos) := by
  unfold readBitFieldEntry REnv.r
  simp only [REnv.scope]
  cases hx : ctx.extBit with
  | false =>
    simp only [Bool.false_eq_true, if_false, readFromField]
    split
    · exact ⟨_, rfl⟩
    · exact ⟨_, rfl⟩
  | true =>
    simp only [hw hx, if_true, readFromField, Nat.add_one_ne_zero, if_false, Nat.add_sub_cancel,
      Bool.false_eq_true]
    exact ⟨_, rfl⟩

/-- root component, OPTIONAL/DEFAULT: its bit of the root bitmap -/
theorem rentry_root_o (e : REnv) (ctx : SeqCtx) (n oi ai pos : Nat)
    (hw : ctx.extBit = true → ctx.addWin = none) (hlt : oi < e.stdOpt) :
    readBitFieldEntry e.inp (e.r ctx (n + 1) oi ai pos) true =
      (some <$> bitAt e.inp (ctx.presPos + oi), e.r ctx n (oi + 1) ai pos) := by
  unfold readBitFieldEntry REnv.r
  simp only [REnv.scope]
  cases hx : ctx.extBit with
  | false =>
    have h1 : ¬ (ctx.presPos + oi ≥ ctx.presPos + e.stdOpt) := by omega
    simp only [Bool.false_eq_true, if_false, readFromField, h1, if_true, bitAtR_mk,
      Nat.add_assoc]
  | true =>
    simp only [hw hx, if_true, readFromField, Nat.add_one_ne_zero, if_false, Nat.add_sub_cancel,
      bitAtR_mk, Nat.add_assoc]

/-- no extension part was sent: every further component reads as absent -/
theorem rentry_noext (e : REnv) (ctx : SeqCtx) (oi ai pos : Nat) (isOpt : Bool)
    (hx : ctx.extBit = false) (hfull : oi = e.stdOpt) :
    readBitFieldEntry e.inp (e.r ctx 0 oi ai pos) isOpt = (ok (some false), e.r ctx 0 oi (ai + 1) pos) := by
  unfold readBitFieldEntry REnv.r
  simp only [REnv.scope, hx, Bool.false_eq_true, if_false, readFromField, hfull, ge_iff_le,
    Nat.le_refl, if_true]

/-- an addition behind the header: its bit of the announced bitmap, or absent beyond it -/
theorem rentry_all (e : REnv) (hL : e.inp.length < U64_MAX) (ctx : SeqCtx) (oi ai pos : Nat)
    (isOpt : Bool) (w : Nat × Nat) (hx : ctx.extBit = true) (hw : ctx.addWin = some w)
    (hin : w.1 + min ai w.2 ≤ e.inp.length) :
    readBitFieldEntry e.inp (e.r ctx 0 oi ai pos) isOpt =
      ((if ai < w.2 then some <$> bitAt e.inp (w.1 + ai) else ok (some false)),
        e.r ctx 0 oi (ai + 1) pos) := by
  unfold readBitFieldEntry REnv.r
  simp only [REnv.scope, hx, hw, if_true, readFromField, readFromAll]
  by_cases hlt : ai < w.2
  · have h1 : w.1 + min ai w.2 < min (w.1 + w.2) U64_MAX := by
      rw [Nat.min_eq_left (by omega)] at hin ⊢
      omega
    have h2 : min ai w.2 = ai := Nat.min_eq_left (by omega)
    have h3 : min (ai + 1) w.2 = ai + 1 := Nat.min_eq_left (by omega)
    rw [h2] at h1
    simp only [h1, if_true, hlt, bitAtR_mk, h2, h3, Nat.add_assoc]
  · have h2 : min ai w.2 = w.2 := Nat.min_eq_right (by omega)
    have h3 : min (ai + 1) w.2 = w.2 := Nat.min_eq_right (by omega)
    have h1 : ¬ (w.1 + w.2 < min (w.1 + w.2) U64_MAX) := by omega
    simp only [h2, h3, h1, if_false, hlt]

/-- the first addition: the header of the extension part is read, then the first bit of the bitmap -/
theorem rentry_first (e : REnv) (hL : e.inp.length < U64_MAX) (ctx : SeqCtx) (oi pos : Nat)
    (isOpt : Bool) (hx : ctx.extBit = true) (hw : ctx.addWin = none)
    (hbit : bitAt e.inp e.bitPos = ok true) :
    entryQ e.inp (e.r ctx 0 oi 0 pos) isOpt =
      readExtHeader e.inp pos >>= fun wp =>
        bitAt e.inp wp.1.1 >>= fun b =>
          ok (some b, e.r { ctx with addWin := some wp.1 } 0 oi 1 wp.2) := by
  unfold entryQ readBitFieldEntry REnv.r readExtHeader
  simp only [REnv.scope, hx, hw, if_true, readFromField, bitAtR_mk, hbit,
    liftR_mk]
  cases hs : liftL1 rSmall e.inp pos with
  | err k => rfl
  | panic => rfl
  | ok x =>
    obtain ⟨n, p⟩ := x
    have hp := liftL1_le hs
    simp only [bind_ok]
    by_cases hov : n + 1 > U64_MAX
    · simp only [hov, if_true, bind_err]
    · simp only [hov, if_false, bind_ok, readFromAll]
      have h1 : p < min (p + (n + 1)) U64_MAX := by omega
      simp only [h1, if_true, bitAtR_mk]
      cases hb : bitAt e.inp p with
      | err k => rfl
      | panic => rfl
      | ok b =>
        have hlt := bitAt_ok_lt hb
        simp only [map_ok, bind_ok, ok.injEq, Prod.mk.injEq, true_and, R.mk.injEq, Option.some.injEq]
        refine ⟨?_, ?_⟩
        · omega
        · have h3 : min 1 (n + 1) = 1 := by omega
          simp only [h3]

/-- the window of the addition bitmap: known, or read now (header of the extension part) -/
def extWin (ctx : SeqCtx) (inp : Bits) (pos : Nat) : Outcome ((Nat × Nat) × Nat) :=
  match ctx.addWin with
  | some w => ok (w, pos)
  | none => readExtHeader inp pos

/-- a component behind the root part when no extension part was sent -/
def noextContent (k : Kind) (t : Ty) (inp : Bits) (pos : Nat) : Outcome (Val × Nat) :=
  match k with
  | .m => dec t inp pos
  | k => ok (k.absent, pos)

theorem decFields_cons_add_noext' (k : Kind) (t : Ty) (rest : Fields) (optIdx addIdx : Nat)
    (ctx : SeqCtx) (inp : Bits) (pos : Nat) (hx : ctx.extBit = false) :
    decFields (.cons k t rest) 0 optIdx addIdx ctx inp pos =
      (noextContent k t inp pos >>= fun vp =>
       decFields rest 0 optIdx (addIdx + 1) ctx inp vp.2 >>= fun r => ok (.cons vp.1 r.1, r.2)) := by
  rw [decFields_cons_add_noext _ _ _ _ _ _ _ _ hx]
  cases k <;> rfl

theorem decFields_cons_add_ext' (k : Kind) (t : Ty) (rest : Fields) (optIdx addIdx : Nat)
    (ctx : SeqCtx) (inp : Bits) (pos : Nat) (hx : ctx.extBit = true) :
    decFields (.cons k t rest) 0 optIdx addIdx ctx inp pos =
      (extWin ctx inp pos >>= fun wp =>
       (if addIdx < wp.1.2 then bitAt inp (wp.1.1 + addIdx) else ok false) >>= fun present =>
       (if present || !k.isOptional then
          (if k.isOptional || t.buffersOnRead then readOpen (dec t) inp wp.2 else dec t inp wp.2) >>=
            fun xp => ok (k.wrap xp.1, xp.2)
        else ok (k.absent, wp.2)) >>= fun vp =>
       decFields rest 0 optIdx (addIdx + 1) { ctx with addWin := some wp.1 } inp vp.2 >>=
         fun r => ok (.cons vp.1 r.1, r.2)) := by
  rw [decFields_cons_add_ext _ _ _ _ _ _ _ _ hx]
  unfold extWin
  cases ctx.addWin <;> rfl

theorem extWin_le {ctx : SeqCtx} {inp : Bits} {pos : Nat} {wp : (Nat × Nat) × Nat}
    (h : extWin ctx inp pos = ok wp) (hpos : pos ≤ inp.length) : wp.2 ≤ inp.length := by
  unfold extWin at h
  cases hw : ctx.addWin with
  | some w => simp only [hw, ok.injEq] at h; rw [← h]; exact hpos
  | none =>
    simp only [hw] at h
    exact ((readExtHeader_good inp pos).bounds (a := wp.1) (p := wp.2) h hpos).2

/-! ### one component of the generated `read_seq` -/

/-- the type's `read_*` is `read_sequence` (the one that swallows the error of its bit-field entry) -/
def _root_.Asn1Verif.Uper.Ty.isSeq : Ty → Bool
  | .seq .. => true
  | _ => false

/-- one component of the generated `read_seq` (`T`, `Option<T>`, `DefaultValue<T, C>`) -/
def rstep (k : Kind) (readT : Bits → R → Outcome (Val × R)) (inp : Bits) (r : R) :
    Outcome (Val × R) :=
  match k with
  | .m => readT inp r
  | k => do
    let (p, r0) ← entryQ inp r true
    match p with
    | none => panic
    | some true => do
      let (x, r1) ← readOptBody readT inp r0
      ok (k.wrap x, r1)
    | some false => ok (k.absent, r0)

theorem readFields_cons (k : Kind) (t : Ty) (rest : Fields) (inp : Bits) (r : R) :
    readFields (.cons k t rest) inp r =
      rstep k (read t) inp r >>= fun x =>
        readFields rest inp x.2 >>= fun y => ok (.cons x.1 y.1, y.2) := by
  cases k <;> simp only [readFields, rstep] <;> rfl

/-- outside of any scope: the callee reads like `g` -/
def PlainR {α : Type} (f : Bits → R → Outcome (α × R)) (g : RdP α) (inp : Bits) : Prop :=
  ∀ pos, pos ≤ inp.length →
    f inp ⟨pos, inp.length, none⟩ = g inp pos >>= fun y => ok (y.1, ⟨y.2, inp.length, none⟩)

/-- `read_opt` / `read_default` of a present value -/
theorem readOptBody_eq {α : Type} (f : Bits → R → Outcome (α × R)) (g : RdP α) (inp : Bits)
    (hf : PlainR f g inp) (r0 : R) (hl : r0.len = inp.length) (hp : r0.pos ≤ inp.length) :
    readOptBody f inp r0 = rbody true g inp r0 := by
  rw [← enter_leave_le (fun r1 => f inp { r1 with scope := none } >>= fun y =>
      ok (y.1, { y.2 with scope := r1.scope })) g inp r0 hl hp]
  · unfold readOptBody
    cases r0.enter inp with
    | err k => rfl
    | panic => rfl
    | ok x =>
      simp only [bind_ok]
      cases f inp { x.1 with scope := none } with
      | err k => rfl
      | panic => rfl
      | ok y => rfl
  · intro r1 h1 hp1
    have : ({ r1 with scope := none } : R) = ⟨r1.pos, inp.length, none⟩ := by rw [← h1]
    simp only [this, hf r1.pos hp1]
    cases g inp r1.pos with
    | err k => rfl
    | panic => rfl
    | ok y => simp only [bind_ok, h1]

/-- the content, spelled out -/
theorem rbody_closed {α : Type} (wrap : Bool) (g : RdP α) (inp : Bits) (r0 : R) :
    rbody wrap g inp r0 =
      (if wrap && openTy r0.scope then readOpen g inp r0.pos else g inp r0.pos) >>= fun y =>
        ok (y.1, { r0 with pos := y.2 }) := by
  unfold rbody
  by_cases h : (wrap && openTy r0.scope) = true
  · simp only [h, if_true, readOpen, subSlice]
    cases liftL1 (rLen none none) inp r0.pos with
    | err k => rfl
    | panic => rfl
    | ok x =>
      simp only [bind_ok]
      cases g inp x.2 with
      | err k => rfl
      | panic => rfl
      | ok y => rfl
  · simp only [h, Bool.false_eq_true, if_false]

/-- a mandatory component whose bit-field entry succeeds without an effect on the cursor -/
theorem rcomp_of_entry {swallow wrap : Bool} {g : RdP Val} {inp : Bits} {r r0 : R} {q : Option Bool}
    (h : readBitFieldEntry inp r false = (ok q, r0)) : rcomp swallow wrap g inp r = rbody wrap g inp r0 := by
  unfold rcomp entryQ
  rw [h]
  cases swallow <;> rfl

theorem openTy_r (e : REnv) (ctx : SeqCtx) (rl oi ai : Nat) :
    openTy (some (e.scope ctx rl oi ai)) = (ctx.extBit && ctx.addWin.isSome) := by
  unfold REnv.scope
  cases ctx.extBit <;> cases ctx.addWin <;> rfl

/-- what the mutual induction supplies for the type of the component -/
def ReadOk (t : Ty) (inp : Bits) : Prop :=
  ∀ r : R, r.len = inp.length → r.pos ≤ inp.length →
    read t inp r = rcomp t.isSeq t.buffersOnRead (dec t) inp r

/-- root component -/
theorem rstep_root (e : REnv) (ctx : SeqCtx) (k : Kind) (t : Ty) (rest : Fields) (n oi ai pos : Nat)
    (hinv : e.Inv ctx (.cons k t rest) (n + 1) oi ai) (hpos : pos ≤ e.inp.length)
    (hT : ReadOk t e.inp) (hP : PlainR (read t) (dec t) e.inp) :
    rstep k (read t) e.inp (e.r ctx (n + 1) oi ai pos) =
      (if k.isOptional then bitAt e.inp (ctx.presPos + oi) else ok true) >>= fun present =>
        (if present then dec t e.inp pos >>= fun xp => ok (k.wrap xp.1, xp.2)
         else ok (k.absent, pos)) >>= fun vp =>
          ok (vp.1, e.r ctx n (if k.isOptional then oi + 1 else oi) ai vp.2) := by
  obtain ⟨hopt, _, _, hwin⟩ := hinv
  have hw : ctx.extBit = true → ctx.addWin = none := by
    intro _
    cases hh : ctx.addWin with
    | none => rfl
    | some w => simp [hh] at hwin
  have hopen : ∀ oi', openTy (some (e.scope ctx n oi' ai)) = false := by
    intro oi'
    rw [openTy_r]
    cases hx : ctx.extBit with
    | false => rfl
    | true => simp [hw hx]
  have hmand : read t e.inp (e.r ctx (n + 1) oi ai pos) =
      dec t e.inp pos >>= fun xp => ok (xp.1, e.r ctx n oi ai xp.2) := by
    obtain ⟨q, hq⟩ := rentry_root_m e ctx n oi ai pos hw
    rw [hT _ rfl hpos, rcomp_of_entry hq, rbody_closed]
    simp only [REnv.r, hopen, Bool.and_false, Bool.false_eq_true, if_false]
  cases k with
  | m =>
    simp only [rstep, Kind.isOptional, Bool.false_eq_true, if_false, bind_ok, if_true, hmand, Kind.wrap]
    cases dec t e.inp pos <;> rfl
  | o =>
    have hlt : oi < e.stdOpt := by
      simp only [Fields.optCount, Kind.isOptional, if_true] at hopt; omega
    simp only [rstep, entryQ, rentry_root_o e ctx n oi ai pos hw hlt, Kind.isOptional, if_true]
    cases bitAt e.inp (ctx.presPos + oi) with
    | err k => rfl
    | panic => rfl
    | ok b =>
      cases b with
      | false => rfl
      | true =>
        simp only [map_ok, bind_ok, if_true]
        rw [readOptBody_eq _ _ _ hP _ rfl hpos, rbody_closed]
        simp only [REnv.r, hopen, Bool.and_false, Bool.false_eq_true, if_false]
        cases dec t e.inp pos <;> rfl
  | d dv =>
    have hlt : oi < e.stdOpt := by
      simp only [Fields.optCount, Kind.isOptional, if_true] at hopt; omega
    simp only [rstep, entryQ, rentry_root_o e ctx n oi ai pos hw hlt, Kind.isOptional, if_true]
    cases bitAt e.inp (ctx.presPos + oi) with
    | err k => rfl
    | panic => rfl
    | ok b =>
      cases b with
      | false => rfl
      | true =>
        simp only [map_ok, bind_ok, if_true]
        rw [readOptBody_eq _ _ _ hP _ rfl hpos, rbody_closed]
        simp only [REnv.r, hopen, Bool.and_false, Bool.false_eq_true, if_false]
        cases dec t e.inp pos <;> rfl

/-- component behind the root part, no extension part sent -/
theorem rstep_noext (e : REnv) (ctx : SeqCtx) (k : Kind) (t : Ty) (rest : Fields) (oi ai pos : Nat)
    (hinv : e.Inv ctx (.cons k t rest) 0 oi ai) (hx : ctx.extBit = false) (hpos : pos ≤ e.inp.length)
    (hT : ReadOk t e.inp) :
    rstep k (read t) e.inp (e.r ctx 0 oi ai pos) =
      noextContent k t e.inp pos >>= fun vp => ok (vp.1, e.r ctx 0 oi (ai + 1) vp.2) := by
  obtain ⟨hopt, _, _⟩ := hinv
  have hfull : oi = e.stdOpt := by rw [optCount_zero'] at hopt; omega
  have hopen : openTy (some (e.scope ctx 0 oi (ai + 1))) = false := by rw [openTy_r, hx]; rfl
  cases k with
  | m =>
    simp only [rstep, noextContent]
    rw [hT _ rfl hpos, rcomp_of_entry (rentry_noext e ctx oi ai pos false hx hfull), rbody_closed]
    simp only [REnv.r, hopen, Bool.and_false, Bool.false_eq_true, if_false]
  | o => simp only [rstep, noextContent, entryQ, rentry_noext e ctx oi ai pos true hx hfull, bind_ok]
  | d dv => simp only [rstep, noextContent, entryQ, rentry_noext e ctx oi ai pos true hx hfull, bind_ok]

theorem readExtHeader_pos {inp : Bits} {pos : Nat} {wp : (Nat × Nat) × Nat}
    (h : readExtHeader inp pos = ok wp) : 0 < wp.1.2 := by
  unfold readExtHeader at h
  obtain ⟨x, _, h⟩ := bind_eq_ok.1 h
  by_cases hov : x.1 + 1 > U64_MAX
  · simp [hov] at h
  · simp only [hov, if_false, ok.injEq] at h; rw [← h]; simp

theorem r_addWin (e : REnv) (ctx : SeqCtx) (w : Nat × Nat) (hw : ctx.addWin = some w)
    (rl oi ai pos : Nat) : e.r { ctx with addWin := some w } rl oi ai pos = e.r ctx rl oi ai pos := by
  simp only [REnv.r, REnv.scope, hw]

/-- the bit-field entry of an extension addition (extension part sent), as `decFields` reads it:
    the header at the first addition, then the bit of the bitmap -/
theorem rentryQ_ext (e : REnv) (hL : e.inp.length < U64_MAX) (ctx : SeqCtx) (fields : Fields)
    (oi ai pos : Nat) (isOpt : Bool) (hinv : e.Inv ctx fields 0 oi ai) (hx : ctx.extBit = true) :
    entryQ e.inp (e.r ctx 0 oi ai pos) isOpt =
      extWin ctx e.inp pos >>= fun wp =>
        (if ai < wp.1.2 then bitAt e.inp (wp.1.1 + ai) else ok false) >>= fun b =>
          ok (some b, e.r { ctx with addWin := some wp.1 } 0 oi (ai + 1) wp.2) := by
  obtain ⟨_, hbit, _, hwin⟩ := hinv
  unfold extWin
  cases hw : ctx.addWin with
  | some w =>
    simp only [hw] at hwin
    simp only [entryQ, rentry_all e hL ctx oi ai pos isOpt w hx hw hwin.2.2, bind_ok]
    rw [r_addWin e ctx w hw]
    by_cases hlt : ai < w.2
    · simp only [hlt, if_true]
      cases bitAt e.inp (w.1 + ai) <;> rfl
    · simp only [hlt, if_false, bind_ok]
  | none =>
    simp only [hw] at hwin
    have hai : ai = 0 := hwin hx
    subst hai
    rw [rentry_first e hL ctx oi pos isOpt hx hw (hbit hx)]
    cases hh : readExtHeader e.inp pos with
    | err k => rfl
    | panic => rfl
    | ok wp =>
      have := readExtHeader_pos hh
      simp only [bind_ok, this, if_true, Nat.add_zero, Nat.zero_add]

/-- extension addition, extension part sent -/
theorem rstep_ext (e : REnv) (hL : e.inp.length < U64_MAX) (ctx : SeqCtx) (k : Kind) (t : Ty)
    (rest : Fields) (oi ai pos : Nat) (hinv : e.Inv ctx (.cons k t rest) 0 oi ai)
    (hx : ctx.extBit = true) (hms : k.isOptional = false → t.isSeq = false)
    (hpos : pos ≤ e.inp.length) (hT : ReadOk t e.inp) (hP : PlainR (read t) (dec t) e.inp) :
    rstep k (read t) e.inp (e.r ctx 0 oi ai pos) =
      extWin ctx e.inp pos >>= fun wp =>
        (if ai < wp.1.2 then bitAt e.inp (wp.1.1 + ai) else ok false) >>= fun present =>
          (if present || !k.isOptional then
            (if k.isOptional || t.buffersOnRead then readOpen (dec t) e.inp wp.2
             else dec t e.inp wp.2) >>= fun xp => ok (k.wrap xp.1, xp.2)
           else ok (k.absent, wp.2)) >>= fun vp =>
            ok (vp.1, e.r { ctx with addWin := some wp.1 } 0 oi (ai + 1) vp.2) := by
  have hopen : ∀ w, openTy (some (e.scope { ctx with addWin := some w } 0 oi (ai + 1))) = true := by
    intro w; rw [openTy_r]; simp [hx]
  have hopt : ∀ (wrapK : Val → Val),
      (entryQ e.inp (e.r ctx 0 oi ai pos) true >>= fun x =>
        match x.1 with
        | none => panic
        | some true => readOptBody (read t) e.inp x.2 >>= fun y => ok (wrapK y.1, y.2)
        | some false => ok (k.absent, x.2)) =
      extWin ctx e.inp pos >>= fun wp =>
        (if ai < wp.1.2 then bitAt e.inp (wp.1.1 + ai) else ok false) >>= fun present =>
          (if present then readOpen (dec t) e.inp wp.2 >>= fun xp => ok (wrapK xp.1, xp.2)
           else ok (k.absent, wp.2)) >>= fun vp =>
            ok (vp.1, e.r { ctx with addWin := some wp.1 } 0 oi (ai + 1) vp.2) := by
    intro wrapK
    rw [rentryQ_ext e hL ctx _ oi ai pos true hinv hx]
    cases hwp : extWin ctx e.inp pos with
    | err k => rfl
    | panic => rfl
    | ok wp =>
      have hwp2 : wp.2 ≤ e.inp.length := extWin_le hwp hpos
      simp only [bind_ok]
      cases (if ai < wp.1.2 then bitAt e.inp (wp.1.1 + ai) else ok false) with
      | err k => rfl
      | panic => rfl
      | ok b =>
        cases b with
        | false => rfl
        | true =>
          simp only [bind_ok, if_true]
          rw [readOptBody_eq _ _ _ hP _ rfl hwp2, rbody_closed]
          simp only [REnv.r, hopen, Bool.and_true, if_true]
          cases readOpen (dec t) e.inp wp.2 <;> rfl
  cases k with
  | m =>
    have hns : t.isSeq = false := hms rfl
    simp only [rstep, Kind.isOptional, Bool.not_false, Bool.or_true, if_true, Bool.false_or, Kind.wrap]
    rw [hT _ rfl hpos, hns]
    unfold rcomp
    simp only [Bool.false_eq_true, if_false]
    rw [rentryQ_ext e hL ctx _ oi ai pos false hinv hx]
    cases extWin ctx e.inp pos with
    | err k => rfl
    | panic => rfl
    | ok wp =>
      simp only [bind_ok]
      cases (if ai < wp.1.2 then bitAt e.inp (wp.1.1 + ai) else ok false) with
      | err k => rfl
      | panic => rfl
      | ok b =>
        simp only [bind_ok]
        rw [rbody_closed]
        simp only [REnv.r, hopen, Bool.and_true]
        cases (if t.buffersOnRead = true then readOpen (dec t) e.inp wp.2 else dec t e.inp wp.2) <;> rfl
  | o =>
    have := hopt Val.some
    simp only [rstep, Kind.isOptional, Bool.not_true, Bool.or_false, Bool.true_or, if_true, Kind.wrap] at this ⊢
    rw [← this]
  | d dv =>
    have := hopt id
    simp only [rstep, Kind.isOptional, Bool.not_true, Bool.or_false, Bool.true_or, if_true, Kind.wrap, id] at this ⊢
    rw [← this]

/-! ### `skip_unknown_extension_additions` -/

/-- one round of the loop -/
theorem skipUnknownAdditions_eq (inp : Bits) (r : R) :
    skipUnknownAdditions inp r =
      if skipMore r.scope = true then
        entryQ inp r true >>= fun x =>
          if x.1.getD false then
            liftL1 (rLen none none) (vis inp x.2.len) x.2.pos >>= fun y =>
              skipUnknownAdditions inp { x.2 with pos := min (y.2 + y.1 * 8) x.2.len }
          else skipUnknownAdditions inp x.2
      else ok r := by
  rw [skipUnknownAdditions]
  by_cases hm : skipMore r.scope = true
  · simp only [hm, dite_true, if_true, entryQ]
    cases hr : readBitFieldEntry inp r true with
    | mk res r1 =>
      cases res with
      | err k => simp only [hr]; rfl
      | panic => simp only [hr]; rfl
      | ok p =>
        simp only [hr, bind_ok]
        split
        · cases liftL1 (rLen none none) (vis inp r1.len) r1.pos with
          | ok y => rfl
          | err k => rfl
          | panic => rfl
        · rfl
  · simp only [hm, dite_false, if_false, Bool.false_eq_true]

/-- the loop behind the header, from addition `ai` on -/
theorem skip_sim_all (e : REnv) (hL : e.inp.length < U64_MAX) (orig : Option Scope) (oi : Nat)
    (w : Nat × Nat) : ∀ (d : Nat) (ctx : SeqCtx) (ai pos : Nat), w.2 - ai = d →
    ctx.extBit = true → ctx.addWin = some w → oi = e.stdOpt → w.1 + min ai w.2 ≤ e.inp.length →
    (skipUnknownAdditions e.inp (e.r ctx 0 oi ai pos) >>= fun r5 => r5.popScope orig) =
      skipUnknown w.1 w.2 ai e.inp pos >>= fun y => ok ⟨y.2, e.inp.length, orig⟩ := by
  intro d
  induction d with
  | zero =>
    intro ctx ai pos hd hx hw hoi hin
    have hge : w.2 ≤ ai := by omega
    rw [skipUnknown_done _ _ _ _ _ hge, skipUnknownAdditions_eq]
    have hmin : min ai w.2 = w.2 := Nat.min_eq_right hge
    rw [hmin] at hin
    have hstop : min (w.1 + w.2) U64_MAX = w.1 + w.2 := Nat.min_eq_left (by omega)
    simp only [REnv.r, REnv.scope, hx, hw, if_true, hmin, hstop, skipMore, Nat.lt_irrefl,
      decide_false, Bool.false_eq_true, if_false, bind_ok, R.popScope, exhausted, beq_self_eq_true]
  | succ d ih =>
    intro ctx ai pos hd hx hw hoi hin
    have hlt : ai < w.2 := by omega
    have hmin : min ai w.2 = ai := Nat.min_eq_left (by omega)
    rw [hmin] at hin
    rw [skipUnknownAdditions_eq]
    have hmore : skipMore (e.r ctx 0 oi ai pos).scope = true := by
      simp only [REnv.r, REnv.scope, hx, hw, if_true, hmin, skipMore, decide_eq_true_eq]
      omega
    simp only [hmore, if_true, entryQ,
      rentry_all e hL ctx oi ai pos true w hx hw (by rw [hmin]; exact hin), hlt]
    rw [skipUnknown, dif_pos hlt]
    cases hb : bitAt e.inp (w.1 + ai) with
    | err k => rfl
    | panic => rfl
    | ok b =>
      have hlt' := bitAt_ok_lt hb
      have hin' : w.1 + min (ai + 1) w.2 ≤ e.inp.length := by
        rw [Nat.min_eq_left (by omega)]; omega
      simp only [map_ok, bind_ok, Option.getD_some]
      cases b with
      | false =>
        simp only [Bool.false_eq_true, if_false]
        exact ih ctx (ai + 1) pos (by omega) hx hw hoi hin'
      | true =>
        simp only [if_true, REnv.r, vis_self, readOpen, subSlice]
        cases liftL1 (rLen none none) e.inp pos with
        | err k => rfl
        | panic => rfl
        | ok y =>
          simp only [bind_ok]
          exact ih ctx (ai + 1) _ (by omega) hx hw hoi hin'

/-- the end of the walk: `skip_unknown_extension_additions`, then the `debug_assert!` of
    `scope_pushed` — what `decFields` does at the end of the component list -/
theorem tail_nil (e : REnv) (hL : e.inp.length < U64_MAX) (orig : Option Scope) (ctx : SeqCtx)
    (rl oi ai pos : Nat) (hinv : e.Inv ctx .nil rl oi ai) :
    (skipUnknownAdditions e.inp (e.r ctx rl oi ai pos) >>= fun r5 => r5.popScope orig) =
      decFields .nil rl oi ai ctx e.inp pos >>= fun y => ok ⟨y.2, e.inp.length, orig⟩ := by
  obtain ⟨hopt, hbit, hrl, hwin⟩ := hinv
  have hoi : oi = e.stdOpt := by simpa [Fields.optCount] using hopt
  cases hx : ctx.extBit with
  | false =>
    rw [skipUnknownAdditions_eq]
    simp only [decFields, hx, Bool.false_eq_true, if_false, bind_ok, REnv.r, REnv.scope, skipMore,
      R.popScope, exhausted, hoi, beq_self_eq_true, if_true]
  | true =>
    have hrl0 : rl = 0 := by have := hrl hx; simpa [Fields.length] using this
    subst hrl0
    cases hw : ctx.addWin with
    | some w =>
      simp only [hw] at hwin
      rw [skip_sim_all e hL orig oi w _ ctx ai pos rfl hx hw hoi hwin.2.2]
      simp only [decFields, hx, if_true, hw, bind_ok]
      cases skipUnknown w.1 w.2 ai e.inp pos <;> rfl
    | none =>
      simp only [hw] at hwin
      have hai : ai = 0 := hwin hx
      subst hai
      rw [skipUnknownAdditions_eq]
      have hmore : skipMore (e.r ctx 0 oi 0 pos).scope = true := by
        simp [REnv.r, REnv.scope, hx, hw, skipMore]
      simp only [hmore, if_true, rentry_first e hL ctx oi pos true hx hw (hbit hx), decFields, hx, hw]
      cases hh : readExtHeader e.inp pos with
      | err k => rfl
      | panic => rfl
      | ok wp =>
        have hpos := readExtHeader_pos hh
        simp only [bind_ok]
        rw [skipUnknown, dif_pos hpos]
        simp only [Nat.add_zero]
        cases hb : bitAt e.inp wp.1.1 with
        | err k => rfl
        | panic => rfl
        | ok b =>
          have hlt' := bitAt_ok_lt hb
          have hin' : wp.1.1 + min 1 wp.1.2 ≤ e.inp.length := by
            rw [Nat.min_eq_left (by omega)]; omega
          simp only [bind_ok, Option.getD_some]
          cases b with
          | false =>
            simp only [Bool.false_eq_true, if_false, Nat.zero_add]
            rw [skip_sim_all e hL orig oi wp.1 _
              { presPos := ctx.presPos, extBit := true, addWin := some wp.1, nLocal := ctx.nLocal }
              1 wp.2 rfl rfl rfl hoi hin']
            cases skipUnknown wp.1.1 wp.1.2 1 e.inp wp.2 <;> rfl
          | true =>
            simp only [if_true, REnv.r, vis_self, readOpen, subSlice]
            cases liftL1 (rLen none none) e.inp wp.2 with
            | err k => rfl
            | panic => rfl
            | ok y =>
              simp only [bind_ok, Nat.zero_add]
              have := skip_sim_all e hL orig oi wp.1 _
                { presPos := ctx.presPos, extBit := true, addWin := some wp.1, nLocal := ctx.nLocal } 1
                (min (y.2 + y.1 * 8) e.inp.length) rfl rfl rfl hoi hin'
              simp only [REnv.r] at this
              rw [this]
              cases skipUnknown wp.1.1 wp.1.2 1 e.inp (min (y.2 + y.1 * 8) e.inp.length) <;> rfl

end Scope
end Asn1Verif.Uper
