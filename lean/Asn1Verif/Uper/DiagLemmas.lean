import Asn1Verif.Uper.Diag
/-
  C19 — erasure of the diagnostics: for every computation of the +feature reader (`Uper/Diag.lean`)
  the outcome (value, cursor / error class / panic) is the outcome of the plain reader
  (`Uper/Impl.lean`) whatever the log it is started with, and the log it returns extends the log
  it was given (`Erases`).  `Erases` composes along the combinators of `DM`.
-/
namespace Asn1Verif.Uper
open Asn1Verif Outcome Per

/-- the +feature computation `x` computes `o` and only appends to the log -/
def Erases {α : Type} (x : DM α) (o : Outcome α) : Prop :=
  ∀ l, (x l).1 = o ∧ ∃ suf, (x l).2 = l ++ suf

section
variable {α β : Type}

theorem Erases.pure (a : α) : Erases (Pure.pure a : DM α) (ok a) :=
  fun l => ⟨rfl, [], (List.append_nil l).symm⟩

theorem Erases.lift (o : Outcome α) : Erases (DM.lift o) o :=
  fun l => ⟨rfl, [], (List.append_nil l).symm⟩

theorem Erases.push (e : LogEntry) : Erases (DM.push e) (ok ()) :=
  fun _ => ⟨rfl, [e], rfl⟩

theorem Erases.pushAll (es : List LogEntry) : Erases (DM.pushAll es) (ok ()) :=
  fun _ => ⟨rfl, es, rfl⟩

theorem Erases.pushIf (c : Bool) (e : LogEntry) : Erases (DM.pushIf c e) (ok ()) := by
  unfold DM.pushIf; split
  · exact Erases.push e
  · exact fun l => ⟨rfl, [], (List.append_nil l).symm⟩

theorem bindD_def (x : DM α) (f : α → DM β) (l : Log) :
    (x >>= f) l = match x l with
      | (.ok a, l') => f a l'
      | (.err k, l') => (.err k, l')
      | (.panic, l') => (.panic, l') := rfl

/-- sequential composition -/
theorem Erases.bind {x : DM α} {o : Outcome α} {f : α → DM β} {g : α → Outcome β}
    (hx : Erases x o) (hf : ∀ a, o = ok a → Erases (f a) (g a)) : Erases (x >>= f) (o >>= g) := by
  intro l
  obtain ⟨h1, suf, h2⟩ := hx l
  rw [bindD_def]
  match hxl : x l, h1, h2 with
  | (.ok a, l'), h1, h2 =>
    simp only at h1 h2
    subst h1
    obtain ⟨g1, suf', g2⟩ := hf a rfl l'
    refine ⟨g1, suf ++ suf', ?_⟩
    rw [g2, h2, List.append_assoc]
  | (.err k, l'), h1, h2 =>
    simp only at h1 h2
    subst h1
    exact ⟨rfl, suf, h2⟩
  | (.panic, l'), h1, h2 =>
    simp only at h1 h2
    subst h1
    exact ⟨rfl, suf, h2⟩

/-- a step that only logs, then the rest -/
theorem Erases.seq {x : DM Unit} {y : DM β} {o : Outcome β}
    (hx : Erases x (ok ())) (hy : Erases y o) : Erases (x >>= fun _ => y) o := by
  have := Erases.bind (g := fun _ => o) hx (fun _ _ => hy)
  exact this

/-- logging the result of a step does not change it -/
theorem Erases.tap {x : DM α} {o : Outcome α} (e : Outcome α → List LogEntry)
    (hx : Erases x o) : Erases (x.tap e) o := by
  intro l
  obtain ⟨h1, suf, h2⟩ := hx l
  unfold DM.tap
  split
  · rename_i l' hxl
    rw [hxl] at h1 h2
    exact ⟨h1, suf, h2⟩
  · rename_i o' l' _ hxl
    rw [hxl] at h1 h2
    simp only at h1 h2
    refine ⟨h1, suf ++ e o', ?_⟩
    simp only [h2, List.append_assoc]

theorem Erases.ite {c : Prop} [Decidable c] {x1 x2 : DM α} {o1 o2 : Outcome α}
    (h1 : c → Erases x1 o1) (h2 : ¬ c → Erases x2 o2) :
    Erases (if c then x1 else x2) (if c then o1 else o2) := by
  split
  · exact h1 ‹_›
  · exact h2 ‹_›

end

/-! ### the combinators -/

theorem liftL1D_erases {α : Type} (r : Per.Rd α) (inp : Bits) (pos : Nat) :
    Erases (liftL1D r inp pos) (liftL1 r inp pos) := Erases.lift _

theorem readLenD_erases (lb ub : Option Nat) (inp : Bits) (pos : Nat) :
    Erases (readLenD lb ub inp pos) (liftL1 (rLen lb ub) inp pos) :=
  Erases.tap _ (Erases.lift _)

theorem subSliceD_erases {α : Type} {r : RdPD α} {r0 : RdP α} (n : Nat) (inp : Bits) (pos : Nat)
    (h : Erases (r inp pos) (r0 inp pos)) : Erases (subSliceD n r inp pos) (subSlice n r0 inp pos) := by
  unfold subSliceD subSlice
  exact Erases.bind (Erases.tap _ h) (fun ⟨a, _⟩ _ => Erases.pure _)

theorem readOpenD_erases {α : Type} {r : RdPD α} {r0 : RdP α} (inp : Bits)
    (h : ∀ pos, Erases (r inp pos) (r0 inp pos)) (pos : Nat) :
    Erases (readOpenD r inp pos) (readOpen r0 inp pos) := by
  unfold readOpenD readOpen
  exact Erases.bind (readLenD_erases _ _ _ _) (fun ⟨len, p⟩ _ => subSliceD_erases len inp p (h p))

theorem readExtHeaderD_erases (nLocal : Nat) (inp : Bits) (pos : Nat) :
    Erases (readExtHeaderD nLocal inp pos) (readExtHeader inp pos) := by
  unfold readExtHeaderD readExtHeader
  exact Erases.bind (liftL1D_erases _ _ _) (fun ⟨n, p⟩ _ =>
    Erases.ite (fun _ => Erases.lift _) (fun _ => Erases.seq (Erases.pushIf _ _) (Erases.pure _)))

theorem Erases.eq_pair {α : Type} {x : DM α} {o : Outcome α} (h : Erases x o) (l : Log) :
    ∃ suf, x l = (o, l ++ suf) := by
  obtain ⟨h1, suf, h2⟩ := h l
  exact ⟨suf, Prod.ext h1 h2⟩

theorem skipOpenD_erases (inp : Bits) (pos : Nat) :
    Erases (readOpenD (fun _ p => (Pure.pure ((), p) : DM (Unit × Nat))) inp pos)
      (readOpen (fun _ p => ok ((), p)) inp pos) :=
  readOpenD_erases (r := fun _ p => Pure.pure ((), p)) (r0 := fun _ p => ok ((), p)) inp
    (fun _ => Erases.pure _) pos

theorem skipUnknownD_erases (win nRead idx : Nat) (inp : Bits) (pos : Nat) :
    Erases (skipUnknownD win nRead idx inp pos) (skipUnknown win nRead idx inp pos) := by
  fun_induction skipUnknown win nRead idx inp pos with
  | case1 idx pos hlt u p he hb ih =>
    intro l
    rw [skipUnknownD]
    simp only [dif_pos hlt, hb, ↓reduceIte]
    obtain ⟨suf, hro⟩ := (skipOpenD_erases inp pos).eq_pair
      (l ++ [LogEntry.readBitFieldEntry true (ok (some true))])
    rw [hro, he]
    simp only
    obtain ⟨h1, suf', h2⟩ := ih (l ++ [LogEntry.readBitFieldEntry true (ok (some true))] ++ suf)
    exact ⟨h1, _, by rw [h2, List.append_assoc, List.append_assoc]⟩
  | case2 idx pos hlt k he hb =>
    intro l
    rw [skipUnknownD]
    simp only [dif_pos hlt, hb, ↓reduceIte]
    obtain ⟨suf, hro⟩ := (skipOpenD_erases inp pos).eq_pair
      (l ++ [LogEntry.readBitFieldEntry true (ok (some true))])
    rw [hro, he]
    exact ⟨rfl, _, by simp only; rw [List.append_assoc]⟩
  | case3 idx pos hlt he hb =>
    intro l
    rw [skipUnknownD]
    simp only [dif_pos hlt, hb, ↓reduceIte]
    obtain ⟨suf, hro⟩ := (skipOpenD_erases inp pos).eq_pair
      (l ++ [LogEntry.readBitFieldEntry true (ok (some true))])
    rw [hro, he]
    exact ⟨rfl, _, by simp only; rw [List.append_assoc]⟩
  | case4 idx pos hlt present hb hnp ih =>
    have hp : present = false := by simpa using hnp
    subst hp
    intro l
    rw [skipUnknownD]
    simp only [dif_pos hlt, hb, Bool.false_eq_true, ↓reduceIte]
    obtain ⟨h1, suf', h2⟩ := ih (l ++ [LogEntry.readBitFieldEntry true (ok (some false))])
    exact ⟨h1, _, by rw [h2, List.append_assoc]⟩
  | case5 idx pos hlt k hb =>
    intro l
    rw [skipUnknownD, dif_pos hlt, hb]
    exact ⟨rfl, _, rfl⟩
  | case6 idx pos hlt hb =>
    intro l
    rw [skipUnknownD, dif_pos hlt, hb]
    exact ⟨rfl, [], (List.append_nil l).symm⟩
  | case7 idx pos hlt =>
    intro l
    rw [skipUnknownD, dif_neg hlt]
    exact ⟨rfl, [], (List.append_nil l).symm⟩

theorem decListWithD_erases {r : RdPD Val} {r0 : RdP Val} {inp : Bits}
    (h : ∀ pos, Erases (r inp pos) (r0 inp pos)) :
    ∀ (n pos : Nat), Erases (decListWithD r n inp pos) (decListWith r0 n inp pos)
  | 0, _ => Erases.pure _
  | n + 1, pos => by
    unfold decListWithD decListWith
    exact Erases.bind (h pos) (fun ⟨v, p⟩ _ =>
      Erases.bind (decListWithD_erases h n p) (fun ⟨vs, p'⟩ _ => Erases.pure _))

theorem extBitD_erases (ext b : Bool) (inp : Bits) (pos : Nat) :
    Erases (if ext then liftL1D rdBit inp pos else Pure.pure (b, pos))
      (if ext then liftL1 rdBit inp pos else ok (b, pos)) :=
  Erases.ite (fun _ => liftL1D_erases _ _ _) (fun _ => Erases.pure _)

theorem lenD_erases (isExt : Bool) (min max : Option Nat) (inp : Bits) (pos : Nat) :
    Erases (if isExt then readLenD none none inp pos else readLenD min max inp pos)
      (if isExt then liftL1 (rLen none none) inp pos else liftL1 (rLen min max) inp pos) :=
  Erases.ite (fun _ => readLenD_erases _ _ _ _) (fun _ => readLenD_erases _ _ _ _)

theorem addWinD_erases (w : Option (Nat × Nat)) (nLocal : Nat) (inp : Bits) (pos : Nat) :
    Erases (match w with
        | some w => Pure.pure (w, pos)
        | none => readExtHeaderD nLocal inp pos : DM ((Nat × Nat) × Nat))
      (match w with
        | some w => ok (w, pos)
        | none => readExtHeader inp pos : Outcome ((Nat × Nat) × Nat)) := by
  cases w with
  | some w => exact Erases.pure _
  | none => exact readExtHeaderD_erases _ _ _

theorem bitFieldD_erases (isOpt : Bool) (x : Outcome Bool) : Erases (bitFieldD isOpt x) x :=
  Erases.tap _ (Erases.lift _)

/-! ### the mutual induction over `Ty` / `Fields` -/

mutual
theorem decD_erases : ∀ (t : Ty) (inp : Bits) (pos : Nat), Erases (decD t inp pos) (dec t inp pos)
  | .bool, inp, pos => by
    unfold decD dec
    exact Erases.seq (Erases.push _)
      (Erases.bind (Erases.tap _ (liftL1D_erases _ _ _)) (fun ⟨b, p⟩ _ => Erases.pure _))
  | .null, inp, pos => by
    unfold decD dec
    exact Erases.pure _
  | .int min max ext width signed, inp, pos => by
    unfold decD dec
    refine Erases.seq (Erases.push _) (Erases.bind (extBitD_erases _ _ _ _) (fun ⟨u, p0⟩ _ => ?_))
    exact Erases.bind (Erases.tap _ (Erases.ite (fun _ => liftL1D_erases _ _ _)
      (fun _ => liftL1D_erases _ _ _))) (fun ⟨v, p1⟩ _ => Erases.pure _)
  | .enum std total ext, inp, pos => by
    unfold decD dec
    refine Erases.tap _ (Erases.seq (Erases.push _)
      (Erases.bind (Erases.tap _ (liftL1D_erases _ _ _)) (fun ⟨i, p⟩ _ => ?_)))
    exact Erases.seq (Erases.pushIf _ _)
      (Erases.tap _ (Erases.ite (fun _ => Erases.pure _) (fun _ => Erases.lift _)))
  | .str cs min max ext, inp, pos => by
    cases cs with
    | utf8 =>
      unfold decD dec
      refine Erases.seq (Erases.push _) (Erases.tap _
        (Erases.bind (liftL1D_erases _ _ _) (fun ⟨o, p⟩ _ => ?_)))
      dsimp only
      cases utf8Decode o with
      | some _ => exact Erases.pure _
      | none => exact Erases.lift _
    | _ =>
      unfold decD dec
      refine Erases.seq (Erases.push _) (Erases.tap _
        (Erases.bind (extBitD_erases _ _ _ _) (fun ⟨isExt, p0⟩ _ =>
          Erases.bind (lenD_erases _ _ _ _ _) (fun ⟨len, p1⟩ _ => ?_))))
      exact Erases.ite (fun _ => Erases.lift _) (fun _ => Erases.pure _)
  | .oct min max ext, inp, pos => by
    unfold decD dec
    exact Erases.seq (Erases.push _)
      (Erases.bind (Erases.tap _ (liftL1D_erases _ _ _)) (fun ⟨b, p⟩ _ => Erases.pure _))
  | .bits min max ext, inp, pos => by
    unfold decD dec
    exact Erases.seq (Erases.push _)
      (Erases.bind (Erases.tap _ (liftL1D_erases _ _ _)) (fun ⟨b, p⟩ _ => Erases.pure _))
  | .seqOf min max ext elem, inp, pos => by
    unfold decD dec
    refine Erases.seq (Erases.push _) (Erases.bind (extBitD_erases _ _ _ _) (fun ⟨isExt, p0⟩ _ =>
      Erases.bind (lenD_erases _ _ _ _ _) (fun ⟨len, p1⟩ _ => ?_)))
    exact Erases.bind (decListWithD_erases (fun q => decD_erases elem inp q) len p1)
      (fun ⟨vs, p2⟩ _ => Erases.pure _)
  | .seq stdOpt fieldCount extAfter fields, inp, pos => by
    unfold decD dec
    refine Erases.tap _ (Erases.seq (Erases.push _) (Erases.bind ?_ (fun ⟨extBit, p0⟩ _ => ?_)))
    · cases extAfter with
      | none => exact Erases.pure _
      | some k => exact liftL1D_erases _ _ _
    · exact Erases.ite (fun _ => Erases.lift _) (fun _ =>
        Erases.bind (decFieldsD_erases fields _ _ _ _ inp _) (fun ⟨vs, p1⟩ _ => Erases.pure _))
  | .choice std total ext alts, inp, pos => by
    unfold decD dec
    refine Erases.tap _ (Erases.seq (Erases.push _)
      (Erases.bind (Erases.tap _ (liftL1D_erases _ _ _)) (fun ⟨i, p0⟩ _ => ?_)))
    refine Erases.ite (fun _ => ?_) (fun _ => ?_)
    · refine Erases.bind (readLenD_erases _ _ _ _) (fun ⟨len, p1⟩ _ => ?_)
      refine Erases.tap _ (Erases.ite (fun _ => Erases.seq (Erases.push _) (Erases.lift _)) (fun _ => ?_))
      exact Erases.bind (subSliceD_erases len inp p1 (decAltD_erases alts i inp p1))
        (fun ⟨v, p2⟩ _ => Erases.pure _)
    · exact Erases.tap _ (Erases.bind (decAltD_erases alts i inp p0) (fun ⟨v, p1⟩ _ => Erases.pure _))

theorem decAltD_erases : ∀ (fs : Fields) (i : Nat) (inp : Bits) (pos : Nat),
    Erases (decAltD fs i inp pos) (decAlt fs i inp pos)
  | .nil, _, inp, pos => by unfold decAltD decAlt; exact Erases.lift _
  | .cons _ t _, 0, inp, pos => by unfold decAltD decAlt; exact decD_erases t inp pos
  | .cons _ _ rest, i + 1, inp, pos => by unfold decAltD decAlt; exact decAltD_erases rest i inp pos

theorem decFieldsD_erases : ∀ (fs : Fields) (rootLeft optIdx addIdx : Nat) (ctx : SeqCtx)
    (inp : Bits) (pos : Nat),
    Erases (decFieldsD fs rootLeft optIdx addIdx ctx inp pos)
      (decFields fs rootLeft optIdx addIdx ctx inp pos)
  | .nil, rootLeft, optIdx, addIdx, ctx, inp, pos => by
    unfold decFieldsD decFields
    refine Erases.ite (fun _ => ?_) (fun _ => Erases.pure _)
    refine Erases.bind (addWinD_erases _ _ _ _) (fun ⟨⟨win, nRead⟩, p⟩ _ => ?_)
    exact Erases.bind (skipUnknownD_erases _ _ _ _ _) (fun ⟨_, p'⟩ _ => Erases.pure _)
  | .cons k t rest, rootLeft, optIdx, addIdx, ctx, inp, pos => by
    unfold decFieldsD decFields
    refine Erases.ite (fun _ => ?_) (fun _ => Erases.ite (fun _ => ?_) (fun _ => ?_))
    · -- root component
      refine Erases.seq (Erases.pushAll _) (Erases.bind (bitFieldD_erases _ _) (fun present _ => ?_))
      refine Erases.bind ?_ (fun ⟨v, p⟩ _ => ?_)
      · exact Erases.ite
          (fun _ => Erases.bind (decD_erases t inp pos) (fun ⟨x, p⟩ _ => Erases.pure _))
          (fun _ => Erases.pure _)
      · exact Erases.bind (decFieldsD_erases rest _ _ _ _ inp p) (fun ⟨vs, p'⟩ _ => Erases.pure _)
    · -- extension addition, extension part present
      refine Erases.seq (Erases.pushAll _)
        (Erases.bind (addWinD_erases _ _ _ _) (fun ⟨⟨win, nRead⟩, p⟩ _ => ?_))
      refine Erases.bind (bitFieldD_erases _ _) (fun present _ => ?_)
      refine Erases.bind ?_ (fun ⟨v, p'⟩ _ => ?_)
      · refine Erases.ite (fun _ => ?_) (fun _ => Erases.pure _)
        refine Erases.bind ?_ (fun ⟨x, p'⟩ _ => Erases.pure _)
        exact Erases.ite (fun _ => readOpenD_erases inp (fun q => decD_erases t inp q) p)
          (fun _ => decD_erases t inp p)
      · exact Erases.bind (decFieldsD_erases rest _ _ _ _ inp p') (fun ⟨vs, p''⟩ _ => Erases.pure _)
    · -- extension addition, no extension part
      refine Erases.seq (Erases.pushAll _) (Erases.seq (Erases.push _) ?_)
      refine Erases.bind ?_ (fun ⟨v, p⟩ _ => ?_)
      · cases k with
        | m => exact decD_erases t inp pos
        | o => exact Erases.pure _
        | d dv => exact Erases.pure _
      · exact Erases.bind (decFieldsD_erases rest _ _ _ _ inp p) (fun ⟨vs, p'⟩ _ => Erases.pure _)
end

end Asn1Verif.Uper
