import Asn1Verif.Uper.Impl
import Asn1Verif.X691.Encode
import Asn1Verif.Per.PrimLemmasWhole
import Asn1Verif.Per.PrimLemmasBitStr
/-
  L1/L2 — small facts about the PER primitives (`Per/Prim.lean`) that the SEQUENCE lemmas
  (`Uper/SeqLemmas.lean`) and the rejection lemmas (`Uper/RejLemmas.lean`) need: closed form of the
  unconstrained length determinant, the normally small number against X.691 11.6, totality of the
  open-type wrapper.
-/
namespace Asn1Verif.Uper
open Asn1Verif Outcome Per

/-! ### the outcome monad -/

theorem bind_eq_err {α β : Type} {x : Outcome α} {f : α → Outcome β} {e : ErrKind} :
    (x >>= f) = err e ↔ x = err e ∨ ∃ a, x = ok a ∧ f a = err e := by
  cases x <;> simp

theorem bind_eq_panic {α β : Type} {x : Outcome α} {f : α → Outcome β} :
    (x >>= f) = panic ↔ x = panic ∨ ∃ a, x = ok a ∧ f a = panic := by
  cases x <;> simp

/-! ### the normally small number in front of the addition bitmap -/

theorem wLen_unc_small {n : Nat} (h : n ≤ 127) :
    wLen none none n = ok (false :: natBits 7 n, none) := by
  rw [Per.wLen_unc, X691.lenU, if_pos h]

/-- `write_normally_small_non_negative_whole_number` never fails, whatever the number (for a `u64` it
    emits X.691 11.6: `Per.wSmall_ok`) -/
theorem wSmall_total (n : Nat) : ∃ b, wSmall n = ok b := by
  unfold wSmall
  by_cases hn : n ≤ 63
  · have h1 : ¬ 63 < n := by omega
    have h2 : ¬ 64 ≤ n := by omega
    simp [wNNBI, wNNBIc, Consts.SMALL_NON_NEGATIVE_NUMBER, h1, h2]
  · have h2 : 64 ≤ n := by omega
    have hk : 8 - min (lz64 n / 8) 7 ≤ 127 := by omega
    simp [wNNBI, wLen_unc_small hk, Consts.SMALL_NON_NEGATIVE_NUMBER, h2]

/-! ### unconstrained length, fragments, open type -/

/-- the unconstrained length determinant (`Per.wLen_unc`: it is `X691.lenU`), in closed form -/
theorem wLen_unc_closed (v : Nat) : wLen none none v =
    if v ≤ 127 then ok (false :: natBits 7 v, none)
    else if v < 16384 then ok (true :: false :: natBits 14 v, none)
    else ok (true :: true :: natBits 6 (min (v / 16384) 4), some (min (v / 16384) 4 * 16384)) := by
  rw [Per.wLen_unc, X691.lenU]
  split
  · rfl
  · split <;> rfl

/-- it never fails, and an announced fragment is never larger than what is there -/
theorem wLen_unc_ok (v : Nat) : ∃ b f, wLen none none v = ok (b, f) ∧ f.getD v ≤ v := by
  rw [wLen_unc_closed]
  by_cases h1 : v ≤ 127
  · exact ⟨_, _, if_pos h1, Nat.le_refl _⟩
  · by_cases h2 : v < 16384
    · exact ⟨_, _, by rw [if_neg h1, if_pos h2], Nat.le_refl _⟩
    · refine ⟨_, _, by rw [if_neg h1, if_neg h2], ?_⟩
      simp only [Option.getD_some]
      omega

theorem wOctFrag_ok (rest : List (BitVec 8)) : ∃ b, wOctFrag rest = ok b := by
  fun_induction wOctFrag rest with
  | case1 => exact ⟨_, rfl⟩
  | case2 => exact ⟨_, rfl⟩
  | case3 _ _ _ _ _ _ _ _ hx ih => obtain ⟨b, hb⟩ := ih; rw [hb] at hx; cases hx
  | case4 _ _ _ _ _ _ _ hx ih => obtain ⟨b, hb⟩ := ih; rw [hb] at hx; cases hx
  | case5 rest _ _ hx _ hfs =>
    obtain ⟨b, f, h1, h2⟩ := wLen_unc_ok rest.length
    rw [h1] at hx
    simp only [ok.injEq, Prod.mk.injEq] at hx
    obtain ⟨_, rfl⟩ := hx
    exact absurd h2 hfs
  | case6 rest _ hx => obtain ⟨b, f, h1, _⟩ := wLen_unc_ok rest.length; rw [h1] at hx; cases hx
  | case7 rest hx => obtain ⟨b, f, h1, _⟩ := wLen_unc_ok rest.length; rw [h1] at hx; cases hx

/-- an unconstrained OCTET STRING (open type, UTF8String) can be written unless it is longer than
    `i64::MAX` octets — then it is refused with `SizeNotInRange` -/
theorem wOctets_unc (src : List (BitVec 8)) :
    (src.length ≤ I64MAXu → ∃ b, wOctets none none false src = ok b) ∧
    (src.length > I64MAXu → wOctets none none false src = err .sizeNotInRange) := by
  obtain ⟨hdr, f, h1, h2⟩ := wLen_unc_ok src.length
  have hI : I64MAXu ≠ 0 := by decide
  constructor
  · intro hle
    have hle' : ¬ (I64MAXu < src.length) := by omega
    cases f with
    | none => simp [wOctets, hle', hI, h1]
    | some f =>
      obtain ⟨m, hm⟩ := wOctFrag_ok (src.drop f)
      simp only [Option.getD_some] at h2
      simp [wOctets, hle', hI, h1, h2, hm]
  · intro hgt
    simp [wOctets, hgt]

theorem openType_ne_panic (c : Bits) : openType c ≠ panic := by
  unfold openType
  generalize (if c.isEmpty = true then [0#8] else padToBytes c) = src
  by_cases h : src.length ≤ I64MAXu
  · obtain ⟨b, hb⟩ := (wOctets_unc src).1 h
    rw [hb]; simp
  · rw [(wOctets_unc src).2 (by omega)]; simp
/-- the open-type wrapper of the code is the open type of X.691 11.2 (unless the padded content is
    longer than `i64::MAX` octets — then `wOctets_unc` says it is refused) -/
theorem openType_x691 (c : Bits)
    (h : (if c.isEmpty then [0#8] else padToBytes c).length ≤ I64MAXu) :
    openType c = ok (X691.openType c) := by
  unfold openType X691.openType
  rw [wOctets_pattern none none false _ (by decide) h (Or.inr (by simp [X691.inRoot]))]
  simp [X691.octets, X691.sized, X691.inRoot]

/-! ### evaluation helpers for concrete examples (`bitsBytes` is defined by well-founded recursion) -/

theorem bitsBytes_8 (b0 b1 b2 b3 b4 b5 b6 b7 : Bool) :
    bitsBytes [b0, b1, b2, b3, b4, b5, b6, b7] =
      [BitVec.ofNat 8 (bitsToNat [b0, b1, b2, b3, b4, b5, b6, b7])] := by
  rw [bitsBytes]; simp; rw [bitsBytes]; simp

theorem padToBytes_true : padToBytes [true] = [0x80#8] := by
  simp only [padToBytes, List.length_singleton]
  rw [show [true] ++ List.replicate ((8 - 1 % 8) % 8) false =
    [true, false, false, false, false, false, false, false] from rfl, bitsBytes_8]
  decide

/-- the open type of the one-bit content `1`: length 1, octet `0x80` -/
theorem openType_true : openType [true] =
    ok [false, false, false, false, false, false, false, true,
        true, false, false, false, false, false, false, false] := by
  have h1 := padToBytes_true
  have hI : ¬ (I64MAXu < 1) := by decide
  have hI0 : I64MAXu ≠ 0 := by decide
  simp only [openType, h1]
  simp [wOctets, wLen_unc_closed, hI, hI0]
  decide

end Asn1Verif.Uper
