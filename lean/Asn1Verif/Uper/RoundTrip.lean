import Asn1Verif.Uper.RoundTripSeqAdd
/-
  C01 — the component step, the SEQUENCE node and the mutual structural induction over
  `Ty` / `Fields`: what the writer accepted, the reader reads back, consuming exactly the written
  bits, whatever stands before and behind them.
-/
namespace Asn1Verif.Uper
open Asn1Verif Outcome Per

/-- one component, both sides: the continuation property is preserved -/
theorem cont_cons (k : Kind) (t : Ty) (wrest : Fields) (wvs : Vals) (rrest : Fields) (rvs : Vals)
    (iht : RT (enc t) (dec t) (valOk t)) (v : Val) (rootLeft : Nat) (fin : SeqAcc) (inp : Bits)
    (P B : Nat) (post : Bits) (L : SeqLayout inp fin P B post)
    (hcond : (decide (rootLeft > 0) || k.isOptional || (t.buffersOnWrite == t.buffersOnRead)) = true)
    (hvx : (match fieldView k v with
      | some (true, x) =>
        valOk t x &&
          (decide (rootLeft > 0) || !(k.isOptional || t.buffersOnWrite) || openOkC (enc t x))
      | _ => true) = true)
    (hlen : wrest.length + 1 ≤ U64_MAX)
    (ihr : Cont wrest wvs rrest rvs (rootLeft - 1) fin inp P B) :
    Cont (.cons k t wrest) (.cons v wvs) (.cons k t rrest) (.cons v rvs) rootLeft fin inp P B := by
  intro acc ctx addIdx pos henc hP hext hinv
  rw [encFields_cons_view] at henc
  cases hv : fieldView k v with
  | none => simp [hv] at henc
  | some px =>
    obtain ⟨p, x⟩ := px
    simp only [hv] at henc hvx
    obtain ⟨acc1, hs, henc'⟩ := bind_ok_elim henc
    have hvx' : p = true → valOk t x = true ∧
        (decide (rootLeft > 0) || !(k.isOptional || t.buffersOnWrite) || openOkC (enc t x)) = true := by
      intro hp; subst hp
      simpa only [Bool.and_eq_true] using hvx
    by_cases hroot : rootLeft > 0
    · simp only [hroot, decide_true] at hs
      simp only [decFields, hroot, if_true]
      exact cont_cons_root k t wrest wvs rrest rvs iht v rootLeft acc acc1 fin inp P B post ihr ctx
        addIdx pos p x hroot (fun hp => (hvx' hp).1) hv hs henc' L hP hext hinv
    · have h0 : rootLeft = 0 := by omega
      subst h0
      simp only [Nat.lt_irrefl, decide_false, Bool.false_or] at hs hcond hvx'
      simp only [Nat.zero_sub] at henc' ihr
      rw [step_add] at hs
      unfold StateInv at hinv
      cases hst : acc.st with
      | all =>
        simp only [hst] at hs hinv
        obtain ⟨_, hwin, hidx, hpos⟩ := hinv
        exact cont_cons_ext k t wrest wvs rrest rvs iht v acc acc1 fin inp P B post ihr ctx addIdx pos
          p x hcond hvx' hv hs henc' L hP hext hidx (Or.inl ⟨hwin, hpos⟩)
      | empty =>
        simp only [hst] at hs hinv
        obtain ⟨hwin, hpos, _⟩ := hinv
        cases p with
        | true => simp at hs
        | false =>
          simp only [Bool.false_eq_true, if_false] at hs
          injection hs with hs; subst hs
          exact cont_cons_noext k t wrest wvs rrest rvs v acc acc fin inp P B ihr ctx addIdx pos x
            hv hst rfl rfl henc' hP hext hwin hpos
      | root =>
        simp only [hst] at hs hinv
        obtain ⟨hwin, hpos, hap, hab, hidx⟩ := hinv
        cases p with
        | false =>
          simp only [Bool.false_eq_true, if_false] at hs
          injection hs with hs; subst hs
          exact cont_cons_noext k t wrest wvs rrest rvs v acc { acc with st := .empty } fin inp P B
            ihr ctx addIdx pos x hv rfl rfl rfl henc' hP hext hwin hpos
        | true =>
          simp only [if_true] at hs
          obtain ⟨rp, rb, ap, ab, F⟩ := encFields_frameC wrest wvs 0 acc1 fin henc'
          obtain ⟨body, _, e1⟩ := asAll_ok hs
          have hall : fin.st = .all := (F.stAll (by rw [e1])).1
          have hcnt : fin.addPres.length = wrest.length + 1 := by
            rw [F.addPres, e1, List.length_append, (F.stAll (by rw [e1])).2, hap]; simp; omega
          have hrb : fin.rootBody = acc.rootBody := by
            rw [F.rootBody, (F.rootDone rfl).2, e1]; simp
          obtain ⟨hH, _, _, _⟩ := layout_ext L hall
          have hhdr := readExtHeader_at inp pos fin.addPres.length _ (by omega) (by omega)
            (by rw [hpos, ← hrb]; exact hH) (by simp)
          refine cont_cons_ext k t wrest wvs rrest rvs iht v acc acc1 fin inp P B post ihr ctx addIdx
            pos true x hcond hvx' hv hs henc' L hP hext (by rw [hidx, hap]; rfl)
            (Or.inr ⟨hwin, ?_⟩)
          rw [hhdr, hab]
          simp only [addPos, winPos, hpos, hrb, List.length_nil, Nat.add_zero]

theorem fieldsRT_cons (k : Kind) (t : Ty) (rest : Fields)
    (iht : RT (enc t) (dec t) (valOk t)) (ihr : FieldsRT rest) : FieldsRT (.cons k t rest) := by
  intro vs rootLeft fin inp P B post hrt hvo hlen L
  cases vs with
  | nil => intro acc ctx addIdx pos henc; simp [encFields] at henc
  | cons v vs =>
    simp only [Fields.rtOk, Bool.and_eq_true] at hrt
    simp only [valOkFields, Bool.and_eq_true] at hvo
    simp only [Fields.length] at hlen
    exact cont_cons k t rest vs rest vs iht v rootLeft fin inp P B post L
      (by simpa [Bool.or_assoc] using hrt.1.2) hvo.1 hlen
      (ihr vs (rootLeft - 1) fin inp P B post hrt.2 hvo.2 (by omega) L)

theorem rt_seq (so fc : Nat) (extAfter : Option Nat) (fields : Fields) (v : Val) (bits : Bits)
    (ht : (Ty.seq so fc extAfter fields).rtOk = true)
    (hv : valOk (.seq so fc extAfter fields) v = true)
    (ih : FieldsRT fields)
    (h : enc (.seq so fc extAfter fields) v = ok bits) (inp : Bits) (pos : Nat) (post : Bits)
    (hat : At inp pos bits post) :
    dec (.seq so fc extAfter fields) inp pos = ok (v, pos + bits.length) := by
  cases v <;> try (simp [enc] at h; done)
  rename_i vs
  simp only [Ty.rtOk, Bool.and_eq_true, decide_eq_true_eq] at ht
  simp only [valOk] at hv
  cases extAfter with
  | none =>
    simp only [enc] at h
    obtain ⟨fin, henc, h⟩ := bind_ok_elim h
    injection h with h; subst h
    obtain ⟨rp, rb, ap, ab, F⟩ := encFields_frameC fields vs fields.length {} fin henc
    have hst : fin.st = .root := F.allRoot (Nat.le_refl _)
    have hopt : fields.optCount fields.length = fin.rootPres.length := by
      rw [F.rootPres, ← F.optCount]; simp
    have hext : extPart fin = [] := by simp [extPart, hst, ExtState.isAll]
    have hb := hat.bound
    simp only [List.length_append] at hb
    simp only [dec, Outcome.bind_ok, hopt]
    rw [if_neg (by omega)]
    have L : SeqLayout inp fin pos (pos + fin.rootPres.length) post :=
      ⟨⟨_, hat.left⟩, by rw [hext]; exact hat.right⟩
    have hinv : StateInv {} fin (pos + fin.rootPres.length) fields.length
        { presPos := pos, extBit := false, nLocal := fields.length - fields.length } 0
        (pos + fin.rootPres.length) := by
      unfold StateInv
      exact ⟨rfl, rfl, rfl, rfl, rfl⟩
    have := ih vs fields.length fin inp pos (pos + fin.rootPres.length) post ht.2 hv ht.1 L {} _ 0 _
      henc rfl (by rw [hst]; rfl) hinv
    simp only [List.length_nil] at this
    rw [this]
    simp only [Outcome.bind_ok, endPos, hext, List.length_nil, List.length_append]
    congr 2
    omega
  | some k =>
    simp only [enc] at h
    obtain ⟨fin, henc, h⟩ := bind_ok_elim h
    obtain ⟨rp, rb, ap, ab, F⟩ := encFields_frameC fields vs (k + 1) {} fin henc
    have hopt : fields.optCount (k + 1) = fin.rootPres.length := by
      rw [F.rootPres, ← F.optCount]; simp
    -- the bits, uniformly
    have hbits : bits = [fin.st.isAll] ++ (fin.rootPres ++ (fin.rootBody ++ extPart fin)) := by
      cases hst : fin.st with
      | all =>
        simp only [hst] at h
        have hcnt : fin.addPres.length = fields.length - (k + 1) := by
          rw [F.addPres, ← (F.stRoot rfl).1 hst]; simp
        rw [wSmall_ok _ (by omega)] at h
        simp only [Outcome.bind_ok] at h
        injection h with h
        rw [← h]
        simp [extPart, hst, ExtState.isAll, hcnt]
      | root =>
        simp only [hst] at h
        injection h with h
        rw [← h]
        simp [extPart, hst, ExtState.isAll]
      | empty =>
        simp only [hst] at h
        injection h with h
        rw [← h]
        simp [extPart, hst, ExtState.isAll]
    subst hbits
    have hb := hat.bound
    simp only [List.length_append, List.length_cons, List.length_nil] at hb
    simp only [dec]
    rw [hat.left.lift rdBit _ (rdBit_cons _ _)]
    simp only [Outcome.bind_ok, hopt, List.length_cons, List.length_nil]
    rw [if_neg (by omega)]
    have h1 : At inp (pos + 1) (fin.rootPres ++ (fin.rootBody ++ extPart fin)) post := hat.right
    have L : SeqLayout inp fin (pos + 1) (pos + 1 + fin.rootPres.length) post :=
      ⟨⟨_, h1.left⟩, h1.right.left⟩
    have hinv : StateInv {} fin (pos + 1 + fin.rootPres.length) (k + 1)
        { presPos := pos + 1, extBit := fin.st.isAll, nLocal := fields.length - (k + 1) } 0
        (pos + 1 + fin.rootPres.length) := by
      unfold StateInv
      exact ⟨rfl, rfl, rfl, rfl, rfl⟩
    have := ih vs (k + 1) fin inp (pos + 1) (pos + 1 + fin.rootPres.length) post ht.2 hv ht.1 L {} _ 0
      _ henc rfl rfl hinv
    simp only [List.length_nil] at this
    rw [this]
    simp only [Outcome.bind_ok, endPos, List.length_append, List.length_cons, List.length_nil]
    congr 2
    omega

mutual
theorem rt : ∀ (t : Ty), t.rtOk = true → RT (enc t) (dec t) (valOk t)
  | .bool, _ => fun v bits _ h inp pos post hat => rt_bool v bits h inp pos post hat
  | .null, _ => fun v bits _ h inp pos post hat => rt_null v bits h inp pos post hat
  | .int min max ext w s, ht => fun v bits hv h inp pos post hat =>
    rt_int min max ext w s v bits ht hv h inp pos post hat
  | .enum std total ext, ht => fun v bits hv h inp pos post hat =>
    rt_enum std total ext v bits ht hv h inp pos post hat
  | .str cs min max ext, _ => fun v bits hv h inp pos post hat =>
    rt_str cs min max ext v bits hv h inp pos post hat
  | .oct min max ext, ht => fun v bits _ h inp pos post hat =>
    rt_oct min max ext v bits ht h inp pos post hat
  | .bits min max ext, ht => fun v bits _ h inp pos post hat =>
    rt_bits min max ext v bits ht h inp pos post hat
  | .seqOf min max ext elem, ht => fun v bits hv h inp pos post hat =>
    rt_seqOf min max ext elem v bits hv (rt elem (by simpa [Ty.rtOk] using ht)) h inp pos post hat
  | .seq so fc extAfter fields, ht => fun v bits hv h inp pos post hat =>
    rt_seq so fc extAfter fields v bits ht hv (rtFields fields) h inp pos post hat
  | .choice std total ext alts, ht => fun v bits hv h inp pos post hat => by
    simp only [Ty.rtOk, Bool.and_eq_true, decide_eq_true_eq] at ht
    exact rt_choice std total ext alts v bits ht.1 hv (fun i => rtAlt alts alts.length i ht.2) h inp
      pos post hat
theorem rtAlt : ∀ (alts : Fields) (n i : Nat), alts.rtOk n = true →
    RT (encAlt alts i) (decAlt alts i) (valOkAlt alts i)
  | .nil, _, _, _ => fun v bits _ h _ _ _ _ => by simp [encAlt] at h
  | .cons k t rest, n, 0, ht => fun v bits hv h inp pos post hat => by
    simp only [Fields.rtOk, Bool.and_eq_true] at ht
    simp only [valOkAlt] at hv
    simp only [encAlt] at h
    simp only [decAlt]
    exact rt t ht.1.1 v bits hv h inp pos post hat
  | .cons k t rest, n, i + 1, ht => fun v bits hv h inp pos post hat => by
    simp only [Fields.rtOk, Bool.and_eq_true] at ht
    simp only [valOkAlt] at hv
    simp only [encAlt] at h
    simp only [decAlt]
    exact rtAlt rest (n - 1) i ht.2 v bits hv h inp pos post hat
theorem rtFields : ∀ (fs : Fields), FieldsRT fs
  | .nil => fieldsRT_nil
  | .cons k t rest => by
    intro vs rootLeft fin inp P B post hrt
    have ht : t.rtOk = true := by
      simp only [Fields.rtOk, Bool.and_eq_true] at hrt; exact hrt.1.1
    exact fieldsRT_cons k t rest (rt t ht) (rtFields rest) vs rootLeft fin inp P B post hrt
end

end Asn1Verif.Uper
