/-
  Outcome monad of every code mirror: the three observable results of running a piece of the
  Rust crate under the dev profile (overflow checks and debug assertions on).

  * `ok a`     – the function returned `Ok(a)` (or a plain value)
  * `err k`    – the function returned `Err(_)`; `k` is the error *class* the properties
                 distinguish (see DESIGN.md 2.4), not the message
  * `panic`    – the real code would unwind (index out of bounds, arithmetic overflow in a
                 dev build, `unwrap` on `None`, failed `assert!`/`debug_assert!`)
-/
namespace Asn1Verif

inductive ErrKind where
  | endOfStream          -- EndOfStream / InsufficientDataInSourceBuffer
  | insufficientSpace    -- InsufficientSpaceInDestinationBuffer
  | valueNotInRange
  | sizeNotInRange
  | invalidString
  | invalidChoiceIndex
  | extensionInconsistent
  | bitLenNotInRange
  | lengthExceedsLimit
  | utf8
  | unsupported
  | other
  | illTyped             -- request whose value does not fit its type (driver answers bad-op)
  deriving DecidableEq, Repr, Inhabited

def ErrKind.toString : ErrKind → String
  | .endOfStream => "eos"
  | .insufficientSpace => "nospace"
  | .valueNotInRange => "value-range"
  | .sizeNotInRange => "size-range"
  | .invalidString => "invalid-string"
  | .invalidChoiceIndex => "choice-index"
  | .extensionInconsistent => "ext-inconsistent"
  | .bitLenNotInRange => "bitlen-range"
  | .lengthExceedsLimit => "len-limit"
  | .utf8 => "utf8"
  | .unsupported => "unsupported"
  | .other => "other"
  | .illTyped => "ill-typed"

instance : ToString ErrKind := ⟨ErrKind.toString⟩

inductive Outcome (α : Type) where
  | ok (a : α)
  | err (k : ErrKind)
  | panic
  deriving Repr, DecidableEq

namespace Outcome

variable {α β : Type}

@[inline] def bind (x : Outcome α) (f : α → Outcome β) : Outcome β :=
  match x with
  | ok a => f a
  | err k => err k
  | panic => panic

instance : Monad Outcome where
  pure := ok
  bind := bind

def isOk : Outcome α → Bool
  | ok _ => true
  | _ => false

def isPanic : Outcome α → Bool
  | panic => true
  | _ => false

/-- "returned `Ok` or `Err`", i.e. did not unwind. -/
def NoPanic (x : Outcome α) : Prop := x ≠ panic

@[simp] theorem pure_def (a : α) : (pure a : Outcome α) = ok a := rfl
@[simp] theorem bind_ok (a : α) (f : α → Outcome β) : (ok a >>= f) = f a := rfl
@[simp] theorem bind_err (k : ErrKind) (f : α → Outcome β) : (err k >>= f) = err k := rfl
@[simp] theorem bind_panic (f : α → Outcome β) : ((panic : Outcome α) >>= f) = panic := rfl

theorem bind_eq_ok {x : Outcome α} {f : α → Outcome β} {b : β} :
    (x >>= f) = ok b ↔ ∃ a, x = ok a ∧ f a = ok b := by
  cases x <;> simp

@[simp] theorem map_ok (f : α → β) (a : α) : (f <$> (ok a : Outcome α)) = ok (f a) := rfl
@[simp] theorem map_err (f : α → β) (k : ErrKind) : (f <$> (err k : Outcome α)) = err k := rfl
@[simp] theorem map_panic (f : α → β) : (f <$> (panic : Outcome α)) = panic := rfl

/-- `assert!`/`debug_assert!`: unwinds when the condition is false. -/
@[inline] def assert (c : Bool) : Outcome Unit := if c then ok () else panic

/-- `if c { return Err(k) }` -/
@[inline] def failIf (c : Bool) (k : ErrKind) : Outcome Unit := if c then err k else ok ()

end Outcome

/-! ### Checked fixed-width arithmetic (dev profile: overflow ⇒ panic) -/

def U64_MAX : Nat := 2 ^ 64 - 1
def I64_MAX : Int := 2 ^ 63 - 1
def I64_MIN : Int := -(2 ^ 63)

/-- `a - b` on `u64`/`usize` -/
@[inline] def uSub (a b : Nat) : Outcome Nat := if b ≤ a then .ok (a - b) else .panic
/-- `a + b` on `u64`/`usize` -/
@[inline] def uAdd (a b : Nat) : Outcome Nat := if a + b ≤ U64_MAX then .ok (a + b) else .panic
/-- `a * b` on `u64`/`usize` -/
@[inline] def uMul (a b : Nat) : Outcome Nat := if a * b ≤ U64_MAX then .ok (a * b) else .panic

@[inline] def inI64 (i : Int) : Bool := decide (I64_MIN ≤ i) && decide (i ≤ I64_MAX)
@[inline] def iChk (i : Int) : Outcome Int := if inI64 i then .ok i else .panic
/-- `a - b` on `i64` -/
@[inline] def iSub (a b : Int) : Outcome Int := iChk (a - b)
/-- `a + b` on `i64` -/
@[inline] def iAdd (a b : Int) : Outcome Int := iChk (a + b)

/-- `x as u64` for an `i64` (two's complement reinterpretation) -/
@[inline] def i64AsU64 (i : Int) : Nat := (i % (2 ^ 64 : Int)).toNat
/-- `x as i64` for a `u64` -/
@[inline] def u64AsI64 (n : Nat) : Int := if n < 2 ^ 63 then (n : Int) else (n : Int) - 2 ^ 64

/-- number of significant bits of `n` (0 for 0) -/
def bitWidth (n : Nat) : Nat := if n = 0 then 0 else Nat.log2 n + 1

/-- `u64::leading_zeros` (for `n < 2^64`) -/
def lz64 (n : Nat) : Nat := 64 - bitWidth n

end Asn1Verif
