import Asn1Verif.Base.Outcome
/-
  Text helpers of the line protocol (driver side): hex, numbers, outcome rendering.
  Not part of any model; no theorem depends on this file.
-/
namespace Asn1Verif.Text

def hexDigit (n : Nat) : Char :=
  if n < 10 then Char.ofNat (48 + n) else Char.ofNat (87 + n)

def byteToHex (b : BitVec 8) : String :=
  String.ofList [hexDigit (b.toNat / 16), hexDigit (b.toNat % 16)]

/-- bytes to lower-case hex; the empty list is `-` so that it stays one token -/
def bytesToHex (bs : List (BitVec 8)) : String :=
  if bs.isEmpty then "-" else String.join (bs.map byteToHex)

def hexVal (c : Char) : Option Nat :=
  if '0' ≤ c ∧ c ≤ '9' then some (c.toNat - 48)
  else if 'a' ≤ c ∧ c ≤ 'f' then some (c.toNat - 87)
  else if 'A' ≤ c ∧ c ≤ 'F' then some (c.toNat - 55)
  else none

def hexToBytesAux : List Char → Option (List (BitVec 8))
  | [] => some []
  | a :: b :: rest => do
    let x ← hexVal a
    let y ← hexVal b
    let r ← hexToBytesAux rest
    pure (BitVec.ofNat 8 (x * 16 + y) :: r)
  | _ => none

def hexToBytes (s : String) : Option (List (BitVec 8)) :=
  if s = "-" then some [] else hexToBytesAux s.toList

def parseInt (s : String) : Option Int := s.toInt?
def parseNat (s : String) : Option Nat := s.toNat?

def parseBool (s : String) : Option Bool :=
  if s = "1" ∨ s = "true" then some true else if s = "0" ∨ s = "false" then some false else none

/-- `none` / a number -/
def parseOptNat (s : String) : Option (Option Nat) :=
  if s = "none" then some none else (s.toNat?).map some

def parseOptInt (s : String) : Option (Option Int) :=
  if s = "none" then some none else (s.toInt?).map some

def bitsToString (bs : List Bool) : String :=
  if bs.isEmpty then "-" else String.ofList (bs.map fun b => if b then '1' else '0')

def parseBits (s : String) : Option (List Bool) :=
  if s = "-" then some [] else
    s.toList.mapM fun c => if c = '1' then some true else if c = '0' then some false else none

def render {α : Type} (f : α → String) : Outcome α → String
  | .ok a => "ok " ++ f a
  | .err k => "err " ++ toString k
  | .panic => "panic"

def boolStr (b : Bool) : String := if b then "1" else "0"

end Asn1Verif.Text
