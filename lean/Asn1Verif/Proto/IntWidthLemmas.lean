import Asn1Verif.Proto.Schema
import Asn1Verif.Proto.RoundTripLemmas
import Asn1Verif.Codegen.IntTypeLemmas
/-
  C17 / C18: the integer encoding `write_number` / `read_number` select from the constraint constants
  (`intClass`, `Proto/Codec.lean`) against the Rust type the converter selects for the same
  constraint (`Codegen/IntType.lean`: `cascade`, mirror of `asn_fixed_integer_to_rust_type` /
  `asn_extensible_integer_to_rust`), from which the generated schema takes its scalar type
  (`definition_type_to_protobuf_type`).  The constants the codec sees are the ones
  `write_integer_constraint_type` emits for that Rust type (`IntTy.constMin/constMax/ext`).
-/
namespace Asn1Verif.Proto
open Asn1Verif Asn1Verif.Consts Asn1Verif.Codegen.IntType Outcome
open Asn1Verif.Uper (castInt Ty Val Vals Fields Kind)

/-- `definition_type_to_protobuf_type` on the integer variants of `RustType` -/
def Schema.ptypeOfRust : RustInt → Schema.PType
  | .u8 | .u16 | .u32 => .uint32
  | .i8 | .i16 | .i32 => .sint32
  | .u64 => .uint64
  | .i64 => .sint64

/-- the proto3 scalar type whose encoding `write_tagged_uint32 / uint64 / sint32 / sint64` is -/
def IntClass.ptype : IntClass → Schema.PType
  | .u32 => .uint32
  | .u64 => .uint64
  | .s32 => .sint32
  | .s64 => .sint64

/-- the root of the constraint is not empty (a range whose lower bound exceeds its upper bound
    contains no value; the front end does not reject it) -/
def RootNonEmpty : Option Int → Option Int → Prop
  | some a, some b => a ≤ b
  | _, _ => True

instance (min max : Option Int) : Decidable (RootNonEmpty min max) := by
  cases min <;> cases max <;> simp only [RootNonEmpty] <;> infer_instance

/-- the encoding selected for an INTEGER of the converter: from the constants of its constraint -/
def generatedClass (min max : Option Int) (ext : Bool) : IntClass :=
  intClass (cascade min max ext).constMin (cascade min max ext).constMax (cascade min max ext).ext

/-- an extensible constraint never selects a 32-bit encoding -/
theorem intClass_ext (min max : Option Int) :
    intClass min max true = .u64 ∨ intClass min max true = .s64 := by
  unfold intClass
  split
  · exact Or.inl (by simp)
  · exact Or.inr (by simp)

/-- … so every `i64` (every value a 64-bit Rust type hands to the codec) lies in its range -/
theorem intFits_ext (min max : Option Int) (i : Int) (h0 : I64_MIN ≤ i) (h1 : i ≤ I64_MAX) :
    intFits (intClass min max true) i = true := by
  rcases intClass_ext min max with h | h <;> rw [h] <;> simp [intFits, h0, h1]

/-- a value of a 64-bit Rust type, in the `i64` view of `Number::to_i64` -/
theorem castInt64_range (s : Bool) (i : Int) (h : castInt 64 s i = i) : I64_MIN ≤ i ∧ i ≤ I64_MAX := by
  simp only [castInt, I64_MIN, I64_MAX] at *
  have h1 : i % 2 ^ 64 < 2 ^ 64 := Int.emod_lt_of_pos _ (by decide)
  have h2 : 0 ≤ i % 2 ^ 64 := Int.emod_nonneg _ (by decide)
  cases s <;> simp only [if_true, Bool.false_eq_true, if_false] at h <;> split at h <;> omega

/-! ### values of the Rust types against the range of the encodings -/

theorem castInt_fits_u32 (w : Nat) (i : Int) (hw : w = 8 ∨ w = 16 ∨ w = 32) (h : castInt w false i = i) :
    intFits .u32 i = true := by
  simp only [intFits, Bool.and_eq_true, decide_eq_true_eq]
  rcases hw with rfl | rfl | rfl <;> simp only [castInt, Bool.false_eq_true, if_false] at h <;>
    (split at h <;> first | omega | (rename_i h64; simp at h64))

theorem castInt_fits_s32 (w : Nat) (i : Int) (hw : w = 8 ∨ w = 16 ∨ w = 32) (h : castInt w true i = i) :
    intFits .s32 i = true := by
  simp only [intFits, Bool.and_eq_true, decide_eq_true_eq]
  rcases hw with rfl | rfl | rfl <;> simp only [castInt, if_true] at h <;> split at h <;> omega

theorem castInt_fits_64 (s : Bool) (c : IntClass) (i : Int) (hc : c = .u64 ∨ c = .s64)
    (h : castInt 64 s i = i) : intFits c i = true := by
  obtain ⟨h0, h1⟩ := castInt64_range s i h
  rcases hc with rfl | rfl <;> simp [intFits, h0, h1]

/-! ### the converter's type against the codec's encoding -/

/-- **Width and sign agree.**  For every constraint with `i64` bounds and a non-empty root,
    extensible or not: the encoding the codec selects from the emitted constants is the encoding
    of the scalar type the schema declares for the Rust type the converter selected.  (All
    branches of both cascades against all branches of `intClass`.) -/
theorem generatedClass_schema (min max : Option Int) (ext : Bool)
    (hmin : OptInI64 min) (hmax : OptInI64 max) (hroot : RootNonEmpty min max) :
    (generatedClass min max ext).ptype = Schema.ptypeOfRust (cascade min max ext).kind := by
  have hc := consts_facts
  cases ext <;> cases min <;> cases max <;>
    simp only [OptInI64, InI64, RootNonEmpty] at hmin hmax hroot <;>
    simp only [generatedClass] <;> unfold_cascade <;> repeat' split
  all_goals simp only [IntTy.constMin, IntTy.constMax, IntTy.stored, IntTy.ext, IntTy.kind, intClass,
    Option.getD, Schema.ptypeOfRust, Bool.true_eq_false, false_and, if_false]
  all_goals repeat' split
  all_goals first | rfl | (exfalso; simp only [true_and, ge_iff_le] at *; unfold_casts; omega)

/-- **Nothing is cut.**  Every value the selected Rust type can hold lies in the range of the
    encoding selected for it (so `as u32` / `as i32` in `write_number` are the identity and
    `int_rt` applies) — for every constraint with `i64` bounds, extensible or not, empty root
    included. -/
theorem generatedClass_fits (min max : Option Int) (ext : Bool)
    (hmin : OptInI64 min) (hmax : OptInI64 max) (i : Int)
    (hv : castInt (cascade min max ext).kind.bits (cascade min max ext).kind.signed i = i) :
    intFits (generatedClass min max ext) i = true := by
  have hc := consts_facts
  cases ext <;> cases min <;> cases max <;>
    simp only [OptInI64, InI64] at hmin hmax <;>
    simp only [generatedClass] at hv ⊢ <;> revert hv <;> unfold_cascade <;> repeat' split
  all_goals simp only [IntTy.constMin, IntTy.constMax, IntTy.stored, IntTy.ext, IntTy.kind, intClass,
    Option.getD, Bool.true_eq_false, false_and, if_false, RustInt.bits, RustInt.signed]
  all_goals repeat' split
  all_goals intro hv
  all_goals first
    | (exfalso; simp only [true_and, ge_iff_le] at *; unfold_casts; omega)
    | exact castInt_fits_u32 _ _ (by decide) hv
    | exact castInt_fits_s32 _ _ (by decide) hv
    | exact castInt_fits_64 _ _ _ (by decide) hv

/-- the descriptor of a generated INTEGER as the harness reads it off the code: the constants of
    the constraint, the width of the Rust type, and `T::from_i64(-1).to_i64() < 0` (true for `u64`
    as well: the codec sees a `u64` through `to_i64`) -/
def generatedTy (min max : Option Int) (ext : Bool) : Uper.Ty :=
  let ty := cascade min max ext
  .int ty.constMin ty.constMax ty.ext ty.kind.bits (ty.kind.signed || ty.kind.bits == 64)

/-- the sign flag of the descriptor does not matter for a 64-bit type (`castInt` is the `i64` view) -/
theorem castInt_descSigned (k : RustInt) (i : Int) :
    castInt k.bits (k.signed || k.bits == 64) i = castInt k.bits k.signed i := by
  cases k <;> simp [castInt, RustInt.bits, RustInt.signed]

/-- a value the writer accepts for a generated INTEGER lies in the range of its encoding -/
theorem generatedTy_fits (min max : Option Int) (ext : Bool)
    (hmin : OptInI64 min) (hmax : OptInI64 max) (i : Int)
    (hv : castInt (cascade min max ext).kind.bits
      ((cascade min max ext).kind.signed || (cascade min max ext).kind.bits == 64) i = i) :
    intFits (generatedClass min max ext) i = true :=
  generatedClass_fits min max ext hmin hmax i (by rw [← castInt_descSigned]; exact hv)

/-- the schema model on descriptors (`Schema.ptype`, which has to guess `u64`/`i64` from the lower
    bound) is `definition_type_to_protobuf_type` of the converter's Rust type -/
theorem ptype_generatedTy (min max : Option Int) (ext : Bool)
    (hmin : OptInI64 min) (hmax : OptInI64 max) (hroot : RootNonEmpty min max) :
    Schema.ptype (generatedTy min max ext) = Schema.ptypeOfRust (cascade min max ext).kind := by
  have hc := consts_facts
  cases ext <;> cases min <;> cases max <;>
    simp only [OptInI64, InI64, RootNonEmpty] at hmin hmax hroot <;>
    simp only [generatedTy] <;> unfold_cascade <;> repeat' split
  all_goals simp only [IntTy.constMin, IntTy.stored, IntTy.kind, Schema.ptype,
    Option.getD, Schema.ptypeOfRust, RustInt.bits, RustInt.signed, Bool.or_false, Bool.or_true,
    beq_self_eq_true, Nat.reduceEqDiff, Nat.reduceBEq, if_true, if_false, Bool.false_eq_true]
  all_goals first
    | rfl
    | (exfalso; simp only [ge_iff_le] at *; unfold_casts; omega)
    | exact if_neg (by simp only [ge_iff_le] at *; unfold_casts; omega)
    | exact if_pos (by simp only [ge_iff_le] at *; unfold_casts; omega)

/-! ### 32-bit against 64-bit varints -/

theorem sshiftRight_full (w : Nat) (x : BitVec (w + 1)) :
    x.sshiftRight w = if x.msb then BitVec.allOnes (w + 1) else 0#(w + 1) := by
  apply BitVec.eq_of_getLsbD_eq
  intro i hi
  rw [BitVec.getLsbD_sshiftRight]
  have h1 : ¬ (w + 1 ≤ i) := by omega
  cases hm : x.msb
  · simp only [h1, decide_false, Bool.not_false, Bool.true_and, Bool.false_eq_true, if_false, BitVec.getLsbD_zero]
    split
    · have : i = 0 := by omega
      subst this
      rw [BitVec.msb_eq_getLsbD_last] at hm
      simpa using hm
    · rfl
  · simp only [h1, decide_false, Bool.not_false, Bool.true_and, if_true]
    split
    · have : i = 0 := by omega
      subst this
      rw [BitVec.msb_eq_getLsbD_last] at hm
      simp [-BitVec.getLsbD_eq_getElem] at hm ⊢
      simpa [hi] using hm
    · simp [hi]

/-- zig-zag in arithmetic: `2·x` for a non-negative, `-2·x - 1` for a negative two's-complement `x` -/
theorem zz_toNat (w : Nat) (x : BitVec (w + 1)) :
    (zz w x).toNat = if x.msb then 2 ^ (w + 1) - 1 - (2 * x.toNat) % 2 ^ (w + 1) else (2 * x.toNat) % 2 ^ (w + 1) := by
  rw [zz, sshiftRight_full]
  cases hm : x.msb
  · simp only [Bool.false_eq_true, if_false, BitVec.xor_zero, BitVec.toNat_shiftLeft, Nat.shiftLeft_eq, Nat.pow_one]
    rw [Nat.mul_comm]
  · simp only [if_true, BitVec.xor_allOnes, BitVec.toNat_not, BitVec.toNat_shiftLeft, Nat.shiftLeft_eq, Nat.pow_one]
    rw [Nat.mul_comm]

theorem ofInt_toNat_msb (n : Nat) (v : Int) :
    (BitVec.ofInt (n + 1) v).toNat = (v % 2 ^ (n + 1)).toNat ∧
    (BitVec.ofInt (n + 1) v).msb = decide (2 ^ n ≤ (v % 2 ^ (n + 1)).toNat) := by
  have h : (BitVec.ofInt (n + 1) v).toNat = (v % 2 ^ (n + 1)).toNat := by
    rw [BitVec.toNat_ofInt]; norm_cast
  refine ⟨h, ?_⟩
  rw [BitVec.msb_eq_decide, h]
  simp


/-- the 32-bit and the 64-bit zig-zag varint of the same number coincide for `-2^30 ≤ v < 2^30`
    (no sign extension: bit 31 of the 32-bit zig-zag value is clear) -/
theorem sint32_eq_sint64 (v : Int) (h0 : -(2 ^ 30) ≤ v) (h1 : v < 2 ^ 30) :
    sint32ToVarint (BitVec.ofInt 32 v) = sint64ToVarint (BitVec.ofInt 64 v) := by
  have e32 : zigzag32 (BitVec.ofInt 32 v) = zz 31 (BitVec.ofInt 32 v) := rfl
  have e64 : zigzag64 (BitVec.ofInt 64 v) = zz 63 (BitVec.ofInt 64 v) := rfl
  obtain ⟨t32, m32⟩ := ofInt_toNat_msb 31 v
  obtain ⟨t64, m64⟩ := ofInt_toNat_msb 63 v
  have z32 := zz_toNat 31 (BitVec.ofInt 32 v)
  have z64 := zz_toNat 63 (BitVec.ofInt 64 v)
  rw [sint32ToVarint, sint64ToVarint, e32, e64, BitVec.toNat_signExtend, z64]
  rw [BitVec.msb_eq_decide, z32, t32, t64, m32, m64]
  simp only [Nat.reduceAdd, Nat.reducePow, decide_eq_true_eq] at *
  rw [BitVec.toNat_setWidth, z32, m32, t32]
  simp only [decide_eq_true_eq, Nat.reduceSub, Nat.reducePow]
  repeat' split
  all_goals omega

/-- what the repair of F-proto-int-ext changes on the wire for values the old code wrote correctly:
    nothing for a non-negative lower bound (uint32 → uint64), nothing for `-2^30 ≤ v < 2^30` under a
    negative one (sint32 → sint64) -/
theorem intToVarint_u32_eq_u64 (v : Int) (h0 : 0 ≤ v) (h1 : v < 2 ^ 32) :
    intToVarint .u32 v = intToVarint .u64 v := by
  simp only [intToVarint]; omega

theorem intToVarint_s32_eq_s64 (v : Int) (h0 : -(2 ^ 30) ≤ v) (h1 : v < 2 ^ 30) :
    intToVarint .s32 v = intToVarint .s64 v := sint32_eq_sint64 v h0 h1

/-! ### round trip of a top-level INTEGER (`X ::= INTEGER (…)`, a one-component message) -/

/-- the transparent wrapper `X ::= T` -/
def wrap (t : Ty) : Ty := .seq 0 1 none (.cons .m t .nil)
def wrapV (v : Val) : Val := .seq (.cons v .nil)

theorem encode_wrap_int (mn mx : Option Int) (e : Bool) (w : Nat) (s : Bool) (i : Int) (bytes : List Byte)
    (h : encode (wrap (.int mn mx e w s)) (wrapV (.int i)) = ok bytes) :
    castInt w s i = i ∧ bytes.length ≤ 20 := by
  by_cases hc : castInt w s i = i
  · refine ⟨hc, ?_⟩
    simp [encode, wrap, wrapV, encodeI, encFieldsI, encI, hc] at h
    subst h
    simp only [itemsBytes, Item.encode, List.append_nil, List.length_append, writeTag]
    have := writeVarint_length_le (tagValue 1 .varint)
    have := writeVarint_length_le (intToVarint (intClass mn mx e) i)
    omega
  · simp [encode, wrap, wrapV, encodeI, encFieldsI, encI, hc] at h

/-- protobuf equality on a wrapped INTEGER is equality -/
theorem protoEq_wrap_int (mn mx : Option Int) (e : Bool) (w : Nat) (s : Bool) (i : Int) (v' : Val)
    (h : Val.protoEq (wrap (.int mn mx e w s)) (wrapV (.int i)) v' = true) : v' = wrapV (.int i) := by
  cases v' with
  | seq bs =>
    cases bs with
    | nil => simp [Val.protoEq, Vals.protoEq, wrap, wrapV] at h
    | cons b rest =>
      cases rest with
      | nil =>
        simp only [Val.protoEq, Vals.protoEq, wrap, wrapV, Bool.and_true] at h
        -- `==` on `Val` is `Val.beq` (no import of the UPER round-trip lemmas: their names clash
        -- with the PER layer's in files that open both namespaces, e.g. `Props/C04.lean`)
        have hb : Uper.Val.beq (.int i) b = true := h
        cases b <;> simp only [Uper.Val.beq, beq_iff_eq, Bool.false_eq_true] at hb
        rw [hb]; rfl
      | cons _ _ => simp [Val.protoEq, Vals.protoEq, wrap, wrapV] at h
  | _ => simp [Val.protoEq, wrap, wrapV] at h

theorem wrap_int_roundtrip (fx : Option Fix) (mn mx : Option Int) (e : Bool) (w : Nat) (s : Bool) (i : Int)
    (bytes : List Byte) (hfit : castInt w s i = i → intFits (intClass mn mx e) i = true)
    (henc : encode (wrap (.int mn mx e w s)) (wrapV (.int i)) = ok bytes) :
    decode fx (wrap (.int mn mx e w s)) bytes = ok (wrapV (.int i)) := by
  obtain ⟨hc, hl⟩ := encode_wrap_int mn mx e w s i bytes henc
  have hok : rtOK (wrap (.int mn mx e w s)) (wrapV (.int i)) = true := by
    simp [rtOK, rtOKFields, wrap, wrapV, Fields.length, Fields.noOptNull, hfit hc]
  obtain ⟨v', hd, hp⟩ := roundtrip fx _ _ bytes hok henc (by simp only [U64_MAX]; omega)
  rw [hd, protoEq_wrap_int mn mx e w s i v' hp]
end Asn1Verif.Proto
