import Asn1Verif.Proto.WireLemmas
import Asn1Verif.Proto.Codec
/- Lemmas about the protobuf writer / reader mirror (C17, C18, protobuf part of C04). -/
namespace Asn1Verif.Proto
open Asn1Verif Outcome
open Asn1Verif.Uper (Ty Val Vals Fields Kind utf8Decode castInt)

/-! ### the two back ends -/

theorem itemsBytes_append (a b : List Item) : itemsBytes (a ++ b) = itemsBytes a ++ itemsBytes b := by
  induction a with
  | nil => simp [itemsBytes]
  | cons it r ih => simp [itemsBytes, ih, List.append_assoc]

/-- writing the fields one after the other into the growable buffer appends their octets -/
theorem writeItems_vec (d : List Byte) (l : List Item) :
    (Sink.mk none d).writeItems l = ok ⟨none, d ++ itemsBytes l⟩ := by
  induction l generalizing d with
  | nil => simp [Sink.writeItems, itemsBytes]
  | cons it r ih =>
    simp only [Sink.writeItems, Sink.write, itemsBytes]
    rw [ih]; simp [List.append_assoc]

/-- … into a slice of `n` octets: the same octets when they fit, the I/O error otherwise -/
theorem writeItems_slice (n : Nat) (d : List Byte) (l : List Item) (hd : d.length ≤ n) :
    (Sink.mk (some n) d).writeItems l =
      if d.length + (itemsBytes l).length ≤ n then ok ⟨some n, d ++ itemsBytes l⟩
      else err .insufficientSpace := by
  induction l generalizing d with
  | nil =>
    simp only [Sink.writeItems, itemsBytes, List.length_nil, Nat.add_zero, List.append_nil]
    rw [if_pos hd]
  | cons it r ih =>
    simp only [Sink.writeItems, Sink.write, itemsBytes, List.length_append]
    by_cases h1 : d.length + it.encode.length ≤ n
    · rw [if_pos h1]; simp only
      rw [ih _ (by simpa using h1)]
      simp only [List.length_append, List.append_assoc, Nat.add_assoc]
    · rw [if_neg h1]; simp only
      rw [if_neg (by omega)]

theorem encode_split (t : Ty) (v : Val) :
    (∃ s tot e i, t = .enum s tot e ∧ v = .enum i) ∨
    (encode t v = itemsBytes <$> encodeI t v ∧
      ∀ s : Sink, encodeTo s t v = (do
        let l ← encodeI t v
        let s' ← s.writeItems l
        ok s'.data)) := by
  cases t with
  | enum s tot e =>
    cases v with
    | enum i => exact Or.inl ⟨_, _, _, _, rfl, rfl⟩
    | _ => exact Or.inr ⟨rfl, fun _ => rfl⟩
  | _ => exact Or.inr ⟨rfl, fun _ => rfl⟩

/-! ### field numbers on the writer side -/

/-- components that advance the field counter: every type but NULL -/
def Ty.counts : Ty → Bool
  | .null => false
  | _ => true

theorem encListWith_forall (P : Item → Prop) (f : Val → Outcome (List Item))
    (hf : ∀ x l, f x = ok l → ∀ it ∈ l, P it) :
    ∀ (vs : Vals) (l : List Item), encListWith f vs = ok l → ∀ it ∈ l, P it
  | .nil, l, h => by
    simp only [encListWith, ok.injEq] at h; subst h; simp
  | .cons v vs, l, h => by
    simp only [encListWith] at h
    cases ha : f v with
    | panic => rw [ha] at h; simp at h
    | err k => rw [ha] at h; simp at h
    | ok a =>
      rw [ha] at h
      simp only [bind_ok] at h
      cases hb : encListWith f vs with
      | panic => rw [hb] at h; simp at h
      | err k => rw [hb] at h; simp at h
      | ok b =>
        rw [hb] at h
        simp only [bind_ok, ok.injEq] at h
        subst h
        intro it hit
        rcases List.mem_append.1 hit with h1 | h1
        · exact hf v a ha it h1
        · exact encListWith_forall P f hf vs b hb it h1

theorem encI_num : ∀ (t : Ty) (v : Val) (c : Nat) (l : List Item) (c' : Nat),
    encI t v c = ok (l, c') → (c' = c + if Ty.counts t then 1 else 0) ∧ ∀ it ∈ l, it.num = c + 1
  | .bool, v, c, l, c', h => by
    cases v <;> simp [encI] at h
    obtain ⟨rfl, rfl⟩ := h; simp [Ty.counts, Item.num]
  | .null, v, c, l, c', h => by
    cases v <;> simp [encI] at h
    obtain ⟨rfl, rfl⟩ := h; simp [Ty.counts]
  | .int mn mx e w s, v, c, l, c', h => by
    cases v <;> simp only [encI] at h <;> try (simp at h)
    split at h <;> simp at h
    obtain ⟨rfl, rfl⟩ := h; simp [Ty.counts, Item.num]
  | .enum s tot e, v, c, l, c', h => by
    cases v <;> simp only [encI] at h <;> try (simp at h)
    split at h <;> simp at h
    obtain ⟨rfl, rfl⟩ := h; simp [Ty.counts, Item.num]
  | .str cs mn mx e, v, c, l, c', h => by
    cases v <;> simp [encI] at h
    split at h <;> simp at h
    obtain ⟨rfl, rfl⟩ := h; simp [Ty.counts, Item.num]
  | .oct mn mx e, v, c, l, c', h => by
    cases v <;> simp [encI] at h
    obtain ⟨rfl, rfl⟩ := h; simp [Ty.counts, Item.num]
  | .bits mn mx e, v, c, l, c', h => by
    cases v <;> simp [encI] at h
    obtain ⟨rfl, rfl⟩ := h; simp [Ty.counts, Item.num]
  | .seqOf mn mx e elem, v, c, l, c', h => by
    cases v <;> simp [encI] at h
    rename_i vs
    cases hb : encListWith (fun x => Prod.fst <$> encI elem x c) vs with
    | panic => rw [hb] at h; simp at h
    | err k => rw [hb] at h; simp at h
    | ok b =>
      rw [hb] at h
      simp only [bind_ok, ok.injEq, Prod.mk.injEq] at h
      obtain ⟨rfl, rfl⟩ := h
      refine ⟨by simp [Ty.counts], ?_⟩
      refine encListWith_forall (fun it => it.num = c + 1) _ ?_ vs b hb
      intro x lx hx
      cases hx' : encI elem x c with
      | panic => rw [hx'] at hx; simp at hx
      | err k => rw [hx'] at hx; simp at hx
      | ok p =>
        obtain ⟨lx', cx⟩ := p
        rw [hx'] at hx
        simp only [map_ok, ok.injEq] at hx
        subst hx
        exact (encI_num elem x c lx' cx hx').2
  | .seq so fc ea fields, v, c, l, c', h => by
    cases v <;> simp [encI] at h
    rename_i vs
    cases hb : encFieldsI fields vs 0 with
    | panic => rw [hb] at h; simp at h
    | err k => rw [hb] at h; simp at h
    | ok b =>
      rw [hb] at h
      simp only [bind_ok, ok.injEq, Prod.mk.injEq] at h
      obtain ⟨rfl, rfl⟩ := h; simp [Ty.counts, Item.num]
  | .choice s tot e alts, v, c, l, c', h => by
    cases v <;> simp [encI] at h
    rename_i i x
    cases hb : encAltI alts i i x with
    | panic => rw [hb] at h; simp at h
    | err k => rw [hb] at h; simp at h
    | ok b =>
      rw [hb] at h
      simp only [bind_ok, ok.injEq, Prod.mk.injEq] at h
      obtain ⟨rfl, rfl⟩ := h; simp [Ty.counts, Item.num]

/-- number of counting (non-NULL) components among the first `n` -/
def Fields.countTo : Fields → Nat → Nat
  | .nil, _ => 0
  | .cons _ _ _, 0 => 0
  | .cons _ t rest, n + 1 => (if Ty.counts t then 1 else 0) + Fields.countTo rest n

def Fields.take : Fields → Nat → Fields
  | .nil, _ => .nil
  | .cons _ _ _, 0 => .nil
  | .cons k t rest, n + 1 => .cons k t (Fields.take rest n)

theorem countTo_take : ∀ (fs : Fields) (n : Nat),
    Fields.countTo (Fields.take fs n) (Fields.take fs n).length = Fields.countTo fs n
  | .nil, n => by simp [Fields.take, Fields.countTo]
  | .cons k t rest, 0 => by simp [Fields.take, Fields.countTo]
  | .cons k t rest, n + 1 => by
    simp [Fields.take, Fields.countTo, Fields.length, countTo_take rest n]

/-- no component is an OPTIONAL NULL -/
def Fields.noOptNull : Fields → Bool
  | .nil => true
  | .cons k t rest =>
    (match k, t with
     | .o, .null => false
     | _, _ => true) && Fields.noOptNull rest

theorem encFieldsI_counter : ∀ (fs : Fields) (vs : Vals) (c : Nat) (ls : List (List Item)) (c' : Nat),
    Fields.noOptNull fs = true → encFieldsI fs vs c = ok (ls, c') →
    c' = c + Fields.countTo fs fs.length
  | .nil, vs, c, ls, c', _, h => by
    cases vs <;> simp [encFieldsI] at h
    simp [Fields.countTo, h.2]
  | .cons k t rest, vs, c, ls, c', hn, h => by
    cases vs with
    | nil => simp [encFieldsI] at h
    | cons v vs =>
      simp only [Fields.noOptNull, Bool.and_eq_true] at hn
      simp only [encFieldsI] at h
      -- the component itself
      have hone : ∀ a c1, (match k, v with
          | .o, .none => ok ([], c + 1)
          | .o, .some x => encI t x c
          | .o, _ => err .illTyped
          | _, v => encI t v c : Outcome (List Item × Nat)) = ok (a, c1) →
          c1 = c + if Ty.counts t then 1 else 0 := by
        intro a c1 h1
        split at h1
        · simp only [ok.injEq, Prod.mk.injEq] at h1
          cases t <;> simp_all [Ty.counts]
        · exact (encI_num _ _ _ _ _ h1).1
        · simp at h1
        · exact (encI_num _ _ _ _ _ h1).1
      split at h
      · rename_i a c1 h1
        split at h
        · rename_i b c2 h2
          simp only [ok.injEq, Prod.mk.injEq] at h
          obtain ⟨_, rfl⟩ := h
          have := encFieldsI_counter rest vs c1 b c2 hn.2 h2
          rw [this, hone a c1 h1]
          simp [Fields.countTo, Fields.length, Nat.add_assoc]
        · simp at h
        · simp at h
      · simp at h
      · simp at h

theorem nextTagRange_enclosed (inc : Bool) (filter : Option Fmt) (c : Nat) (tags : List Entry) :
    ∃ tags', (nextTagRange inc filter (.enclosed c tags)).2 = .enclosed (if inc then c + 1 else c) tags' := by
  simp only [nextTagRange]
  split
  · exact ⟨_, rfl⟩
  · exact ⟨_, rfl⟩

theorem nextReader_enclosed {src : List Byte} {f : Fmt} {c : Nat} {tags : List Entry}
    {s : List Byte} {st' : RState} (h : nextReader src f (.enclosed c tags) = ok (s, st')) :
    ∃ tags', st' = .enclosed (c + 1) tags' := by
  obtain ⟨tags', ht⟩ := nextTagRange_enclosed true (some f) c tags
  simp only [nextReader] at h
  generalize hx : nextTagRange true (some f) (.enclosed c tags) = x at h ht
  obtain ⟨r, st1⟩ := x
  simp only at h ht
  cases hs : sliceOf src (r.getD (0, 0)).1 (r.getD (0, 0)).2 with
  | panic => rw [hs] at h; simp at h
  | err k => rw [hs] at h; simp at h
  | ok sl =>
    rw [hs] at h
    simp only [bind_ok, ok.injEq, Prod.mk.injEq] at h
    exact ⟨tags', by rw [← h.2, ht]; simp⟩

theorem decListWith_enclosed (f : RState → Outcome (Val × RState)) :
    ∀ (fuel c : Nat) (tags : List Entry) (vs : Vals) (st' : RState),
    decListWith f fuel (.enclosed c tags) = ok (vs, st') → ∃ tags', st' = .enclosed c tags' := by
  intro fuel
  induction fuel with
  | zero =>
    intro c tags vs st' h
    simp only [decListWith, ok.injEq, Prod.mk.injEq] at h
    exact ⟨tags, h.2.symm⟩
  | succ fuel ih =>
    intro c tags vs st' h
    obtain ⟨tags1, ht⟩ := nextTagRange_enclosed false none c tags
    simp only [decListWith] at h
    generalize hx : nextTagRange false none (.enclosed c tags) = x at h ht
    obtain ⟨r, st1⟩ := x
    simp only [Bool.false_eq_true, if_false] at h ht
    subst ht
    cases r with
    | none =>
      simp only [ok.injEq, Prod.mk.injEq] at h
      exact ⟨tags1, h.2.symm⟩
    | some ab =>
      obtain ⟨a, b⟩ := ab
      simp only at h
      cases hf : f (.root a b) with
      | panic => rw [hf] at h; simp at h
      | err k => rw [hf] at h; simp at h
      | ok p =>
        rw [hf] at h
        simp only [bind_ok] at h
        cases hl : decListWith f fuel (.enclosed c tags1) with
        | panic => rw [hl] at h; simp at h
        | err k => rw [hl] at h; simp at h
        | ok q =>
          obtain ⟨vs2, st2⟩ := q
          rw [hl] at h
          simp only [bind_ok, ok.injEq, Prod.mk.injEq] at h
          obtain ⟨tags', ht'⟩ := ih c tags1 vs2 st2 hl
          exact ⟨tags', by rw [← h.2, ht']⟩

/-- bind inversion for the `do` blocks of the mirror -/
theorem bind_ok_inv {α β : Type} {x : Outcome α} {f : α → Outcome β} {b : β}
    (h : (x >>= f) = ok b) : ∃ a, x = ok a ∧ f a = ok b := Outcome.bind_eq_ok.1 h

theorem dec_counter (fx : Option Fix) (src : List Byte) (t : Ty) (c : Nat) (tags : List Entry)
    (v : Val) (st' : RState) (h : dec fx src t (.enclosed c tags) = ok (v, st')) :
    ∃ tags', st' = .enclosed (c + if Ty.counts t then 1 else 0) tags' := by
  cases t with
  | bool =>
    simp only [dec] at h
    obtain ⟨⟨r, st1⟩, h1, h2⟩ := bind_ok_inv h
    obtain ⟨tags', rfl⟩ := nextReader_enclosed h1
    simp only at h2
    split at h2
    · simp only [ok.injEq, Prod.mk.injEq] at h2; exact ⟨tags', by simp [Ty.counts, ← h2.2]⟩
    · obtain ⟨⟨b, _⟩, _, h3⟩ := bind_ok_inv h2
      simp only [ok.injEq, Prod.mk.injEq] at h3; exact ⟨tags', by simp [Ty.counts, ← h3.2]⟩
  | null =>
    simp only [dec, ok.injEq, Prod.mk.injEq] at h
    exact ⟨tags, by simp [Ty.counts, ← h.2]⟩
  | int mn mx e w s =>
    simp only [dec] at h
    obtain ⟨⟨r, st1⟩, h1, h2⟩ := bind_ok_inv h
    obtain ⟨tags', rfl⟩ := nextReader_enclosed h1
    simp only at h2
    split at h2
    · simp only [ok.injEq, Prod.mk.injEq] at h2; exact ⟨tags', by simp [Ty.counts, ← h2.2]⟩
    · obtain ⟨⟨b, _⟩, _, h3⟩ := bind_ok_inv h2
      simp only [ok.injEq, Prod.mk.injEq] at h3; exact ⟨tags', by simp [Ty.counts, ← h3.2]⟩
  | enum s tot e =>
    simp only [dec] at h
    obtain ⟨tags', ht⟩ := nextTagRange_enclosed true (some .varint) c tags
    generalize hx : nextTagRange true (some Fmt.varint) (.enclosed c tags) = x at h ht
    obtain ⟨r, st1⟩ := x
    simp only [if_true] at h ht
    subst ht
    obtain ⟨idx, _, h2⟩ := bind_ok_inv h
    split at h2
    · simp only [ok.injEq, Prod.mk.injEq] at h2; exact ⟨tags', by simp [Ty.counts, ← h2.2]⟩
    · simp at h2
  | str cs mn mx e =>
    simp only [dec] at h
    obtain ⟨⟨r, st1⟩, h1, h2⟩ := bind_ok_inv h
    obtain ⟨tags', rfl⟩ := nextReader_enclosed h1
    simp only at h2
    split at h2
    · simp only [ok.injEq, Prod.mk.injEq] at h2; exact ⟨tags', by simp [Ty.counts, ← h2.2]⟩
    · simp at h2
  | oct mn mx e =>
    simp only [dec] at h
    obtain ⟨⟨r, st1⟩, h1, h2⟩ := bind_ok_inv h
    obtain ⟨tags', rfl⟩ := nextReader_enclosed h1
    simp only [ok.injEq, Prod.mk.injEq] at h2; exact ⟨tags', by simp [Ty.counts, ← h2.2]⟩
  | bits mn mx e =>
    simp only [dec] at h
    obtain ⟨⟨r, st1⟩, h1, h2⟩ := bind_ok_inv h
    obtain ⟨tags', rfl⟩ := nextReader_enclosed h1
    simp only at h2
    split at h2
    · split at h2
      · simp at h2
      · split at h2
        · simp only [ok.injEq, Prod.mk.injEq] at h2; exact ⟨tags', by simp [Ty.counts, ← h2.2]⟩
        · simp at h2
    · simp only [ok.injEq, Prod.mk.injEq] at h2; exact ⟨tags', by simp [Ty.counts, ← h2.2]⟩
  | seqOf mn mx e elem =>
    simp only [dec] at h
    obtain ⟨⟨vs, st1⟩, h1, h2⟩ := bind_ok_inv h
    obtain ⟨tags', rfl⟩ := decListWith_enclosed _ _ _ _ _ _ h1
    simp only [ok.injEq, Prod.mk.injEq] at h2
    exact ⟨tags', by simp [Ty.counts, ← h2.2, RState.bump]⟩
  | seq so fc ea fields =>
    simp only [dec] at h
    obtain ⟨tags', ht⟩ := nextTagRange_enclosed true (some .lenDelim) c tags
    generalize hx : nextTagRange true (some Fmt.lenDelim) (.enclosed c tags) = x at h ht
    obtain ⟨r, st1⟩ := x
    simp only [if_true] at h ht
    subst ht
    obtain ⟨tg, _, h2⟩ := bind_ok_inv h
    obtain ⟨⟨vs, _⟩, _, h3⟩ := bind_ok_inv h2
    simp only [ok.injEq, Prod.mk.injEq] at h3
    exact ⟨tags', by simp [Ty.counts, ← h3.2]⟩
  | choice s tot e alts =>
    simp only [dec] at h
    obtain ⟨tags', ht⟩ := nextTagRange_enclosed true none c tags
    generalize hx : nextTagRange true none (.enclosed c tags) = x at h ht
    obtain ⟨r, st1⟩ := x
    simp only [if_true] at h ht
    subst ht
    cases r with
    | none => simp at h
    | some ab =>
      obtain ⟨a, b⟩ := ab
      simp only at h
      obtain ⟨sl, _, h2⟩ := bind_ok_inv h
      obtain ⟨⟨⟨tag, fmt⟩, r1⟩, _, h3⟩ := bind_ok_inv h2
      obtain ⟨r2, _, h4⟩ := bind_ok_inv h3
      obtain ⟨vv, _, h5⟩ := bind_ok_inv h4
      simp only [ok.injEq, Prod.mk.injEq] at h5
      exact ⟨tags', by simp [Ty.counts, ← h5.2]⟩

theorem decFields_counter (fx : Option Fix) (src : List Byte) :
    ∀ (fs : Fields) (c : Nat) (tags : List Entry) (vs : Vals) (st' : RState),
    Fields.noOptNull fs = true → decFields fx src fs (.enclosed c tags) = ok (vs, st') →
    ∃ tags', st' = .enclosed (c + Fields.countTo fs fs.length) tags'
  | .nil, c, tags, vs, st', _, h => by
    simp only [decFields, ok.injEq, Prod.mk.injEq] at h
    exact ⟨tags, by simp [Fields.countTo, ← h.2]⟩
  | .cons k t rest, c, tags, vs, st', hn, h => by
    simp only [Fields.noOptNull, Bool.and_eq_true] at hn
    simp only [decFields] at h
    have hone : ∀ v st1, (match k with
        | .o =>
          if hasNextTag (.enclosed c tags) then
            match dec fx src t (.enclosed c tags) with
            | .ok (x, s) => ok (.some x, s)
            | .err e => err e
            | .panic => panic
          else ok (.none, (RState.enclosed c tags).bump)
        | _ => dec fx src t (.enclosed c tags) : Outcome (Val × RState)) = ok (v, st1) →
        ∃ tags1, st1 = .enclosed (c + if Ty.counts t then 1 else 0) tags1 := by
      intro v st1 h1
      split at h1
      · split at h1
        · split at h1
          · rename_i x s hd
            simp only [ok.injEq, Prod.mk.injEq] at h1
            obtain ⟨tg, ht⟩ := dec_counter fx src t c tags x s hd
            exact ⟨tg, by rw [← h1.2, ht]⟩
          · simp at h1
          · simp at h1
        · simp only [ok.injEq, Prod.mk.injEq, RState.bump] at h1
          refine ⟨tags, ?_⟩
          rw [← h1.2]
          cases t <;> simp_all [Ty.counts]
      · exact dec_counter fx src t c tags v st1 h1
    split at h
    · rename_i v st1 h1
      obtain ⟨tags1, rfl⟩ := hone v st1 h1
      split at h
      · rename_i vs2 st2 h2
        simp only [ok.injEq, Prod.mk.injEq] at h
        obtain ⟨tags', ht⟩ := decFields_counter fx src rest _ tags1 vs2 st2 hn.2 h2
        exact ⟨tags', by rw [← h.2, ht]; simp [Fields.countTo, Fields.length, Nat.add_assoc]⟩
      · simp at h
      · simp at h
    · simp at h
    · simp at h

end Asn1Verif.Proto
