import Asn1Verif.Proto.Codec
/-
  C18 — model of the protobuf schema generator on the universe `Ty`:
    * `asn1rs-model/src/protobuf.rs`: `Model::definition_type_to_protobuf_type` (`RustType → ProtobufType`;
      the Rust integer type is the `(width, signed)` pair of the descriptor) and `definition_to_protobuf`
      (SEQUENCE/SET → message with one field per component, CHOICE → message with a single `oneof
      value`, transparent wrapper → message with the single field `value`, ENUMERATED → enum);
    * `asn1rs-model/src/generate/protobuf.rs`: `ProtobufDefGenerator::append_definition`: message fields
      are numbered `prev_tag + 1` in declaration order (every component gets a number, NULL included),
      oneof members `index + 1`, enum values `index`.
  A component whose type is itself a SEQUENCE/SET/CHOICE/ENUMERATED is `Complex(name)`: a reference to
  another message or enum.
-/
namespace Asn1Verif.Proto.Schema
open Asn1Verif Asn1Verif.Proto
open Asn1Verif.Uper (Ty Val Vals Fields Kind)

/-- `ProtobufType` (the variants the converter produces) -/
inductive PType where
  | bool | uint32 | uint64 | sint32 | sint64 | string
  | bytes
  /-- `BitsReprByBytesAndBitsLen`, printed as `bytes` -/
  | bitsBytes
  | repeated (inner : PType)
  /-- `Complex(name)` naming a message -/
  | message
  /-- `Complex(name)` naming an enum -/
  | enumeration
  deriving DecidableEq, Repr

/-- `definition_type_to_protobuf_type`; `Option`/`Default` wrappers are transparent (the `Kind` of
    the component does not matter).  The descriptor cannot tell `u64` from `i64` (both hold every
    `i64` the codec hands over), so for 64-bit types the signedness is taken from the rule of the
    converter (C15): a 64-bit INTEGER is `i64` exactly when its lower bound is negative
    (`ptype_generatedTy` in `Proto/IntWidthLemmas.lean`: for every constraint with a non-empty root
    this is `definition_type_to_protobuf_type` of the Rust type the converter selects). -/
def ptype : Ty → PType
  | .bool => .bool
  | .null => .bytes
  | .int min _ _ width signed =>
    if width = 64 then (if min.getD 0 < 0 then .sint64 else .uint64)
    else (if signed then .sint32 else .uint32)
  | .enum _ _ _ => .enumeration
  | .str _ _ _ _ => .string
  | .oct _ _ _ => .bytes
  | .bits _ _ _ => .bitsBytes
  | .seqOf _ _ _ elem => .repeated (ptype elem)
  | .seq _ _ _ _ => .message
  | .choice _ _ _ _ => .message

/-- the wire type a proto3 parser expects for one occurrence of the field (a `repeated` scalar may
    also arrive packed; the writer never packs) -/
def PType.wire : PType → Fmt
  | .bool => .varint
  | .uint32 => .varint
  | .uint64 => .varint
  | .sint32 => .varint
  | .sint64 => .varint
  | .enumeration => .varint
  | .string => .lenDelim
  | .bytes => .lenDelim
  | .bitsBytes => .lenDelim
  | .message => .lenDelim
  | .repeated inner => inner.wire

/-- `(number, type)` of the fields of `message X { … }` (or of the members of `oneof value { … }`)
    when `n` fields precede: `prev_tag + 1` / `index + 1` -/
def rows : Fields → Nat → List (Nat × PType)
  | .nil, _ => []
  | .cons _ t rest, n => (n + 1, ptype t) :: rows rest (n + 1)

/-- the schema entry of component number `j` (0-based) -/
def row? (fs : Fields) (j : Nat) : Option (Nat × PType) := (rows fs 0)[j]?

/-! ### text for the correspondence stream (`proto wire`) -/

def PType.text : PType → String
  | .bool => "bool"
  | .uint32 => "uint32"
  | .uint64 => "uint64"
  | .sint32 => "sint32"
  | .sint64 => "sint64"
  | .string => "string"
  | .bytes => "bytes"
  | .bitsBytes => "bytes"
  | .message => "msg"
  | .enumeration => "enum"
  | .repeated inner => "rep." ++ inner.text

def rowsText (l : List (Nat × PType)) : String :=
  if l.isEmpty then "-" else String.intercalate "," (l.map fun (n, p) => toString n ++ ":" ++ p.text)

/-- what the generated definition of a top-level type must look like -/
def render : Ty → String
  | .seq _ _ _ fields => "msg " ++ rowsText (rows fields 0)
  | .choice _ _ _ alts => "oneof " ++ rowsText (rows alts 0)
  | .enum _ total _ => "enum " ++ toString total
  | _ => "none"

end Asn1Verif.Proto.Schema
