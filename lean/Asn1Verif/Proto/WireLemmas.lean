import Asn1Verif.Proto.Wire
/- Lemmas about the protobuf wire primitives (C17). -/
namespace Asn1Verif.Proto
open Asn1Verif Outcome

/-! ### varint -/

/-- the `while value > 0x7F` loop without a bound on the number of rounds -/
def writeVarintSpec (n : Nat) : List Byte :=
  if n > 0x7F then BitVec.ofNat 8 (n % 128 + 128) :: writeVarintSpec (n / 128)
  else [BitVec.ofNat 8 n]
termination_by n
decreasing_by omega

theorem writeVarintSpec_small {n : Nat} (h : n ≤ 0x7F) : writeVarintSpec n = [BitVec.ofNat 8 n] := by
  rw [writeVarintSpec]; simp; omega

theorem writeVarintSpec_big {n : Nat} (h : n > 0x7F) :
    writeVarintSpec n = BitVec.ofNat 8 (n % 128 + 128) :: writeVarintSpec (n / 128) := by
  rw [writeVarintSpec]; simp [h]

theorem pow7_succ (k : Nat) : 2 ^ (7 * (k + 1)) = 128 * 2 ^ (7 * k) := by
  rw [show 7 * (k + 1) = 7 + 7 * k by omega, Nat.pow_add]

theorem writeVarintLoop_eq_spec (f n : Nat) (h : n < 2 ^ (7 * (f + 1))) :
    writeVarintLoop f n = writeVarintSpec n := by
  induction f generalizing n with
  | zero =>
    have : n ≤ 0x7F := by simp at h; omega
    rw [writeVarintSpec_small this]; rfl
  | succ f ih =>
    rw [writeVarintLoop]
    by_cases hb : n > 0x7F
    · rw [if_pos hb, writeVarintSpec_big hb, ih]
      rw [pow7_succ] at h
      exact Nat.div_lt_of_lt_mul h
    · rw [if_neg hb, writeVarintSpec_small (by omega)]

/-- for every `u64` the bounded loop of the model is the `while` loop of the code -/
theorem writeVarint_eq_spec {n : Nat} (h : n < 2 ^ 64) : writeVarint n = writeVarintSpec n :=
  writeVarintLoop_eq_spec 9 n (Nat.lt_trans h (by decide))

theorem writeVarint_ne_nil (n : Nat) : writeVarint n ≠ [] := by
  rw [writeVarint, writeVarintLoop]; split <;> simp

theorem writeVarint_length_pos (n : Nat) : 0 < (writeVarint n).length := by
  have := writeVarint_ne_nil n
  cases h : writeVarint n with
  | nil => exact absurd h this
  | cons _ _ => simp

theorem writeVarintLoop_length_le (f n : Nat) : (writeVarintLoop f n).length ≤ f + 1 := by
  induction f generalizing n with
  | zero => simp [writeVarintLoop]
  | succ f ih =>
    rw [writeVarintLoop]; split
    · have := ih (n / 128); simp only [List.length_cons]; omega
    · simp

/-- at most ten octets -/
theorem writeVarint_length_le (n : Nat) : (writeVarint n).length ≤ 10 := writeVarintLoop_length_le 9 n

theorem lor_shift_eq_add {value x s : Nat} (hv : value < 2 ^ s) :
    value ||| (x * 2 ^ s) = value + x * 2 ^ s := by
  have := Nat.two_pow_add_eq_or_of_lt hv x
  rw [Nat.mul_comm (2 ^ s) x, Nat.or_comm] at this
  omega

theorem readVarintLoop_zero (shift value : Nat) (bs : List Byte) :
    readVarintLoop 0 shift value bs = ok (value, bs) := rfl

theorem readVarintLoop_succ (fuel shift value : Nat) (bs : List Byte) :
    readVarintLoop (fuel + 1) shift value bs =
      if shift < 64 then
        match bs with
        | [] => err .endOfStream
        | b :: rest =>
          if b.toNat < 128 then ok (value ||| (((b.toNat % 128) <<< shift) % 2 ^ 64), rest)
          else readVarintLoop fuel (shift + 7) (value ||| (((b.toNat % 128) <<< shift) % 2 ^ 64)) rest
      else ok (value, bs) := by
  cases bs <;> rfl

theorem toNat_ofNat8 {n : Nat} (h : n < 256) : (BitVec.ofNat 8 n).toNat = n := by
  rw [BitVec.toNat_ofNat]; exact Nat.mod_eq_of_lt h

/-- the reading loop in its `k`-th round on the octets written for `n` -/
theorem readVarintLoop_write (n : Nat) : ∀ (k value : Nat) (post : List Byte),
    k ≤ 9 → value < 2 ^ (7 * k) → n * 2 ^ (7 * k) < 2 ^ 64 →
    readVarintLoop (11 - k) (7 * k) value (writeVarintSpec n ++ post) =
      ok (value + n * 2 ^ (7 * k), post) := by
  induction n using writeVarintSpec.induct with
  | case1 n hb ih =>
    intro k value post hk hv hn
    rw [writeVarintSpec_big hb]
    have hP : 0 < 2 ^ (7 * k) := Nat.two_pow_pos _
    -- 128 ≤ n, so another round is possible
    have hk8 : k ≤ 8 := by
      rcases Nat.lt_or_ge k 9 with h | h
      · omega
      · have : k = 9 := by omega
        subst this
        have h1 : 128 * 2 ^ (7 * 9) ≤ n * 2 ^ (7 * 9) := Nat.mul_le_mul_right _ (by omega)
        have e : (128 : Nat) * 2 ^ (7 * 9) = 2 ^ 70 := by decide
        have h2 : (2 : Nat) ^ 64 < 2 ^ 70 := by decide
        omega
    have e1 : 11 - k = (11 - (k + 1)) + 1 := by omega
    rw [e1, List.cons_append, readVarintLoop_succ]
    have hs : 7 * k < 64 := by omega
    have hb8 : n % 128 + 128 < 256 := by omega
    simp only [hs, if_true, toNat_ofNat8 hb8]
    have hmod : (n % 128 + 128) % 128 = n % 128 := by omega
    have hge : ¬ (n % 128 + 128 < 128) := by omega
    rw [hmod, if_neg hge]
    have hle : n % 128 * 2 ^ (7 * k) ≤ n * 2 ^ (7 * k) := Nat.mul_le_mul_right _ (Nat.mod_le _ _)
    rw [Nat.shiftLeft_eq, Nat.mod_eq_of_lt (by omega), lor_shift_eq_add hv]
    have e2 : 7 * k + 7 = 7 * (k + 1) := by omega
    have hpow : 2 ^ (7 * (k + 1)) = 128 * 2 ^ (7 * k) := by
      rw [show 7 * (k + 1) = 7 + 7 * k by omega, Nat.pow_add]
    rw [e2]
    have hsplit : n * 2 ^ (7 * k) = n % 128 * 2 ^ (7 * k) + n / 128 * 2 ^ (7 * (k + 1)) := by
      rw [hpow]
      have : n = n % 128 + n / 128 * 128 := by omega
      calc n * 2 ^ (7 * k) = (n % 128 + n / 128 * 128) * 2 ^ (7 * k) := by rw [← this]
        _ = n % 128 * 2 ^ (7 * k) + n / 128 * (128 * 2 ^ (7 * k)) := by
          rw [Nat.add_mul, Nat.mul_assoc]
    rw [ih (k + 1) (value + n % 128 * 2 ^ (7 * k)) post (by omega)
      (by rw [hpow]
          have : n % 128 * 2 ^ (7 * k) ≤ 127 * 2 ^ (7 * k) := Nat.mul_le_mul_right _ (by omega)
          omega)
      (by omega)]
    rw [hsplit]; simp only [Nat.add_assoc]
  | case2 n hb =>
    intro k value post hk hv hn
    rw [writeVarintSpec_small (by omega)]
    have e1 : 11 - k = (10 - k) + 1 := by omega
    rw [e1, List.cons_append, readVarintLoop_succ]
    have hs : 7 * k < 64 := by omega
    have hn8 : n < 256 := by omega
    simp only [hs, if_true, toNat_ofNat8 hn8]
    have hmod : n % 128 = n := by omega
    have hlt : n < 128 := by omega
    rw [hmod, if_pos hlt, Nat.shiftLeft_eq, Nat.mod_eq_of_lt hn, lor_shift_eq_add hv]
    rfl

theorem readVarint_writeVarint (n : Nat) (h : n < 2 ^ 64) (post : List Byte) :
    readVarint (writeVarint n ++ post) = ok (n, post) := by
  have := readVarintLoop_write n 0 0 post (by omega) (by simp) (by simpa using h)
  rw [writeVarint_eq_spec h]
  simpa [readVarint] using this

/-- the loop never unwinds and never produces anything but `ok` / end of input -/
theorem readVarintLoop_ne_panic (fuel shift value : Nat) (bs : List Byte) :
    readVarintLoop fuel shift value bs ≠ panic := by
  induction fuel generalizing shift value bs with
  | zero => simp [readVarintLoop_zero]
  | succ f ih =>
    rw [readVarintLoop_succ]
    split
    · cases bs with
      | nil => simp
      | cons b rest =>
        simp only
        split
        · simp
        · exact ih _ _ _
    · simp

theorem readVarintLoop_err (fuel shift value : Nat) (bs : List Byte) (k : ErrKind) :
    readVarintLoop fuel shift value bs = err k → k = .endOfStream := by
  induction fuel generalizing shift value bs with
  | zero => simp [readVarintLoop_zero]
  | succ f ih =>
    rw [readVarintLoop_succ]
    split
    · cases bs with
      | nil => simp; intro h; exact h.symm
      | cons b rest =>
        simp only
        split
        · simp
        · exact ih _ _ _
    · simp

/-- what a successful read consumed: a non-empty prefix of at most `fuel` octets -/
theorem readVarintLoop_ok (fuel shift value : Nat) (bs : List Byte) (v : Nat) (rest : List Byte) :
    readVarintLoop fuel shift value bs = ok (v, rest) →
    ∃ pre, bs = pre ++ rest ∧ pre.length ≤ fuel ∧ (shift < 64 → 0 < fuel → 0 < pre.length) := by
  induction fuel generalizing shift value bs with
  | zero =>
    simp only [readVarintLoop_zero, ok.injEq, Prod.mk.injEq]
    rintro ⟨_, rfl⟩; exact ⟨[], by simp⟩
  | succ f ih =>
    rw [readVarintLoop_succ]
    split
    · next hs =>
      cases bs with
      | nil => simp
      | cons b tl =>
        simp only
        split
        · simp only [ok.injEq, Prod.mk.injEq]
          rintro ⟨_, rfl⟩; exact ⟨[b], by simp⟩
        · intro h
          obtain ⟨pre, hpre, hl, _⟩ := ih _ _ _ h
          exact ⟨b :: pre, by simp [hpre], by simp; omega, by simp⟩
    · next hs =>
      simp only [ok.injEq, Prod.mk.injEq]
      rintro ⟨_, rfl⟩; exact ⟨[], by simp, by simp, fun h => absurd h hs⟩

theorem readVarint_ok {bs : List Byte} {v : Nat} {rest : List Byte} (h : readVarint bs = ok (v, rest)) :
    ∃ pre, bs = pre ++ rest ∧ 0 < pre.length ∧ pre.length ≤ 11 := by
  obtain ⟨pre, h1, h2, h3⟩ := readVarintLoop_ok 11 0 0 bs v rest h
  exact ⟨pre, h1, h3 (by omega) (by omega), h2⟩

theorem readVarint_length {bs : List Byte} {v : Nat} {rest : List Byte} (h : readVarint bs = ok (v, rest)) :
    rest.length < bs.length := by
  obtain ⟨pre, h1, h2, _⟩ := readVarint_ok h
  rw [h1, List.length_append]; omega

/-! ### zig-zag, for every width `w + 1` -/

def zz (w : Nat) (v : BitVec (w + 1)) : BitVec (w + 1) := (v <<< 1) ^^^ (v.sshiftRight w)
def uzz (w : Nat) (x : BitVec (w + 1)) : BitVec (w + 1) := (x >>> 1) ^^^ (-(x &&& 1#(w + 1)))

theorem and_one_eq (w : Nat) (x : BitVec (w + 1)) :
    x &&& 1#(w + 1) = if x.getLsbD 0 then 1#(w + 1) else 0#(w + 1) := by
  apply BitVec.eq_of_getLsbD_eq
  intro i hi
  rw [BitVec.getLsbD_and, BitVec.getLsbD_one]
  cases h : x.getLsbD 0
  · simp only [Bool.false_eq_true, if_false, BitVec.getLsbD_zero]
    cases i with
    | zero => simp [-BitVec.getLsbD_eq_getElem, h]
    | succ j => simp
  · simp only [if_true, BitVec.getLsbD_one]
    cases i with
    | zero => simp [-BitVec.getLsbD_eq_getElem, h]
    | succ j => simp

theorem neg_and_one (w : Nat) (x : BitVec (w + 1)) :
    -(x &&& 1#(w + 1)) = if x.getLsbD 0 then BitVec.allOnes (w + 1) else 0#(w + 1) := by
  rw [and_one_eq]
  cases h : x.getLsbD 0
  · simp
  · simp [BitVec.neg_one_eq_allOnes]

theorem zz_lsb (w : Nat) (v : BitVec (w + 1)) : (zz w v).getLsbD 0 = v.msb := by
  rw [zz, BitVec.getLsbD_xor, BitVec.getLsbD_shiftLeft, BitVec.getLsbD_sshiftRight,
    BitVec.msb_eq_getLsbD_last]
  simp [-BitVec.getLsbD_eq_getElem]

/-- un-zig-zag inverts zig-zag on every bit vector -/
theorem uzz_zz (w : Nat) (v : BitVec (w + 1)) : uzz w (zz w v) = v := by
  apply BitVec.eq_of_getLsbD_eq
  intro i hi
  rw [uzz, neg_and_one, zz_lsb, BitVec.getLsbD_xor, BitVec.getLsbD_ushiftRight, zz,
    BitVec.getLsbD_xor, BitVec.getLsbD_shiftLeft, BitVec.getLsbD_sshiftRight]
  have hmsb : v.msb = v.getLsbD w := by rw [BitVec.msb_eq_getLsbD_last]; simp
  rcases Nat.lt_or_ge i w with hw | hw
  · have h1 : 1 + i < w + 1 := by omega
    have h2 : ¬ (1 + i < 1) := by omega
    have h3 : ¬ (w + 1 ≤ 1 + i) := by omega
    have h4 : ¬ (w + (1 + i) < w + 1) := by omega
    have h5 : 1 + i - 1 = i := by omega
    simp only [h1, h2, h3, h4, h5, decide_true, decide_false, Bool.not_false, Bool.true_and, if_false,
      Bool.and_true]
    cases hm : v.msb <;> cases hb : v.getLsbD i <;> simp [hi]
  · have : i = w := by omega
    subst this
    have h1 : ¬ (1 + i < i + 1) := by omega
    have h3 : (i + 1 ≤ 1 + i) := by omega
    simp only [h1, h3, decide_true, decide_false, Bool.false_and, Bool.not_true]
    rw [← hmsb]
    cases hm : v.msb <;> simp

theorem unzigzag32_zigzag32 (v : BitVec 32) : unzigzag32 (zigzag32 v) = v := uzz_zz 31 v
theorem unzigzag64_zigzag64 (v : BitVec 64) : unzigzag64 (zigzag64 v) = v := uzz_zz 63 v

/-- `(x as i32 as u64) as u32 = x` -/
theorem ofNat32_signExtend64 (x : BitVec 32) : BitVec.ofNat 32 (x.signExtend 64).toNat = x := by
  rw [BitVec.ofNat_toNat]
  apply BitVec.eq_of_getLsbD_eq
  intro i hi
  rw [BitVec.getLsbD_setWidth, BitVec.getLsbD_signExtend]
  have : i < 64 := by omega
  simp [-BitVec.getLsbD_eq_getElem, hi, this]

theorem varintToSint32_sint32ToVarint (v : BitVec 32) : varintToSint32 (sint32ToVarint v) = v := by
  rw [varintToSint32, sint32ToVarint, ofNat32_signExtend64, unzigzag32_zigzag32]

theorem varintToSint64_sint64ToVarint (v : BitVec 64) : varintToSint64 (sint64ToVarint v) = v := by
  rw [varintToSint64, sint64ToVarint, BitVec.ofNat_toNat, BitVec.setWidth_eq, unzigzag64_zigzag64]

theorem sint32ToVarint_lt (v : BitVec 32) : sint32ToVarint v < 2 ^ 64 := BitVec.isLt _
theorem sint64ToVarint_lt (v : BitVec 64) : sint64ToVarint v < 2 ^ 64 := BitVec.isLt _

/-! ### tags -/

theorem Fmt.code_lt (f : Fmt) : f.code < 8 := by cases f <;> decide

theorem Fmt.ofCode_code (f : Fmt) : Fmt.ofCode f.code = ok f := by cases f <;> rfl

theorem tagValue_eq {field : Nat} (h : field < 2 ^ 29) (f : Fmt) : tagValue field f = field * 8 + f.code := by
  have hc := Fmt.code_lt f
  rw [tagValue, Nat.shiftLeft_eq, Nat.mod_eq_of_lt (by omega)]
  have := Nat.two_pow_add_eq_or_of_lt (i := 3) (b := f.code) hc field
  rw [Nat.mul_comm (2 ^ 3) field] at this
  rw [← this]

theorem tagValue_lt {field : Nat} (h : field < 2 ^ 29) (f : Fmt) : tagValue field f < 2 ^ 32 := by
  have hc := Fmt.code_lt f
  rw [tagValue_eq h]; omega

theorem readTag_writeTag {field : Nat} (h : field < 2 ^ 29) (f : Fmt) (post : List Byte) :
    readTag (writeTag field f ++ post) = ok ((field, f), post) := by
  have hc := Fmt.code_lt f
  have hlt := tagValue_lt h f
  rw [readTag, writeTag, readVarint_writeVarint _ (by omega)]
  simp only [bind_ok]
  rw [Nat.mod_eq_of_lt hlt, tagValue_eq h]
  have h7 : (field * 8 + f.code) &&& 7 = f.code := by
    have := Nat.and_two_pow_sub_one_eq_mod (field * 8 + f.code) 3
    rw [show (2 : Nat) ^ 3 - 1 = 7 from rfl] at this
    rw [this]; omega
  have h3 : (field * 8 + f.code) >>> 3 = field := by
    rw [Nat.shiftRight_eq_div_pow]; omega
  rw [h7, h3, Fmt.ofCode_code]
  rfl

theorem readTag_ne_panic (bs : List Byte) : readTag bs ≠ panic := by
  rw [readTag]
  cases h : readVarint bs with
  | panic => exact absurd h (readVarintLoop_ne_panic _ _ _ _)
  | err k => simp
  | ok p =>
    obtain ⟨n, rest⟩ := p
    simp only [bind_ok]
    rw [Fmt.ofCode]
    repeat' split
    all_goals simp

theorem readTag_length {bs : List Byte} {r : (Nat × Fmt)} {rest : List Byte}
    (h : readTag bs = ok (r, rest)) : rest.length < bs.length := by
  rw [readTag] at h
  cases hv : readVarint bs with
  | panic => rw [hv] at h; simp at h
  | err k => rw [hv] at h; simp at h
  | ok p =>
    obtain ⟨n, rest'⟩ := p
    rw [hv] at h
    simp only [bind_ok] at h
    cases hf : Fmt.ofCode (n % 2 ^ 32 &&& 7) with
    | panic => rw [hf] at h; simp at h
    | err k => rw [hf] at h; simp at h
    | ok f =>
      rw [hf] at h
      simp only [bind_ok, ok.injEq, Prod.mk.injEq] at h
      obtain ⟨_, rfl⟩ := h
      exact readVarint_length hv

/-! ### bool, bytes -/

theorem readBool_writeBool (b : Bool) (post : List Byte) :
    readBool (writeBool b ++ post) = ok (b, post) := by
  rw [readBool, writeBool, readVarint_writeVarint _ (by cases b <;> decide)]
  cases b <;> rfl

theorem contentOffLen_writeBytes (b post : List Byte) (h : b.length < 2 ^ 64) :
    contentOffLen (writeBytes b ++ post) .lenDelim =
      ok ((writeVarint b.length).length, b.length) := by
  rw [contentOffLen, writeBytes, List.append_assoc, readVarint_writeVarint _ h]
  simp only [bind_ok, List.length_append]
  congr 2
  omega

theorem contentOffLen_varint (n : Nat) (post : List Byte) (h : n < 2 ^ 64) :
    contentOffLen (writeVarint n ++ post) .varint = ok (0, (writeVarint n).length) := by
  rw [contentOffLen, readVarint_writeVarint _ h]
  simp only [bind_ok, List.length_append]
  congr 2
  omega

theorem contentOffLen_ne_panic (bs : List Byte) (f : Fmt) : contentOffLen bs f ≠ panic := by
  cases f <;> rw [contentOffLen]
  · cases h : readVarint bs with
    | panic => exact absurd h (readVarintLoop_ne_panic _ _ _ _)
    | err k => simp
    | ok p => simp
  · simp
  · cases h : readVarint bs with
    | panic => exact absurd h (readVarintLoop_ne_panic _ _ _ _)
    | err k => simp
    | ok p => simp
  · simp

end Asn1Verif.Proto
