import Asn1Verif.Codegen.Names
/-
  Proto/Package — mirror of the code that names a generated .proto file and writes its `package`
  line, as it is at /repo HEAD (after ae3699b):

    asn1rs-model/src/generate/protobuf.rs   `ProtobufDefGenerator::model_name(model, separator)`,
                                            `::model_file_name(model)`,
                                            `::model_to_package(path, oid)`
    asn1rs-model/src/rust.rs                `rust_module_name(name, false)` (= `Names.moduleA false`),
                                            `Context::module_name` (what `to_rust()` stores in
                                            `Model<Rust>.name`; `to_protobuf()` clones it)
    asn1rs-model/src/asn/model.rs           `make_name_nice` (= `Names.makeNameNice`), `read_oid`
    asn1rs-model/src/asn/oid.rs             `ObjectIdentifier`, `ObjectIdentifierComponent`
    asn1rs-model/src/parse/tokenizer.rs     which characters end up in one `Token::Text`

  What reaches `model_to_package` / `model_file_name` in `Converter::to_protobuf`
  (`model.to_rust_with_scope(..).to_protobuf()`, then `generate_file`):

      module name token --make_name_nice--> Model<Asn>.name --rust_module_name(_, false)-->
      Model<Rust>.name = Model<Protobuf>.name --> model_to_package(name, oid), model_file_name(name)

  (`to_rust_keep_names()` skips the second arrow.)  Both are mirrored: `pipelineName`,
  `packageOfModule`, `fileNameOfModule` are the composition, `modelToPackage` / `modelFileName` the
  functions themselves, for every argument.

  Text is `List Char` (`Names.Name`), as in Codegen/Names.lean.  Characters: the Rust code uses the
  Unicode predicates `char::is_uppercase`, `is_lowercase`, `is_alphabetic`, `to_lowercase`; the
  mirror uses Lean's ASCII versions, which agree with them on ASCII input (on ASCII `to_lowercase`
  yields exactly one character).  The correspondence stream sends ASCII only and the driver answers
  `skip` on anything else.

  No Mathlib/Batteries: linked into the driver.
-/
namespace Asn1Verif.Proto.Package
open Asn1Verif.Codegen.Names

/-! ### text helpers of the Rust standard library -/

/-- `str::split(sep)` for a `char` pattern: `""` gives `[""]`, `"a."` gives `["a", ""]` -/
def splitOn (sep : Char) : List Char → List Name
  | [] => [[]]
  | c :: cs =>
    if c = sep then [] :: splitOn sep cs
    else
      match splitOn sep cs with
      | [] => [[c]]
      | w :: ws => (c :: w) :: ws

/-- `[String]::join(sep)` for a one-character separator -/
def joinWith (sep : Char) : List Name → Name
  | [] => []
  | [w] => w
  | w :: v :: ws => w ++ sep :: joinWith sep (v :: ws)

/-- `s.replace(a, b)` for single characters -/
def replaceChar (a b : Char) (n : Name) : Name := n.map fun c => if c = a then b else c

/-- `s.chars().next().map_or(false, |c| !c.is_alphabetic())` -/
def startsNonAlpha : Name → Bool
  | [] => false
  | c :: _ => !c.isAlpha

/-! ### generate/protobuf.rs -/

/-- loop of `model_name(model, separator)`; state = (`out.is_empty()`, `prev_lowered`); every
    iteration pushes at least one character, so `out` is empty exactly before the first one -/
def modelName.go (sep : Char) : Bool → Bool → List Char → List Char
  | _, _, [] => []
  | outEmpty, prevLowered, c :: cs =>
    if c.isUpper then
      (if !outEmpty && (!prevLowered || nextIsLower cs) then [sep] else []) ++
        c.toLower :: go sep false true cs
    else if c = '-' then
      sep :: go sep false false cs
    else
      c :: go sep false false cs

/-- `pub fn model_name(model: &str, separator: char) -> String` -/
def modelName (model : Name) (sep : Char) : Name := modelName.go sep true false model

/-- `pub fn model_file_name(model: &str) -> String` -/
def modelFileName (model : Name) : Name := modelName model '_' ++ ".proto".toList

/-- asn/oid.rs `ObjectIdentifierComponent` (numbers are `u64` there; the mirror does not bound
    them: the decimal spelling is all that is used) -/
inductive OidComp where
  | nameForm (name : Name)
  | numberForm (number : Nat)
  | nameAndNumberForm (name : Name) (number : Nat)
  deriving DecidableEq, Repr

/-- asn/oid.rs `ObjectIdentifier(pub Vec<ObjectIdentifierComponent>)` -/
abbrev Oid := List OidComp

/-- first closure of the object identifier branch: the spelling handed to `rust_module_name` -/
def oidCompSpelling : OidComp → Name
  | .nameForm name | .nameAndNumberForm name _ =>
    if startsNonAlpha name then '_' :: replaceChar '-' '_' name else replaceChar '-' '_' name
  | .numberForm number => '_' :: Nat.toDigits 10 number

/-- one component of the package of a module with an object identifier -/
def oidCompPackage (c : OidComp) : Name := moduleA false (oidCompSpelling c)

/-- second closure of the branch without object identifier -/
def underscoreIfNonAlpha (component : Name) : Name :=
  if startsNonAlpha component then '_' :: component else component

/-- the components of the branch without object identifier, before `join(".")` -/
def pathComponents (path : Name) : List Name :=
  ((splitOn '.' (modelName (replaceChar '_' '.' path) '.')).filter fun w => !w.isEmpty).map
    underscoreIfNonAlpha

/-- `pub fn model_to_package(path: &str, oid: Option<&ObjectIdentifier>) -> String` -/
def modelToPackage (path : Name) : Option Oid → Name
  | some oid => joinWith '.' (oid.map oidCompPackage)
  | none => joinWith '.' (pathComponents path)

/-! ### what `Converter::to_protobuf` feeds them with -/

/-- `Model<Protobuf>.name` of a module whose name token is `raw`:
    `make_name_nice` (parser), then `Context::module_name` = `rust_module_name(_, false)` -/
def pipelineName (raw : Name) : Name := moduleA false (makeNameNice raw)

/-- the text between `package ` and `;` in the header of the generated file -/
def packageOfModule (raw : Name) (oid : Option Oid) : Name := modelToPackage (pipelineName raw) oid

/-- the name of the generated file -/
def fileNameOfModule (raw : Name) : Name := modelFileName (pipelineName raw)

/-! ### the tokenizer: which texts can be a module name / an object identifier component -/

/-- the characters `Tokenizer::parse` turns into a `Token::Separator` -/
def separators : List Char := [':', ';', '=', '(', ')', '{', '}', '.', ',', '[', ']', '\'', '"']

/-- ASCII part of the `text` arm: `!c.is_control() && c != ' '` and not a separator.  (Every
    non-ASCII character that is not a control character is accepted as well; the mirror of the
    mangling functions is ASCII, see the header.) -/
def tokenChar (c : Char) : Bool := decide (0x21 ≤ c.toNat) && decide (c.toNat ≤ 0x7e) && !separators.contains c

/-- no `--` (starts a comment: the rest of the line is dropped) and no `/*` (ends the token) -/
def noCommentStart : List Char → Bool
  | [] => true
  | [_] => true
  | c :: d :: cs => !(c == '-' && d == '-') && !(c == '/' && d == '*') && noCommentStart (d :: cs)

/-- what `Tokenizer::parse` can deliver as ONE `Token::Text` (ASCII part): non-empty, text
    characters only, no comment opener inside -/
def TokenText (n : Name) : Bool := !n.isEmpty && n.all tokenChar && noCommentStart n

/-- the alphabet of names this file's theorems speak about: ASCII letters, digits, `-`, `_`
    (X.680 12.2 allows letters, digits and hyphens; the underscore is tolerated by the tokenizer and
    occurs in real-world module names, `make_name_nice` even knows the suffix `_Module`) -/
def nameChar (c : Char) : Bool := c.isAlphanum || c == '-' || c == '_'

/-- a text over `nameChar`; may be empty, may start with anything -/
def NameAlphabet (n : Name) : Bool := n.all nameChar

/-- an object identifier component as `read_oid` can build it from tokens over the alphabet: a name
    form carries a non-empty name (a `Token::Text` is never empty) -/
def OidCompOk : OidComp → Bool
  | .nameForm name | .nameAndNumberForm name _ => !name.isEmpty && NameAlphabet name
  | .numberForm _ => true

/-- some character survives as a letter or digit -/
def hasAlnum (n : Name) : Bool := n.any Char.isAlphanum

/-! ### proto3 grammar (language specification, "Letters and digits", "Identifiers")

      letter       = "A" … "Z" | "a" … "z"
      decimalDigit = "0" … "9"
      ident        = letter { letter | decimalDigit | "_" }
      fullIdent    = ident { "." ident }
      package      = "package" fullIdent ";"

  protoc's tokenizer (io/tokenizer.cc, character class `Letter`) counts `_` as a letter, so what
  protoc accepts as `ident` is `[A-Za-z_][A-Za-z0-9_]*`; the code under study relies on that (it
  repairs a leading digit by a leading underscore).  `ProtoIdent` / `FullIdent` are protoc's
  language, `StrictIdent` / `StrictFullIdent` the one of the specification text. -/

def identStart (c : Char) : Bool := c.isAlpha || c == '_'
def identCont (c : Char) : Bool := c.isAlphanum || c == '_'

/-- `start { letter | decimalDigit | "_" }` -/
def identWith (start : Char → Bool) : Name → Bool
  | [] => false
  | c :: cs => start c && cs.all identCont

/-- `ident` as protoc reads it: `[A-Za-z_][A-Za-z0-9_]*` -/
def ProtoIdent (w : Name) : Bool := identWith identStart w

/-- `ident` of the specification text: `[A-Za-z][A-Za-z0-9_]*` -/
def StrictIdent (w : Name) : Bool := identWith Char.isAlpha w

/-- recogniser of `ident { "." ident }` over a start predicate, written as an automaton on the
    text (independent of `splitOn`); `atStart` = an `ident` has to begin here -/
def fullIdentGo (start : Char → Bool) : Bool → List Char → Bool
  | atStart, [] => !atStart
  | true, c :: cs => start c && fullIdentGo start false cs
  | false, c :: cs =>
    if c = '.' then fullIdentGo start true cs else identCont c && fullIdentGo start false cs

/-- `fullIdent` as protoc reads it -/
def FullIdent (s : Name) : Bool := fullIdentGo identStart true s

/-- `fullIdent` of the specification text -/
def StrictFullIdent (s : Name) : Bool := fullIdentGo Char.isAlpha true s

/-! ### the exact shapes the code produces (narrower than `ProtoIdent`) -/

/-- `[a-z0-9]` -/
def lowDig (d : Char) : Bool := d.isLower || d.isDigit
/-- `[a-z0-9_]` -/
def lowIdc (d : Char) : Bool := d.isLower || d.isDigit || d == '_'

/-- the exact shape of a component derived from a module name: `[a-z_][a-z0-9]*` -/
def PkgComponent : Name → Bool
  | [] => false
  | c :: cs => (c.isLower || c == '_') && cs.all lowDig

/-- the exact shape of a component derived from an object identifier: `[a-z_][a-z0-9_]*` -/
def LowerIdent : Name → Bool
  | [] => false
  | c :: cs => (c.isLower || c == '_') && cs.all lowIdc

/-- alphabet of the function-level statements: `nameChar` and the dot (which no token contains;
    the function splits at it like at `_`) -/
def pathChar (c : Char) : Bool := nameChar c || c == '.'

end Asn1Verif.Proto.Package
