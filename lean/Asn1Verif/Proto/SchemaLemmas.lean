import Asn1Verif.Proto.Schema
import Asn1Verif.Proto.RoundTripLemmas
/- C18: the fields the writer emits against the rows of the schema model. -/
namespace Asn1Verif.Proto.Schema
open Asn1Verif Asn1Verif.Proto Outcome
open Asn1Verif.Uper (Ty Val Vals Fields Kind utf8Decode castInt)

theorem rows_numbers : ∀ (fs : Fields) (n : Nat),
    (rows fs n).map Prod.fst = (List.range fs.length).map (· + n + 1)
  | .nil, n => by simp [rows, Fields.length]
  | .cons k t rest, n => by
    simp only [rows, List.map_cons, Fields.length, rows_numbers rest (n + 1)]
    rw [List.range_succ_eq_map]
    simp only [List.map_cons, List.map_map, Nat.zero_add]
    congr 1
    apply List.map_congr_left
    intro a _
    simp only [Function.comp]
    omega

/-- the schema entry of component `j`: number `n + j + 1`, the type of the component -/
theorem rows_get : ∀ (fs : Fields) (n j : Nat) (k : Kind) (t : Ty), Fields.get? fs j = some (k, t) →
    (rows fs n)[j]? = some (n + j + 1, ptype t)
  | .nil, n, j, k, t, h => by simp [Fields.get?] at h
  | .cons k0 t0 rest, n, 0, k, t, h => by
    simp only [Fields.get?, Option.some.injEq, Prod.mk.injEq] at h
    simp [rows, h.2]
  | .cons k0 t0 rest, n, j + 1, k, t, h => by
    simp only [Fields.get?] at h
    have := rows_get rest (n + 1) j k t h
    simp only [rows, List.getElem?_cons_succ, this]
    congr 2; omega

/-- every field a component writes has the wire type of the component's schema type -/
theorem encI_fmt : ∀ (t : Ty) (v : Val) (c : Nat) (l : List Item) (c' : Nat),
    encI t v c = ok (l, c') → ∀ it ∈ l, it.fmt = (ptype t).wire
  | .bool, v, c, l, c', h => by
    cases v <;> simp [encI] at h
    obtain ⟨rfl, rfl⟩ := h
    intro it hit; simp only [List.mem_singleton] at hit; subst hit; rfl
  | .null, v, c, l, c', h => by
    cases v <;> simp [encI] at h
    obtain ⟨rfl, rfl⟩ := h; simp
  | .int mn mx e w s, v, c, l, c', h => by
    cases v <;> simp only [encI] at h <;> try (simp at h)
    split at h <;> simp at h
    obtain ⟨rfl, rfl⟩ := h
    intro it hit; simp only [List.mem_singleton] at hit; subst hit
    simp only [Item.fmt, ptype]
    split <;> split <;> rfl
  | .enum s tot e, v, c, l, c', h => by
    cases v <;> simp only [encI] at h <;> try (simp at h)
    split at h <;> simp at h
    obtain ⟨rfl, rfl⟩ := h
    intro it hit; simp only [List.mem_singleton] at hit; subst hit; rfl
  | .str cs mn mx e, v, c, l, c', h => by
    cases v <;> simp only [encI] at h <;> try (simp at h)
    split at h <;> simp at h
    obtain ⟨rfl, rfl⟩ := h
    intro it hit; simp only [List.mem_singleton] at hit; subst hit; rfl
  | .oct mn mx e, v, c, l, c', h => by
    cases v <;> simp [encI] at h
    obtain ⟨rfl, rfl⟩ := h
    intro it hit; simp only [List.mem_singleton] at hit; subst hit; rfl
  | .bits mn mx e, v, c, l, c', h => by
    cases v <;> simp [encI] at h
    obtain ⟨rfl, rfl⟩ := h
    intro it hit; simp only [List.mem_singleton] at hit; subst hit; rfl
  | .seqOf mn mx e elem, v, c, l, c', h => by
    cases v <;> simp only [encI] at h <;> try (simp at h)
    rename_i vs
    obtain ⟨body, hb, h2⟩ := bind_ok_inv h
    simp only [ok.injEq, Prod.mk.injEq] at h2
    obtain ⟨rfl, rfl⟩ := h2
    refine encListWith_forall (fun it => it.fmt = (ptype (.seqOf mn mx e elem)).wire) _ ?_ vs body hb
    intro x lx hx
    cases hx' : encI elem x c with
    | panic => rw [hx'] at hx; simp at hx
    | err k => rw [hx'] at hx; simp at hx
    | ok p =>
      rw [hx'] at hx
      simp only [map_ok, ok.injEq] at hx
      subst hx
      intro it hit
      simp only [ptype, PType.wire]
      exact encI_fmt elem x c p.1 p.2 hx' it hit
  | .seq so fc ea fields, v, c, l, c', h => by
    cases v <;> simp only [encI] at h <;> try (simp at h)
    obtain ⟨p, _, h2⟩ := bind_ok_inv h
    simp only [ok.injEq, Prod.mk.injEq] at h2
    obtain ⟨rfl, rfl⟩ := h2
    intro it hit; simp only [List.mem_singleton] at hit; subst hit; rfl
  | .choice s tot e alts, v, c, l, c', h => by
    cases v <;> simp only [encI] at h <;> try (simp at h)
    obtain ⟨p, _, h2⟩ := bind_ok_inv h
    simp only [ok.injEq, Prod.mk.injEq] at h2
    obtain ⟨rfl, rfl⟩ := h2
    intro it hit; simp only [List.mem_singleton] at hit; subst hit; rfl

/-- the fields of component `j` of a message: number = writer's start counter + number of non-NULL
    components in front of it + 1; wire type = that of the component's schema type -/
theorem encFieldsI_rows : ∀ (fs : Fields) (vs : Vals) (c : Nat) (ls : List (List Item)) (c' : Nat),
    Fields.noOptNull fs = true → encFieldsI fs vs c = ok (ls, c') →
    ∀ (j : Nat) (l : List Item), ls[j]? = some l →
    ∃ k t, Fields.get? fs j = some (k, t) ∧
      ∀ it ∈ l, it.num = c + Fields.countTo fs j + 1 ∧ it.fmt = (ptype t).wire
  | .nil, vs, c, ls, c', _, h, j, l, hl => by
    cases vs <;> simp [encFieldsI] at h
    obtain ⟨rfl, rfl⟩ := h; simp at hl
  | .cons k t rest, vs, c, ls, c', hnn, h, j, l, hl => by
    cases vs with
    | nil => simp [encFieldsI] at h
    | cons v vs =>
      obtain ⟨a, c1, b, h1, h2, rfl⟩ := encFieldsI_cons_inv h
      simp only [Fields.noOptNull, Bool.and_eq_true] at hnn
      -- the component itself
      have hone : c1 = c + (if Ty.counts t then 1 else 0) ∧
          ∀ it ∈ a, it.num = c + 1 ∧ it.fmt = (ptype t).wire := by
        split at h1
        · simp only [ok.injEq, Prod.mk.injEq] at h1
          obtain ⟨rfl, rfl⟩ := h1
          refine ⟨?_, by simp⟩
          cases t <;> simp_all [Ty.counts]
        · obtain ⟨hc, hn⟩ := encI_num _ _ _ _ _ h1
          exact ⟨hc, fun it hit => ⟨hn it hit, encI_fmt _ _ _ _ _ h1 it hit⟩⟩
        · simp at h1
        · obtain ⟨hc, hn⟩ := encI_num _ _ _ _ _ h1
          exact ⟨hc, fun it hit => ⟨hn it hit, encI_fmt _ _ _ _ _ h1 it hit⟩⟩
      cases j with
      | zero =>
        simp only [List.getElem?_cons_zero, Option.some.injEq] at hl
        subst hl
        exact ⟨k, t, rfl, fun it hit => ⟨by simp [Fields.countTo, (hone.2 it hit).1], (hone.2 it hit).2⟩⟩
      | succ j =>
        simp only [List.getElem?_cons_succ] at hl
        obtain ⟨k', t', hg, hall⟩ := encFieldsI_rows rest vs c1 b c' hnn.2 h2 j l hl
        refine ⟨k', t', by simp [Fields.get?, hg], fun it hit => ⟨?_, (hall it hit).2⟩⟩
        rw [(hall it hit).1, hone.1]
        simp only [Fields.countTo]; omega

/-- the single field a CHOICE value writes inside its wrapper: the number of the selected
    alternative plus one, the wire type of the alternative's schema type -/
theorem encAltI_row : ∀ (alts : Fields) (i idx : Nat) (x : Val) (content : List Item),
    encAltI alts i idx x = ok content →
    ∃ k t, Fields.get? alts i = some (k, t) ∧ ∀ it ∈ content, it.num = idx + 1 ∧ it.fmt = (ptype t).wire
  | .nil, i, idx, x, content, h => by simp [encAltI] at h
  | .cons k t rest, 0, idx, x, content, h => by
    simp only [encAltI] at h
    cases he : encI t x idx with
    | panic => rw [he] at h; simp at h
    | err e => rw [he] at h; simp at h
    | ok p =>
      rw [he] at h
      simp only [map_ok, ok.injEq] at h
      subst h
      exact ⟨k, t, rfl, fun it hit =>
        ⟨(encI_num t x idx p.1 p.2 he).2 it hit, encI_fmt t x idx p.1 p.2 he it hit⟩⟩
  | .cons k t rest, i + 1, idx, x, content, h => by
    simp only [encAltI] at h
    obtain ⟨k', t', hg, hall⟩ := encAltI_row rest i idx x content h
    exact ⟨k', t', by simp [Fields.get?, hg], hall⟩

end Asn1Verif.Proto.Schema
