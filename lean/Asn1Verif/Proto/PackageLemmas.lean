import Asn1Verif.Proto.Package
import Asn1Verif.Codegen.NamesLemmas
/-
  Lemmas about the package / file name mirror (Proto/Package.lean).  Character facts are reduced to
  arithmetic on `Char.toNat` (`char_nat` of Codegen/NamesLemmas.lean) and closed by `omega`.
-/
namespace Asn1Verif.Proto.Package
open Asn1Verif.Codegen.Names

/-! ### `split` and `join` -/

theorem splitOn_ne_nil (sep : Char) (s : List Char) : splitOn sep s ≠ [] := by
  cases s with
  | nil => simp [splitOn]
  | cons c cs =>
    unfold splitOn
    split
    · simp
    · split <;> simp

/-- `splitOn` of a non-separator followed by `cs` -/
theorem splitOn_cons_ne {sep c : Char} (h : c ≠ sep) (cs : List Char) :
    ∃ w ws, splitOn sep cs = w :: ws ∧ splitOn sep (c :: cs) = (c :: w) :: ws := by
  cases hs : splitOn sep cs with
  | nil => exact absurd hs (splitOn_ne_nil sep cs)
  | cons w ws =>
    refine ⟨w, ws, rfl, ?_⟩
    rw [splitOn, if_neg h, hs]

theorem splitOn_cons_eq (sep : Char) (cs : List Char) :
    splitOn sep (sep :: cs) = [] :: splitOn sep cs := by
  rw [splitOn, if_pos rfl]

/-- the pieces consist of characters of the text, none of them the separator -/
theorem mem_splitOn {sep : Char} (s : List Char) :
    ∀ w ∈ splitOn sep s, ∀ d ∈ w, d ∈ s ∧ d ≠ sep := by
  induction s with
  | nil => intro w hw d hd; simp [splitOn] at hw; subst hw; simp at hd
  | cons c cs ih =>
    intro w hw d hd
    by_cases hc : c = sep
    · subst hc
      rw [splitOn_cons_eq] at hw
      rcases List.mem_cons.mp hw with rfl | hw
      · simp at hd
      · have := ih w hw d hd
        exact ⟨List.mem_cons_of_mem _ this.1, this.2⟩
    · obtain ⟨w0, ws, h0, h1⟩ := splitOn_cons_ne hc cs
      rw [h1] at hw
      rcases List.mem_cons.mp hw with rfl | hw
      · rcases List.mem_cons.mp hd with rfl | hd
        · exact ⟨by simp, hc⟩
        · have := ih w0 (by rw [h0]; simp) d hd
          exact ⟨List.mem_cons_of_mem _ this.1, this.2⟩
      · have := ih w (by rw [h0]; exact List.mem_cons_of_mem _ hw) d hd
        exact ⟨List.mem_cons_of_mem _ this.1, this.2⟩

/-- every character that is not the separator lies in one of the pieces -/
theorem exists_mem_splitOn {sep : Char} (s : List Char) :
    ∀ d ∈ s, d ≠ sep → ∃ w ∈ splitOn sep s, d ∈ w := by
  induction s with
  | nil => intro d hd; simp at hd
  | cons c cs ih =>
    intro d hd hne
    by_cases hc : c = sep
    · subst hc
      rw [splitOn_cons_eq]
      rcases List.mem_cons.mp hd with rfl | hd
      · exact absurd rfl hne
      · obtain ⟨w, hw, hdw⟩ := ih d hd hne
        exact ⟨w, List.mem_cons_of_mem _ hw, hdw⟩
    · obtain ⟨w0, ws, h0, h1⟩ := splitOn_cons_ne hc cs
      rw [h1]
      rcases List.mem_cons.mp hd with rfl | hd
      · exact ⟨d :: w0, List.mem_cons_self, List.mem_cons_self⟩
      · obtain ⟨w, hw, hdw⟩ := ih d hd hne
        rw [h0] at hw
        rcases List.mem_cons.mp hw with rfl | hw
        · exact ⟨c :: w, List.mem_cons_self, List.mem_cons_of_mem _ hdw⟩
        · exact ⟨w, List.mem_cons_of_mem _ hw, hdw⟩

/-- `split` undoes `join` when no piece contains the separator (and there is a piece) -/
theorem splitOn_append_sep {sep : Char} (w : List Char) (hw : ∀ d ∈ w, d ≠ sep) (rest : List Char) :
    splitOn sep (w ++ sep :: rest) = w :: splitOn sep rest := by
  induction w with
  | nil => simp [splitOn_cons_eq]
  | cons c cs ih =>
    have hc : c ≠ sep := hw c (by simp)
    obtain ⟨w0, ws, h0, h1⟩ := splitOn_cons_ne hc (cs ++ sep :: rest)
    rw [List.cons_append, h1]
    rw [ih (fun d hd => hw d (by simp [hd]))] at h0
    cases h0; rfl

theorem splitOn_no_sep {sep : Char} (w : List Char) (hw : ∀ d ∈ w, d ≠ sep) :
    splitOn sep w = [w] := by
  induction w with
  | nil => simp [splitOn]
  | cons c cs ih =>
    have hc : c ≠ sep := hw c (by simp)
    obtain ⟨w0, ws, h0, h1⟩ := splitOn_cons_ne hc cs
    rw [h1]
    rw [ih (fun d hd => hw d (by simp [hd]))] at h0
    cases h0; rfl

theorem splitOn_joinWith {sep : Char} (ws : List Name) (hne : ws ≠ [])
    (h : ∀ w ∈ ws, ∀ d ∈ w, d ≠ sep) : splitOn sep (joinWith sep ws) = ws := by
  induction ws with
  | nil => exact absurd rfl hne
  | cons w rest ih =>
    cases rest with
    | nil => simp only [joinWith]; exact splitOn_no_sep w (h w (by simp))
    | cons v vs =>
      simp only [joinWith]
      rw [splitOn_append_sep w (h w (by simp))]
      rw [ih (by simp) (fun x hx => h x (List.mem_cons_of_mem _ hx))]

theorem mem_joinWith {sep : Char} (ws : List Name) :
    ∀ d, d ∈ joinWith sep ws → d = sep ∨ ∃ w ∈ ws, d ∈ w := by
  induction ws with
  | nil => intro d hd; simp [joinWith] at hd
  | cons w rest ih =>
    intro d hd
    cases rest with
    | nil => simp only [joinWith] at hd; exact .inr ⟨w, by simp, hd⟩
    | cons v vs =>
      simp only [joinWith, List.mem_append, List.mem_cons] at hd
      rcases hd with hd | rfl | hd
      · exact .inr ⟨w, by simp, hd⟩
      · exact .inl rfl
      · rcases ih d hd with h | ⟨x, hx, hdx⟩
        · exact .inl h
        · exact .inr ⟨x, List.mem_cons_of_mem _ hx, hdx⟩

theorem mem_joinWith_of_mem {sep : Char} (ws : List Name) :
    ∀ w ∈ ws, ∀ d ∈ w, d ∈ joinWith sep ws := by
  induction ws with
  | nil => intro w hw; simp at hw
  | cons x rest ih =>
    intro w hw d hd
    cases rest with
    | nil =>
      simp only [List.mem_singleton] at hw; subst hw
      simpa [joinWith] using hd
    | cons v vs =>
      simp only [joinWith, List.mem_append, List.mem_cons]
      rcases List.mem_cons.mp hw with rfl | hw
      · exact .inl hd
      · exact .inr (.inr (ih w hw d hd))

/-- a join of non-empty pieces is empty only when there is no piece -/
theorem joinWith_eq_nil_iff {sep : Char} (ws : List Name) (h : ∀ w ∈ ws, w ≠ []) :
    joinWith sep ws = [] ↔ ws = [] := by
  constructor
  · intro hj
    cases ws with
    | nil => rfl
    | cons w rest =>
      have hw := h w (by simp)
      cases rest with
      | nil => simp only [joinWith] at hj; exact absurd hj hw
      | cons v vs => simp [joinWith] at hj
  · intro h0; subst h0; rfl

/-- no non-empty piece: the text consists of separators -/
theorem filter_splitOn_eq_nil_iff {sep : Char} (s : List Char) :
    (splitOn sep s).filter (fun w => !w.isEmpty) = [] ↔ ∀ d ∈ s, d = sep := by
  constructor
  · intro h d hd
    by_cases hne : d = sep
    · exact hne
    · obtain ⟨w, hw, hdw⟩ := exists_mem_splitOn s d hd hne
      have : w ∈ (splitOn sep s).filter (fun w => !w.isEmpty) := by
        rw [List.mem_filter]
        refine ⟨hw, ?_⟩
        cases w with
        | nil => simp at hdw
        | cons _ _ => rfl
      rw [h] at this; simp at this
  · intro h
    rw [List.filter_eq_nil_iff]
    intro w hw
    cases w with
    | nil => simp
    | cons c cs =>
      have := mem_splitOn s _ hw c (by simp)
      exact absurd (h c this.1) this.2

/-! ### the grammar: the automaton `fullIdentGo` reads `ident { "." ident }` -/

/-- the state "inside an `ident`" in terms of the pieces still to come -/
def restOk (start : Char → Bool) : List Name → Bool
  | [] => true
  | w :: ws => w.all identCont && ws.all (identWith start)

theorem fullIdentGo_split (start : Char → Bool) (hs : start '.' = false) (s : List Char) :
    fullIdentGo start true s = (splitOn '.' s).all (identWith start) ∧
    fullIdentGo start false s = restOk start (splitOn '.' s) := by
  induction s with
  | nil => simp [fullIdentGo, splitOn, identWith, restOk]
  | cons c cs ih =>
    by_cases hc : c = '.'
    · subst hc
      rw [splitOn_cons_eq]
      constructor
      · simp [fullIdentGo, hs, identWith]
      · simp only [fullIdentGo, if_true, restOk, List.all_nil, Bool.true_and]
        exact ih.1
    · obtain ⟨w, ws, h0, h1⟩ := splitOn_cons_ne hc cs
      rw [h1]
      rw [h0] at ih
      constructor
      · simp only [fullIdentGo, ih.2, restOk, List.all_cons, identWith, Bool.and_assoc]
      · simp only [fullIdentGo, if_neg hc, ih.2, restOk, List.all_cons, Bool.and_assoc]

/-- `fullIdent` = every piece between the dots is an `ident` -/
theorem fullIdent_eq_split (s : List Char) : FullIdent s = (splitOn '.' s).all ProtoIdent :=
  (fullIdentGo_split identStart (by decide) s).1

theorem strictFullIdent_eq_split (s : List Char) :
    StrictFullIdent s = (splitOn '.' s).all StrictIdent :=
  (fullIdentGo_split Char.isAlpha (by decide) s).1

theorem identStart_cont {c : Char} (h : identStart c = true) : identCont c = true := by
  unfold identStart at h; unfold identCont
  char_nat; omega

theorem identCont_ne_dot {c : Char} (h : identCont c = true) : c ≠ '.' := by
  intro hc; subst hc; exact absurd h (by decide)

theorem protoIdent_chars {w : Name} (h : ProtoIdent w = true) : ∀ d ∈ w, identCont d = true := by
  cases w with
  | nil => simp [ProtoIdent, identWith] at h
  | cons c cs =>
    simp only [ProtoIdent, identWith, Bool.and_eq_true, List.all_eq_true] at h
    intro d hd
    rcases List.mem_cons.mp hd with rfl | hd
    · exact identStart_cont h.1
    · exact h.2 d hd

theorem strict_proto {w : Name} (h : StrictIdent w = true) : ProtoIdent w = true := by
  cases w with
  | nil => simp [StrictIdent, identWith] at h
  | cons c cs =>
    simp only [StrictIdent, ProtoIdent, identWith, Bool.and_eq_true] at h ⊢
    refine ⟨?_, h.2⟩
    unfold identStart; simp [h.1]

/-- a join of identifiers is a `fullIdent`, and nothing else is -/
theorem fullIdent_joinWith (ws : List Name) (hne : ws ≠ [])
    (hdot : ∀ w ∈ ws, ∀ d ∈ w, d ≠ '.') : FullIdent (joinWith '.' ws) = ws.all ProtoIdent := by
  rw [fullIdent_eq_split, splitOn_joinWith ws hne hdot]

theorem fullIdent_joinWith_of_idents (ws : List Name) (hne : ws ≠ [])
    (h : ∀ w ∈ ws, ProtoIdent w = true) : FullIdent (joinWith '.' ws) = true := by
  rw [fullIdent_joinWith ws hne
    (fun w hw d hd => identCont_ne_dot (protoIdent_chars (h w hw) d hd))]
  exact List.all_eq_true.mpr h

theorem fullIdent_nil : FullIdent [] = false := by decide

/-- a `fullIdent` consists of letters, digits, underscores and dots -/
theorem fullIdent_chars {s : List Char} (h : FullIdent s = true) :
    ∀ d ∈ s, d = '.' ∨ identCont d = true := by
  intro d hd
  by_cases hdot : d = '.'
  · exact .inl hdot
  · obtain ⟨w, hw, hdw⟩ := exists_mem_splitOn s d hd hdot
    rw [fullIdent_eq_split, List.all_eq_true] at h
    exact .inr (protoIdent_chars (h w hw) d hdw)

/-! ### `model_name` -/

theorem upper_toLower_lower {c : Char} (h : c.isUpper = true) : c.toLower.isLower = true := by
  rcases toLower_cases c with ⟨g1, g2, g3⟩ | ⟨g1, _⟩
  · char_nat; omega
  · char_nat; omega

/-- where an output character comes from -/
theorem mem_modelName_go (sep : Char) (n : List Char) : ∀ (e l : Bool) (d : Char),
    d ∈ modelName.go sep e l n →
    d = sep ∨ (∃ c ∈ n, c.isUpper = true ∧ d = c.toLower) ∨
      (d ∈ n ∧ d.isUpper = false ∧ d ≠ '-') := by
  induction n with
  | nil => intro e l d hd; simp [modelName.go] at hd
  | cons c cs ih =>
    intro e l d hd
    have lift : (d = sep ∨ (∃ c ∈ cs, c.isUpper = true ∧ d = c.toLower) ∨
        (d ∈ cs ∧ d.isUpper = false ∧ d ≠ '-')) →
        d = sep ∨ (∃ x ∈ c :: cs, x.isUpper = true ∧ d = x.toLower) ∨
        (d ∈ c :: cs ∧ d.isUpper = false ∧ d ≠ '-') := by
      rintro (h | ⟨x, hx, h⟩ | ⟨h1, h2⟩)
      · exact .inl h
      · exact .inr (.inl ⟨x, List.mem_cons_of_mem _ hx, h⟩)
      · exact .inr (.inr ⟨List.mem_cons_of_mem _ h1, h2⟩)
    unfold modelName.go at hd
    split at hd
    · next hup =>
      simp only [List.mem_append, List.mem_cons] at hd
      rcases hd with hd | hd | hd
      · split at hd
        · simp only [List.mem_singleton] at hd; exact .inl hd
        · simp at hd
      · exact .inr (.inl ⟨c, by simp, hup, hd⟩)
      · exact lift (ih _ _ d hd)
    · next hnu =>
      split at hd
      · rcases List.mem_cons.mp hd with hd | hd
        · exact .inl hd
        · exact lift (ih _ _ d hd)
      · next hh =>
        rcases List.mem_cons.mp hd with hd | hd
        · subst hd
          exact .inr (.inr ⟨by simp, by simpa using hnu, hh⟩)
        · exact lift (ih _ _ d hd)

/-- every input character leaves its trace -/
theorem modelName_go_mem (sep : Char) (n : List Char) : ∀ (e l : Bool) (c : Char), c ∈ n →
    (c.isUpper = true → c.toLower ∈ modelName.go sep e l n) ∧
    (c.isUpper = false → c ≠ '-' → c ∈ modelName.go sep e l n) := by
  induction n with
  | nil => intro e l c hc; simp at hc
  | cons x xs ih =>
    intro e l c hc
    unfold modelName.go
    rcases List.mem_cons.mp hc with rfl | hc
    · constructor
      · intro hu; simp [hu]
      · intro hu hh; simp [hu, hh]
    · split
      · simp only [List.mem_append, List.mem_cons]
        exact ⟨fun hu => .inr (.inr ((ih _ _ c hc).1 hu)),
          fun hu hh => .inr (.inr ((ih _ _ c hc).2 hu hh))⟩
      · split
        · exact ⟨fun hu => List.mem_cons_of_mem _ ((ih _ _ c hc).1 hu),
            fun hu hh => List.mem_cons_of_mem _ ((ih _ _ c hc).2 hu hh)⟩
        · exact ⟨fun hu => List.mem_cons_of_mem _ ((ih _ _ c hc).1 hu),
            fun hu hh => List.mem_cons_of_mem _ ((ih _ _ c hc).2 hu hh)⟩

/-- on a text without capitals and hyphens `model_name` is the identity (any separator) -/
theorem modelName_go_id (sep : Char) (n : List Char)
    (h : ∀ d ∈ n, d.isUpper = false ∧ d ≠ '-') : ∀ (e l : Bool), modelName.go sep e l n = n := by
  induction n with
  | nil => intro e l; simp [modelName.go]
  | cons c cs ih =>
    intro e l
    have hc := h c (by simp)
    unfold modelName.go
    simp only [hc.1, Bool.false_eq_true, if_false, hc.2]
    rw [ih (fun d hd => h d (by simp [hd]))]

/-- the generator's `model_name(_, '_')` is `RustCodeGenerator::rust_module_name` -/
theorem modelName_underscore_eq_moduleB (n : List Char) : modelName n '_' = moduleB n := by
  unfold modelName moduleB
  generalize true = e
  generalize false = l
  induction n generalizing e l with
  | nil => simp [modelName.go, moduleB.go]
  | cons c cs ih =>
    unfold modelName.go moduleB.go
    simp only [ih]

/-- the text consists of separators exactly when the argument consists of hyphens and separators
    (for a separator that no lowered capital can be) -/
theorem modelName_go_all_sep {sep : Char} (hsep : sep.isAlpha = false) (n : List Char) (e l : Bool) :
    (∀ d ∈ modelName.go sep e l n, d = sep) ↔ ∀ c ∈ n, c = '-' ∨ c = sep := by
  constructor
  · intro h c hc
    have hm := modelName_go_mem sep n e l c hc
    cases hu : c.isUpper with
    | true =>
      have := h _ (hm.1 hu)
      have hl := upper_toLower_lower hu
      rw [this] at hl
      exfalso; char_nat; omega
    | false =>
      by_cases hh : c = '-'
      · exact .inl hh
      · exact .inr (h _ (hm.2 hu hh))
  · intro h d hd
    rcases mem_modelName_go sep n e l d hd with h1 | ⟨c, hc, hu, _⟩ | ⟨h1, h2, h3⟩
    · exact h1
    · rcases h c hc with rfl | rfl
      · exact absurd hu (by decide)
      · exfalso; char_nat; omega
    · rcases h d h1 with h4 | h4
      · exact absurd h4 h3
      · exact h4

/-! ### the branch without object identifier -/

theorem lowDig_lowIdc {d : Char} (h : lowDig d = true) : lowIdc d = true := by
  unfold lowDig at h; unfold lowIdc; simp only [Bool.or_eq_true] at h ⊢; exact .inl h

theorem lowIdc_identCont {d : Char} (h : lowIdc d = true) : identCont d = true := by
  unfold lowIdc at h; unfold identCont
  char_nat; omega

theorem lowerIdent_ident {w : Name} (h : LowerIdent w = true) : ProtoIdent w = true := by
  cases w with
  | nil => simp [LowerIdent] at h
  | cons c cs =>
    simp only [LowerIdent, Bool.and_eq_true, List.all_eq_true] at h
    simp only [ProtoIdent, identWith, Bool.and_eq_true, List.all_eq_true]
    refine ⟨?_, fun d hd => lowIdc_identCont (h.2 d hd)⟩
    have := h.1; unfold identStart
    char_nat; omega

theorem pkgComponent_lowerIdent {w : Name} (h : PkgComponent w = true) : LowerIdent w = true := by
  cases w with
  | nil => simp [PkgComponent] at h
  | cons c cs =>
    simp only [PkgComponent, Bool.and_eq_true, List.all_eq_true] at h
    simp only [LowerIdent, Bool.and_eq_true, List.all_eq_true]
    exact ⟨h.1, fun d hd => lowDig_lowIdc (h.2 d hd)⟩

theorem pkgComponent_ident {w : Name} (h : PkgComponent w = true) : ProtoIdent w = true :=
  lowerIdent_ident (pkgComponent_lowerIdent h)

theorem mem_replaceChar {a b : Char} (n : Name) (d : Char) (h : d ∈ replaceChar a b n) :
    d = b ∨ (d ∈ n ∧ d ≠ a) := by
  unfold replaceChar at h
  obtain ⟨c, hc, rfl⟩ := List.mem_map.mp h
  split
  · exact .inl rfl
  · next hne => exact .inr ⟨hc, hne⟩

theorem replaceChar_mem {a b : Char} (n : Name) (c : Char) (h : c ∈ n) :
    (c = a → b ∈ replaceChar a b n) ∧ (c ≠ a → c ∈ replaceChar a b n) := by
  unfold replaceChar
  constructor
  · intro hc; exact List.mem_map.mpr ⟨c, h, by simp [hc]⟩
  · intro hc; exact List.mem_map.mpr ⟨c, h, by simp [hc]⟩

/-- the dotted text of a name over the alphabet: dots, lower-case letters and digits -/
theorem modelName_path_chars (path : Name) (h : ∀ c ∈ path, pathChar c = true) :
    ∀ d ∈ modelName (replaceChar '_' '.' path) '.', d = '.' ∨ lowDig d = true := by
  intro d hd
  rcases mem_modelName_go '.' _ _ _ d hd with h1 | ⟨c, _, hu, rfl⟩ | ⟨h1, h2, h3⟩
  · exact .inl h1
  · right; unfold lowDig; simp [upper_toLower_lower hu]
  · rcases mem_replaceChar _ d h1 with h4 | ⟨h4, h5⟩
    · exact .inl h4
    · have := h d h4
      unfold pathChar nameChar at this; unfold lowDig
      by_cases hdot : d = '.'
      · exact .inl hdot
      · right
        have hdot' : ¬ d.toNat = 46 := fun hh => hdot (by rw [← Char.toNat_inj]; exact hh)
        have : (d == '.') = false := by simpa using hdot
        simp only [this, Bool.or_false] at *
        char_nat; omega

theorem pathComponents_pieces (path : Name) : ∀ w ∈ pathComponents path,
    ∃ w0, w = underscoreIfNonAlpha w0 ∧ w0 ≠ [] ∧
      w0 ∈ splitOn '.' (modelName (replaceChar '_' '.' path) '.') := by
  intro w hw
  unfold pathComponents at hw
  obtain ⟨w0, h0, rfl⟩ := List.mem_map.mp hw
  rw [List.mem_filter] at h0
  refine ⟨w0, rfl, ?_, h0.1⟩
  intro hnil; rw [hnil] at h0; simp at h0

theorem underscoreIfNonAlpha_ne_nil {w0 : Name} (h : w0 ≠ []) : underscoreIfNonAlpha w0 ≠ [] := by
  unfold underscoreIfNonAlpha; split
  · simp
  · exact h

theorem mem_underscoreIfNonAlpha (w0 : Name) (d : Char) :
    d ∈ underscoreIfNonAlpha w0 → d = '_' ∨ d ∈ w0 := by
  unfold underscoreIfNonAlpha; split
  · intro h; exact List.mem_cons.mp h
  · intro h; exact .inr h

theorem underscoreIfNonAlpha_mem (w0 : Name) (d : Char) (h : d ∈ w0) :
    d ∈ underscoreIfNonAlpha w0 := by
  unfold underscoreIfNonAlpha; split
  · exact List.mem_cons_of_mem _ h
  · exact h

theorem underscoreIfNonAlpha_shape (w0 : Name) (hne : w0 ≠ []) (h : ∀ d ∈ w0, lowDig d = true) :
    PkgComponent (underscoreIfNonAlpha w0) = true := by
  cases w0 with
  | nil => exact absurd rfl hne
  | cons c cs =>
    have hall : cs.all lowDig = true := List.all_eq_true.mpr fun d hd => h d (by simp [hd])
    have hc := h c (by simp)
    cases ha : c.isAlpha with
    | true =>
      have : underscoreIfNonAlpha (c :: cs) = c :: cs := by
        simp [underscoreIfNonAlpha, startsNonAlpha, ha]
      rw [this]
      simp only [PkgComponent, hall, Bool.and_true]
      unfold lowDig at hc
      char_nat; omega
    | false =>
      have : underscoreIfNonAlpha (c :: cs) = '_' :: c :: cs := by
        simp [underscoreIfNonAlpha, startsNonAlpha, ha]
      rw [this]
      simp [PkgComponent, hc, hall]

theorem pathComponents_mem_ne_nil (path : Name) : ∀ w ∈ pathComponents path, w ≠ [] := by
  intro w hw
  obtain ⟨w0, rfl, hne, _⟩ := pathComponents_pieces path w hw
  exact underscoreIfNonAlpha_ne_nil hne

/-- every component has the shape `[a-z_][a-z0-9]*` -/
theorem pathComponents_shape (path : Name) (h : ∀ c ∈ path, pathChar c = true) :
    ∀ w ∈ pathComponents path, PkgComponent w = true := by
  intro w hw
  obtain ⟨w0, rfl, hne, hm⟩ := pathComponents_pieces path w hw
  refine underscoreIfNonAlpha_shape w0 hne (fun d hd => ?_)
  have hs := mem_splitOn _ w0 hm d hd
  rcases modelName_path_chars path h d hs.1 with h1 | h1
  · exact absurd h1 hs.2
  · exact h1

/-- no component at all: the name consists of `-`, `_` (and `.`) -/
theorem pathComponents_eq_nil_iff (path : Name) :
    pathComponents path = [] ↔ ∀ c ∈ path, c = '-' ∨ c = '_' ∨ c = '.' := by
  unfold pathComponents
  rw [List.map_eq_nil_iff, filter_splitOn_eq_nil_iff]
  unfold modelName
  rw [modelName_go_all_sep (by decide)]
  constructor
  · intro h c hc
    have hr := replaceChar_mem (a := '_') (b := '.') path c hc
    by_cases hu : c = '_'
    · exact .inr (.inl hu)
    · rcases h c (hr.2 hu) with h1 | h1
      · exact .inl h1
      · exact .inr (.inr h1)
  · intro h d hd
    rcases mem_replaceChar _ d hd with h1 | ⟨h1, h2⟩
    · exact .inr h1
    · rcases h d h1 with h3 | h3 | h3
      · exact .inl h3
      · exact absurd h3 h2
      · exact .inr h3

theorem package_nil_iff (path : Name) :
    modelToPackage path none = [] ↔ ∀ c ∈ path, c = '-' ∨ c = '_' ∨ c = '.' := by
  unfold modelToPackage
  rw [joinWith_eq_nil_iff _ (pathComponents_mem_ne_nil path), pathComponents_eq_nil_iff]

/-- the components can be read back from the package text -/
theorem package_split (path : Name) (h : ∀ c ∈ path, pathChar c = true)
    (hne : pathComponents path ≠ []) :
    splitOn '.' (modelToPackage path none) = pathComponents path := by
  unfold modelToPackage
  refine splitOn_joinWith _ hne (fun w hw d hd => ?_)
  exact identCont_ne_dot (protoIdent_chars (pkgComponent_ident (pathComponents_shape path h w hw)) d hd)

/-! ### what the pipeline hands over: `make_name_nice`, then `rust_module_name(_, false)` -/

theorem nameChar_eq_inc : nameChar = inc := rfl

theorem stripSuffix_take (n s : Name) : ∃ k, stripSuffix n s = n.take k := by
  unfold stripSuffix
  split
  · exact ⟨_, rfl⟩
  · exact ⟨n.length, by simp⟩

theorem mem_makeNameNice (n : Name) : ∀ c ∈ makeNameNice n, c ∈ n := by
  intro c hc
  unfold makeNameNice at hc
  obtain ⟨k2, h2⟩ := stripSuffix_take (stripSuffix n "_Module".toList) "Module".toList
  obtain ⟨k1, h1⟩ := stripSuffix_take n "_Module".toList
  rw [h2, h1] at hc
  exact List.mem_of_mem_take (List.mem_of_mem_take hc)

theorem nameAlphabet_iff (n : Name) : NameAlphabet n = true ↔ ∀ c ∈ n, nameChar c = true := by
  unfold NameAlphabet; exact List.all_eq_true

theorem nameAlphabet_nice {n : Name} (h : NameAlphabet n = true) :
    NameAlphabet (makeNameNice n) = true := by
  rw [nameAlphabet_iff] at h ⊢
  exact fun c hc => h c (mem_makeNameNice n c hc)

theorem upper_alnum {c : Char} (h : c.isUpper = true) : c.isAlphanum = true := by
  char_nat; omega

/-- `rust_module_name` keeps the letters and digits, and adds none -/
theorem moduleA_go_hasAlnum (pad : Bool) (n : Name) : ∀ (e u l a : Bool),
    hasAlnum (moduleA.go pad e u l a n) = hasAlnum n := by
  unfold hasAlnum
  induction n with
  | nil => intro e u l a; simp [moduleA.go]
  | cons c cs ih =>
    intro e u l a
    have hU : Char.isAlphanum '_' = false := by decide
    unfold moduleA.go
    simp only [List.any_append, List.any_cons]
    have hpad : ∀ b : Bool, (if b = true then ['_'] else []).any Char.isAlphanum = false := by
      intro b; cases b <;> simp [hU]
    rw [hpad, Bool.false_or]
    split
    · next hup =>
      simp only [List.any_append, List.any_cons, hpad, Bool.false_or, ih]
      have h1 : c.isAlphanum = true := upper_alnum hup
      rw [alnum_toLower h1, h1]
    · split
      · next hsep =>
        simp only [List.any_cons, hU, Bool.false_or, ih]
        have : c.isAlphanum = false := by
          rcases hsep with rfl | rfl <;> decide
        rw [this, Bool.false_or]
      · simp only [List.any_cons, ih]

/-- the name stored in `Model<Protobuf>` is over `[a-z0-9_]` -/
theorem pipelineName_chars {raw : Name} (h : NameAlphabet raw = true) :
    ∀ d ∈ pipelineName raw, lowIdc d = true := by
  intro d hd
  unfold pipelineName moduleA at hd
  have h1 := moduleA_go_idc false _ _ _ _ _
    ((nameAlphabet_iff _).mp (nameAlphabet_nice h)) d hd
  have h2 := moduleA_go_lower false _ _ _ _ _ d hd
  unfold idc at h1; unfold lowIdc
  have := h2.1
  char_nat; omega

theorem lowIdc_pathChar {d : Char} (h : lowIdc d = true) : pathChar d = true := by
  unfold lowIdc at h; unfold pathChar nameChar
  have : (d.isAlphanum || d == '-' || d == '_') = true := by char_nat; omega
  rw [this]; rfl

theorem nameChar_pathChar {d : Char} (h : nameChar d = true) : pathChar d = true := by
  unfold pathChar; rw [h]; rfl

theorem pipelineName_hasAlnum (raw : Name) :
    hasAlnum (pipelineName raw) = hasAlnum (makeNameNice raw) :=
  moduleA_go_hasAlnum false _ _ _ _ _

/-- over the alphabet: "only `-`, `_`, `.`" = "no letter or digit" -/
theorem only_seps_iff {n : Name} (h : ∀ c ∈ n, pathChar c = true) :
    (∀ c ∈ n, c = '-' ∨ c = '_' ∨ c = '.') ↔ hasAlnum n = false := by
  unfold hasAlnum
  rw [List.any_eq_false]
  constructor
  · intro h1 c hc
    rcases h1 c hc with rfl | rfl | rfl <;> decide
  · intro h1 c hc
    have h2 := h c hc
    have h3 := h1 c hc
    unfold pathChar nameChar at h2
    simp only [Bool.or_eq_true, beq_iff_eq] at h2
    rcases h2 with ((h2 | h2) | h2) | h2
    · exact absurd h2 h3
    · exact .inl h2
    · exact .inr (.inl h2)
    · exact .inr (.inr h2)

/-- in the pipeline `model_name` finds nothing to do: no capital, no hyphen is left -/
theorem modelName_pipelineName (raw : Name) (sep : Char) :
    modelName (pipelineName raw) sep = pipelineName raw :=
  modelName_go_id sep _ (moduleA_go_lower false _ _ _ _ _) _ _

/-! ### the object identifier branch -/

theorem replaceChar_hyphen (n : Name) : replaceChar '-' '_' n = replHyphen n := rfl

theorem moduleA_underscore_cons (r : Name) :
    moduleA false ('_' :: r) = '_' :: moduleA.go false false true false false r := by
  unfold moduleA
  rw [moduleA.go]
  simp [padNow]

theorem idc_inc {d : Char} (h : idc d = true) : inc d = true := by
  unfold idc at h; unfold inc
  char_nat; omega

/-- the spelling handed to `rust_module_name`: no hyphen is left -/
theorem oidCompSpelling_chars {c : OidComp} (h : OidCompOk c = true) :
    ∀ d ∈ oidCompSpelling c, idc d = true := by
  have hU : idc '_' = true := by decide
  have name_case : ∀ n : Name, NameAlphabet n = true →
      ∀ d ∈ (if startsNonAlpha n then '_' :: replaceChar '-' '_' n else replaceChar '-' '_' n),
        idc d = true := by
    intro n hn d hd
    have hr : ∀ d ∈ replaceChar '-' '_' n, idc d = true := by
      intro d hd
      rcases mem_replaceChar _ d hd with rfl | ⟨h1, h2⟩
      · exact hU
      · have := (nameAlphabet_iff n).mp hn d h1
        unfold nameChar at this; unfold idc
        char_nat; omega
    split at hd
    · rcases List.mem_cons.mp hd with rfl | hd
      · exact hU
      · exact hr d hd
    · exact hr d hd
  cases c with
  | nameForm n =>
    simp only [OidCompOk, Bool.and_eq_true] at h
    exact name_case n h.2
  | nameAndNumberForm n k =>
    simp only [OidCompOk, Bool.and_eq_true] at h
    exact name_case n h.2
  | numberForm k =>
    intro d hd
    simp only [oidCompSpelling] at hd
    rcases List.mem_cons.mp hd with rfl | hd
    · exact hU
    · have := Nat.isDigit_of_mem_toDigits (by decide) (by decide) hd
      unfold idc; unfold Char.isAlphanum; simp [this]

theorem oidCompPackage_chars {c : OidComp} (h : OidCompOk c = true) :
    ∀ d ∈ oidCompPackage c, lowIdc d = true := by
  intro d hd
  unfold oidCompPackage moduleA at hd
  have h1 := moduleA_go_idc false _ _ _ _ _
    (fun x hx => idc_inc (oidCompSpelling_chars h x hx)) d hd
  have h2 := (moduleA_go_lower false _ _ _ _ _ d hd).1
  unfold idc at h1; unfold lowIdc
  char_nat; omega

/-- the spelling starts with a letter or with the added underscore -/
theorem oidCompSpelling_head {c : OidComp} (h : OidCompOk c = true) :
    ∃ x r, oidCompSpelling c = x :: r ∧ (x.isAlpha = true ∨ x = '_') := by
  have name_case : ∀ n : Name, n ≠ [] →
      ∃ x r, (if startsNonAlpha n then '_' :: replaceChar '-' '_' n else replaceChar '-' '_' n)
        = x :: r ∧ (x.isAlpha = true ∨ x = '_') := by
    intro n hne
    cases n with
    | nil => exact absurd rfl hne
    | cons a as =>
      cases ha : a.isAlpha with
      | true =>
        have hh := (alpha_not_sep ha).1
        refine ⟨a, replaceChar '-' '_' as, ?_, .inl ha⟩
        simp [startsNonAlpha, ha, replaceChar, hh]
      | false =>
        refine ⟨'_', replaceChar '-' '_' (a :: as), ?_, .inr rfl⟩
        simp [startsNonAlpha, ha]
  cases c with
  | nameForm n =>
    simp only [OidCompOk, Bool.and_eq_true] at h
    exact name_case n (by intro h0; rw [h0] at h; simp at h)
  | nameAndNumberForm n k =>
    simp only [OidCompOk, Bool.and_eq_true] at h
    exact name_case n (by intro h0; rw [h0] at h; simp at h)
  | numberForm k => exact ⟨'_', _, rfl, .inr rfl⟩

/-- every component derived from an object identifier has the shape `[a-z_][a-z0-9_]*` -/
theorem oidCompPackage_shape {c : OidComp} (h : OidCompOk c = true) :
    LowerIdent (oidCompPackage c) = true := by
  have hall := oidCompPackage_chars h
  obtain ⟨x, r, hs, hx⟩ := oidCompSpelling_head h
  unfold oidCompPackage at hall ⊢
  rw [hs] at hall ⊢
  rcases hx with hx | rfl
  · obtain ⟨r', hr'⟩ := moduleA_cons_alpha false r hx
    rw [hr'] at hall ⊢
    simp only [LowerIdent, Bool.and_eq_true, List.all_eq_true]
    refine ⟨?_, fun d hd => hall d (List.mem_cons_of_mem _ hd)⟩
    have h0 := hall _ List.mem_cons_self
    have h1 : (if x.isUpper = true then x.toLower else x).isAlpha = true := by
      split
      · exact alpha_toLower hx
      · exact hx
    generalize (if x.isUpper = true then x.toLower else x) = y at h0 h1 ⊢
    unfold lowIdc at h0
    char_nat; omega
  · rw [moduleA_underscore_cons] at hall ⊢
    simp only [LowerIdent, Bool.and_eq_true, List.all_eq_true]
    exact ⟨by decide, fun d hd => hall d (List.mem_cons_of_mem _ hd)⟩

/-- any character of the argument that is not a capital, `-` or `_` is printed as it is -/
theorem moduleA_go_mem_other (pad : Bool) (n : Name) : ∀ (e u l a : Bool) (c : Char), c ∈ n →
    c.isUpper = false → c ≠ '-' → c ≠ '_' → c ∈ moduleA.go pad e u l a n := by
  induction n with
  | nil => intro e u l a c hc; simp at hc
  | cons x xs ih =>
    intro e u l a c hc hu hh hus
    unfold moduleA.go
    simp only [List.mem_append]
    right
    rcases List.mem_cons.mp hc with rfl | hc
    · simp [hu, hh, hus]
    · split
      · simp only [List.mem_append, List.mem_cons]
        exact .inr (.inr (ih _ _ _ _ c hc hu hh hus))
      · split
        · exact List.mem_cons_of_mem _ (ih _ _ _ _ c hc hu hh hus)
        · exact List.mem_cons_of_mem _ (ih _ _ _ _ c hc hu hh hus)

/-- sharpness of `OidCompOk` for the name forms: an empty name, or any character outside the
    alphabet, gives a component that is not an identifier -/
theorem oidCompPackage_name_ident_iff (n : Name) :
    ProtoIdent (oidCompPackage (.nameForm n)) = true ↔ OidCompOk (.nameForm n) = true := by
  constructor
  · intro h
    simp only [OidCompOk, Bool.and_eq_true]
    constructor
    · cases n with
      | nil => exact absurd h (by decide)
      | cons _ _ => rfl
    · rw [nameAlphabet_iff]
      intro c hc
      cases hn : nameChar c with
      | true => rfl
      | false =>
        exfalso
        have hcu : c.isUpper = false ∧ c ≠ '-' ∧ c ≠ '_' := by
          unfold nameChar at hn
          refine ⟨?_, ?_, ?_⟩
          · cases hu : c.isUpper with
            | false => rfl
            | true => rw [upper_alnum hu] at hn; simp at hn
          · rintro rfl; exact absurd hn (by decide)
          · rintro rfl; exact absurd hn (by decide)
        have h1 : c ∈ replaceChar '-' '_' n := (replaceChar_mem n c hc).2 hcu.2.1
        have h2 : c ∈ oidCompSpelling (.nameForm n) := by
          simp only [oidCompSpelling]
          split
          · exact List.mem_cons_of_mem _ h1
          · exact h1
        have h3 : c ∈ oidCompPackage (.nameForm n) :=
          moduleA_go_mem_other false _ _ _ _ _ c h2 hcu.1 hcu.2.1 hcu.2.2
        have h4 := protoIdent_chars h c h3
        unfold identCont at h4; unfold nameChar at hn
        simp only [Bool.or_eq_true] at h4
        rcases h4 with h4 | h4
        · rw [h4] at hn; simp at hn
        · rw [h4] at hn; simp at hn
  · intro h
    exact lowerIdent_ident (oidCompPackage_shape h)

theorem oidCompPackage_nameAndNumber (n : Name) (k : Nat) :
    oidCompPackage (.nameAndNumberForm n k) = oidCompPackage (.nameForm n) := rfl

/-! ### the file name -/

theorem proto_suffix (n : Name) : ".proto".toList <:+ modelFileName n :=
  List.suffix_append _ _

/-- a slash in the file name is a slash of the argument -/
theorem slash_mem_modelFileName (n : Name) : '/' ∈ modelFileName n ↔ '/' ∈ n := by
  unfold modelFileName modelName
  rw [List.mem_append]
  constructor
  · rintro (h | h)
    · rcases mem_modelName_go '_' n _ _ _ h with h1 | ⟨c, _, hu, h1⟩ | ⟨h1, _⟩
      · exact absurd h1 (by decide)
      · have := upper_toLower_lower hu
        rw [← h1] at this; exact absurd this (by decide)
      · exact h1
    · exact absurd h (by decide)
  · intro h
    exact .inl ((modelName_go_mem '_' n _ _ '/' h).2 (by decide) (by decide))

/-! ### exactly which names give a `fullIdent` -/

/-- where an output character of `rust_module_name` comes from -/
theorem mem_moduleA_go (pad : Bool) (n : Name) : ∀ (e u l a : Bool) (d : Char),
    d ∈ moduleA.go pad e u l a n →
    d = '_' ∨ (∃ c ∈ n, c.isUpper = true ∧ d = c.toLower) ∨ d ∈ n := by
  induction n with
  | nil => intro e u l a d hd; simp [moduleA.go] at hd
  | cons c cs ih =>
    intro e u l a d hd
    have lift : (d = '_' ∨ (∃ x ∈ cs, x.isUpper = true ∧ d = x.toLower) ∨ d ∈ cs) →
        d = '_' ∨ (∃ x ∈ c :: cs, x.isUpper = true ∧ d = x.toLower) ∨ d ∈ c :: cs := by
      rintro (h | ⟨x, hx, h⟩ | h)
      · exact .inl h
      · exact .inr (.inl ⟨x, List.mem_cons_of_mem _ hx, h⟩)
      · exact .inr (.inr (List.mem_cons_of_mem _ h))
    unfold moduleA.go at hd
    simp only [List.mem_append] at hd
    rcases hd with hd | hd
    · split at hd
      · simp only [List.mem_singleton] at hd; exact .inl hd
      · simp at hd
    · split at hd
      · next hup =>
        simp only [List.mem_append, List.mem_cons] at hd
        rcases hd with hd | hd | hd
        · split at hd
          · simp only [List.mem_singleton] at hd; exact .inl hd
          · simp at hd
        · exact .inr (.inl ⟨c, by simp, hup, hd⟩)
        · exact lift (ih _ _ _ _ d hd)
      · split at hd
        · rcases List.mem_cons.mp hd with hd | hd
          · exact .inl hd
          · exact lift (ih _ _ _ _ d hd)
        · rcases List.mem_cons.mp hd with hd | hd
          · exact .inr (.inr (by rw [hd]; simp))
          · exact lift (ih _ _ _ _ d hd)

theorem pathChar_false {c : Char} (h : pathChar c = false) :
    c.isUpper = false ∧ c ≠ '-' ∧ c ≠ '_' ∧ c ≠ '.' ∧ identCont c = false := by
  unfold pathChar nameChar at h
  refine ⟨?_, ?_, ?_, ?_, ?_⟩
  · cases hu : c.isUpper with
    | false => rfl
    | true => rw [upper_alnum hu] at h; simp at h
  · rintro rfl; exact absurd h (by decide)
  · rintro rfl; exact absurd h (by decide)
  · rintro rfl; exact absurd h (by decide)
  · unfold identCont
    simp only [Bool.or_eq_false_iff] at h ⊢
    exact ⟨h.1.1.1, h.1.2⟩

/-- `model_to_package(path, None)` is a `fullIdent` exactly when the argument is over the alphabet
    (dots included) and contains a letter or digit — no hypothesis on `path` -/
theorem package_fullIdent_iff (path : Name) :
    FullIdent (modelToPackage path none) = true ↔
      (∀ c ∈ path, pathChar c = true) ∧ hasAlnum path = true := by
  constructor
  · intro h
    have hchars : ∀ c ∈ path, pathChar c = true := by
      intro c hc
      cases hp : pathChar c with
      | true => rfl
      | false =>
        exfalso
        obtain ⟨hu, hh, hus, hdot, hid⟩ := pathChar_false hp
        have h1 : c ∈ replaceChar '_' '.' path := (replaceChar_mem path c hc).2 hus
        have h2 : c ∈ modelName (replaceChar '_' '.' path) '.' :=
          (modelName_go_mem '.' _ _ _ c h1).2 hu hh
        obtain ⟨w0, hw0, hcw⟩ := exists_mem_splitOn _ c h2 hdot
        have h3 : underscoreIfNonAlpha w0 ∈ pathComponents path := by
          unfold pathComponents
          refine List.mem_map.mpr ⟨w0, List.mem_filter.mpr ⟨hw0, ?_⟩, rfl⟩
          cases w0 with
          | nil => simp at hcw
          | cons _ _ => rfl
        have h4 : c ∈ modelToPackage path none :=
          mem_joinWith_of_mem _ _ h3 c (underscoreIfNonAlpha_mem w0 c hcw)
        rcases fullIdent_chars h c h4 with h5 | h5
        · exact hdot h5
        · rw [hid] at h5; exact absurd h5 (by simp)
    refine ⟨hchars, ?_⟩
    cases ha : hasAlnum path with
    | true => rfl
    | false =>
      have := (package_nil_iff path).mpr ((only_seps_iff hchars).mpr ha)
      rw [this, fullIdent_nil] at h; exact absurd h (by simp)
  · rintro ⟨hchars, ha⟩
    have hne : pathComponents path ≠ [] := by
      intro h0
      have := (only_seps_iff hchars).mp ((pathComponents_eq_nil_iff path).mp h0)
      rw [ha] at this; exact absurd this (by simp)
    exact fullIdent_joinWith_of_idents _ hne
      (fun w hw => pkgComponent_ident (pathComponents_shape path hchars w hw))

/-- `rust_module_name` neither removes a character outside the alphabet nor introduces one -/
theorem pathChar_moduleA_iff (n : Name) :
    (∀ d ∈ moduleA false n, pathChar d = true) ↔ ∀ c ∈ n, pathChar c = true := by
  constructor
  · intro h c hc
    cases hp : pathChar c with
    | true => rfl
    | false =>
      obtain ⟨hu, hh, hus, _, _⟩ := pathChar_false hp
      have := h c (moduleA_go_mem_other false n _ _ _ _ c hc hu hh hus)
      rw [hp] at this; exact absurd this (by simp)
  · intro h d hd
    rcases mem_moduleA_go false n _ _ _ _ d hd with rfl | ⟨c, _, hu, rfl⟩ | h1
    · decide
    · have := upper_toLower_lower hu
      unfold pathChar nameChar
      generalize c.toLower = y at this
      have : y.isAlphanum = true := by char_nat; omega
      simp [this]
    · exact h d h1

/-- the same for the pipeline: exactly which module names get a `package` line that is proto3 -/
theorem packageOfModule_fullIdent_iff (raw : Name) :
    FullIdent (packageOfModule raw none) = true ↔
      (∀ c ∈ makeNameNice raw, pathChar c = true) ∧ hasAlnum (makeNameNice raw) = true := by
  unfold packageOfModule
  rw [package_fullIdent_iff, pipelineName_hasAlnum]
  unfold pipelineName
  rw [pathChar_moduleA_iff]

/-! ### `make_name_nice` -/

theorem stripSuffix_cases (n s : Name) :
    (∃ t, n = t ++ s ∧ stripSuffix n s = t) ∨ stripSuffix n s = n := by
  unfold stripSuffix
  split
  · next h =>
    left
    obtain ⟨t, ht⟩ := List.isSuffixOf_iff_suffix.mp h
    refine ⟨t, ht.symm, ?_⟩
    subst ht
    simp
  · exact .inr rfl

/-- the names `make_name_nice` erases completely -/
theorem makeNameNice_eq_nil {n : Name} (h : makeNameNice n = []) :
    n = [] ∨ n = "Module".toList ∨ n = "_Module".toList ∨ n = "Module_Module".toList := by
  unfold makeNameNice at h
  rcases stripSuffix_cases (stripSuffix n "_Module".toList) "Module".toList with
    ⟨t, h1, h2⟩ | h2
  · rw [h2] at h; subst h
    rcases stripSuffix_cases n "_Module".toList with ⟨t, h3, h4⟩ | h4
    · rw [h4] at h1; subst h1; exact .inr (.inr (.inr h3))
    · rw [h4] at h1; exact .inr (.inl h1)
  · rw [h2] at h
    rcases stripSuffix_cases n "_Module".toList with ⟨t, h3, h4⟩ | h4
    · rw [h4] at h; subst h; exact .inr (.inr (.inl h3))
    · rw [h4] at h; exact .inl h

/-- an X.680 module reference whose nice name has no letter or digit is `Module` -/
theorem asn_nice_no_alnum_iff {n : Name} (h : AsnIdent n = true) :
    hasAlnum (makeNameNice n) = false ↔ n = "Module".toList := by
  constructor
  · intro ha
    have hnil : makeNameNice n = [] := by
      cases n with
      | nil => simp [AsnIdent] at h
      | cons c cs =>
        simp only [AsnIdent, Bool.and_eq_true] at h
        have hc : c.isAlphanum = true := by unfold Char.isAlphanum; simp [h.1.1]
        obtain ⟨k1, h1⟩ := stripSuffix_take (c :: cs) "_Module".toList
        obtain ⟨k2, h2⟩ := stripSuffix_take (stripSuffix (c :: cs) "_Module".toList) "Module".toList
        unfold makeNameNice at ha ⊢
        rw [h2, h1] at ha ⊢
        cases k1 with
        | zero => simp
        | succ k1 =>
          cases k2 with
          | zero => simp
          | succ k2 =>
            simp only [List.take_succ_cons, hasAlnum, List.any_cons, hc, Bool.true_or] at ha
            exact absurd ha (by simp)
    rcases makeNameNice_eq_nil hnil with rfl | h1 | rfl | rfl
    · exact absurd h (by decide)
    · exact h1
    · exact absurd h (by decide)
    · exact absurd h (by decide)
  · rintro rfl; decide

/-! ### the alphabet is within what the tokenizer delivers -/

theorem nameChar_tokenChar {c : Char} (h : nameChar c = true) : tokenChar c = true := by
  unfold nameChar at h
  have hr : (65 ≤ c.toNat ∧ c.toNat ≤ 90) ∨ (97 ≤ c.toNat ∧ c.toNat ≤ 122) ∨
      (48 ≤ c.toNat ∧ c.toNat ≤ 57) ∨ c.toNat = 45 ∨ c.toNat = 95 := by
    char_nat; omega
  have hne : ∀ s : Char, c.toNat ≠ s.toNat → (c == s) = false := by
    intro s hs
    simp only [beq_eq_false_iff_ne, ne_eq]
    intro hcs; exact hs (by rw [hcs])
  unfold tokenChar separators
  simp only [List.contains_cons, List.contains_nil, Bool.or_false, Bool.and_eq_true,
    decide_eq_true_eq, Bool.not_eq_true', Bool.or_eq_false_iff]
  refine ⟨⟨by omega, by omega⟩, ?_⟩
  refine ⟨hne _ ?_, hne _ ?_, hne _ ?_, hne _ ?_, hne _ ?_, hne _ ?_, hne _ ?_, hne _ ?_,
    hne _ ?_, hne _ ?_, hne _ ?_, hne _ ?_, hne _ ?_⟩ <;>
  · simp only [Char.reduceToNat]; omega

theorem nameAlphabet_tokenText {n : Name} (h : NameAlphabet n = true) (hne : n ≠ [])
    (hc : noCommentStart n = true) : TokenText n = true := by
  unfold TokenText
  simp only [Bool.and_eq_true, hc, and_true]
  refine ⟨?_, List.all_eq_true.mpr fun c hcn => nameChar_tokenChar ((nameAlphabet_iff n).mp h c hcn)⟩
  cases n with
  | nil => exact absurd rfl hne
  | cons _ _ => rfl

/-! ### number components, slashes in the pipeline -/

/-- without padding, `rust_module_name` leaves a text without capitals, `-`, `_` as it is -/
theorem moduleA_go_false_id (n : Name)
    (h : ∀ d ∈ n, d.isUpper = false ∧ d ≠ '-' ∧ d ≠ '_') :
    ∀ (e u l a : Bool), moduleA.go false e u l a n = n := by
  induction n with
  | nil => intro e u l a; simp [moduleA.go]
  | cons c cs ih =>
    intro e u l a
    obtain ⟨h1, h2, h3⟩ := h c (by simp)
    unfold moduleA.go
    simp only [padNow, Bool.false_and, Bool.false_eq_true, if_false, List.nil_append, h1, h2, h3,
      or_self]
    rw [ih (fun d hd => h d (by simp [hd]))]

/-- `NumberForm(k)` is printed as `_k` -/
theorem oidCompPackage_number (k : Nat) :
    oidCompPackage (.numberForm k) = '_' :: Nat.toDigits 10 k := by
  unfold oidCompPackage oidCompSpelling
  rw [moduleA_underscore_cons, moduleA_go_false_id]
  intro d hd
  have := Nat.isDigit_of_mem_toDigits (by decide) (by decide) hd
  char_nat; omega

theorem slash_mem_moduleA (n : Name) : '/' ∈ moduleA false n ↔ '/' ∈ n := by
  constructor
  · intro h
    rcases mem_moduleA_go false n _ _ _ _ _ h with h1 | ⟨c, _, hu, h1⟩ | h1
    · exact absurd h1 (by decide)
    · have := upper_toLower_lower hu
      rw [← h1] at this; exact absurd this (by decide)
    · exact h1
  · intro h
    exact moduleA_go_mem_other false n _ _ _ _ '/' h (by decide) (by decide) (by decide)

theorem fileNameOfModule_eq (raw : Name) :
    fileNameOfModule raw = emitModule raw ++ ".proto".toList := by
  unfold fileNameOfModule modelFileName
  rw [modelName_pipelineName, emitModule_eq]; rfl

end Asn1Verif.Proto.Package
