import Asn1Verif.Proto.Wire
import Asn1Verif.Uper.Types
import Asn1Verif.Uper.Impl
/-
  Protobuf layer — mirror of `src/rw/proto_write.rs` (`ProtobufWriter`, both back ends) and
  `src/rw/proto_read.rs` (`ProtobufReader`) on the universe `Ty`/`Val` of `Uper/Types.lean`, and of
  `ProtobufEq` (`src/protocol/protobuf/peq.rs` + `asn1rs-macros/src/derive_protobuf_eq.rs`).

  What the generator emits: every top-level type is a SEQUENCE/SET (`Ty.seq`; a transparent wrapper
  `X ::= T` is a SEQUENCE with the single component `T`), a CHOICE (`Ty.choice`) or an ENUMERATED
  (`Ty.enum`).  `encode`/`decode` are defined for these three root kinds.

  The writer is modelled as the list of `write_tagged_*` calls it makes (`Item` = field number + a
  varint value or length-delimited content; `encI`, grouped per component by `encFieldsI`), the
  octets are their serialisation (`itemsBytes`); nested messages sit inside the content of their
  field.  C18 speaks about these calls, C17 about what the reader makes of their octets.

  Writer facts reproduced (checked against the code, not only the reading notes):
    * `tag_counter` starts at 0 in every message; a written component uses `tag_counter + 1` and
      stores it; an absent OPTIONAL adds 1; a SEQUENCE OF writes every element with the *same*
      counter (the state is restored after each element) and adds 1 afterwards, so a SEQUENCE OF
      directly inside a SEQUENCE OF is flattened; NULL writes nothing and does NOT count;
    * a nested SEQUENCE/SET/CHOICE is buffered in a fresh `Vec` and written as tag, length, content;
      the root value is not length-prefixed; a root ENUMERATED is a bare varint;
    * the content of a CHOICE is the selected alternative written with `tag_counter = index`;
    * DEFAULT components are always written; integers: `MIN.unwrap_or(0) >= 0` selects uint32
      (`!EXTENSIBLE && MAX <= u32::MAX`, value `as u32`) or uint64, otherwise sint32
      (`!EXTENSIBLE` and root inside `i32`, value `as i32`) or sint64 — `MIN`/`MAX` bound the
      extension root only, an extensible INTEGER always takes the 64-bit encoding (the type the
      converter selects for it and the generated schema declares);
    * BIT STRING = the octets followed by the bit length as eight big-endian octets.
  Reader facts: a message is indexed into `(tag, format, start..end)` triples from untrusted lengths
  without any bound check (`index_enclosed`); a component takes the FIRST entry with the expected
  number (and wire type, where it filters) and removes it; absent scalars read as zero/empty/false;
  slices `&self.source[range]` panic when the range is out of bounds; `content_position +
  content_length` panics on overflow (dev profile); `BitVec::from_vec_with_trailing_bit_len` panics
  below eight octets; a SEQUENCE OF read in the `Root` state (element of another SEQUENCE OF) never
  terminates — rendered as `panic` here (the process dies by allocation failure).

  `fx : Option Fix` selects the code that is modelled: `none` is the code as it is, `some f` is the
  code with the proposed repairs (bound checks in `index_enclosed`, length check in the BIT STRING
  reader, no loop in the `Root` state), whose new checks fail with the error class `f.k`; with
  `f.emptyBitsDefault` an absent mandatory BIT STRING reads as the empty bit string (as the other
  absent scalars do), without it every BIT STRING content below eight octets is refused — that
  variant fails exactly where the present code unwinds and serves as the guard of
  `proto_reader_total_partial`.
-/
namespace Asn1Verif.Proto
open Asn1Verif Outcome
open Asn1Verif.Uper (Ty Val Vals Fields Kind utf8Decode castInt)

/-- which repaired reader is modelled (see the header) -/
structure Fix where
  k : ErrKind
  emptyBitsDefault : Bool

/-! ### integers -/

/-- which of the four integer encodings `write_number` / `read_number` select -/
inductive IntClass where
  | u32 | u64 | s32 | s64
  deriving DecidableEq, Repr

/-- `write_number` / `read_number`: the sign from `MIN`, the width from `EXTENSIBLE` and the root
    (`if MIN.unwrap_or(0) >= 0 { if !EXTENSIBLE && MAX.unwrap_or(i64::MAX) <= u32::MAX {..} else {..} }
    else if !EXTENSIBLE && MIN.unwrap_or(i64::MIN) >= i32::MIN && MAX.unwrap_or(i64::MAX) <= i32::MAX
    {..} else {..}`) -/
def intClass (min max : Option Int) (ext : Bool) : IntClass :=
  if min.getD 0 ≥ 0 then
    if ext = false ∧ max.getD I64_MAX ≤ 4294967295 then .u32 else .u64
  else if ext = false ∧ min.getD I64_MIN ≥ -2147483648 ∧ max.getD I64_MAX ≤ 2147483647 then .s32
  else .s64

/-- the `u64` handed to `write_varint` (`value.to_i64() as u32 / as u64 / as i32 / -`) -/
def intToVarint (c : IntClass) (v : Int) : Nat :=
  match c with
  | .u32 => (v % 2 ^ 32).toNat
  | .u64 => (v % 2 ^ 64).toNat
  | .s32 => sint32ToVarint (BitVec.ofInt 32 v)
  | .s64 => sint64ToVarint (BitVec.ofInt 64 v)

/-- the `i64` handed to `T::from_i64` -/
def varintToInt (c : IntClass) (n : Nat) : Int :=
  match c with
  | .u32 => ((n % 2 ^ 32 : Nat) : Int)
  | .u64 => u64AsI64 (n % 2 ^ 64)
  | .s32 => (varintToSint32 n).toInt
  | .s64 => (varintToSint64 n).toInt

/-! ### writer -/

/-- one `write_tagged_*` call of the writer: a field of the current message -/
inductive Item where
  /-- `write_tagged_varint` / `uint32` / `uint64` / `sint32` / `sint64` / `bool` / `enum_variant` -/
  | varint (num : Nat) (value : Nat)
  /-- `write_tagged_bytes` / `write_tagged_string` / a buffered nested message or CHOICE -/
  | bytes (num : Nat) (payload : List Byte)
  deriving Repr, DecidableEq

def Item.num : Item → Nat
  | .varint n _ => n
  | .bytes n _ => n

def Item.fmt : Item → Fmt
  | .varint _ _ => .varint
  | .bytes _ _ => .lenDelim

/-- the content octets (what the reader's index entry will point at) -/
def Item.payload : Item → List Byte
  | .varint _ v => writeVarint v
  | .bytes _ p => p

/-- tag, then the value; length-delimited: tag, length, content -/
def Item.encode : Item → List Byte
  | .varint n v => writeTag n .varint ++ writeVarint v
  | .bytes n p => writeTag n .lenDelim ++ writeBytes p

def itemsBytes : List Item → List Byte
  | [] => []
  | it :: rest => it.encode ++ itemsBytes rest

/-- elements of a SEQUENCE OF, each written by `f` (which restarts from the same counter) -/
def encListWith (f : Val → Outcome (List Item)) : Vals → Outcome (List Item)
  | .nil => ok []
  | .cons v vs => do
    let a ← f v
    let b ← encListWith f vs
    ok (a ++ b)

mutual
/-- a component that is not the root value: the fields appended to the current buffer and the new
    `tag_counter`, given the current one -/
def encI : Ty → Val → Nat → Outcome (List Item × Nat)
  | .bool, v, c =>
    match v with
    | .bool b => ok ([.varint (c + 1) (if b then 1 else 0)], c + 1)
    | _ => err .illTyped
  | .null, v, c =>
    match v with
    | .null => ok ([], c)
    | _ => err .illTyped
  | .int min max ext width signed, v, c =>
    match v with
    | .int i =>
      if castInt width signed i ≠ i then err .illTyped
      else ok ([.varint (c + 1) (intToVarint (intClass min max ext) i)], c + 1)
    | _ => err .illTyped
  | .enum _ total _, v, c =>
    match v with
    | .enum i => if i < total then ok ([.varint (c + 1) (i % 2 ^ 32)], c + 1) else err .illTyped
    | _ => err .illTyped
  | .str _ _ _ _, v, c =>
    match v with
    | .str bytes =>
      match utf8Decode bytes with
      | some _ => ok ([.bytes (c + 1) bytes], c + 1)
      | none => err .illTyped
    | _ => err .illTyped
  | .oct _ _ _, v, c =>
    match v with
    | .oct bytes => ok ([.bytes (c + 1) bytes], c + 1)
    | _ => err .illTyped
  | .bits _ _ _, v, c =>
    match v with
    | .bits bs => ok ([.bytes (c + 1) (packBits bs ++ be64 bs.length)], c + 1)
    | _ => err .illTyped
  | .seqOf _ _ _ elem, v, c =>
    match v with
    | .list vs => do
      let body ← encListWith (fun x => Prod.fst <$> encI elem x c) vs
      ok (body, c + 1)
    | _ => err .illTyped
  | .seq _ _ _ fields, v, c =>
    match v with
    | .seq vs => do
      let (content, _) ← encFieldsI fields vs 0
      ok ([.bytes (c + 1) (itemsBytes content.flatten)], c + 1)
    | _ => err .illTyped
  | .choice _ _ _ alts, v, c =>
    match v with
    | .choice i x => do
      let content ← encAltI alts i i x
      ok ([.bytes (c + 1) (itemsBytes content)], c + 1)
    | _ => err .illTyped

/-- content of a CHOICE: alternative number `idx` (found by counting `i` down) written with
    `tag_counter = idx` -/
def encAltI : Fields → Nat → Nat → Val → Outcome (List Item)
  | .nil, _, _, _ => err .illTyped
  | .cons _ t _, 0, idx, v => Prod.fst <$> encI t v idx
  | .cons _ _ rest, i + 1, idx, v => encAltI rest i idx v

/-- components of one message in order: the fields each component wrote, and the final counter -/
def encFieldsI : Fields → Vals → Nat → Outcome (List (List Item) × Nat)
  | .nil, vs, c =>
    match vs with
    | .nil => ok ([], c)
    | _ => err .illTyped
  | .cons k t rest, vs, c =>
    match vs with
    | .nil => err .illTyped
    | .cons v vs =>
      let one : Outcome (List Item × Nat) :=
        match k, v with
        | .o, .none => ok ([], c + 1)
        | .o, .some x => encI t x c
        | .o, _ => err .illTyped
        | _, v => encI t v c
      match one with
      | .ok (a, c') =>
        match encFieldsI rest vs c' with
        | .ok (b, c'') => ok (a :: b, c'')
        | .err e => err e
        | .panic => panic
      | .err e => err e
      | .panic => panic
end

/-- octets a non-root component appends, and the new counter -/
def enc (t : Ty) (v : Val) (c : Nat) : Outcome (List Byte × Nat) :=
  (fun r => (itemsBytes r.1, r.2)) <$> encI t v c

/-- the fields of the root value (`is_root`: not length-prefixed) -/
def encodeI (t : Ty) (v : Val) : Outcome (List Item) :=
  match t, v with
  | .seq _ _ _ fields, .seq vs => (fun r => r.1.flatten) <$> encFieldsI fields vs 0
  | .choice _ _ _ alts, .choice i x => encAltI alts i i x
  | _, _ => err .illTyped

/-- `ProtobufWriter::default().write(&v)` for a generated top-level type (growable back end);
    a root ENUMERATED is a bare varint -/
def encode (t : Ty) (v : Val) : Outcome (List Byte) :=
  match t, v with
  | .enum _ total _, .enum i => if i < total then ok (writeVarint (i % 2 ^ 32)) else err .illTyped
  | t, v => itemsBytes <$> encodeI t v

/-! ### the two back ends (`SliceOrVec`) -/

/-- the root buffer: `cap = none` is the growable `Vec`, `cap = some n` a `&mut [u8]` of `n` octets.
    Nested messages are always collected in fresh `Vec`s (`core::mem::take(&mut self.buffer)`). -/
structure Sink where
  cap : Option Nat
  data : List Byte

/-- `write_all`: an `io::ErrorKind::WriteZero` error once the slice is full -/
def Sink.write (s : Sink) (bs : List Byte) : Outcome Sink :=
  match s.cap with
  | none => ok { s with data := s.data ++ bs }
  | some n =>
    if s.data.length + bs.length ≤ n then ok { s with data := s.data ++ bs }
    else err .insufficientSpace

/-- the fields of the root value written one after the other into the root buffer -/
def Sink.writeItems (s : Sink) : List Item → Outcome Sink
  | [] => ok s
  | it :: rest =>
    match s.write it.encode with
    | .ok s' => s'.writeItems rest
    | .err e => err e
    | .panic => panic

/-- `ProtobufWriter::from(slice)` / `ProtobufWriter::default()`, then `.write(&v)`; the result is
    `as_bytes()`.  Only the root buffer can be a slice: every nested message is complete (in its own
    `Vec`) before its tag, length and content reach the root buffer. -/
def encodeTo (s : Sink) (t : Ty) (v : Val) : Outcome (List Byte) :=
  match t, v with
  | .enum _ total _, .enum i =>
    if i < total then (fun s' => s'.data) <$> s.write (writeVarint (i % 2 ^ 32)) else err .illTyped
  | t, v => do
    let l ← encodeI t v
    let s' ← s.writeItems l
    ok s'.data

/-! ### reader -/

/-- one indexed field of a message: number, wire type, byte range of its content in the source -/
structure Entry where
  tag : Nat
  fmt : Fmt
  start : Nat
  stop : Nat
  deriving DecidableEq, Repr

/-- `State` -/
inductive RState where
  | root (start stop : Nat)
  | enclosed (counter : Nat) (tags : List Entry)
  deriving Repr

/-- `&self.source[a..b]` -/
def sliceOf (src : List Byte) (a b : Nat) : Outcome (List Byte) :=
  if a ≤ b ∧ b ≤ src.length then ok ((src.drop a).take (b - a)) else panic

/-- `content_position + content_length`: unchecked in the present code (overflow of `usize` unwinds
    in a dev build); the repaired code uses `checked_add` and compares with the end of the range -/
def contentEndOf (fx : Option Fix) (contentPosition len stop : Nat) : Outcome Nat :=
  match fx with
  | none => uAdd contentPosition len
  | some f => if contentPosition + len ≤ stop then ok (contentPosition + len) else err f.k

/-- the `while position < range.end` loop of `index_enclosed` (`fuel` makes it structural; every
    round advances by at least the tag octet) -/
def indexLoop (fx : Option Fix) (src : List Byte) (stop : Nat) :
    Nat → Nat → List Entry → Outcome (List Entry)
  | 0, _, acc => ok acc
  | fuel + 1, position, acc =>
    if position < stop then do
      let slice ← sliceOf src position stop
      let ((tag, fmt), r1) ← readTag slice
      let contentPosition := position + (slice.length - r1.length)
      let (off, len) ← contentOffLen r1 fmt
      let contentPosition := contentPosition + off
      let contentEnd ← contentEndOf fx contentPosition len stop
      indexLoop fx src stop fuel contentEnd (acc ++ [⟨tag, fmt, contentPosition, contentEnd⟩])
    else ok acc

/-- `index_enclosed(range)` -/
def indexEnclosed (fx : Option Fix) (src : List Byte) (a b : Nat) : Outcome (List Entry) :=
  indexLoop fx src b (b - a + 1) a []

/-- first entry with number `next` (and wire type `filter`), removed from the list -/
def findEntry (next : Nat) (filter : Option Fmt) : List Entry → Option (Entry × List Entry)
  | [] => none
  | e :: es =>
    if e.tag = next ∧ (filter = none ∨ filter = some e.fmt) then some (e, es)
    else
      match findEntry next filter es with
      | some (x, r) => some (x, e :: r)
      | none => none

/-- `next_tag_range_format_opt::<INCREMENT>(filter)` -/
def nextTagRange (inc : Bool) (filter : Option Fmt) : RState → Option (Nat × Nat) × RState
  | .root a b => (some (a, b), .root a b)
  | .enclosed c tags =>
    let c' := if inc then c + 1 else c
    match findEntry c filter tags with
    | some (e, rest) => (some (e.start, e.stop), .enclosed c' rest)
    | none => (none, .enclosed c' tags)

/-- `hast_next_tag` -/
def hasNextTag : RState → Bool
  | .root _ _ => true
  | .enclosed c tags => tags.any (fun e => e.tag = c)

/-- `increment_tag_counter` -/
def RState.bump : RState → RState
  | .root a b => .root a b
  | .enclosed c tags => .enclosed (c + 1) tags

/-- `next_range_format_reader(format)`: the content octets of the next component (empty if absent) -/
def nextReader (src : List Byte) (f : Fmt) (st : RState) : Outcome (List Byte × RState) :=
  let (r, st') := nextTagRange true (some f) st
  let (a, b) := r.getD (0, 0)
  do
    let s ← sliceOf src a b
    ok (s, st')

/-- the value the harness shows for a `BitVec(octets, bit_len)`: the first `bit_len` bits; the reader
    does not compare the bit length with the octets — an inconsistent pair is shown as
    `(seq (oct octets) (int bit_len))` -/
def bitsVal (octets : List Byte) (bitLen : Nat) : Val :=
  if bitLen ≤ 8 * octets.length then .bits ((unpackBits octets).take bitLen)
  else .seq (.cons (.oct octets) (.cons (.int bitLen) .nil))

/-- the `while let Some(range) = self.next_tag_range::<false>()` loop of `read_set_or_sequence_of`
    in the `Enclosed` state: every round removes one entry and reads it in a `Root` state -/
def decListWith (f : RState → Outcome (Val × RState)) : Nat → RState → Outcome (Vals × RState)
  | 0, st => ok (.nil, st)
  | fuel + 1, st =>
    match nextTagRange false none st with
    | (some (a, b), st1) => do
      let (v, _) ← f (.root a b)
      let (vs, st2) ← decListWith f fuel st1
      ok (.cons v vs, st2)
    | (none, st1) => ok (.nil, st1)

mutual
def dec (fx : Option Fix) (src : List Byte) : Ty → RState → Outcome (Val × RState)
  | .bool, st => do
    let (r, st) ← nextReader src .varint st
    if r.isEmpty then ok (.bool false, st)
    else do
      let (b, _) ← readBool r
      ok (.bool b, st)
  | .null, st => ok (.null, st)
  | .int min max ext width signed, st => do
    let (r, st) ← nextReader src .varint st
    if r.isEmpty then ok (.int (castInt width signed 0), st)
    else do
      let (n, _) ← readVarint r
      ok (.int (castInt width signed (varintToInt (intClass min max ext) n)), st)
  | .enum _ total _, st =>
    match nextTagRange true (some .varint) st with
    | (r, st) => do
      let index ← (match r with
        | some (a, b) => do
          let s ← sliceOf src a b
          let (n, _) ← readVarint s
          ok n
        | none => ok 0 : Outcome Nat)
      if index < total then ok (.enum index, st) else err .invalidChoiceIndex
  | .str _ _ _ _, st => do
    let (r, st) ← nextReader src .lenDelim st
    match utf8Decode r with
    | some _ => ok (.str r, st)
    | none => err .utf8
  | .oct _ _ _, st => do
    let (r, st) ← nextReader src .lenDelim st
    ok (.oct r, st)
  | .bits _ _ _, st => do
    let (r, st) ← nextReader src .lenDelim st
    if r.length < 8 then
      -- `bytes.len() - U64_SIZE` underflows
      match fx with
      | none => panic
      | some f => if f.emptyBitsDefault && r.isEmpty then ok (.bits [], st) else err f.k
    else
      ok (bitsVal (r.take (r.length - 8)) (beToNat (r.drop (r.length - 8))), st)
  | .seqOf _ _ _ elem, st =>
    match st with
    | .root a b =>
      match fx with
      | some f => err f.k          -- repaired: refused before anything is read
      | none =>
        -- the range never changes: either the element read fails at once or the loop never ends
        match dec fx src elem (.root a b) with
        | .ok _ => panic
        | .err e => err e
        | .panic => panic
    | .enclosed c tags => do
      let (vs, st') ← decListWith (fun s => dec fx src elem s) (tags.length + 1) (.enclosed c tags)
      ok (.list vs, st'.bump)
  | .seq _ _ _ fields, st =>
    match nextTagRange true (some .lenDelim) st with
    | (r, st1) =>
      match r.getD (0, 0) with
      | (a, b) => do
        let tags ← indexEnclosed fx src a b
        let (vs, _) ← decFields fx src fields (.enclosed 1 tags)
        ok (.seq vs, st1)
  | .choice _ _ _ alts, st =>
    match nextTagRange true none st with
    | (none, _) => err .other
    | (some (a, b), st1) => do
      let s ← sliceOf src a b
      let ((tag, fmt), r1) ← readTag s
      let r2 ← (if fmt = .lenDelim then do
          let (_, r) ← readVarint r1
          ok r
        else ok r1 : Outcome (List Byte))
      let read := s.length - r2.length
      let idx := tag - 1
      let v ← decAlt fx src alts idx (.enclosed 1 [⟨1, fmt, a + read, b⟩])
      ok (.choice idx v, st1)

/-- `C::read_content(index, reader)`; an unknown index is `Ok(None)` → `UnexpectedTag` -/
def decAlt (fx : Option Fix) (src : List Byte) : Fields → Nat → RState → Outcome Val
  | .nil, _, _ => err .invalidChoiceIndex
  | .cons _ t _, 0, st => Prod.fst <$> dec fx src t st
  | .cons _ _ rest, i + 1, st => decAlt fx src rest i st

def decFields (fx : Option Fix) (src : List Byte) : Fields → RState → Outcome (Vals × RState)
  | .nil, st => ok (.nil, st)
  | .cons k t rest, st =>
    let one : Outcome (Val × RState) :=
      match k with
      | .o =>
        if hasNextTag st then
          match dec fx src t st with
          | .ok (x, s) => ok (.some x, s)
          | .err e => err e
          | .panic => panic
        else ok (.none, st.bump)
      | _ => dec fx src t st
    match one with
    | .ok (v, st1) =>
      match decFields fx src rest st1 with
      | .ok (vs, st2) => ok (.cons v vs, st2)
      | .err e => err e
      | .panic => panic
    | .err e => err e
    | .panic => panic
end

/-- `ProtobufReader::from(bytes).read::<T>()` -/
def decode (fx : Option Fix) (t : Ty) (src : List Byte) : Outcome Val :=
  Prod.fst <$> dec fx src t (.root 0 src.length)

/-! ### `ProtobufEq` -/

mutual
/-- `T::default()` of the generated Rust type (`#[derive(Default)]`; enums and CHOICEs: the first
    variant; a DEFAULT component has the default of its Rust type, not its ASN.1 default) -/
def Ty.protoDefault : Ty → Val
  | .bool => .bool false
  | .null => .null
  | .int _ _ _ _ _ => .int 0
  | .enum _ _ _ => .enum 0
  | .str _ _ _ _ => .str []
  | .oct _ _ _ => .oct []
  | .bits _ _ _ => .bits []
  | .seqOf _ _ _ _ => .list .nil
  | .seq _ _ _ fields => .seq (Fields.protoDefault fields)
  | .choice _ _ _ alts =>
    match alts with
    | .nil => .null
    | .cons _ t _ => .choice 0 (Ty.protoDefault t)
def Fields.protoDefault : Fields → Vals
  | .nil => .nil
  | .cons k t rest =>
    .cons (match k with
      | .o => Val.none
      | _ => Ty.protoDefault t) (Fields.protoDefault rest)
end

/-- element-wise comparison of two lists with the element relation -/
def protoEqListWith (f : Val → Val → Bool) : Vals → Vals → Bool
  | .nil, .nil => true
  | .cons a as, .cons b bs => f a b && protoEqListWith f as bs
  | _, _ => false

mutual
/-- `a.protobuf_eq(&b)`: the derived implementation compares component-wise; `Option`: both present
    → `protobuf_eq`, one absent → the other must *equal* (`PartialEq`) `T::default()` -/
def Val.protoEq : Ty → Val → Val → Bool
  | .seqOf _ _ _ elem, a, b =>
    match a, b with
    | .list as, .list bs => protoEqListWith (fun x y => Val.protoEq elem x y) as bs
    | _, _ => false
  | .seq _ _ _ fields, a, b =>
    match a, b with
    | .seq as, .seq bs => Vals.protoEq fields as bs
    | _, _ => false
  | .choice _ _ _ alts, a, b =>
    match a, b with
    | .choice i x, .choice j y => i == j && Val.protoEqAlt alts i x y
    | _, _ => false
  | _, a, b => a == b
def Val.protoEqAlt : Fields → Nat → Val → Val → Bool
  | .nil, _, _, _ => false
  | .cons _ t _, 0, x, y => Val.protoEq t x y
  | .cons _ _ rest, i + 1, x, y => Val.protoEqAlt rest i x y
def Vals.protoEq : Fields → Vals → Vals → Bool
  | .nil, .nil, .nil => true
  | .cons k t rest, .cons a as, .cons b bs =>
    (match k with
     | .o =>
       match a, b with
       | .some x, .some y => Val.protoEq t x y
       | .some x, .none => x == Ty.protoDefault t
       | .none, .some y => Ty.protoDefault t == y
       | .none, .none => true
       | _, _ => false
     | _ => Val.protoEq t a b) && Vals.protoEq rest as bs
  | _, _, _ => false
end

end Asn1Verif.Proto
