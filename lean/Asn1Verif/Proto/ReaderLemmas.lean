import Asn1Verif.Proto.CodecLemmas
/- The protobuf reader on untrusted input (protobuf part of C04): the repaired reader never unwinds;
   the present reader does not unwind wherever the repaired one does not hit one of its new checks. -/
namespace Asn1Verif.Proto
open Asn1Verif Outcome
open Asn1Verif.Uper (Ty Val Vals Fields Kind utf8Decode castInt)

/-! ### the repaired reader never unwinds -/

def Entry.InB (src : List Byte) (e : Entry) : Prop := e.start ≤ e.stop ∧ e.stop ≤ src.length

/-- every range the state holds lies inside the source -/
def RState.InB (src : List Byte) : RState → Prop
  | .root a b => a ≤ b ∧ b ≤ src.length
  | .enclosed _ tags => ∀ e ∈ tags, e.InB src

/-- the result of a reading step: no unwinding, and a state whose ranges are still inside -/
def GoodR {α : Type} (src : List Byte) : Outcome (α × RState) → Prop
  | .panic => False
  | .err _ => True
  | .ok (_, st) => st.InB src

theorem sliceOf_inb {src : List Byte} {a b : Nat} (h : a ≤ b ∧ b ≤ src.length) :
    sliceOf src a b = ok ((src.drop a).take (b - a)) := by
  simp [sliceOf, h]

theorem sliceOf_length {src : List Byte} {a b : Nat} {s : List Byte} (h : sliceOf src a b = ok s) :
    s.length = b - a ∧ a ≤ b ∧ b ≤ src.length := by
  simp only [sliceOf] at h
  split at h
  · rename_i hc
    simp only [ok.injEq] at h
    subst h
    simp only [List.length_take, List.length_drop]
    omega
  · simp at h

theorem findEntry_mem {next : Nat} {filter : Option Fmt} :
    ∀ {tags : List Entry} {e : Entry} {rest : List Entry},
    findEntry next filter tags = some (e, rest) → e ∈ tags ∧ ∀ x ∈ rest, x ∈ tags := by
  intro tags
  induction tags with
  | nil => intro e rest h; simp [findEntry] at h
  | cons t ts ih =>
    intro e rest h
    simp only [findEntry] at h
    split at h
    · simp only [Option.some.injEq, Prod.mk.injEq] at h
      obtain ⟨rfl, rfl⟩ := h
      exact ⟨by simp, fun x hx => by simp [hx]⟩
    · split at h
      · rename_i x r hf
        simp only [Option.some.injEq, Prod.mk.injEq] at h
        obtain ⟨rfl, rfl⟩ := h
        obtain ⟨h1, h2⟩ := ih hf
        refine ⟨by simp [h1], ?_⟩
        intro y hy
        rcases List.mem_cons.1 hy with rfl | hy
        · simp
        · simp [h2 y hy]
      · simp at h

/-- the range handed out lies inside, and so does what stays behind -/
theorem nextTagRange_inb {src : List Byte} (inc : Bool) (filter : Option Fmt) (st : RState)
    (h : st.InB src) :
    (nextTagRange inc filter st).2.InB src ∧
    ∀ a b, (nextTagRange inc filter st).1 = some (a, b) → a ≤ b ∧ b ≤ src.length := by
  cases st with
  | root a b =>
    simp only [nextTagRange]
    exact ⟨h, fun a' b' he => by simp only [Option.some.injEq, Prod.mk.injEq] at he; obtain ⟨rfl, rfl⟩ := he; exact h⟩
  | enclosed c tags =>
    simp only [nextTagRange]
    split
    · rename_i e rest hf
      obtain ⟨h1, h2⟩ := findEntry_mem hf
      refine ⟨fun x hx => h x (h2 x hx), ?_⟩
      intro a b he
      simp only [Option.some.injEq, Prod.mk.injEq] at he
      obtain ⟨rfl, rfl⟩ := he
      exact h e h1
    · exact ⟨h, fun a b he => by simp at he⟩

theorem nextReader_good {src : List Byte} (f : Fmt) (st : RState) (h : st.InB src) :
    ∃ s st', nextReader src f st = ok (s, st') ∧ st'.InB src := by
  obtain ⟨h1, h2⟩ := nextTagRange_inb (src := src) true (some f) st h
  simp only [nextReader]
  generalize nextTagRange true (some f) st = x at h1 h2
  obtain ⟨r, st1⟩ := x
  simp only at h1 h2 ⊢
  cases r with
  | none =>
    simp only [Option.getD]
    rw [sliceOf_inb (by simp)]
    exact ⟨_, _, rfl, h1⟩
  | some ab =>
    obtain ⟨a, b⟩ := ab
    simp only [Option.getD]
    rw [sliceOf_inb (h2 a b rfl)]
    exact ⟨_, _, rfl, h1⟩

def GoodTags (src : List Byte) : Outcome (List Entry) → Prop
  | .panic => False
  | .err _ => True
  | .ok tags => ∀ e ∈ tags, e.InB src

theorem indexLoop_fixed_good (k : Fix) (src : List Byte) (stop : Nat) (hstop : stop ≤ src.length) :
    ∀ (fuel position : Nat) (acc : List Entry), (∀ e ∈ acc, e.InB src) →
    GoodTags src (indexLoop (some k) src stop fuel position acc) := by
  intro fuel
  induction fuel with
  | zero => intro position acc hacc; simpa [indexLoop, GoodTags] using hacc
  | succ fuel ih =>
    intro position acc hacc
    simp only [indexLoop]
    split
    · rename_i hlt
      rw [sliceOf_inb ⟨Nat.le_of_lt hlt, hstop⟩]
      simp only [bind_ok]
      cases ht : readTag (List.take (stop - position) (List.drop position src)) with
      | panic => exact absurd ht (readTag_ne_panic _)
      | err e => simp [GoodTags]
      | ok p =>
        obtain ⟨⟨tag, fmt⟩, r1⟩ := p
        simp only [bind_ok]
        cases hc : contentOffLen r1 fmt with
        | panic => exact absurd hc (contentOffLen_ne_panic _ _)
        | err e => simp [GoodTags]
        | ok q =>
          obtain ⟨off, len⟩ := q
          simp only [bind_ok, contentEndOf]
          split
          · rename_i hle
            simp only [bind_ok]
            apply ih
            intro e he
            rcases List.mem_append.1 he with h1 | h1
            · exact hacc e h1
            · simp only [List.mem_singleton] at h1
              subst h1
              exact ⟨by simp only; omega, by simp only; omega⟩
          · simp [GoodTags]
    · simpa [GoodTags] using hacc

theorem indexEnclosed_fixed_good (k : Fix) (src : List Byte) (a b : Nat) (hb : b ≤ src.length) :
    GoodTags src (indexEnclosed (some k) src a b) :=
  indexLoop_fixed_good k src b hb _ _ _ (by simp)

theorem decListWith_good {src : List Byte} (f : RState → Outcome (Val × RState))
    (hf : ∀ st, st.InB src → GoodR src (f st)) :
    ∀ (fuel : Nat) (st : RState), st.InB src → GoodR src (decListWith f fuel st) := by
  intro fuel
  induction fuel with
  | zero => intro st h; simpa [decListWith, GoodR] using h
  | succ fuel ih =>
    intro st h
    obtain ⟨h1, h2⟩ := nextTagRange_inb (src := src) false none st h
    simp only [decListWith]
    generalize nextTagRange false none st = x at h1 h2
    obtain ⟨r, st1⟩ := x
    simp only at h1 h2 ⊢
    cases r with
    | none => simpa [GoodR] using h1
    | some ab =>
      obtain ⟨a, b⟩ := ab
      simp only
      have hg := hf (.root a b) (h2 a b rfl)
      cases hfv : f (.root a b) with
      | panic => rw [hfv] at hg; exact hg.elim
      | err e => simp [GoodR]
      | ok p =>
        simp only [bind_ok]
        have hl := ih st1 h1
        cases hlv : decListWith f fuel st1 with
        | panic => rw [hlv] at hl; exact hl.elim
        | err e => simp [GoodR]
        | ok q =>
          obtain ⟨vs, st2⟩ := q
          rw [hlv] at hl
          simpa [GoodR] using hl

theorem readVarint_ne_panic (bs : List Byte) : readVarint bs ≠ panic := readVarintLoop_ne_panic _ _ _ _

mutual
theorem dec_fixed_good (k : Fix) (src : List Byte) : ∀ (t : Ty) (st : RState), st.InB src →
    GoodR src (dec (some k) src t st)
  | .bool, st, h => by
    obtain ⟨s, st', h1, h2⟩ := nextReader_good .varint st h
    simp only [dec, h1, bind_ok]
    split
    · simpa [GoodR] using h2
    · cases hb : readBool s with
      | panic =>
        simp only [readBool] at hb
        cases hv : readVarint s with
        | panic => exact absurd hv (readVarint_ne_panic _)
        | err e => rw [hv] at hb; simp at hb
        | ok p => rw [hv] at hb; simp at hb
      | err e => simp [GoodR]
      | ok p => simpa [GoodR] using h2
  | .null, st, h => by simpa [dec, GoodR] using h
  | .int mn mx e w s, st, h => by
    obtain ⟨sl, st', h1, h2⟩ := nextReader_good .varint st h
    simp only [dec, h1, bind_ok]
    split
    · simpa [GoodR] using h2
    · cases hv : readVarint sl with
      | panic => exact absurd hv (readVarint_ne_panic _)
      | err e => simp [GoodR]
      | ok p => simpa [GoodR] using h2
  | .enum s tot e, st, h => by
    obtain ⟨h1, h2⟩ := nextTagRange_inb (src := src) true (some .varint) st h
    simp only [dec]
    generalize nextTagRange true (some Fmt.varint) st = x at h1 h2
    obtain ⟨r, st1⟩ := x
    simp only at h1 h2 ⊢
    cases r with
    | none =>
      simp only [bind_ok]
      split
      · simpa [GoodR] using h1
      · simp [GoodR]
    | some ab =>
      obtain ⟨a, b⟩ := ab
      simp only [sliceOf_inb (h2 a b rfl), bind_ok]
      cases hv : readVarint (List.take (b - a) (List.drop a src)) with
      | panic => exact absurd hv (readVarint_ne_panic _)
      | err e => simp [GoodR]
      | ok p =>
        simp only [bind_ok]
        split
        · simpa [GoodR] using h1
        · simp [GoodR]
  | .str cs mn mx e, st, h => by
    obtain ⟨sl, st', h1, h2⟩ := nextReader_good .lenDelim st h
    simp only [dec, h1, bind_ok]
    split
    · simpa [GoodR] using h2
    · simp [GoodR]
  | .oct mn mx e, st, h => by
    obtain ⟨sl, st', h1, h2⟩ := nextReader_good .lenDelim st h
    simpa [dec, h1, GoodR] using h2
  | .bits mn mx e, st, h => by
    obtain ⟨sl, st', h1, h2⟩ := nextReader_good .lenDelim st h
    simp only [dec, h1, bind_ok]
    split
    · split
      · simpa [GoodR] using h2
      · simp [GoodR]
    · simpa [GoodR] using h2
  | .seqOf mn mx e elem, st, h => by
    cases st with
    | root a b => simp [dec, GoodR]
    | enclosed c tags =>
      simp only [dec]
      have hl := decListWith_good (src := src) (fun s => dec (some k) src elem s)
        (fun s hs => dec_fixed_good k src elem s hs) (tags.length + 1) (.enclosed c tags) h
      cases hlv : decListWith (fun s => dec (some k) src elem s) (tags.length + 1) (.enclosed c tags) with
      | panic => rw [hlv] at hl; exact hl.elim
      | err e => simp [GoodR]
      | ok q =>
        obtain ⟨vs, st2⟩ := q
        rw [hlv] at hl
        simp only [bind_ok, GoodR]
        cases st2 <;> simpa [RState.bump, RState.InB, GoodR] using hl
  | .seq so fc ea fields, st, h => by
    obtain ⟨h1, h2⟩ := nextTagRange_inb (src := src) true (some .lenDelim) st h
    simp only [dec]
    generalize nextTagRange true (some Fmt.lenDelim) st = x at h1 h2
    obtain ⟨r, st1⟩ := x
    simp only at h1 h2 ⊢
    have hb : (r.getD (0, 0)).2 ≤ src.length := by
      cases r with
      | none => simp
      | some ab => exact (h2 ab.1 ab.2 rfl).2
    have hi := indexEnclosed_fixed_good k src (r.getD (0, 0)).1 (r.getD (0, 0)).2 hb
    cases hiv : indexEnclosed (some k) src (r.getD (0, 0)).1 (r.getD (0, 0)).2 with
    | panic => rw [hiv] at hi; exact hi.elim
    | err e => simp [GoodR]
    | ok tags =>
      rw [hiv] at hi
      simp only [bind_ok]
      have hf := decFields_fixed_good k src fields (.enclosed 1 tags) hi
      cases hfv : decFields (some k) src fields (.enclosed 1 tags) with
      | panic => rw [hfv] at hf; exact hf.elim
      | err e => simp [GoodR]
      | ok q => simpa [GoodR] using h1
  | .choice s tot e alts, st, h => by
    obtain ⟨h1, h2⟩ := nextTagRange_inb (src := src) true none st h
    simp only [dec]
    generalize nextTagRange true none st = x at h1 h2
    obtain ⟨r, st1⟩ := x
    simp only at h1 h2 ⊢
    cases r with
    | none => simp [GoodR]
    | some ab =>
      obtain ⟨a, b⟩ := ab
      have hab := h2 a b rfl
      simp only [sliceOf_inb hab, bind_ok]
      cases ht : readTag (List.take (b - a) (List.drop a src)) with
      | panic => exact absurd ht (readTag_ne_panic _)
      | err e => simp [GoodR]
      | ok p =>
        obtain ⟨⟨tag, fmt⟩, r1⟩ := p
        simp only [bind_ok]
        have hr1 := readTag_length ht
        -- the optional length varint
        have hr2 : ∀ r2, (if fmt = Fmt.lenDelim then
              (readVarint r1 >>= fun x => ok x.2) else ok r1 : Outcome (List Byte)) = ok r2 →
            r2.length ≤ r1.length := by
          intro r2 hr
          split at hr
          · obtain ⟨⟨n, r⟩, hv, he⟩ := bind_ok_inv hr
            simp only [ok.injEq] at he
            subst he
            exact Nat.le_of_lt (readVarint_length hv)
          · simp only [ok.injEq] at hr; subst hr; exact Nat.le_refl _
        cases hv : (if fmt = Fmt.lenDelim then
              (readVarint r1 >>= fun x => ok x.2) else ok r1 : Outcome (List Byte)) with
        | panic =>
          split at hv
          · cases hvv : readVarint r1 with
            | panic => exact absurd hvv (readVarint_ne_panic _)
            | err e => rw [hvv] at hv; simp at hv
            | ok p => rw [hvv] at hv; simp at hv
          · simp at hv
        | err e =>
          have : (if fmt = Fmt.lenDelim then
              (do let x ← readVarint r1; ok x.2) else ok r1 : Outcome (List Byte)) = err e := hv
          simp only [this, bind_err, GoodR]
        | ok r2 =>
          have hle := hr2 r2 hv
          have : (if fmt = Fmt.lenDelim then
              (do let x ← readVarint r1; ok x.2) else ok r1 : Outcome (List Byte)) = ok r2 := hv
          simp only [this, bind_ok]
          have hlen : (List.take (b - a) (List.drop a src)).length = b - a := by
            simp only [List.length_take, List.length_drop]; omega
          have hin : RState.InB src (.enclosed 1 [⟨1, fmt, a + ((List.take (b - a) (List.drop a src)).length - r2.length), b⟩]) := by
            intro e he
            simp only [List.mem_singleton] at he
            subst he
            exact ⟨by simp only; omega, hab.2⟩
          have ha := decAlt_fixed_good k src alts (tag - 1) _ hin
          cases hav : decAlt (some k) src alts (tag - 1)
              (.enclosed 1 [⟨1, fmt, a + ((List.take (b - a) (List.drop a src)).length - r2.length), b⟩]) with
          | panic => exact absurd hav ha
          | err e => simp [GoodR]
          | ok vv => simpa [GoodR] using h1
theorem decAlt_fixed_good (k : Fix) (src : List Byte) : ∀ (alts : Fields) (i : Nat) (st : RState),
    st.InB src → decAlt (some k) src alts i st ≠ panic
  | .nil, i, st, h => by simp [decAlt]
  | .cons kk t rest, 0, st, h => by
    have hg := dec_fixed_good k src t st h
    simp only [decAlt]
    cases hd : dec (some k) src t st with
    | panic => rw [hd] at hg; exact hg.elim
    | err e => simp
    | ok p => simp
  | .cons kk t rest, i + 1, st, h => by
    simp only [decAlt]
    exact decAlt_fixed_good k src rest i st h
theorem decFields_fixed_good (k : Fix) (src : List Byte) : ∀ (fs : Fields) (st : RState),
    st.InB src → GoodR src (decFields (some k) src fs st)
  | .nil, st, h => by simpa [decFields, GoodR] using h
  | .cons kk t rest, st, h => by
    have hbump : (RState.bump st).InB src := by cases st <;> simpa [RState.bump, RState.InB] using h
    have hg := dec_fixed_good k src t st h
    -- what follows once the component itself is read
    have hrest : ∀ (one : Outcome (Val × RState)), GoodR src one →
        GoodR src (match one with
          | .ok (v, st1) =>
            match decFields (some k) src rest st1 with
            | .ok (vs, st2) => ok (.cons v vs, st2)
            | .err e => err e
            | .panic => panic
          | .err e => err e
          | .panic => panic : Outcome (Vals × RState)) := by
      intro one hone
      cases one with
      | panic => exact hone.elim
      | err e => simp [GoodR]
      | ok p =>
        obtain ⟨v, st1⟩ := p
        have hr := decFields_fixed_good k src rest st1 hone
        simp only
        cases hrv : decFields (some k) src rest st1 with
        | panic => rw [hrv] at hr; exact hr.elim
        | err e => simp [GoodR]
        | ok q => rw [hrv] at hr; simpa [GoodR] using hr
    cases kk with
    | o =>
      simp only [decFields]
      apply hrest
      split
      · cases hd : dec (some k) src t st with
        | panic => rw [hd] at hg; exact hg.elim
        | err e => simp [GoodR]
        | ok p => rw [hd] at hg; simpa [GoodR] using hg
      · simpa [GoodR] using hbump
    | m => simp only [decFields]; exact hrest _ hg
    | d dv => simp only [decFields]; exact hrest _ hg
end
/-! ### the present reader against the guard variant of the repaired one -/

/-- every new check fails with a class the reader produces nowhere else; nothing is defaulted -/
def guardFix : Fix := ⟨.lengthExceedsLimit, false⟩

/-- either a new check fired in the repaired reader, or the present reader did the same -/
def Agree {α : Type} (rf rn : Outcome α) : Prop := rf = err .lengthExceedsLimit ∨ rn = rf

theorem Agree.rfl' {α : Type} (r : Outcome α) : Agree r r := Or.inr rfl

theorem Agree.bind {α β : Type} {xf xn : Outcome α} {f g : α → Outcome β}
    (hx : Agree xf xn) (hf : ∀ a, xf = ok a → Agree (f a) (g a)) : Agree (xf >>= f) (xn >>= g) := by
  rcases hx with h | h
  · left; rw [h]; rfl
  · subst h
    cases xn with
    | ok a => exact hf a rfl
    | err e => right; rfl
    | panic => right; rfl

theorem indexLoop_agree (src : List Byte) (stop : Nat) (hstop : stop ≤ src.length)
    (hlen : src.length ≤ U64_MAX) :
    ∀ (fuel position : Nat) (acc : List Entry),
    Agree (indexLoop (some guardFix) src stop fuel position acc) (indexLoop none src stop fuel position acc) := by
  intro fuel
  induction fuel with
  | zero => intro position acc; exact Agree.rfl' _
  | succ fuel ih =>
    intro position acc
    simp only [indexLoop]
    split
    · apply Agree.bind (Agree.rfl' _)
      intro slice _
      apply Agree.bind (Agree.rfl' _)
      intro p _
      obtain ⟨⟨tag, fmt⟩, r1⟩ := p
      simp only
      apply Agree.bind (Agree.rfl' _)
      intro q _
      obtain ⟨off, len⟩ := q
      simp only
      by_cases hle : position + (slice.length - r1.length) + off + len ≤ stop
      · simp only [contentEndOf, if_pos hle, uAdd, if_pos (Nat.le_trans hle (Nat.le_trans hstop hlen)), bind_ok]
        exact ih _ _
      · left
        simp only [contentEndOf, if_neg hle, guardFix]
        rfl
    · exact Agree.rfl' _

theorem decListWith_agree {src : List Byte} (f g : RState → Outcome (Val × RState))
    (hfg : ∀ st, st.InB src → Agree (f st) (g st)) :
    ∀ (fuel : Nat) (st : RState), st.InB src → Agree (decListWith f fuel st) (decListWith g fuel st) := by
  intro fuel
  induction fuel with
  | zero => intro st _; exact Agree.rfl' _
  | succ fuel ih =>
    intro st h
    obtain ⟨h1, h2⟩ := nextTagRange_inb (src := src) false none st h
    simp only [decListWith]
    generalize nextTagRange false none st = x at h1 h2
    obtain ⟨r, st1⟩ := x
    simp only at h1 h2 ⊢
    cases r with
    | none => exact Agree.rfl' _
    | some ab =>
      obtain ⟨a, b⟩ := ab
      simp only
      apply Agree.bind (hfg (.root a b) (h2 a b rfl))
      intro p _
      apply Agree.bind (ih st1 h1)
      intro q _
      exact Agree.rfl' _

/-- a successful step of the repaired reader leaves a state inside the source -/
theorem inb_of_good {α : Type} {src : List Byte} {o : Outcome (α × RState)} {a : α} {st : RState}
    (hg : GoodR src o) (h : o = ok (a, st)) : st.InB src := by
  subst h; exact hg

mutual
theorem dec_agree (src : List Byte) (hlen : src.length ≤ U64_MAX) : ∀ (t : Ty) (st : RState),
    st.InB src → Agree (dec (some guardFix) src t st) (dec none src t st)
  | .bool, st, _ => by simp only [dec]; exact Agree.rfl' _
  | .null, st, _ => by simp only [dec]; exact Agree.rfl' _
  | .int mn mx e w s, st, _ => by simp only [dec]; exact Agree.rfl' _
  | .enum s tot e, st, _ => by simp only [dec]; exact Agree.rfl' _
  | .str cs mn mx e, st, _ => by simp only [dec]; exact Agree.rfl' _
  | .oct mn mx e, st, _ => by simp only [dec]; exact Agree.rfl' _
  | .bits mn mx e, st, _ => by
    simp only [dec]
    apply Agree.bind (Agree.rfl' _)
    intro p _
    obtain ⟨r, st1⟩ := p
    simp only
    split
    · left; simp [guardFix]
    · exact Agree.rfl' _
  | .seqOf mn mx e elem, st, h => by
    cases st with
    | root a b => left; simp [dec, guardFix]
    | enclosed c tags =>
      simp only [dec]
      apply Agree.bind (decListWith_agree _ _ (fun s hs => dec_agree src hlen elem s hs) _ _ h)
      intro p _
      exact Agree.rfl' _
  | .seq so fc ea fields, st, h => by
    obtain ⟨h1, h2⟩ := nextTagRange_inb (src := src) true (some .lenDelim) st h
    simp only [dec]
    generalize nextTagRange true (some Fmt.lenDelim) st = x at h1 h2
    obtain ⟨r, st1⟩ := x
    simp only at h1 h2 ⊢
    have hb : (r.getD (0, 0)).2 ≤ src.length := by
      cases r with
      | none => simp
      | some ab => exact (h2 ab.1 ab.2 rfl).2
    have hi := indexEnclosed_fixed_good guardFix src (r.getD (0, 0)).1 (r.getD (0, 0)).2 hb
    apply Agree.bind (indexLoop_agree src _ hb hlen _ _ _)
    intro tags htags
    have htags' : indexEnclosed (some guardFix) src (r.getD (0, 0)).1 (r.getD (0, 0)).2 = ok tags := htags
    rw [htags'] at hi
    apply Agree.bind (decFields_agree src hlen fields (.enclosed 1 tags) hi)
    intro q _
    exact Agree.rfl' _
  | .choice s tot e alts, st, h => by
    obtain ⟨h1, h2⟩ := nextTagRange_inb (src := src) true none st h
    simp only [dec]
    generalize nextTagRange true none st = x at h1 h2
    obtain ⟨r, st1⟩ := x
    simp only at h1 h2 ⊢
    cases r with
    | none => exact Agree.rfl' _
    | some ab =>
      obtain ⟨a, b⟩ := ab
      have hab := h2 a b rfl
      simp only
      apply Agree.bind (Agree.rfl' _)
      intro sl hsl
      obtain ⟨hsl1, _, _⟩ := sliceOf_length hsl
      apply Agree.bind (Agree.rfl' _)
      intro p hp
      obtain ⟨⟨tag, fmt⟩, r1⟩ := p
      simp only
      have hr1 := readTag_length hp
      apply Agree.bind (Agree.rfl' _)
      intro r2 hr2
      have hle : r2.length ≤ r1.length := by
        split at hr2
        · obtain ⟨⟨n, r⟩, hv, he⟩ := bind_ok_inv hr2
          simp only [ok.injEq] at he
          subst he
          exact Nat.le_of_lt (readVarint_length hv)
        · simp only [ok.injEq] at hr2; subst hr2; exact Nat.le_refl _
      have hin : RState.InB src (.enclosed 1 [⟨1, fmt, a + (sl.length - r2.length), b⟩]) := by
        intro e he
        simp only [List.mem_singleton] at he
        subst he
        exact ⟨by simp only; omega, hab.2⟩
      apply Agree.bind (decAlt_agree src hlen alts (tag - 1) _ hin)
      intro vv _
      exact Agree.rfl' _
theorem decAlt_agree (src : List Byte) (hlen : src.length ≤ U64_MAX) : ∀ (alts : Fields) (i : Nat)
    (st : RState), st.InB src → Agree (decAlt (some guardFix) src alts i st) (decAlt none src alts i st)
  | .nil, i, st, _ => by simp only [decAlt]; exact Agree.rfl' _
  | .cons kk t rest, 0, st, h => by
    simp only [decAlt]
    rcases dec_agree src hlen t st h with h1 | h1
    · left; rw [h1]; rfl
    · rw [h1]; exact Agree.rfl' _
  | .cons kk t rest, i + 1, st, h => by
    simp only [decAlt]
    exact decAlt_agree src hlen rest i st h
theorem decFields_agree (src : List Byte) (hlen : src.length ≤ U64_MAX) : ∀ (fs : Fields) (st : RState),
    st.InB src → Agree (decFields (some guardFix) src fs st) (decFields none src fs st)
  | .nil, st, _ => by simp only [decFields]; exact Agree.rfl' _
  | .cons kk t rest, st, h => by
    have hbump : (RState.bump st).InB src := by cases st <;> simpa [RState.bump, RState.InB] using h
    have hg := dec_fixed_good guardFix src t st h
    have ha := dec_agree src hlen t st h
    -- what follows once the component itself is read
    have hrest : ∀ (onef onen : Outcome (Val × RState)), GoodR src onef → Agree onef onen →
        Agree (match onef with
          | .ok (v, st1) =>
            match decFields (some guardFix) src rest st1 with
            | .ok (vs, st2) => ok (.cons v vs, st2)
            | .err e => err e
            | .panic => panic
          | .err e => err e
          | .panic => panic : Outcome (Vals × RState))
          (match onen with
          | .ok (v, st1) =>
            match decFields none src rest st1 with
            | .ok (vs, st2) => ok (.cons v vs, st2)
            | .err e => err e
            | .panic => panic
          | .err e => err e
          | .panic => panic : Outcome (Vals × RState)) := by
      intro onef onen hgood hag
      rcases hag with h1 | h1
      · left; rw [h1]
      · subst h1
        cases onen with
        | panic => right; rfl
        | err e => right; rfl
        | ok p =>
          obtain ⟨v, st1⟩ := p
          simp only
          rcases decFields_agree src hlen rest st1 hgood with h2 | h2
          · left; rw [h2]
          · rw [h2]; exact Agree.rfl' _
    cases kk with
    | o =>
      simp only [decFields]
      apply hrest
      · split
        · cases hd : dec (some guardFix) src t st with
          | panic => rw [hd] at hg; exact hg.elim
          | err e => simp [GoodR]
          | ok p => rw [hd] at hg; simpa [GoodR] using hg
        · simpa [GoodR] using hbump
      · split
        · rcases ha with h1 | h1
          · left; rw [h1]
          · rw [h1]; exact Agree.rfl' _
        · exact Agree.rfl' _
    | m => simp only [decFields]; exact hrest _ _ hg ha
    | d dv => simp only [decFields]; exact hrest _ _ hg ha
end
end Asn1Verif.Proto
