import Asn1Verif.Proto.ReaderLemmas
/- Round trip of the protobuf mirror (C17): what the reader makes of the octets the writer produced. -/
namespace Asn1Verif.Proto
open Asn1Verif Outcome
open Asn1Verif.Uper (Ty Val Vals Fields Kind utf8Decode castInt)

/-! ### the index of a message the writer produced -/

/-- sizes the wire format can carry: field number below 2^29, values and lengths below 2^64 -/
def Item.WF : Item → Prop
  | .varint n v => n < 2 ^ 29 ∧ v < 2 ^ 64
  | .bytes n p => n < 2 ^ 29 ∧ p.length < 2 ^ 64

/-- the index entry `e` describes the field `it`: number, wire type, and its range holds the content -/
def Matches (src : List Byte) (e : Entry) (it : Item) : Prop :=
  e.tag = it.num ∧ e.fmt = it.fmt ∧ sliceOf src e.start e.stop = ok it.payload

/-- entry by entry -/
inductive AllMatch (src : List Byte) : List Entry → List Item → Prop where
  | nil : AllMatch src [] []
  | cons {e : Entry} {it : Item} {es : List Entry} {l : List Item} :
      Matches src e it → AllMatch src es l → AllMatch src (e :: es) (it :: l)

theorem sliceOf_split {src : List Byte} {a b : Nat} {p : List Byte} (h : sliceOf src a b = ok p) :
    src.drop a = p ++ src.drop b ∧ b = a + p.length ∧ b ≤ src.length := by
  simp only [sliceOf] at h
  split at h
  · rename_i hc
    simp only [ok.injEq] at h
    subst h
    refine ⟨?_, ?_, hc.2⟩
    · have : src.drop b = (src.drop a).drop (b - a) := by
        rw [List.drop_drop]; congr 1; omega
      rw [this, List.take_append_drop]
    · simp only [List.length_take, List.length_drop]; omega
  · simp at h

theorem sliceOf_of_drop {src : List Byte} {a : Nat} {p post : List Byte} (ha : a ≤ src.length)
    (h : src.drop a = p ++ post) : sliceOf src a (a + p.length) = ok p := by
  have hl : (src.drop a).length = p.length + post.length := by rw [h, List.length_append]
  simp only [List.length_drop] at hl
  have hle : a + p.length ≤ src.length := by omega
  simp only [sliceOf, Nat.le_add_right, hle, and_self, if_true, Nat.add_sub_cancel_left, h,
    List.take_left]

theorem itemsBytes_cons (it : Item) (r : List Item) : itemsBytes (it :: r) = it.encode ++ itemsBytes r := rfl

theorem Item.encode_ne_nil (it : Item) : it.encode ≠ [] := by
  cases it with
  | varint n v =>
    simp only [Item.encode]
    intro h
    have := writeVarint_ne_nil (tagValue n .varint)
    simp [writeTag] at h
    exact this h.1
  | bytes n p =>
    simp only [Item.encode]
    intro h
    have := writeVarint_ne_nil (tagValue n .lenDelim)
    simp [writeTag] at h
    exact this h.1

theorem drop_le_of_ne_nil {src : List Byte} {pos : Nat} {x post : List Byte} (hx : x ≠ [])
    (h : src.drop pos = x ++ post) : pos ≤ src.length := by
  have hl : (src.drop pos).length = x.length + post.length := by rw [h, List.length_append]
  have : 0 < x.length := List.length_pos_iff.2 hx
  simp only [List.length_drop] at hl
  omega

theorem contentEndOf_ok (fx : Option Fix) {cp len stop : Nat} (h : cp + len ≤ stop) (hs : stop ≤ U64_MAX) :
    contentEndOf fx cp len stop = ok (cp + len) := by
  cases fx with
  | none => simp only [contentEndOf, uAdd]; rw [if_pos (by omega)]
  | some f => simp only [contentEndOf]; rw [if_pos h]

/-- `index_enclosed` over the octets of a list of fields yields one matching entry per field -/
theorem indexLoop_items (fx : Option Fix) (src : List Byte) (hlen : src.length ≤ U64_MAX) :
    ∀ (l : List Item) (post : List Byte) (pos stop fuel : Nat) (acc : List Entry),
    src.drop pos = itemsBytes l ++ post → stop = pos + (itemsBytes l).length →
    (∀ it ∈ l, it.WF) → l.length < fuel →
    ∃ es, indexLoop fx src stop fuel pos acc = ok (acc ++ es) ∧ AllMatch src es l := by
  intro l
  induction l with
  | nil =>
    intro post pos stop fuel acc _ hstop _ hfuel
    refine ⟨[], ?_, AllMatch.nil⟩
    cases fuel with
    | zero => simp [indexLoop]
    | succ f =>
      simp only [indexLoop]
      rw [if_neg (by simp [itemsBytes] at hstop; omega)]
      simp
  | cons it r ih =>
    intro post pos stop fuel acc hdrop hstop hwf hfuel
    cases fuel with
    | zero => simp at hfuel
    | succ f =>
      have hne := Item.encode_ne_nil it
      have hpos : 0 < it.encode.length := List.length_pos_iff.2 hne
      rw [itemsBytes_cons] at hdrop hstop
      have hposle : pos ≤ src.length := by
        rw [List.append_assoc] at hdrop
        exact drop_le_of_ne_nil hne hdrop
      have hslice := sliceOf_of_drop (p := it.encode ++ itemsBytes r) (post := post) hposle hdrop
      rw [← hstop] at hslice
      obtain ⟨_, _, hstop_le⟩ := sliceOf_split hslice
      have hdrop' : src.drop (pos + it.encode.length) = itemsBytes r ++ post := by
        rw [← List.drop_drop, hdrop, List.append_assoc, List.drop_left]
      have hwfit := hwf it (by simp)
      have hle : pos + it.encode.length ≤ stop := by
        rw [hstop, List.length_append]; omega
      simp only [indexLoop]
      rw [if_pos (by rw [hstop, List.length_append]; omega), hslice]
      simp only [bind_ok]
      cases it with
      | varint n v =>
        simp only [Item.WF] at hwfit
        have hcl : (Item.varint n v).encode.length = (writeTag n .varint).length + (writeVarint v).length := by
          simp [Item.encode]
        have htag : readTag ((Item.varint n v).encode ++ itemsBytes r) =
            ok ((n, .varint), writeVarint v ++ itemsBytes r) := by
          simp only [Item.encode, List.append_assoc]
          exact readTag_writeTag hwfit.1 _ _
        rw [htag]
        simp only [bind_ok, contentOffLen_varint v _ hwfit.2]
        have hstart : pos + ((Item.encode (.varint n v) ++ itemsBytes r).length -
            (writeVarint v ++ itemsBytes r).length) + 0 = pos + (writeTag n .varint).length := by
          simp only [List.length_append, hcl]; omega
        rw [hstart]
        have hend : pos + (writeTag n .varint).length + (writeVarint v).length =
            pos + (Item.varint n v).encode.length := by rw [hcl]; omega
        rw [contentEndOf_ok fx (by omega) (by omega), hend]
        simp only [bind_ok]
        obtain ⟨es, he, hm⟩ := ih post (pos + (Item.varint n v).encode.length) stop f
          (acc ++ [⟨n, .varint, pos + (writeTag n .varint).length, pos + (Item.varint n v).encode.length⟩]) hdrop'
          (by rw [hstop, List.length_append]; omega) (fun x hx => hwf x (by simp [hx])) (by simpa using hfuel)
        refine ⟨⟨n, .varint, pos + (writeTag n .varint).length, pos + (Item.varint n v).encode.length⟩ :: es,
          by rw [he]; simp, AllMatch.cons ?_ hm⟩
        refine ⟨rfl, rfl, ?_⟩
        simp only [Item.payload]
        rw [← hend]
        apply sliceOf_of_drop (post := itemsBytes r ++ post) (by omega)
        rw [← List.drop_drop, hdrop]
        simp [Item.encode, List.append_assoc]
      | bytes n p =>
        simp only [Item.WF] at hwfit
        have hcl : (Item.bytes n p).encode.length =
            (writeTag n .lenDelim).length + (writeVarint p.length).length + p.length := by
          simp [Item.encode, writeBytes, Nat.add_assoc]
        have htag : readTag ((Item.bytes n p).encode ++ itemsBytes r) =
            ok ((n, .lenDelim), writeBytes p ++ itemsBytes r) := by
          simp only [Item.encode, List.append_assoc]
          exact readTag_writeTag hwfit.1 _ _
        rw [htag]
        simp only [bind_ok, contentOffLen_writeBytes p _ hwfit.2]
        have hstart : pos + ((Item.encode (.bytes n p) ++ itemsBytes r).length -
            (writeBytes p ++ itemsBytes r).length) + (writeVarint p.length).length =
            pos + ((writeTag n .lenDelim).length + (writeVarint p.length).length) := by
          simp only [List.length_append, hcl, writeBytes]; omega
        rw [hstart]
        have hend : pos + ((writeTag n .lenDelim).length + (writeVarint p.length).length) + p.length =
            pos + (Item.bytes n p).encode.length := by rw [hcl]; omega
        rw [contentEndOf_ok fx (by omega) (by omega), hend]
        simp only [bind_ok]
        obtain ⟨es, he, hm⟩ := ih post (pos + (Item.bytes n p).encode.length) stop f
          (acc ++ [⟨n, .lenDelim, pos + ((writeTag n .lenDelim).length + (writeVarint p.length).length),
            pos + (Item.bytes n p).encode.length⟩]) hdrop'
          (by rw [hstop, List.length_append]; omega) (fun x hx => hwf x (by simp [hx])) (by simpa using hfuel)
        refine ⟨⟨n, .lenDelim, pos + ((writeTag n .lenDelim).length + (writeVarint p.length).length),
            pos + (Item.bytes n p).encode.length⟩ :: es, by rw [he]; simp, AllMatch.cons ?_ hm⟩
        refine ⟨rfl, rfl, ?_⟩
        simp only [Item.payload]
        rw [← hend]
        apply sliceOf_of_drop (post := itemsBytes r ++ post) (by omega)
        rw [← List.drop_drop, hdrop]
        simp [Item.encode, writeBytes, List.append_assoc]

/-! ### leaves -/

/-- the value lies in the range of the integer encoding the writer selects -/
def intFits (c : IntClass) (i : Int) : Bool :=
  match c with
  | .u32 => decide (0 ≤ i) && decide (i < 2 ^ 32)
  | .u64 => decide (I64_MIN ≤ i) && decide (i ≤ I64_MAX)
  | .s32 => decide (-(2 ^ 31) ≤ i) && decide (i < 2 ^ 31)
  | .s64 => decide (I64_MIN ≤ i) && decide (i ≤ I64_MAX)

theorem intToVarint_lt (c : IntClass) (i : Int) : intToVarint c i < 2 ^ 64 := by
  cases c with
  | u32 =>
    simp only [intToVarint]
    have : i % 2 ^ 32 < 2 ^ 32 := Int.emod_lt_of_pos _ (by decide)
    have : 0 ≤ i % 2 ^ 32 := Int.emod_nonneg _ (by decide)
    omega
  | u64 =>
    simp only [intToVarint]
    have : i % 2 ^ 64 < 2 ^ 64 := Int.emod_lt_of_pos _ (by decide)
    have : 0 ≤ i % 2 ^ 64 := Int.emod_nonneg _ (by decide)
    omega
  | s32 => exact sint32ToVarint_lt _
  | s64 => exact sint64ToVarint_lt _

theorem int_rt (c : IntClass) (i : Int) (h : intFits c i = true) :
    varintToInt c (intToVarint c i) = i := by
  cases c with
  | u32 =>
    simp only [intFits, Bool.and_eq_true, decide_eq_true_eq] at h
    simp only [varintToInt, intToVarint]
    omega
  | u64 =>
    simp only [intFits, Bool.and_eq_true, decide_eq_true_eq] at h
    simp only [I64_MIN, I64_MAX] at h
    have hn : intToVarint .u64 i = (i % 2 ^ 64).toNat := rfl
    rw [hn]
    simp only [varintToInt, u64AsI64]
    by_cases hlt : (i % 2 ^ 64).toNat % 2 ^ 64 < 2 ^ 63
    · rw [if_pos hlt]; omega
    · rw [if_neg hlt]; omega
  | s32 =>
    simp only [intFits, Bool.and_eq_true, decide_eq_true_eq] at h
    simp only [varintToInt, intToVarint, varintToSint32_sint32ToVarint, BitVec.toInt_ofInt]
    exact Int.bmod_eq_of_le (by omega) (by omega)
  | s64 =>
    simp only [intFits, Bool.and_eq_true, decide_eq_true_eq] at h
    simp only [I64_MIN, I64_MAX] at h
    simp only [varintToInt, intToVarint, varintToSint64_sint64ToVarint, BitVec.toInt_ofInt]
    exact Int.bmod_eq_of_le (by omega) (by omega)

theorem byteBits_pack8 : ∀ b0 b1 b2 b3 b4 b5 b6 b7 : Bool,
    byteBits (BitVec.ofNat 8 (b0.toNat * 128 + b1.toNat * 64 + b2.toNat * 32 + b3.toNat * 16 + b4.toNat * 8 +
      b5.toNat * 4 + b6.toNat * 2 + b7.toNat)) = [b0, b1, b2, b3, b4, b5, b6, b7] := by decide

/-- unpacking the packed octets gives the bits back (and the octets are just enough) -/
theorem packBits_spec : ∀ (bs : List Bool),
    (unpackBits (packBits bs)).take bs.length = bs ∧ bs.length ≤ 8 * (packBits bs).length
  | [] => by decide
  | [b0] => by revert b0; decide
  | [b0, b1] => by revert b0 b1; decide
  | [b0, b1, b2] => by revert b0 b1 b2; decide
  | [b0, b1, b2, b3] => by revert b0 b1 b2 b3; decide
  | [b0, b1, b2, b3, b4] => by revert b0 b1 b2 b3 b4; decide
  | [b0, b1, b2, b3, b4, b5] => by revert b0 b1 b2 b3 b4 b5; decide
  | [b0, b1, b2, b3, b4, b5, b6] => by revert b0 b1 b2 b3 b4 b5 b6; decide
  | b0 :: b1 :: b2 :: b3 :: b4 :: b5 :: b6 :: b7 :: rest => by
    obtain ⟨ih1, ih2⟩ := packBits_spec rest
    have hp : packBits (b0 :: b1 :: b2 :: b3 :: b4 :: b5 :: b6 :: b7 :: rest) =
        BitVec.ofNat 8 (b0.toNat * 128 + b1.toNat * 64 + b2.toNat * 32 + b3.toNat * 16 + b4.toNat * 8 +
          b5.toNat * 4 + b6.toNat * 2 + b7.toNat) :: packBits rest := rfl
    rw [hp]
    constructor
    · simp only [unpackBits, byteBits_pack8, List.length_cons, List.cons_append, List.nil_append,
        List.take_succ_cons, ih1]
    · simp only [List.length_cons]; omega

theorem be64_length (n : Nat) : (be64 n).length = 8 := rfl

theorem beToNat_be64 (n : Nat) (h : n < 2 ^ 64) : beToNat (be64 n) = n := by
  simp only [beToNat, be64, List.foldl, BitVec.toNat_ofNat]
  omega

mutual
theorem Val.beq_refl : ∀ v : Val, Val.beq v v = true
  | .bool b => by simp [Val.beq]
  | .null => by simp [Val.beq]
  | .int i => by simp [Val.beq]
  | .enum i => by simp [Val.beq]
  | .str b => by simp [Val.beq]
  | .oct b => by simp [Val.beq]
  | .bits b => by simp [Val.beq]
  | .list vs => by simp [Val.beq, Vals.beq_refl vs]
  | .seq vs => by simp [Val.beq, Vals.beq_refl vs]
  | .choice i v => by simp [Val.beq, Val.beq_refl v]
  | .none => by simp [Val.beq]
  | .some v => by simp [Val.beq, Val.beq_refl v]
theorem Vals.beq_refl : ∀ vs : Vals, Vals.beq vs vs = true
  | .nil => by simp [Vals.beq]
  | .cons v vs => by simp [Vals.beq, Val.beq_refl v, Vals.beq_refl vs]
end

theorem Val.eq_self (v : Val) : (v == v) = true := Val.beq_refl v

/-- types whose values are written as exactly one field -/
def Ty.single : Ty → Bool
  | .null => false
  | .seqOf _ _ _ _ => false
  | _ => true

def allWith (f : Val → Bool) : Vals → Bool
  | .nil => true
  | .cons v vs => f v && allWith f vs

mutual
/-- the decidable region in which the round trip is proved (see `Props/C17.lean`) -/
def rtOK : Ty → Val → Bool
  | .int min max ext _ _, v =>
    match v with
    | .int i => intFits (intClass min max ext) i
    | _ => true
  | .enum _ _ _, v =>
    match v with
    | .enum i => decide (i < 2 ^ 32)
    | _ => true
  | .bits _ _ _, v =>
    match v with
    | .bits bs => decide (bs.length < 2 ^ 64)
    | _ => true
  | .seqOf _ _ _ elem, v =>
    Ty.single elem &&
    match v with
    | .list vs => allWith (fun x => rtOK elem x) vs
    | _ => true
  | .seq _ _ _ fields, v =>
    decide (fields.length < 2 ^ 29) && Fields.noOptNull fields &&
    match v with
    | .seq vs => rtOKFields fields vs
    | _ => true
  | .choice _ _ _ alts, v =>
    match v with
    | .choice i x => decide (i + 1 < 2 ^ 29) && rtOKAlt alts i x
    | _ => true
  | .bool, _ => true
  | .null, _ => true
  | .str _ _ _ _, _ => true
  | .oct _ _ _, _ => true
def rtOKAlt : Fields → Nat → Val → Bool
  | .nil, _, _ => true
  | .cons _ t _, 0, x => Ty.single t && rtOK t x
  | .cons _ _ rest, i + 1, x => rtOKAlt rest i x
def rtOKFields : Fields → Vals → Bool
  | .cons k t rest, vs =>
    match vs with
    | .cons v vs =>
      (match k, v with
       | .o, .some x => rtOK t x
       | .o, _ => true
       | _, v => rtOK t v) && rtOKFields rest vs
    | .nil => true
  | .nil, _ => true
end

variable (fx : Option Fix) (src : List Byte)

/-- a type whose values are written as one field reads its value back from that field's content,
    found through an index entry (whatever its number, as long as the reader expects that number)
    or handed over as the range of a list element -/
def ReadsOne (t : Ty) : Prop :=
  ∀ (v : Val) (c : Nat) (l : List Item) (c' : Nat), rtOK t v = true → encI t v c = ok (l, c') →
  ∃ it, l = [it] ∧ c' = c + 1 ∧ it.num = c + 1 ∧
    ∀ s e, sliceOf src s e = ok it.payload →
      ∃ v', Val.protoEq t v v' = true ∧
        (∀ n rest, dec fx src t (.enclosed n (⟨n, it.fmt, s, e⟩ :: rest)) = ok (v', .enclosed (n + 1) rest)) ∧
        dec fx src t (.root s e) = ok (v', .root s e)

theorem findEntry_head (n : Nat) (f : Fmt) (s e : Nat) (rest : List Entry) (filter : Option Fmt)
    (hf : filter = none ∨ filter = some f) :
    findEntry n filter (⟨n, f, s, e⟩ :: rest) = some (⟨n, f, s, e⟩, rest) := by
  rcases hf with rfl | rfl <;> simp [findEntry]

theorem nextReader_head (n : Nat) (f : Fmt) (s e : Nat) (rest : List Entry) (p : List Byte)
    (hs : sliceOf src s e = ok p) :
    nextReader src f (.enclosed n (⟨n, f, s, e⟩ :: rest)) = ok (p, .enclosed (n + 1) rest) := by
  simp only [nextReader, nextTagRange, findEntry_head n f s e rest (some f) (Or.inr rfl), if_true,
    Option.getD, hs, bind_ok]

theorem nextReader_root (f : Fmt) (s e : Nat) (p : List Byte) (hs : sliceOf src s e = ok p) :
    nextReader src f (.root s e) = ok (p, .root s e) := by
  simp only [nextReader, nextTagRange, Option.getD, hs, bind_ok]

theorem readsOne_bool : ReadsOne fx src .bool := by
  intro v c l c' _ henc
  cases v with
  | bool b => ?_
  | _ => simp [encI] at henc
  simp only [encI, ok.injEq, Prod.mk.injEq] at henc
  obtain ⟨rfl, rfl⟩ := henc
  refine ⟨_, rfl, rfl, rfl, ?_⟩
  intro s e hs
  simp only [Item.payload] at hs
  refine ⟨.bool b, by simp [Val.protoEq, Val.eq_self], ?_, ?_⟩
  · intro n rest
    have hb : readBool (writeVarint (if b then 1 else 0)) = ok (b, []) := by
      have := readBool_writeBool b []
      simpa [writeBool] using this
    have hne : (writeVarint (if b = true then 1 else 0)).isEmpty = false := by
      cases h : writeVarint (if b = true then 1 else 0) with
      | nil => exact absurd h (writeVarint_ne_nil _)
      | cons _ _ => rfl
    simp only [dec, Item.fmt, nextReader_head src n .varint s e rest _ hs, bind_ok, hne, hb]
    rfl
  · have hb : readBool (writeVarint (if b then 1 else 0)) = ok (b, []) := by
      have := readBool_writeBool b []
      simpa [writeBool] using this
    have hne : (writeVarint (if b = true then 1 else 0)).isEmpty = false := by
      cases h : writeVarint (if b = true then 1 else 0) with
      | nil => exact absurd h (writeVarint_ne_nil _)
      | cons _ _ => rfl
    simp only [dec, nextReader_root src .varint s e _ hs, bind_ok, hne, hb]
    rfl
theorem isEmpty_writeVarint (n : Nat) : (writeVarint n).isEmpty = false := by
  cases h : writeVarint n with
  | nil => exact absurd h (writeVarint_ne_nil _)
  | cons _ _ => rfl

theorem readVarint_writeVarint' (n : Nat) (h : n < 2 ^ 64) : readVarint (writeVarint n) = ok (n, []) := by
  simpa using readVarint_writeVarint n h []

theorem readsOne_int (mn mx : Option Int) (e : Bool) (w : Nat) (sg : Bool) :
    ReadsOne fx src (.int mn mx e w sg) := by
  intro v c l c' hok henc
  cases v with
  | int i => ?_
  | _ => simp [encI] at henc
  simp only [encI] at henc
  split at henc
  · simp at henc
  rename_i hcast
  simp only [ne_eq, Decidable.not_not] at hcast
  simp only [ok.injEq, Prod.mk.injEq] at henc
  obtain ⟨rfl, rfl⟩ := henc
  simp only [rtOK] at hok
  refine ⟨_, rfl, rfl, rfl, ?_⟩
  intro s e' hs
  simp only [Item.payload] at hs
  have hrd := readVarint_writeVarint' (intToVarint (intClass mn mx e) i) (intToVarint_lt _ _)
  refine ⟨.int i, by simp [Val.protoEq, Val.eq_self], ?_, ?_⟩
  · intro n rest
    simp only [dec, Item.fmt, nextReader_head src n .varint s e' rest _ hs, bind_ok,
      isEmpty_writeVarint, hrd, int_rt _ _ hok, hcast]
    rfl
  · simp only [dec, nextReader_root src .varint s e' _ hs, bind_ok,
      isEmpty_writeVarint, hrd, int_rt _ _ hok, hcast]
    rfl

theorem readsOne_enum (sd tot : Nat) (e : Bool) : ReadsOne fx src (.enum sd tot e) := by
  intro v c l c' hok henc
  cases v with
  | enum i => ?_
  | _ => simp [encI] at henc
  simp only [encI] at henc
  split at henc
  · rename_i hlt
    simp only [ok.injEq, Prod.mk.injEq] at henc
    obtain ⟨rfl, rfl⟩ := henc
    simp only [rtOK, decide_eq_true_eq] at hok
    refine ⟨_, rfl, rfl, rfl, ?_⟩
    intro s e' hs
    simp only [Item.payload, Nat.mod_eq_of_lt hok] at hs
    have hrd := readVarint_writeVarint' i (by omega)
    refine ⟨.enum i, by simp [Val.protoEq, Val.eq_self], ?_, ?_⟩
    · intro n rest
      simp only [dec, Item.fmt, nextTagRange, findEntry_head n .varint s e' rest (some .varint) (Or.inr rfl),
        if_true, hs, bind_ok, hrd, hlt]
    · simp only [dec, nextTagRange, hs, bind_ok, hrd, hlt, if_true]
  · simp at henc

theorem readsOne_str (cs : Uper.Charset) (mn mx : Option Nat) (e : Bool) : ReadsOne fx src (.str cs mn mx e) := by
  intro v c l c' _ henc
  cases v with
  | str b => ?_
  | _ => simp [encI] at henc
  simp only [encI] at henc
  split at henc
  · rename_i x hu
    simp only [ok.injEq, Prod.mk.injEq] at henc
    obtain ⟨rfl, rfl⟩ := henc
    refine ⟨_, rfl, rfl, rfl, ?_⟩
    intro s e' hs
    simp only [Item.payload] at hs
    refine ⟨.str b, by simp [Val.protoEq, Val.eq_self], ?_, ?_⟩
    · intro n rest
      simp only [dec, Item.fmt, nextReader_head src n .lenDelim s e' rest _ hs, bind_ok, hu]
    · simp only [dec, nextReader_root src .lenDelim s e' _ hs, bind_ok, hu]
  · simp at henc

theorem readsOne_oct (mn mx : Option Nat) (e : Bool) : ReadsOne fx src (.oct mn mx e) := by
  intro v c l c' _ henc
  cases v with
  | oct b => ?_
  | _ => simp [encI] at henc
  simp only [encI, ok.injEq, Prod.mk.injEq] at henc
  obtain ⟨rfl, rfl⟩ := henc
  refine ⟨_, rfl, rfl, rfl, ?_⟩
  intro s e' hs
  simp only [Item.payload] at hs
  refine ⟨.oct b, by simp [Val.protoEq, Val.eq_self], ?_, ?_⟩
  · intro n rest
    simp only [dec, Item.fmt, nextReader_head src n .lenDelim s e' rest _ hs, bind_ok]
  · simp only [dec, nextReader_root src .lenDelim s e' _ hs, bind_ok]

theorem bitsVal_pack (bs : List Bool) (h : bs.length < 2 ^ 64) :
    let r := packBits bs ++ be64 bs.length
    ¬ (r.length < 8) ∧
    bitsVal (r.take (r.length - 8)) (beToNat (r.drop (r.length - 8))) = .bits bs := by
  intro r
  have hl : r.length = (packBits bs).length + 8 := by simp [r, be64_length]
  refine ⟨by omega, ?_⟩
  have h1 : r.take (r.length - 8) = packBits bs := by
    rw [hl, Nat.add_sub_cancel]; simp [r]
  have h2 : r.drop (r.length - 8) = be64 bs.length := by
    rw [hl, Nat.add_sub_cancel]; simp [r]
  rw [h1, h2, beToNat_be64 _ h]
  obtain ⟨p1, p2⟩ := packBits_spec bs
  simp only [bitsVal, if_pos p2, p1]

theorem readsOne_bits (mn mx : Option Nat) (e : Bool) : ReadsOne fx src (.bits mn mx e) := by
  intro v c l c' hok henc
  cases v with
  | bits bs => ?_
  | _ => simp [encI] at henc
  simp only [encI, ok.injEq, Prod.mk.injEq] at henc
  obtain ⟨rfl, rfl⟩ := henc
  simp only [rtOK, decide_eq_true_eq] at hok
  refine ⟨_, rfl, rfl, rfl, ?_⟩
  intro s e' hs
  simp only [Item.payload] at hs
  obtain ⟨hb1, hb2⟩ := bitsVal_pack bs hok
  refine ⟨.bits bs, by simp [Val.protoEq, Val.eq_self], ?_, ?_⟩
  · intro n rest
    simp only [dec, Item.fmt, nextReader_head src n .lenDelim s e' rest _ hs, bind_ok]
    rw [if_neg hb1, hb2]
  · simp only [dec, nextReader_root src .lenDelim s e' _ hs, bind_ok]
    rw [if_neg hb1, hb2]
/-! ### components -/

/-- what the reader makes of the fields a component wrote, when they lead the index and nothing
    behind them carries the component's number -/
def ReadsBack (t : Ty) : Prop :=
  ∀ (v : Val) (c : Nat) (l : List Item) (c' : Nat), rtOK t v = true → encI t v c = ok (l, c') →
  ∀ (es rest : List Entry), AllMatch src es l → (∀ e ∈ rest, c' + 1 ≤ e.tag) →
  ∃ v', dec fx src t (.enclosed (c + 1) (es ++ rest)) = ok (v', .enclosed (c' + 1) rest) ∧
    Val.protoEq t v v' = true

theorem AllMatch.nil_inv {src : List Byte} {es : List Entry} (h : AllMatch src es []) : es = [] := by
  cases h; rfl

theorem AllMatch.cons_inv {src : List Byte} {es : List Entry} {it : Item} {l : List Item}
    (h : AllMatch src es (it :: l)) : ∃ e es', es = e :: es' ∧ Matches src e it ∧ AllMatch src es' l := by
  cases h with
  | cons hm hr => exact ⟨_, _, rfl, hm, hr⟩

theorem AllMatch.append_inv {src : List Byte} : ∀ {l1 l2 : List Item} {es : List Entry},
    AllMatch src es (l1 ++ l2) → ∃ es1 es2, es = es1 ++ es2 ∧ AllMatch src es1 l1 ∧ AllMatch src es2 l2 := by
  intro l1
  induction l1 with
  | nil => intro l2 es h; exact ⟨[], es, rfl, AllMatch.nil, h⟩
  | cons it r ih =>
    intro l2 es h
    obtain ⟨e, es', rfl, hm, hr⟩ := AllMatch.cons_inv h
    obtain ⟨es1, es2, rfl, h1, h2⟩ := ih hr
    exact ⟨e :: es1, es2, rfl, AllMatch.cons hm h1, h2⟩

theorem AllMatch.tag_mem {src : List Byte} : ∀ {l : List Item} {es : List Entry},
    AllMatch src es l → ∀ e ∈ es, ∃ it ∈ l, e.tag = it.num := by
  intro l
  induction l with
  | nil => intro es h e he; rw [AllMatch.nil_inv h] at he; simp at he
  | cons it r ih =>
    intro es h e he
    obtain ⟨e0, es', rfl, hm, hr⟩ := AllMatch.cons_inv h
    rcases List.mem_cons.1 he with rfl | he
    · exact ⟨it, by simp, hm.1⟩
    · obtain ⟨x, hx, hxe⟩ := ih hr e he
      exact ⟨x, by simp [hx], hxe⟩

theorem readsBack_of_one {t : Ty} (h : ReadsOne fx src t) : ReadsBack fx src t := by
  intro v c l c' hok henc es rest hm _
  obtain ⟨it, rfl, rfl, hnum, hrd⟩ := h v c l c' hok henc
  obtain ⟨e, es', rfl, hme, hr⟩ := AllMatch.cons_inv hm
  rw [AllMatch.nil_inv hr]
  obtain ⟨v', hpe, h1, _⟩ := hrd e.start e.stop hme.2.2
  refine ⟨v', ?_, hpe⟩
  have he : e = ⟨c + 1, it.fmt, e.start, e.stop⟩ := by
    cases e
    simp only [Entry.mk.injEq, and_true]
    exact ⟨by rw [← hnum]; exact hme.1, hme.2.1⟩
  rw [he]
  exact h1 (c + 1) rest

theorem readsBack_null : ReadsBack fx src .null := by
  intro v c l c' _ henc es rest hm _
  cases v with
  | null => ?_
  | _ => simp [encI] at henc
  simp only [encI, ok.injEq, Prod.mk.injEq] at henc
  obtain ⟨rfl, rfl⟩ := henc
  rw [AllMatch.nil_inv hm]
  exact ⟨.null, by simp [dec], by simp [Val.protoEq, Val.eq_self]⟩

theorem findEntry_none {n : Nat} {filter : Option Fmt} : ∀ {tags : List Entry},
    (∀ e ∈ tags, e.tag ≠ n) → findEntry n filter tags = none := by
  intro tags
  induction tags with
  | nil => intro _; rfl
  | cons t ts ih =>
    intro h
    simp only [findEntry]
    rw [if_neg (fun hc => h t (by simp) hc.1), ih (fun e he => h e (by simp [he]))]

theorem encListWith_cons_inv {f : Val → Outcome (List Item)} {v : Val} {vs : Vals} {l : List Item}
    (h : encListWith f (.cons v vs) = ok l) : ∃ a b, f v = ok a ∧ encListWith f vs = ok b ∧ l = a ++ b := by
  simp only [encListWith] at h
  obtain ⟨a, ha, h2⟩ := bind_ok_inv h
  obtain ⟨b, hb, h3⟩ := bind_ok_inv h2
  simp only [ok.injEq] at h3
  exact ⟨a, b, ha, hb, h3.symm⟩

/-- the reading loop over the elements of a SEQUENCE OF -/
theorem decList_items {elem : Ty} (hone : ReadsOne fx src elem) (c : Nat) :
    ∀ (vs : Vals) (l : List Item), allWith (fun x => rtOK elem x) vs = true →
    encListWith (fun x => Prod.fst <$> encI elem x c) vs = ok l →
    ∀ (es rest : List Entry) (fuel : Nat), AllMatch src es l → (∀ e ∈ rest, e.tag ≠ c + 1) →
    es.length < fuel →
    ∃ vs', decListWith (fun s => dec fx src elem s) fuel (.enclosed (c + 1) (es ++ rest)) =
        ok (vs', .enclosed (c + 1) rest) ∧
      protoEqListWith (fun x y => Val.protoEq elem x y) vs vs' = true
  | .nil, l, _, henc, es, rest, fuel, hm, hrest, hfuel => by
    simp only [encListWith, ok.injEq] at henc
    subst henc
    rw [AllMatch.nil_inv hm]
    cases fuel with
    | zero => simp at hfuel
    | succ f =>
      refine ⟨.nil, ?_, by simp [protoEqListWith]⟩
      simp only [decListWith, nextTagRange, List.nil_append, findEntry_none hrest]
      rfl
  | .cons v vs, l, hall, henc, es, rest, fuel, hm, hrest, hfuel => by
    simp only [allWith, Bool.and_eq_true] at hall
    obtain ⟨a, b, ha, hb, rfl⟩ := encListWith_cons_inv henc
    cases hav : encI elem v c with
    | panic => rw [hav] at ha; simp at ha
    | err k => rw [hav] at ha; simp at ha
    | ok p =>
      obtain ⟨a', c1⟩ := p
      rw [hav] at ha
      simp only [map_ok, ok.injEq] at ha
      subst ha
      obtain ⟨it, rfl, _, hnum, hrd⟩ := hone v c a' c1 hall.1 hav
      obtain ⟨e, es', rfl, hme, hr⟩ := AllMatch.cons_inv hm
      obtain ⟨v', hpe, _, hroot⟩ := hrd e.start e.stop hme.2.2
      cases fuel with
      | zero => simp at hfuel
      | succ f =>
        obtain ⟨vs', hl, hpl⟩ := decList_items hone c vs b hall.2 hb es' rest f hr hrest
          (by simp at hfuel; omega)
        refine ⟨.cons v' vs', ?_, by simp [protoEqListWith, hpe, hpl]⟩
        have he : e = ⟨c + 1, e.fmt, e.start, e.stop⟩ := by
          cases e
          simp only [Entry.mk.injEq, and_true]
          rw [← hnum]; exact hme.1
        simp only [decListWith, nextTagRange, List.cons_append]
        rw [he, findEntry_head (c + 1) e.fmt e.start e.stop (es' ++ rest) none (Or.inl rfl)]
        simp only [Bool.false_eq_true, if_false, hroot, bind_ok, hl]

theorem readsBack_list {elem : Ty} (mn mx : Option Nat) (ex : Bool) (hone : ReadsOne fx src elem) :
    ReadsBack fx src (.seqOf mn mx ex elem) := by
  intro v c l c' hok henc es rest hm hrest
  cases v with
  | list vs => ?_
  | _ => simp [encI] at henc
  simp only [encI] at henc
  obtain ⟨body, hb, h2⟩ := bind_ok_inv henc
  simp only [ok.injEq, Prod.mk.injEq] at h2
  obtain ⟨rfl, rfl⟩ := h2
  simp only [rtOK, Bool.and_eq_true] at hok
  obtain ⟨vs', hl, hpl⟩ := decList_items fx src hone c vs body hok.2 hb es rest ((es ++ rest).length + 1) hm
    (fun e he => by have := hrest e he; omega) (by simp; omega)
  refine ⟨.list vs', ?_, by simp [Val.protoEq, hpl]⟩
  simp only [dec, hl, bind_ok, RState.bump]

/-- a `single` type writes exactly one field -/
theorem encI_single {t : Ty} {v : Val} {c : Nat} {l : List Item} {c' : Nat}
    (hs : Ty.single t = true) (h : encI t v c = ok (l, c')) : ∃ it, l = [it] := by
  cases t with
  | null => simp [Ty.single] at hs
  | seqOf mn mx e elem => simp [Ty.single] at hs
  | bool =>
    cases v <;> simp [encI] at h
    exact ⟨_, h.1.symm⟩
  | int mn mx e w s =>
    cases v <;> simp only [encI] at h <;> try (simp at h)
    split at h <;> simp at h
    exact ⟨_, h.1.symm⟩
  | enum s tot e =>
    cases v <;> simp only [encI] at h <;> try (simp at h)
    split at h <;> simp at h
    exact ⟨_, h.1.symm⟩
  | str cs mn mx e =>
    cases v <;> simp only [encI] at h <;> try (simp at h)
    split at h <;> simp at h
    exact ⟨_, h.1.symm⟩
  | oct mn mx e =>
    cases v <;> simp [encI] at h
    exact ⟨_, h.1.symm⟩
  | bits mn mx e =>
    cases v <;> simp [encI] at h
    exact ⟨_, h.1.symm⟩
  | seq so fc ea fields =>
    cases v <;> simp only [encI] at h <;> try (simp at h)
    obtain ⟨p, _, h2⟩ := bind_ok_inv h
    simp only [ok.injEq, Prod.mk.injEq] at h2
    exact ⟨_, h2.1.symm⟩
  | choice s tot e alts =>
    cases v <;> simp only [encI] at h <;> try (simp at h)
    obtain ⟨p, _, h2⟩ := bind_ok_inv h
    simp only [ok.injEq, Prod.mk.injEq] at h2
    exact ⟨_, h2.1.symm⟩

/-- a present OPTIONAL component that writes no field at all is an empty SEQUENCE OF -/
theorem encI_nil_inv {t : Ty} {x : Val} {c c1 : Nat} (h : encI t x c = ok ([], c1))
    (hok : rtOK t x = true) (hnn : ∀ (_ : t = .null), False) :
    (x == Ty.protoDefault t) = true ∧ c1 = c + 1 := by
  cases t with
  | null => exact (hnn rfl).elim
  | seqOf mn mx e elem =>
    cases x with
    | list vs => ?_
    | _ => simp [encI] at h
    simp only [encI] at h
    obtain ⟨body, hb, h2⟩ := bind_ok_inv h
    simp only [ok.injEq, Prod.mk.injEq] at h2
    obtain ⟨rfl, rfl⟩ := h2
    simp only [rtOK, Bool.and_eq_true] at hok
    cases vs with
    | nil => exact ⟨by simp [Ty.protoDefault, Val.eq_self], rfl⟩
    | cons v vs =>
      obtain ⟨a, b, ha, _, hab⟩ := encListWith_cons_inv hb
      cases hav : encI elem v c with
      | panic => rw [hav] at ha; simp at ha
      | err k => rw [hav] at ha; simp at ha
      | ok p =>
        rw [hav] at ha
        simp only [map_ok, ok.injEq] at ha
        obtain ⟨it, hit⟩ := encI_single hok.1 (show encI elem v c = ok (p.1, p.2) from hav)
        rw [← ha, hit] at hab
        simp at hab
  | bool => obtain ⟨it, hit⟩ := encI_single (by rfl) h; simp at hit
  | int mn mx e w s => obtain ⟨it, hit⟩ := encI_single (by rfl) h; simp at hit
  | enum s tot e => obtain ⟨it, hit⟩ := encI_single (by rfl) h; simp at hit
  | str cs mn mx e => obtain ⟨it, hit⟩ := encI_single (by rfl) h; simp at hit
  | oct mn mx e => obtain ⟨it, hit⟩ := encI_single (by rfl) h; simp at hit
  | bits mn mx e => obtain ⟨it, hit⟩ := encI_single (by rfl) h; simp at hit
  | seq so fc ea fields => obtain ⟨it, hit⟩ := encI_single (by rfl) h; simp at hit
  | choice s tot e alts => obtain ⟨it, hit⟩ := encI_single (by rfl) h; simp at hit

/-- the component of a field list: its own fields, the new counter -/
theorem encFieldsI_cons_inv {k : Kind} {t : Ty} {rest : Fields} {v : Val} {vs : Vals} {c : Nat}
    {ls : List (List Item)} {c' : Nat} (h : encFieldsI (.cons k t rest) (.cons v vs) c = ok (ls, c')) :
    ∃ a c1 b, (match k, v with
        | .o, .none => ok ([], c + 1)
        | .o, .some x => encI t x c
        | .o, _ => err .illTyped
        | _, v => encI t v c : Outcome (List Item × Nat)) = ok (a, c1) ∧
      encFieldsI rest vs c1 = ok (b, c') ∧ ls = a :: b := by
  simp only [encFieldsI] at h
  split at h
  · rename_i a c1 h1
    split at h
    · rename_i b c2 h2
      simp only [ok.injEq, Prod.mk.injEq] at h
      obtain ⟨rfl, rfl⟩ := h
      exact ⟨a, c1, b, h1, h2, rfl⟩
    · simp at h
    · simp at h
  · simp at h
  · simp at h

/-- the numbers in a message only grow -/
theorem encFieldsI_nums : ∀ (fs : Fields) (vs : Vals) (c : Nat) (ls : List (List Item)) (c' : Nat),
    encFieldsI fs vs c = ok (ls, c') → c ≤ c' ∧ ∀ it ∈ ls.flatten, c + 1 ≤ it.num
  | .nil, vs, c, ls, c', h => by
    cases vs <;> simp [encFieldsI] at h
    obtain ⟨rfl, rfl⟩ := h; simp
  | .cons k t rest, vs, c, ls, c', h => by
    cases vs with
    | nil => simp [encFieldsI] at h
    | cons v vs =>
      obtain ⟨a, c1, b, h1, h2, rfl⟩ := encFieldsI_cons_inv h
      obtain ⟨hle, hnum⟩ := encFieldsI_nums rest vs c1 b c' h2
      have hone : c ≤ c1 ∧ ∀ it ∈ a, it.num = c + 1 := by
        split at h1
        · simp only [ok.injEq, Prod.mk.injEq] at h1
          obtain ⟨rfl, rfl⟩ := h1; simp
        · obtain ⟨hc, hn⟩ := encI_num _ _ _ _ _ h1
          exact ⟨by rw [hc]; omega, hn⟩
        · simp at h1
        · obtain ⟨hc, hn⟩ := encI_num _ _ _ _ _ h1
          exact ⟨by rw [hc]; omega, hn⟩
      refine ⟨by omega, ?_⟩
      intro it hit
      simp only [List.flatten_cons, List.mem_append] at hit
      rcases hit with h | h
      · rw [hone.2 it h]; omega
      · have := hnum it h; omega

/-- what the reader makes of the index of a whole message -/
def ReadsFields (fs : Fields) : Prop :=
  ∀ (vs : Vals) (c : Nat) (ls : List (List Item)) (c' : Nat), rtOKFields fs vs = true →
  Fields.noOptNull fs = true → encFieldsI fs vs c = ok (ls, c') →
  ∀ (es : List Entry), AllMatch src es ls.flatten →
  ∃ vs', decFields fx src fs (.enclosed (c + 1) es) = ok (vs', .enclosed (c' + 1) []) ∧
    Vals.protoEq fs vs vs' = true

theorem readsFields_nil : ReadsFields fx src .nil := by
  intro vs c ls c' _ _ henc es hm
  cases vs <;> simp [encFieldsI] at henc
  obtain ⟨rfl, rfl⟩ := henc
  simp only [List.flatten_nil] at hm
  rw [AllMatch.nil_inv hm]
  exact ⟨.nil, by simp [decFields], by simp [Vals.protoEq]⟩

theorem hasNextTag_false {c : Nat} {tags : List Entry} (h : ∀ e ∈ tags, e.tag ≠ c) :
    hasNextTag (.enclosed c tags) = false := by
  simp only [hasNextTag, List.any_eq_false, decide_eq_true_eq]
  exact h

theorem hasNextTag_head {c : Nat} {e : Entry} {tags : List Entry} (h : e.tag = c) :
    hasNextTag (.enclosed c (e :: tags)) = true := by
  simp [hasNextTag, h]

theorem readsFields_cons {k : Kind} {t : Ty} {rest : Fields} (hb : ReadsBack fx src t)
    (hr : ReadsFields fx src rest) : ReadsFields fx src (.cons k t rest) := by
  intro vs c ls c' hok hnn henc es hm
  cases vs with
  | nil => simp [encFieldsI] at henc
  | cons v vs =>
    obtain ⟨a, c1, b, h1, h2, rfl⟩ := encFieldsI_cons_inv henc
    simp only [List.flatten_cons] at hm
    obtain ⟨es1, es2, rfl, hm1, hm2⟩ := AllMatch.append_inv hm
    simp only [rtOKFields, Bool.and_eq_true] at hok
    simp only [Fields.noOptNull, Bool.and_eq_true] at hnn
    obtain ⟨_, hnumrest⟩ := encFieldsI_nums rest vs c1 b c' h2
    -- the entries of the later components carry numbers above `c1`
    have hrest : ∀ e ∈ es2, c1 + 1 ≤ e.tag := by
      intro e he
      obtain ⟨it, hit, hte⟩ := AllMatch.tag_mem hm2 e he
      rw [hte]; exact hnumrest it hit
    -- finishing with the remaining components
    have hfin : ∀ (x' : Val), (match k, v, x' with
          | .o, .some x, .some y => Val.protoEq t x y
          | .o, .some x, .none => x == Ty.protoDefault t
          | .o, .none, .some y => Ty.protoDefault t == y
          | .o, .none, .none => true
          | .o, _, _ => false
          | _, a, b => Val.protoEq t a b) = true →
        ∃ vs', (match decFields fx src rest (.enclosed (c1 + 1) es2) with
            | .ok (vs, st2) => ok (Vals.cons x' vs, st2)
            | .err e => err e
            | .panic => panic : Outcome (Vals × RState)) = ok (vs', .enclosed (c' + 1) []) ∧
          Vals.protoEq (.cons k t rest) (.cons v vs) vs' = true := by
      intro x' hx'
      obtain ⟨vs', hd, hp⟩ := hr vs c1 b c' hok.2 hnn.2 h2 es2 hm2
      refine ⟨.cons x' vs', by rw [hd], ?_⟩
      simp only [Vals.protoEq, Bool.and_eq_true]
      refine ⟨?_, hp⟩
      cases k <;> first | exact hx' | (cases v <;> cases x' <;> first | exact hx' | simp at hx')
    cases k with
    | m =>
      simp only at h1 hok
      obtain ⟨v', hd, hp⟩ := hb v c a c1 hok.1 h1 es1 es2 hm1 hrest
      simp only [decFields, hd]
      exact hfin v' hp
    | d dv =>
      simp only at h1 hok
      obtain ⟨v', hd, hp⟩ := hb v c a c1 hok.1 h1 es1 es2 hm1 hrest
      simp only [decFields, hd]
      exact hfin v' hp
    | o =>
      cases v with
      | none =>
        simp only [ok.injEq, Prod.mk.injEq] at h1
        obtain ⟨rfl, rfl⟩ := h1
        rw [AllMatch.nil_inv hm1]
        have hno : hasNextTag (.enclosed (c + 1) es2) = false :=
          hasNextTag_false (fun e he => by have := hrest e he; omega)
        simp only [decFields, List.nil_append, hno, Bool.false_eq_true, if_false, RState.bump]
        exact hfin .none (by simp)
      | some x =>
        simp only at h1 hok
        have htn : ∀ (_ : t = .null), False := by
          intro ht; subst ht; simp at hnn
        cases a with
        | nil =>
          obtain ⟨hdef, rfl⟩ := encI_nil_inv h1 hok.1 htn
          rw [AllMatch.nil_inv hm1]
          have hno : hasNextTag (.enclosed (c + 1) es2) = false :=
            hasNextTag_false (fun e he => by have := hrest e he; omega)
          simp only [decFields, List.nil_append, hno, Bool.false_eq_true, if_false, RState.bump]
          exact hfin .none hdef
        | cons it a' =>
          obtain ⟨e, es1', rfl, hme, _⟩ := AllMatch.cons_inv hm1
          have htag : e.tag = c + 1 := by
            rw [hme.1]; exact (encI_num _ _ _ _ _ h1).2 it (by simp)
          have hyes : hasNextTag (.enclosed (c + 1) ((e :: es1') ++ es2)) = true := by
            simp only [List.cons_append]; exact hasNextTag_head htag
          obtain ⟨x', hd, hp⟩ := hb x c (it :: a') c1 hok.1 h1 (e :: es1') es2 hm1 hrest
          simp only [decFields, hyes, if_true, hd]
          exact hfin (.some x') hp
      | bool _ => simp at h1
      | null => simp at h1
      | int _ => simp at h1
      | enum _ => simp at h1
      | str _ => simp at h1
      | oct _ => simp at h1
      | bits _ => simp at h1
      | list _ => simp at h1
      | seq _ => simp at h1
      | choice _ _ => simp at h1
/-! ### nested messages and CHOICEs -/

def Item.valueOK : Item → Prop
  | .varint _ v => v < 2 ^ 64
  | .bytes _ _ => True

theorem encI_valueOK : ∀ (t : Ty) (v : Val) (c : Nat) (l : List Item) (c' : Nat),
    encI t v c = ok (l, c') → ∀ it ∈ l, it.valueOK
  | .bool, v, c, l, c', h => by
    cases v <;> simp [encI] at h
    obtain ⟨rfl, rfl⟩ := h
    intro it hit; simp only [List.mem_singleton] at hit; subst hit
    simp only [Item.valueOK]; split <;> decide
  | .null, v, c, l, c', h => by
    cases v <;> simp [encI] at h
    obtain ⟨rfl, rfl⟩ := h; simp
  | .int mn mx e w s, v, c, l, c', h => by
    cases v <;> simp only [encI] at h <;> try (simp at h)
    split at h <;> simp at h
    obtain ⟨rfl, rfl⟩ := h
    intro it hit; simp only [List.mem_singleton] at hit; subst hit
    exact intToVarint_lt _ _
  | .enum s tot e, v, c, l, c', h => by
    cases v <;> simp only [encI] at h <;> try (simp at h)
    split at h <;> simp at h
    obtain ⟨rfl, rfl⟩ := h
    intro it hit; simp only [List.mem_singleton] at hit; subst hit
    simp only [Item.valueOK]; omega
  | .str cs mn mx e, v, c, l, c', h => by
    cases v <;> simp only [encI] at h <;> try (simp at h)
    split at h <;> simp at h
    obtain ⟨rfl, rfl⟩ := h
    intro it hit; simp only [List.mem_singleton] at hit; subst hit; trivial
  | .oct mn mx e, v, c, l, c', h => by
    cases v <;> simp [encI] at h
    obtain ⟨rfl, rfl⟩ := h
    intro it hit; simp only [List.mem_singleton] at hit; subst hit; trivial
  | .bits mn mx e, v, c, l, c', h => by
    cases v <;> simp [encI] at h
    obtain ⟨rfl, rfl⟩ := h
    intro it hit; simp only [List.mem_singleton] at hit; subst hit; trivial
  | .seqOf mn mx e elem, v, c, l, c', h => by
    cases v <;> simp only [encI] at h <;> try (simp at h)
    rename_i vs
    obtain ⟨body, hb, h2⟩ := bind_ok_inv h
    simp only [ok.injEq, Prod.mk.injEq] at h2
    obtain ⟨rfl, rfl⟩ := h2
    refine encListWith_forall Item.valueOK _ ?_ vs body hb
    intro x lx hx
    cases hx' : encI elem x c with
    | panic => rw [hx'] at hx; simp at hx
    | err k => rw [hx'] at hx; simp at hx
    | ok p =>
      rw [hx'] at hx
      simp only [map_ok, ok.injEq] at hx
      subst hx
      exact encI_valueOK elem x c p.1 p.2 hx'
  | .seq so fc ea fields, v, c, l, c', h => by
    cases v <;> simp only [encI] at h <;> try (simp at h)
    obtain ⟨p, _, h2⟩ := bind_ok_inv h
    simp only [ok.injEq, Prod.mk.injEq] at h2
    obtain ⟨rfl, rfl⟩ := h2
    intro it hit; simp only [List.mem_singleton] at hit; subst hit; trivial
  | .choice s tot e alts, v, c, l, c', h => by
    cases v <;> simp only [encI] at h <;> try (simp at h)
    obtain ⟨p, _, h2⟩ := bind_ok_inv h
    simp only [ok.injEq, Prod.mk.injEq] at h2
    obtain ⟨rfl, rfl⟩ := h2
    intro it hit; simp only [List.mem_singleton] at hit; subst hit; trivial

theorem encI_num_le {t : Ty} {v : Val} {c : Nat} {l : List Item} {c' : Nat}
    (h : encI t v c = ok (l, c')) : c' ≤ c + 1 ∧ ∀ it ∈ l, it.num ≤ c' := by
  obtain ⟨hc, hn⟩ := encI_num _ _ _ _ _ h
  cases t with
  | null =>
    cases v <;> simp [encI] at h
    obtain ⟨rfl, rfl⟩ := h; simp
  | _ =>
    simp only [Ty.counts, if_true] at hc
    exact ⟨by omega, fun it hit => by rw [hn it hit, hc]; exact Nat.le_refl _⟩

/-- numbers stay below the counter, the counter below the number of components -/
theorem encFieldsI_bound : ∀ (fs : Fields) (vs : Vals) (c : Nat) (ls : List (List Item)) (c' : Nat),
    encFieldsI fs vs c = ok (ls, c') →
    c' ≤ c + fs.length ∧ ∀ it ∈ ls.flatten, it.num ≤ c' ∧ it.valueOK
  | .nil, vs, c, ls, c', h => by
    cases vs <;> simp [encFieldsI] at h
    obtain ⟨rfl, rfl⟩ := h; simp [Fields.length]
  | .cons k t rest, vs, c, ls, c', h => by
    cases vs with
    | nil => simp [encFieldsI] at h
    | cons v vs =>
      obtain ⟨a, c1, b, h1, h2, rfl⟩ := encFieldsI_cons_inv h
      obtain ⟨hle, hnum⟩ := encFieldsI_bound rest vs c1 b c' h2
      obtain ⟨hge, _⟩ := encFieldsI_nums rest vs c1 b c' h2
      have hone : c1 ≤ c + 1 ∧ ∀ it ∈ a, it.num ≤ c1 ∧ it.valueOK := by
        split at h1
        · simp only [ok.injEq, Prod.mk.injEq] at h1
          obtain ⟨rfl, rfl⟩ := h1; simp
        · obtain ⟨hc, hn⟩ := encI_num_le h1
          have hv := encI_valueOK _ _ _ _ _ h1
          exact ⟨hc, fun it hit => ⟨hn it hit, hv it hit⟩⟩
        · simp at h1
        · obtain ⟨hc, hn⟩ := encI_num_le h1
          have hv := encI_valueOK _ _ _ _ _ h1
          exact ⟨hc, fun it hit => ⟨hn it hit, hv it hit⟩⟩
      refine ⟨by simp only [Fields.length]; omega, ?_⟩
      intro it hit
      simp only [List.flatten_cons, List.mem_append] at hit
      rcases hit with h | h
      · exact ⟨by have := (hone.2 it h).1; omega, (hone.2 it h).2⟩
      · exact hnum it h

theorem Item.payload_le (it : Item) : it.payload.length ≤ it.encode.length := by
  cases it <;> simp [Item.payload, Item.encode, writeBytes] <;> omega

theorem items_length_le : ∀ (l : List Item), l.length ≤ (itemsBytes l).length
  | [] => by simp
  | it :: r => by
    have := items_length_le r
    have hp : 0 < it.encode.length := List.length_pos_iff.2 (Item.encode_ne_nil it)
    simp only [itemsBytes, List.length_cons, List.length_append]; omega

theorem items_payload_le : ∀ (l : List Item) (it : Item), it ∈ l → it.payload.length ≤ (itemsBytes l).length
  | [], it, h => by simp at h
  | x :: r, it, h => by
    simp only [itemsBytes, List.length_append]
    rcases List.mem_cons.1 h with rfl | h
    · have := Item.payload_le it; omega
    · have := items_payload_le r it h; omega

/-- a message that lies inside the source consists of fields the wire format can carry -/
theorem items_WF {l : List Item} {bound : Nat} (hb : bound < 2 ^ 29)
    (h : ∀ it ∈ l, it.num ≤ bound ∧ it.valueOK) (hl : (itemsBytes l).length < 2 ^ 64) :
    ∀ it ∈ l, it.WF := by
  intro it hit
  obtain ⟨h1, h2⟩ := h it hit
  have h3 := items_payload_le l it hit
  cases it with
  | varint n v => exact ⟨by simp only [Item.num] at h1; omega, h2⟩
  | bytes n p => exact ⟨by simp only [Item.num] at h1; omega, by simp only [Item.payload] at h3; omega⟩

/-- the index of a message found at `src[s..e]` -/
theorem indexEnclosed_items (hlen : src.length ≤ U64_MAX) {l : List Item} {s e : Nat}
    (hs : sliceOf src s e = ok (itemsBytes l)) (hwf : ∀ it ∈ l, it.WF) :
    ∃ es, indexEnclosed fx src s e = ok es ∧ AllMatch src es l := by
  obtain ⟨hd, he, _⟩ := sliceOf_split hs
  have := indexLoop_items fx src hlen l (src.drop e) s e (e - s + 1) [] hd he hwf
    (by have := items_length_le l; omega)
  simpa [indexEnclosed] using this

theorem readsOne_seq (hlen : src.length ≤ U64_MAX) (so fc : Nat) (ea : Option Nat) {fields : Fields}
    (hf : ReadsFields fx src fields) : ReadsOne fx src (.seq so fc ea fields) := by
  intro v c l c' hok henc
  cases v with
  | seq vs => ?_
  | _ => simp [encI] at henc
  simp only [encI] at henc
  obtain ⟨⟨content, cf⟩, hc, h2⟩ := bind_ok_inv henc
  simp only [ok.injEq, Prod.mk.injEq] at h2
  obtain ⟨rfl, rfl⟩ := h2
  simp only [rtOK, Bool.and_eq_true, decide_eq_true_eq] at hok
  refine ⟨_, rfl, rfl, rfl, ?_⟩
  intro s e hs
  simp only [Item.payload] at hs
  obtain ⟨hcf, hb⟩ := encFieldsI_bound fields vs 0 content cf hc
  have hlen' : (itemsBytes content.flatten).length < 2 ^ 64 := by
    obtain ⟨_, he, hle⟩ := sliceOf_split hs
    have : U64_MAX = 2 ^ 64 - 1 := rfl
    omega
  have hwf := items_WF (bound := cf) (by omega) hb hlen'
  obtain ⟨es, hidx, hm⟩ := indexEnclosed_items fx src hlen hs hwf
  obtain ⟨vs', hd, hp⟩ := hf vs 0 content cf hok.2 hok.1.2 hc es hm
  refine ⟨.seq vs', by simp [Val.protoEq, hp], ?_, ?_⟩
  · intro n rest
    simp only [dec, Item.fmt, nextTagRange, findEntry_head n .lenDelim s e rest (some .lenDelim) (Or.inr rfl),
      if_true, Option.getD, hidx, bind_ok, hd]
  · simp only [dec, nextTagRange, Option.getD, hidx, bind_ok, hd]

/-- `P` holds for every alternative that is written as one field -/
def AllAlts (P : Ty → Prop) : Fields → Prop
  | .nil => True
  | .cons _ t rest => (Ty.single t = true → P t) ∧ AllAlts P rest

/-- the alternative a CHOICE value selects: writer, reader and `ProtobufEq` pick the same type -/
theorem alt_lookup (P : Ty → Prop) : ∀ (alts : Fields) (i idx : Nat) (x : Val) (content : List Item),
    AllAlts P alts → encAltI alts i idx x = ok content → rtOKAlt alts i x = true →
    ∃ t, P t ∧ rtOK t x = true ∧ (∃ c', encI t x idx = ok (content, c')) ∧
      (∀ st, decAlt fx src alts i st = Prod.fst <$> dec fx src t st) ∧
      (∀ y, Val.protoEqAlt alts i x y = Val.protoEq t x y)
  | .nil, i, idx, x, content, _, h, _ => by simp [encAltI] at h
  | .cons k t rest, 0, idx, x, content, hall, h, hok => by
    simp only [rtOKAlt, Bool.and_eq_true] at hok
    simp only [encAltI] at h
    cases he : encI t x idx with
    | panic => rw [he] at h; simp at h
    | err e => rw [he] at h; simp at h
    | ok p =>
      rw [he] at h
      simp only [map_ok, ok.injEq] at h
      subst h
      exact ⟨t, hall.1 hok.1, hok.2, ⟨p.2, by rw [he]⟩, fun st => by simp [decAlt], fun y => by simp [Val.protoEqAlt]⟩
  | .cons k t rest, i + 1, idx, x, content, hall, h, hok => by
    simp only [rtOKAlt] at hok
    simp only [encAltI] at h
    obtain ⟨t', h1, h2, h3, h4, h5⟩ := alt_lookup P rest i idx x content hall.2 h hok
    exact ⟨t', h1, h2, h3, fun st => by simp [decAlt, h4], fun y => by simp [Val.protoEqAlt, h5]⟩

theorem readsOne_choice (hlen : src.length ≤ U64_MAX) (sd tot : Nat) (ex : Bool) {alts : Fields}
    (ha : AllAlts (ReadsOne fx src) alts) : ReadsOne fx src (.choice sd tot ex alts) := by
  intro v c l c' hok henc
  cases v with
  | choice i x => ?_
  | _ => simp [encI] at henc
  simp only [encI] at henc
  obtain ⟨content, hc, h2⟩ := bind_ok_inv henc
  simp only [ok.injEq, Prod.mk.injEq] at h2
  obtain ⟨rfl, rfl⟩ := h2
  simp only [rtOK, Bool.and_eq_true, decide_eq_true_eq] at hok
  obtain ⟨t, hone, htok, ⟨ct, henct⟩, hdecalt, hpeq⟩ := alt_lookup fx src _ alts i i x content ha hc hok.2
  obtain ⟨it, rfl, _, hnum, hrd⟩ := hone x i content ct htok henct
  refine ⟨_, rfl, rfl, rfl, ?_⟩
  intro s e hs
  simp only [Item.payload, itemsBytes, List.append_nil] at hs
  obtain ⟨hdrop, he, hele⟩ := sliceOf_split hs
  have hval := encI_valueOK _ _ _ _ _ henct it (by simp)
  have hple := Item.payload_le it
  have hU : U64_MAX = 2 ^ 64 - 1 := rfl
  cases it with
  | varint n w =>
    simp only [Item.num] at hnum
    subst hnum
    simp only [Item.valueOK] at hval
    have htag := readTag_writeTag (field := i + 1) (by omega) .varint (writeVarint w)
    have hl : (Item.varint (i + 1) w).encode.length = (writeTag (i + 1) .varint).length + (writeVarint w).length := by
      simp [Item.encode]
    -- the content of the inner field
    have hin : sliceOf src (s + ((Item.varint (i + 1) w).encode.length - (writeVarint w).length)) e =
        ok (writeVarint w) := by
      have h1 : (Item.varint (i + 1) w).encode.length - (writeVarint w).length = (writeTag (i + 1) .varint).length := by
        rw [hl]; omega
      rw [h1, he, hl, ← Nat.add_assoc]
      apply sliceOf_of_drop (post := src.drop e) (by omega)
      rw [← List.drop_drop, hdrop]
      simp [Item.encode, List.append_assoc]
    obtain ⟨x', hpe, hdx, _⟩ := hrd _ _ hin
    refine ⟨.choice i x', by simp [Val.protoEq, hpeq, hpe], ?_, ?_⟩
    · intro n rest
      simp only [dec, Item.fmt, nextTagRange, findEntry_head n .lenDelim s e rest none (Or.inl rfl), if_true,
        hs, bind_ok, Item.encode, htag]
      simp only [show (Fmt.varint = Fmt.lenDelim) = False from by simp, if_false, bind_ok, Nat.add_sub_cancel,
        hdecalt]
      simp only [Item.encode, Item.fmt] at hdx
      rw [hdx 1 []]
      rfl
    · simp only [dec, nextTagRange, hs, bind_ok, Item.encode, htag]
      simp only [show (Fmt.varint = Fmt.lenDelim) = False from by simp, if_false, bind_ok, Nat.add_sub_cancel,
        hdecalt]
      simp only [Item.encode, Item.fmt] at hdx
      rw [hdx 1 []]
      rfl
  | bytes n p =>
    simp only [Item.num] at hnum
    subst hnum
    have hl : (Item.bytes (i + 1) p).encode.length =
        (writeTag (i + 1) .lenDelim).length + (writeVarint p.length).length + p.length := by
      simp [Item.encode, writeBytes, Nat.add_assoc]
    have hp : p.length < 2 ^ 64 := by omega
    have htag := readTag_writeTag (field := i + 1) (by omega) .lenDelim (writeBytes p)
    have hrv : readVarint (writeBytes p) = ok (p.length, p) := by
      simpa [writeBytes] using readVarint_writeVarint p.length hp p
    have hin : sliceOf src (s + ((Item.bytes (i + 1) p).encode.length - p.length)) e = ok p := by
      have h1 : (Item.bytes (i + 1) p).encode.length - p.length =
          (writeTag (i + 1) .lenDelim).length + (writeVarint p.length).length := by
        rw [hl]; omega
      rw [h1, he, hl]
      have : s + ((writeTag (i + 1) Fmt.lenDelim).length + (writeVarint p.length).length + p.length) =
          s + ((writeTag (i + 1) Fmt.lenDelim).length + (writeVarint p.length).length) + p.length := by omega
      rw [this]
      apply sliceOf_of_drop (post := src.drop e) (by omega)
      rw [← List.drop_drop, hdrop]
      simp [Item.encode, writeBytes, List.append_assoc]
    obtain ⟨x', hpe, hdx, _⟩ := hrd _ _ hin
    refine ⟨.choice i x', by simp [Val.protoEq, hpeq, hpe], ?_, ?_⟩
    · intro n rest
      simp only [dec, Item.fmt, nextTagRange, findEntry_head n .lenDelim s e rest none (Or.inl rfl), if_true,
        hs, bind_ok, Item.encode, htag, hrv, Nat.add_sub_cancel, hdecalt]
      simp only [Item.encode, Item.fmt, Item.payload] at hdx
      rw [hdx 1 []]
      rfl
    · simp only [dec, nextTagRange, hs, bind_ok, Item.encode, htag, hrv, if_true, Nat.add_sub_cancel, hdecalt]
      simp only [Item.encode, Item.fmt, Item.payload] at hdx
      rw [hdx 1 []]
      rfl

mutual
theorem readsOne_all (hlen : src.length ≤ U64_MAX) : ∀ (t : Ty), Ty.single t = true → ReadsOne fx src t
  | .bool, _ => readsOne_bool fx src
  | .null, h => by simp [Ty.single] at h
  | .int mn mx e w s, _ => readsOne_int fx src mn mx e w s
  | .enum sd tot e, _ => readsOne_enum fx src sd tot e
  | .str cs mn mx e, _ => readsOne_str fx src cs mn mx e
  | .oct mn mx e, _ => readsOne_oct fx src mn mx e
  | .bits mn mx e, _ => readsOne_bits fx src mn mx e
  | .seqOf mn mx e elem, h => by simp [Ty.single] at h
  | .seq so fc ea fields, _ => readsOne_seq fx src hlen so fc ea (readsFields_all hlen fields)
  | .choice sd tot ex alts, _ => readsOne_choice fx src hlen sd tot ex (allAlts_all hlen alts)
theorem readsBack_all (hlen : src.length ≤ U64_MAX) : ∀ (t : Ty), ReadsBack fx src t
  | .bool => readsBack_of_one fx src (readsOne_bool fx src)
  | .null => readsBack_null fx src
  | .int mn mx e w s => readsBack_of_one fx src (readsOne_int fx src mn mx e w s)
  | .enum sd tot e => readsBack_of_one fx src (readsOne_enum fx src sd tot e)
  | .str cs mn mx e => readsBack_of_one fx src (readsOne_str fx src cs mn mx e)
  | .oct mn mx e => readsBack_of_one fx src (readsOne_oct fx src mn mx e)
  | .bits mn mx e => readsBack_of_one fx src (readsOne_bits fx src mn mx e)
  | .seqOf mn mx e elem => by
    by_cases hs : Ty.single elem = true
    · exact readsBack_list fx src mn mx e (readsOne_all hlen elem hs)
    · intro v c l c' hok
      simp only [rtOK, Bool.and_eq_true] at hok
      exact absurd hok.1 hs
  | .seq so fc ea fields =>
    readsBack_of_one fx src (readsOne_seq fx src hlen so fc ea (readsFields_all hlen fields))
  | .choice sd tot ex alts =>
    readsBack_of_one fx src (readsOne_choice fx src hlen sd tot ex (allAlts_all hlen alts))
theorem readsFields_all (hlen : src.length ≤ U64_MAX) : ∀ (fs : Fields), ReadsFields fx src fs
  | .nil => readsFields_nil fx src
  | .cons _ t rest => readsFields_cons fx src (readsBack_all hlen t) (readsFields_all hlen rest)
theorem allAlts_all (hlen : src.length ≤ U64_MAX) : ∀ (alts : Fields), AllAlts (ReadsOne fx src) alts
  | .nil => trivial
  | .cons _ t rest => ⟨fun hs => readsOne_all hlen t hs, allAlts_all hlen rest⟩
end

/-- the octets of a root value are the content of the field the same value would be written as
    inside another message -/
theorem encode_as_item {t : Ty} {v : Val} {bytes : List Byte} (h : encode t v = ok bytes) :
    ∃ it, encI t v 0 = ok ([it], 1) ∧ it.payload = bytes ∧ Ty.single t = true := by
  cases t with
  | enum sd tot e =>
    cases v with
    | enum i =>
      simp only [encode] at h
      split at h
      · rename_i hi
        simp only [ok.injEq] at h
        exact ⟨.varint 1 (i % 2 ^ 32), by simp [encI, hi], by simp [Item.payload, h], rfl⟩
      · simp at h
    | _ => simp [encode, encodeI] at h
  | seq so fc ea fields =>
    cases v with
    | seq vs =>
      simp only [encode, encodeI] at h
      cases hc : encFieldsI fields vs 0 with
      | panic => rw [hc] at h; simp at h
      | err k => rw [hc] at h; simp at h
      | ok p =>
        rw [hc] at h
        simp only [map_ok, ok.injEq] at h
        exact ⟨.bytes 1 (itemsBytes p.1.flatten), by simp [encI, hc], by simp [Item.payload, h], rfl⟩
    | _ => simp [encode, encodeI] at h
  | choice sd tot e alts =>
    cases v with
    | choice i x =>
      simp only [encode, encodeI] at h
      cases hc : encAltI alts i i x with
      | panic => rw [hc] at h; simp at h
      | err k => rw [hc] at h; simp at h
      | ok p =>
        rw [hc] at h
        simp only [map_ok, ok.injEq] at h
        exact ⟨.bytes 1 (itemsBytes p), by simp [encI, hc], by simp [Item.payload, h], rfl⟩
    | _ => simp [encode, encodeI] at h
  | bool => cases v <;> simp [encode, encodeI] at h
  | null => cases v <;> simp [encode, encodeI] at h
  | int mn mx e w s => cases v <;> simp [encode, encodeI] at h
  | str cs mn mx e => cases v <;> simp [encode, encodeI] at h
  | oct mn mx e => cases v <;> simp [encode, encodeI] at h
  | bits mn mx e => cases v <;> simp [encode, encodeI] at h
  | seqOf mn mx e elem => cases v <;> simp [encode, encodeI] at h

/-- round trip of a root value, for the present reader and for every repaired one -/
theorem roundtrip (fx : Option Fix) (t : Ty) (v : Val) (bytes : List Byte) (hok : rtOK t v = true)
    (henc : encode t v = ok bytes) (hlen : bytes.length ≤ U64_MAX) :
    ∃ v', decode fx t bytes = ok v' ∧ Val.protoEq t v v' = true := by
  obtain ⟨it, hi, hp, hs⟩ := encode_as_item henc
  obtain ⟨it', hl, _, _, hrd⟩ := readsOne_all fx bytes hlen t hs v 0 [it] 1 hok hi
  simp only [List.cons.injEq, and_true] at hl
  subst hl
  have hsl : sliceOf bytes 0 bytes.length = ok it.payload := by
    rw [hp]; simp [sliceOf]
  obtain ⟨v', hpe, _, hroot⟩ := hrd 0 bytes.length hsl
  exact ⟨v', by simp [decode, hroot], hpe⟩
end Asn1Verif.Proto
