import Asn1Verif.Base.Outcome
import Asn1Verif.Gen.Consts
/-
  Protobuf layer, wire primitives — mirror of `src/protocol/protobuf/mod.rs`
  (`ProtoWrite for W: Write`, `ProtoRead for R: Read`, `Format`) over `List (BitVec 8)`.

  Reading functions take the remaining input (the `&mut &[u8]` cursor of the real code) and return
  the value together with the rest.  `err .endOfStream` is `Error::Io(UnexpectedEof)`,
  `err .unsupported` is `Error::InvalidFormat`.
-/
namespace Asn1Verif.Proto
open Asn1Verif Outcome

abbrev Byte := BitVec 8

/-! ### `Format` -/

inductive Fmt where
  | varint | fixed64 | lenDelim | fixed32
  deriving DecidableEq, Repr, Inhabited

/-- `format as u32` -/
def Fmt.code : Fmt → Nat
  | .varint => Consts.PROTO_FORMAT_VarInt
  | .fixed64 => Consts.PROTO_FORMAT_Fixed64
  | .lenDelim => Consts.PROTO_FORMAT_LengthDelimited
  | .fixed32 => Consts.PROTO_FORMAT_Fixed32

/-- `Format::from(id)` -/
def Fmt.ofCode (id : Nat) : Outcome Fmt :=
  if id = Consts.PROTO_FORMAT_VarInt then ok .varint
  else if id = Consts.PROTO_FORMAT_Fixed64 then ok .fixed64
  else if id = Consts.PROTO_FORMAT_LengthDelimited then ok .lenDelim
  else if id = Consts.PROTO_FORMAT_Fixed32 then ok .fixed32
  else err .unsupported

/-! ### varint -/

/-- the loop of `write_varint(value: u64)`: `while value > 0x7F { push((value as u8 & 0x7F) | 0x80);
    value >>= 7 } push(value as u8)`.  `fuel` only makes the recursion structural (and the function
    evaluable by the kernel): a `u64` leaves the loop after at most nine rounds
    (`WireLemmas.writeVarint_eq_spec`: for `n < 2^64` this is the unbounded loop). -/
def writeVarintLoop : Nat → Nat → List Byte
  | 0, n => [BitVec.ofNat 8 n]
  | fuel + 1, n =>
    if n > 0x7F then BitVec.ofNat 8 (n % 128 + 128) :: writeVarintLoop fuel (n / 128)
    else [BitVec.ofNat 8 n]

/-- `write_varint` -/
def writeVarint (n : Nat) : List Byte := writeVarintLoop 9 n

/-- the loop of `read_varint`: `while shift < 64 { read = read_u8()?; value |= u64::from(read & 0x7F)
    << shift; shift += 7; if read & 0x80 == 0 { break } }`.  The shift is a plain `<<` on `u64`
    (bits shifted out are lost, no overflow check on the value).  `fuel` only makes the recursion
    structural: eleven steps cover `shift = 0, 7, …, 70`. -/
def readVarintLoop : Nat → Nat → Nat → List Byte → Outcome (Nat × List Byte)
  | 0, _, value, bs => ok (value, bs)
  | fuel + 1, shift, value, bs =>
    if shift < 64 then
      match bs with
      | [] => err .endOfStream
      | b :: rest =>
        let value := value ||| (((b.toNat % 128) <<< shift) % 2 ^ 64)
        if b.toNat < 128 then ok (value, rest)
        else readVarintLoop fuel (shift + 7) value rest
    else ok (value, bs)

/-- `read_varint`: at most ten octets are consumed; after the tenth the value is returned even if
    its continuation bit is set -/
def readVarint (bs : List Byte) : Outcome (Nat × List Byte) := readVarintLoop 11 0 0 bs

/-! ### zig-zag (`sint32`, `sint64`) -/

/-- `(value << 1) ^ (value >> 31)` on `i32` -/
def zigzag32 (v : BitVec 32) : BitVec 32 := (v <<< 1) ^^^ (v.sshiftRight 31)
/-- `(value << 1) ^ (value >> 63)` on `i64` -/
def zigzag64 (v : BitVec 64) : BitVec 64 := (v <<< 1) ^^^ (v.sshiftRight 63)
/-- `((value >> 1) as i32) ^ (-((value & 0x01) as i32))` on `u32` -/
def unzigzag32 (x : BitVec 32) : BitVec 32 := (x >>> 1) ^^^ (-(x &&& 1#32))
def unzigzag64 (x : BitVec 64) : BitVec 64 := (x >>> 1) ^^^ (-(x &&& 1#64))

/-- argument of `write_varint` in `write_sint32`: the `i32` result `as u64` (sign extension: values
    with `|v| ≥ 2^30` are written as ten-octet varints) -/
def sint32ToVarint (v : BitVec 32) : Nat := ((zigzag32 v).signExtend 64).toNat
def sint64ToVarint (v : BitVec 64) : Nat := (zigzag64 v).toNat
/-- `read_sint32`: `read_varint()? as u32`, then un-zig-zag -/
def varintToSint32 (n : Nat) : BitVec 32 := unzigzag32 (BitVec.ofNat 32 n)
def varintToSint64 (n : Nat) : BitVec 64 := unzigzag64 (BitVec.ofNat 64 n)

/-! ### tags, bool, bytes -/

/-- `field << 3 | (format as u32)` on `u32` (a field number ≥ 2^29 loses its high bits) -/
def tagValue (field : Nat) (f : Fmt) : Nat := ((field <<< 3) % 2 ^ 32) ||| f.code

def writeTag (field : Nat) (f : Fmt) : List Byte := writeVarint (tagValue field f)

/-- `read_tag`: `read_varint()? as u32`, format from the low three bits, field = `tag >> 3` -/
def readTag (bs : List Byte) : Outcome ((Nat × Fmt) × List Byte) := do
  let (n, rest) ← readVarint bs
  let tag := n % 2 ^ 32
  let fmt ← Fmt.ofCode (tag &&& 7)
  ok ((tag >>> 3, fmt), rest)

def writeBool (b : Bool) : List Byte := writeVarint (if b then 1 else 0)

/-- `read_bool`: any non-zero varint is `true` -/
def readBool (bs : List Byte) : Outcome (Bool × List Byte) := do
  let (n, rest) ← readVarint bs
  ok (n != 0, rest)

/-- `write_bytes` / `write_string`: length as varint, then the octets -/
def writeBytes (b : List Byte) : List Byte := writeVarint b.length ++ b

/-- `read_content_offset_and_length(slice, format)`: where the content of a field starts relative to
    the cursor behind the tag, and how long it claims to be (`content_length as usize`, unchecked) -/
def contentOffLen (bs : List Byte) (f : Fmt) : Outcome (Nat × Nat) :=
  match f with
  | .varint => do
    let (_, rest) ← readVarint bs
    ok (0, bs.length - rest.length)
  | .fixed64 => ok (0, 8)
  | .lenDelim => do
    let (n, rest) ← readVarint bs
    ok (bs.length - rest.length, n)
  | .fixed32 => ok (0, 4)

/-- `write_sfixed32` (little endian; declared by the trait, not used by `ProtobufWriter`) -/
def writeFixed32 (v : BitVec 32) : List Byte :=
  [v.setWidth 8, (v >>> 8).setWidth 8, (v >>> 16).setWidth 8, (v >>> 24).setWidth 8]

/-- `u64::to_be_bytes` -/
def be64 (n : Nat) : List Byte :=
  [BitVec.ofNat 8 (n / 2 ^ 56), BitVec.ofNat 8 (n / 2 ^ 48), BitVec.ofNat 8 (n / 2 ^ 40),
   BitVec.ofNat 8 (n / 2 ^ 32), BitVec.ofNat 8 (n / 2 ^ 24), BitVec.ofNat 8 (n / 2 ^ 16),
   BitVec.ofNat 8 (n / 2 ^ 8), BitVec.ofNat 8 n]

/-- `u64::from_be_bytes` of (at most) eight octets -/
def beToNat (bs : List Byte) : Nat := bs.foldl (fun acc b => acc * 256 + b.toNat) 0

/-- bits (most significant first) packed into octets, the last one padded with zeros -/
def packBits : List Bool → List Byte
  | [] => []
  | b0 :: b1 :: b2 :: b3 :: b4 :: b5 :: b6 :: b7 :: rest =>
    BitVec.ofNat 8 (b0.toNat * 128 + b1.toNat * 64 + b2.toNat * 32 + b3.toNat * 16 + b4.toNat * 8 +
      b5.toNat * 4 + b6.toNat * 2 + b7.toNat) :: packBits rest
  | bs =>
    let g := fun (i : Nat) => (bs.getD i false).toNat
    [BitVec.ofNat 8 (g 0 * 128 + g 1 * 64 + g 2 * 32 + g 3 * 16 + g 4 * 8 + g 5 * 4 + g 6 * 2)]

def byteBits (b : Byte) : List Bool :=
  [b.getMsbD 0, b.getMsbD 1, b.getMsbD 2, b.getMsbD 3, b.getMsbD 4, b.getMsbD 5, b.getMsbD 6, b.getMsbD 7]

def unpackBits : List Byte → List Bool
  | [] => []
  | b :: rest => byteBits b ++ unpackBits rest

end Asn1Verif.Proto
