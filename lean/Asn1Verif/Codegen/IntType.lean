import Asn1Verif.Base.Outcome
import Asn1Verif.Gen.Consts
/-
  Mirror of the choice of the Rust integer type for an ASN.1 `INTEGER (min..max[, ...])`
  (property C15), *as the code is* (defects included):

  * asn1rs-model/src/asn/integer.rs   `TryFrom<&mut Peekable<T>> for Integer`  → `parseRange`
        `MIN`/`MAX` → `None`; `(0..MAX)` and `(MIN..i64::MAX)` are widened to "no constraint"
  * asn1rs-model/src/rust.rs          `asn_fixed_integer_to_rust_type`          → `fixedCascade`
                                      `asn_extensible_integer_to_rust`          → `extCascade`
                                      `RustType::integer_range_str`             → `IntTy.rangeStr`
                                      `RustType::into_asn` (integer arms)       → `IntTy.intoAsn`
  * asn1rs-model/src/generate/rust.rs `add_min_max_fn_if_applicable`            → `IntTy.fnMin/fnMax`
                                      `asn_attribute_type` (`integer(a..b,...)`) → `IntTy.attrText`
  * asn1rs-model/src/generate/walker.rs `write_integer_constraint_type`         → `IntTy.constMin/constMax`

  Bounds are `Option Int` (the code: `Option<i64>`); every function below is meant for bounds
  inside the `i64` range (`InI64`), which is what the parser can deliver (`t.parse::<i64>()`).
  Nothing in the two cascades can panic for such bounds: the only arithmetic is `min + 1` under
  `min < 0` followed by `abs()` (no overflow: `i64::MIN + 1 ≤ min + 1 ≤ 0`), so the functions are
  plain (no `Outcome`).  The thresholds are `Consts.I8_MAX … Consts.U32_MAX`, re-extracted from
  the source on every run.  No Mathlib/Batteries.
-/
namespace Asn1Verif.Codegen.IntType
open Asn1Verif Asn1Verif.Consts

/-! ### Rust `as` casts from `i64` (two's complement truncation) -/

/-- `x as uN` -/
def asU (bits : Nat) (x : Int) : Int := x % (2 ^ bits : Int)
/-- `x as iN` -/
def asI (bits : Nat) (x : Int) : Int :=
  if 2 * (x % (2 ^ bits : Int)) < (2 ^ bits : Int) then x % (2 ^ bits : Int)
  else x % (2 ^ bits : Int) - (2 ^ bits : Int)

/-- `i64::abs` (no overflow for `x > i64::MIN`) -/
def iabs (x : Int) : Int := if x < 0 then -x else x

/-! ### the standard integer types -/

inductive RustInt where
  | i8 | u8 | i16 | u16 | i32 | u32 | i64 | u64
  deriving DecidableEq, Repr, Inhabited

namespace RustInt

def all : List RustInt := [i8, u8, i16, u16, i32, u32, i64, u64]

def bits : RustInt → Nat
  | i8 | u8 => 8
  | i16 | u16 => 16
  | i32 | u32 => 32
  | i64 | u64 => 64

def signed : RustInt → Bool
  | i8 | i16 | i32 | i64 => true
  | u8 | u16 | u32 | u64 => false

/-- smallest value of the type (language semantics, not a constant of the crate) -/
def lo : RustInt → Int
  | i8 => -(2 ^ 7)
  | i16 => -(2 ^ 15)
  | i32 => -(2 ^ 31)
  | i64 => -(2 ^ 63)
  | u8 | u16 | u32 | u64 => 0

/-- largest value of the type -/
def hi : RustInt → Int
  | i8 => 2 ^ 7 - 1
  | u8 => 2 ^ 8 - 1
  | i16 => 2 ^ 15 - 1
  | u16 => 2 ^ 16 - 1
  | i32 => 2 ^ 31 - 1
  | u32 => 2 ^ 32 - 1
  | i64 => 2 ^ 63 - 1
  | u64 => 2 ^ 64 - 1

/-- the type can represent `v` -/
def holds (t : RustInt) (v : Int) : Prop := t.lo ≤ v ∧ v ≤ t.hi

instance (t : RustInt) (v : Int) : Decidable (t.holds v) :=
  inferInstanceAs (Decidable (t.lo ≤ v ∧ v ≤ t.hi))

def name : RustInt → String
  | i8 => "i8" | u8 => "u8" | i16 => "i16" | u16 => "u16"
  | i32 => "i32" | u32 => "u32" | i64 => "i64" | u64 => "u64"

end RustInt

/-- The integer variants of `enum RustType` with the `Range` payload the code stores
    (`Range(min, max, extensible)`).  `U64` alone stores `Range<Option<u64>>`.
    Payload values are kept as `Int`; for a `uN`/`iN` variant they are results of the
    corresponding cast, i.e. inside the type. -/
inductive IntTy where
  | i8 (min max : Int) (ext : Bool)
  | u8 (min max : Int) (ext : Bool)
  | i16 (min max : Int) (ext : Bool)
  | u16 (min max : Int) (ext : Bool)
  | i32 (min max : Int) (ext : Bool)
  | u32 (min max : Int) (ext : Bool)
  | i64 (min max : Int) (ext : Bool)
  | u64 (min max : Option Int) (ext : Bool)
  deriving DecidableEq, Repr, Inhabited

/-! ### parser: asn/integer.rs -/

/-- `start`/`end` are the literals of `(start..end)`, `none` for the keywords `MIN`/`MAX`.
    ```
    match (start, end) {
        (Some(Lit(0)), None) | (None, Some(Lit(i64::MAX))) => Range(None, None, extensible),
        (start, end) => Range(start, end, extensible),
    }
    ``` -/
def parseRange (start stop : Option Int) : Option Int × Option Int :=
  match start, stop with
  | some a, none => if a = 0 then (none, none) else (some a, none)
  | none, some b => if b = I64_MAX then (none, none) else (none, some b)
  | s, e => (s, e)

/-! ### the two cascades: rust.rs -/

/-- first match arm of both cascades:
    `(None, None) | (Some(0), None) | (Some(0), Some(i64::MAX)) | (None, Some(i64::MAX))` -/
def firstArm (min max : Option Int) : Bool :=
  match min, max with
  | none, none => true
  | some a, none => decide (a = 0)
  | some a, some b => decide (a = 0) && decide (b = I64_MAX)
  | none, some b => decide (b = I64_MAX)

/-- `asn_fixed_integer_to_rust_type` -/
def fixedCascade (min max : Option Int) : IntTy :=
  if firstArm min max then .u64 none none false
  else
    let mn := min.getD 0              -- min.unwrap_or_default()
    let mx := max.getD I64_MAX        -- max.unwrap_or(i64::MAX)
    if mn ≥ 0 then
      let m := asU 64 mx              -- match max as u64
      if m ≤ U8_MAX then .u8 (asU 8 mn) (asU 8 mx) false
      else if m ≤ U16_MAX then .u16 (asU 16 mn) (asU 16 mx) false
      else if m ≤ U32_MAX then .u32 (asU 32 mn) (asU 32 mx) false
      else .u64 (some (asU 64 mn)) (some (asU 64 mx)) false
    else
      let amp := Max.max (iabs (mn + 1)) mx   -- (min + 1).abs().max(max)
      if amp ≤ I8_MAX then .i8 (asI 8 mn) (asI 8 mx) false
      else if amp ≤ I16_MAX then .i16 (asI 16 mn) (asI 16 mx) false
      else if amp ≤ I32_MAX then .i32 (asI 32 mn) (asI 32 mx) false
      else .i64 mn mx false

/-- `asn_extensible_integer_to_rust` -/
def extCascade (min max : Option Int) : IntTy :=
  if firstArm min max then .u64 none none true
  else if min.getD 0 ≥ 0 ∧ max.getD 0 ≥ 0 then
    .u64 (min.map (asU 64)) (max.map (asU 64)) true
  else .i64 (min.getD I64_MIN) (max.getD I64_MAX) true

/-- `definition_type_to_rust_type`: `AsnType::Integer(int) if int.range.extensible()` first -/
def cascade (min max : Option Int) (ext : Bool) : IntTy :=
  if ext then extCascade min max else fixedCascade min max

/-- the whole way from the constraint text to the `RustType` of the field:
    `start`/`stop` as written (`none` = `MIN`/`MAX`), `ext` = `, ...` present -/
def choose (start stop : Option Int) (ext : Bool) : IntTy :=
  cascade (parseRange start stop).1 (parseRange start stop).2 ext

/-! ### what is derived from the stored range -/

namespace IntTy

def kind : IntTy → RustInt
  | i8 .. => .i8 | u8 .. => .u8 | i16 .. => .i16 | u16 .. => .u16
  | i32 .. => .i32 | u32 .. => .u32 | i64 .. => .i64 | u64 .. => .u64

def ext : IntTy → Bool
  | i8 _ _ e | u8 _ _ e | i16 _ _ e | u16 _ _ e | i32 _ _ e | u32 _ _ e | i64 _ _ e | u64 _ _ e => e

/-- the stored `Range` as optional numbers (`Some` for every variant but `U64`) -/
def stored : IntTy → Option Int × Option Int
  | i8 a b _ | u8 a b _ | i16 a b _ | u16 a b _ | i32 a b _ | u32 a b _ | i64 a b _ => (some a, some b)
  | u64 a b _ => (a, b)

/-- `integer_range_str`: the numbers whose `to_string()` becomes the body of the generated
    `*_min()` / `*_max()` (`format_number_nicely` only inserts `_` separators).
    `U64`: `min.unwrap_or_default()`, `max.unwrap_or_else(|| i64::MAX as u64)`. -/
def rangeStr : IntTy → Int × Int
  | i8 a b _ | u8 a b _ | i16 a b _ | u16 a b _ | i32 a b _ | u32 a b _ | i64 a b _ => (a, b)
  | u64 a b _ => (a.getD 0, b.getD (asU 64 I64_MAX))

/-- value returned by the generated `pub const fn <field>_min() -> T` -/
def fnMin (t : IntTy) : Int := t.rangeStr.1
/-- value returned by the generated `pub const fn <field>_max() -> T` -/
def fnMax (t : IntTy) : Int := t.rangeStr.2

/-- `write_integer_constraint_type`: `const MIN: Option<i64> = Some(min)` and
    `const MIN_T: Option<T> = Some(min)` are written iff the stored bound is `Some`
    (`range.wrap_opt()` for all variants but `U64`); both carry the same number. -/
def constMin (t : IntTy) : Option Int := t.stored.1
def constMax (t : IntTy) : Option Int := t.stored.2

/-- `RustType::into_asn`, integer arms: `i64::from(min)`; `U64`: `range.min().map(|v| v as i64)` -/
def intoAsn : IntTy → Option Int × Option Int × Bool
  | i8 a b e | u8 a b e | i16 a b e | u16 a b e | i32 a b e | u32 a b e | i64 a b e => (some a, some b, e)
  | u64 a b e => (a.map (asI 64), b.map (asI 64), e)

/-- `asn_attribute_type`: the text inside `#[asn(integer(…))]` -/
def attrText (t : IntTy) : String :=
  let (a, b, e) := t.intoAsn
  (match a with | some a => toString a | none => "min") ++ ".." ++
  (match b with | some b => toString b | none => "max") ++ (if e then ",..." else "")

end IntTy

/-- the bound is an `i64` -/
def InI64 (x : Int) : Prop := I64_MIN ≤ x ∧ x ≤ I64_MAX

instance (x : Int) : Decidable (InI64 x) := inferInstanceAs (Decidable (I64_MIN ≤ x ∧ x ≤ I64_MAX))

def OptInI64 : Option Int → Prop
  | none => True
  | some x => InI64 x

end Asn1Verif.Codegen.IntType
