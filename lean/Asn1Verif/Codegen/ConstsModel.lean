import Asn1Verif.Uper.Types
import Asn1Verif.Codegen.IntType
/-
  Codegen/ConstsModel — the descriptor constants the attribute macro expands to (second half of
  property C08), computed from the source ASN.1 type *as the code computes them* (defects included).

  Pipeline mirrored, front to back:

  1. `Src` is `asn::Type<Resolved>` as the front end delivers it (`Model<Asn>`): for SEQUENCE / SET /
     CHOICE / ENUMERATED the marker is the recorded `extension_after : Option<usize>`
     (asn/components.rs, asn/choice.rs, asn/enumerated.rs).  How the parsers record a marker that
     follows `n` items (`n.saturating_sub(1)` for components, `n - 1` after an emptiness test for
     alternatives / items) is `Src.sequenceSrc`, `Src.choiceSrc`, `Src.enumSrc`.
  2. asn1rs-model/src/rust.rs `convert_asn_to_rust`:
       `asn_fields_to_rust_fields`        → `convKind` (DEFAULT → `Default`, else addition that
                                              `!is_optional()` → `Option`, else unchanged)
       `definition_type_to_rust_type`     → `constsOf` (type position: component / element /
                                              alternative; inline SEQUENCE/SET/CHOICE/ENUMERATED and
                                              references become `Complex`, i.e. the descriptor of the
                                              definition they name)
       `definition_to_rust`               → `defConstsOf` (a definition that is not SEQUENCE / SET /
                                              CHOICE / ENUMERATED becomes `TupleStruct`, which the
                                              walker writes as a SEQUENCE with one component)
       `asn_fixed_integer_to_rust_type`, `asn_extensible_integer_to_rust` → `IntType.cascade`
  3. generate/rust.rs prints `#[asn(..)]`, proc_macro/* reads it back and runs `convert_asn_to_rust`
     again (`to_rust_keep_names`).  That round trip is property C08's first half (Codegen/Attr.lean);
     the only place where it changes a constant is the INTEGER range: `macroRange` mirrors
     `IntegerRange::parse` on what `RustType::into_asn` printed (`IntTy.intoAsn`), `reconvert` the
     second run of the cascade.  (`Size`: `size(a..a)` is read back as `Fix(a)` — same MIN/MAX.
     `Option`/`Default` wrappers, marker index by name, component order: fixed points.)
  4. generate/walker.rs `AsnDefWriter`:
       `write_sequence_constraint_insert_consts` → `stdOptCount` (STD_OPTIONAL_FIELDS, the
            `enumerate().take_while(i <= extension_after.unwrap_or(usize::MAX)).filter(optional).count()`),
            FIELD_COUNT = `fields.len()`, EXTENDED_AFTER_FIELD = `extension_after`
       `write_choice_constraint` / `write_enumerated_constraint` → VARIANT_COUNT = `len()`,
            STD_VARIANT_COUNT = `extension_after_index().map(|v| v + 1).unwrap_or_else(len)`,
            EXTENSIBLE = `is_extensible()`
       `write_integer_constraint_type`  → `IntTy.constMin/constMax/ext` (MIN/MAX written iff `Some`)
       `write_size_constraint`          → `Size.min/max/extensible`
       `write_default_constraint`       → the DEFAULT value is carried through unchanged (the literal
                                           printing `as_rust_const_literal` is not modelled)
  5. the result is `Uper.Ty`, the descriptor the codec observes (harness `TyGen`): `width` is
     `size_of::<T>() * 8`, `signed` is `T::from_i64(-1).to_i64() < 0` (true for `u64` as well).

  Out of scope: tags, names, SET ordering (`sort_fields_canonically`: the component order of a SET
  is taken as given *after* sorting), named numbers.  No Mathlib/Batteries.
-/
namespace Asn1Verif.Codegen.ConstsModel
open Asn1Verif Asn1Verif.Consts Asn1Verif.Uper Asn1Verif.Codegen.IntType

/-! ### source types -/

/-- `asn::Size<usize>` -/
inductive Size where
  | any
  | fix (n : Nat) (ext : Bool)
  | range (a b : Nat) (ext : Bool)
  deriving DecidableEq, Repr, Inhabited

namespace Size
/-- `Size::min` -/
def min : Size → Option Nat
  | any => none
  | fix n _ => some n
  | range a _ _ => some a
/-- `Size::max` -/
def max : Size → Option Nat
  | any => none
  | fix n _ => some n
  | range _ b _ => some b
/-- `Size::extensible` -/
def extensible : Size → Bool
  | any => false
  | fix _ e => e
  | range _ _ e => e
end Size

/-- presence of a component: `Type::Optional(..)` / `role.default = Some(..)` / neither -/
inductive Presence where
  | mandatory
  | optional
  | default (v : Val)

def Presence.isOptional : Presence → Bool
  | .mandatory => false
  | _ => true

/-- the kind the source declares -/
def Presence.toKind : Presence → Kind
  | .mandatory => .m
  | .optional => .o
  | .default v => .d v

mutual
/-- `asn::Type<Resolved>` without names, tags and named numbers -/
inductive Src where
  | boolean
  | null
  /-- `INTEGER (lo..hi[, ...])` as written: `none` = `MIN` / `MAX` / no constraint at all -/
  | integer (lo hi : Option Int) (ext : Bool)
  /-- `Enumerated { variants (only their number matters), extension_after }` -/
  | enumerated (variants : Nat) (extensionAfter : Option Nat)
  | string (cs : Charset) (sz : Size)
  | octetString (sz : Size)
  | bitString (sz : Size)
  | sequenceOf (sz : Size) (elem : Src)
  | setOf (sz : Size) (elem : Src)
  /-- `ComponentTypeList { fields, extension_after }` -/
  | sequence (comps : Comps) (extensionAfter : Option Nat)
  /-- SET: the components in the order `sort_fields_canonically` leaves them -/
  | set (comps : Comps) (extensionAfter : Option Nat)
  /-- `Choice { variants, extension_after }` -/
  | choice (alts : Alts) (extensionAfter : Option Nat)
  /-- `TypeReference` to a definition `N ::= target` -/
  | ref (target : Src)
inductive Comps where
  | nil
  | cons (p : Presence) (t : Src) (rest : Comps)
inductive Alts where
  | nil
  | cons (t : Src) (rest : Alts)
end

def Comps.length : Comps → Nat
  | .nil => 0
  | .cons _ _ r => r.length + 1

def Alts.length : Alts → Nat
  | .nil => 0
  | .cons _ r => r.length + 1

def Comps.append : Comps → Comps → Comps
  | .nil, b => b
  | .cons p t r, b => .cons p t (r.append b)

def Alts.append : Alts → Alts → Alts
  | .nil, b => b
  | .cons t r, b => .cons t (r.append b)

def Comps.get? : Comps → Nat → Option (Presence × Src)
  | .nil, _ => none
  | .cons p t _, 0 => some (p, t)
  | .cons _ _ r, n + 1 => r.get? n

/-- number of components declared OPTIONAL or DEFAULT among the first `n` -/
def Comps.optCount : Comps → Nat → Nat
  | .nil, _ => 0
  | .cons _ _ _, 0 => 0
  | .cons p _ r, n + 1 => (if p.isOptional then 1 else 0) + r.optCount n

/-! ### what the parsers record for a marker -/

/-- `SEQUENCE { root, ..., adds }` (`adds = none`: no marker).  components.rs:
    `sequence.extension_after = Some(field_len.saturating_sub(1))` -/
def Src.sequenceSrc (root : Comps) (adds : Option Comps) : Src :=
  match adds with
  | none => .sequence root none
  | some a => .sequence (root.append a) (some (root.length - 1))

/-- `CHOICE { root, ..., adds }`.  choice.rs refuses a marker in front of the first alternative and
    records `Some(choice.variants.len() - 1)` -/
def Src.choiceSrc (root : Alts) (adds : Option Alts) : Src :=
  match adds with
  | none => .choice root none
  | some a => .choice (root.append a) (some (root.length - 1))

/-- `ENUMERATED { root items, ..., adds items }`; enumerated.rs, as for CHOICE -/
def Src.enumSrc (root : Nat) (adds : Option Nat) : Src :=
  match adds with
  | none => .enumerated root none
  | some a => .enumerated (root + a) (some (root - 1))

/-! ### INTEGER: both runs of the cascade -/

/-- `IntegerRange::parse` (proc_macro/range.rs) + `Type::integer_with_range_opt` on the range that
    was printed: `min`/`max` are `none`.
    ```
    (MinMax, MinMax) | (Value(0), MinMax) => None
    (Value(min), Value(max))              => Some((min, max))
    (MinMax, Value(max)) => Some((if max.is_positive() { 0 } else { i64::MAX.wrapping_add(1) }, max))
    (Value(min), MinMax) => Some((min, i64::MAX))
    ``` -/
def macroRange (mn mx : Option Int) : Option Int × Option Int :=
  match mn, mx with
  | none, none => (none, none)
  | some a, none => if a = 0 then (none, none) else (some a, some I64_MAX)
  | some a, some b => (some a, some b)
  | none, some b => (some (if b > 0 then 0 else I64_MIN), some b)

/-- what the macro makes of a component whose Rust type the converter chose as `t`:
    `into_asn` → attribute text → `IntegerRange::parse` → `convert_asn_to_rust` again -/
def reconvert (t : IntTy) : IntTy :=
  cascade (macroRange t.intoAsn.1 t.intoAsn.2.1).1 (macroRange t.intoAsn.1 t.intoAsn.2.1).2 t.intoAsn.2.2

/-- the `RustType` the walker has in hand for `INTEGER (lo..hi[, ...])` -/
def intTy (lo hi : Option Int) (ext : Bool) : IntTy := reconvert (choose lo hi ext)

/-- `T::from_i64(-1).to_i64() < 0` (`as` casts): true for the signed types and for `u64` -/
def codecSigned (k : RustInt) : Bool := k.signed || k.bits == 64

/-- `numbers::Constraint<T>`: MIN, MAX (written iff the stored bound is `Some`), EXTENSIBLE -/
def intConsts (lo hi : Option Int) (ext : Bool) : Ty :=
  .int (intTy lo hi ext).constMin (intTy lo hi ext).constMax (intTy lo hi ext).ext
    (intTy lo hi ext).kind.bits (codecSigned (intTy lo hi ext).kind)

/-! ### SEQUENCE / SET components -/

/-- `asn_fields_to_rust_fields`:
    ```
    if let Some(def) = &field.role.default { RustType::Default(rust_role.no_option(), def) }
    else if extension_after.map(|e| index > e).unwrap_or(false) && !rust_role.is_optional()
         { RustType::Option(rust_role) }
    else { rust_role }
    ``` -/
def convKind (extensionAfter : Option Nat) (index : Nat) : Presence → Kind
  | .default v => .d v
  | .optional => .o
  | .mandatory =>
    if (match extensionAfter with | some e => decide (index > e) | none => false) then .o else .m

/-- STD_OPTIONAL_FIELDS, the expression of `write_sequence_constraint_insert_consts` on the Rust
    fields, `index` being the position of the head of the list -/
def stdOptCount (extensionAfter : Option Nat) : Nat → Fields → Nat
  | _, .nil => 0
  | index, .cons k _ r =>
    -- take_while(|(index, _)| *index <= extension_after.unwrap_or(usize::MAX))
    if (match extensionAfter with | some e => decide (index ≤ e) | none => true) then
      -- filter(|(_, f)| f.r#type().is_optional()).count()
      (if k.isOptional then 1 else 0) + stdOptCount extensionAfter (index + 1) r
    else 0

/-- STD_VARIANT_COUNT: `extension_after_index().map(|v| v + 1).unwrap_or_else(|| len())` -/
def stdVariants (extensionAfter : Option Nat) (len : Nat) : Nat :=
  match extensionAfter with
  | some v => v + 1
  | none => len

/-- `Rust::TupleStruct` written by `write_sequence_or_set_constraint(.., &[field], None, Keep)`:
    FIELD_COUNT 1, EXTENDED_AFTER_FIELD None, STD_OPTIONAL_FIELDS 0 (the type of a definition is
    never `Option`/`Default`) -/
def wrapTuple (t : Ty) : Ty := .seq 0 1 none (.cons .m t .nil)

/-- the definition becomes a struct / enum of its own (`Rust::Struct`, `Rust::Enum`,
    `Rust::DataEnum`); everything else becomes `Rust::TupleStruct` -/
def Src.structured : Src → Bool
  | .sequence .. | .set .. | .choice .. | .enumerated .. => true
  | _ => false

mutual
/-- descriptor of a type position (component, element, alternative) -/
def constsOf : Src → Ty
  | .boolean => .bool
  | .null => .null
  | .integer lo hi ext => intConsts lo hi ext
  | .enumerated n ea => .enum (stdVariants ea n) n ea.isSome
  | .string cs sz => .str cs sz.min sz.max sz.extensible
  | .octetString sz => .oct sz.min sz.max sz.extensible
  | .bitString sz => .bits sz.min sz.max sz.extensible
  | .sequenceOf sz e => .seqOf sz.min sz.max sz.extensible (constsOf e)
  | .setOf sz e => .seqOf sz.min sz.max sz.extensible (constsOf e)
  | .sequence cs ea =>
    .seq (stdOptCount ea 0 (fieldsOf ea 0 cs)) (fieldsOf ea 0 cs).length ea (fieldsOf ea 0 cs)
  | .set cs ea =>
    .seq (stdOptCount ea 0 (fieldsOf ea 0 cs)) (fieldsOf ea 0 cs).length ea (fieldsOf ea 0 cs)
  | .choice alts ea => .choice (stdVariants ea (altsOf alts).length) (altsOf alts).length ea.isSome (altsOf alts)
  -- `Complex(name)`: the codec reads the named definition
  | .ref t => if t.structured then constsOf t else wrapTuple (constsOf t)
/-- the Rust fields of a struct; `index` is the position of the head of the list -/
def fieldsOf (extensionAfter : Option Nat) : Nat → Comps → Fields
  | _, .nil => .nil
  | index, .cons p t r =>
    .cons (convKind extensionAfter index p) (constsOf t) (fieldsOf extensionAfter (index + 1) r)
/-- the variants of a data enum (no presence: rendered as mandatory) -/
def altsOf : Alts → Fields
  | .nil => .nil
  | .cons t r => .cons .m (constsOf t) (altsOf r)
end

/-- descriptor of a definition `N ::= s` (what `N::read` shows to a `Reader`) -/
def defConstsOf (s : Src) : Ty := if s.structured then constsOf s else wrapTuple (constsOf s)

/-! ### well-formedness: what the front end delivers and the generator survives -/

/-- the marker index names an existing item.  The parsers guarantee it except for
    `SEQUENCE { ... }` / `SET { ... }` (no component at all: `Some(0)`), where the generator panics
    (`fields[index]` in `RustCodeGenerator::add_definition`). -/
def markerOk (extensionAfter : Option Nat) (len : Nat) : Bool :=
  match extensionAfter with
  | none => true
  | some k => decide (k < len)

mutual
def Src.wf : Src → Bool
  | .enumerated n ea => markerOk ea n
  | .sequenceOf _ e => e.wf
  | .setOf _ e => e.wf
  | .sequence cs ea => markerOk ea cs.length && cs.wf
  | .set cs ea => markerOk ea cs.length && cs.wf
  | .choice alts ea => markerOk ea alts.length && alts.wf
  | .ref t => t.wf
  | _ => true
def Comps.wf : Comps → Bool
  | .nil => true
  | .cons _ t r => t.wf && r.wf
def Alts.wf : Alts → Bool
  | .nil => true
  | .cons t r => t.wf && r.wf
end

/-- every marker index, at any depth, names an existing component / alternative / item -/
def WellFormedSrc (s : Src) : Prop := s.wf = true

instance (s : Src) : Decidable (WellFormedSrc s) := inferInstanceAs (Decidable (s.wf = true))

end Asn1Verif.Codegen.ConstsModel
