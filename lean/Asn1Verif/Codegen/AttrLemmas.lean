import Asn1Verif.Codegen.Attr
import Asn1Verif.Codegen.NamesLemmas
/-
  Lemmas for C08: the attribute parser mirror reads back what the attribute printer mirror prints
  (Codegen/Attr.lean), piece by piece.
-/
namespace Asn1Verif.Codegen.Attr
open Asn1Verif.Codegen.Names

def InI64 (i : Int) : Prop := I64_MIN ≤ i ∧ i ≤ I64_MAX

/-- the next token does not open a group (what follows a printed type is `)`, `,` or nothing) -/
def NoLp : List Tok → Prop
  | .lp :: _ => False
  | _ => True

theorem noLp_rp (r : List Tok) : NoLp (.rp :: r) := trivial
theorem noLp_punct (c : Char) (r : List Tok) : NoLp (.punct c :: r) := trivial
theorem noLp_nil : NoLp [] := trivial

/-! ### numbers -/

theorem litInt_intToks (i : Int) (rest : List Tok) : litInt (intToks i ++ rest) = some (i, rest) := by
  unfold intToks
  split
  · next h =>
    simp only [List.cons_append, List.nil_append, litInt]
    congr 2; omega
  · next h =>
    simp only [List.cons_append, List.nil_append, litInt]
    congr 2; omega

theorem mmv_intToks (i : Int) (rest : List Tok) (h : InI64 i) :
    mmv (intToks i ++ rest) = some (some i, rest) := by
  unfold mmv
  rw [litInt_intToks]
  simp only [h.1, h.2, and_self, if_true]

theorem litInt_ident (n : Name) (r : List Tok) : litInt (.ident n :: r) = none := by
  simp [litInt]

theorem mmv_min (rest : List Tok) : mmv (kw "min" :: rest) = some (none, rest) := by
  unfold mmv kw
  rw [litInt_ident]
  have : isMinMax "min".toList = true := by decide
  simp only [this, if_true]

theorem mmv_max (rest : List Tok) : mmv (kw "max" :: rest) = some (none, rest) := by
  unfold mmv kw
  rw [litInt_ident]
  have : isMinMax "max".toList = true := by decide
  simp only [this, if_true]

theorem ellipsis_ext (rest : List Tok) :
    ellipsis (extToks true ++ rest) = some rest := by
  simp [extToks, ellipsis]

theorem integerRange_none (ext : Bool) (rest : List Tok) :
    integerRange ([kw "min"] ++ dots2 ++ [kw "max"] ++ extToks ext ++ .rp :: rest)
      = some (.integer none none ext [], .rp :: rest) := by
  unfold integerRange
  simp only [List.cons_append, List.nil_append, dots2, mmv_min, Option.bind_eq_bind, Option.bind_some,
    expect, if_true, mmv_max]
  cases ext <;> simp [extToks, ellipsis]

theorem integerRange_some (a b : Int) (ext : Bool) (rest : List Tok) (ha : InI64 a) (hb : InI64 b) :
    integerRange (intToks a ++ dots2 ++ intToks b ++ extToks ext ++ .rp :: rest)
      = some (.integer (some a) (some b) ext [], .rp :: rest) := by
  unfold integerRange
  simp only [List.append_assoc, mmv_intToks a _ ha, Option.bind_eq_bind, Option.bind_some, dots2,
    List.cons_append, List.nil_append, expect, if_true, mmv_intToks b _ hb]
  cases ext <;> simp [extToks, ellipsis]

/-! ### sizes -/

def SizeOk : Size → Prop
  | .any => True
  | .fix n _ => n ≤ USIZE_MAX
  | .range a b _ => a ≤ USIZE_MAX ∧ b ≤ USIZE_MAX ∧ a ≠ b

theorem sizeValue_num (n : Nat) (rest : List Tok) (h : n ≤ USIZE_MAX) :
    sizeValue (.num n :: rest) = some (n, rest) := by
  have h2 : (n : Int) ≤ (USIZE_MAX : Int) := by exact_mod_cast h
  simp [sizeValue, litInt, h2]

theorem sizeParse_fix (n : Nat) (ext : Bool) (rest : List Tok) (h : n ≤ USIZE_MAX) :
    sizeParse ([.num n] ++ extToks ext ++ .rp :: rest) = some (.fix n ext, .rp :: rest) := by
  unfold sizeParse
  simp only [List.cons_append, List.nil_append, sizeValue_num n _ h, Option.bind_eq_bind,
    Option.bind_some]
  cases ext <;> simp [extToks, ellipsis, atEnd]

theorem sizeParse_range (a b : Nat) (ext : Bool) (rest : List Tok) (ha : a ≤ USIZE_MAX)
    (hb : b ≤ USIZE_MAX) (hab : a ≠ b) :
    sizeParse ([.num a] ++ dots2 ++ [.num b] ++ extToks ext ++ .rp :: rest)
      = some (.range a b ext, .rp :: rest) := by
  unfold sizeParse
  simp only [List.cons_append, List.nil_append, dots2, sizeValue_num a _ ha, Option.bind_eq_bind,
    Option.bind_some, atEnd, Bool.false_eq_true, if_false, expect, if_true, List.append_assoc,
    sizeValue_num b _ hb]
  cases ext <;> simp [extToks, ellipsis, hab]

/-- the tokens of `size(..)` after the identifier `size` -/
def sizeBody : Size → List Tok
  | .any => []
  | .fix n ext => [.lp, .num n] ++ extToks ext ++ [.rp]
  | .range a b ext => [.lp, .num a] ++ dots2 ++ [.num b] ++ extToks ext ++ [.rp]

theorem sizeToks_fix (n : Nat) (ext : Bool) :
    sizeToks (.fix n ext) = some (kw "size" :: sizeBody (.fix n ext)) := by
  simp [sizeToks, sizeBody]

theorem sizeToks_range (a b : Nat) (ext : Bool) :
    sizeToks (.range a b ext) = some (kw "size" :: sizeBody (.range a b ext)) := by
  simp [sizeToks, sizeBody]

theorem sizeGroup_fix (n : Nat) (ext : Bool) (rest : List Tok) (h : n ≤ USIZE_MAX) :
    sizeGroup (sizeBody (.fix n ext) ++ rest) = some (.fix n ext, rest) := by
  have := sizeParse_fix n ext rest h
  simp only [List.cons_append, List.nil_append, List.append_assoc] at this
  simp only [sizeGroup, sizeBody, List.cons_append, List.nil_append, List.append_assoc, openP, expect,
    if_true, Option.bind_eq_bind, Option.bind_some, this, closeP]

theorem sizeGroup_range (a b : Nat) (ext : Bool) (rest : List Tok) (ha : a ≤ USIZE_MAX)
    (hb : b ≤ USIZE_MAX) (hab : a ≠ b) :
    sizeGroup (sizeBody (.range a b ext) ++ rest) = some (.range a b ext, rest) := by
  have := sizeParse_range a b ext rest ha hb hab
  simp only [List.cons_append, List.nil_append, List.append_assoc, dots2] at this
  simp only [sizeGroup, sizeBody, dots2, List.cons_append, List.nil_append, List.append_assoc, openP,
    expect, if_true, Option.bind_eq_bind, Option.bind_some, this, closeP]

theorem lower_size : lower "size".toList = "size".toList := by decide

/-- the tokens a string / octet string type prints after its name -/
def sizeParams : Size → List Tok
  | .any => []
  | sz => [.lp, kw "size"] ++ sizeBody sz ++ [.rp]

theorem withParams_size (name : String) (sz : Size) :
    withParams name (sizeToks sz).toList = kw name :: sizeParams sz := by
  cases sz <;> simp [withParams, sizeToks, sizeParams, sizeBody]

theorem optSizeOrAny_params (sz : Size) (rest : List Tok) (h : SizeOk sz) (hr : NoLp rest) :
    optSizeOrAny (sizeParams sz ++ rest) = some (sz, rest) := by
  cases sz with
  | any =>
    simp only [sizeParams, List.nil_append]
    cases rest with
    | nil => simp [optSizeOrAny]
    | cons x xs =>
      cases x with
      | lp => exact absurd hr (by simp [NoLp])
      | _ => simp [optSizeOrAny]
  | fix n ext =>
    have := sizeGroup_fix n ext (.rp :: rest) h
    simp only [sizeParams, List.cons_append, List.append_assoc, List.nil_append, optSizeOrAny, kw,
      atEnd, Bool.false_eq_true, if_false, lower_size, if_true, this, Option.bind_eq_bind,
      Option.bind_some, closeP, expect]
  | range a b ext =>
    have := sizeGroup_range a b ext (.rp :: rest) h.1 h.2.1 h.2.2
    simp only [sizeParams, List.cons_append, List.append_assoc, List.nil_append, optSizeOrAny, kw,
      atEnd, Bool.false_eq_true, if_false, lower_size, if_true, this, Option.bind_eq_bind,
      Option.bind_some, closeP, expect]

/-- `bit_string()` / `bit_string(size(..))`: always one (possibly empty) parameter -/
def bitParams : Size → List Tok
  | .any => [.lp, .rp]
  | sz => [.lp, kw "size"] ++ sizeBody sz ++ [.rp]

theorem withParams_bits (sz : Size) :
    withParams "bit_string" [(sizeToks sz).getD []] = kw "bit_string" :: bitParams sz := by
  cases sz <;> simp [withParams, sizeToks, bitParams, sizeBody]

theorem optSizeOrAny_bits (sz : Size) (rest : List Tok) (h : SizeOk sz) :
    optSizeOrAny (bitParams sz ++ rest) = some (sz, rest) := by
  cases sz with
  | any => simp [bitParams, optSizeOrAny, atEnd, closeP, expect]
  | fix n ext =>
    have := sizeGroup_fix n ext (.rp :: rest) h
    simp only [bitParams, List.cons_append, List.append_assoc, List.nil_append, optSizeOrAny, kw,
      atEnd, Bool.false_eq_true, if_false, lower_size, if_true, this, Option.bind_eq_bind,
      Option.bind_some, closeP, expect]
  | range a b ext =>
    have := sizeGroup_range a b ext (.rp :: rest) h.1 h.2.1 h.2.2
    simp only [bitParams, List.cons_append, List.append_assoc, List.nil_append, optSizeOrAny, kw,
      atEnd, Bool.false_eq_true, if_false, lower_size, if_true, this, Option.bind_eq_bind,
      Option.bind_some, closeP, expect]

/-- the optional `size(..),` in front of the element type of `sequence_of` / `set_of` -/
def seqPrefix : Size → List Tok
  | .any => []
  | sz => [kw "size"] ++ sizeBody sz ++ [.punct ',']

theorem withParams_seq (name : String) (sz : Size) (elem : List Tok) :
    withParams name ((sizeToks sz).toList ++ [elem]) = [kw name, .lp] ++ seqPrefix sz ++ elem ++ [.rp] := by
  cases sz <;> simp [withParams, sizeToks, seqPrefix, sizeBody]

theorem seqSize_rt (sz : Size) (h : SizeOk sz) (n : Name) (r : List Tok)
    (hn : lower n ≠ "size".toList) :
    seqSize (seqPrefix sz ++ .ident n :: r) = some (sz, .ident n :: r) := by
  cases sz with
  | any =>
    simp only [seqPrefix, List.nil_append, seqSize]
    rw [if_neg hn]
  | fix m ext =>
    have := sizeGroup_fix m ext (.punct ',' :: .ident n :: r) h
    simp only [seqPrefix, List.cons_append, List.append_assoc, List.nil_append, seqSize, kw,
      lower_size, if_true, this, Option.bind_eq_bind, Option.bind_some, expect]
  | range a b ext =>
    have := sizeGroup_range a b ext (.punct ',' :: .ident n :: r) h.1 h.2.1 h.2.2
    simp only [seqPrefix, List.cons_append, List.append_assoc, List.nil_append, seqSize, kw,
      lower_size, if_true, this, Option.bind_eq_bind, Option.bind_some, expect]

/-! ### tags -/

def TagOk : Tag → Prop
  | .universal n | .application n | .contextSpecific n | .priv n => n ≤ USIZE_MAX

/-- the group after the identifier `tag` -/
def tagBody : Tag → List Tok
  | .universal n => [.lp, kw "UNIVERSAL", .lp, .num n, .rp, .rp]
  | .application n => [.lp, kw "APPLICATION", .lp, .num n, .rp, .rp]
  | .priv n => [.lp, kw "PRIVATE", .lp, .num n, .rp, .rp]
  | .contextSpecific n => [.lp, .num n, .rp]

theorem tagToks_eq (t : Tag) : tagToks t = kw "tag" :: tagBody t := by
  cases t <;> rfl

theorem attrTag_rt (t : Tag) (rest : List Tok) (h : TagOk t) :
    attrTag (tagBody t ++ rest) = some (t, rest) := by
  have l1 : lower "UNIVERSAL".toList = "universal".toList := by decide
  have l2 : lower "APPLICATION".toList = "application".toList := by decide
  have l3 : lower "PRIVATE".toList = "private".toList := by decide
  have d1 : ("application".toList = "universal".toList) = False := by decide
  have d2 : ("private".toList = "universal".toList) = False := by decide
  have d3 : ("private".toList = "application".toList) = False := by decide
  cases t with
  | universal n =>
    have h' : n ≤ USIZE_MAX := h
    simp only [tagBody, kw, List.cons_append, List.nil_append, attrTag, tagNumber, if_pos h', l1,
      if_true, skipGroup]
  | application n =>
    have h' : n ≤ USIZE_MAX := h
    simp only [tagBody, kw, List.cons_append, List.nil_append, attrTag, tagNumber, if_pos h', l2,
      d1, if_false, if_true, skipGroup]
  | priv n =>
    have h' : n ≤ USIZE_MAX := h
    simp only [tagBody, kw, List.cons_append, List.nil_append, attrTag, tagNumber, if_pos h', l3,
      d2, d3, if_false, if_true, skipGroup]
  | contextSpecific n =>
    have h' : n ≤ USIZE_MAX := h
    simp only [tagBody, List.cons_append, List.nil_append, attrTag, tagNumber, if_pos h', skipGroup]

/-! ### default literals -/

def LitOk : Lit → Prop
  | .bool _ => True
  | .str _ => True
  | .int i => InI64 i
  | .octets _ => False
  | .enumVariant _ _ => True

/-- the literal as the macro reads it back: item references come back with the mangled names -/
def normLit : Lit → Lit
  | .enumVariant ty var => .enumVariant (structOrEnumA ty) (variantA var)
  | l => l

theorem variantA_ne_bool (n : Name) : variantA n ≠ "true".toList ∧ variantA n ≠ "false".toList := by
  rcases variantA_head n with h | ⟨c, r, h⟩
  · rw [h]; exact ⟨by decide, by decide⟩
  · rw [h]
    have hl := not_lower_toUpper c
    constructor
    · intro he
      have : c.toUpper = 't' := by
        have := congrArg List.head? he; simpa using this
      rw [this] at hl; exact absurd hl (by decide)
    · intro he
      have : c.toUpper = 'f' := by
        have := congrArg List.head? he; simpa using this
      rw [this] at hl; exact absurd hl (by decide)

theorem defaultLit_rt (v : Lit) (rest : List Tok) (h : LitOk v) :
    defaultLit (litToks v ++ .rp :: rest) = some (normLit v, .rp :: rest) := by
  cases v with
  | bool b =>
    cases b
    · have : ("false".toList = "true".toList) = False := by decide
      simp [litToks, kw, defaultLit, normLit, this]
    · simp [litToks, kw, defaultLit, normLit]
  | str s => simp [litToks, defaultLit, normLit]
  | int i =>
    have hl := litInt_intToks i (.rp :: rest)
    simp only [litToks, normLit]
    unfold intToks at hl ⊢
    split
    · next hneg =>
      simp only [hneg, if_true] at hl
      simp only [List.cons_append, List.nil_append] at hl ⊢
      unfold defaultLit
      simp only [hl, h.1, h.2, and_self, if_true]
    · next hpos =>
      simp only [hpos, if_false] at hl
      simp only [List.cons_append, List.nil_append] at hl ⊢
      unfold defaultLit
      simp only [hl, h.1, h.2, and_self, if_true]
  | octets bs => exact absurd h (by simp [LitOk])
  | enumVariant ty var =>
    have h1 := variantA_ne_bool ty
    simp only [litToks, List.cons_append, List.nil_append, defaultLit, pathLit, structOrEnumA, h1.1,
      h1.2, if_false, normLit]

/-! ### types -/

/-- the fragment on which printing followed by parsing is the identity (up to `norm`):
    everything except the deviations listed in Props/C08.lean -/
def Frag : AType → Prop
  | .boolean => True
  | .null => True
  | .integer mn mx _ cs =>
    cs = [] ∧ ((mn = none ∧ mx = none) ∨ ∃ a b, mn = some a ∧ mx = some b ∧ InI64 a ∧ InI64 b)
  | .string sz _ => SizeOk sz
  | .octetString sz => SizeOk sz
  | .bitString sz => SizeOk sz
  | .optional t => Frag t
  | .default t v => Frag t ∧ LitOk v
  | .sequenceOf t sz => Frag t ∧ SizeOk sz
  | .setOf t sz => Frag t ∧ SizeOk sz
  | .complex _ tag => ∃ t, tag = some t ∧ TagOk t

def norm : AType → AType
  | .optional t => .optional (norm t)
  | .default t v => .default (norm t) (normLit v)
  | .sequenceOf t s => .sequenceOf (norm t) s
  | .setOf t s => .setOf (norm t) s
  | t => t

def depth : AType → Nat
  | .optional t => depth t + 1
  | .default t _ => depth t + 1
  | .sequenceOf t _ => depth t + 1
  | .setOf t _ => depth t + 1
  | _ => 0

theorem kwOf_charset (cs : Charset) : kwOf (lower (charsetName cs).toList) = .charset cs := by
  cases cs <;> decide

theorem typeToks_head (t : AType) :
    ∃ (s : String) (r : List Tok), typeToks t = kw s :: r ∧ lower s.toList ≠ "size".toList := by
  cases t with
  | boolean => exact ⟨"boolean", [], rfl, by decide⟩
  | null => exact ⟨"null", [], rfl, by decide⟩
  | integer mn mx ext cs => exact ⟨"integer", _, rfl, by decide⟩
  | string sz cs =>
    exact ⟨charsetName cs, _, by simp only [typeToks]; exact withParams_size _ _, by cases cs <;> decide⟩
  | octetString sz =>
    exact ⟨"octet_string", _, by simp only [typeToks]; exact withParams_size _ _, by decide⟩
  | bitString sz => exact ⟨"bit_string", _, by simp only [typeToks]; exact withParams_bits _, by decide⟩
  | optional t => exact ⟨"optional", _, rfl, by decide⟩
  | default t v => exact ⟨"default", _, rfl, by decide⟩
  | sequenceOf t sz =>
    exact ⟨"sequence_of", _, by simp only [typeToks, withParams_seq]; rfl, by decide⟩
  | setOf t sz => exact ⟨"set_of", _, by simp only [typeToks, withParams_seq]; rfl, by decide⟩
  | complex n tag => exact ⟨"complex", _, rfl, by decide⟩

theorem atEnd_intToks (i : Int) (r : List Tok) : atEnd (intToks i ++ r) = false := by
  unfold intToks; split <;> simp [atEnd]

/-- the parser mirror reads back what the printer mirror prints, for every type of the fragment
    and whatever follows (as long as it does not open a group) -/
theorem parseTy_typeToks (t : AType) : Frag t → ∀ (fuel : Nat) (rest : List Tok),
    depth t < fuel → NoLp rest → parseTy fuel (typeToks t ++ rest) = some (norm t, rest) := by
  induction t with
  | boolean =>
    intro _ fuel rest hf _
    obtain ⟨k, rfl⟩ : ∃ k, fuel = k + 1 := ⟨fuel - 1, by omega⟩
    have : kwOf (lower "boolean".toList) = .boolean := by decide
    simp only [typeToks, kw, List.cons_append, List.nil_append, parseTy, this, norm]
  | null =>
    intro _ fuel rest hf _
    obtain ⟨k, rfl⟩ : ∃ k, fuel = k + 1 := ⟨fuel - 1, by omega⟩
    have : kwOf (lower "null".toList) = .null := by decide
    simp only [typeToks, kw, List.cons_append, List.nil_append, parseTy, this, norm]
  | integer mn mx ext cs =>
    intro h fuel rest hf _
    obtain ⟨k, rfl⟩ : ∃ k, fuel = k + 1 := ⟨fuel - 1, by omega⟩
    have hk : kwOf (lower "integer".toList) = .integer := by decide
    obtain ⟨rfl, h⟩ := h
    rcases h with ⟨rfl, rfl⟩ | ⟨a, b, rfl, rfl, ha, hb⟩
    · have := integerRange_none ext rest
      simp only [List.cons_append, List.nil_append, List.append_assoc] at this
      simp only [typeToks, withParams, kw, List.cons_append, List.nil_append, List.append_assoc,
        List.flatMap_nil, parseTy, hk, atEnd, Bool.false_eq_true, if_false, openP, expect, if_true,
        Option.bind_eq_bind, Option.bind_some, norm]
      simp only [kw] at this
      simp only [this, Option.bind_some, closeP, expect, if_true]
    · have := integerRange_some a b ext rest ha hb
      simp only [List.append_assoc] at this
      have e1 : ∀ r : List Tok, atEnd (.lp :: r) = false := fun _ => rfl
      simp only [typeToks, withParams, kw, List.cons_append, List.nil_append, List.append_assoc,
        List.flatMap_nil, parseTy, hk, e1, atEnd_intToks, Bool.false_eq_true, if_false, openP,
        expect, if_true, Option.bind_eq_bind, Option.bind_some, norm]
      simp only [this, Option.bind_some, closeP, expect, if_true]
  | string sz cs =>
    intro h fuel rest hf hr
    obtain ⟨k, rfl⟩ : ∃ k, fuel = k + 1 := ⟨fuel - 1, by omega⟩
    simp only [typeToks, withParams_size, kw, List.cons_append, parseTy, kwOf_charset,
      optSizeOrAny_params sz rest h hr, Option.map_some, norm]
  | octetString sz =>
    intro h fuel rest hf hr
    obtain ⟨k, rfl⟩ : ∃ k, fuel = k + 1 := ⟨fuel - 1, by omega⟩
    have hk : kwOf (lower "octet_string".toList) = .octetString := by decide
    simp only [typeToks, withParams_size, kw, List.cons_append, parseTy, hk,
      optSizeOrAny_params sz rest h hr, Option.map_some, norm]
  | bitString sz =>
    intro h fuel rest hf hr
    obtain ⟨k, rfl⟩ : ∃ k, fuel = k + 1 := ⟨fuel - 1, by omega⟩
    have hk : kwOf (lower "bit_string".toList) = .bitString := by decide
    simp only [typeToks, withParams_bits, kw, List.cons_append, parseTy, hk,
      optSizeOrAny_bits sz rest h, Option.map_some, norm]
  | optional t ih =>
    intro h fuel rest hf _
    obtain ⟨k, rfl⟩ : ∃ k, fuel = k + 1 := ⟨fuel - 1, by omega⟩
    have hk : kwOf (lower "optional".toList) = .optional := by decide
    have := ih h k (.rp :: rest) (by simp [depth] at hf; omega) trivial
    simp only [typeToks, withParams, kw, List.cons_append, List.nil_append, List.append_assoc,
      List.flatMap_nil, parseTy, hk, openP, expect, if_true, Option.bind_eq_bind, Option.bind_some,
      this, closeP, norm]
  | default t v ih =>
    intro h fuel rest hf _
    obtain ⟨k, rfl⟩ : ∃ k, fuel = k + 1 := ⟨fuel - 1, by omega⟩
    have hk : kwOf (lower "default".toList) = .default := by decide
    have := ih h.1 k (.punct ',' :: (litToks v ++ .rp :: rest)) (by simp [depth] at hf; omega) trivial
    simp only [typeToks, withParams, kw, List.cons_append, List.nil_append, List.append_assoc,
      List.flatMap_cons, List.flatMap_nil, parseTy, hk, openP, expect, if_true, Option.bind_eq_bind,
      Option.bind_some, this, defaultLit_rt v rest h.2, closeP, norm]
  | sequenceOf t sz ih =>
    intro h fuel rest hf _
    obtain ⟨k, rfl⟩ : ∃ k, fuel = k + 1 := ⟨fuel - 1, by omega⟩
    have hk : kwOf (lower "sequence_of".toList) = .sequenceOf := by decide
    obtain ⟨s, r, hs, hn⟩ := typeToks_head t
    have h1 := seqSize_rt sz h.2 s.toList (r ++ .rp :: rest) hn
    have := ih h.1 k (.rp :: rest) (by simp [depth] at hf; omega) trivial
    rw [hs] at this
    simp only [kw, List.cons_append] at this h1
    simp only [typeToks, withParams_seq, hs, kw, List.cons_append, List.nil_append, List.append_assoc,
      parseTy, hk, openP, expect, if_true, Option.bind_eq_bind, Option.bind_some, h1, this, closeP,
      norm]
  | setOf t sz ih =>
    intro h fuel rest hf _
    obtain ⟨k, rfl⟩ : ∃ k, fuel = k + 1 := ⟨fuel - 1, by omega⟩
    have hk : kwOf (lower "set_of".toList) = .setOf := by decide
    obtain ⟨s, r, hs, hn⟩ := typeToks_head t
    have h1 := seqSize_rt sz h.2 s.toList (r ++ .rp :: rest) hn
    have := ih h.1 k (.rp :: rest) (by simp [depth] at hf; omega) trivial
    rw [hs] at this
    simp only [kw, List.cons_append] at this h1
    simp only [typeToks, withParams_seq, hs, kw, List.cons_append, List.nil_append, List.append_assoc,
      parseTy, hk, openP, expect, if_true, Option.bind_eq_bind, Option.bind_some, h1, this, closeP,
      norm]
  | complex n tag =>
    intro h fuel rest hf _
    obtain ⟨k, rfl⟩ : ∃ k, fuel = k + 1 := ⟨fuel - 1, by omega⟩
    have hk : kwOf (lower "complex".toList) = .complex := by decide
    have hl : lower "tag".toList = "tag".toList := by decide
    obtain ⟨tg, rfl, htg⟩ := h
    have := attrTag_rt tg (.rp :: rest) htg
    simp only [typeToks, withParams, tagToks_eq, kw, Option.map_some, Option.toList_some,
      List.cons_append, List.nil_append, List.append_assoc, List.flatMap_cons, List.flatMap_nil,
      parseTy, hk, openP, expect, if_true, Option.bind_eq_bind, Option.bind_some, hl, this, closeP,
      norm]

/-! ### the whole attribute of a component: type, tag, constants -/

theorem depth_le_length (t : AType) : depth t ≤ (typeToks t).length := by
  induction t with
  | optional t ih => simp [depth, typeToks, withParams]; omega
  | default t v ih => simp [depth, typeToks, withParams]; omega
  | sequenceOf t sz ih => simp [depth, typeToks, withParams_seq]; omega
  | setOf t sz ih => simp [depth, typeToks, withParams_seq]; omega
  | _ => simp [depth]

/-- tokens between `const(` and its `)` -/
def constBody : List (Name × Int) → List Tok
  | [] => []
  | [c] => [.ident c.1, .lp] ++ intToks c.2 ++ [.rp]
  | c :: d :: rest => [.ident c.1, .lp] ++ intToks c.2 ++ [.rp, .punct ','] ++ constBody (d :: rest)

theorem constTail_eq (c : Name × Int) (cs : List (Name × Int)) (tl : List Tok) :
    [.ident c.1, .lp] ++ intToks c.2 ++ [.rp] ++
      (cs.flatMap fun d => [.punct ',', .ident d.1, .lp] ++ intToks d.2 ++ [.rp]) ++ tl
      = constBody (c :: cs) ++ tl := by
  induction cs generalizing c with
  | nil => simp [constBody]
  | cons d ds ih =>
    have := ih d
    simp only [List.flatMap_cons, constBody, List.append_assoc, List.cons_append, List.nil_append] at this ⊢
    rw [this]

theorem constToks_eq (c : Name × Int) (cs : List (Name × Int)) :
    constToks (c :: cs) = [kw "const", .lp] ++ constBody (c :: cs) ++ [.rp] := by
  have := constTail_eq c cs [.rp]
  simp only [constToks, List.append_assoc, List.cons_append, List.nil_append] at this ⊢
  rw [this]

theorem constLit_rt (n : Name) (v : Int) (more : List Tok) (h : InI64 v) :
    constLit ([.ident n, .lp] ++ intToks v ++ .rp :: more) = some ((n, v), more) := by
  have := litInt_intToks v (.rp :: more)
  simp only [List.cons_append, List.nil_append, constLit, this, h.1, h.2, and_self, if_true, closeP,
    expect, Option.map_some]

theorem constList_rt (cs : List (Name × Int)) (hne : cs ≠ []) (h : ∀ c ∈ cs, InI64 c.2)
    (rest : List Tok) : ∀ fuel, cs.length ≤ fuel →
      constList fuel (constBody cs ++ .rp :: rest) = some (cs, .rp :: rest) := by
  induction cs with
  | nil => exact absurd rfl hne
  | cons c ds ih =>
    intro fuel hf
    obtain ⟨k, rfl⟩ : ∃ k, fuel = k + 1 := ⟨fuel - 1, by simp at hf; omega⟩
    cases ds with
    | nil =>
      have := constLit_rt c.1 c.2 (.rp :: rest) (h c (by simp))
      simp only [List.cons_append, List.nil_append, List.append_assoc] at this
      simp only [constBody, constList, List.cons_append, List.nil_append, List.append_assoc, this,
        Option.bind_eq_bind, Option.bind_some, atEnd, if_true]
    | cons d es =>
      have := constLit_rt c.1 c.2 (.punct ',' :: (constBody (d :: es) ++ .rp :: rest)) (h c (by simp))
      simp only [List.cons_append, List.nil_append, List.append_assoc] at this
      have ih' := ih (by simp) (fun x hx => h x (by simp [hx])) k (by simp at hf ⊢; omega)
      simp only [constBody, constList, List.cons_append, List.nil_append, List.append_assoc, this,
        Option.bind_eq_bind, Option.bind_some, atEnd, Bool.false_eq_true, if_false, expect, if_true]
      simp only [ih', Option.bind_some]

def FieldOk (f : FieldIn) : Prop :=
  Frag f.ty ∧ (∀ t, f.tag = some t → TagOk t) ∧ (∀ c ∈ f.consts, InI64 c.2)

theorem lower_tag : lower "tag".toList = "tag".toList := by decide
theorem lower_const : lower "const".toList = "const".toList := by decide
theorem const_ne_tag : ("const".toList = "tag".toList) = False := by decide

/-- the `const(..)` part, when it is the last thing in the attribute -/
theorem attrLoop_consts (acc : Parsed) (c : Name × Int) (cs : List (Name × Int))
    (h : ∀ x ∈ c :: cs, InI64 x.2) (fuel : Nat) (hf : 2 ≤ fuel) :
    attrLoop fuel acc (constToks (c :: cs))
      = some { acc with consts := acc.consts ++ (c :: cs) } := by
  obtain ⟨k, rfl⟩ : ∃ k, fuel = k + 2 := ⟨fuel - 2, by omega⟩
  have hl := constList_rt (c :: cs) (by simp) h [] ((constBody (c :: cs) ++ [Tok.rp]).length + 1)
    (by
      have : (c :: cs).length ≤ (constBody (c :: cs)).length := by
        clear h
        induction cs generalizing c with
        | nil => simp [constBody]
        | cons d ds ih => have := ih d; simp [constBody] at this ⊢; omega
      simp at this ⊢; omega)
  rw [constToks_eq]
  simp only [kw, List.cons_append, List.nil_append, List.append_assoc, attrLoop, lower_const,
    const_ne_tag, if_false, if_true, openP, expect, Option.bind_eq_bind, Option.bind_some]
  simp only [hl, Option.bind_some, closeP, expect, if_true, eofOrComma, atEnd]

theorem attrLoop_nil (acc : Parsed) (fuel : Nat) (hf : 1 ≤ fuel) : attrLoop fuel acc [] = some acc := by
  obtain ⟨k, rfl⟩ : ∃ k, fuel = k + 1 := ⟨fuel - 1, by omega⟩
  simp [attrLoop]

/-- everything after the type: `, tag(..)` and `, const(..)` -/
def tailToks (f : FieldIn) : List Tok :=
  (match f.tag with | some t => .punct ',' :: tagToks t | none => []) ++
  (match f.consts with | [] => [] | cs => .punct ',' :: constToks cs)

theorem fieldToks_eq (f : FieldIn) : fieldToks f = typeToks f.ty ++ tailToks f := by
  unfold fieldToks tailToks; rw [List.append_assoc]; rfl

theorem noLp_tail (f : FieldIn) : NoLp (tailToks f) := by
  unfold tailToks
  cases f.tag <;> cases f.consts <;> simp [NoLp]

/-- one round of the attribute loop on a printed `tag(..)` -/
theorem attrLoop_tag (acc : Parsed) (t : Tag) (rest : List Tok) (fuel : Nat) (ht : TagOk t) :
    attrLoop (fuel + 1) acc (kw "tag" :: (tagBody t ++ rest))
      = (eofOrComma rest).bind (attrLoop fuel { acc with tag := some t }) := by
  have := attrTag_rt t rest ht
  simp only [kw, attrLoop, lower_tag, if_true, this, Option.bind_eq_bind, Option.bind_some]

theorem tail_rt (f : FieldIn) (p : AType) (h : FieldOk f) (fuel : Nat) (hf : 4 ≤ fuel) :
    (eofOrComma (tailToks f)).bind (attrLoop fuel { primary := p })
      = some { primary := p, tag := f.tag, consts := f.consts } := by
  obtain ⟨k, rfl⟩ : ∃ k, fuel = k + 2 := ⟨fuel - 2, by omega⟩
  obtain ⟨ty, tag, consts⟩ := f
  obtain ⟨_, htag, hcs⟩ := h
  simp only at htag hcs
  cases tag with
  | none =>
    cases consts with
    | nil => simp [tailToks, eofOrComma, atEnd, attrLoop]
    | cons c cs =>
      have := attrLoop_consts { primary := p } c cs hcs (k + 2) (by omega)
      simp only [tailToks, List.nil_append, eofOrComma, atEnd, Bool.false_eq_true, if_false,
        Option.bind_some, this, List.nil_append]
  | some t =>
    have ht := htag t rfl
    cases consts with
    | nil =>
      have := attrLoop_tag { primary := p } t [] (k + 1) ht
      simp only [List.append_nil] at this
      simp only [tailToks, tagToks_eq, List.append_nil, eofOrComma, atEnd, Bool.false_eq_true,
        if_false, Option.bind_some, this, if_true]
      exact attrLoop_nil _ _ (by omega)
    | cons c cs =>
      have := attrLoop_tag { primary := p } t (.punct ',' :: constToks (c :: cs)) (k + 1) ht
      have hc := attrLoop_consts { primary := p, tag := some t } c cs hcs (k + 1) (by omega)
      simp only [tailToks, tagToks_eq, List.cons_append, List.append_assoc, eofOrComma, atEnd,
        Bool.false_eq_true, if_false, Option.bind_some, this, hc, List.nil_append]

/-- `AsnAttribute::parse` reads the printed attribute of a component back: the type up to `norm`,
    the tag and the constants as they were -/
theorem parseAttr_fieldToks (f : FieldIn) (h : FieldOk f) :
    parseAttr (fieldToks f) = some { primary := norm f.ty, tag := f.tag, consts := f.consts } := by
  obtain ⟨s, r, hs, _⟩ := typeToks_head f.ty
  have hd := depth_le_length f.ty
  have hp := parseTy_typeToks f.ty h.1 ((fieldToks f).length + 1) (tailToks f)
    (by rw [fieldToks_eq]; simp; omega) (noLp_tail f)
  have hcons : fieldToks f = .ident s.toList :: (r ++ tailToks f) := by rw [fieldToks_eq, hs]; rfl
  rw [← fieldToks_eq] at hp
  by_cases hl : tailToks f = []
  · -- nothing but the type
    have htag : f.tag = none := by
      unfold tailToks at hl; cases hft : f.tag <;> simp [hft] at hl ⊢
    have hcs : f.consts = [] := by
      unfold tailToks at hl; rw [htag] at hl
      cases hfc : f.consts <;> simp [hfc] at hl ⊢
    unfold parseAttr
    rw [hcons] at hp ⊢
    simp only [hp, Option.bind_eq_bind, Option.bind_some]
    rw [hl, htag, hcs]
    simp [eofOrComma, atEnd, attrLoop]
  · have hlen : 4 ≤ (fieldToks f).length + 1 := by
      have : 3 ≤ (tailToks f).length := by
        unfold tailToks at hl ⊢
        cases hft : f.tag with
        | none =>
          cases hfc : f.consts with
          | nil => simp [hft, hfc] at hl
          | cons c cs =>
            show 3 ≤ ([] ++ (Tok.punct ',' :: constToks (c :: cs))).length
            rw [constToks_eq]; simp
        | some t =>
          have : 3 ≤ (Tok.punct ',' :: tagToks t).length := by
            rw [tagToks_eq]; cases t <;> simp [tagBody, kw]
          show 3 ≤ ((Tok.punct ',' :: tagToks t) ++ _).length
          rw [List.length_append]; omega
      rw [hcons]; simp; omega
    unfold parseAttr
    rw [hcons] at hp hlen ⊢
    simp only [hp, Option.bind_eq_bind, Option.bind_some]
    exact tail_rt f (norm f.ty) h _ hlen

end Asn1Verif.Codegen.Attr
