import Asn1Verif.Codegen.ConstsModel
import Asn1Verif.Codegen.IntTypeLemmas
/-
  Lemmas about `Codegen/ConstsModel.lean`, INTEGER part: what the second run of the converter
  (attribute macro: `into_asn` → `integer(a..b)` text → `IntegerRange::parse` →
  `convert_asn_to_rust`) does to the Rust type the first run chose.

  * not extensible: nothing (`reconvert_fixed`) — every value `asn_fixed_integer_to_rust_type` can
    return for `i64` bounds (`Canon`) is a fixed point of `reconvert`;
  * extensible: a fixed point unless the printed range has an open end, `min..b` or `a..max`
    (`reconvert_ext`): the macro closes it with `0` / `i64::MIN` / `i64::MAX`.

  Recipe: thresholds stay symbolic, `consts_facts` gives `omega` their values; the nested `if`s of
  the second cascade are not split (`split` fails on them) but resolved by `simp only` with the
  conditions proved beforehand (`cast_fact`).
-/
namespace Asn1Verif.Codegen.ConstsModel
open Asn1Verif Asn1Verif.Consts Asn1Verif.Uper Asn1Verif.Codegen.IntType

/-- closes an equation between `IntTy` values / a linear fact after unfolding the casts -/
macro "int_leaf" : tactic => `(tactic|
  ((try simp only [asU, asI, iabs] at *) <;>
   (try simp only [IntTy.i8.injEq, IntTy.u8.injEq, IntTy.i16.injEq, IntTy.u16.injEq, IntTy.i32.injEq,
      IntTy.u32.injEq, IntTy.i64.injEq, IntTy.u64.injEq, Option.some.injEq, reduceCtorEq, and_true, true_and,
      and_self, Int.not_lt, Int.not_le, ge_iff_le]) <;>
   (try omega)))

/-- a fact about a cast expression -/
macro "cast_fact" : tactic => `(tactic| (simp only [asU, asI, iabs]; omega))

macro "casc" : tactic => `(tactic|
  simp only [reconvert, macroRange, IntTy.intoAsn, Option.map, cascade, fixedCascade, extCascade, firstArm, Option.getD,
      Bool.false_eq_true, if_false, if_true, decide_eq_true_eq, Bool.and_eq_true, ge_iff_le])

/-- what `asn_fixed_integer_to_rust_type` can return for `i64` bounds -/
def Canon : IntTy → Prop
  | .u8 a b e => e = false ∧ 0 ≤ a ∧ a ≤ U8_MAX ∧ 0 ≤ b ∧ b ≤ U8_MAX
  | .u16 a b e => e = false ∧ 0 ≤ a ∧ a ≤ U16_MAX ∧ U8_MAX < b ∧ b ≤ U16_MAX
  | .u32 a b e => e = false ∧ 0 ≤ a ∧ a ≤ U32_MAX ∧ U16_MAX < b ∧ b ≤ U32_MAX
  | .u64 (some a) (some b) e => e = false ∧ 0 ≤ a ∧ a ≤ I64_MAX ∧ U32_MAX < b ∧ b < 2 ^ 64 ∧ ¬ (a = 0 ∧ b = I64_MAX)
  | .u64 none none e => e = false
  | .u64 _ _ _ => False
  | .i8 a b e => e = false ∧ -I8_MAX - 1 ≤ a ∧ a < 0 ∧ -I8_MAX - 1 ≤ b ∧ b ≤ I8_MAX
  | .i16 a b e => e = false ∧ -I16_MAX - 1 ≤ a ∧ a < 0 ∧ -I16_MAX - 1 ≤ b ∧ b ≤ I16_MAX ∧ (a < -I8_MAX - 1 ∨ I8_MAX < b)
  | .i32 a b e => e = false ∧ -I32_MAX - 1 ≤ a ∧ a < 0 ∧ -I32_MAX - 1 ≤ b ∧ b ≤ I32_MAX ∧ (a < -I16_MAX - 1 ∨ I16_MAX < b)
  | .i64 a b e => e = false ∧ I64_MIN ≤ a ∧ a < 0 ∧ I64_MIN ≤ b ∧ b ≤ I64_MAX ∧ (a < -I32_MAX - 1 ∨ I32_MAX < b)

theorem reconvert_of_canon (t : IntTy) (h : Canon t) : reconvert t = t := by
  have hc := consts_facts
  cases t with
  | u8 a b e =>
    obtain ⟨he, h⟩ := h; subst he
    have h1 : ¬(a = 0 ∧ b = I64_MAX) := by omega
    have h2 : 0 ≤ a := by omega
    have h3 : asU 64 b ≤ U8_MAX := by cast_fact
    casc; simp only [h1, h2, h3, if_true, if_false]; int_leaf
  | u16 a b e =>
    obtain ⟨he, h⟩ := h; subst he
    have h1 : ¬(a = 0 ∧ b = I64_MAX) := by omega
    have h2 : 0 ≤ a := by omega
    have h3 : ¬ asU 64 b ≤ U8_MAX := by cast_fact
    have h4 : asU 64 b ≤ U16_MAX := by cast_fact
    casc; simp only [h1, h2, h3, h4, if_true, if_false]; int_leaf
  | u32 a b e =>
    obtain ⟨he, h⟩ := h; subst he
    have h1 : ¬(a = 0 ∧ b = I64_MAX) := by omega
    have h2 : 0 ≤ a := by omega
    have h3 : ¬ asU 64 b ≤ U8_MAX := by cast_fact
    have h4 : ¬ asU 64 b ≤ U16_MAX := by cast_fact
    have h5 : asU 64 b ≤ U32_MAX := by cast_fact
    casc; simp only [h1, h2, h3, h4, h5, if_true, if_false]; int_leaf
  | u64 a b e =>
    cases a <;> cases b <;> simp only [Canon] at h
    · subst h; casc
    · obtain ⟨he, h⟩ := h; subst he
      rename_i a b
      have h1 : ¬(asI 64 a = 0 ∧ asI 64 b = I64_MAX) := by cast_fact
      have h2 : 0 ≤ asI 64 a := by cast_fact
      have h3 : ¬ asU 64 (asI 64 b) ≤ U8_MAX := by cast_fact
      have h4 : ¬ asU 64 (asI 64 b) ≤ U16_MAX := by cast_fact
      have h5 : ¬ asU 64 (asI 64 b) ≤ U32_MAX := by cast_fact
      casc; simp only [h1, h2, h3, h4, h5, if_true, if_false]; int_leaf
  | i8 a b e =>
    obtain ⟨he, h⟩ := h; subst he
    have h1 : ¬(a = 0 ∧ b = I64_MAX) := by omega
    have h2 : ¬ 0 ≤ a := by omega
    have h3 : max (iabs (a + 1)) b ≤ I8_MAX := by cast_fact
    casc; simp only [h1, h2, h3, if_true, if_false]; int_leaf
  | i16 a b e =>
    obtain ⟨he, h⟩ := h; subst he
    have h1 : ¬(a = 0 ∧ b = I64_MAX) := by omega
    have h2 : ¬ 0 ≤ a := by omega
    have h3 : ¬ max (iabs (a + 1)) b ≤ I8_MAX := by cast_fact
    have h4 : max (iabs (a + 1)) b ≤ I16_MAX := by cast_fact
    casc; simp only [h1, h2, h3, h4, if_true, if_false]; int_leaf
  | i32 a b e =>
    obtain ⟨he, h⟩ := h; subst he
    have h1 : ¬(a = 0 ∧ b = I64_MAX) := by omega
    have h2 : ¬ 0 ≤ a := by omega
    have h3 : ¬ max (iabs (a + 1)) b ≤ I8_MAX := by cast_fact
    have h4 : ¬ max (iabs (a + 1)) b ≤ I16_MAX := by cast_fact
    have h5 : max (iabs (a + 1)) b ≤ I32_MAX := by cast_fact
    casc; simp only [h1, h2, h3, h4, h5, if_true, if_false]; int_leaf
  | i64 a b e =>
    obtain ⟨he, h⟩ := h; subst he
    have h1 : ¬(a = 0 ∧ b = I64_MAX) := by omega
    have h2 : ¬ 0 ≤ a := by omega
    have h3 : ¬ max (iabs (a + 1)) b ≤ I8_MAX := by cast_fact
    have h4 : ¬ max (iabs (a + 1)) b ≤ I16_MAX := by cast_fact
    have h5 : ¬ max (iabs (a + 1)) b ≤ I32_MAX := by cast_fact
    casc; simp only [h1, h2, h3, h4, h5, if_false]


theorem canon_fixedCascade (lo hi : Option Int) (hl : OptInI64 lo) (hh : OptInI64 hi) :
    Canon (fixedCascade lo hi) := by
  have hc := consts_facts
  cases lo <;> cases hi <;> simp only [OptInI64, InI64] at hl hh <;> unfold_cascade <;> (repeat' split) <;>
    simp only [Canon] <;> int_leaf

theorem reconvert_fixed (lo hi : Option Int) (hl : OptInI64 lo) (hh : OptInI64 hi) :
    reconvert (cascade lo hi false) = cascade lo hi false := by
  simp only [cascade, Bool.false_eq_true, if_false]
  exact reconvert_of_canon _ (canon_fixedCascade lo hi hl hh)

/-- the extensible cascade on two numbers -/
theorem ext_first (a b : Int) (h : a = 0 ∧ b = I64_MAX) :
    cascade (some a) (some b) true = .u64 none none true := by
  unfold_cascade; simp only [h, and_self, if_true]

theorem ext_unsigned (a b : Int) (h0 : ¬ (a = 0 ∧ b = I64_MAX)) (h : 0 ≤ a ∧ 0 ≤ b) :
    cascade (some a) (some b) true = .u64 (some (asU 64 a)) (some (asU 64 b)) true := by
  unfold_cascade; simp only [h0, if_false, ge_iff_le, h, and_self, if_true]

theorem ext_signed (a b : Int) (h : ¬ (0 ≤ a ∧ 0 ≤ b)) :
    cascade (some a) (some b) true = .i64 a b true := by
  have hc := consts_facts
  have h0 : ¬ (a = 0 ∧ b = I64_MAX) := by omega
  unfold_cascade; simp only [h0, if_false, ge_iff_le, h]

theorem reconvert_u64 (a b : Option Int) (e : Bool) :
    reconvert (.u64 a b e) =
      cascade (macroRange (a.map (asI 64)) (b.map (asI 64))).1 (macroRange (a.map (asI 64)) (b.map (asI 64))).2 e := rfl

theorem reconvert_i64 (a b : Int) (e : Bool) :
    reconvert (.i64 a b e) = cascade (some a) (some b) e := rfl

/-- extensible ranges: the second run differs from the first exactly where the printed range has an
    open end (`min..b` / `a..max`) -/
theorem reconvert_ext (lo hi : Option Int) (hl : OptInI64 lo) (hh : OptInI64 hi) :
    reconvert (cascade lo hi true) =
      match lo, hi with
      | none, some b =>
        if b = I64_MAX then .u64 none none true
        else if 0 < b then .u64 (some 0) (some b) true
        else .i64 I64_MIN b true
      | some a, none =>
        if a = 0 then .u64 none none true
        else if 0 < a then .u64 (some a) (some I64_MAX) true
        else .i64 a I64_MAX true
      | lo, hi => cascade lo hi true := by
  have hc := consts_facts
  cases lo <;> cases hi <;> simp only [OptInI64, InI64] at hl hh
  · rfl
  · rename_i b
    by_cases h1 : b = I64_MAX
    · subst h1; simp only [if_true]; rfl
    · by_cases h3 : 0 ≤ b
      · have e1 : cascade none (some b) true = .u64 none (some (asU 64 b)) true := by
          unfold_cascade; simp only [h1, if_false, ge_iff_le, Int.le_refl, h3, and_self, if_true]
        have f3 : asI 64 (asU 64 b) = b := by cast_fact
        rw [e1, reconvert_u64]
        simp only [Option.map, macroRange, f3, h1, if_false]
        by_cases h2 : 0 < b
        · have f5 : asU 64 (0 : Int) = 0 := by cast_fact
          have f4 : asU 64 b = b := by cast_fact
          simp only [gt_iff_lt, h2, if_true]
          rw [ext_unsigned 0 b (by omega) (by omega), f4, f5]
        · simp only [gt_iff_lt, h2, if_false]
          rw [ext_signed I64_MIN b (by omega)]
      · have e1 : cascade none (some b) true = .i64 I64_MIN b true := by
          unfold_cascade; simp only [h1, if_false, ge_iff_le, Int.le_refl, h3, and_false]
        have h2 : ¬ 0 < b := by omega
        rw [e1, reconvert_i64, ext_signed I64_MIN b (by omega)]
        simp only [h1, h2, if_false]
  · rename_i a
    by_cases h1 : a = 0
    · subst h1; simp only [if_true]; rfl
    · by_cases h2 : 0 < a
      · have e1 : cascade (some a) none true = .u64 (some (asU 64 a)) none true := by
          have f1 : 0 ≤ a := by omega
          unfold_cascade; simp only [h1, if_false, ge_iff_le, Int.le_refl, f1, and_self, if_true]
        have f3 : asI 64 (asU 64 a) = a := by cast_fact
        have f4 : asU 64 a = a := by cast_fact
        have f5 : asU 64 I64_MAX = I64_MAX := by cast_fact
        rw [e1, reconvert_u64]
        simp only [Option.map, macroRange, f3, h1, h2, if_false, if_true]
        rw [ext_unsigned a I64_MAX (by omega) (by omega), f4, f5]
      · have e1 : cascade (some a) none true = .i64 a I64_MAX true := by
          have f1 : ¬ 0 ≤ a := by omega
          unfold_cascade; simp only [h1, if_false, ge_iff_le, Int.le_refl, f1, false_and]
        rw [e1, reconvert_i64, ext_signed a I64_MAX (by omega)]
        simp only [h1, h2, if_false]
  · rename_i a b
    show reconvert (cascade (some a) (some b) true) = cascade (some a) (some b) true
    by_cases h1 : a = 0 ∧ b = I64_MAX
    · rw [ext_first a b h1]; rfl
    · by_cases h2 : 0 ≤ a ∧ 0 ≤ b
      · have f3 : asI 64 (asU 64 a) = a := by cast_fact
        have f4 : asI 64 (asU 64 b) = b := by cast_fact
        rw [ext_unsigned a b h1 h2, reconvert_u64]
        simp only [Option.map, macroRange, f3, f4]
        rw [ext_unsigned a b h1 h2]
      · rw [ext_signed a b h2, reconvert_i64, ext_signed a b h2]
/-! ### first run of the extensible cascade with an open end -/

theorem ext_first_min (b : Int) (h : b = I64_MAX) : cascade none (some b) true = .u64 none none true := by
  unfold_cascade; simp only [h, if_true]

theorem ext_min_unsigned (b : Int) (h0 : b ≠ I64_MAX) (h : 0 ≤ b) :
    cascade none (some b) true = .u64 none (some (asU 64 b)) true := by
  unfold_cascade; simp only [h0, if_false, ge_iff_le, Int.le_refl, h, and_self, if_true]

theorem ext_min_signed (b : Int) (h : b < 0) : cascade none (some b) true = .i64 I64_MIN b true := by
  have hc := consts_facts
  have h0 : b ≠ I64_MAX := by omega
  have h1 : ¬ 0 ≤ b := by omega
  unfold_cascade; simp only [h0, if_false, ge_iff_le, Int.le_refl, h1, and_false]

theorem ext_first_max (a : Int) (h : a = 0) : cascade (some a) none true = .u64 none none true := by
  unfold_cascade; simp only [h, if_true]

theorem ext_max_unsigned (a : Int) (h0 : a ≠ 0) (h : 0 ≤ a) :
    cascade (some a) none true = .u64 (some (asU 64 a)) none true := by
  unfold_cascade; simp only [h0, if_false, ge_iff_le, Int.le_refl, h, and_self, if_true]

theorem ext_max_signed (a : Int) (h : a < 0) : cascade (some a) none true = .i64 a I64_MAX true := by
  have h0 : a ≠ 0 := by omega
  have h1 : ¬ 0 ≤ a := by omega
  unfold_cascade; simp only [h0, if_false, ge_iff_le, Int.le_refl, h1, false_and]

end Asn1Verif.Codegen.ConstsModel
