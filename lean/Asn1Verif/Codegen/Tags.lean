import Asn1Verif.Base.Outcome
import Asn1Verif.Gen.Consts
/-
  C16 — mirror of the generator's tag logic (decision logic only, no values).

  Source anchors (all in /repo/asn1rs-model/src):
  * `asn/tag.rs`            `enum Tag` with `#[derive(PartialOrd, Ord)]`, `Tag::DEFAULT_*`
  * `asn/tag_resolver.rs`   `TagResolver::{resolve_tag, resolve_type_tag}`
  * `asn/components.rs`     `ComponentTypeList::try_from` (position of the extension marker)
  * `rust.rs`               `RustType::tag`, `asn_fields_to_rust_fields`, `definition_type_to_rust_type`
  * `generate/rust.rs`      `asn_attribute*` (stage-1 source text with `#[asn(..)]` attributes)
  * `proc_macro/*.rs`       the attribute macro re-reads that text (stage 2)
  * `generate/walker.rs`    `write_constraints`, `assign_implicit_tags`, `sort_fields_canonically`,
                            `write_field_constraint` (the `TAG` constants), `write_sequence_or_set_constraint`

  The real pipeline has two stages.  Stage 1 (converter / `asn_to_rust!`) turns the module into
  Rust source whose items carry `#[asn(..)]` attributes; every type reference is printed as
  `complex(Name, tag(..))` with the tag `TagResolver` found for it.  Stage 2 (the attribute macro,
  at the user's compile time) sees one item only, parses the attributes back into the ASN model
  and runs `AsnDefWriter`, which decides the order of the `read_value`/`write_value` calls (= wire
  order and presence-bit order) and the `TAG` constants.

  Defects are mirrored as they are.  Repaired since the mirror was first written: the resolver's
  cycle detection, the SET sort (extension additions keep their textual order), the `TAG`
  constants of an untagged SET type, SET OF component and DEFAULT component.
-/
namespace Asn1Verif.Codegen.Tags
open Asn1Verif

/-! ### `Tag` and its derived order -/

/-- `asn/tag.rs: enum Tag { Universal(usize), Application(usize), ContextSpecific(usize), Private(usize) }`.
    `cls` is the position of the variant in the declaration, i.e. its rank in the derived `Ord`
    (`Consts.TAG_RANK_*`); `num` is the payload. -/
structure Tag where
  cls : Nat
  num : Nat
  deriving DecidableEq, Repr, Inhabited

namespace Tag

def universal (n : Nat) : Tag := ⟨Consts.TAG_RANK_Universal, n⟩
def application (n : Nat) : Tag := ⟨Consts.TAG_RANK_Application, n⟩
def contextSpecific (n : Nat) : Tag := ⟨Consts.TAG_RANK_ContextSpecific, n⟩
def priv (n : Nat) : Tag := ⟨Consts.TAG_RANK_Private, n⟩

/-- a `Tag::DEFAULT_*` constant as extracted by the translator -/
def ofPair (p : Nat × Nat) : Tag := ⟨p.1, p.2⟩

/-- `#[derive(PartialOrd, Ord)]` on an enum: the variant rank decides, equal variants compare
    their payload (`a <= b`). -/
def le (a b : Tag) : Bool :=
  decide (a.cls < b.cls) || (a.cls == b.cls && decide (a.num ≤ b.num))

end Tag

/-- `Option<Tag>`'s derived order (`None < Some(_)`), as used by the sort key `&a.1.tag` -/
def optTagLe : Option Tag → Option Tag → Bool
  | none, _ => true
  | some _, none => false
  | some a, some b => a.le b

/-- `tags.sort(); tags.into_iter().next()`: the smallest element (the order is total and
    antisymmetric, so "first after sorting" is the minimum; `TagsLemmas.minTag_eq_head_mergeSort`) -/
def minTag : List Tag → Option Tag
  | [] => none
  | t :: ts =>
    match minTag ts with
    | none => some t
    | some m => if t.le m then some t else some m

/-! ### types, definitions -/

/-- the types that need no environment to find their tag.  `sequence`, `set`, `enumerated` stand
    for the *inline* constructed types (`SEQUENCE { .. }`, …); their contents do not matter here. -/
inductive Builtin where
  | boolean | integer | bitString | octetString | null | enumerated
  | utf8String | numericString | printableString | visibleString | ia5String
  | sequence | sequenceOf | set | setOf
  deriving DecidableEq, Repr, Inhabited

/-- `TagResolver::resolve_type_tag` on a builtin = `RustType::tag` of its Rust type (the two
    tables agree; `Tag::DEFAULT_*` from the translator) -/
def defaultTag : Builtin → Tag
  | .boolean => .ofPair Consts.TAG_DEFAULT_BOOLEAN
  | .integer => .ofPair Consts.TAG_DEFAULT_INTEGER
  | .bitString => .ofPair Consts.TAG_DEFAULT_BIT_STRING
  | .octetString => .ofPair Consts.TAG_DEFAULT_OCTET_STRING
  | .null => .ofPair Consts.TAG_DEFAULT_NULL
  | .enumerated => .ofPair Consts.TAG_DEFAULT_ENUMERATED
  | .utf8String => .ofPair Consts.TAG_DEFAULT_UTF8_STRING
  | .numericString => .ofPair Consts.TAG_DEFAULT_NUMERIC_STRING
  | .printableString => .ofPair Consts.TAG_DEFAULT_PRINTABLE_STRING
  | .visibleString => .ofPair Consts.TAG_DEFAULT_VISIBLE_STRING
  | .ia5String => .ofPair Consts.TAG_DEFAULT_IA5_STRING
  | .sequence => .ofPair Consts.TAG_DEFAULT_SEQUENCE
  | .sequenceOf => .ofPair Consts.TAG_DEFAULT_SEQUENCE_OF
  | .set => .ofPair Consts.TAG_DEFAULT_SET
  | .setOf => .ofPair Consts.TAG_DEFAULT_SET_OF

/-- type descriptor: builtin kind / reference / inline CHOICE.  A CHOICE alternative is
    `(explicit tag, type)`; `extAfter` is `Choice::extension_after_index()` (index of the last
    root alternative). -/
inductive Ty where
  | builtin (k : Builtin)
  | ref (name : String)
  | choice (alts : List (Option Tag × Ty)) (extAfter : Option Nat)
  deriving Repr, Inhabited

/-- `Definition(name, Asn { tag, type })` -/
structure Def where
  name : String
  tag : Option Tag
  ty : Ty
  deriving Repr, Inhabited

/-- the definitions of the module, in textual order -/
abbrev Env := List Def

/-- `model.definitions.iter().find(|d| d.0.eq(name))` -/
def Env.lookup (env : Env) (name : String) : Option Def := env.find? (fun d => d.name == name)

/-! ### `TagResolver`

  `resolve_tag` keeps a stack `visiting` of the names whose tag is being resolved (repaired code;
  before, the two functions were plain recursion without any cycle detection and a reference
  cycle that is actually followed — `A ::= B`, `B ::= A`; `R ::= CHOICE { x R, y INTEGER }` —
  overflowed the stack): a reference that leads back to a name on the stack has no tag (`None`),
  the name is pushed before and popped after its definition is looked at.  Here the stack is the
  argument `visiting`; "pop" is the return.

  Result type `Option (Option Tag)`: the inner option is the Rust result, the outer `none` means
  "out of fuel".  Fuel is a device of the mirror (one unit per call, as in the parser mirror); it
  is never exhausted: `TagsLemmas.resolveTypeTag_total` gives, for EVERY module and type, the
  explicit bound `depth t + (definitions not on the stack) · (deepest definition + 1)`, which the
  amount `defaultFuel` used by the driver exceeds (`defaultFuel_sufficient`), and the answer does
  not depend on the amount (`resolveTypeTag_mono`).

  Imports (`model.imports` / `scope`) are not modelled: the environment is one module, the key
  `(module name, type name)` of the Rust stack is the type name. -/

/-- `.map(|v| v.tag().or_else(|| self.resolve_type_tag(v.r#type()))).collect::<Option<Vec<Tag>>>()`:
    left to right, stops at the first alternative without a tag (later ones are not evaluated) -/
def collectTags (rec : Ty → Option (Option Tag)) :
    List (Option Tag × Ty) → Option (Option (List Tag))
  | [] => some (some [])
  | (some t, _) :: rest => (collectTags rec rest).map fun r => r.map (t :: ·)
  | (none, ty) :: rest =>
    match rec ty with
    | none => none
    | some none => some none
    | some (some t) => (collectTags rec rest).map fun r => r.map (t :: ·)

/-- `choice.variants().take(extension_after.map(|e| e + 1).unwrap_or(len))`: the root alternatives -/
def rootAlts (alts : List (Option Tag × Ty)) (extAfter : Option Nat) : List (Option Tag × Ty) :=
  alts.take (match extAfter with | some e => e + 1 | none => alts.length)

/-- `TagResolver::resolve_type_tag_visiting`; the `ref` arm is `resolve_tag_visiting` inlined:
    `if visiting.contains(&key) { return None }; visiting.push(key);`
    `definitions.find(name).and_then(|d| d.tag.or_else(|| self.resolve_type_tag_visiting(&d.type, visiting)))`;
    `visiting.pop()` -/
def resolveTypeTag (env : Env) : Nat → List String → Ty → Option (Option Tag)
  | 0, _, _ => none
  | _ + 1, _, .builtin k => some (some (defaultTag k))
  | fuel + 1, visiting, .ref name =>
    if visiting.contains name then some none else
    match env.lookup name with
    | none => some none
    | some d =>
      match d.tag with
      | some t => some (some t)
      | none => resolveTypeTag env fuel (name :: visiting) d.ty
  | fuel + 1, visiting, .choice alts extAfter =>
    match collectTags (resolveTypeTag env fuel visiting) (rootAlts alts extAfter) with
    | none => none
    | some none => some none
    | some (some ts) => some (minTag ts)

/-- `TagResolver::resolve_tag(name)`: starts with an empty stack -/
def resolveTag (env : Env) (fuel : Nat) (name : String) : Option (Option Tag) :=
  resolveTypeTag env fuel [] (.ref name)

/-! ### component lists -/

inductive Presence where
  | required | optional | default
  deriving DecidableEq, Repr, Inhabited

/-- one component as written: name, explicit tag, type, OPTIONAL/DEFAULT -/
structure Field where
  name : String
  tag : Option Tag
  ty : Ty
  presence : Presence := .required
  deriving Repr, Inhabited

/-- a component list as written: the components in textual order and, for every extension marker
    `...` in the list, the number of components in front of it -/
structure Components where
  fields : List Field
  markers : List Nat := []
  deriving Repr, Inhabited

/-- **is-extension flag of the text**: component `i` is an extension addition iff it is declared
    after the (first) extension marker and before the second one, if any (X.680 25.1,
    `ExtensionAdditions` / `ExtensionEndMarker`) -/
def Components.isExtension (c : Components) (i : Nat) : Bool :=
  match c.markers with
  | [] => false
  | [p] => decide (p ≤ i)
  | p :: q :: _ => decide (p ≤ i) && decide (i < q)

/-- `ComponentTypeList::try_from`: every marker sets
    `extension_after = Some(fields.len().saturating_sub(1))` -/
def extensionAfter (markers : List Nat) : Option Nat :=
  markers.foldl (fun _ p => some (p - 1)) none

/-- the flag the generator works with:
    `extended_after_index.map(|after| index > after).unwrap_or(false)` -/
def extendedFlag (extAfter : Option Nat) (i : Nat) : Bool :=
  match extAfter with
  | some after => decide (i > after)
  | none => false

/-! ### stage 1: `rust.rs` -/

/-- what `write_field_constraint` dispatches on, after `Option`/`Default` are stripped -/
inductive RKind where
  | builtin (k : Builtin)   -- `Bool`, `U64(..)`, `String(..)`, `Vec(..)`, …
  | complex                 -- `RustType::Complex(name, tag)`
  deriving DecidableEq, Repr, Inhabited

/-- `rust::Field` as the walker sees it (stage 2): `tag` is the explicit tag only
    (`with_tag_opt(field.role.tag)`), `typeTag` is `RustType::tag()` of the field's type -/
structure RField where
  name : String
  tag : Option Tag
  typeTag : Option Tag
  kind : RKind
  presence : Presence
  deriving DecidableEq, Repr, Inhabited

/-- inline `SEQUENCE {..}`, `SET {..}`, `ENUMERATED {..}`, `CHOICE {..}` and references become
    `RustType::Complex`; everything else a plain Rust type -/
def rkindOf : Ty → RKind
  | .builtin .sequence => .complex
  | .builtin .set => .complex
  | .builtin .enumerated => .complex
  | .builtin k => .builtin k
  | .ref _ => .complex
  | .choice _ _ => .complex

/-- `definition_type_to_rust_type(name, ty, tag)` followed by `RustType::tag()`
    (`Option`/`Default` wrappers are transparent for both):
    * plain types: the `Tag::DEFAULT_*` of the Rust type;
    * `TypeReference(name, None)`: `Complex(name, resolve_tag(name))` — the component's own tag is
      *not* consulted here;
    * inline constructed types: `Complex(name, tag.or_else(|| resolve_type_tag(ty)))`. -/
def rustTypeTag (env : Env) (fuel : Nat) (f : Field) : Option (Option Tag) :=
  match f.ty with
  | .builtin k => some (some (match f.tag, rkindOf (.builtin k) with
      | some t, .complex => t
      | _, _ => defaultTag k))
  | .ref name => resolveTag env fuel name
  | .choice alts e =>
    match f.tag with
    | some t => some (some t)
    | none => resolveTypeTag env fuel [] (.choice alts e)

/-- `asn_fields_to_rust_fields` for one component -/
def toRField (env : Env) (fuel : Nat) (f : Field) : Option RField :=
  (rustTypeTag env fuel f).map fun tt =>
    { name := f.name, tag := f.tag, typeTag := tt, kind := rkindOf f.ty, presence := f.presence }

mutual
/-- nesting depth of a type (≥ 1) -/
def Ty.depth : Ty → Nat
  | .builtin _ => 1
  | .ref _ => 1
  | .choice alts _ => 1 + altsDepth alts
/-- the deepest alternative -/
def altsDepth : List (Option Tag × Ty) → Nat
  | [] => 0
  | (_, t) :: rest => max t.depth (altsDepth rest)
end

/-- the deepest definition body of the module -/
def envDepth : Env → Nat
  | [] => 0
  | d :: rest => max d.ty.depth (envDepth rest)

/-- the definitions whose name is not on the stack: the references that can still be followed -/
def unvisited (env : Env) (visiting : List String) : Nat :=
  (env.filter fun d => !visiting.contains d.name).length

/-- fuel the driver runs the resolver with: enough for every module and type
    (`TagsLemmas.defaultFuel_sufficient`) -/
def defaultFuel (env : Env) (t : Ty) : Nat :=
  t.depth + (env.length + 1) * (envDepth env + 1)

/-! ### stage 2: `generate/walker.rs` -/

/-- `assign_implicit_tags`: `any_explicit = fields.iter().any(|f| f.tag.is_some())` — only the
    component's own tag counts, not a tag of the referenced type —; if none, component `i` gets
    `Tag::ContextSpecific(i)` (textual index, root and extension alike) -/
def assignImplicitTags (fields : List RField) : List RField :=
  if fields.any (fun f => f.tag.isSome) then fields
  else fields.zipIdx.map fun (f, i) => { f with tag := some (Tag.contextSpecific i) }

/-- the comparator of the sort, as "`cmp` does not answer `Greater`":
    `match (a.0, b.0) { (false, false) => a.1.tag.cmp(&b.1.tag), (a_ext, b_ext) => a_ext.cmp(&b_ext) }`
    — two root components compare by tag, a root component is less than an extension addition
    (`false < true`), two extension additions compare `Equal` (repaired code; before, the key was
    the tuple `(extended, tag)`, so the additions were sorted by tag among themselves) -/
def keyLe (a b : Bool × RField) : Bool :=
  match a.1, b.1 with
  | false, false => optTagLe a.2.tag b.2.tag
  | false, true => true
  | true, false => false
  | true, true => true

/-- the `.map(..)` before the sort: `field.tag = field.tag.or_else(|| field.r#type().tag())`,
    paired with the extended flag of the textual index -/
def prepare (fields : List RField) (extAfter : Option Nat) : List (Bool × RField) :=
  fields.zipIdx.map fun (f, i) =>
    (extendedFlag extAfter i, { f with tag := f.tag.orElse fun _ => f.typeTag })

/-- the sorted list of `(extended, field)` pairs.  `Vec::sort_by` is a stable sort; the model uses
    core's `List.mergeSort`, which is stable as well (`List.sublist_mergeSort`); for a total
    preorder every stable sort produces the same list.  Stability is what keeps the extension
    additions (all `Equal` to each other) in the order of their definition
    (`TagsLemmas.sortKeyed_eq`: the result is "the root components sorted" ++ "the additions as
    written"). -/
def sortKeyed (fields : List RField) (extAfter : Option Nat) : List (Bool × RField) :=
  (prepare fields extAfter).mergeSort keyLe

/-- `sort_fields_canonically`: panics with "Field .. is missing a tag assignment" when a field has
    neither an own tag nor a type tag -/
def sortFieldsCanonically (fields : List RField) (extAfter : Option Nat) : Outcome (List RField) :=
  if (prepare fields extAfter).any (fun p => p.2.tag.isNone) then .panic
  else .ok ((sortKeyed fields extAfter).map (·.2))

/-- `EncodingOrdering` -/
inductive EncodingOrdering where
  | keep   -- SEQUENCE
  | sort   -- SET
  deriving DecidableEq, Repr, Inhabited

/-- the field list `write_sequence_or_set_constraint` hands to the `read_seq`/`write_seq`
    writers: `Keep => fields`, `Sort => sort_fields_canonically(fields, extension_after)` -/
def emitOrder (o : EncodingOrdering) (fields : List RField) (extAfter : Option Nat) :
    Outcome (List RField) :=
  match o with
  | .keep => .ok fields
  | .sort => sortFieldsCanonically fields extAfter

/-- `RustType::tag()` of the component's type with `Option`/`Default` stripped: the
    `Tag::DEFAULT_*` of a plain type, the tag stage 1 printed for a `Complex` -/
def RField.innerTag (f : RField) : Option Tag :=
  match f.kind with
  | .builtin k => some (defaultTag k)
  | .complex => f.typeTag

/-- the `TAG` constant `write_field_constraint` writes for the component's own constraint type:
    * `RustType::Default(inner, _)`: `field.tag.or_else(|| inner.tag())`, else panic "Default type ..
      requires a tag" (repaired code; before: `field.tag.unwrap_or(Tag::DEFAULT_SEQUENCE_OF)`
      whatever the type; the inner type's constraint goes to a second, virtual constraint type
      `…Value`),
    * `RustType::Option(inner)`: the arm of `inner` with the same `field.tag`,
    * plain types: `field.tag.unwrap_or(DEFAULT_…)` — for `Vec(_, _, ordering)` the default follows
      the ordering: `DEFAULT_SEQUENCE_OF` / `DEFAULT_SET_OF` (repaired code; before:
      `DEFAULT_SEQUENCE_OF` for SET OF too),
    * `Complex(_, tag)`: `field.tag.or(*tag)`, else panic "Complex type .. requires a tag". -/
def tagConst (f : RField) : Outcome Tag :=
  match f.presence with
  | .default =>
    match f.tag.orElse fun _ => f.innerTag with
    | some t => .ok t
    | none => .panic
  | _ =>
    match f.kind with
    | .builtin k => .ok (f.tag.getD (defaultTag k))
    | .complex =>
      match f.tag.orElse fun _ => f.typeTag with
      | some t => .ok t
      | none => .panic

/-- `constants.mapM`, left to right -/
def tagConsts : List RField → Outcome (List (String × Tag))
  | [] => .ok []
  | f :: rest => do
    let t ← tagConst f
    let r ← tagConsts rest
    pure ((f.name, t) :: r)

/-- what the harness reads off the generated code -/
structure Emitted where
  /-- component names in the order of the `read_value`/`write_value` calls -/
  order : List String
  /-- `TAG` constant of every component (textual order) -/
  tags : List (String × Tag)
  /-- `EXTENDED_AFTER_FIELD` -/
  extAfter : Option Nat
  /-- `TAG` of the type itself -/
  ownTag : Tag
  deriving DecidableEq, Repr

/-- `tag.unwrap_or(match ordering { Keep => Tag::DEFAULT_SEQUENCE, Sort => Tag::DEFAULT_SET })`
    for a type without a tag of its own (the test type carries none); repaired code, before:
    `Tag::DEFAULT_SEQUENCE` for both orderings -/
def ownDefaultTag : EncodingOrdering → Tag
  | .keep => .ofPair Consts.TAG_DEFAULT_SEQUENCE
  | .sort => .ofPair Consts.TAG_DEFAULT_SET

/-- `write_constraints` for `Rust::Struct`: implicit tags, the per-component constraint types in
    textual order, then the SEQUENCE/SET constraint (`EXTENDED_AFTER_FIELD` is the
    `extension_after` index it was handed, untouched by the sort: the root components stay in
    front). -/
def writeConstraints (o : EncodingOrdering) (fields : List RField) (extAfter : Option Nat) :
    Outcome Emitted := do
  let fields := assignImplicitTags fields
  let consts ← tagConsts fields
  let ordered ← emitOrder o fields extAfter
  pure { order := ordered.map (·.name), tags := consts, extAfter := extAfter,
         ownTag := ownDefaultTag o }

/-! ### the whole pipeline -/

/-- `some x` when every component converts -/
def allSome {α : Type} : List (Option α) → Option (List α)
  | [] => some []
  | none :: _ => none
  | some a :: rest => (allSome rest).map (a :: ·)

/-- Outer `none`: the resolver mirror ran out of fuel — never (`TagsLemmas.emit_isSome`; stage 1
    always terminates).
    * `panic`: a marker in an empty list — stage 1 prints `extensible_after(fields[index].name())`
      with `index = 0` (`generate/rust.rs: add_definition`), index out of bounds;
    * `err other`: a `Complex` type whose tag could not be resolved (undefined reference, or a
      reference cycle) is printed as `complex(Name)`; the attribute parser of stage 2 insists on
      `complex(Name, tag(..))` ⇒ compile error;
    * otherwise stage 2 runs `write_constraints` on the re-read item.
    (`to_rust()` also resolves the tags inside the other definitions of the module; those calls
    return as well and do not influence the item under test.) -/
def emit (env : Env) (o : EncodingOrdering) (c : Components) : Option (Outcome Emitted) :=
  match allSome (c.fields.map fun f => toRField env (defaultFuel env f.ty) f) with
  | none => none
  | some rfields =>
    if (extensionAfter c.markers).isSome && rfields.isEmpty then some .panic
    else if rfields.any (fun f => f.kind == .complex && f.typeTag.isNone) then some (.err .other)
    else some (writeConstraints o rfields (extensionAfter c.markers))

end Asn1Verif.Codegen.Tags
