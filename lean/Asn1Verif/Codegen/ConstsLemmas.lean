import Asn1Verif.Codegen.ConstsModel
/-
  Lemmas about `Codegen/ConstsModel.lean`, structural part: the Rust field list keeps length and
  order of the component list, STD_OPTIONAL_FIELDS as coded is `Fields.optCount` of the prefix
  `Ty.consistent` asks for, and the mutual induction behind `consts_consistent`.
-/
namespace Asn1Verif.Codegen.ConstsModel
open Asn1Verif Asn1Verif.Uper

/-! ### lists -/

theorem fieldsOf_length (ea : Option Nat) : ∀ (cs : Comps) (i : Nat), (fieldsOf ea i cs).length = cs.length
  | .nil, i => by simp only [fieldsOf, Fields.length, Comps.length]
  | .cons p t r, i => by simp only [fieldsOf, Fields.length, Comps.length, fieldsOf_length ea r (i + 1)]

theorem altsOf_length : ∀ (as : Alts), (altsOf as).length = as.length
  | .nil => by simp only [altsOf, Fields.length, Alts.length]
  | .cons t r => by simp only [altsOf, Fields.length, Alts.length, altsOf_length r]

theorem Comps.length_append : ∀ (a b : Comps), (a.append b).length = a.length + b.length
  | .nil, b => by simp only [Comps.append, Comps.length, Nat.zero_add]
  | .cons p t r, b => by simp only [Comps.append, Comps.length, Comps.length_append r b]; omega

theorem Alts.length_append : ∀ (a b : Alts), (a.append b).length = a.length + b.length
  | .nil, b => by simp only [Alts.append, Alts.length, Nat.zero_add]
  | .cons t r, b => by simp only [Alts.append, Alts.length, Alts.length_append r b]; omega

theorem Comps.get?_append_left : ∀ (a b : Comps) (j : Nat), j < a.length → (a.append b).get? j = a.get? j
  | .nil, _, j, h => by simp only [Comps.length] at h; omega
  | .cons p t r, b, 0, _ => by simp only [Comps.append, Comps.get?]
  | .cons p t r, b, j + 1, h => by
    simp only [Comps.append, Comps.get?]
    exact Comps.get?_append_left r b j (by simp only [Comps.length] at h; omega)

theorem Comps.get?_append_right : ∀ (a b : Comps) (j : Nat), (a.append b).get? (a.length + j) = b.get? j
  | .nil, b, j => by simp only [Comps.append, Comps.length, Nat.zero_add]
  | .cons p t r, b, j => by
    have : r.length + 1 + j = (r.length + j) + 1 := by omega
    simp only [Comps.append, Comps.length, this, Comps.get?, Comps.get?_append_right r b j]

theorem Comps.optCount_append_left : ∀ (a b : Comps) (n : Nat), n ≤ a.length →
    (a.append b).optCount n = a.optCount n
  | .nil, b, n, h => by
    simp only [Comps.length] at h
    have : n = 0 := by omega
    subst this
    cases b <;> simp only [Comps.append, Comps.optCount]
  | .cons p t r, b, 0, _ => by simp only [Comps.append, Comps.optCount]
  | .cons p t r, b, n + 1, h => by
    simp only [Comps.append, Comps.optCount]
    rw [Comps.optCount_append_left r b n (by simp only [Comps.length] at h; omega)]

/-- the component at position `j` of the struct: kind as converted, descriptor of its type -/
theorem fieldsOf_get? (ea : Option Nat) : ∀ (cs : Comps) (i j : Nat), (fieldsOf ea i cs).get? j =
      (cs.get? j).map fun pt => (convKind ea (i + j) pt.1, constsOf pt.2)
  | .nil, i, j => by simp only [fieldsOf, Fields.get?, Comps.get?, Option.map]
  | .cons p t r, i, 0 => by simp only [fieldsOf, Fields.get?, Comps.get?, Option.map, Nat.add_zero]
  | .cons p t r, i, j + 1 => by
    simp only [fieldsOf, Fields.get?, Comps.get?]
    rw [fieldsOf_get? ea r (i + 1) j]
    have : i + 1 + j = i + (j + 1) := by omega
    rw [this]

/-! ### kinds -/

theorem convKind_isOptional_of_declared (ea : Option Nat) (i : Nat) (p : Presence)
    (h : p.isOptional = true) : (convKind ea i p).isOptional = true := by
  cases p with
  | mandatory => simp only [Presence.isOptional, Bool.false_eq_true] at h
  | optional => rfl
  | default v => rfl

/-- no marker: the kind is the declared one -/
theorem convKind_none (i : Nat) (p : Presence) : convKind none i p = p.toKind := by
  cases p <;> simp only [convKind, Presence.toKind, Bool.false_eq_true, if_false]

/-- at or before the marker: the kind is the declared one -/
theorem convKind_root (e i : Nat) (p : Presence) (h : i ≤ e) : convKind (some e) i p = p.toKind := by
  cases p with
  | mandatory =>
    simp only [convKind, Presence.toKind, decide_eq_true_eq]
    rw [if_neg (by omega)]
  | optional => rfl
  | default v => rfl

/-- behind the marker: never mandatory -/
theorem convKind_addition (e i : Nat) (p : Presence) (h : e < i) :
    (convKind (some e) i p).isOptional = true := by
  cases p with
  | mandatory =>
    simp only [convKind, decide_eq_true_eq]
    rw [if_pos (by omega)]
    rfl
  | optional => rfl
  | default v => rfl

/-- … and the declared kind unless the component was declared without OPTIONAL / DEFAULT -/
theorem convKind_addition_declared (e i : Nat) (p : Presence) (hp : p.isOptional = true) :
    convKind (some e) i p = p.toKind := by
  cases p with
  | mandatory => simp only [Presence.isOptional, Bool.false_eq_true] at hp
  | optional => rfl
  | default v => rfl

theorem toKind_isOptional (p : Presence) : p.toKind.isOptional = p.isOptional := by
  cases p <;> rfl

/-! ### STD_OPTIONAL_FIELDS -/

theorem Fields.optCount_zero (fs : Fields) : fs.optCount 0 = 0 := by
  cases fs <;> simp only [Fields.optCount]

theorem Comps.optCount_zero (cs : Comps) : cs.optCount 0 = 0 := by
  cases cs <;> simp only [Comps.optCount]

/-- `take_while(index <= usize::MAX)` takes everything -/
theorem stdOptCount_none : ∀ (fs : Fields) (i : Nat), stdOptCount none i fs = fs.optCount fs.length
  | .nil, i => by simp only [stdOptCount, Fields.optCount]
  | .cons k t r, i => by
    simp only [stdOptCount, if_true, Fields.length, Fields.optCount, stdOptCount_none r (i + 1)]

/-- `take_while(index <= e)` on a list whose head has index `i ≤ e + 1` takes `e + 1 - i` items -/
theorem stdOptCount_some (e : Nat) : ∀ (fs : Fields) (i : Nat), i ≤ e + 1 →
    stdOptCount (some e) i fs = fs.optCount (e + 1 - i)
  | .nil, i, _ => by simp only [stdOptCount, Fields.optCount]
  | .cons k t r, i, hi => by
    simp only [stdOptCount, decide_eq_true_eq]
    by_cases h : i ≤ e
    · rw [if_pos h, stdOptCount_some e r (i + 1) (by omega)]
      have : e + 1 - i = (e + 1 - (i + 1)) + 1 := by omega
      rw [this, Fields.optCount]
    · rw [if_neg h]
      have : e + 1 - i = 0 := by omega
      rw [this, Fields.optCount]

/-- counting over the converted fields = counting over the declared presences, as long as the
    counted prefix ends at or before the marker (conversion touches additions only) -/
theorem fieldsOf_optCount (ea : Option Nat) : ∀ (cs : Comps) (i n : Nat),
    (∀ e, ea = some e → i + n ≤ e + 1) → (fieldsOf ea i cs).optCount n = cs.optCount n
  | .nil, i, n, _ => by simp only [fieldsOf, Fields.optCount, Comps.optCount]
  | .cons p t r, i, 0, _ => by simp only [fieldsOf, Fields.optCount, Comps.optCount]
  | .cons p t r, i, n + 1, h => by
    simp only [fieldsOf, Fields.optCount, Comps.optCount]
    rw [fieldsOf_optCount ea r (i + 1) n (by intro e he; have := h e he; omega)]
    have hk : (convKind ea i p).isOptional = p.isOptional := by
      cases ea with
      | none => rw [convKind_none, toKind_isOptional]
      | some e =>
        have := h e rfl
        rw [convKind_root e i p (by omega), toKind_isOptional]
    rw [hk]

/-- STD_OPTIONAL_FIELDS of the struct, in terms of the source: the OPTIONAL / DEFAULT components
    among the first `k + 1` (marker after index `k`) resp. among all of them (no marker) -/
theorem stdOpt_declared (ea : Option Nat) (cs : Comps) :
    stdOptCount ea 0 (fieldsOf ea 0 cs) =
      cs.optCount (match ea with | some k => k + 1 | none => cs.length) := by
  cases ea with
  | none =>
    rw [stdOptCount_none, fieldsOf_length, fieldsOf_optCount none cs 0 cs.length (by intro e he; cases he)]
  | some k =>
    rw [stdOptCount_some k _ 0 (by omega), Nat.sub_zero,
      fieldsOf_optCount (some k) cs 0 (k + 1) (by intro e he; cases he; omega)]

/-- … and in the form `Ty.consistent` compares with -/
theorem stdOpt_consistent (ea : Option Nat) (cs : Comps) :
    stdOptCount ea 0 (fieldsOf ea 0 cs) =
      (fieldsOf ea 0 cs).optCount
        (match ea with | some k => k + 1 | none => (fieldsOf ea 0 cs).length) := by
  cases ea with
  | none => rw [stdOptCount_none]
  | some k => rw [stdOptCount_some k _ 0 (by omega), Nat.sub_zero]

/-! ### consistency -/

theorem wrapTuple_consistent (t : Ty) (h : t.consistent = true) : (wrapTuple t).consistent = true := by
  simp only [wrapTuple, Ty.consistent, Fields.consistent, Fields.length, Fields.optCount, h,
    Bool.and_true, beq_self_eq_true, Nat.zero_add, Kind.isOptional, Bool.false_eq_true,
    if_false, Nat.add_zero]

theorem seq_consistent (ea : Option Nat) (cs : Comps) (hm : markerOk ea cs.length = true)
    (hf : (fieldsOf ea 0 cs).consistent = true) :
    (Ty.seq (stdOptCount ea 0 (fieldsOf ea 0 cs)) (fieldsOf ea 0 cs).length ea
      (fieldsOf ea 0 cs)).consistent = true := by
  have hs := stdOpt_consistent ea cs
  cases ea with
  | none =>
    simp only [Ty.consistent, hf, Bool.and_true, beq_self_eq_true, Bool.true_and, beq_iff_eq]
    exact hs
  | some k =>
    simp only [markerOk, decide_eq_true_eq] at hm
    simp only [Ty.consistent, hf, Bool.and_true, beq_self_eq_true, Bool.true_and,
      Bool.and_eq_true, decide_eq_true_eq, beq_iff_eq, fieldsOf_length]
    exact ⟨hm, by simpa only [fieldsOf_length] using hs⟩

theorem stdVariants_le (ea : Option Nat) (n : Nat) (hm : markerOk ea n = true) :
    stdVariants ea n ≤ n := by
  cases ea with
  | none => simp only [stdVariants]; omega
  | some k => simp only [markerOk, decide_eq_true_eq] at hm; simp only [stdVariants]; omega

mutual
theorem constsOf_consistent : (s : Src) → s.wf = true → (constsOf s).consistent = true
  | .boolean, _ => rfl
  | .null, _ => rfl
  | .integer .., _ => rfl
  | .enumerated n ea, h => by
    simp only [Src.wf] at h
    simp only [constsOf, Ty.consistent, decide_eq_true_eq]
    exact stdVariants_le ea n h
  | .string .., _ => rfl
  | .octetString .., _ => rfl
  | .bitString .., _ => rfl
  | .sequenceOf _ e, h => by
    simp only [Src.wf] at h
    simp only [constsOf, Ty.consistent]
    exact constsOf_consistent e h
  | .setOf _ e, h => by
    simp only [Src.wf] at h
    simp only [constsOf, Ty.consistent]
    exact constsOf_consistent e h
  | .sequence cs ea, h => by
    simp only [Src.wf, Bool.and_eq_true] at h
    simp only [constsOf]
    exact seq_consistent ea cs h.1 (fieldsOf_consistent ea cs 0 h.2)
  | .set cs ea, h => by
    simp only [Src.wf, Bool.and_eq_true] at h
    simp only [constsOf]
    exact seq_consistent ea cs h.1 (fieldsOf_consistent ea cs 0 h.2)
  | .choice as ea, h => by
    simp only [Src.wf, Bool.and_eq_true] at h
    simp only [constsOf, Ty.consistent, beq_self_eq_true, Bool.true_and, Bool.and_eq_true,
      decide_eq_true_eq]
    exact ⟨stdVariants_le ea _ (by rw [altsOf_length]; exact h.1), altsOf_consistent as h.2⟩
  | .ref t, h => by
    simp only [Src.wf] at h
    simp only [constsOf]
    split
    · exact constsOf_consistent t h
    · exact wrapTuple_consistent _ (constsOf_consistent t h)
theorem fieldsOf_consistent (ea : Option Nat) : (cs : Comps) → (i : Nat) → cs.wf = true →
    (fieldsOf ea i cs).consistent = true
  | .nil, _, _ => rfl
  | .cons _ t r, i, h => by
    simp only [Comps.wf, Bool.and_eq_true] at h
    simp only [fieldsOf, Fields.consistent, Bool.and_eq_true]
    exact ⟨constsOf_consistent t h.1, fieldsOf_consistent ea r (i + 1) h.2⟩
theorem altsOf_consistent : (as : Alts) → as.wf = true → (altsOf as).consistent = true
  | .nil, _ => rfl
  | .cons t r, h => by
    simp only [Alts.wf, Bool.and_eq_true] at h
    simp only [altsOf, Fields.consistent, Bool.and_eq_true]
    exact ⟨constsOf_consistent t h.1, altsOf_consistent r h.2⟩
end

theorem defConstsOf_consistent (s : Src) (h : s.wf = true) : (defConstsOf s).consistent = true := by
  unfold defConstsOf
  split
  · exact constsOf_consistent s h
  · exact wrapTuple_consistent _ (constsOf_consistent s h)

end Asn1Verif.Codegen.ConstsModel
