import Asn1Verif.Codegen.Names
/-
  Codegen/Attr — the `#[asn(..)]` attribute language, both directions, as coded:

  * printer: `RustCodeGenerator::asn_attribute`, `asn_attribute_type`, `asn_attribute_tag`,
    `Size::to_constraint_string`, `LiteralValue::as_rust_const_literal(true)`
    (asn1rs-model/src/generate/rust.rs, asn/size.rs, rust.rs);
  * parser: `AsnAttribute::<C>::parse`, `parse_type_pre_stepped`, `parse_opt_size_or_any`,
    `IntegerRange::parse`, `Size::parse`, `AttrTag::parse`, `ConstLit::parse`, `eof_or_comma`,
    `into_asn` (asn1rs-model/src/proc_macro/{attribute,range,size,tag,constants,mod}.rs).

  The Rust printer produces *text* and the Rust parser reads a `proc_macro2::TokenStream`; the
  step text → tokens is rustc's / proc_macro2's lexer and is not modelled: the mirror printer
  emits the tokens that lexer yields for the text (tied by the stream op `attr print`, where the
  real text is lexed by proc_macro2 and compared token by token).  Token streams are flat, groups
  are delimited by `lp`/`rp` (`(`…`)`) and `lb`/`rb` (`[`…`]`).

  syn specifics that are part of the mirror:
  * `parenthesized!(content in input)` + the drop check of `ParseBuffer`: a group whose content
    is not consumed completely is an error (`closeP`);
  * `AttrTag::parse` works on cursors and ignores whatever follows the number inside the groups
    (`skipGroup`);
  * `Lit::parse` accepts `-` followed by a numeric literal (negative numbers).

  No Mathlib/Batteries: linked into the driver.
-/
namespace Asn1Verif.Codegen.Attr
open Asn1Verif.Codegen.Names

/-! ### tokens -/

inductive Tok where
  | ident (s : Name)
  | num (n : Nat)          -- unsuffixed decimal integer literal
  | hex (n : Nat)          -- `0x…` integer literal (printed for octet-string defaults)
  | str (s : List Char)    -- string literal (its value)
  | punct (c : Char)
  | lp | rp | lb | rb
  deriving DecidableEq, Repr, Inhabited


/-! ### attribute-level types (fragment of `asn::Type` that occurs in attributes) -/

inductive Charset where
  | utf8 | numeric | printable | ia5 | visible
  deriving DecidableEq, Repr, Inhabited

inductive Size where
  | any
  | fix (n : Nat) (ext : Bool)
  | range (a b : Nat) (ext : Bool)
  deriving DecidableEq, Repr, Inhabited

inductive Tag where
  | universal (n : Nat)
  | application (n : Nat)
  | contextSpecific (n : Nat)
  | priv (n : Nat)
  deriving DecidableEq, Repr, Inhabited

inductive Lit where
  | bool (b : Bool)
  | str (s : List Char)
  | int (i : Int)
  | octets (bs : List Nat)
  | enumVariant (ty var : Name)
  deriving DecidableEq, Repr, Inhabited

/-- `Integer { range: Range(min, max, extensible), constants }` -/
inductive AType where
  | boolean
  | null
  | integer (min max : Option Int) (ext : Bool) (consts : List (Name × Int))
  | string (sz : Size) (cs : Charset)
  | octetString (sz : Size)
  | bitString (sz : Size)
  | optional (t : AType)
  | default (t : AType) (v : Lit)
  | sequenceOf (t : AType) (sz : Size)
  | setOf (t : AType) (sz : Size)
  | complex (name : Name) (tag : Option Tag)
  deriving DecidableEq, Repr, Inhabited

/-- what the generator has in hand for one component (`rust::Field`): the type (its integers
    carry no constants), the tag and the constants -/
structure FieldIn where
  ty : AType
  tag : Option Tag
  consts : List (Name × Int)
  deriving DecidableEq, Repr, Inhabited

/-- what the macro builds for one component (`Asn { tag, type, default: None }`) -/
structure Role where
  ty : AType
  tag : Option Tag
  deriving DecidableEq, Repr, Inhabited

def I64_MIN : Int := -9223372036854775808
def I64_MAX : Int := 9223372036854775807
def USIZE_MAX : Nat := 18446744073709551615

/-! ### printer -/

def kw (s : String) : Tok := .ident s.toList
def dots2 : List Tok := [.punct '.', .punct '.']
def extToks (ext : Bool) : List Tok :=
  if ext then [.punct ',', .punct '.', .punct '.', .punct '.'] else []

/-- `{}` of an `i64` as rustc lexes it: a minus sign is a separate punct -/
def intToks (i : Int) : List Tok :=
  if i < 0 then [.punct '-', .num i.natAbs] else [.num i.toNat]

/-- `Size::to_constraint_string` -/
def sizeToks : Size → Option (List Tok)
  | .any => none
  | .fix n ext => some ([kw "size", .lp, .num n] ++ extToks ext ++ [.rp])
  | .range a b ext => some ([kw "size", .lp, .num a] ++ dots2 ++ [.num b] ++ extToks ext ++ [.rp])

/-- `asn_attribute_tag` -/
def tagToks : Tag → List Tok
  | .universal n => [kw "tag", .lp, kw "UNIVERSAL", .lp, .num n, .rp, .rp]
  | .application n => [kw "tag", .lp, kw "APPLICATION", .lp, .num n, .rp, .rp]
  | .priv n => [kw "tag", .lp, kw "PRIVATE", .lp, .num n, .rp, .rp]
  | .contextSpecific n => [kw "tag", .lp, .num n, .rp]

/-- `LiteralValue::as_rust_const_literal(true)` -/
def litToks : Lit → List Tok
  | .bool b => [kw (if b then "true" else "false")]
  | .str s => [.str s]
  | .int i => intToks i
  | .octets bs => [.lb] ++ bs.flatMap (fun b => [.hex b, .punct ',']) ++ [.rb]
  | .enumVariant ty var => [.ident (structOrEnumA ty), .punct ':', .punct ':', .ident (variantA var)]

def charsetName : Charset → String
  | .utf8 => "utf8string"
  | .numeric => "numericstring"
  | .printable => "printablestring"
  | .ia5 => "ia5string"
  | .visible => "visiblestring"

/-- `name(parameters.join(", "))`, or the bare name when there is no parameter -/
def withParams (name : String) (params : List (List Tok)) : List Tok :=
  match params with
  | [] => [kw name]
  | p :: ps => [kw name, .lp] ++ p ++ (ps.flatMap fun q => .punct ',' :: q) ++ [.rp]

/-- `asn_attribute_type` -/
def typeToks : AType → List Tok
  | .boolean => [kw "boolean"]
  | .null => [kw "null"]
  | .integer min max ext _ =>
    withParams "integer"
      [(match min with | some v => intToks v | none => [kw "min"]) ++ dots2 ++
       (match max with | some v => intToks v | none => [kw "max"]) ++ extToks ext]
  | .string sz cs => withParams (charsetName cs) (sizeToks sz).toList
  | .octetString sz => withParams "octet_string" (sizeToks sz).toList
  -- `vec![vec![size.to_constraint_string()].into_iter().flatten().collect()]`: always exactly one
  -- parameter, the empty string for an unconstrained BIT STRING (`bit_string()`)
  | .bitString sz => withParams "bit_string" [(sizeToks sz).getD []]
  | .optional t => withParams "optional" [typeToks t]
  | .default t v => withParams "default" [typeToks t, litToks v]
  | .sequenceOf t sz => withParams "sequence_of" ((sizeToks sz).toList ++ [typeToks t])
  | .setOf t sz => withParams "set_of" ((sizeToks sz).toList ++ [typeToks t])
  | .complex name tag => withParams "complex" ([[.ident name]] ++ (tag.map tagToks).toList)

def constToks (cs : List (Name × Int)) : List Tok :=
  match cs with
  | [] => []
  | c :: rest =>
    [kw "const", .lp, .ident c.1, .lp] ++ intToks c.2 ++ [.rp] ++
      (rest.flatMap fun d => [.punct ',', .ident d.1, .lp] ++ intToks d.2 ++ [.rp]) ++ [.rp]

/-- `asn_attribute(type, tag, None, constants)` of a struct field -/
def fieldToks (f : FieldIn) : List Tok :=
  typeToks f.ty ++
    (match f.tag with | some t => .punct ',' :: tagToks t | none => []) ++
    (match f.consts with | [] => [] | cs => .punct ',' :: constToks cs)

/-! ### parser -/

def lower (n : Name) : Name := n.map Char.toLower

/-- `input.is_empty()` of a `ParseBuffer` (top level or group content) -/
def atEnd : List Tok → Bool
  | [] => true
  | .rp :: _ => true
  | .rb :: _ => true
  | _ => false

def expect (t : Tok) : List Tok → Option (List Tok)
  | x :: r => if x = t then some r else none
  | [] => none

/-- `parenthesized!(content in input)`: the opening parenthesis -/
def openP : List Tok → Option (List Tok) := expect .lp
/-- end of a group's content; anything left unconsumed is an error (drop check) -/
def closeP : List Tok → Option (List Tok) := expect .rp

/-- remaining tokens after the group that is open at depth `d` has been closed -/
def skipGroup : Nat → List Tok → Option (List Tok)
  | _, [] => none
  | d, .lp :: r => skipGroup (d + 1) r
  | d, .lb :: r => skipGroup (d + 1) r
  | 0, .rp :: r => some r
  | 0, .rb :: r => some r
  | d + 1, .rp :: r => skipGroup d r
  | d + 1, .rb :: r => skipGroup d r
  | d, _ :: r => skipGroup d r

/-- `input.parse::<Lit>()` yielding `Lit::Int`, then its `base10_digits()` as a mathematical
    integer (the caller range-checks) -/
def litInt : List Tok → Option (Int × List Tok)
  | .num n :: r => some (n, r)
  | .hex n :: r => some (n, r)
  | .punct '-' :: .num n :: r => some (-(n : Int), r)
  | .punct '-' :: .hex n :: r => some (-(n : Int), r)
  | _ => none

def isMinMax (n : Name) : Bool := lower n = "min".toList || lower n = "max".toList

/-- `MMV::try_parse` (range.rs): `none` = MinMax, `some v` = Value(v); error unless i64 -/
def mmv (ts : List Tok) : Option ((Option Int) × List Tok) :=
  match litInt ts with
  | some (v, r) => if I64_MIN ≤ v ∧ v ≤ I64_MAX then some (some v, r) else none
  | none =>
    match ts with
    | .ident n :: r => if isMinMax n then some (none, r) else none
    | _ => none

/-- `, ...` -/
def ellipsis (ts : List Tok) : Option (List Tok) :=
  match ts with
  | .punct ',' :: .punct '.' :: .punct '.' :: .punct '.' :: r => some r
  | _ => none

/-- `IntegerRange::parse` followed by `Type::integer_with_range_opt(..)` -/
def integerRange (ts : List Tok) : Option (AType × List Tok) := do
  let (mn, r) ← mmv ts
  let r ← expect (.punct '.') r
  let r ← expect (.punct '.') r
  let (mx, r) ← mmv r
  let (ext, r) ←
    match r with
    | .punct ',' :: _ => (ellipsis r).map fun r' => (true, r')
    | _ => some (false, r)
  match mn, mx with
  | none, none => some (.integer none none ext [], r)
  | some 0, none => some (.integer none none ext [], r)
  | some a, some b => some (.integer (some a) (some b) ext [], r)
  | none, some b => some (.integer (some (if b > 0 then 0 else I64_MIN)) (some b) ext [], r)
  | some a, none => some (.integer (some a) (some I64_MAX) ext [], r)

/-- `value(input)` of size.rs: a `usize` literal; `min`/`max` parse but are then "invalid" -/
def sizeValue (ts : List Tok) : Option (Nat × List Tok) :=
  match ts with
  | .punct '-' :: _ => none      -- `"-0".parse::<usize>()` fails as well
  | _ =>
    match litInt ts with
    | some (v, r) => if 0 ≤ v ∧ v ≤ (USIZE_MAX : Int) then some (v.toNat, r) else none
    | none => none

/-- `Size::parse` -/
def sizeParse (ts : List Tok) : Option (Size × List Tok) := do
  let (mn, r) ← sizeValue ts
  if atEnd r then some (.fix mn false, r)
  else
    match r with
    | .punct ',' :: _ => (ellipsis r).map fun r' => (.fix mn true, r')
    | _ => do
      let r ← expect (.punct '.') r
      let r ← expect (.punct '.') r
      let (mx, r) ← sizeValue r
      let (ext, r) ←
        match r with
        | .punct ',' :: .punct '.' :: _ => (ellipsis r).map fun r' => (true, r')
        | _ => some (false, r)
      if mn = mx then some (.fix mn ext, r) else some (.range mn mx ext, r)

/-- `size ( … )` after the identifier `size` has been read: group, `Size::parse`, drop check -/
def sizeGroup (ts : List Tok) : Option (Size × List Tok) := do
  let r ← openP ts
  let (s, r) ← sizeParse r
  let r ← closeP r
  some (s, r)

/-- `parse_opt_size_or_any` -/
def optSizeOrAny (ts : List Tok) : Option (Size × List Tok) :=
  match ts with
  | .lp :: r =>
    if atEnd r then (closeP r).map fun r' => (.any, r')
    else
      match r with
      | .ident n :: r1 =>
        if lower n = "size".toList then do
          let (s, r2) ← sizeGroup r1
          let r3 ← closeP r2
          some (s, r3)
        else none
      | _ => none
  | _ => some (.any, ts)

/-- a number literal as `usize` the way tag.rs reads it: `literal.to_string().parse::<usize>()` -/
def tagNumber : List Tok → Option Nat
  | .num n :: _ => if n ≤ USIZE_MAX then some n else none
  | _ => none

/-- `AttrTag::parse` -/
def attrTag (ts : List Tok) : Option (Tag × List Tok) :=
  match ts with
  | .lp :: .ident v :: .lp :: r =>
    match tagNumber r with
    | none => none
    | some n =>
      let t : Option Tag :=
        if lower v = "universal".toList then some (.universal n)
        else if lower v = "application".toList then some (.application n)
        else if lower v = "private".toList then some (.priv n)
        else none
      match t, skipGroup 1 r with
      | some t, some rest => some (t, rest)
      | _, _ => none
  | .lp :: r =>
    match tagNumber r, skipGroup 0 r with
    | some n, some rest => some (.contextSpecific n, rest)
    | _, _ => none
  | _ => none

/-- `content.parse::<syn::Path>()` with exactly two segments (an optional leading `::`) -/
def pathLit (ts : List Tok) : Option (Lit × List Tok) :=
  let body := match ts with
    | .punct ':' :: .punct ':' :: r => r
    | _ => ts
  match body with
  | .ident n :: .punct ':' :: .punct ':' :: .ident m :: r1 =>
    (match r1 with
     | .punct ':' :: _ => none
     | _ => some (.enumVariant n m, r1))
  | _ => none

/-- the literal of `default(type, literal)` -/
def defaultLit (ts : List Tok) : Option (Lit × List Tok) :=
  match ts with
  | .str s :: r => some (.str s, r)
  | .ident n :: r =>
    -- `true`/`false` are `Lit::Bool`; anything else must be a path of exactly two segments
    if n = "true".toList then some (.bool true, r)
    else if n = "false".toList then some (.bool false, r)
    else pathLit ts
  | _ =>
    match litInt ts with
    | some (v, r) => if I64_MIN ≤ v ∧ v ≤ I64_MAX then some (.int v, r) else none
    | none => pathLit ts

/-- the optional leading `size(..),` of `sequence_of(..)` / `set_of(..)`: the first identifier is
    read; if it is `size` the group and a comma follow, otherwise it already is the element type -/
def seqSize (ts : List Tok) : Option (Size × List Tok) :=
  match ts with
  | .ident n :: r1 =>
    if lower n = "size".toList then do
      let (s, r2) ← sizeGroup r1
      let r3 ← expect (.punct ',') r2
      some (s, r3)
    else some (.any, ts)
  | _ => none

inductive Kw where
  | octetString | bitString | charset (c : Charset) | integer | complex | optional | default
  | boolean | null | sequenceOf | setOf | other
  deriving DecidableEq, Repr

/-- the `match lowercase_ident` of `parse_type_pre_stepped` -/
def kwOf (n : Name) : Kw :=
  if n = "octet_string".toList then .octetString
  else if n = "bit_string".toList then .bitString
  else if n = "utf8string".toList then .charset .utf8
  else if n = "numericstring".toList then .charset .numeric
  else if n = "printablestring".toList then .charset .printable
  else if n = "ia5string".toList then .charset .ia5
  else if n = "visiblestring".toList then .charset .visible
  else if n = "integer".toList then .integer
  else if n = "complex".toList then .complex
  else if n = "option".toList ∨ n = "optional".toList then .optional
  else if n = "default".toList then .default
  else if n = "boolean".toList then .boolean
  else if n = "null".toList then .null
  else if n = "sequence_of".toList then .sequenceOf
  else if n = "set_of".toList then .setOf
  else .other

/-- `parse_type` = an identifier, lower-cased, then `parse_type_pre_stepped(lowercase_ident,
    input)`; also `<Type as PrimaryContext>::parse` (an identifier is the only token whose text
    can match a type name).  `fuel` bounds the nesting depth.  `sequence_of`/`set_of` read the
    element's identifier themselves and call `parse_type_pre_stepped` with it: the mirror hands
    the identifier back, which is the same thing. -/
def parseTy : Nat → List Tok → Option (AType × List Tok)
  | 0, _ => none
  | fuel + 1, .ident name :: ts =>
    match kwOf (lower name) with
    | .octetString => (optSizeOrAny ts).map fun (s, r) => (.octetString s, r)
    | .bitString => (optSizeOrAny ts).map fun (s, r) => (.bitString s, r)
    | .charset c => (optSizeOrAny ts).map fun (s, r) => (.string s c, r)
    | .integer =>
      if atEnd ts then some (.integer none none false [], ts)
      else do
        let r ← openP ts
        if atEnd r then (closeP r).map fun r' => (.integer none none false [], r')
        else do
          let (t, r) ← integerRange r
          let r ← closeP r
          some (t, r)
    | .complex => do
      let r ← openP ts
      match r with
      | .ident n :: .punct ',' :: .ident t :: r1 =>
        if lower t = "tag".toList then do
          let (tag, r2) ← attrTag r1
          let r3 ← closeP r2
          some (.complex n (some tag), r3)
        else none
      | _ => none
    | .optional => do
      let r ← openP ts
      let (t, r) ← parseTy fuel r
      let r ← closeP r
      some (.optional t, r)
    | .default => do
      let r ← openP ts
      let (t, r) ← parseTy fuel r
      let r ← expect (.punct ',') r
      let (v, r) ← defaultLit r
      let r ← closeP r
      some (.default t v, r)
    | .boolean => some (.boolean, ts)
    | .null => some (.null, ts)
    | .sequenceOf => do
      let r ← openP ts
      let (s, r) ← seqSize r
      let (t, r) ← parseTy fuel r
      let r ← closeP r
      some (.sequenceOf t s, r)
    | .setOf => do
      let r ← openP ts
      let (s, r) ← seqSize r
      let (t, r) ← parseTy fuel r
      let r ← closeP r
      some (.setOf t s, r)
    | .other => none
  | _ + 1, _ => none

/-- `eof_or_comma` -/
def eofOrComma (ts : List Tok) : Option (List Tok) :=
  if atEnd ts then some ts
  else
    match ts with
    | .punct ',' :: r => some r
    | _ => none

/-- `ConstLit::parse`: `NAME(<int literal>)` -/
def constLit (ts : List Tok) : Option ((Name × Int) × List Tok) :=
  match ts with
  | .ident n :: .lp :: r =>
    match litInt r with
    | some (v, r1) =>
      if I64_MIN ≤ v ∧ v ≤ I64_MAX then (closeP r1).map fun r2 => ((n, v), r2) else none
    | none => none
  | _ => none

/-- the loop of the `"const"` arm -/
def constList : Nat → List Tok → Option ((List (Name × Int) × List Tok))
  | 0, _ => none
  | fuel + 1, ts => do
    let (c, r) ← constLit ts
    if atEnd r then some ([c], r)
    else do
      let r ← expect (.punct ',') r
      let (cs, r) ← constList fuel r
      some (c :: cs, r)

structure Parsed where
  primary : AType
  tag : Option Tag := none
  consts : List (Name × Int) := []
  deriving Repr

/-- the `while !input.cursor().eof()` loop of `AsnAttribute::<Transparent>::parse`
    (TAGGABLE, CONSTS, not EXTENSIBLE_AFTER) -/
def attrLoop : Nat → Parsed → List Tok → Option Parsed
  | 0, _, _ => none
  | fuel + 1, acc, ts =>
    match ts with
    | [] => some acc
    | .ident n :: r =>
      if lower n = "tag".toList then do
        let (t, r1) ← attrTag r
        let r2 ← eofOrComma r1
        attrLoop fuel { acc with tag := some t } r2
      else if lower n = "const".toList then do
        let r1 ← openP r
        let (cs, r2) ← constList (r1.length + 1) r1
        let r3 ← closeP r2
        let r4 ← eofOrComma r3
        attrLoop fuel { acc with consts := acc.consts ++ cs } r4
      else none
    | _ => none

/-- `AsnAttribute::<Transparent>::parse` on the tokens between `#[asn(` and `)]` -/
def parseAttr (ts : List Tok) : Option Parsed :=
  match ts with
  | .ident n :: r => do
    let (t, r1) ← parseTy (ts.length + 1) (.ident n :: r)
    let r2 ← eofOrComma r1
    attrLoop (ts.length + 1) { primary := t } r2
  | _ => none

/-- `no_optional_mut` + the constant push of `into_asn` -/
def attachConsts : AType → List (Name × Int) → AType
  | .optional t, cs => .optional (attachConsts t cs)
  | .integer mn mx ext old, cs => .integer mn mx ext (old ++ cs)
  | t, _ => t

/-- `into_asn(ty, asn)`: `rustTy` is `quote!{#ty}.to_string()` of the component's Rust type -/
def intoAsn (rustTy : Name) (p : Parsed) : Role :=
  match p.primary with
  | .complex _ emptyTag => { ty := .complex rustTy (emptyTag.or p.tag), tag := p.tag }
  | t => { ty := attachConsts t p.consts, tag := p.tag }

/-- the macro's view of one struct field -/
def parseField (rustTy : Name) (ts : List Tok) : Option Role :=
  (parseAttr ts).map (intoAsn rustTy)

end Asn1Verif.Codegen.Attr
