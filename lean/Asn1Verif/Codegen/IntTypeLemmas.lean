import Asn1Verif.Codegen.IntType
/-
  Helper lemmas about `Codegen/IntType.lean` (mirror of the INTEGER → Rust type cascades).

  Proof recipe used throughout C15: keep the thresholds symbolic (`Consts.U8_MAX` …, `I64_MAX`)
  and hand `omega` their numeric values as hypotheses (`consts_facts`), unfold the cascade with
  `unfold_cascade`, `repeat' split` over its `if`s, then unfold the casts and finish with `omega`.
-/
namespace Asn1Verif.Codegen.IntType
open Asn1Verif Asn1Verif.Consts

/-- numeric values of the (translated) thresholds and of `i64::MIN/MAX`; `omega` treats the names
    as atoms, so a changed constant in /repo changes what is provable -/
theorem consts_facts :
    I64_MAX = 9223372036854775807 ∧ I64_MIN = -9223372036854775808 ∧
    U8_MAX = 255 ∧ U16_MAX = 65535 ∧ U32_MAX = 4294967295 ∧
    I8_MAX = 127 ∧ I16_MAX = 32767 ∧ I32_MAX = 2147483647 := by decide

/-- unfolds both cascades on constructor-headed bounds -/
macro "unfold_cascade" : tactic => `(tactic|
  simp only [cascade, fixedCascade, extCascade, firstArm, Option.getD, Option.map,
    decide_eq_true_eq, Bool.and_eq_true, Bool.false_eq_true, if_true, if_false, ite_true, ite_false])

/-- unfolds the casts and `abs` wherever they occur -/
macro "unfold_casts" : tactic => `(tactic| (try simp only [asU, asI, iabs] at *))

/-- The widening done by the parser (`(0..MAX)`, `(MIN..i64::MAX)` → no constraint) is repeated by
    the first arm of both cascades, so it never changes the chosen type. -/
theorem choose_eq_cascade (s e : Option Int) (ext : Bool) : choose s e ext = cascade s e ext := by
  cases s <;> cases e <;> cases ext <;> simp only [choose, parseRange] <;> (try split) <;>
    simp_all [cascade, fixedCascade, extCascade, firstArm]

/-- `(min + 1).abs()` cannot overflow where the code evaluates it (`min < 0`, `min : i64`) -/
theorem abs_arg_in_i64 (mn : Int) (h : InI64 mn) (hneg : mn < 0) :
    InI64 (mn + 1) ∧ mn + 1 ≠ I64_MIN ∧ InI64 (iabs (mn + 1)) := by
  have hc := consts_facts
  simp only [InI64, iabs] at *
  omega

/-- casts are the identity inside the target type -/
theorem asU_id (bits : Nat) (x : Int) (h0 : 0 ≤ x) (h1 : x < 2 ^ bits) : asU bits x = x := by
  unfold asU; exact Int.emod_eq_of_lt h0 h1

theorem asU_range (bits : Nat) (x : Int) : 0 ≤ asU bits x ∧ asU bits x < 2 ^ bits := by
  unfold asU
  have hp : (0 : Int) < 2 ^ bits := Int.pow_pos (by decide)
  exact ⟨Int.emod_nonneg _ (Int.ne_of_gt hp), Int.emod_lt_of_pos _ hp⟩

/-- the extensible cascade only ever produces the two 64-bit variants -/
theorem extCascade_kind (min max : Option Int) :
    (extCascade min max).kind = .u64 ∨ (extCascade min max).kind = .i64 := by
  unfold extCascade
  split
  · exact Or.inl rfl
  · split
    · exact Or.inl rfl
    · exact Or.inr rfl

theorem extCascade_ext (min max : Option Int) : (extCascade min max).ext = true := by
  unfold extCascade
  split
  · rfl
  · split <;> rfl

theorem fixedCascade_ext (min max : Option Int) : (fixedCascade min max).ext = false := by
  simp only [fixedCascade]
  repeat' split
  all_goals rfl

end Asn1Verif.Codegen.IntType
