import Asn1Verif.Codegen.Names
/-
  Lemmas about the name-mangling mirror (Codegen/Names.lean).  Character facts are reduced to
  arithmetic on `Char.toNat` and closed by `omega`.
-/
namespace Asn1Verif.Codegen.Names

/-! ### ASCII character arithmetic -/

theorem toUpper_cases (c : Char) :
    (97 ≤ c.toNat ∧ c.toNat ≤ 122 ∧ c.toUpper.toNat = c.toNat - 32) ∨
    (¬(97 ≤ c.toNat ∧ c.toNat ≤ 122) ∧ c.toUpper = c) := by
  simp only [Char.toUpper]
  split
  · next h1 =>
    simp only [UInt32.le_iff_toNat_le, Char.toNat_val, seval] at h1
    left; refine ⟨h1.1, h1.2, ?_⟩
    show (c.val + _).toNat = _
    simp only [UInt32.toNat_add, Char.toNat_val, seval]
    omega
  · next h1 =>
    simp only [UInt32.le_iff_toNat_le, Char.toNat_val, seval] at h1
    right; exact ⟨h1, rfl⟩

theorem toLower_cases (c : Char) :
    (65 ≤ c.toNat ∧ c.toNat ≤ 90 ∧ c.toLower.toNat = c.toNat + 32) ∨
    (¬(65 ≤ c.toNat ∧ c.toNat ≤ 90) ∧ c.toLower = c) := by
  simp only [Char.toLower]
  split
  · next h1 =>
    simp only [ge_iff_le, UInt32.le_iff_toNat_le, Char.toNat_val, seval] at h1
    left; refine ⟨h1.1, h1.2, ?_⟩
    show (c.val + _).toNat = _
    simp only [UInt32.toNat_add, Char.toNat_val, seval]
    omega
  · next h1 =>
    simp only [ge_iff_le, UInt32.le_iff_toNat_le, Char.toNat_val, seval] at h1
    right; exact ⟨h1, rfl⟩

theorem isUpper_iff (c : Char) : c.isUpper = true ↔ 65 ≤ c.toNat ∧ c.toNat ≤ 90 := by
  simp only [Char.isUpper, ge_iff_le, UInt32.le_iff_toNat_le, Char.toNat_val, seval,
    decide_eq_true_eq]

theorem isLower_iff (c : Char) : c.isLower = true ↔ 97 ≤ c.toNat ∧ c.toNat ≤ 122 := by
  simp only [Char.isLower, ge_iff_le, UInt32.le_iff_toNat_le, Char.toNat_val, seval,
    Bool.and_eq_true, decide_eq_true_eq]

theorem isDigit_iff (c : Char) : c.isDigit = true ↔ 48 ≤ c.toNat ∧ c.toNat ≤ 57 := by
  simp only [Char.isDigit, ge_iff_le, UInt32.le_iff_toNat_le, Char.toNat_val, seval,
    Bool.and_eq_true, decide_eq_true_eq]

theorem isAlpha_iff (c : Char) :
    c.isAlpha = true ↔ (65 ≤ c.toNat ∧ c.toNat ≤ 90) ∨ (97 ≤ c.toNat ∧ c.toNat ≤ 122) := by
  simp only [Char.isAlpha, Bool.or_eq_true, isUpper_iff, isLower_iff]

theorem isAlphanum_iff (c : Char) :
    c.isAlphanum = true ↔ ((65 ≤ c.toNat ∧ c.toNat ≤ 90) ∨ (97 ≤ c.toNat ∧ c.toNat ≤ 122)) ∨
      (48 ≤ c.toNat ∧ c.toNat ≤ 57) := by
  simp only [Char.isAlphanum, Bool.or_eq_true, isAlpha_iff, isDigit_iff]

theorem eq_hyphen_iff (c : Char) : c = '-' ↔ c.toNat = 45 := by
  rw [← Char.toNat_inj]; rfl
theorem eq_underscore_iff (c : Char) : c = '_' ↔ c.toNat = 95 := by
  rw [← Char.toNat_inj]; rfl

/-- Bool predicates to `Nat` inequalities -/
macro "char_nat" : tactic => `(tactic|
  simp only [Bool.and_eq_true, Bool.or_eq_true, Bool.not_eq_true', Bool.not_eq_true,
    beq_iff_eq, bne_iff_ne, ne_eq, Bool.eq_false_iff, decide_eq_true_eq,
    isAlphanum_iff, isAlpha_iff, isUpper_iff, isLower_iff, isDigit_iff,
    eq_hyphen_iff, eq_underscore_iff] at *)

/-- identifier-continue character `[A-Za-z0-9_]` -/
def idc (c : Char) : Bool := c.isAlphanum || c == '_'
/-- what may occur in an (over-approximated) ASN.1 identifier: `[A-Za-z0-9_-]` -/
def inc (c : Char) : Bool := c.isAlphanum || c == '-' || c == '_'

theorem idc_toUpper {c : Char} (h : idc c = true) : idc c.toUpper = true := by
  unfold idc at *
  rcases toUpper_cases c with ⟨h1, h2, h3⟩ | ⟨_, h3⟩
  · char_nat; omega
  · rw [h3]; exact h

theorem idc_toLower {c : Char} (h : idc c = true) : idc c.toLower = true := by
  unfold idc at *
  rcases toLower_cases c with ⟨h1, h2, h3⟩ | ⟨_, h3⟩
  · char_nat; omega
  · rw [h3]; exact h

theorem alnum_toUpper {c : Char} (h : c.isAlphanum = true) : c.toUpper.isAlphanum = true := by
  rcases toUpper_cases c with ⟨h1, h2, h3⟩ | ⟨_, h3⟩
  · char_nat; omega
  · rw [h3]; exact h

theorem alnum_toLower {c : Char} (h : c.isAlphanum = true) : c.toLower.isAlphanum = true := by
  rcases toLower_cases c with ⟨h1, h2, h3⟩ | ⟨_, h3⟩
  · char_nat; omega
  · rw [h3]; exact h

theorem alpha_toUpper {c : Char} (h : c.isAlpha = true) : c.toUpper.isAlpha = true := by
  rcases toUpper_cases c with ⟨h1, h2, h3⟩ | ⟨_, h3⟩
  · char_nat; omega
  · rw [h3]; exact h

theorem alpha_toLower {c : Char} (h : c.isAlpha = true) : c.toLower.isAlpha = true := by
  rcases toLower_cases c with ⟨h1, h2, h3⟩ | ⟨_, h3⟩
  · char_nat; omega
  · rw [h3]; exact h

theorem upper_toUpper_of_alpha {c : Char} (h : c.isAlpha = true) : c.toUpper.isUpper = true := by
  rcases toUpper_cases c with ⟨h1, h2, h3⟩ | ⟨h1, h3⟩
  · char_nat; omega
  · rw [h3]; char_nat; omega

theorem not_lower_toUpper (c : Char) : c.toUpper.isLower = false := by
  rcases toUpper_cases c with ⟨h1, h2, h3⟩ | ⟨h1, h3⟩
  · char_nat; omega
  · rw [h3]; char_nat; omega

theorem not_upper_toLower (c : Char) : c.toLower.isUpper = false := by
  rcases toLower_cases c with ⟨h1, h2, h3⟩ | ⟨h1, h3⟩
  · char_nat; omega
  · rw [h3]; char_nat; omega

theorem toUpper_toUpper (c : Char) : c.toUpper.toUpper = c.toUpper := by
  rcases toUpper_cases c.toUpper with ⟨h1, h2, _⟩ | ⟨_, h3⟩
  · have := not_lower_toUpper c; char_nat; omega
  · exact h3

theorem toUpper_not_sep {c : Char} (h1 : c ≠ '-') (h2 : c ≠ '_') :
    c.toUpper ≠ '-' ∧ c.toUpper ≠ '_' := by
  rcases toUpper_cases c with ⟨g1, g2, g3⟩ | ⟨_, g3⟩
  · char_nat; omega
  · rw [g3]; exact ⟨h1, h2⟩

theorem toLower_not_sep {c : Char} (h1 : c ≠ '-') (h2 : c ≠ '_') :
    c.toLower ≠ '-' ∧ c.toLower ≠ '_' := by
  rcases toLower_cases c with ⟨g1, g2, g3⟩ | ⟨_, g3⟩
  · char_nat; omega
  · rw [g3]; exact ⟨h1, h2⟩

theorem alpha_not_sep {c : Char} (h : c.isAlpha = true) : c ≠ '-' ∧ c ≠ '_' := by
  char_nat; omega

theorem toUpper_of_not_lower {c : Char} (h : c.isLower = false) : c.toUpper = c := by
  rcases toUpper_cases c with ⟨g1, g2, _⟩ | ⟨_, g3⟩
  · char_nat; omega
  · exact g3

/-! ### layer A, `rust_variant_name` -/

/-- nothing but letters and digits comes out when letters, digits, `-`, `_` go in -/
theorem variantA_go_alnum (n : Name) : ∀ (nu pu : Bool), (∀ c ∈ n, inc c = true) →
    ∀ d ∈ variantA.go nu pu n, d.isAlphanum = true := by
  induction n with
  | nil => intro nu pu _ d hd; simp [variantA.go] at hd
  | cons c cs ih =>
    intro nu pu h d hd
    have hc : inc c = true := h c (by simp)
    have hcs : ∀ x ∈ cs, inc x = true := fun x hx => h x (by simp [hx])
    unfold variantA.go at hd
    split at hd
    · exact ih _ _ hcs d hd
    · next hsep =>
      have hal : c.isAlphanum = true := by
        unfold inc at hc; simp only [not_or] at hsep
        simp only [Bool.or_eq_true, beq_iff_eq] at hc
        rcases hc with (hc | hc) | hc
        · exact hc
        · exact absurd hc hsep.1
        · exact absurd hc hsep.2
      split at hd
      · rcases List.mem_cons.mp hd with rfl | hd
        · exact alnum_toUpper hal
        · exact ih _ _ hcs d hd
      · rcases List.mem_cons.mp hd with rfl | hd
        · split
          · exact alnum_toLower hal
          · exact hal
        · exact ih _ _ hcs d hd

/-- `-` and `_` never survive `rust_variant_name`, whatever the input -/
theorem variantA_go_no_sep (n : Name) : ∀ (nu pu : Bool),
    ∀ d ∈ variantA.go nu pu n, d ≠ '-' ∧ d ≠ '_' := by
  induction n with
  | nil => intro nu pu d hd; simp [variantA.go] at hd
  | cons c cs ih =>
    intro nu pu d hd
    unfold variantA.go at hd
    split at hd
    · exact ih _ _ d hd
    · next hsep =>
      simp only [not_or] at hsep
      split at hd
      · rcases List.mem_cons.mp hd with rfl | hd
        · exact toUpper_not_sep hsep.1 hsep.2
        · exact ih _ _ d hd
      · rcases List.mem_cons.mp hd with rfl | hd
        · split
          · exact toLower_not_sep hsep.1 hsep.2
          · exact hsep
        · exact ih _ _ d hd

/-- the first character that comes out (if any) is an upper-cased one -/
theorem variantA_head (n : Name) :
    variantA n = [] ∨ ∃ (c : Char) (r : List Char), variantA n = c.toUpper :: r := by
  unfold variantA
  induction n with
  | nil => left; simp [variantA.go]
  | cons c cs ih =>
    rw [variantA.go]
    split
    · exact ih
    · right; exact ⟨c, variantA.go false true cs, by simp⟩

theorem variantA_cons_alpha {c : Char} (cs : List Char) (h : c.isAlpha = true) :
    variantA (c :: cs) = c.toUpper :: variantA.go false true cs := by
  have := alpha_not_sep h
  show variantA.go true false (c :: cs) = _
  rw [variantA.go]
  simp [this.1, this.2]

/-! ### layer B, `RustCodeGenerator::rust_variant_name` -/

theorem variantB_go_false_id (n : Name) (h : ∀ d ∈ n, d ≠ '-' ∧ d ≠ '_') :
    variantB.go false n = n := by
  induction n with
  | nil => simp [variantB.go]
  | cons c cs ih =>
    have hc := h c (by simp)
    unfold variantB.go
    simp only [hc.1, hc.2, or_self, if_false]
    rw [ih (fun d hd => h d (by simp [hd]))]

/-- layer B's variant function is the identity on everything layer A's produces -/
theorem variantB_variantA (n : Name) : variantB (variantA n) = variantA n := by
  have hns := variantA_go_no_sep n true false
  rcases variantA_head n with h | ⟨c, r, h⟩
  · rw [h]; simp [variantB, variantB.go]
  · unfold variantA at h hns
    rw [h] at hns
    unfold variantA; rw [h]
    unfold variantB variantB.go
    rw [toUpper_toUpper, variantB_go_false_id r (fun d hd => hns d (by simp [hd]))]

/-! ### layer A, `rust_module_name` -/

/-- output alphabet of `rust_module_name`: `[A-Za-z0-9_]` when the input is `[A-Za-z0-9_-]` -/
theorem moduleA_go_idc (pad : Bool) (n : Name) : ∀ (e u l a : Bool), (∀ c ∈ n, inc c = true) →
    ∀ d ∈ moduleA.go pad e u l a n, idc d = true := by
  induction n with
  | nil => intro e u l a _ d hd; simp [moduleA.go] at hd
  | cons c cs ih =>
    intro e u l a h d hd
    have hc : inc c = true := h c (by simp)
    have hcs : ∀ x ∈ cs, inc x = true := fun x hx => h x (by simp [hx])
    have hU : idc '_' = true := by decide
    unfold moduleA.go at hd
    simp only [List.mem_append] at hd
    rcases hd with hd | hd
    · split at hd
      · simp only [List.mem_singleton] at hd; rw [hd]; exact hU
      · simp at hd
    · split at hd
      · next hup =>
        simp only [List.mem_append, List.mem_cons] at hd
        rcases hd with hd | hd | hd
        · split at hd
          · simp only [List.mem_singleton] at hd; rw [hd]; exact hU
          · simp at hd
        · rw [hd]
          have : idc c = true := by
            unfold idc; have : c.isAlphanum = true := by char_nat; omega
            simp [this]
          exact idc_toLower this
        · exact ih _ _ _ _ hcs d hd
      · split at hd
        · rcases List.mem_cons.mp hd with rfl | hd
          · exact hU
          · exact ih _ _ _ _ hcs d hd
        · next hsep =>
          rcases List.mem_cons.mp hd with rfl | hd
          · unfold inc at hc; unfold idc
            simp only [not_or] at hsep
            simp only [Bool.or_eq_true, beq_iff_eq] at hc ⊢
            rcases hc with (hc | hc) | hc
            · left; exact hc
            · exact absurd hc hsep.1
            · right; exact hc
          · exact ih _ _ _ _ hcs d hd

/-- `rust_module_name` never emits an upper-case letter or a hyphen, whatever the input -/
theorem moduleA_go_lower (pad : Bool) (n : Name) : ∀ (e u l a : Bool),
    ∀ d ∈ moduleA.go pad e u l a n, d.isUpper = false ∧ d ≠ '-' := by
  induction n with
  | nil => intro e u l a d hd; simp [moduleA.go] at hd
  | cons c cs ih =>
    intro e u l a d hd
    have hU : '_'.isUpper = false ∧ '_' ≠ '-' := by decide
    unfold moduleA.go at hd
    simp only [List.mem_append] at hd
    rcases hd with hd | hd
    · split at hd
      · simp only [List.mem_singleton] at hd; rw [hd]; exact hU
      · simp at hd
    · split at hd
      · next hup =>
        simp only [List.mem_append, List.mem_cons] at hd
        rcases hd with hd | hd | hd
        · split at hd
          · simp only [List.mem_singleton] at hd; rw [hd]; exact hU
          · simp at hd
        · rw [hd]
          refine ⟨not_upper_toLower c, ?_⟩
          rcases toLower_cases c with ⟨g1, g2, g3⟩ | ⟨g1, _⟩
          · char_nat; omega
          · char_nat; omega
        · exact ih _ _ _ _ d hd
      · next hnu =>
        split at hd
        · rcases List.mem_cons.mp hd with rfl | hd
          · exact hU
          · exact ih _ _ _ _ d hd
        · next hsep =>
          rcases List.mem_cons.mp hd with rfl | hd
          · simp only [not_or] at hsep
            exact ⟨by simpa using hnu, hsep.1⟩
          · exact ih _ _ _ _ d hd

/-- the first character: the (lowered) first letter, no padding in front of it -/
theorem moduleA_cons_alpha (pad : Bool) {c : Char} (cs : List Char) (h : c.isAlpha = true) :
    ∃ r, moduleA pad (c :: cs) = (if c.isUpper then c.toLower else c) :: r := by
  have hs := alpha_not_sep h
  unfold moduleA moduleA.go
  simp only [padNow, underA, Bool.not_true, Bool.and_false, Bool.false_and, Bool.false_eq_true,
    if_false, List.nil_append]
  split
  · exact ⟨_, rfl⟩
  · simp only [hs.1, hs.2, or_self, if_false]; exact ⟨_, rfl⟩

/-! ### layer B on layer A's output -/

theorem replHyphen_id (n : Name) (h : ∀ d ∈ n, d ≠ '-') : replHyphen n = n := by
  unfold replHyphen
  induction n with
  | nil => rfl
  | cons c cs ih =>
    simp only [List.map_cons, h c (by simp), if_false]
    rw [ih (fun d hd => h d (by simp [hd]))]

theorem moduleB_go_id (n : Name) (h : ∀ d ∈ n, d.isUpper = false ∧ d ≠ '-') :
    ∀ (e l : Bool), moduleB.go e l n = n := by
  induction n with
  | nil => intro e l; simp [moduleB.go]
  | cons c cs ih =>
    intro e l
    have hc := h c (by simp)
    unfold moduleB.go
    simp only [hc.1, Bool.false_eq_true, if_false, hc.2]
    rw [ih (fun d hd => h d (by simp [hd]))]

theorem moduleB_moduleA (pad : Bool) (n : Name) : moduleB (moduleA pad n) = moduleA pad n :=
  moduleB_go_id _ (moduleA_go_lower pad n _ _ _ _) _ _

theorem replHyphen_moduleA (pad : Bool) (n : Name) : replHyphen (moduleA pad n) = moduleA pad n :=
  replHyphen_id _ (fun d hd => (moduleA_go_lower pad n _ _ _ _ d hd).2)

/-! ### keywords -/

theorem isRustKeyword_iff (m : Name) : isRustKeyword m = true ↔ m ∈ rustKeywords := by
  simp [isRustKeyword]

theorem kw_has_lower : ∀ k ∈ rustKeywords, k.any Char.isLower = true := by decide

theorem kw_upper_first : ∀ k ∈ rustKeywords,
    (match k with | c :: _ => c.isUpper | [] => false) = true → k = "Self".toList := by decide

/-- an escaped keyword (`use_`) is not itself a keyword -/
theorem kwB_suffix_not_kw : ∀ k ∈ keywordsB, isRustKeyword (k ++ ['_']) = false := by decide

theorem mem_uncovered {r : Name} (h1 : r ∈ rustKeywords) (h2 : keywordsB.contains r = false) :
    r ∈ uncoveredKeywords := by
  unfold uncoveredKeywords
  rw [List.mem_filter]
  refine ⟨h1, ?_⟩
  simp only [Bool.not_eq_true', h2]

theorem uncovered_sub {r : Name} (h : r ∈ uncoveredKeywords) :
    r ∈ rustKeywords ∧ keywordsB.contains r = false := by
  unfold uncoveredKeywords at h
  rw [List.mem_filter] at h
  exact ⟨h.1, by simpa using h.2⟩

/-- what the generator prints for a component: layer B only ever adds the keyword suffix -/
theorem emitField_eq (n : Name) :
    emitField n = if keywordsB.contains (fieldA n) then fieldA n ++ ['_'] else fieldA n := by
  unfold emitField fieldB
  simp only [fieldA, replHyphen_moduleA, Bool.true_and]
  rfl

theorem emitVariant_eq (n : Name) : emitVariant n = variantA n := variantB_variantA n

theorem emitModule_eq (n : Name) : emitModule n = moduleA false (makeNameNice n) :=
  moduleB_moduleA false _

/-! ### names that differ only in the separator used (`-` vs `_`) -/

/-- equal up to exchanging `-` and `_` position by position -/
inductive SepEq : Name → Name → Prop
  | nil : SepEq [] []
  | same (c : Char) {a b : Name} : SepEq a b → SepEq (c :: a) (c :: b)
  | sep {c d : Char} {a b : Name} : (c = '-' ∨ c = '_') → (d = '-' ∨ d = '_') → SepEq a b →
      SepEq (c :: a) (d :: b)

theorem SepEq.refl (a : Name) : SepEq a a := by
  induction a with
  | nil => exact .nil
  | cons c cs ih => exact .same c ih

theorem SepEq.symm {a b : Name} (h : SepEq a b) : SepEq b a := by
  induction h with
  | nil => exact .nil
  | same c _ ih => exact .same c ih
  | sep h1 h2 _ ih => exact .sep h2 h1 ih

theorem SepEq.nextIsLower {a b : Name} (h : SepEq a b) : nextIsLower a = nextIsLower b := by
  cases h with
  | nil => rfl
  | same c _ => rfl
  | sep h1 h2 _ =>
    rcases h1 with rfl | rfl <;> rcases h2 with rfl | rfl <;> rfl

theorem replHyphen_eq_iff (a b : Name) : replHyphen a = replHyphen b ↔ SepEq a b := by
  unfold replHyphen
  constructor
  · intro h
    induction a generalizing b with
    | nil =>
      cases b with
      | nil => exact .nil
      | cons d ds => simp at h
    | cons c cs ih =>
      cases b with
      | nil => simp at h
      | cons d ds =>
        simp only [List.map_cons, List.cons.injEq] at h
        have t := ih ds h.2
        by_cases hc : c = '-' <;> by_cases hd : d = '-'
        · exact .sep (.inl hc) (.inl hd) t
        · simp only [hc, if_true, hd, if_false] at h
          exact .sep (.inl hc) (.inr h.1.symm) t
        · simp only [hc, if_false, hd, if_true] at h
          exact .sep (.inr h.1) (.inl hd) t
        · simp only [hc, if_false, hd] at h
          rw [h.1]; exact .same d t
  · intro h
    induction h with
    | nil => rfl
    | same c _ ih => simp only [List.map_cons, ih]
    | sep h1 h2 _ ih =>
      simp only [List.map_cons, ih, List.cons.injEq, and_true]
      rcases h1 with rfl | rfl <;> rcases h2 with rfl | rfl <;> decide

theorem variantA_go_sepEq {a b : Name} (h : SepEq a b) :
    ∀ nu pu, variantA.go nu pu a = variantA.go nu pu b := by
  induction h with
  | nil => intro nu pu; rfl
  | @same c a b hab ih =>
    intro nu pu
    rw [variantA.go, variantA.go, hab.nextIsLower]
    simp only [ih]
  | @sep c d a b h1 h2 hab ih =>
    intro nu pu
    rw [variantA.go, variantA.go]
    simp only [h1, h2, if_true, ih]

theorem moduleA_go_sepEq (pad : Bool) {a b : Name} (h : SepEq a b) :
    ∀ e u l al, moduleA.go pad e u l al a = moduleA.go pad e u l al b := by
  induction h with
  | nil => intro e u l al; rfl
  | @same c a b hab ih =>
    intro e u l al
    rw [moduleA.go, moduleA.go]
    simp only [underA, hab.nextIsLower, ih]
    rfl
  | @sep c d a b h1 h2 hab ih =>
    intro e u l al
    have f1 : '-'.isUpper = false := by decide
    have f2 : '_'.isUpper = false := by decide
    have f3 : '-'.isAlpha = false := by decide
    have f4 : '_'.isAlpha = false := by decide
    rw [moduleA.go, moduleA.go]
    rcases h1 with rfl | rfl <;> rcases h2 with rfl | rfl <;>
      simp [padNow, f1, f2, f3, f4, ih]

/-! ### conventional identifiers: lower-case letters, digits, single hyphens -/

def lowerHyphenChar (c : Char) : Bool := c.isLower || c.isDigit || c == '-'

/-- the usual ASN.1 spelling of component names: `secret-message`, `value-1` -/
def LowerHyphen (n : Name) : Bool := n.all lowerHyphenChar

theorem lowerHyphenChar_facts {c : Char} (h : lowerHyphenChar c = true) :
    c.isUpper = false ∧ c ≠ '_' := by
  unfold lowerHyphenChar at h
  char_nat
  constructor <;> omega

/-- without capitals `rust_module_name(_, false)` only replaces the hyphens -/
theorem moduleA_go_lowerHyphen (n : Name) (h : LowerHyphen n = true) :
    ∀ e u l a, moduleA.go false e u l a n = replHyphen n := by
  induction n with
  | nil => intro e u l a; rfl
  | cons c cs ih =>
    intro e u l a
    simp only [LowerHyphen, List.all_cons, Bool.and_eq_true] at h
    obtain ⟨hu, hne⟩ := lowerHyphenChar_facts h.1
    have ih' := ih (by simpa [LowerHyphen] using h.2)
    rw [moduleA.go]
    simp only [padNow, Bool.false_and, Bool.false_eq_true, if_false, List.nil_append, hu, hne,
      or_false, replHyphen, List.map_cons]
    split
    · next hc => simp only [ih' _ _ _ _, replHyphen]
    · next hc => simp only [ih' _ _ _ _, replHyphen]

theorem fieldA_lowerHyphen (n : Name) (h : LowerHyphen n = true) : fieldA n = replHyphen n :=
  moduleA_go_lowerHyphen n h _ _ _ _

theorem replHyphen_injective (a b : Name) (ha : ∀ c ∈ a, c ≠ '_') (hb : ∀ c ∈ b, c ≠ '_')
    (h : replHyphen a = replHyphen b) : a = b := by
  unfold replHyphen at h
  induction a generalizing b with
  | nil =>
    cases b with
    | nil => rfl
    | cons d ds => simp at h
  | cons c cs ih =>
    cases b with
    | nil => simp at h
    | cons d ds =>
      simp only [List.map_cons, List.cons.injEq] at h
      have hc := ha c (by simp)
      have hd := hb d (by simp)
      have t := ih ds (fun x hx => ha x (by simp [hx])) (fun x hx => hb x (by simp [hx])) h.2
      have : c = d := by
        have h1 := h.1
        by_cases e1 : c = '-' <;> by_cases e2 : d = '-'
        · rw [e1, e2]
        · simp only [e1, if_true, e2, if_false] at h1; exact absurd h1.symm hd
        · simp only [e1, if_false, e2, if_true] at h1; exact absurd h1 hc
        · simpa [e1, e2] using h1
      rw [this, t]

theorem hyphensOk_last (n : Name) (h : hyphensOk n = true) : ∀ x, n.getLast? = some x → x ≠ '-' := by
  induction n with
  | nil => intro x hx; simp at hx
  | cons c cs ih =>
    cases cs with
    | nil =>
      intro x hx
      simp only [List.getLast?_singleton, Option.some.injEq] at hx
      simp only [hyphensOk, bne_iff_ne, ne_eq] at h
      rw [← hx]; exact h
    | cons d ds =>
      intro x hx
      simp only [hyphensOk, Bool.and_eq_true] at h
      rw [List.getLast?_cons_cons] at hx
      exact ih h.2 x hx

theorem asnIdent_last (n : Name) (h : AsnIdent n = true) : ∀ x, n.getLast? = some x → x ≠ '-' := by
  cases n with
  | nil => simp [AsnIdent] at h
  | cons c cs =>
    simp only [AsnIdent, Bool.and_eq_true] at h
    exact hyphensOk_last _ h.2

/-- a name that is mapped onto `… _` ends in a separator itself -/
theorem replHyphen_snoc (b x : Name) (h : replHyphen b = x ++ ['_']) :
    ∃ c, b.getLast? = some c ∧ (c = '-' ∨ c = '_') := by
  have := congrArg List.getLast? h
  unfold replHyphen at this
  rw [List.getLast?_map] at this
  simp only [List.getLast?_append, List.getLast?_singleton, Option.some_or] at this
  cases hl : b.getLast? with
  | none => rw [hl] at this; simp at this
  | some c =>
    rw [hl] at this
    simp only [Option.map_some, Option.some.injEq] at this
    refine ⟨c, rfl, ?_⟩
    by_cases e : c = '-'
    · exact .inl e
    · simp only [e, if_false] at this; exact .inr this

end Asn1Verif.Codegen.Names
