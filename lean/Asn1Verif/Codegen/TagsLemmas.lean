import Asn1Verif.Codegen.Tags
/-
  Lemmas about `Codegen/Tags.lean`: the derived order, the stable sort, implicit tags, the resolver.
-/
namespace Asn1Verif.Codegen.Tags
open Asn1Verif

/-! ### the derived order on `Tag`, `Option Tag`, the sort key -/

theorem Tag.le_iff (a b : Tag) :
    a.le b = true ↔ a.cls < b.cls ∨ (a.cls = b.cls ∧ a.num ≤ b.num) := by
  simp [Tag.le]

theorem Tag.le_refl (a : Tag) : a.le a = true := by simp [Tag.le]

theorem Tag.le_total (a b : Tag) : (a.le b || b.le a) = true := by
  simp only [Bool.or_eq_true, Tag.le_iff]; omega

theorem Tag.le_trans (a b c : Tag) (h1 : a.le b = true) (h2 : b.le c = true) : a.le c = true := by
  simp only [Tag.le_iff] at *; omega

theorem Tag.le_antisymm (a b : Tag) (h1 : a.le b = true) (h2 : b.le a = true) : a = b := by
  simp only [Tag.le_iff] at *
  cases a; cases b; simp only [Tag.mk.injEq] at *; omega

theorem optTagLe_total (a b : Option Tag) : (optTagLe a b || optTagLe b a) = true := by
  cases a <;> cases b <;> simp [optTagLe, Tag.le_total]

theorem optTagLe_trans (a b c : Option Tag) (h1 : optTagLe a b = true) (h2 : optTagLe b c = true) :
    optTagLe a c = true := by
  cases a <;> cases b <;> cases c <;> simp_all [optTagLe]
  exact Tag.le_trans _ _ _ h1 h2

/-- the key order spelled out: root before extension addition; two root components by tag; two
    extension additions always (they compare `Equal`, the stable sort leaves them as written) -/
theorem keyLe_iff (a b : Bool × RField) :
    keyLe a b = true ↔
      (a.1 = false ∧ b.1 = true) ∨ (a.1 = true ∧ b.1 = true) ∨
      (a.1 = false ∧ b.1 = false ∧ optTagLe a.2.tag b.2.tag = true) := by
  obtain ⟨fa, ra⟩ := a; obtain ⟨fb, rb⟩ := b
  cases fa <;> cases fb <;> simp [keyLe]

theorem keyLe_total (a b : Bool × RField) : (keyLe a b || keyLe b a) = true := by
  obtain ⟨fa, ra⟩ := a; obtain ⟨fb, rb⟩ := b
  have := optTagLe_total ra.tag rb.tag
  cases fa <;> cases fb <;> simp_all [keyLe]

theorem keyLe_trans (a b c : Bool × RField) (h1 : keyLe a b = true) (h2 : keyLe b c = true) :
    keyLe a c = true := by
  obtain ⟨fa, ra⟩ := a; obtain ⟨fb, rb⟩ := b; obtain ⟨fc, rc⟩ := c
  have := optTagLe_trans ra.tag rb.tag rc.tag
  cases fa <;> cases fb <;> cases fc <;> simp_all [keyLe]

/-! ### `minTag` is "sort, then take the first" -/

theorem minTag_eq_none_iff (ts : List Tag) : minTag ts = none ↔ ts = [] := by
  cases ts with
  | nil => simp [minTag]
  | cons t ts =>
    simp only [minTag, reduceCtorEq, iff_false]
    cases minTag ts with
    | none => simp
    | some m => by_cases h : t.le m <;> simp [h]

theorem minTag_mem (ts : List Tag) (m : Tag) (h : minTag ts = some m) : m ∈ ts := by
  induction ts generalizing m with
  | nil => simp [minTag] at h
  | cons t ts ih =>
    simp only [minTag] at h
    cases hm : minTag ts with
    | none => simp only [hm, Option.some.injEq] at h; simp [h]
    | some m' =>
      simp only [hm] at h
      by_cases hle : t.le m' = true
      · simp only [hle, if_true, Option.some.injEq] at h; simp [h]
      · simp only [hle, Bool.false_eq_true, if_false, Option.some.injEq] at h
        subst h; exact List.mem_cons_of_mem _ (ih m' hm)

theorem minTag_le (ts : List Tag) (m : Tag) (h : minTag ts = some m) : ∀ t ∈ ts, m.le t = true := by
  induction ts generalizing m with
  | nil => simp
  | cons t ts ih =>
    simp only [minTag] at h
    intro x hx
    cases hm : minTag ts with
    | none =>
      simp only [hm, Option.some.injEq] at h
      have : ts = [] := (minTag_eq_none_iff ts).1 hm
      subst this; subst h
      simp only [List.mem_singleton] at hx; subst hx; exact Tag.le_refl _
    | some m' =>
      simp only [hm] at h
      by_cases hle : t.le m' = true
      · simp only [hle, if_true, Option.some.injEq] at h; subst h
        rcases List.mem_cons.1 hx with rfl | hx
        · exact Tag.le_refl _
        · exact Tag.le_trans _ _ _ hle (ih m' hm x hx)
      · simp only [hle, Bool.false_eq_true, if_false, Option.some.injEq] at h
        have hmm : m = m' := h.symm
        subst hmm
        rcases List.mem_cons.1 hx with rfl | hx
        · have := Tag.le_total x m; simp only [Bool.or_eq_true] at this
          rcases this with h | h
          · exact absurd h hle
          · exact h
        · exact ih m hm x hx

/-- `tags.sort(); tags.into_iter().next()` = `minTag tags` -/
theorem minTag_eq_head_mergeSort (ts : List Tag) : (ts.mergeSort Tag.le).head? = minTag ts := by
  cases hm : minTag ts with
  | none =>
    have : ts = [] := (minTag_eq_none_iff ts).1 hm
    subst this; simp
  | some m =>
    have hsorted := List.pairwise_mergeSort (le := Tag.le) Tag.le_trans Tag.le_total ts
    have hperm := List.mergeSort_perm ts Tag.le
    cases hs : ts.mergeSort Tag.le with
    | nil =>
      have : ts = [] := by
        have := hperm.length_eq; rw [hs] at this
        exact List.eq_nil_of_length_eq_zero this.symm
      subst this; simp [minTag] at hm
    | cons x xs =>
      simp only [List.head?_cons, Option.some.injEq]
      rw [hs] at hsorted hperm
      have hx : x ∈ ts := hperm.mem_iff.1 (by simp)
      have hmm : m ∈ x :: xs := hperm.mem_iff.2 (minTag_mem ts m hm)
      have h1 : m.le x = true := minTag_le ts m hm x hx
      have h2 : x.le m = true := by
        rcases List.mem_cons.1 hmm with rfl | hmem
        · exact Tag.le_refl _
        · exact List.rel_of_pairwise_cons hsorted hmem
      exact Tag.le_antisymm _ _ h2 h1

/-! ### `assign_implicit_tags` -/

/-- "no component of the list carries a tag" -/
def NoneTagged (fields : List RField) : Prop := ∀ f ∈ fields, f.tag = none

instance (fields : List RField) : Decidable (NoneTagged fields) := by
  unfold NoneTagged; infer_instance

theorem any_tagged_iff (fields : List RField) :
    fields.any (fun f => f.tag.isSome) = true ↔ ¬ NoneTagged fields := by
  simp only [List.any_eq_true, NoneTagged, Classical.not_forall]
  constructor
  · rintro ⟨f, hf, h⟩; exact ⟨f, hf, by intro h0; simp [h0] at h⟩
  · rintro ⟨f, hf, h⟩
    refine ⟨f, hf, ?_⟩
    cases ht : f.tag with
    | none => exact absurd ht h
    | some t => rfl

/-- some component is tagged: nothing is assigned -/
theorem assignImplicitTags_of_tagged (fields : List RField) (h : ¬ NoneTagged fields) :
    assignImplicitTags fields = fields := by
  simp [assignImplicitTags, (any_tagged_iff fields).2 h]

/-- no component is tagged: component `i` gets context tag `i` -/
theorem assignImplicitTags_of_noneTagged (fields : List RField) (h : NoneTagged fields) :
    assignImplicitTags fields =
      fields.zipIdx.map fun (f, i) => { f with tag := some (Tag.contextSpecific i) } := by
  have : fields.any (fun f => f.tag.isSome) = false := by
    cases hb : fields.any (fun f => f.tag.isSome) with
    | false => rfl
    | true => exact absurd h ((any_tagged_iff fields).1 hb)
  simp [assignImplicitTags, this]

theorem length_assignImplicitTags (fields : List RField) :
    (assignImplicitTags fields).length = fields.length := by
  unfold assignImplicitTags; split <;> simp

/-- only the tag changes -/
theorem map_name_assignImplicitTags (fields : List RField) :
    (assignImplicitTags fields).map (·.name) = fields.map (·.name) := by
  unfold assignImplicitTags; split
  · rfl
  · rw [List.map_map]
    have : ((fun f : RField => f.name) ∘ fun (x : RField × Nat) =>
        { x.1 with tag := some (Tag.contextSpecific x.2) }) =
        (fun f : RField => f.name) ∘ Prod.fst := by
      funext x; rfl
    rw [this, ← List.map_map, List.zipIdx_map_fst]

/-! ### the stable sort -/

theorem sortKeyed_perm (fields : List RField) (e : Option Nat) :
    (sortKeyed fields e).Perm (prepare fields e) :=
  List.mergeSort_perm _ _

theorem sortKeyed_pairwise (fields : List RField) (e : Option Nat) :
    (sortKeyed fields e).Pairwise (fun a b => keyLe a b = true) :=
  List.pairwise_mergeSort keyLe_trans keyLe_total _

/-- stability in its strongest form: every subsequence of the input that is already in key order
    is still a subsequence of the output -/
theorem sortKeyed_stable (fields : List RField) (e : Option Nat) (c : List (Bool × RField))
    (hc : c.Pairwise (fun a b => keyLe a b = true)) (hs : c.Sublist (prepare fields e)) :
    c.Sublist (sortKeyed fields e) :=
  List.sublist_mergeSort keyLe_trans keyLe_total hc hs

theorem sortKeyed_of_pairwise (fields : List RField) (e : Option Nat)
    (h : (prepare fields e).Pairwise (fun a b => keyLe a b = true)) :
    sortKeyed fields e = prepare fields e :=
  List.mergeSort_of_pairwise h

theorem length_prepare (fields : List RField) (e : Option Nat) :
    (prepare fields e).length = fields.length := by simp [prepare]

/-- the flag is monotone in the textual index -/
theorem extendedFlag_mono (e : Option Nat) (i j : Nat) (hij : i ≤ j)
    (h : extendedFlag e i = true) : extendedFlag e j = true := by
  cases e with
  | none => simp [extendedFlag] at h
  | some a => simp only [extendedFlag, decide_eq_true_eq] at *; omega

theorem optTagLe_contextSpecific (i j : Nat) (h : i ≤ j) :
    optTagLe (some (Tag.contextSpecific i)) (some (Tag.contextSpecific j)) = true := by
  simp [optTagLe, Tag.le, Tag.contextSpecific, h]

/-- preparing a list whose component `i` carries context tag `i` yields a list in key order -/
theorem pairwise_prepare_of_indexed (e : Option Nat) (l : List RField) (k : Nat)
    (h : ∀ x ∈ l.zipIdx k, x.1.tag = some (Tag.contextSpecific x.2)) :
    ((l.zipIdx k).map fun (x : RField × Nat) =>
        (extendedFlag e x.2, { x.1 with tag := x.1.tag.orElse fun _ => x.1.typeTag })).Pairwise
      (fun a b => keyLe a b = true) := by
  induction l generalizing k with
  | nil => simp
  | cons a l ih =>
    simp only [List.zipIdx_cons, List.map_cons, List.pairwise_cons]
    refine ⟨?_, ih (k + 1) (fun x hx => h x (by simp [List.zipIdx_cons, hx]))⟩
    intro y hy
    obtain ⟨x, hx, rfl⟩ := List.mem_map.1 hy
    have hk : k + 1 ≤ x.2 := List.le_snd_of_mem_zipIdx hx
    have ha : a.tag = some (Tag.contextSpecific k) := h (a, k) (by simp [List.zipIdx_cons])
    have hxt : x.1.tag = some (Tag.contextSpecific x.2) :=
      h x (by simp [List.zipIdx_cons, hx])
    rw [keyLe_iff]
    simp only [ha, hxt, Option.orElse_some]
    by_cases hf : extendedFlag e k = true
    · right; left
      exact ⟨hf, extendedFlag_mono e k x.2 (by omega) hf⟩
    · cases hx2 : extendedFlag e x.2 with
      | true => left; exact ⟨by simpa using hf, rfl⟩
      | false =>
        right; right
        exact ⟨by simpa using hf, rfl, optTagLe_contextSpecific _ _ (by omega)⟩

theorem indexed_zipIdx_map (l : List RField) (k : Nat) :
    ∀ x ∈ ((l.zipIdx k).map fun (x : RField × Nat) =>
        ({ x.1 with tag := some (Tag.contextSpecific x.2) } : RField)).zipIdx k,
      x.1.tag = some (Tag.contextSpecific x.2) := by
  induction l generalizing k with
  | nil => simp
  | cons a l ih =>
    intro x hx
    simp only [List.zipIdx_cons, List.map_cons, List.mem_cons] at hx
    rcases hx with rfl | hx
    · rfl
    · exact ih (k + 1) x hx

/-- the prepared fields keep their own tag when they have one -/
theorem map_snd_prepare_of_tagged (l : List RField) (e : Option Nat)
    (h : ∀ f ∈ l, f.tag.isSome = true) : (prepare l e).map (·.2) = l := by
  unfold prepare
  rw [List.map_map]
  have : ∀ x ∈ l.zipIdx, ((fun p : Bool × RField => p.2) ∘ fun (x : RField × Nat) =>
      (extendedFlag e x.2, ({ x.1 with tag := x.1.tag.orElse fun _ => x.1.typeTag } : RField))) x
      = Prod.fst x := by
    intro x hx
    have := h x.1 (List.fst_mem_of_mem_zipIdx hx)
    rcases x with ⟨⟨n, tg, tt, kd, pr⟩, i⟩
    cases tg with
    | none => simp at this
    | some t => rfl
  rw [List.map_congr_left this, List.zipIdx_map_fst]

/-- **automatic tagging ⇒ the canonical sort is the identity**: when no component is tagged the
    list with the automatic tags is already in key order, for every position of the marker -/
theorem sort_assignImplicitTags_of_noneTagged (fields : List RField) (e : Option Nat)
    (h : NoneTagged fields) :
    sortFieldsCanonically (assignImplicitTags fields) e = .ok (assignImplicitTags fields) := by
  have hidx := indexed_zipIdx_map fields 0
  rw [← assignImplicitTags_of_noneTagged fields h] at hidx
  have hsome : ∀ f ∈ assignImplicitTags fields, f.tag.isSome = true := by
    intro f hf
    obtain ⟨i, hi, rfl⟩ := List.getElem_of_mem hf
    have := hidx ((assignImplicitTags fields)[i], i)
      (by rw [List.mk_mem_zipIdx_iff_getElem?]; simp [hi])
    simp at this; simp [this]
  have hpw := pairwise_prepare_of_indexed e (assignImplicitTags fields) 0 hidx
  have hprep : prepare (assignImplicitTags fields) e = _ := rfl
  unfold sortFieldsCanonically
  rw [sortKeyed_of_pairwise _ _ hpw, map_snd_prepare_of_tagged _ _ hsome]
  have : (prepare (assignImplicitTags fields) e).any (fun p => p.2.tag.isNone) = false := by
    rw [List.any_eq_false]
    intro p hp
    have : p.2 ∈ (prepare (assignImplicitTags fields) e).map (·.2) := List.mem_map_of_mem hp
    rw [map_snd_prepare_of_tagged _ _ hsome] at this
    have := hsome p.2 this
    cases ht : p.2.tag <;> simp_all
  simp [this]

/-! ### `mergeSort` is stable insertion from the front -/

/-- `a` goes behind the elements strictly smaller than it and in front of everything else -/
def insertFirst {α : Type} (le : α → α → Bool) (a : α) (l : List α) : List α :=
  l.takeWhile (fun b => !le a b) ++ a :: l.dropWhile (fun b => !le a b)

theorem takeWhile_dropWhile_append {α : Type} (p : α → Bool) (l₁ l₂ : List α)
    (h1 : ∀ b ∈ l₁, p b = true) (h2 : ∀ b ∈ l₂, p b = false) :
    (l₁ ++ l₂).takeWhile p = l₁ ∧ (l₁ ++ l₂).dropWhile p = l₂ := by
  induction l₁ with
  | nil =>
    cases l₂ with
    | nil => simp
    | cons b l₂ => simp [h2 b (by simp)]
  | cons a l₁ ih =>
    have ha := h1 a (by simp)
    have := ih (fun b hb => h1 b (List.mem_cons_of_mem _ hb))
    simp [ha, this.1, this.2]

/-- core's `mergeSort` puts the head where stable insertion puts it -/
theorem mergeSort_cons_eq {α : Type} {le : α → α → Bool}
    (trans : ∀ (a b c : α), le a b → le b c → le a c) (total : ∀ (a b : α), le a b || le b a)
    (a : α) (l : List α) : (a :: l).mergeSort le = insertFirst le a (l.mergeSort le) := by
  obtain ⟨l₁, l₂, h1, h2, h3⟩ := List.mergeSort_cons trans total a l
  have hs := List.pairwise_mergeSort trans total (a :: l)
  rw [h1] at hs
  have hl2 : ∀ b ∈ l₂, (!le a b) = false := by
    intro b hb
    have h := (List.pairwise_append.1 hs).2.1
    have := List.rel_of_pairwise_cons h hb
    simp [this]
  obtain ⟨ht, hd⟩ := takeWhile_dropWhile_append (fun b => !le a b) l₁ l₂ (fun b hb => h3 b hb) hl2
  rw [h1, h2, insertFirst, ht, hd]

theorem insertFirst_append {α : Type} (le : α → α → Bool) (a : α) (X A : List α)
    (h : ∀ b ∈ A, le a b = true) : insertFirst le a (X ++ A) = insertFirst le a X ++ A := by
  induction X with
  | nil =>
    cases A with
    | nil => rfl
    | cons b A => simp [insertFirst, h b (by simp)]
  | cons x X ih =>
    unfold insertFirst at *
    by_cases hx : le a x = true
    · simp [hx]
    · simp only [List.cons_append, List.takeWhile_cons, List.dropWhile_cons, hx, Bool.not_false,
        if_true]
      simp [ih]

/-- a block `A` that is in order already and not smaller than anything in front of it stays where
    it is; only the part in front is sorted -/
theorem mergeSort_append_of_le {α : Type} {le : α → α → Bool}
    (trans : ∀ (a b c : α), le a b → le b c → le a c) (total : ∀ (a b : α), le a b || le b a)
    (R A : List α) (hA : A.Pairwise (fun a b => le a b = true))
    (hRA : ∀ r ∈ R, ∀ a ∈ A, le r a = true) :
    (R ++ A).mergeSort le = R.mergeSort le ++ A := by
  induction R with
  | nil => simpa using List.mergeSort_of_pairwise hA
  | cons r R ih =>
    rw [List.cons_append, mergeSort_cons_eq trans total,
      ih (fun x hx => hRA x (List.mem_cons_of_mem _ hx)),
      insertFirst_append le r _ A (hRA r (by simp)), ← mergeSort_cons_eq trans total]


/-! ### the SET sort: root components sorted, extension additions as written -/

/-- number of root components: `extension_after + 1`, all of them without a marker -/
def rootCount (extAfter : Option Nat) (len : Nat) : Nat :=
  match extAfter with
  | some after => min (after + 1) len
  | none => len

theorem rootCount_le (e : Option Nat) (len : Nat) : rootCount e len ≤ len := by
  cases e <;> simp [rootCount]; omega

/-- the flag the generator works with says "index below the root count" -/
theorem extendedFlag_eq_false_iff (e : Option Nat) (i len : Nat) (hi : i < len) :
    extendedFlag e i = false ↔ i < rootCount e len := by
  cases e with
  | none => simp [extendedFlag, rootCount, hi]
  | some a => simp only [extendedFlag, rootCount, decide_eq_false_iff_not]; omega

theorem getElem_prepare (fields : List RField) (e : Option Nat) (i : Nat)
    (h : i < (prepare fields e).length) :
    (prepare fields e)[i] =
      (extendedFlag e i,
       { fields[i]'(by rw [length_prepare] at h; exact h) with
         tag := (fields[i]'(by rw [length_prepare] at h; exact h)).tag.orElse fun _ =>
           (fields[i]'(by rw [length_prepare] at h; exact h)).typeTag }) := by
  simp [prepare]

/-- the first `rootCount` prepared components are flagged root … -/
theorem flag_take_prepare (fields : List RField) (e : Option Nat) :
    ∀ p ∈ (prepare fields e).take (rootCount e fields.length), p.1 = false := by
  intro p hp
  obtain ⟨j, hj, rfl⟩ := List.mem_take_iff_getElem.1 hp
  rw [length_prepare] at hj
  rw [getElem_prepare]
  exact (extendedFlag_eq_false_iff e j fields.length (by omega)).2 (by omega)

/-- … the others extension addition -/
theorem flag_drop_prepare (fields : List RField) (e : Option Nat) :
    ∀ p ∈ (prepare fields e).drop (rootCount e fields.length), p.1 = true := by
  intro p hp
  obtain ⟨j, hj, rfl⟩ := List.mem_drop_iff_getElem.1 hp
  rw [length_prepare] at hj
  rw [getElem_prepare]
  cases hf : extendedFlag e (rootCount e fields.length + j) with
  | true => rfl
  | false =>
    have := (extendedFlag_eq_false_iff e _ fields.length (by omega)).1 hf
    omega

/-- **the shape of the sorted list**: the root components, sorted among themselves, followed by the
    extension additions exactly as they are written -/
theorem sortKeyed_eq (fields : List RField) (e : Option Nat) :
    sortKeyed fields e =
      ((prepare fields e).take (rootCount e fields.length)).mergeSort keyLe ++
        (prepare fields e).drop (rootCount e fields.length) := by
  unfold sortKeyed
  conv => lhs; rw [← List.take_append_drop (rootCount e fields.length) (prepare fields e)]
  apply mergeSort_append_of_le keyLe_trans keyLe_total
  · refine List.Pairwise.imp_of_mem ?_ (List.pairwise_of_forall (R := fun _ _ => True) (fun _ _ => trivial))
    intro a b ha hb _
    rw [keyLe_iff]
    exact Or.inr (Or.inl ⟨flag_drop_prepare fields e a ha, flag_drop_prepare fields e b hb⟩)
  · intro r hr a ha
    rw [keyLe_iff]
    exact Or.inl ⟨flag_take_prepare fields e r hr, flag_drop_prepare fields e a ha⟩


/-- the component as the sort sees it: `field.tag.or_else(|| field.r#type().tag())` -/
def RField.withTypeTag (f : RField) : RField := { f with tag := f.tag.orElse fun _ => f.typeTag }

theorem map_snd_prepare (fields : List RField) (e : Option Nat) :
    (prepare fields e).map (·.2) = fields.map RField.withTypeTag := by
  unfold prepare
  rw [List.map_map]
  have : ((fun p : Bool × RField => p.2) ∘ fun (x : RField × Nat) =>
      (extendedFlag e x.2, ({ x.1 with tag := x.1.tag.orElse fun _ => x.1.typeTag } : RField)))
      = RField.withTypeTag ∘ Prod.fst := by
    funext x; rfl
  rw [this, ← List.map_map, List.zipIdx_map_fst]

theorem length_sorted_roots (fields : List RField) (e : Option Nat) :
    (((prepare fields e).take (rootCount e fields.length)).mergeSort keyLe).length =
      rootCount e fields.length := by
  rw [(List.mergeSort_perm _ _).length_eq, List.length_take, length_prepare]
  exact Nat.min_eq_left (rootCount_le e fields.length)

/-- what a successful `sort_fields_canonically` returns, split at the root count -/
theorem sortFieldsCanonically_split (fields : List RField) (e : Option Nat) (out : List RField)
    (h : sortFieldsCanonically fields e = .ok out) :
    out.take (rootCount e fields.length) =
      (((prepare fields e).take (rootCount e fields.length)).mergeSort keyLe).map (·.2) ∧
    out.drop (rootCount e fields.length) =
      (fields.drop (rootCount e fields.length)).map RField.withTypeTag := by
  unfold sortFieldsCanonically at h
  split at h
  · cases h
  · simp only [Outcome.ok.injEq] at h
    subst h
    rw [sortKeyed_eq, List.map_append]
    have hl : ((((prepare fields e).take (rootCount e fields.length)).mergeSort keyLe).map
        (·.2)).length = rootCount e fields.length := by
      rw [List.length_map, length_sorted_roots]
    refine ⟨List.take_left' hl, ?_⟩
    rw [List.drop_left' hl, List.map_drop, map_snd_prepare, List.map_drop]

/-- "some field is missing a tag assignment", read off the fields -/
theorem any_untagged_prepare (fields : List RField) (e : Option Nat) :
    (prepare fields e).any (fun p => p.2.tag.isNone) =
      fields.any (fun f => (f.tag.orElse fun _ => f.typeTag).isNone) := by
  have : (prepare fields e).any (fun p => p.2.tag.isNone) =
      ((prepare fields e).map (·.2)).any (fun f => f.tag.isNone) := by
    rw [List.any_map]; rfl
  rw [this, map_snd_prepare, List.any_map]
  rfl

theorem prepare_append (fields adds : List RField) (e : Option Nat) :
    prepare (fields ++ adds) e = prepare fields e ++
      (adds.zipIdx fields.length).map fun (x : RField × Nat) =>
        (extendedFlag e x.2, { x.1 with tag := x.1.tag.orElse fun _ => x.1.typeTag }) := by
  unfold prepare
  rw [List.zipIdx_append, List.map_append, Nat.zero_add]

/-- **appending extension additions appends them to the emitted order**: with the marker behind
    component `k` of the old list, the new list sorts to the old result followed by the new
    additions as written — the order of the components both versions know does not change -/
theorem sortFieldsCanonically_append (fields adds : List RField) (k : Nat)
    (hk : k < fields.length) (out : List RField)
    (h : sortFieldsCanonically fields (some k) = .ok out)
    (ha : ∀ f ∈ adds, (f.tag.orElse fun _ => f.typeTag).isSome = true) :
    sortFieldsCanonically (fields ++ adds) (some k) =
      .ok (out ++ adds.map RField.withTypeTag) := by
  have hn : rootCount (some k) (fields ++ adds).length = rootCount (some k) fields.length := by
    simp only [rootCount, List.length_append]; omega
  have hnle : rootCount (some k) fields.length ≤ (prepare fields (some k)).length := by
    rw [length_prepare]; exact rootCount_le _ _
  have hsk : sortKeyed (fields ++ adds) (some k) = sortKeyed fields (some k) ++
      (adds.zipIdx fields.length).map fun (x : RField × Nat) =>
        (extendedFlag (some k) x.2, { x.1 with tag := x.1.tag.orElse fun _ => x.1.typeTag }) := by
    rw [sortKeyed_eq, sortKeyed_eq, hn, prepare_append, List.take_append_of_le_length hnle,
      List.drop_append_of_le_length hnle, List.append_assoc]
  have hadds : ((adds.zipIdx fields.length).map fun (x : RField × Nat) =>
      (extendedFlag (some k) x.2,
        ({ x.1 with tag := x.1.tag.orElse fun _ => x.1.typeTag } : RField))).map (·.2) =
      adds.map RField.withTypeTag := by
    rw [List.map_map]
    have : ((fun p : Bool × RField => p.2) ∘ fun (x : RField × Nat) =>
        (extendedFlag (some k) x.2,
          ({ x.1 with tag := x.1.tag.orElse fun _ => x.1.typeTag } : RField)))
        = RField.withTypeTag ∘ Prod.fst := by
      funext x; rfl
    rw [this, ← List.map_map, List.zipIdx_map_fst]
  unfold sortFieldsCanonically at h ⊢
  rw [any_untagged_prepare] at h ⊢
  split at h
  · cases h
  · rename_i hf
    simp only [Outcome.ok.injEq] at h
    have hany : (fields ++ adds).any (fun f => (f.tag.orElse fun _ => f.typeTag).isNone) = false := by
      rw [List.any_append, Bool.or_eq_false_iff]
      refine ⟨by simpa using hf, ?_⟩
      rw [List.any_eq_false]
      intro f hfm
      have := ha f hfm
      cases hx : (f.tag.orElse fun _ => f.typeTag) with
      | none => rw [hx] at this; cases this
      | some t => simp
    rw [hany]
    simp only [Bool.false_eq_true, if_false, Outcome.ok.injEq]
    rw [hsk, List.map_append, h, hadds]

theorem filter_root_prepare (fields : List RField) (e : Option Nat) :
    (prepare fields e).filter (fun p => !p.1) =
      (prepare fields e).take (rootCount e fields.length) := by
  have h1 : ((prepare fields e).take (rootCount e fields.length)).filter (fun p => !p.1) =
      (prepare fields e).take (rootCount e fields.length) :=
    List.filter_eq_self.2 fun p hp => by simp [flag_take_prepare fields e p hp]
  have h2 : ((prepare fields e).drop (rootCount e fields.length)).filter (fun p => !p.1) = [] :=
    List.filter_eq_nil_iff.2 fun p hp => by simp [flag_drop_prepare fields e p hp]
  conv => lhs; rw [← List.take_append_drop (rootCount e fields.length) (prepare fields e)]
  rw [List.filter_append, h1, h2, List.append_nil]

theorem filter_ext_prepare (fields : List RField) (e : Option Nat) :
    (prepare fields e).filter (fun p => p.1) =
      (prepare fields e).drop (rootCount e fields.length) := by
  have h1 : ((prepare fields e).take (rootCount e fields.length)).filter (fun p => p.1) = [] :=
    List.filter_eq_nil_iff.2 fun p hp => by simp [flag_take_prepare fields e p hp]
  have h2 : ((prepare fields e).drop (rootCount e fields.length)).filter (fun p => p.1) =
      (prepare fields e).drop (rootCount e fields.length) :=
    List.filter_eq_self.2 fun p hp => by simp [flag_drop_prepare fields e p hp]
  conv => lhs; rw [← List.take_append_drop (rootCount e fields.length) (prepare fields e)]
  rw [List.filter_append, h1, h2, List.nil_append]

/-! ### the resolver: independence of the fuel, totality on every module -/

theorem collectTags_mono (r1 r2 : Ty → Option (Option Tag)) (alts : List (Option Tag × Ty))
    (h : ∀ a ∈ alts, ∀ x, r1 a.2 = some x → r2 a.2 = some x) :
    ∀ y, collectTags r1 alts = some y → collectTags r2 alts = some y := by
  induction alts with
  | nil => intro y hy; simpa [collectTags] using hy
  | cons a rest ih =>
    have ih' := ih (fun b hb => h b (List.mem_cons_of_mem _ hb))
    intro y hy
    rcases a with ⟨tg, ty⟩
    cases tg with
    | some t =>
      simp only [collectTags, Option.map_eq_some_iff] at hy ⊢
      obtain ⟨z, hz, rfl⟩ := hy
      exact ⟨z, ih' z hz, rfl⟩
    | none =>
      simp only [collectTags] at hy ⊢
      cases h1 : r1 ty with
      | none => simp [h1] at hy
      | some x =>
        have h2 := h (none, ty) (by simp) x h1
        simp only [] at h2
        rw [h2]
        rw [h1] at hy
        cases x with
        | none => exact hy
        | some t =>
          simp only [Option.map_eq_some_iff] at hy ⊢
          obtain ⟨z, hz, rfl⟩ := hy
          exact ⟨z, ih' z hz, rfl⟩

/-- one more unit of fuel never changes an answer -/
theorem resolveTypeTag_succ (env : Env) :
    ∀ (fuel : Nat) (vis : List String) (t : Ty) (x : Option Tag),
      resolveTypeTag env fuel vis t = some x → resolveTypeTag env (fuel + 1) vis t = some x := by
  intro fuel
  induction fuel with
  | zero => intro vis t x h; simp [resolveTypeTag] at h
  | succ f ih =>
    intro vis t x h
    cases t with
    | builtin k => simpa [resolveTypeTag] using h
    | ref n =>
      simp only [resolveTypeTag] at h ⊢
      by_cases hv : vis.contains n = true
      · rw [if_pos hv] at h ⊢; exact h
      · rw [if_neg hv] at h ⊢
        cases hl : env.lookup n with
        | none => simpa [hl] using h
        | some d =>
          simp only [hl] at h ⊢
          cases ht : d.tag with
          | some t => simpa [ht] using h
          | none => simp only [ht] at h ⊢; exact ih _ _ _ h
    | choice alts e =>
      simp only [resolveTypeTag] at h ⊢
      cases hc : collectTags (resolveTypeTag env f vis) (rootAlts alts e) with
      | none => simp [hc] at h
      | some y =>
        rw [collectTags_mono _ _ _ (fun a _ x hx => ih vis a.2 x hx) y hc]
        simpa [hc] using h

/-- **independence of the fuel**: once the resolver answers, more fuel gives the same answer -/
theorem resolveTypeTag_mono (env : Env) (f f' : Nat) (hff : f ≤ f') (vis : List String) (t : Ty)
    (x : Option Tag) (h : resolveTypeTag env f vis t = some x) :
    resolveTypeTag env f' vis t = some x := by
  obtain ⟨k, rfl⟩ := Nat.exists_eq_add_of_le hff
  induction k with
  | zero => exact h
  | succ k ih => exact resolveTypeTag_succ env (f + k) vis t x (ih (Nat.le_add_right f k))

/-- fuel that certainly suffices for `t` with the stack `vis`: the depth of the type plus, for
    every definition that can still be entered, one more than the deepest definition body -/
def fuelBound (env : Env) (vis : List String) (t : Ty) : Nat :=
  t.depth + unvisited env vis * (envDepth env + 1)

theorem Ty.depth_pos (t : Ty) : 1 ≤ t.depth := by
  cases t <;> simp [Ty.depth] <;> omega

theorem depth_le_altsDepth (alts : List (Option Tag × Ty)) (a : Option Tag × Ty) (h : a ∈ alts) :
    a.2.depth ≤ altsDepth alts := by
  induction alts with
  | nil => cases h
  | cons b rest ih =>
    rcases b with ⟨tg, ty⟩
    simp only [altsDepth]
    rcases List.mem_cons.1 h with rfl | h
    · exact Nat.le_max_left _ _
    · exact Nat.le_trans (ih h) (Nat.le_max_right _ _)

theorem depth_le_envDepth (env : Env) (d : Def) (h : d ∈ env) : d.ty.depth ≤ envDepth env := by
  induction env with
  | nil => cases h
  | cons b rest ih =>
    simp only [envDepth]
    rcases List.mem_cons.1 h with rfl | h
    · exact Nat.le_max_left _ _
    · exact Nat.le_trans (ih h) (Nat.le_max_right _ _)

theorem Env.lookup_some (env : Env) (n : String) (d : Def) (h : env.lookup n = some d) :
    d ∈ env ∧ d.name = n := by
  unfold Env.lookup at h
  exact ⟨List.mem_of_find?_eq_some h, by simpa using List.find?_some h⟩

theorem collectTags_isSome (rec : Ty → Option (Option Tag)) (alts : List (Option Tag × Ty))
    (h : ∀ a ∈ alts, ∃ x, rec a.2 = some x) : ∃ y, collectTags rec alts = some y := by
  induction alts with
  | nil => exact ⟨_, rfl⟩
  | cons a rest ih =>
    obtain ⟨y, hy⟩ := ih (fun b hb => h b (List.mem_cons_of_mem _ hb))
    rcases a with ⟨tg, ty⟩
    cases tg with
    | some t => exact ⟨y.map (t :: ·), by simp [collectTags, hy]⟩
    | none =>
      obtain ⟨x, hx⟩ := h (none, ty) (by simp)
      simp only [] at hx
      cases x with
      | none => exact ⟨none, by simp [collectTags, hx]⟩
      | some t => exact ⟨y.map (t :: ·), by simp [collectTags, hx, hy]⟩

theorem length_filter_le_of_imp {α : Type} (p q : α → Bool) (l : List α)
    (h : ∀ x, q x = true → p x = true) : (l.filter q).length ≤ (l.filter p).length := by
  induction l with
  | nil => simp
  | cons a rest ih =>
    simp only [List.filter_cons]
    cases hq : q a <;> cases hp : p a <;> simp <;> try omega
    have := h a hq
    rw [hp] at this
    cases this

theorem length_filter_lt_of_imp {α : Type} (p q : α → Bool) (l : List α)
    (h : ∀ x, q x = true → p x = true) (x : α) (hx : x ∈ l) (hpx : p x = true)
    (hqx : q x = false) : (l.filter q).length < (l.filter p).length := by
  induction l with
  | nil => cases hx
  | cons a rest ih =>
    have hle := length_filter_le_of_imp p q rest h
    simp only [List.filter_cons]
    rcases List.mem_cons.1 hx with rfl | hx'
    · simp [hpx, hqx]; omega
    · have := ih hx'
      cases hq : q a <;> cases hp : p a <;> simp <;> try omega
      have := h a hq
      rw [hp] at this
      cases this

theorem unvisited_imp (vis : List String) (n : String) (d : Def)
    (h : (!(n :: vis).contains d.name) = true) : (!vis.contains d.name) = true := by
  rw [List.contains_cons] at h
  cases hc : vis.contains d.name with
  | false => rfl
  | true => rw [hc] at h; simp at h

/-- entering a definition takes it (and its namesakes) out of the count -/
theorem unvisited_cons_lt (env : Env) (vis : List String) (n : String) (d : Def)
    (hmem : d ∈ env) (hname : d.name = n) (hv : vis.contains n = false) :
    unvisited env (n :: vis) < unvisited env vis := by
  unfold unvisited
  refine length_filter_lt_of_imp _ _ env (fun x => unvisited_imp vis n x) d hmem ?_ ?_
  · rw [hname, hv]; rfl
  · rw [List.contains_cons, hname]; simp

theorem unvisited_le_length (env : Env) (vis : List String) : unvisited env vis ≤ env.length := by
  unfold unvisited
  exact List.length_filter_le _ _

/-- **totality**, for every module (cyclic or not), every stack and every type, with an explicit
    amount of fuel -/
theorem resolveTypeTag_total (env : Env) :
    ∀ (fuel : Nat) (vis : List String) (t : Ty), fuelBound env vis t ≤ fuel →
      ∃ x, resolveTypeTag env fuel vis t = some x := by
  intro fuel
  induction fuel with
  | zero =>
    intro vis t h
    have := Ty.depth_pos t
    unfold fuelBound at h; omega
  | succ f ih =>
    intro vis t h
    cases t with
    | builtin k => exact ⟨some (defaultTag k), by simp [resolveTypeTag]⟩
    | ref n =>
      simp only [resolveTypeTag]
      by_cases hv : vis.contains n = true
      · exact ⟨none, by rw [if_pos hv]⟩
      · rw [if_neg hv]
        cases hl : env.lookup n with
        | none => exact ⟨_, rfl⟩
        | some d =>
          simp only []
          cases ht : d.tag with
          | some t => exact ⟨_, rfl⟩
          | none =>
            simp only []
            obtain ⟨hmem, hname⟩ := Env.lookup_some env n d hl
            apply ih
            have h1 := depth_le_envDepth env d hmem
            have h2 := unvisited_cons_lt env vis n d hmem hname (by simpa using hv)
            have h3 := Nat.mul_le_mul_right (envDepth env + 1) (Nat.succ_le_of_lt h2)
            simp only [fuelBound, Ty.depth, Nat.succ_eq_add_one, Nat.add_mul, Nat.one_mul] at h h3 ⊢
            omega
    | choice alts e =>
      simp only [resolveTypeTag]
      have : ∃ y, collectTags (resolveTypeTag env f vis) (rootAlts alts e) = some y := by
        apply collectTags_isSome
        intro a ha
        have hmem : a ∈ alts := List.mem_of_mem_take ha
        apply ih
        have h1 := depth_le_altsDepth alts a hmem
        simp only [fuelBound, Ty.depth] at h ⊢
        omega
      obtain ⟨y, hy⟩ := this
      rw [hy]
      cases y with
      | none => exact ⟨_, rfl⟩
      | some ts => exact ⟨_, rfl⟩

/-- the fuel the driver uses suffices: for every module and every type -/
theorem defaultFuel_sufficient (env : Env) (t : Ty) :
    ∃ x, resolveTypeTag env (defaultFuel env t) [] t = some x := by
  apply resolveTypeTag_total env
  have h := Nat.mul_le_mul_right (envDepth env + 1)
    (Nat.le_succ_of_le (unvisited_le_length env []))
  unfold fuelBound defaultFuel
  simp only [Nat.succ_eq_add_one] at h
  omega

/-- a reference back to a name on the stack has no tag -/
theorem resolveTypeTag_visiting (env : Env) (fuel : Nat) (vis : List String) (n : String)
    (h : n ∈ vis) : resolveTypeTag env (fuel + 1) vis (.ref n) = some none := by
  simp [resolveTypeTag, h]

/-! ### the repair changes nothing on acyclic modules -/

/-- the resolver as it was before the repair (no stack): plain recursion, which on a reference
    cycle that is followed never ends (every amount of fuel is exhausted).  Specification side,
    not a mirror of current code. -/
def resolveTypeTagUnrepaired (env : Env) : Nat → Ty → Option (Option Tag)
  | 0, _ => none
  | _ + 1, .builtin k => some (some (defaultTag k))
  | fuel + 1, .ref name =>
    match env.lookup name with
    | none => some none
    | some d =>
      match d.tag with
      | some t => some (some t)
      | none => resolveTypeTagUnrepaired env fuel d.ty
  | fuel + 1, .choice alts extAfter =>
    match collectTags (resolveTypeTagUnrepaired env fuel) (rootAlts alts extAfter) with
    | none => none
    | some none => some none
    | some (some ts) => some (minTag ts)

mutual
/-- the largest `rank + 1` of a reference in the type; 0 when there is none -/
def Ty.refRank (r : String → Nat) : Ty → Nat
  | .builtin _ => 0
  | .ref n => r n + 1
  | .choice alts _ => altsRefRank r alts
def altsRefRank (r : String → Nat) : List (Option Tag × Ty) → Nat
  | [] => 0
  | (_, t) :: rest => max (t.refRank r) (altsRefRank r rest)
end

/-- **acyclic module**: some rank function decreases along every reference of every definition
    (`r m < r d.name` for every `m` referenced in the body of `d`) -/
def Acyclic (env : Env) (r : String → Nat) : Prop := ∀ d ∈ env, d.ty.refRank r ≤ r d.name

theorem refRank_le_altsRefRank (r : String → Nat) (alts : List (Option Tag × Ty))
    (a : Option Tag × Ty) (h : a ∈ alts) : a.2.refRank r ≤ altsRefRank r alts := by
  induction alts with
  | nil => cases h
  | cons b rest ih =>
    rcases b with ⟨tg, ty⟩
    simp only [altsRefRank]
    rcases List.mem_cons.1 h with rfl | h
    · exact Nat.le_max_left _ _
    · exact Nat.le_trans (ih h) (Nat.le_max_right _ _)

theorem collectTags_congr (r1 r2 : Ty → Option (Option Tag)) (alts : List (Option Tag × Ty))
    (h : ∀ a ∈ alts, r1 a.2 = r2 a.2) : collectTags r1 alts = collectTags r2 alts := by
  induction alts with
  | nil => rfl
  | cons a rest ih =>
    have ih' := ih (fun b hb => h b (List.mem_cons_of_mem _ hb))
    rcases a with ⟨tg, ty⟩
    cases tg with
    | some t => simp only [collectTags, ih']
    | none =>
      have h1 : r1 ty = r2 ty := h (none, ty) (by simp)
      simp only [collectTags, h1, ih']

/-- on an acyclic module the stack is never hit: as long as every name on the stack ranks above
    every reference of the type, the repaired resolver computes, with the same fuel, exactly what
    the resolver without a stack computed -/
theorem resolveTypeTag_eq_unrepaired (env : Env) (r : String → Nat) (hac : Acyclic env r) :
    ∀ (fuel : Nat) (vis : List String) (t : Ty), (∀ n ∈ vis, t.refRank r ≤ r n) →
      resolveTypeTag env fuel vis t = resolveTypeTagUnrepaired env fuel t := by
  intro fuel
  induction fuel with
  | zero => intro vis t _; rfl
  | succ f ih =>
    intro vis t hv
    cases t with
    | builtin k => rfl
    | ref m =>
      have hm : vis.contains m = false := by
        cases hc : vis.contains m with
        | false => rfl
        | true =>
          have hmem : m ∈ vis := by simpa using hc
          have := hv m hmem
          simp only [Ty.refRank] at this
          omega
      simp only [resolveTypeTag, resolveTypeTagUnrepaired, hm]
      cases hl : env.lookup m with
      | none => rfl
      | some d =>
        simp only []
        cases ht : d.tag with
        | some t => rfl
        | none =>
          simp only []
          obtain ⟨hmem, hname⟩ := Env.lookup_some env m d hl
          apply ih
          intro n hn
          have h2 : d.ty.refRank r ≤ r m := hname ▸ hac d hmem
          rcases List.mem_cons.1 hn with rfl | hn'
          · exact h2
          · have := hv n hn'
            simp only [Ty.refRank] at this
            omega
    | choice alts e =>
      simp only [resolveTypeTag, resolveTypeTagUnrepaired]
      have hc : collectTags (resolveTypeTag env f vis) (rootAlts alts e) =
          collectTags (resolveTypeTagUnrepaired env f) (rootAlts alts e) := by
        apply collectTags_congr
        intro a ha
        have hmem : a ∈ alts := List.mem_of_mem_take ha
        apply ih
        intro n hn
        have h1 := refRank_le_altsRefRank r alts a hmem
        have := hv n hn
        simp only [Ty.refRank] at this
        omega
      rw [hc]
      cases collectTags (resolveTypeTagUnrepaired env f) (rootAlts alts e) with
      | none => rfl
      | some y => cases y <;> rfl

/-! ### the walker never panics on what stage 1 + the attribute parser let through -/

/-- every field has a type tag (`RustType::tag()` is `Some`) -/
def AllTypeTagged (l : List RField) : Prop := ∀ f ∈ l, f.typeTag.isSome = true

theorem tagConst_ok (f : RField) (h : f.typeTag.isSome = true) : ∃ t, tagConst f = .ok t := by
  unfold tagConst
  cases f.presence <;> simp only []
  case default =>
    cases hft : f.tag with
    | some t => exact ⟨t, by simp⟩
    | none =>
      cases hk : f.kind with
      | builtin k => exact ⟨defaultTag k, by simp [RField.innerTag, hk]⟩
      | complex =>
        cases htt : f.typeTag with
        | none => simp [htt] at h
        | some t => exact ⟨t, by simp [RField.innerTag, hk, htt]⟩
  all_goals
    cases f.kind with
    | builtin k => exact ⟨_, rfl⟩
    | complex =>
      simp only []
      cases hft : f.tag with
      | some t => exact ⟨t, by simp⟩
      | none =>
        cases htt : f.typeTag with
        | none => simp [htt] at h
        | some t => exact ⟨t, by simp⟩

theorem tagConsts_ok (l : List RField) (h : AllTypeTagged l) :
    ∃ r, tagConsts l = .ok r ∧ r.map (·.1) = l.map (·.name) := by
  induction l with
  | nil => exact ⟨[], rfl, rfl⟩
  | cons f rest ih =>
    obtain ⟨t, ht⟩ := tagConst_ok f (h f (by simp))
    obtain ⟨r, hr, hn⟩ := ih (fun g hg => h g (List.mem_cons_of_mem _ hg))
    exact ⟨(f.name, t) :: r, by simp [tagConsts, ht, hr], by simp [hn]⟩

theorem allTypeTagged_assignImplicitTags (l : List RField) (h : AllTypeTagged l) :
    AllTypeTagged (assignImplicitTags l) := by
  unfold assignImplicitTags
  split
  · exact h
  · intro f hf
    obtain ⟨x, hx, rfl⟩ := List.mem_map.1 hf
    exact h x.1 (List.fst_mem_of_mem_zipIdx hx)

theorem sortFieldsCanonically_ok (l : List RField) (e : Option Nat) (h : AllTypeTagged l) :
    sortFieldsCanonically l e = .ok ((sortKeyed l e).map (·.2)) := by
  unfold sortFieldsCanonically
  have : (prepare l e).any (fun p => p.2.tag.isNone) = false := by
    rw [List.any_eq_false]
    intro p hp
    obtain ⟨x, hx, rfl⟩ := List.mem_map.1 hp
    have := h x.1 (List.fst_mem_of_mem_zipIdx hx)
    cases htt : x.1.typeTag with
    | none => simp [htt] at this
    | some t => cases x.1.tag <;> simp [htt]
  simp [this]

/-- a field without any tag makes `sort_fields_canonically` panic (unreachable through the
    two-stage pipeline, see `emit_ne_panic`) -/
theorem sortFieldsCanonically_panic (l : List RField) (e : Option Nat) (f : RField) (hf : f ∈ l)
    (h1 : f.tag = none) (h2 : f.typeTag = none) : sortFieldsCanonically l e = .panic := by
  unfold sortFieldsCanonically
  have : (prepare l e).any (fun p => p.2.tag.isNone) = true := by
    rw [List.any_eq_true]
    obtain ⟨i, hi, rfl⟩ := List.getElem_of_mem hf
    refine ⟨(extendedFlag e i, { l[i] with tag := l[i].tag.orElse fun _ => l[i].typeTag }), ?_, ?_⟩
    · refine List.mem_map.2 ⟨(l[i], i), ?_, rfl⟩
      rw [List.mk_mem_zipIdx_iff_getElem?]; simp [hi]
    · simp [h1, h2]
  simp [this]

theorem map_name_prepare (l : List RField) (e : Option Nat) :
    (prepare l e).map (·.2.name) = l.map (·.name) := by
  unfold prepare
  rw [List.map_map]
  have : ((fun p : Bool × RField => p.2.name) ∘ fun (x : RField × Nat) =>
      (extendedFlag e x.2, ({ x.1 with tag := x.1.tag.orElse fun _ => x.1.typeTag } : RField)))
      = (fun f : RField => f.name) ∘ Prod.fst := by
    funext x; rfl
  rw [this, ← List.map_map, List.zipIdx_map_fst]

/-- what `write_constraints` produces when every field has a type tag -/
theorem writeConstraints_ok (o : EncodingOrdering) (l : List RField) (e : Option Nat)
    (h : AllTypeTagged l) :
    ∃ em, writeConstraints o l e = .ok em ∧ em.extAfter = e ∧
      em.order = (match o with
        | .keep => (assignImplicitTags l).map (·.name)
        | .sort => (sortKeyed (assignImplicitTags l) e).map (·.2.name)) := by
  have h' := allTypeTagged_assignImplicitTags l h
  obtain ⟨r, hr, _⟩ := tagConsts_ok _ h'
  cases o with
  | keep =>
    refine ⟨{ order := (assignImplicitTags l).map (·.name), tags := r, extAfter := e,
              ownTag := ownDefaultTag .keep }, ?_, rfl, rfl⟩
    simp [writeConstraints, hr, emitOrder]
  | sort =>
    refine ⟨{ order := (sortKeyed (assignImplicitTags l) e).map (·.2.name), tags := r,
              extAfter := e, ownTag := ownDefaultTag .sort }, ?_, rfl, rfl⟩
    simp [writeConstraints, hr, emitOrder, sortFieldsCanonically_ok _ e h', List.map_map,
      Function.comp_def]

/-! ### stage 1 -/

theorem allSome_spec {α : Type} (l : List (Option α)) (r : List α) (h : allSome l = some r) :
    l = r.map some := by
  induction l generalizing r with
  | nil => simp [allSome] at h; simp [← h]
  | cons a rest ih =>
    cases a with
    | none => simp [allSome] at h
    | some a =>
      simp only [allSome, Option.map_eq_some_iff] at h
      obtain ⟨r', hr', rfl⟩ := h
      simp [ih r' hr']

theorem map_some_inj {α : Type} : ∀ (l1 l2 : List α), l1.map some = l2.map some → l1 = l2
  | [], [], _ => rfl
  | [], _ :: _, h => by simp at h
  | _ :: _, [], h => by simp at h
  | a :: l1, b :: l2, h => by
    simp only [List.map_cons, List.cons.injEq, Option.some.injEq] at h
    rw [h.1, map_some_inj l1 l2 h.2]

/-- plain Rust types always have a tag; only `Complex` can lack one -/
theorem rustTypeTag_of_not_complex (env : Env) (fuel : Nat) (f : Field) (tt : Option Tag)
    (h : rustTypeTag env fuel f = some tt) (hk : rkindOf f.ty ≠ .complex) : tt.isSome = true := by
  unfold rustTypeTag at h
  cases hty : f.ty with
  | builtin k => simp only [hty, Option.some.injEq] at h; rw [← h]; rfl
  | ref n => simp [hty, rkindOf] at hk
  | choice alts e => simp [hty, rkindOf] at hk

theorem toRField_spec (env : Env) (fuel : Nat) (f : Field) (rf : RField)
    (h : toRField env fuel f = some rf) :
    rf.name = f.name ∧ rf.tag = f.tag ∧ rf.kind = rkindOf f.ty ∧ rf.presence = f.presence ∧
      rustTypeTag env fuel f = some rf.typeTag := by
  unfold toRField at h
  simp only [Option.map_eq_some_iff] at h
  obtain ⟨tt, htt, rfl⟩ := h
  exact ⟨rfl, rfl, rfl, rfl, htt⟩

/-- stage 1 finds the type tag of every component (`Some` or `None`): the resolver returns -/
theorem rustTypeTag_isSome (env : Env) (f : Field) :
    ∃ tt, rustTypeTag env (defaultFuel env f.ty) f = some tt := by
  unfold rustTypeTag
  cases f.ty with
  | builtin k => exact ⟨_, rfl⟩
  | ref n => exact defaultFuel_sufficient env (.ref n)
  | choice alts e =>
    cases f.tag with
    | some t => exact ⟨_, rfl⟩
    | none => exact defaultFuel_sufficient env (.choice alts e)

theorem allSome_isSome {α : Type} (l : List (Option α)) (h : ∀ x ∈ l, ∃ a, x = some a) :
    ∃ r, allSome l = some r := by
  induction l with
  | nil => exact ⟨[], rfl⟩
  | cons x rest ih =>
    obtain ⟨a, rfl⟩ := h x (by simp)
    obtain ⟨r, hr⟩ := ih (fun y hy => h y (List.mem_cons_of_mem _ hy))
    exact ⟨a :: r, by simp [allSome, hr]⟩

/-- **stage 1 always terminates**: the pipeline answers for every module, cyclic or not -/
theorem emit_isSome (env : Env) (o : EncodingOrdering) (c : Components) :
    ∃ r, emit env o c = some r := by
  unfold emit
  have : ∃ rf, allSome (c.fields.map fun f => toRField env (defaultFuel env f.ty) f) = some rf := by
    apply allSome_isSome
    intro x hx
    obtain ⟨f, _, rfl⟩ := List.mem_map.1 hx
    obtain ⟨tt, htt⟩ := rustTypeTag_isSome env f
    exact ⟨{ name := f.name, tag := f.tag, typeTag := tt, kind := rkindOf f.ty,
             presence := f.presence }, by simp [toRField, htt]⟩
  obtain ⟨rf, hrf⟩ := this
  rw [hrf]
  simp only []
  split
  · exact ⟨_, rfl⟩
  · split <;> exact ⟨_, rfl⟩

/-- **the real pipeline never panics**, except on an extension marker in an empty component list -/
theorem emit_ne_panic (env : Env) (o : EncodingOrdering) (c : Components)
    (h : c.fields ≠ [] ∨ c.markers = []) : emit env o c ≠ some .panic := by
  unfold emit
  cases hrf : allSome (c.fields.map fun f => toRField env (defaultFuel env f.ty) f) with
  | none => simp
  | some rfields =>
    simp only []
    have hmap := allSome_spec _ _ hrf
    have hlen : rfields.length = c.fields.length := by
      have := congrArg List.length hmap; simpa using this.symm
    by_cases h2 : ((extensionAfter c.markers).isSome && rfields.isEmpty) = true
    · exfalso
      simp only [Bool.and_eq_true, List.isEmpty_iff] at h2
      rcases h with h | h
      · have : c.fields.length = 0 := by rw [← hlen, h2.2]; rfl
        exact h (List.eq_nil_of_length_eq_zero this)
      · rw [h] at h2; simp [extensionAfter] at h2
    · rw [if_neg h2]
      by_cases h3 : (rfields.any fun f => f.kind == .complex && f.typeTag.isNone) = true
      · simp [h3]
      · rw [if_neg h3]
        have hall : AllTypeTagged rfields := by
          intro rf hrfm
          obtain ⟨i, hi, rfl⟩ := List.getElem_of_mem hrfm
          have hi' : i < c.fields.length := hlen ▸ hi
          have hget : toRField env (defaultFuel env c.fields[i].ty) c.fields[i]
              = some rfields[i] := by
            have := congrArg (fun l => l[i]?) hmap
            simpa [hi, hi'] using this
          obtain ⟨_, _, hk, _, htt⟩ := toRField_spec _ _ _ _ hget
          by_cases hkc : rfields[i].kind = .complex
          · have h3' : ∀ x ∈ rfields, x.kind = .complex → ¬ x.typeTag = none := by
              simpa using h3
            have := h3' rfields[i] (List.getElem_mem hi) hkc
            cases htg : rfields[i].typeTag with
            | none => exact absurd htg this
            | some t => rfl
          · exact rustTypeTag_of_not_complex _ _ _ _ htt (by rw [← hk]; exact hkc)
        obtain ⟨em, hem, _⟩ := writeConstraints_ok o rfields (extensionAfter c.markers) hall
        simp [hem]

/-- what a successful run of the pipeline went through -/
theorem emit_ok (env : Env) (o : EncodingOrdering) (c : Components) (em : Emitted)
    (h : emit env o c = some (.ok em)) :
    ∃ rfields, (c.fields.map fun f => toRField env (defaultFuel env f.ty) f) = rfields.map some ∧
      AllTypeTagged rfields ∧
      writeConstraints o rfields (extensionAfter c.markers) = .ok em := by
  unfold emit at h
  cases hrf : allSome (c.fields.map fun f => toRField env (defaultFuel env f.ty) f) with
  | none => simp [hrf] at h
  | some rfields =>
    simp only [hrf] at h
    have hmap := allSome_spec _ _ hrf
    have hlen : rfields.length = c.fields.length := by
      have := congrArg List.length hmap; simpa using this.symm
    by_cases h2 : ((extensionAfter c.markers).isSome && rfields.isEmpty) = true
    · simp [h2] at h
    · rw [if_neg h2] at h
      by_cases h3 : (rfields.any fun f => f.kind == .complex && f.typeTag.isNone) = true
      · simp [h3] at h
      · rw [if_neg h3] at h
        refine ⟨rfields, hmap, ?_, by simpa using h⟩
        intro rf hrfm
        obtain ⟨i, hi, rfl⟩ := List.getElem_of_mem hrfm
        have hi' : i < c.fields.length := hlen ▸ hi
        have hget : toRField env (defaultFuel env c.fields[i].ty) c.fields[i]
            = some rfields[i] := by
          have := congrArg (fun l => l[i]?) hmap
          simpa [hi, hi'] using this
        obtain ⟨_, _, hk, _, htt⟩ := toRField_spec _ _ _ _ hget
        by_cases hkc : rfields[i].kind = .complex
        · have h3' : ∀ x ∈ rfields, x.kind = .complex → ¬ x.typeTag = none := by
            simpa using h3
          have := h3' rfields[i] (List.getElem_mem hi) hkc
          cases htg : rfields[i].typeTag with
          | none => exact absurd htg this
          | some t => rfl
        · exact rustTypeTag_of_not_complex _ _ _ _ htt (by rw [← hk]; exact hkc)

/-- with at most one marker that is not in front of the first component, the flag the generator
    sorts by is the is-extension flag of the text -/
theorem extendedFlag_eq_isExtension (c : Components) (hm : c.markers.length ≤ 1)
    (h0 : 0 ∉ c.markers) (i : Nat) :
    extendedFlag (extensionAfter c.markers) i = c.isExtension i := by
  unfold Components.isExtension
  match hmk : c.markers, hm, h0 with
  | [], _, _ => simp [extensionAfter, extendedFlag]
  | [p], _, h0 =>
    have hp : p ≠ 0 := by intro hp; subst hp; simp at h0
    simp only [extensionAfter, List.foldl, extendedFlag, decide_eq_decide]
    omega
  | _ :: _ :: _, hm, _ => simp at hm

/-- stage 1 keeps the component names -/
theorem map_name_rfields (env : Env) (c : Components) (rfields : List RField)
    (hmap : (c.fields.map fun f => toRField env (defaultFuel env f.ty) f) = rfields.map some) :
    rfields.map (·.name) = c.fields.map (·.name) := by
  have hlen : rfields.length = c.fields.length := by
    have := congrArg List.length hmap; simpa using this.symm
  apply List.ext_getElem
  · simp [hlen]
  · intro i h1 h2
    have hi : i < c.fields.length := by simpa using h2
    have hi' : i < rfields.length := hlen ▸ hi
    have hget : toRField env (defaultFuel env c.fields[i].ty) c.fields[i] = some rfields[i] := by
      have := congrArg (fun l => l[i]?) hmap
      simpa [hi, hi'] using this
    simp [(toRField_spec _ _ _ _ hget).1]

/-- `EXTENDED_AFTER_FIELD` is the `extension_after` index the walker was handed: the sort does not
    touch it -/
theorem writeConstraints_extAfter (o : EncodingOrdering) (l : List RField) (e : Option Nat)
    (em : Emitted) (h : writeConstraints o l e = .ok em) : em.extAfter = e := by
  unfold writeConstraints at h
  cases h1 : tagConsts (assignImplicitTags l) with
  | ok r =>
    cases h2 : emitOrder o (assignImplicitTags l) e with
    | ok ord => simp [h1, h2] at h; rw [← h]
    | err k => simp [h1, h2] at h
    | panic => simp [h1, h2] at h
  | err k => simp [h1] at h
  | panic => simp [h1] at h

/-- the type's own `TAG` (the type under test carries no tag of its own) -/
theorem writeConstraints_ownTag (o : EncodingOrdering) (l : List RField) (e : Option Nat)
    (em : Emitted) (h : writeConstraints o l e = .ok em) : em.ownTag = ownDefaultTag o := by
  unfold writeConstraints at h
  cases h1 : tagConsts (assignImplicitTags l) with
  | ok r =>
    cases h2 : emitOrder o (assignImplicitTags l) e with
    | ok ord => simp [h1, h2] at h; rw [← h]
    | err k => simp [h1, h2] at h
    | panic => simp [h1, h2] at h
  | err k => simp [h1] at h
  | panic => simp [h1] at h

/-- what a successful `write_constraints` of a SET went through -/
theorem writeConstraints_sort_inv (l : List RField) (e : Option Nat) (em : Emitted)
    (h : writeConstraints .sort l e = .ok em) :
    ∃ out, sortFieldsCanonically (assignImplicitTags l) e = .ok out ∧
      em.order = out.map (·.name) := by
  unfold writeConstraints at h
  cases h1 : tagConsts (assignImplicitTags l) with
  | ok r =>
    cases h2 : emitOrder .sort (assignImplicitTags l) e with
    | ok ord =>
      refine ⟨ord, h2, ?_⟩
      simp [h1, h2] at h; rw [← h]
    | err k => simp [h1, h2] at h
    | panic => simp [h1, h2] at h
  | err k => simp [h1] at h
  | panic => simp [h1] at h

theorem noneTagged_append (l₁ l₂ : List RField) :
    NoneTagged (l₁ ++ l₂) ↔ NoneTagged l₁ ∧ NoneTagged l₂ := by
  unfold NoneTagged
  simp only [List.mem_append]
  exact ⟨fun h => ⟨fun f hf => h f (Or.inl hf), fun f hf => h f (Or.inr hf)⟩,
    fun h f hf => hf.elim (h.1 f) (h.2 f)⟩

/-- **the descriptor of a SET version that appends extension additions** (marker behind component
    `k` of the old list; the tagging mode stays: a list that is tagged automatically gets untagged
    additions only) is the old descriptor followed by the new additions, with the same
    `EXTENDED_AFTER_FIELD` — the order of the `read_value`/`write_value` calls for everything the
    old version knows is unchanged -/
theorem writeConstraints_sort_append (fields adds : List RField) (k : Nat) (hk : k < fields.length)
    (hn : NoneTagged fields → NoneTagged adds) (em1 em2 : Emitted)
    (h1 : writeConstraints .sort fields (some k) = .ok em1)
    (h2 : writeConstraints .sort (fields ++ adds) (some k) = .ok em2) :
    em2.order = em1.order ++ adds.map (·.name) ∧ em2.extAfter = em1.extAfter := by
  refine ⟨?_, by rw [writeConstraints_extAfter _ _ _ _ h1, writeConstraints_extAfter _ _ _ _ h2]⟩
  obtain ⟨out1, hs1, ho1⟩ := writeConstraints_sort_inv _ _ _ h1
  obtain ⟨out2, hs2, ho2⟩ := writeConstraints_sort_inv _ _ _ h2
  by_cases hnt : NoneTagged fields
  · have hnt2 : NoneTagged (fields ++ adds) := (noneTagged_append _ _).2 ⟨hnt, hn hnt⟩
    rw [sort_assignImplicitTags_of_noneTagged fields _ hnt] at hs1
    rw [sort_assignImplicitTags_of_noneTagged _ _ hnt2] at hs2
    cases hs1; cases hs2
    rw [ho1, ho2, map_name_assignImplicitTags, map_name_assignImplicitTags, List.map_append]
  · have hnt2 : ¬ NoneTagged (fields ++ adds) := fun h => hnt ((noneTagged_append _ _).1 h).1
    rw [assignImplicitTags_of_tagged fields hnt] at hs1
    rw [assignImplicitTags_of_tagged _ hnt2] at hs2
    have ha : ∀ f ∈ adds, (f.tag.orElse fun _ => f.typeTag).isSome = true := by
      intro f hf
      unfold sortFieldsCanonically at hs2
      rw [any_untagged_prepare] at hs2
      split at hs2
      · cases hs2
      · rename_i hany
        have hany' : (fields ++ adds).any
            (fun f => (f.tag.orElse fun _ => f.typeTag).isNone) = false := by
          cases hb : (fields ++ adds).any (fun f => (f.tag.orElse fun _ => f.typeTag).isNone) with
          | false => rfl
          | true => exact absurd hb hany
        have := List.any_eq_false.1 hany' f (List.mem_append_right _ hf)
        cases hx : (f.tag.orElse fun _ => f.typeTag) with
        | none => rw [hx] at this; simp at this
        | some t => rfl
    rw [sortFieldsCanonically_append fields adds k hk out1 hs1 ha] at hs2
    cases hs2
    rw [ho1, ho2, List.map_append, List.map_map]
    rfl

/-- SEQUENCE through the whole pipeline: textual order -/
theorem emit_keep_order (env : Env) (c : Components) (em : Emitted)
    (h : emit env .keep c = some (.ok em)) : em.order = c.fields.map (·.name) := by
  obtain ⟨rfields, hmap, hall, hw⟩ := emit_ok env .keep c em h
  obtain ⟨em', hem', _, hord⟩ := writeConstraints_ok .keep rfields (extensionAfter c.markers) hall
  rw [hw] at hem'
  cases hem'
  rw [hord]
  simp only [map_name_assignImplicitTags]
  exact map_name_rfields env c rfields hmap

/-- the descriptor's `EXTENDED_AFTER_FIELD` through the whole pipeline -/
theorem emit_extAfter (env : Env) (o : EncodingOrdering) (c : Components) (em : Emitted)
    (h : emit env o c = some (.ok em)) : em.extAfter = extensionAfter c.markers := by
  obtain ⟨rfields, _, _, hw⟩ := emit_ok env o c em h
  exact writeConstraints_extAfter o rfields _ em hw

/-- whatever is emitted is a permutation of the declared components -/
theorem emit_order_perm (env : Env) (o : EncodingOrdering) (c : Components) (em : Emitted)
    (h : emit env o c = some (.ok em)) : em.order.Perm (c.fields.map (·.name)) := by
  cases o with
  | keep => rw [emit_keep_order env c em h]
  | sort =>
    have hseq : ∃ em', emit env .keep c = some (.ok em') := by
      obtain ⟨rfields, hmap, hall, _⟩ := emit_ok env .sort c em h
      obtain ⟨em', hem', _⟩ := writeConstraints_ok .keep rfields (extensionAfter c.markers) hall
      refine ⟨em', ?_⟩
      unfold emit at h ⊢
      cases hrf : allSome (c.fields.map fun f => toRField env (defaultFuel env f.ty) f) with
      | none => simp [hrf] at h
      | some rf' =>
        have e1 := allSome_spec _ _ hrf
        have : rf' = rfields := map_some_inj _ _ (e1.symm.trans hmap)
        subst this
        simp only [hrf] at h ⊢
        by_cases h2 : ((extensionAfter c.markers).isSome && rf'.isEmpty) = true
        · simp [h2] at h
        · rw [if_neg h2] at h ⊢
          by_cases h3 : (rf'.any fun f => f.kind == .complex && f.typeTag.isNone) = true
          · simp [h3] at h
          · rw [if_neg h3]; rw [hem']
    obtain ⟨em', hem'⟩ := hseq
    have hk := emit_keep_order env c em' hem'
    obtain ⟨rfields, hmap, hall, hw⟩ := emit_ok env .sort c em h
    obtain ⟨rfields', hmap', hall', hw'⟩ := emit_ok env .keep c em' hem'
    have : rfields' = rfields := map_some_inj _ _ (hmap'.symm.trans hmap)
    subst this
    obtain ⟨e1, he1, _, ho1⟩ := writeConstraints_ok .sort rfields' (extensionAfter c.markers) hall
    obtain ⟨e2, he2, _, ho2⟩ := writeConstraints_ok .keep rfields' (extensionAfter c.markers) hall
    rw [hw] at he1; cases he1
    rw [hw'] at he2; cases he2
    rw [← hk, ho1, ho2]
    have := (sortKeyed_perm (assignImplicitTags rfields') (extensionAfter c.markers)).map
      (·.2.name)
    rwa [map_name_prepare] at this

/-! ### X.680 reference semantics (specification side, not a mirror) -/

/-- universal tag numbers of X.680 8.4, table 1 (and 41, table 8 for the string types) -/
def x680Universal : Builtin → Nat
  | .boolean => 1 | .integer => 2 | .bitString => 3 | .octetString => 4 | .null => 5
  | .enumerated => 10 | .utf8String => 12 | .sequence => 16 | .sequenceOf => 16
  | .set => 17 | .setOf => 17 | .numericString => 18 | .printableString => 19
  | .ia5String => 22 | .visibleString => 26

/-- the tag X.680 gives an untagged type, automatic tagging included: an untagged CHOICE none of
    whose alternatives carries a tag has its alternatives tagged `[0] [1] …` (X.680 29.2 with
    25.7), so the smallest tag of its root is `[0]`; otherwise the smallest root-alternative tag
    (X.691 20.1 orders an untagged CHOICE component by it).  A type whose tag would have to be
    known to determine itself (`A ::= B`, `B ::= A`; `R ::= CHOICE { x [3] INTEGER, y R }`) has no
    tag in X.680 (it is not legal ASN.1: no finite value, resp. alternatives without distinct
    tags); here the recursion runs out of fuel and `specTag` reads that as "no tag" (`.join`),
    which is also what the repaired resolver answers. -/
def specTypeTag (env : Env) : Nat → Ty → Option (Option Tag)
  | 0, _ => none
  | _ + 1, .builtin k => some (some (Tag.universal (x680Universal k)))
  | fuel + 1, .ref name =>
    match env.lookup name with
    | none => some none
    | some d =>
      match d.tag with
      | some t => some (some t)
      | none => specTypeTag env fuel d.ty
  | fuel + 1, .choice alts e =>
    if alts.all (fun a => a.1.isNone) then
      some (if (rootAlts alts e).isEmpty then none else some (Tag.contextSpecific 0))
    else
      match collectTags (specTypeTag env fuel) (rootAlts alts e) with
      | none => none
      | some none => some none
      | some (some ts) => some (minTag ts)

/-- automatic tagging applies to the list -/
def specAuto (c : Components) : Bool := c.fields.all (fun f => f.tag.isNone)

/-- the tag of component `i`: explicit tag; else the automatic tag (root components first, then
    the additions — the textual index when there is at most one marker); else the type's tag -/
def specTag (env : Env) (c : Components) (f : Field) (i : Nat) : Option Tag :=
  match f.tag with
  | some t => some t
  | none =>
    if specAuto c then some (Tag.contextSpecific i)
    else (specTypeTag env (defaultFuel env f.ty) f.ty).join

/-- (is extension addition, tag, name) per component, textual order -/
def specKeyed (env : Env) (c : Components) : List (Bool × Option Tag × String) :=
  c.fields.zipIdx.map fun (f, i) => (c.isExtension i, specTag env c f i, f.name)

/-- two root components: canonical tag order of X.680 8.6 -/
def specTagLe (a b : Bool × Option Tag × String) : Bool := optTagLe a.2.1 b.2.1

/-- **the wire order X.691 21.1 prescribes for a SET**: the root components sorted into the
    canonical order of X.680 8.6 (ties — illegal in a SET — keep the textual order), followed by
    the extension additions "in the order in which they are defined" (as in a SEQUENCE, 19.8) -/
def specOrder (env : Env) (c : Components) : List String :=
  (((specKeyed env c).filter (fun k => !k.1)).mergeSort specTagLe ++
    (specKeyed env c).filter (fun k => k.1)).map (·.2.2)

/-- the generator's type tag agrees with X.680's for the untagged components of a list that is
    not automatically tagged (decidable; fails exactly where an automatically tagged CHOICE
    decides the position) -/
def TagsAgree (env : Env) (c : Components) : Prop :=
  specAuto c = false → ∀ f ∈ c.fields, f.tag = none →
    (rustTypeTag env (defaultFuel env f.ty) f).join =
      (specTypeTag env (defaultFuel env f.ty) f.ty).join

instance (env : Env) (c : Components) : Decidable (TagsAgree env c) := by
  unfold TagsAgree; infer_instance

theorem keyed_eq_specKeyed (env : Env) (c : Components) (rfields : List RField)
    (hm : c.markers.length ≤ 1) (h0 : 0 ∉ c.markers) (ht : TagsAgree env c)
    (hmap : (c.fields.map fun f => toRField env (defaultFuel env f.ty) f) = rfields.map some) :
    (prepare (assignImplicitTags rfields) (extensionAfter c.markers)).map
      (fun p => (p.1, p.2.tag, p.2.name)) = specKeyed env c := by
  have hlen : rfields.length = c.fields.length := by
    have := congrArg List.length hmap; simpa using this.symm
  have hget : ∀ i (h1 : i < c.fields.length) (h2 : i < rfields.length),
      toRField env (defaultFuel env c.fields[i].ty) c.fields[i] = some rfields[i] := by
    intro i h1 h2
    have := congrArg (fun l => l[i]?) hmap
    simpa [h1, h2] using this
  -- the two notions of "nothing is tagged" coincide
  have hauto : NoneTagged rfields ↔ specAuto c = true := by
    unfold NoneTagged specAuto
    rw [List.all_eq_true]
    constructor
    · intro h f hf
      obtain ⟨i, hi, rfl⟩ := List.getElem_of_mem hf
      have := (toRField_spec _ _ _ _ (hget i hi (hlen ▸ hi))).2.1
      rw [← this, h _ (List.getElem_mem _)]; rfl
    · intro h rf hrf
      obtain ⟨i, hi, rfl⟩ := List.getElem_of_mem hrf
      have := (toRField_spec _ _ _ _ (hget i (hlen ▸ hi) hi)).2.1
      rw [this]
      have := h _ (List.getElem_mem (hlen ▸ hi))
      cases htg : c.fields[i].tag with
      | none => rfl
      | some t => simp [htg] at this
  apply List.ext_getElem
  · simp [specKeyed, length_prepare, length_assignImplicitTags, hlen]
  · intro i h1 h2
    have hi : i < c.fields.length := by simpa [specKeyed] using h2
    have hi' : i < rfields.length := hlen ▸ hi
    obtain ⟨hname, htag, _, _, htt⟩ := toRField_spec _ _ _ _ (hget i hi hi')
    have hia : i < (assignImplicitTags rfields).length := by
      rw [length_assignImplicitTags]; exact hi'
    have hL : ((prepare (assignImplicitTags rfields) (extensionAfter c.markers)).map
        (fun p => (p.1, p.2.tag, p.2.name)))[i] =
        (extendedFlag (extensionAfter c.markers) i,
         (assignImplicitTags rfields)[i].tag.orElse fun _ => (assignImplicitTags rfields)[i].typeTag,
         (assignImplicitTags rfields)[i].name) := by
      simp [prepare]
    have hR : (specKeyed env c)[i] =
        (c.isExtension i, specTag env c c.fields[i] i, c.fields[i].name) := by
      simp [specKeyed]
    rw [hL, hR, extendedFlag_eq_isExtension c hm h0 i]
    by_cases hn : NoneTagged rfields
    · have hsa := hauto.1 hn
      have hai : (assignImplicitTags rfields)[i] =
          { rfields[i] with tag := some (Tag.contextSpecific i) } := by
        simp [assignImplicitTags_of_noneTagged rfields hn]
      have hft : c.fields[i].tag = none := by rw [← htag]; exact hn _ (List.getElem_mem _)
      simp [hai, specTag, hft, hsa, hname]
    · have hsa : specAuto c = false := by
        cases hs : specAuto c with
        | false => rfl
        | true => exact absurd (hauto.2 hs) hn
      have hai : (assignImplicitTags rfields)[i] = rfields[i] := by
        simp [assignImplicitTags_of_tagged rfields hn]
      rw [hai, hname, htag]
      cases hft : c.fields[i].tag with
      | some t => simp [specTag, hft]
      | none =>
        have := ht hsa c.fields[i] (List.getElem_mem _) hft
        rw [htt] at this
        have h' : rfields[i].typeTag =
            (specTypeTag env (defaultFuel env c.fields[i].ty) c.fields[i].ty).join := by
          simpa [Option.join] using this
        simp [specTag, hft, hsa, h']

/-- a marker in front of the first component (`extension_after = Some(0)`): one "root" component,
    nothing to sort — the list stays as written -/
theorem sortKeyed_marker_first (fields : List RField) :
    sortKeyed fields (some 0) = prepare fields (some 0) := by
  rw [sortKeyed_eq]
  have hlen : ((prepare fields (some 0)).take (rootCount (some 0) fields.length)).length ≤ 1 := by
    rw [List.length_take]; simp only [rootCount]; omega
  have : ((prepare fields (some 0)).take (rootCount (some 0) fields.length)).mergeSort keyLe =
      (prepare fields (some 0)).take (rootCount (some 0) fields.length) := by
    apply List.mergeSort_of_pairwise
    match hK : (prepare fields (some 0)).take (rootCount (some 0) fields.length), hlen with
    | [], _ => exact List.Pairwise.nil
    | [x], _ => exact List.pairwise_singleton _ _
    | _ :: _ :: _, hl => simp at hl
  rw [this, List.take_append_drop]

/-- … which is what X.691 demands when every component is an extension addition -/
theorem specOrder_marker_first (env : Env) (c : Components) (hmk : c.markers = [0]) :
    specOrder env c = c.fields.map (·.name) := by
  have hall : ∀ k ∈ specKeyed env c, k.1 = true := by
    intro k hk
    obtain ⟨x, _, rfl⟩ := List.mem_map.1 hk
    simp [Components.isExtension, hmk]
  have h1 : (specKeyed env c).filter (fun k => !k.1) = [] :=
    List.filter_eq_nil_iff.2 fun k hk => by simp [hall k hk]
  have h2 : (specKeyed env c).filter (fun k => k.1) = specKeyed env c :=
    List.filter_eq_self.2 fun k hk => hall k hk
  unfold specOrder
  rw [h1, h2]
  simp only [List.mergeSort_nil, List.nil_append]
  unfold specKeyed
  rw [List.map_map]
  have : ((fun k : Bool × Option Tag × String => k.2.2) ∘ fun (x : Field × Nat) =>
      (c.isExtension x.2, specTag env c x.1 x.2, x.1.name)) = (fun f : Field => f.name) ∘ Prod.fst := by
    funext x; rfl
  rw [this, ← List.map_map, List.zipIdx_map_fst]

/-- **partial** (one open finding left): when no automatically tagged CHOICE decides a position,
    the emitted SET order is the order of X.691 21.1 — root components in the canonical order of
    X.680 8.6, extension additions as written — wherever the marker stands -/
theorem emit_sort_eq_specOrder (env : Env) (c : Components) (em : Emitted)
    (hm : c.markers.length ≤ 1) (ht : TagsAgree env c)
    (h : emit env .sort c = some (.ok em)) : em.order = specOrder env c := by
  obtain ⟨rfields, hmap, hall, hw⟩ := emit_ok env .sort c em h
  obtain ⟨em', hem', _, hord⟩ := writeConstraints_ok .sort rfields (extensionAfter c.markers) hall
  rw [hw] at hem'
  cases hem'
  rw [hord]
  by_cases h0 : 0 ∈ c.markers
  · have hmk : c.markers = [0] := by
      match hmk : c.markers, hm, h0 with
      | [], _, h0 => cases h0
      | [p], _, h0 => simp at h0; rw [h0]
      | _ :: _ :: _, hm, _ => simp at hm
    rw [specOrder_marker_first env c hmk, hmk]
    have : extensionAfter [0] = some 0 := rfl
    rw [this, sortKeyed_marker_first, map_name_prepare, map_name_assignImplicitTags]
    exact map_name_rfields env c rfields hmap
  unfold specOrder
  rw [← keyed_eq_specKeyed env c rfields hm h0 ht hmap, List.filter_map, List.filter_map]
  have hr : ((fun k : Bool × Option Tag × String => !k.1) ∘
      fun p : Bool × RField => (p.1, p.2.tag, p.2.name)) = fun p => !p.1 := rfl
  have hx : ((fun k : Bool × Option Tag × String => k.1) ∘
      fun p : Bool × RField => (p.1, p.2.tag, p.2.name)) = fun p => p.1 := rfl
  rw [hr, hx, filter_root_prepare, filter_ext_prepare, sortKeyed_eq,
    ← List.map_mergeSort (r := keyLe) (s := specTagLe) (f := fun p => (p.1, p.2.tag, p.2.name))
      (fun a ha b hb => by
        have h1 := flag_take_prepare _ _ a ha
        have h2 := flag_take_prepare _ _ b hb
        obtain ⟨fa, ra⟩ := a; obtain ⟨fb, rb⟩ := b
        simp only at h1 h2
        subst h1; subst h2; rfl)]
  simp [List.map_map, Function.comp_def]

end Asn1Verif.Codegen.Tags
