import Asn1Verif.Gen.Consts
/-
  Codegen/Names — mirror of the name-mangling code of asn1rs, as it is.

  Two layers exist in the crate and both are applied on the way from an ASN.1 identifier to the
  identifier that ends up in the emitted Rust file:

  * layer A, `asn1rs-model/src/rust.rs` (free functions `rust_field_name`, `rust_variant_name`,
    `rust_struct_or_enum_name`, `rust_module_name(name, pad_non_alphabetic)`,
    `rust_constant_name`): applied by `convert_asn_to_rust` when `make_names_nice` (always, for
    `to_rust()`), produces the names stored in `Model<Rust>`;
  * layer B, `asn1rs-model/src/generate/rust.rs` (`RustCodeGenerator::rust_field_name(name,
    check_for_keywords)`, `::rust_variant_name`, `::rust_module_name`): applied by the code
    generator to the names of `Model<Rust>` when it prints them; this is where `KEYWORDS` is
    consulted (fields only).

  Characters: the Rust code uses the Unicode predicates `char::is_uppercase`, `is_lowercase`,
  `is_alphabetic` and `to_uppercase`/`to_lowercase`; the mirror uses Lean's ASCII versions
  (`Char.isUpper` …), which agree with them on ASCII input.  ASN.1 identifiers are ASCII
  (X.680 12.2, 12.3); the correspondence stream `names` sends ASCII only and the driver answers
  `skip` on anything else.  (`to_ascii_uppercase`/`to_ascii_lowercase`/`is_ascii_uppercase` of
  layer A's `rust_variant_name` are ASCII in the Rust code as well.)

  No Mathlib/Batteries: linked into the driver.
-/
namespace Asn1Verif.Codegen.Names

abbrev Name := List Char

/-- `chars.peek().map(|c| c.is_lowercase()).unwrap_or(false)` -/
def nextIsLower : List Char → Bool
  | [] => false
  | d :: _ => d.isLower

/-! ### layer A — asn1rs-model/src/rust.rs -/

/-- loop of `rust_variant_name`; state = (`next_upper`, `prev_upper`) -/
def variantA.go : Bool → Bool → List Char → List Char
  | _, _, [] => []
  | nextUpper, prevUpper, c :: cs =>
    if c = '-' ∨ c = '_' then
      go true false cs
    else if nextUpper && !prevUpper then
      c.toUpper :: go false true cs
    else
      (if prevUpper && !nextIsLower cs then c.toLower else c) :: go nextUpper c.isUpper cs

/-- `pub fn rust_variant_name(name: &str) -> String` of rust.rs -/
def variantA (n : Name) : Name := variantA.go true false n

/-- `pub fn rust_struct_or_enum_name` = `rust_variant_name` -/
def structOrEnumA (n : Name) : Name := variantA n

/-- the optional `'_'` pushed by the `pad_non_alphabetic` block -/
def padNow (pad outEmpty endsU prevAlpha : Bool) (c : Char) : Bool :=
  pad && (prevAlpha != c.isAlpha) && (c != '-') && (c != '_') && !outEmpty && !endsU

/-- the optional `'_'` pushed in front of a lowered capital -/
def underA (outEmpty prevLowered prevAlpha : Bool) (cs : List Char) : Bool :=
  !outEmpty && prevAlpha && (!prevLowered || nextIsLower cs)

/-- loop of `rust_module_name(name, pad_non_alphabetic)`; state = (`out.is_empty()`,
    `out.ends_with('_')`, `prev_lowered`, `prev_alphabetic`); every iteration pushes at least one
    character, so `out` is empty exactly before the first one -/
def moduleA.go (pad : Bool) : Bool → Bool → Bool → Bool → List Char → List Char
  | _, _, _, _, [] => []
  | outEmpty, endsU, prevLowered, prevAlpha, c :: cs =>
    let p := padNow pad outEmpty endsU prevAlpha c
    (if p then ['_'] else []) ++
    (if c.isUpper then
      (if underA outEmpty prevLowered prevAlpha cs then ['_'] else []) ++
        c.toLower :: go pad false (c.toLower == '_') true c.isAlpha cs
    else if c = '-' ∨ c = '_' then
      '_' :: go pad false true false c.isAlpha cs
    else
      c :: go pad false (c == '_') false c.isAlpha cs)

/-- `pub fn rust_module_name(name: &str, pad_non_alphabetic: bool) -> String` of rust.rs -/
def moduleA (pad : Bool) (n : Name) : Name := moduleA.go pad true false false false n

/-- `pub fn rust_field_name(name)` of rust.rs = `rust_module_name(name, false)` -/
def fieldA (n : Name) : Name := moduleA false n

/-- `pub fn rust_constant_name(name)` = `rust_module_name(name, true).to_uppercase()` -/
def constantA (n : Name) : Name := (moduleA true n).map Char.toUpper

/-- one round of `make_name_nice`: `if name.ends_with(suffix) { name.truncate(..) }` -/
def stripSuffix (n suffix : Name) : Name :=
  if suffix.isSuffixOf n then n.take (n.length - suffix.length) else n

/-- `Model::make_name_nice`: removes `_Module`, then `Module`, from the end (both rounds run) -/
def makeNameNice (n : Name) : Name :=
  stripSuffix (stripSuffix n "_Module".toList) "Module".toList

/-! ### layer B — asn1rs-model/src/generate/rust.rs (`RustCodeGenerator::…`) -/

/-- `name.replace('-', "_")` -/
def replHyphen (n : Name) : Name := n.map fun c => if c = '-' then '_' else c

/-- `Consts.KEYWORDS` as character lists -/
def keywordsB : List Name := Consts.KEYWORDS.map String.toList

/-- `RustCodeGenerator::rust_field_name(name, check_for_keywords)` -/
def fieldB (check : Bool) (n : Name) : Name :=
  let r := replHyphen n
  if check && keywordsB.contains r then r ++ ['_'] else r

/-- loop of `RustCodeGenerator::rust_variant_name`; state = `next_upper` -/
def variantB.go : Bool → List Char → List Char
  | _, [] => []
  | true, c :: cs => c.toUpper :: go false cs
  | false, c :: cs => if c = '-' ∨ c = '_' then go true cs else c :: go false cs

def variantB (n : Name) : Name := variantB.go true n

/-- loop of `RustCodeGenerator::rust_module_name`; state = (`out.is_empty()`, `prev_lowered`) -/
def moduleB.go : Bool → Bool → List Char → List Char
  | _, _, [] => []
  | outEmpty, prevLowered, c :: cs =>
    if c.isUpper then
      (if !outEmpty && (!prevLowered || nextIsLower cs) then ['_'] else []) ++
        c.toLower :: go false true cs
    else if c = '-' then
      '_' :: go false false cs
    else
      c :: go false false cs

def moduleB (n : Name) : Name := moduleB.go true false n

/-! ### what reaches the emitted file (composition done by `convert_asn_to_rust` + generator) -/

/-- struct field of a SEQUENCE/SET component `n` -/
def emitField (n : Name) : Name := fieldB true (fieldA n)
/-- enum variant of an ENUMERATED item / CHOICE alternative `n` -/
def emitVariant (n : Name) : Name := variantB (variantA n)
/-- struct/enum name of the type assignment `n` (printed verbatim by the generator) -/
def emitType (n : Name) : Name := structOrEnumA n
/-- `pub const` of the value assignment / named number `n` -/
def emitConst (n : Name) : Name := constantA n
/-- file stem and `use super::<…>` path segment of the module `n` -/
def emitModule (n : Name) : Name := moduleB (moduleA false (makeNameNice n))
/-- name of the definition generated for an inline SEQUENCE/SET/CHOICE/ENUMERATED component
    `field` of the (already mangled) definition `parent`:
    `struct_or_enum_name(format!("{}{}", parent, struct_or_enum_name(field)))` -/
def emitInline (parent field : Name) : Name := structOrEnumA (parent ++ structOrEnumA field)

/-- walker.rs `combined_field_type_name(base, name)` = `rust_variant_name(base) ++ "Field" ++
    rust_variant_name(name)` (layer B's function) names the helper types `AsnDef<…>` and
    `___asn1rs_<…>Constraint` of a component; `name` is the component's `Model<Rust>` name -/
def emitHelper (n : Name) : Name := variantB (fieldA n)

/-! ### Rust's keyword list (2021 edition: strict, reserved, and the weak-but-reserved `try`) -/

/-- every word that cannot be used as a plain identifier in a 2021-edition crate -/
def RustKeywords2021 : List String :=
  ["as", "break", "const", "continue", "crate", "else", "enum", "extern", "false", "fn", "for",
   "if", "impl", "in", "let", "loop", "match", "mod", "move", "mut", "pub", "ref", "return",
   "self", "Self", "static", "struct", "super", "trait", "true", "type", "unsafe", "use", "where",
   "while", "async", "await", "dyn", "abstract", "become", "box", "do", "final", "macro",
   "override", "priv", "typeof", "unsized", "virtual", "yield", "try"]

def rustKeywords : List Name := RustKeywords2021.map String.toList

def isRustKeyword (n : Name) : Bool := rustKeywords.contains n

/-- the Rust keywords the generator's `KEYWORDS` does not know -/
def uncoveredKeywords : List Name := rustKeywords.filter fun k => !keywordsB.contains k

/-! ### shapes -/

/-- `[A-Za-z_][A-Za-z0-9_]*` -/
def RustIdentShape : Name → Bool
  | [] => false
  | c :: cs => (c.isAlpha || c == '_') && cs.all fun d => d.isAlphanum || d == '_'

/-- no `--`, no trailing `-` -/
def hyphensOk : List Char → Bool
  | [] => true
  | [c] => c != '-'
  | c :: d :: cs => !(c == '-' && d == '-') && hyphensOk (d :: cs)

/-- X.680 12.2/12.3: a letter, then letters, digits and single hyphens, not ending in a hyphen
    (12.3 identifiers start with a lower-case letter, 12.2 type/module references with an
    upper-case one; see `lowerFirst`/`upperFirst`) -/
def AsnIdent : Name → Bool
  | [] => false
  | c :: cs => c.isAlpha && cs.all (fun d => d.isAlphanum || d == '-') && hyphensOk (c :: cs)

/-- what the tokenizer lets through in addition: underscores, any hyphen placement -/
def WeakIdent : Name → Bool
  | [] => false
  | c :: cs => c.isAlpha && cs.all fun d => d.isAlphanum || d == '-' || d == '_'

end Asn1Verif.Codegen.Names
