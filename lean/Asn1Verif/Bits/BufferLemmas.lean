import Asn1Verif.Bits.Buffer
import Asn1Verif.Bits.SliceLemmas
/-
  Lemmas about the `BitBuffer` / `Bits` mirror: representation invariant and the abstraction
  `abs : BitBuffer → List Bool` (the first `write_position` bits).
-/
namespace Asn1Verif.Bits
open Asn1Verif Outcome

/-- `len` bits of a byte list starting at bit `off` -/
def bitsOf (bs : List Byte) (off len : Nat) : List Bool :=
  (List.range len).map (fun i => getBit bs (off + i))

@[simp] theorem length_bitsOf (bs : List Byte) (off len : Nat) : (bitsOf bs off len).length = len := by
  simp [bitsOf]

theorem getElem_bitsOf (bs : List Byte) (off len i : Nat) (h : i < (bitsOf bs off len).length) :
    (bitsOf bs off len)[i] = getBit bs (off + i) := by
  simp [bitsOf]

theorem bitsOf_append (bs : List Byte) (off a b : Nat) :
    bitsOf bs off (a + b) = bitsOf bs off a ++ bitsOf bs (off + a) b := by
  apply List.ext_getElem
  · simp
  · intro i h1 h2
    rw [getElem_bitsOf]
    by_cases h : i < a
    · rw [List.getElem_append_left (by simpa using h), getElem_bitsOf]
    · rw [List.getElem_append_right (by simpa using h), getElem_bitsOf]
      simp; congr 1; omega

theorem bitsOf_congr (a b : List Byte) (oa ob len : Nat)
    (h : ∀ i, i < len → getBit a (oa + i) = getBit b (ob + i)) : bitsOf a oa len = bitsOf b ob len := by
  apply List.ext_getElem
  · simp
  · intro i h1 h2
    rw [getElem_bitsOf, getElem_bitsOf]
    exact h i (by simpa using h1)

namespace BitBuffer

/-- the bits written so far -/
def abs (b : BitBuffer) : List Bool := bitsOf b.buffer 0 b.wp

/-- exactly `⌈bit_len/8⌉` bytes, zero padding -/
def Inv (b : BitBuffer) : Prop :=
  b.buffer.length = (b.wp + 7) / 8 ∧ ∀ j, b.wp ≤ j → getBit b.buffer j = false

theorem inv_default : Inv {} := by
  refine ⟨rfl, ?_⟩
  intro j _; exact getBit_of_ge _ _ (by simp)

theorem getBit_append_replicate (bs : List Byte) (k j : Nat) :
    getBit (bs ++ List.replicate k 0#8) j = getBit bs j := by
  unfold getBit
  simp only [List.getD_eq_getElem?_getD]
  by_cases h : j / 8 < bs.length
  · rw [List.getElem?_append_left h]
  · rw [List.getElem?_append_right (by omega)]
    rw [List.getElem?_eq_none (l := bs) (by omega)]
    simp only [List.getElem?_replicate]
    split <;> simp

theorem ensure_spec (b : BitBuffer) (n : Nat) (h : b.Inv) :
    (b.ensure n).buffer.length = (b.wp + n + 7) / 8 ∧ (b.ensure n).wp = b.wp ∧
      (b.ensure n).rp = b.rp ∧ ∀ j, getBit (b.ensure n).buffer j = getBit b.buffer j := by
  unfold ensure
  rw [byte_len_eq]
  obtain ⟨h1, h2⟩ := h
  split
  · refine ⟨?_, rfl, rfl, ?_⟩
    · simp; omega
    · intro j; exact getBit_append_replicate _ _ _
  · refine ⟨?_, rfl, rfl, fun _ => rfl⟩
    omega

theorem writeBit_spec (b : BitBuffer) (x : Bool) (h : b.Inv) :
    ∃ b', b.writeBit x = ok b' ∧ b'.Inv ∧ b'.wp = b.wp + 1 ∧ b'.rp = b.rp ∧
      ∀ j, getBit b'.buffer j = if j = b.wp then x else getBit b.buffer j := by
  obtain ⟨e1, e2, e3, e4⟩ := ensure_spec b 1 h
  unfold writeBit sliceWriteBit
  rw [byte_len_eq]
  have hlt : ¬ ((b.ensure 1).wp + 1 > (b.ensure 1).buffer.length * 8) := by rw [e1, e2]; omega
  simp only [hlt, ite_false, Outcome.bind_ok, Outcome.pure_def]
  refine ⟨_, rfl, ⟨?_, ?_⟩, ?_, ?_, ?_⟩
  · simp [e1, e2]
  · intro j hj
    simp only at hj
    rw [getBit_setBit _ _ _ _ (by rw [e1, e2]; omega)]
    have : j ≠ (b.ensure 1).wp := by omega
    simp only [this, ite_false]
    rw [e4]; exact h.2 j (by omega)
  · simp [e2]
  · simp [e3]
  · intro j
    simp only
    rw [getBit_setBit _ _ _ _ (by rw [e1, e2]; omega), e2, e4]

theorem writeBitsWithOffsetLen_spec (b : BitBuffer) (src : List Byte) (off len : Nat) (h : b.Inv)
    (hs : off + len ≤ src.length * 8) :
    ∃ b', b.writeBitsWithOffsetLen src off len = ok b' ∧ b'.Inv ∧ b'.wp = b.wp + len ∧
      b'.rp = b.rp ∧
      ∀ j, getBit b'.buffer j =
        if b.wp ≤ j ∧ j < b.wp + len then getBit src (off + (j - b.wp)) else getBit b.buffer j := by
  obtain ⟨e1, e2, e3, e4⟩ := ensure_spec b len h
  unfold writeBitsWithOffsetLen sliceWriteBitsWithOffsetLen failIf
  rw [byte_len_eq]
  have hpre : ¬ (src.length * 8 < off + len) := by omega
  simp only [hpre, decide_false, Bool.false_eq_true, ite_false, Outcome.bind_ok,
    bitStringCopyBulked_eq]
  obtain ⟨hok, hlen, hbits⟩ := bitStringCopy_ok src off (b.ensure len).buffer (b.ensure len).wp len
    (by rw [e1, e2]; omega) hs
  rw [hok]
  simp only [Outcome.bind_ok, Outcome.pure_def]
  refine ⟨_, rfl, ⟨?_, ?_⟩, ?_, ?_, ?_⟩
  · simp [e1, e2]
  · intro j hj
    simp only at hj ⊢
    rw [hbits j, e2, e4]
    have : ¬ (b.wp ≤ j ∧ j < b.wp + len) := by omega
    simp only [this, ite_false]
    exact h.2 j (by omega)
  · simp [e2]
  · simp [e3]
  · intro j; simp only; rw [hbits j, e2, e4]

theorem writeBitsWithOffsetLen_err (b : BitBuffer) (src : List Byte) (off len : Nat)
    (hs : src.length * 8 < off + len) :
    b.writeBitsWithOffsetLen src off len = err .endOfStream := by
  unfold writeBitsWithOffsetLen failIf
  rw [byte_len_eq]
  simp [hs]

/-- the abstraction: a successful write appends exactly the source bits -/
theorem abs_of_bits (b b' : BitBuffer) (src : List Byte) (off len : Nat)
    (hwp : b'.wp = b.wp + len)
    (hb : ∀ j, getBit b'.buffer j =
        if b.wp ≤ j ∧ j < b.wp + len then getBit src (off + (j - b.wp)) else getBit b.buffer j) :
    b'.abs = b.abs ++ bitsOf src off len := by
  unfold abs
  rw [hwp, bitsOf_append]
  congr 1
  · apply bitsOf_congr; intro i hi
    rw [hb, if_neg (by omega)]
  · apply bitsOf_congr; intro i hi
    rw [hb, if_pos (by omega)]; congr 1; omega

theorem writeBit_abs (b : BitBuffer) (x : Bool) (h : b.Inv) :
    ∃ b', b.writeBit x = ok b' ∧ b'.Inv ∧ b'.abs = b.abs ++ [x] ∧ b'.rp = b.rp := by
  obtain ⟨b', h1, h2, h3, h4, h5⟩ := writeBit_spec b x h
  refine ⟨b', h1, h2, ?_, h4⟩
  unfold abs
  rw [h3, bitsOf_append]
  congr 1
  · apply bitsOf_congr; intro i hi
    rw [h5, if_neg (by omega)]
  · simp [bitsOf, h5]

theorem writeBitsWithOffsetLen_abs (b : BitBuffer) (src : List Byte) (off len : Nat) (h : b.Inv)
    (hs : off + len ≤ src.length * 8) :
    ∃ b', b.writeBitsWithOffsetLen src off len = ok b' ∧ b'.Inv ∧
      b'.abs = b.abs ++ bitsOf src off len ∧ b'.rp = b.rp := by
  obtain ⟨b', h1, h2, h3, h4, h5⟩ := writeBitsWithOffsetLen_spec b src off len h hs
  exact ⟨b', h1, h2, abs_of_bits b b' src off len h3 h5, h4⟩

/-! ### writes placed at a position (`with_write_position_at`) -/

/-- nothing grows when the bits fit into the octets that are there -/
theorem ensure_of_fits (b : BitBuffer) (n : Nat) (hfit : b.wp + n ≤ b.buffer.length * 8) :
    b.ensure n = b := by
  unfold ensure
  rw [byte_len_eq]
  split
  · have : (b.wp + n + 7) / 8 - b.buffer.length = 0 := by omega
    simp [this]
  · rfl

/-- a write of `len` bits placed at `p`, inside the bits written so far: succeeds, changes exactly the
    bits `p .. p + len` to the source bits, and leaves the length of the buffer, both cursors and the
    invariant as they were -/
theorem atPos_bits_spec (b : BitBuffer) (p : Nat) (src : List Byte) (off len : Nat) (h : b.Inv)
    (hs : off + len ≤ src.length * 8) (hp : p + len ≤ b.wp) :
    ∃ b', b.atPos p (fun b => b.writeBitsWithOffsetLen src off len) = ok b' ∧ b'.Inv ∧
      b'.wp = b.wp ∧ b'.rp = b.rp ∧ b'.buffer.length = b.buffer.length ∧
      ∀ j, getBit b'.buffer j =
        if p ≤ j ∧ j < p + len then getBit src (off + (j - p)) else getBit b.buffer j := by
  obtain ⟨h1, h2⟩ := h
  have hcap : b.wp ≤ b.buffer.length * 8 := by omega
  have hfit : ({ b with wp := p } : BitBuffer).wp + len ≤ ({ b with wp := p } : BitBuffer).buffer.length * 8 := by
    simp only; omega
  unfold atPos Outcome.assert
  have hpos : p ≤ b.buffer.length * 8 := by omega
  simp only [hpos, decide_true, ite_true, Outcome.bind_ok]
  unfold writeBitsWithOffsetLen sliceWriteBitsWithOffsetLen failIf
  rw [byte_len_eq]
  have hpre : ¬ (src.length * 8 < off + len) := by omega
  simp only [hpre, decide_false, Bool.false_eq_true, ite_false, Outcome.bind_ok,
    bitStringCopyBulked_eq, ensure_of_fits _ _ hfit]
  obtain ⟨hok, hlen, hbits⟩ := bitStringCopy_ok src off b.buffer p len (by omega) hs
  rw [hok]
  simp only [Outcome.bind_ok, Outcome.pure_def]
  refine ⟨_, rfl, ⟨?_, ?_⟩, rfl, rfl, ?_, ?_⟩
  · simp only; rw [hlen]; exact h1
  · intro j hj
    simp only at hj ⊢
    rw [hbits j]
    have : ¬ (p ≤ j ∧ j < p + len) := by omega
    simp only [this, ite_false]
    exact h2 j hj
  · simp only; exact hlen
  · intro j; simp only; exact hbits j

/-- `with_write_position_at(p, |b| b.write_bit(x))` — the crate's own use (presence and extension
    bits) — inside the written bits: exactly bit `p` becomes `x` -/
theorem patchBit_spec (b : BitBuffer) (p : Nat) (x : Bool) (h : b.Inv) (hp : p < b.wp) :
    ∃ b', b.patchBit p x = ok b' ∧ b'.Inv ∧ b'.wp = b.wp ∧ b'.rp = b.rp ∧
      b'.buffer.length = b.buffer.length ∧
      ∀ j, getBit b'.buffer j = if j = p then x else getBit b.buffer j := by
  obtain ⟨h1, h2⟩ := h
  have hcap : b.wp ≤ b.buffer.length * 8 := by omega
  have hfit : ({ b with wp := p } : BitBuffer).wp + 1 ≤ ({ b with wp := p } : BitBuffer).buffer.length * 8 := by
    simp only; omega
  unfold patchBit Outcome.assert
  have hpos : p ≤ b.buffer.length * 8 := by omega
  simp only [hpos, decide_true, ite_true, Outcome.bind_ok]
  unfold writeBit sliceWriteBit
  rw [byte_len_eq, ensure_of_fits _ _ hfit]
  have hlt : ¬ (p + 1 > b.buffer.length * 8) := by omega
  simp only [hlt, ite_false, Outcome.bind_ok, Outcome.pure_def]
  have hlen : (setBit b.buffer p x).length = b.buffer.length := by simp [setBit]
  refine ⟨_, rfl, ⟨?_, ?_⟩, rfl, rfl, ?_, ?_⟩
  · simp only; rw [hlen]; exact h1
  · intro j hj
    simp only at hj ⊢
    rw [getBit_setBit _ _ _ _ (by omega)]
    have : j ≠ p := by omega
    simp only [this, ite_false]
    exact h2 j hj
  · simp only; exact hlen
  · intro j; simp only; exact getBit_setBit _ _ _ _ (by omega)

/-! ### reading -/

theorem readBit_spec (b : BitBuffer) (h : b.wp ≤ b.buffer.length * 8) :
    b.readBit = if b.rp < b.wp then ok (getBit b.buffer b.rp, { b with rp := b.rp + 1 })
      else err .endOfStream := by
  unfold readBit sliceReadBit
  rw [byte_len_eq]
  split
  · have : ¬ (b.rp ≥ b.buffer.length * 8) := by omega
    simp [this]
  · rfl

theorem readBitsWithOffsetLen_ok (b : BitBuffer) (dst : List Byte) (off len : Nat)
    (h : b.wp ≤ b.buffer.length * 8) (hr : b.rp + len ≤ b.wp) (hd : off + len ≤ dst.length * 8) :
    ∃ dst', b.readBitsWithOffsetLen dst off len = ok (dst', { b with rp := b.rp + len }) ∧
      CopySpec b.buffer b.rp dst off len dst' := by
  unfold readBitsWithOffsetLen ensureCanRead failIf sliceReadBitsWithOffsetLen
  have : ¬ (len > b.wp - b.rp) := by omega
  simp only [this, decide_false, Bool.false_eq_true, ite_false, Outcome.bind_ok]
  rw [bitStringCopyBulked_eq]
  obtain ⟨hok, hspec⟩ := bitStringCopy_ok b.buffer b.rp dst off len hd (by omega)
  rw [hok]
  exact ⟨_, rfl, hspec⟩

theorem readBitsWithOffsetLen_eos (b : BitBuffer) (dst : List Byte) (off len : Nat)
    (hrp : b.rp ≤ b.wp) (hr : b.wp < b.rp + len) :
    b.readBitsWithOffsetLen dst off len = err .endOfStream := by
  unfold readBitsWithOffsetLen ensureCanRead failIf
  have : len > b.wp - b.rp := by omega
  simp [this]

end BitBuffer

namespace BitsView

/-- `len ≤ 8·|slice|` (what `From<(&[u8], usize)>` debug-asserts) and `pos ≤ len` -/
def Inv (b : BitsView) : Prop := b.len ≤ b.slice.length * 8 ∧ b.pos ≤ b.len

theorem readBit_spec (b : BitsView) (h : b.Inv) :
    b.readBit = if b.pos < b.len then ok (getBit b.slice b.pos, { b with pos := b.pos + 1 })
      else err .endOfStream := by
  unfold readBit sliceReadBit
  rw [byte_len_eq]
  obtain ⟨h1, _⟩ := h
  split
  · have : ¬ (b.pos ≥ b.slice.length * 8) := by omega
    simp [this]
  · rfl

theorem readBitsWithOffsetLen_ok (b : BitsView) (dst : List Byte) (off len : Nat)
    (h : b.Inv) (hr : b.pos + len ≤ b.len) (hd : off + len ≤ dst.length * 8) :
    ∃ dst', b.readBitsWithOffsetLen dst off len = ok (dst', { b with pos := b.pos + len }) ∧
      CopySpec b.slice b.pos dst off len dst' := by
  unfold readBitsWithOffsetLen ensureCanRead failIf sliceReadBitsWithOffsetLen
  have : ¬ (len > b.len - b.pos) := by omega
  simp only [this, decide_false, Bool.false_eq_true, ite_false, Outcome.bind_ok]
  rw [bitStringCopyBulked_eq]
  obtain ⟨hok, hspec⟩ := bitStringCopy_ok b.slice b.pos dst off len hd (by have := h.1; omega)
  rw [hok]
  exact ⟨_, rfl, hspec⟩

/-- a multi-bit read that would pass the *declared* length fails with an error -/
theorem readBitsWithOffsetLen_eos (b : BitsView) (dst : List Byte) (off len : Nat)
    (hrp : b.pos ≤ b.len) (hr : b.len < b.pos + len) :
    b.readBitsWithOffsetLen dst off len = err .endOfStream := by
  unfold readBitsWithOffsetLen ensureCanRead failIf
  have : len > b.len - b.pos := by omega
  simp [this]

end BitsView

end Asn1Verif.Bits
