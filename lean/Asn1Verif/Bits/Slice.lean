import Asn1Verif.Base.Outcome
import Asn1Verif.Gen.Consts
/-
  L0 — mirror of `src/protocol/per/unaligned/slice.rs`
  (`bit_string_copy`, `bit_string_copy_bulked`, `BitRead`/`BitWrite` for `(&[u8], &mut usize)`).

  Bytes are `BitVec 8`, a byte slice is a `List Byte`, cursors are `Nat`.
  A `&mut [u8]` parameter becomes an argument and a returned list.
-/
namespace Asn1Verif.Bits
open Asn1Verif Outcome

abbrev Byte := BitVec 8

/-- bit `i` of a byte slice, most significant bit of byte 0 first
    (`src[i / 8] & (0x80 >> (i % 8)) != 0`) -/
def getBit (bs : List Byte) (i : Nat) : Bool := (bs.getD (i / 8) 0#8).getMsbD (i % 8)

/-- `dst[i/8] |= 0x01 << (7 - i%8)` resp. `dst[i/8] &= !(0x01 << (7 - i%8))` -/
def setBit (bs : List Byte) (i : Nat) (b : Bool) : List Byte :=
  bs.modify (i / 8) (fun d =>
    if b then d ||| (1#8 <<< (7 - i % 8)) else d &&& ~~~(1#8 <<< (7 - i % 8)))

/-- the `for bit in 0..len` loop of `bit_string_copy` -/
def copyLoop (src : List Byte) (sp : Nat) (dst : List Byte) (dp : Nat) : Nat → List Byte
  | 0 => dst
  | n + 1 => copyLoop src (sp + 1) (setBit dst dp (getBit src sp)) (dp + 1) n

/-- `bit_string_copy(src, src_bit_position, dst, dst_bit_position, len)` -/
def bitStringCopy (src : List Byte) (sp : Nat) (dst : List Byte) (dp len : Nat) :
    Outcome (List Byte) :=
  if dst.length * Consts.BYTE_LEN < dp + len then err .insufficientSpace
  else if src.length * Consts.BYTE_LEN < sp + len then err .endOfStream
  else ok (copyLoop src sp dst dp len)

/-- unaligned branch of the byte loop of `bit_string_copy_bulked`, `n` iterations starting at
    `src[si]`, `dst[di]`, with `off = dst_byte_offset ≠ 0` -/
def bulkLoop (src : List Byte) (si : Nat) (dst : List Byte) (di off : Nat) : Nat → List Byte
  | 0 => dst
  | n + 1 =>
    let byte := src.getD si 0#8
    let halfLeft := byte >>> off
    let halfRight := byte <<< (8 - off)
    let dst1 := dst.modify di (fun d => (d &&& (0xFF#8 <<< (8 - off))) ||| halfLeft)
    let dst2 := dst1.modify (di + 1) (fun d => (d &&& (0xFF#8 >>> off)) ||| halfRight)
    bulkLoop src (si + 1) dst2 (di + 1) off n

/-- `dst[di..di+n].copy_from_slice(&src[si..si+n])` -/
def copyFromSlice (src : List Byte) (si : Nat) (dst : List Byte) (di n : Nat) : List Byte :=
  dst.take di ++ (src.drop si).take n ++ dst.drop (di + n)

/-- `bit_string_copy_bulked(src, src_bit_position, dst, dst_bit_position, len)` -/
def bitStringCopyBulked (src : List Byte) (sp : Nat) (dst : List Byte) (dp len : Nat) :
    Outcome (List Byte) :=
  if len ≤ Consts.BULK_THRESHOLD then bitStringCopy src sp dst dp len
  else if dst.length * Consts.BYTE_LEN < dp + len then err .insufficientSpace
  else if src.length * Consts.BYTE_LEN < sp + len then err .endOfStream
  else
    let head := (Consts.BYTE_LEN - sp % Consts.BYTE_LEN) % Consts.BYTE_LEN
    -- `head ≤ 7 < len`, so `head.min(len) = head` and the early return is dead
    let dst0 := if head ≠ 0 then copyLoop src sp dst dp head else dst
    let sp' := sp + head
    let dp' := dp + head
    let len' := len - head
    let dstByteIndex := dp' / Consts.BYTE_LEN
    let dstByteOffset := dp' % Consts.BYTE_LEN
    let srcByteIndex := sp' / Consts.BYTE_LEN
    let lenInBytes := len' / Consts.BYTE_LEN
    let dst1 :=
      if dstByteOffset = 0 then copyFromSlice src srcByteIndex dst0 dstByteIndex lenInBytes
      else bulkLoop src srcByteIndex dst0 dstByteIndex dstByteOffset lenInBytes
    if len' % Consts.BYTE_LEN = 0 then ok dst1
    else
      bitStringCopy src (sp' + lenInBytes * Consts.BYTE_LEN) dst1
        (dp' + lenInBytes * Consts.BYTE_LEN) (len' % Consts.BYTE_LEN)

/-! ### `impl BitRead for (&[u8], &mut usize)` -/

/-- `read_bit`: returns the bit and the new position -/
def sliceReadBit (bs : List Byte) (pos : Nat) : Outcome (Bool × Nat) :=
  if pos ≥ bs.length * Consts.BYTE_LEN then err .endOfStream
  else ok (getBit bs pos, pos + 1)

/-- `read_bits_with_offset_len(dst, dst_bit_offset, dst_bit_len)`: new `dst`, new position -/
def sliceReadBitsWithOffsetLen (bs : List Byte) (pos : Nat) (dst : List Byte) (off len : Nat) :
    Outcome (List Byte × Nat) := do
  let dst' ← bitStringCopyBulked bs pos dst off len
  pure (dst', pos + len)

def sliceReadBits (bs : List Byte) (pos : Nat) (dst : List Byte) :=
  sliceReadBitsWithOffsetLen bs pos dst 0 (dst.length * Consts.BYTE_LEN)

def sliceReadBitsWithOffset (bs : List Byte) (pos : Nat) (dst : List Byte) (off : Nat) :
    Outcome (List Byte × Nat) := do
  -- `checked_sub(..).ok_or_else(insufficient_space_in_destination_buffer)`
  failIf (decide (dst.length * Consts.BYTE_LEN < off)) .insufficientSpace
  sliceReadBitsWithOffsetLen bs pos dst off (dst.length * Consts.BYTE_LEN - off)

def sliceReadBitsWithLen (bs : List Byte) (pos : Nat) (dst : List Byte) (len : Nat) :=
  sliceReadBitsWithOffsetLen bs pos dst 0 len

/-! ### `impl BitWrite for (&mut [u8], &mut usize)` -/

def sliceWriteBit (bs : List Byte) (pos : Nat) (bit : Bool) : Outcome (List Byte × Nat) :=
  if pos + 1 > bs.length * Consts.BYTE_LEN then err .endOfStream
  else ok (setBit bs pos bit, pos + 1)

def sliceWriteBitsWithOffsetLen (bs : List Byte) (pos : Nat) (src : List Byte) (off len : Nat) :
    Outcome (List Byte × Nat) := do
  let bs' ← bitStringCopyBulked src off bs pos len
  pure (bs', pos + len)

def sliceWriteBitsWithOffset (bs : List Byte) (pos : Nat) (src : List Byte) (off : Nat) :
    Outcome (List Byte × Nat) := do
  -- `checked_sub(..).ok_or_else(insufficient_data_in_source_buffer)`
  failIf (decide (src.length * Consts.BYTE_LEN < off)) .endOfStream
  sliceWriteBitsWithOffsetLen bs pos src off (src.length * Consts.BYTE_LEN - off)

def sliceWriteBits (bs : List Byte) (pos : Nat) (src : List Byte) :=
  sliceWriteBitsWithOffset bs pos src 0

def sliceWriteBitsWithLen (bs : List Byte) (pos : Nat) (src : List Byte) (len : Nat) :=
  sliceWriteBitsWithOffsetLen bs pos src 0 len

end Asn1Verif.Bits
